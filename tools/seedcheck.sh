#!/bin/bash
# usage: seedcheck.sh <patch.diff> <tier> <Cnn> [<Cnn> ...]
# Runs checks against a seeded change WITHOUT touching /repo: the patch is applied in a scratch worktree
# and the changed files are handed to the checks as a go build overlay.
set -u
patch="$1"; tier="$2"; shift 2
tag=$(basename "$(dirname "$patch")")
wt="/tmp/sc-$tag-$$"
git -C /repo worktree add -q --detach "$wt" HEAD || exit 2
( cd "$wt" && git apply "$patch" ) || { git -C /repo worktree remove --force "$wt"; echo "patch does not apply"; exit 2; }
root="/verif/.work/seedroot-$tag-$$"; mkdir -p "$root/ov"
python3 - "$wt" "$root" <<'PY'
import json,subprocess,sys,shutil,os
wt,root=sys.argv[1:]
files=subprocess.check_output(["git","-C",wt,"diff","--name-only"],text=True).split()
rep={}
for f in files:
    dst=os.path.join(root,"ov",f.replace("/","__")); shutil.copy(os.path.join(wt,f),dst); rep["/repo/"+f]=dst
json.dump({"Replace":rep},open(os.path.join(root,"ov.json"),"w"))
print("overlay:",list(rep))
PY
git -C /repo worktree remove --force "$wt"
for n in vmod known-findings.txt run; do ln -sfn /verif/$n "$root/$n"; done
rc=0
for id in "$@"; do
  out=$(VERIF_ROOT="$root" VERIF_OVERLAY="$root/ov.json" /verif/run "$id" "$tier" 2>&1 | grep -E "^(VIOLATION|OK|BUILD|panic|INFRA|fatal)" | cut -c1-260)
  if echo "$out" | grep -q "^VIOLATION"; then echo "$tag $id CAUGHT :: $(echo "$out" | grep -c '^VIOLATION') violation line(s); first: $(echo "$out" | grep '^VIOLATION' | head -1)"; else echo "$tag $id MISSED :: $out"; rc=1; fi
done
rm -rf "$root"
exit $rc
