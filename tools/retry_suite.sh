#!/bin/bash
# usage: retry_suite.sh <seed id>  -- the suite run of verify_seed.sh failed only because of wall-clock
# timeouts on the loaded machine: re-run exactly the packages that failed, in a fresh worktree with the patch
# applied; if all of them pass now, record that in meta.json (kept = true).
set -u
export GOFLAGS=-mod=mod GOPROXY=off GOSUMDB=off GOTOOLCHAIN=local
id="$1"; out="/verif/seeded/$id"; log="/verif/.work/vs-$id-suite.log"; wt="/tmp/rs-$id"
pkgs=$(grep -E "^FAIL\s+github.com" "$log" | awk '{print $2}' | sed 's#github.com/bnb-chain/tss-lib/v2#.#' | sort -u | tr '\n' ' ')
[ -z "$pkgs" ] && { echo "$id: no failed package lines"; exit 2; }
git -C /repo worktree remove --force "$wt" 2>/dev/null
git -C /repo worktree add -q --detach "$wt" HEAD || exit 2
cd "$wt" && git apply "$out/patch.diff" || exit 2
go test -vet=off -count=1 -timeout 40m $pkgs > "/verif/.work/rs-$id.log" 2>&1 && ok=true || ok=false
cd /verif; git -C /repo worktree remove --force "$wt"
python3 - "$id" "$ok" "$pkgs" <<'PY'
import json,sys
id,ok,pkgs=sys.argv[1:]
p=f"/verif/seeded/{id}/meta.json"; m=json.load(open(p)); v=m["verified_in_fresh_worktree"]
v["suite_first_run"]="all packages ok except wall-clock timeouts on the loaded machine in: "+pkgs.strip()
v["suite_rerun_of_those_packages"]="pass" if ok=="true" else "fail"
if ok=="true":
    v["existing_suite_passes_with_change"]=True
    m["kept"]= v["patch_applies_to_repo_HEAD"] and v["builds"] and v["demonstration_with_change"]=="fail" and v["demonstration_without_change"]=="pass"
json.dump(m,open(p,"w"),indent=1); print(id,"rerun",pkgs,ok,"kept" if m["kept"] else "not kept")
PY
