#!/usr/bin/env python3
"""Generates /verif/MANIFEST.json from tools/checks.json (one entry per claimed property)."""
import json, os, sys
root = os.path.dirname(os.path.dirname(os.path.abspath(__file__)))
spec = json.load(open(os.path.join(root, "tools", "checks.json")))
props = [json.loads(l)["id"] for l in open(os.path.join(root, "properties.jsonl"))]
checks = []
for c in spec["checks"]:
    if c.get("disabled"):
        continue
    pid = c["property_id"]
    checks.append({
        "property_id": pid,
        "quick_cmd": f"./run {pid} quick",
        "thorough_cmd": f"./run {pid} thorough",
        "evidence_file": f"/verif/evidence/{pid}.json",
        "replay_cmd_template": f"./run {pid} replay {{path}}",
        "engine": c["engine"],
        "level_claimed": {"category": c["category"], "text": c["text"], "design_ref": c.get("design_ref", "DESIGN.md §3 " + pid)},
        "level_note": c["note"],
        "technique": c["technique"],
    })
claimed = {c["property_id"] for c in checks}
na = [{"property_id": p, "reason": spec["not_applicable"].get(p, "check not built yet in this round; see DESIGN.md §8 build order")} for p in props if p not in claimed]
m = {
    "version": 1,
    "setup_cmd": spec["setup_cmd"],
    "hooks": spec["hooks"],
    "engines": spec["engines"],
    "checks": checks,
    "notes": spec["notes"],
    "not_applicable": na,
}
json.dump(m, open(os.path.join(root, "MANIFEST.json"), "w"), indent=1)
print("claimed:", sorted(claimed), "not claimed:", [x["property_id"] for x in na])
