#!/bin/bash
# usage: verify_seed.sh <id> <seed worktree>   -- independent re-verification of a seeded change in a fresh worktree
# 1. patch applies to a clean checkout of /repo HEAD  2. existing suite passes with it
# 3. demonstration fails with it                      4. demonstration passes without it
set -u
export GOFLAGS=-mod=mod GOPROXY=off GOSUMDB=off GOTOOLCHAIN=local
id="$1"; src="$2"; wt="/tmp/vs-$id"; out="/verif/seeded/$id"
mkdir -p "$out"
cp "$src/SEED/patch.diff" "$out/patch.diff"
cp "$src/SEED/meta.json" "$out/meta.agent.json"
demo=$(ls "$src"/SEED/*_test.go 2>/dev/null | head -1)
[ -n "$demo" ] && cp "$demo" "$out/demo_test.go.txt"
pkgdir=$(python3 -c "import json;print(json.load(open('$src/SEED/meta.json')).get('demo_package_dir','').strip('/'))")
git -C /repo worktree remove --force "$wt" 2>/dev/null
git -C /repo worktree add -q --detach "$wt" HEAD || exit 2
cd "$wt" || exit 2
res="{}"
if git apply --check "$out/patch.diff" 2>/dev/null; then applies=true; else applies=false; fi
git apply "$out/patch.diff" 2>/dev/null
go build ./... >/dev/null 2>&1 && builds=true || builds=false
suite_log="/verif/.work/vs-$id-suite.log"
go test -vet=off -count=1 -timeout 40m ./... > "$suite_log" 2>&1 && suite=true || suite=false
demo_with=skipped; demo_without=skipped
if [ -n "$demo" ] && [ -n "$pkgdir" ]; then
  cp "$demo" "$wt/$pkgdir/zz_seed_demo_test.go"
  tests=$(grep -o "^func Test[A-Za-z0-9_]*" "$demo" | sed 's/func //' | paste -sd'|')
  go test -vet=off -count=1 -timeout 20m -run "^($tests)\$" "./$pkgdir/" > "/verif/.work/vs-$id-demo-with.log" 2>&1 && demo_with=pass || demo_with=fail
  git apply -R "$out/patch.diff"
  go test -vet=off -count=1 -timeout 20m -run "^($tests)\$" "./$pkgdir/" > "/verif/.work/vs-$id-demo-without.log" 2>&1 && demo_without=pass || demo_without=fail
fi
cd /verif
git -C /repo worktree remove --force "$wt"
python3 - "$id" "$applies" "$builds" "$suite" "$demo_with" "$demo_without" "$pkgdir" <<'PY'
import json,sys
id,applies,builds,suite,dw,dwo,pkg=sys.argv[1:]
out=f"/verif/seeded/{id}"
a=json.load(open(f"{out}/meta.agent.json"))
m={"property":a.get("property",id),"clause_broken":a.get("clause_broken"),"needs":a.get("needs"),"summary":a.get("summary"),
   "files_changed":a.get("files_changed"),"demo":"demo_test.go.txt (copy into %s/ as a _test.go file)"%pkg,
   "verified_in_fresh_worktree":{"patch_applies_to_repo_HEAD":applies=="true","builds":builds=="true","existing_suite_passes_with_change":suite=="true",
     "demonstration_with_change":dw,"demonstration_without_change":dwo},
   "kept": applies=="true" and builds=="true" and suite=="true" and dw=="fail" and dwo=="pass"}
json.dump(m,open(f"{out}/meta.json","w"),indent=1)
print(id, json.dumps(m["verified_in_fresh_worktree"]), "KEPT" if m["kept"] else "NOT-KEPT")
PY
