#!/usr/bin/env python3
"""Record the outcome of tools/seedcheck.sh runs (files .work/sc-<id>.out, .work/sc2-<id>.out = after strengthening)
in seeded/<id>/meta.json and regenerate seeded/RESULTS.md.  usage: tools/seed_record.py id ..."""
import json, os, re, sys
root = "/verif"
for sid in sys.argv[1:]:
    mp = f"{root}/seeded/{sid}/meta.json"
    if not os.path.exists(mp):
        continue
    meta = json.load(open(mp))
    for tag, key in (("sc", "checks_run_against_it_as_they_stood"), ("sc2", "checks_run_against_it")):
        f = f"{root}/.work/{tag}-{sid}.out"
        if not os.path.exists(f):
            continue
        res = {}
        for line in open(f):
            m = re.match(r"(\S+) (C\d+) (CAUGHT|MISSED) :: (.*)", line)
            if m:
                k = re.search(r"key=(\S+)", m.group(4))
                res[m.group(2)] = {"verdict": m.group(3), "first_key": k.group(1) if k else None, "note": None if m.group(3) == "CAUGHT" else m.group(4)[:120]}
        if res:
            meta[key] = res
    if "checks_run_against_it" not in meta and "checks_run_against_it_as_they_stood" in meta:
        meta["checks_run_against_it"] = meta["checks_run_against_it_as_they_stood"]
    meta["how_run"] = "tools/seedcheck.sh: patch applied in a scratch worktree of /repo HEAD, changed files handed to `./run <Cnn> quick` as a go build overlay (equivalent to git -C /repo apply; /repo itself untouched)"
    json.dump(meta, open(mp, "w"), indent=1)
    print(sid, meta.get("kept"), meta.get("checks_run_against_it"))
with open(f"{root}/seeded/RESULTS.md", "w") as f:
    f.write("# Seeded breaking changes vs. checks (quick tier)\n\nGenerated from the meta.json files (each seed: independently re-verified by tools/verify_seed.sh, then run against the checks by tools/seedcheck.sh).\n\n| seed | kept (re-verified) | what it needs to manifest | check results |\n|---|---|---|---|\n")
    for sid in sorted(os.listdir(f"{root}/seeded")):
        mp = f"{root}/seeded/{sid}/meta.json"
        if not os.path.exists(mp):
            continue
        meta = json.load(open(mp))
        res = meta.get("checks_run_against_it") or {}
        r = "; ".join(f"{k}: {v['verdict']} ({v['first_key']})" for k, v in res.items())
        needs = str(meta.get("needs") or "")[:300].replace("|", "/").replace("\n", " ")
        f.write(f"| {sid} | {meta.get('kept')} | {needs} | {r.replace('|','/')} |\n")
