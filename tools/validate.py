#!/usr/bin/env python3
import json, sys, glob, jsonschema
m = json.load(open('/verif/MANIFEST.json'))
jsonschema.validate(m, json.load(open('/root/.vp/MANIFEST.schema.json')))
es = json.load(open('/root/.vp/EVIDENCE.schema.json'))
bad = 0
for c in m['checks']:
    f = c['evidence_file']
    try:
        e = json.load(open(f)); jsonschema.validate(e, es)
        if e['level'] != c['level_claimed']['category']:
            print('LEVEL MISMATCH', f); bad += 1
    except Exception as ex:
        print('INVALID', f, str(ex)[:200]); bad += 1
print('manifest valid;', len(m['checks']), 'checks;', bad, 'bad evidence files')
sys.exit(1 if bad else 0)
