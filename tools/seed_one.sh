#!/bin/bash
# usage: seed_one.sh <seed id> <Cnn> [<Cnn> ...]  -- re-verify an agent's seed in a fresh worktree, then run the checks against it
id="$1"; shift
mkdir -p /verif/.work
/verif/tools/verify_seed.sh "$id" "/tmp/seed-$id" > "/verif/.work/vs-$id.out" 2>&1
/verif/tools/seedcheck.sh "/verif/seeded/$id/patch.diff" quick "$@" > "/verif/.work/sc-$id.out" 2>&1
echo "done $id" >> /verif/.work/seed_one.log
