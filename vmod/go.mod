module verif

go 1.21

require github.com/bnb-chain/tss-lib/v2 v2.0.0

require (
	github.com/gogo/protobuf v1.3.2 // indirect
	github.com/ipfs/go-log v1.0.5 // indirect
	github.com/ipfs/go-log/v2 v2.1.3 // indirect
	github.com/opentracing/opentracing-go v1.2.0 // indirect
	github.com/pkg/errors v0.9.1 // indirect
	go.uber.org/atomic v1.7.0 // indirect
	go.uber.org/multierr v1.6.0 // indirect
	go.uber.org/zap v1.16.0 // indirect
	google.golang.org/protobuf v1.31.0 // indirect
)

replace github.com/bnb-chain/tss-lib/v2 => /repo

replace github.com/agl/ed25519 => github.com/binance-chain/edwards25519 v0.0.0-20200305024217-f36fc4b53d43
