module verif

go 1.21

require (
	github.com/bnb-chain/tss-lib/v2 v2.0.0
	google.golang.org/protobuf v1.31.0
)

require (
	github.com/agl/ed25519 v0.0.0-20200225211852-fd4d107ace12 // indirect
	github.com/btcsuite/btcd v0.23.4
	github.com/btcsuite/btcd/btcec/v2 v2.3.2
	github.com/btcsuite/btcd/btcutil v1.1.0
	github.com/btcsuite/btcd/chaincfg/chainhash v1.0.1 // indirect
	github.com/btcsuite/btcutil v1.0.2
	github.com/decred/dcrd/dcrec/edwards/v2 v2.0.3 // indirect
	github.com/decred/dcrd/dcrec/secp256k1/v4 v4.0.1 // indirect
	github.com/gogo/protobuf v1.3.2 // indirect
	github.com/hashicorp/errwrap v1.0.0 // indirect
	github.com/hashicorp/go-multierror v1.1.1 // indirect
	github.com/ipfs/go-log v1.0.5
	github.com/ipfs/go-log/v2 v2.1.3 // indirect
	github.com/opentracing/opentracing-go v1.2.0 // indirect
	github.com/otiai10/primes v0.0.0-20210501021515-f1b2be525a11 // indirect
	github.com/pkg/errors v0.9.1 // indirect
	go.uber.org/atomic v1.7.0 // indirect
	go.uber.org/multierr v1.6.0 // indirect
	go.uber.org/zap v1.16.0 // indirect
	golang.org/x/crypto v0.13.0
)

replace github.com/bnb-chain/tss-lib/v2 => /repo

replace github.com/agl/ed25519 => github.com/binance-chain/edwards25519 v0.0.0-20200305024217-f36fc4b53d43
