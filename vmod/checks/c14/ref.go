package c14

import (
	"math/big"
)

// Independent reference arithmetic for Paillier (written from the textbook, no library code).

var (
	bigZero = big.NewInt(0)
	bigOne  = big.NewInt(1)
	bigTwo  = big.NewInt(2)
)

// isPrimeTD: deterministic trial division for n < 2^40, math/big otherwise.
func isPrime(n *big.Int) bool {
	if n.Sign() <= 0 {
		return false
	}
	if n.BitLen() <= 40 {
		v := n.Uint64()
		if v < 2 {
			return false
		}
		if v%2 == 0 {
			return v == 2
		}
		for d := uint64(3); d*d <= v; d += 2 {
			if v%d == 0 {
				return false
			}
		}
		return true
	}
	return n.ProbablyPrime(30)
}

func isSafePrime(p *big.Int) bool {
	if !isPrime(p) || p.Bit(0) == 0 {
		return false
	}
	h := new(big.Int).Sub(p, bigOne)
	h.Rsh(h, 1)
	return isPrime(h)
}

// crtKey holds the per-prime constants of the CRT decryption.
type crtKey struct {
	N, P, Q, P2, Q2 *big.Int
	Pm1, Qm1        *big.Int
	hp, hq          *big.Int // (L_p((1+N)^(p-1) mod p^2))^-1 mod p, same for q
	qInvP           *big.Int // q^-1 mod p
}

func lOf(u, d *big.Int) *big.Int {
	t := new(big.Int).Sub(u, bigOne)
	return t.Div(t, d)
}

// newCRT returns nil when the primes do not give a working Paillier key (gcd(N, phi) != 1).
func newCRT(P, Q *big.Int) *crtKey {
	k := &crtKey{P: P, Q: Q}
	k.N = new(big.Int).Mul(P, Q)
	k.P2 = new(big.Int).Mul(P, P)
	k.Q2 = new(big.Int).Mul(Q, Q)
	k.Pm1 = new(big.Int).Sub(P, bigOne)
	k.Qm1 = new(big.Int).Sub(Q, bigOne)
	g := new(big.Int).Add(k.N, bigOne)
	lp := lOf(new(big.Int).Exp(g, k.Pm1, k.P2), P)
	lq := lOf(new(big.Int).Exp(g, k.Qm1, k.Q2), Q)
	k.hp = new(big.Int).ModInverse(lp.Mod(lp, P), P)
	k.hq = new(big.Int).ModInverse(lq.Mod(lq, Q), Q)
	k.qInvP = new(big.Int).ModInverse(new(big.Int).Mod(Q, P), P)
	if k.hp == nil || k.hq == nil || k.qInvP == nil {
		return nil
	}
	return k
}

// Decrypt: CRT decryption of a unit c in [0,N^2).
func (k *crtKey) Decrypt(c *big.Int) *big.Int {
	cp := new(big.Int).Mod(c, k.P2)
	cq := new(big.Int).Mod(c, k.Q2)
	mp := lOf(cp.Exp(cp, k.Pm1, k.P2), k.P)
	mp.Mul(mp, k.hp).Mod(mp, k.P)
	mq := lOf(cq.Exp(cq, k.Qm1, k.Q2), k.Q)
	mq.Mul(mq, k.hq).Mod(mq, k.Q)
	// m = mq + q * ((mp - mq) * qInvP mod p)
	t := new(big.Int).Sub(mp, mq)
	t.Mul(t, k.qInvP).Mod(t, k.P)
	t.Mul(t, k.Q).Add(t, mq)
	return t
}

// refEncrypt: c = (1 + m N) x^N mod N^2 (binomial form of (N+1)^m).
func refEncrypt(N, m, x *big.Int) *big.Int {
	N2 := new(big.Int).Mul(N, N)
	a := new(big.Int).Mul(m, N)
	a.Add(a, bigOne).Mod(a, N2)
	b := new(big.Int).Exp(x, N, N2)
	return a.Mul(a, b).Mod(a, N2)
}

// safePrimesOfBits: every safe prime with exactly `bits` bits (bits <= 20), ascending.
func safePrimesOfBits(bits int) []*big.Int {
	var out []*big.Int
	lo, hi := int64(1)<<(bits-1), int64(1)<<bits
	for p := lo | 1; p < hi; p += 2 {
		b := big.NewInt(p)
		if isSafePrime(b) {
			out = append(out, b)
		}
	}
	return out
}
