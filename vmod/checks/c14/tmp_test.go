package c14

import (
	"testing"
	"time"
)

func TestGen512(t *testing.T) {
	for i := 0; i < 3; i++ {
		j := startGen(512, 3, 1, 10*time.Minute)
		select {
		case <-j.done:
			t.Logf("done in %v err=%v", j.took, j.err)
		case <-time.After(200 * time.Second):
			t.Fatalf("hang")
		}
	}
}
