// Package c14: check for property C14 (stub until implemented).
package c14

import "verif/internal/core"

// Implemented reports whether this check is built.
const Implemented = false

func Run(r *core.Run) { r.Cap("not implemented") }
