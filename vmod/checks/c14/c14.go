// Package c14: Paillier encryption is correct, additively homomorphic and domain-checked;
// generated keys are well-formed (ENUM).
//
// Enumerated space
//
//	tiny keys   : every key (P<Q safe primes of L/2 bits, |N|=L, |P-Q| per the library's bound) for the
//	              listed tiny L, built by hand exactly as GenerateKeyPair fills the struct:
//	              ALL ciphertexts c in [0,N^2) (Decrypt vs CRT reference, non-units refused),
//	              ALL m in [0,N) (Encrypt / Decrypt / CRT), ALL (m1,m2) for HomoAdd, ALL (k,m) for HomoMult.
//	small keys  : every key the generator can return for modulus length 18, 20 (22 in thorough)
//	              (top two bits of (P-1)/2 set): ALL m in [0,N).
//	every key   : (tiny, small, 5 vendored 2048-bit, every key returned by GenerateKeyPair for the listed
//	              sizes x 8 seeds) the boundary battery: plaintext alphabet {0,1,N-1,halfN=floor(N/2),generic..}:
//	              all elements (twice: freshness, unit), all pairs and triples for the homomorphic laws,
//	              every out-of-domain operand just outside each bound.
//	generated   : modulus length exact, P != Q safe primes, |P-Q| bound, PhiN, LambdaN.
package c14

import (
	"context"
	"fmt"
	"io"
	"math/big"
	"runtime"
	"runtime/debug"
	"sort"
	"sync/atomic"
	"time"

	"github.com/bnb-chain/tss-lib/v2/common"
	"github.com/bnb-chain/tss-lib/v2/crypto/paillier"

	"verif/internal/core"
	"verif/internal/fix"
)

const Implemented = true

// The library's own "far apart" bound (paillier.go: pQBitLenDifference = 3).
const pqBitLenDifference = 3

// strictNonUnitOnHomoOps: the statement says "ciphertexts sharing a factor with N are refused with an error".
// Decided reading (narrow, matches the property's anchored guard list): the gcd refusal is required where a
// ciphertext is decrypted (Decrypt); HomoAdd/HomoMult must only enforce the range guards. With false,
// acceptance of a non-unit by HomoAdd/HomoMult is counted (counter nonunit_accepted_by_homo_ops), not reported;
// with true every operation taking a ciphertext must refuse it.
const strictNonUnitOnHomoOps = false

type key struct {
	name  string
	class string // tiny | small | vendored | generated
	L     int    // modulus bit length the key is supposed to have
	sk    *paillier.PrivateKey
	crt   *crtKey
	n2    *big.Int
}

func handBuilt(P, Q *big.Int) *paillier.PrivateKey {
	N := new(big.Int).Mul(P, Q)
	pm1, qm1 := new(big.Int).Sub(P, bigOne), new(big.Int).Sub(Q, bigOne)
	phi := new(big.Int).Mul(pm1, qm1)
	g := new(big.Int).GCD(nil, nil, pm1, qm1)
	lam := new(big.Int).Div(phi, g)
	return &paillier.PrivateKey{PublicKey: paillier.PublicKey{N: N}, LambdaN: lam, PhiN: phi, P: new(big.Int).Set(P), Q: new(big.Int).Set(Q)}
}

// keySpace: every unordered pair of distinct safe primes of L/2 bits whose product has exactly L bits and
// whose difference satisfies the library's bound. reachable=true keeps only primes the generator can emit
// ((P-1)/2 has its two top bits set).
func keySpace(L int, reachable bool, class string) []*key {
	var out []*key
	ps := safePrimesOfBits(L / 2)
	for i := 0; i < len(ps); i++ {
		for j := i + 1; j < len(ps); j++ {
			P, Q := ps[i], ps[j]
			if reachable && !(topTwo(P, L/2) && topTwo(Q, L/2)) {
				continue
			}
			N := new(big.Int).Mul(P, Q)
			if N.BitLen() != L {
				continue
			}
			if new(big.Int).Sub(Q, P).BitLen() < L/2-pqBitLenDifference {
				continue
			}
			crt := newCRT(P, Q)
			if crt == nil {
				continue // gcd(N, phi) != 1: not a Paillier key (cannot happen for equal-length safe primes > 3)
			}
			out = append(out, (&key{name: fmt.Sprintf("%s-L%d-%sx%s", class, L, P, Q), class: class, L: L, sk: handBuilt(P, Q), crt: crt}).init())
		}
	}
	return out
}

func topTwo(p *big.Int, bits int) bool {
	q := new(big.Int).Rsh(p, 1) // (p-1)/2
	qb := bits - 1
	return q.BitLen() == qb && q.Bit(qb-1) == 1 && q.Bit(qb-2) == 1
}

// ---- guarded calls into the library ----

func try(f func()) (pan string) {
	defer func() {
		if e := recover(); e != nil {
			pan = fmt.Sprint(e)
		}
	}()
	f()
	return ""
}

type chk struct {
	r     *core.Run
	evals int64
}

func (c *chk) ev(n int64) { atomic.AddInt64(&c.evals, n) }


// keep snapshots the integer arguments of a library call (and the key's own numbers); the returned function
// reports an argument the call has changed (and counts results that are one of the argument objects).
func (c *chk) keep(op, site string, k *key, args ...*big.Int) func(results ...*big.Int) {
	all := append([]*big.Int{}, args...)
	if k != nil && k.sk != nil {
		all = append(all, k.sk.N, k.sk.P, k.sk.Q, k.sk.LambdaN, k.sk.PhiN)
	}
	snap := make([]*big.Int, len(all))
	for i, a := range all {
		if a != nil {
			snap[i] = new(big.Int).Set(a)
		}
	}
	return func(results ...*big.Int) {
		for i, a := range all {
			if a != nil && a.Cmp(snap[i]) != 0 {
				what := fmt.Sprintf("argument %d", i)
				if i >= len(args) {
					what = "a number of the key"
				}
				c.r.Violate("purity/"+op+"/argument-modified", op+" changed "+what+" of its caller ("+site+")", map[string]string{"before": snap[i].String(), "after": a.String()})
			}
		}
		for _, o := range results {
			for i, a := range args {
				if o != nil && o == a {
					c.r.Count("result_is_an_argument_object/"+op, 1) // harmless by itself; recorded
					_ = i
				}
			}
		}
	}
}

func (c *chk) encR(k *key, rd io.Reader, m *big.Int, site string) (ct, x *big.Int, err error, ok bool) {
	done := c.keep("EncryptAndReturnRandomness", site, k, m)
	defer func() { done(ct, x) }()
	if p := try(func() { ct, x, err = k.sk.PublicKey.EncryptAndReturnRandomness(rd, m) }); p != "" {
		c.r.Violate("encrypt/"+site+"/"+k.class+":panic", "EncryptAndReturnRandomness panicked: "+p, rec(k, "m", m))
		return nil, nil, nil, false
	}
	return ct, x, err, true
}

func (c *chk) enc(k *key, rd io.Reader, m *big.Int, site string) (ct *big.Int, err error, ok bool) {
	done := c.keep("Encrypt", site, k, m)
	defer func() { done(ct) }()
	if p := try(func() { ct, err = k.sk.PublicKey.Encrypt(rd, m) }); p != "" {
		c.r.Violate("encrypt/"+site+"/"+k.class+":panic", "Encrypt panicked: "+p, rec(k, "m", m))
		return nil, nil, false
	}
	return ct, err, true
}

func (c *chk) dec(k *key, ct *big.Int, site string) (m *big.Int, err error, ok bool) {
	done := c.keep("Decrypt", site, k, ct)
	defer func() { done(m) }()
	if p := try(func() { m, err = k.sk.Decrypt(ct) }); p != "" {
		c.r.Violate("decrypt/"+site+"/"+k.class+":panic", "Decrypt panicked: "+p, rec(k, "c", ct))
		return nil, nil, false
	}
	return m, err, true
}

func (c *chk) add(k *key, c1, c2 *big.Int, site string) (o *big.Int, err error, ok bool) {
	done := c.keep("HomoAdd", site, k, c1, c2)
	defer func() { done(o) }()
	if p := try(func() { o, err = k.sk.PublicKey.HomoAdd(c1, c2) }); p != "" {
		c.r.Violate("homoadd/"+site+"/"+k.class+":panic", "HomoAdd panicked: "+p, rec(k, "c1", c1, "c2", c2))
		return nil, nil, false
	}
	return o, err, true
}

func (c *chk) mul(k *key, m, c1 *big.Int, site string) (o *big.Int, err error, ok bool) {
	done := c.keep("HomoMult", site, k, m, c1)
	defer func() { done(o) }()
	if p := try(func() { o, err = k.sk.PublicKey.HomoMult(m, c1) }); p != "" {
		c.r.Violate("homomult/"+site+"/"+k.class+":panic", "HomoMult panicked: "+p, rec(k, "m", m, "c1", c1))
		return nil, nil, false
	}
	return o, err, true
}

func rec(k *key, kv ...interface{}) map[string]string {
	m := map[string]string{"key": k.name, "N": k.sk.N.String(), "P": k.sk.P.String(), "Q": k.sk.Q.String()}
	for i := 0; i+1 < len(kv); i += 2 {
		if b, ok := kv[i+1].(*big.Int); ok {
			if b == nil {
				m[kv[i].(string)] = "<nil>"
			} else {
				m[kv[i].(string)] = b.String()
			}
		} else {
			m[kv[i].(string)] = fmt.Sprint(kv[i+1])
		}
	}
	return m
}

func (k *key) init() *key {
	k.n2 = new(big.Int).Mul(k.sk.N, k.sk.N)
	return k
}

func (k *key) unit(c *big.Int) bool {
	if c == nil || c.Sign() <= 0 || c.Cmp(k.n2) >= 0 {
		return false
	}
	return new(big.Int).GCD(nil, nil, c, k.sk.N).Cmp(bigOne) == 0
}

// isUnit: 0 < c < N^2 and gcd(c, N) = 1.
func isUnit(c, N *big.Int) bool {
	if c == nil || c.Sign() <= 0 || c.Cmp(new(big.Int).Mul(N, N)) >= 0 {
		return false
	}
	return new(big.Int).GCD(nil, nil, c, N).Cmp(bigOne) == 0
}

// decryptsTo: Decrypt(ct) succeeds, equals want and agrees with the CRT reference.
func (c *chk) decryptsTo(k *key, ct, want *big.Int, area, site string, extra ...interface{}) bool {
	c.ev(1)
	if !k.unit(ct) {
		c.r.Violate(area+"/"+site+"/result-not-a-unit-mod-N2@"+k.class, "ciphertext produced by the library is not a unit modulo N^2 inside [0,N^2)",
			rec(k, append(extra, "c", ct)...))
		return false
	}
	d, err, ok := c.dec(k, ct, site)
	if !ok {
		return false
	}
	if err != nil {
		c.r.Violate(area+"/"+site+"/decrypt-refused@"+k.class, "Decrypt refused a ciphertext produced by the library: "+err.Error(), rec(k, append(extra, "c", ct)...))
		return false
	}
	ref := k.crt.Decrypt(ct)
	if d == nil || d.Cmp(ref) != 0 {
		c.r.Violate(area+"/"+site+"/decrypt-differs-from-crt@"+k.class, "Decrypt disagrees with the independent CRT decryption",
			rec(k, append(extra, "c", ct, "lib", d, "crt", ref)...))
		return false
	}
	if d.Cmp(want) != 0 {
		c.r.Violate(area+"/"+site+"/wrong-plaintext@"+k.class, "decryption does not give the expected plaintext",
			rec(k, append(extra, "c", ct, "got", d, "want", want)...))
		return false
	}
	return true
}

// ---- A. all ciphertexts of a tiny key ----

func (c *chk) allCiphertexts(k *key) {
	N := k.sk.N.Int64()
	P, Q := k.sk.P.Int64(), k.sk.Q.Int64()
	N2 := N * N
	const chunk = 1 << 14
	nch := int((N2 + chunk - 1) / chunk)
	hist := make([]int32, N)
	var units int64
	core.ParallelFor(nch, runtime.NumCPU(), func(ci int) {
		lo, hi := int64(ci)*chunk, int64(ci+1)*chunk
		if hi > N2 {
			hi = N2
		}
		ct := new(big.Int)
		for v := lo; v < hi; v++ {
			ct.SetInt64(v)
			unit := v%P != 0 && v%Q != 0
			d, err, ok := c.dec(k, ct, "all-ciphertexts")
			if !ok {
				continue
			}
			if !unit {
				if err == nil {
					c.r.Violate("domain/Decrypt/ciphertext-shares-factor-with-N/accepted@tiny", "Decrypt returned a plaintext for a ciphertext that is not a unit modulo N", rec(k, "c", ct, "got", d))
				}
				continue
			}
			if err != nil {
				c.r.Violate("decrypt/all-ciphertexts/unit-refused@tiny", "Decrypt refused a unit of Z_{N^2} (every unit is an encryption of some m): "+err.Error(), rec(k, "c", ct))
				continue
			}
			ref := k.crt.Decrypt(ct)
			if d == nil || d.Cmp(ref) != 0 {
				c.r.Violate("decrypt/all-ciphertexts/decrypt-differs-from-crt@tiny", "Decrypt disagrees with the independent CRT decryption", rec(k, "c", ct, "lib", d, "crt", ref))
				continue
			}
			atomic.AddInt32(&hist[ref.Int64()], 1)
			atomic.AddInt64(&units, 1)
		}
		c.ev(hi - lo)
	})
	// reference self-check: Paillier is a bijection Z_N x Z_N^* -> Z_{N^2}^*, so every m has phi(N) preimages
	phi := (P - 1) * (Q - 1)
	seen := 0
	for m, h := range hist {
		if h > 0 {
			seen++
		}
		if int64(h) != phi && c.r.NViolations() == 0 {
			c.r.Violate("infrastructure/ref-crt-selfcheck", "CRT reference: plaintext does not have phi(N) preimages", rec(k, "m", m, "preimages", h, "phi", phi))
			break
		}
	}
	c.r.Count("tiny_ciphertexts_decrypted", N2)
	c.r.Count("tiny_unit_ciphertexts", units)
	c.r.Count("distinct_plaintexts_measured", int64(seen))
}

// ---- B. all plaintexts ----

// allPlaintexts encrypts every m in [0,N), checks the ciphertext against the formula with
// the returned randomness, decrypts (library and CRT). Returns one ciphertext per m when keep is set.
func (c *chk) allPlaintexts(k *key, keep bool) []*big.Int {
	N := k.sk.N.Int64()
	const chunk = 1 << 12
	nch := int((N + chunk - 1) / chunk)
	var table []*big.Int
	if keep {
		table = make([]*big.Int, N)
	}
	seen := make([]uint32, (N+31)/32)
	core.ParallelFor(nch, runtime.NumCPU(), func(ci int) {
		lo, hi := int64(ci)*chunk, int64(ci+1)*chunk
		if hi > N {
			hi = N
		}
		rd := core.NewDRBG(fmt.Sprintf("c14/all-m/%s/%d", k.name, ci))
		for v := lo; v < hi; v++ {
			m := big.NewInt(v)
			// (Encrypt is a one-line wrapper of EncryptAndReturnRandomness; it is exercised on every key by the battery)
			c2, x, err2, ok2 := c.encR(k, rd, m, "all-plaintexts")
			if !ok2 {
				continue
			}
			if err2 != nil {
				c.r.Violate("encrypt/all-plaintexts/in-range-plaintext-refused@"+k.class, "Encrypt refused m in [0,N)", rec(k, "m", m, "err", err2))
				continue
			}
			if x == nil || x.Sign() <= 0 || x.Cmp(k.sk.N) >= 0 || new(big.Int).GCD(nil, nil, x, k.sk.N).Cmp(bigOne) != 0 {
				c.r.Violate("encrypt/all-plaintexts/randomness-not-a-unit@"+k.class, "returned randomness x is not a unit of Z_N", rec(k, "m", m, "x", x))
			} else if want := refEncrypt(k.sk.N, m, x); c2.Cmp(want) != 0 {
				c.r.Violate("encrypt/all-plaintexts/ciphertext-differs-from-formula@"+k.class, "c != (1+mN) x^N mod N^2 for the returned x", rec(k, "m", m, "x", x, "c", c2, "want", want))
			}
			if c.decryptsTo(k, c2, m, "encrypt", "all-plaintexts/EncryptAndReturnRandomness", "m", m) {
				seen[v/32] |= 1 << uint(v%32) // chunk bounds are multiples of 32: one writer per word
			}
			if keep {
				table[v] = c2
			}
		}
	})
	var n int64
	for _, w := range seen {
		for ; w != 0; w &= w - 1 {
			n++
		}
	}
	c.r.Count("plaintexts_enumerated", N)
	c.r.Count("distinct_plaintexts_measured", n)
	return table
}

// ---- C. all pairs on a tiny key ----

func (c *chk) allPairs(k *key, table []*big.Int) {
	N := k.sk.N.Int64()
	bigN := k.sk.N
	core.ParallelFor(int(N), runtime.NumCPU(), func(a int) {
		A := big.NewInt(int64(a))
		if table[a] == nil {
			return
		}
		want := new(big.Int)
		for b := int64(0); b < N; b++ {
			if table[b] == nil {
				continue
			}
			B := big.NewInt(b)
			// HomoAdd(E[a], E[b]) -> a+b mod N
			s, err, ok := c.add(k, table[a], table[b], "all-pairs")
			if ok {
				if err != nil {
					c.r.Violate("homoadd/all-pairs/valid-operands-refused@tiny", "HomoAdd refused two valid ciphertexts: "+err.Error(), rec(k, "m1", A, "m2", B))
				} else {
					want.Add(A, B).Mod(want, bigN)
					c.decryptsTo(k, s, want, "homoadd", "all-pairs", "m1", A, "m2", B)
				}
			}
			// HomoMult(a, E[b]) -> a*b mod N
			p, err, ok := c.mul(k, A, table[b], "all-pairs")
			if ok {
				if err != nil {
					c.r.Violate("homomult/all-pairs/valid-operands-refused@tiny", "HomoMult refused a valid scalar and ciphertext: "+err.Error(), rec(k, "k", A, "m", B))
				} else {
					want.Mul(A, B).Mod(want, bigN)
					c.decryptsTo(k, p, want, "homomult", "all-pairs", "k", A, "m", B)
				}
			}
		}
	})
	c.r.Count("tiny_pairs_homoadd", N*N)
	c.r.Count("tiny_pairs_homomult", N*N)
}

// ---- D. boundary battery (every key) ----

type named struct {
	n string
	v *big.Int
}

func plaintextAlphabet(k *key, thorough bool) []named {
	N := k.sk.N
	gen := func(label string) *big.Int {
		g := new(big.Int).SetBytes(core.Bytes("c14/generic/"+label+"/"+k.name, (N.BitLen()+7)/8+8))
		return g.Mod(g, N)
	}
	al := []named{
		{"0", big.NewInt(0)},
		{"1", big.NewInt(1)},
		{"N-1", new(big.Int).Sub(N, bigOne)},
		{"halfN", new(big.Int).Rsh(N, 1)},
		{"generic", gen("a")},
	}
	if thorough {
		al = append(al, named{"halfN+1", new(big.Int).Add(new(big.Int).Rsh(N, 1), bigOne)}, named{"generic'", gen("b")})
	}
	return al
}

func (c *chk) battery(k *key, thorough bool, workers int) {
	r := c.r
	N := k.sk.N
	N2 := new(big.Int).Mul(N, N)
	al := plaintextAlphabet(k, thorough)
	n := len(al)
	E := make([]*big.Int, n)
	cs := func(op string, cl ...string) {
		s := k.name + "|" + op
		for _, x := range cl {
			s += "|" + x
		}
		r.Distinct("cases", s)
	}
	// singles: two successive encryptions from one stream
	core.ParallelFor(n, workers, func(i int) {
		rd := core.NewDRBG("c14/battery/" + k.name + "/" + al[i].n)
		m := al[i].v
		c1, err1, ok1 := c.enc(k, rd, m, "boundary")
		c2, x, err2, ok2 := c.encR(k, rd, m, "boundary")
		cs("enc", al[i].n)
		if !ok1 || !ok2 {
			return
		}
		if err1 != nil || err2 != nil {
			r.Violate("encrypt/boundary/in-range-plaintext-refused/"+al[i].n+"@"+k.class, "Encrypt refused m in [0,N)", rec(k, "m", m, "err1", err1, "err2", err2))
			return
		}
		if x == nil || x.Sign() <= 0 || x.Cmp(N) >= 0 || new(big.Int).GCD(nil, nil, x, N).Cmp(bigOne) != 0 {
			r.Violate("encrypt/boundary/randomness-not-a-unit@"+k.class, "returned randomness x is not a unit of Z_N", rec(k, "m", m, "x", x))
		} else if want := refEncrypt(N, m, x); c2.Cmp(want) != 0 {
			r.Violate("encrypt/boundary/ciphertext-differs-from-formula/"+al[i].n+"@"+k.class, "c != (1+mN) x^N mod N^2 for the returned x", rec(k, "m", m, "x", x, "c", c2, "want", want))
		}
		c.decryptsTo(k, c1, m, "encrypt", "boundary/"+al[i].n, "m", m)
		if c.decryptsTo(k, c2, m, "encrypt", "boundary/"+al[i].n, "m", m) {
			E[i] = c2
		}
		// freshness: only where a repeat of the randomness is not a legitimate event (|Z_N^*| >= ~2^100)
		if N.BitLen() >= 100 {
			c.ev(1)
			cs("fresh", al[i].n)
			if c1.Cmp(c2) == 0 {
				r.Violate("encrypt/freshness/same-ciphertext-twice@"+k.class, "two successive encryptions of the same plaintext are identical", rec(k, "m", m, "c", c1))
			}
		}
		r.Sample(4, map[string]string{"key": k.name, "case": "Encrypt twice, Decrypt, CRT", "m-class": al[i].n, "m": short(m), "c1": short(c1), "c2": short(c2)})
	})
	for i := range E {
		if E[i] == nil {
			return // already reported
		}
	}
	// pairs
	core.ParallelFor(n*n, workers, func(ij int) {
		i, j := ij/n, ij%n
		a, b := al[i].v, al[j].v
		want := new(big.Int)
		if s, err, ok := c.add(k, E[i], E[j], "boundary"); ok {
			cs("add", al[i].n, al[j].n)
			if err != nil {
				r.Violate("homoadd/boundary/valid-operands-refused@"+k.class, "HomoAdd refused two valid ciphertexts: "+err.Error(), rec(k, "m1", a, "m2", b))
			} else {
				want.Add(a, b).Mod(want, N)
				c.decryptsTo(k, s, want, "homoadd", "pair/"+al[i].n+"+"+al[j].n, "m1", a, "m2", b)
			}
		}
		if p, err, ok := c.mul(k, a, E[j], "boundary"); ok {
			cs("mul", al[i].n, al[j].n)
			if err != nil {
				r.Violate("homomult/boundary/valid-operands-refused@"+k.class, "HomoMult refused a valid scalar and ciphertext: "+err.Error(), rec(k, "k", a, "m", b))
			} else {
				want.Mul(a, b).Mod(want, N)
				c.decryptsTo(k, p, want, "homomult", "pair/"+al[i].n+"*"+al[j].n, "k", a, "m", b)
			}
		}
	})
	// triples: (a+b)+c and a*b+c (the MtA shape)
	core.ParallelFor(n*n*n, workers, func(ijk int) {
		i, j, l := ijk/(n*n), (ijk/n)%n, ijk%n
		a, b, d := al[i].v, al[j].v, al[l].v
		want := new(big.Int)
		if s, err, ok := c.add(k, E[i], E[j], "boundary"); ok && err == nil {
			if s2, err2, ok2 := c.add(k, s, E[l], "boundary"); ok2 {
				cs("add3", al[i].n, al[j].n, al[l].n)
				if err2 != nil {
					r.Violate("homoadd/boundary/valid-operands-refused@"+k.class, "HomoAdd refused a sum ciphertext: "+err2.Error(), rec(k, "m1", a, "m2", b, "m3", d))
				} else {
					want.Add(a, b).Add(want, d).Mod(want, N)
					c.decryptsTo(k, s2, want, "homoadd", "triple/"+al[i].n+"+"+al[j].n+"+"+al[l].n, "m1", a, "m2", b, "m3", d)
				}
			}
		}
		if p, err, ok := c.mul(k, a, E[j], "boundary"); ok && err == nil {
			if s2, err2, ok2 := c.add(k, p, E[l], "boundary"); ok2 {
				cs("muladd", al[i].n, al[j].n, al[l].n)
				if err2 != nil {
					r.Violate("homoadd/boundary/valid-operands-refused@"+k.class, "HomoAdd refused a product ciphertext: "+err2.Error(), rec(k, "k", a, "m", b, "m3", d))
				} else {
					want.Mul(a, b).Add(want, d).Mod(want, N)
					c.decryptsTo(k, s2, want, "homomult", "triple/"+al[i].n+"*"+al[j].n+"+"+al[l].n, "k", a, "m", b, "m3", d)
				}
			}
		}
	})
	// out-of-domain operands
	good := E[n-1] // encryption of the generic plaintext
	goodM := al[n-1].v
	badPlain := []named{
		{"-1", big.NewInt(-1)},
		{"N", new(big.Int).Set(N)},
		{"N+1", new(big.Int).Add(N, bigOne)},
	}
	badRange := []named{
		{"-1", big.NewInt(-1)},
		{"N^2", new(big.Int).Set(N2)},
		{"N^2+1", new(big.Int).Add(N2, bigOne)},
	}
	nonUnit := []named{
		{"0", big.NewInt(0)},
		{"P", new(big.Int).Set(k.sk.P)},
		{"Q", new(big.Int).Set(k.sk.Q)},
		{"N", new(big.Int).Set(N)},
		{"P*N", new(big.Int).Mul(k.sk.P, N)},
		{"N^2-N", new(big.Int).Sub(N2, N)},
		{"Q*Enc(generic) mod N^2", new(big.Int).Mod(new(big.Int).Mul(k.sk.Q, good), N2)},
	}
	// keyClass=true puts the value class into the finding key (distinct bounds are distinct guards);
	// the non-unit values all exercise the same (missing) guard and share one key per operation/operand.
	refuse := func(op, operand, class string, keyClass, must bool, val *big.Int, call func() (*big.Int, error)) {
		c.ev(1)
		cs("domain", op, operand, class)
		var out *big.Int
		var err error
		kc := ""
		if keyClass {
			kc = "/" + class
		}
		if p := try(func() { out, err = call() }); p != "" {
			r.Violate("domain/"+op+"/"+operand+kc+"@"+k.class+":panic", op+" panicked on an out-of-domain operand: "+p, rec(k, "operand-class", class, "operand", val))
			return
		}
		if err == nil {
			if !must {
				r.Count("nonunit_accepted_by_homo_ops", 1)
				return
			}
			r.Violate("domain/"+op+"/"+operand+kc+"/accepted", op+" returned a result instead of an error for an out-of-domain operand ("+operand+")",
				rec(k, "operand-class", class, "operand", val, "result", out))
		}
	}
	rd := core.NewDRBG("c14/battery-domain/" + k.name)
	for _, b := range badPlain {
		b := b
		refuse("Encrypt", "plaintext-outside-[0,N)", b.n, true, true, b.v, func() (*big.Int, error) { return k.sk.PublicKey.Encrypt(rd, b.v) })
		refuse("EncryptAndReturnRandomness", "plaintext-outside-[0,N)", b.n, true, true, b.v, func() (*big.Int, error) {
			o, _, e := k.sk.PublicKey.EncryptAndReturnRandomness(rd, b.v)
			return o, e
		})
		refuse("HomoMult", "scalar-outside-[0,N)", b.n, true, true, b.v, func() (*big.Int, error) { return k.sk.PublicKey.HomoMult(b.v, good) })
	}
	for _, b := range badRange {
		b := b
		refuse("HomoMult", "ciphertext-outside-[0,N^2)", b.n, true, true, b.v, func() (*big.Int, error) { return k.sk.PublicKey.HomoMult(goodM, b.v) })
		refuse("HomoAdd", "first-ciphertext-outside-[0,N^2)", b.n, true, true, b.v, func() (*big.Int, error) { return k.sk.PublicKey.HomoAdd(b.v, good) })
		refuse("HomoAdd", "second-ciphertext-outside-[0,N^2)", b.n, true, true, b.v, func() (*big.Int, error) { return k.sk.PublicKey.HomoAdd(good, b.v) })
		refuse("Decrypt", "ciphertext-outside-[0,N^2)", b.n, true, true, b.v, func() (*big.Int, error) { return k.sk.Decrypt(b.v) })
	}
	for _, b := range nonUnit {
		b := b
		if isUnit(b.v, N) { // cannot happen; keeps the oracle honest
			continue
		}
		refuse("Decrypt", "ciphertext-shares-factor-with-N", b.n, false, true, b.v, func() (*big.Int, error) { return k.sk.Decrypt(b.v) })
		refuse("HomoMult", "ciphertext-shares-factor-with-N", b.n, false, strictNonUnitOnHomoOps, b.v, func() (*big.Int, error) { return k.sk.PublicKey.HomoMult(goodM, b.v) })
		refuse("HomoAdd", "first-ciphertext-shares-factor-with-N", b.n, false, strictNonUnitOnHomoOps, b.v, func() (*big.Int, error) { return k.sk.PublicKey.HomoAdd(b.v, good) })
		refuse("HomoAdd", "second-ciphertext-shares-factor-with-N", b.n, false, strictNonUnitOnHomoOps, b.v, func() (*big.Int, error) { return k.sk.PublicKey.HomoAdd(good, b.v) })
	}
	r.Count("keys_with_boundary_battery", 1)
}

func short(b *big.Int) string {
	if b == nil {
		return "<nil>"
	}
	s := b.String()
	if len(s) > 40 {
		return s[:18] + "…" + s[len(s)-18:] + fmt.Sprintf("(%d bits)", b.BitLen())
	}
	return s
}

// ---- E. structure of a key ----

func (c *chk) structure(k *key, origin string) {
	r := c.r
	sk := k.sk
	c.ev(1)
	r.Distinct("cases", k.name+"|structure")
	bad := func(what, msg string) {
		r.Violate("keygen/"+origin+"/"+what, msg, rec(k, "requested-bits", k.L, "LambdaN", sk.LambdaN, "PhiN", sk.PhiN))
	}
	if sk.N == nil || sk.P == nil || sk.Q == nil || sk.LambdaN == nil || sk.PhiN == nil {
		r.Violate("keygen/"+origin+"/nil-field", "key has a nil field", map[string]string{"key": k.name})
		return
	}
	if sk.N.BitLen() != k.L {
		bad("modulus-bit-length", fmt.Sprintf("modulus has %d bits, %d requested", sk.N.BitLen(), k.L))
	}
	if new(big.Int).Mul(sk.P, sk.Q).Cmp(sk.N) != 0 {
		bad("N-not-P-times-Q", "N != P*Q")
	}
	if sk.P.Cmp(sk.Q) == 0 {
		bad("P-equals-Q", "P == Q")
	}
	if !isSafePrime(sk.P) {
		bad("P-not-safe-prime", "P is not a safe prime")
	}
	if !isSafePrime(sk.Q) {
		bad("Q-not-safe-prime", "Q is not a safe prime")
	}
	if d := new(big.Int).Sub(sk.P, sk.Q); d.BitLen() < k.L/2-pqBitLenDifference {
		bad("primes-too-close", fmt.Sprintf("|P-Q| has %d bits, the library's bound is >= %d", d.BitLen(), k.L/2-pqBitLenDifference))
	}
	pm1, qm1 := new(big.Int).Sub(sk.P, bigOne), new(big.Int).Sub(sk.Q, bigOne)
	phi := new(big.Int).Mul(pm1, qm1)
	if phi.Cmp(sk.PhiN) != 0 {
		bad("phi-mismatch", "PhiN != (P-1)(Q-1)")
	}
	lam := new(big.Int).Div(phi, new(big.Int).GCD(nil, nil, pm1, qm1))
	if lam.Cmp(sk.LambdaN) != 0 {
		bad("lambda-mismatch", "LambdaN != lcm(P-1,Q-1)")
	}
	r.Count("keys_structure_checked", 1)
}

// ---- F. generator ----

type genJob struct {
	L, seed int
	conc    int // 0 = library default (runtime.NumCPU), as the library's tests call it
	timeout time.Duration
	done    chan struct{}
	sk      *paillier.PrivateKey
	pk      *paillier.PublicKey
	err     error
	pan     string
	took    time.Duration
}

func startGen(L, seed, conc int, timeout time.Duration) *genJob {
	j := &genJob{L: L, seed: seed, conc: conc, timeout: timeout, done: make(chan struct{})}
	go func() {
		t0 := time.Now()
		defer close(j.done)
		defer func() {
			j.took = time.Since(t0)
			if e := recover(); e != nil {
				j.pan = fmt.Sprint(e)
			}
		}()
		ctx, cancel := context.WithTimeout(context.Background(), timeout)
		defer cancel()
		rd := core.NewDRBG(fmt.Sprintf("c14/gen/L%d/seed%d/conc%d", L, seed, conc))
		if conc == 0 {
			j.sk, j.pk, j.err = paillier.GenerateKeyPair(ctx, rd, L)
		} else {
			j.sk, j.pk, j.err = paillier.GenerateKeyPair(ctx, rd, L, conc)
		}
	}()
	return j
}

// collect waits for the jobs until the watchdog deadline; returns the finished ones.
func (c *chk) collect(jobs []*genJob, deadline time.Time, thorough bool) {
	r := c.r
	var keys []*key
	hung := 0
	var hungList []string
	for _, j := range jobs {
		finished := false
		select {
		case <-j.done: // never race a finished job against an expired timer
			finished = true
		default:
		}
		if !finished {
			wait := time.Until(deadline)
			if wait < 0 {
				wait = 0
			}
			select {
			case <-j.done:
				finished = true
			case <-time.After(wait):
			}
		}
		if !finished {
			hung++
			hungList = append(hungList, fmt.Sprintf("L%d/seed%d/conc%d", j.L, j.seed, j.conc))
			r.Violate("c19-overlap/paillier.GenerateKeyPair/safe-prime-generator-does-not-return:hang",
				"GenerateKeyPair did not return within the watchdog (GetRandomSafePrimesConcurrent: producers block on primeCh after the consumer left)",
				map[string]interface{}{"modulusBitLen": j.L, "seed": j.seed, "concurrency(0=default)": j.conc, "watchdog_s": 540})
			continue
		}
		name := fmt.Sprintf("generated-L%d-seed%d-conc%d", j.L, j.seed, j.conc)
		r.Count("generator_calls_returned", 1)
		if j.pan != "" {
			r.Violate("keygen/GenerateKeyPair/call:panic", "GenerateKeyPair panicked: "+j.pan, map[string]interface{}{"modulusBitLen": j.L, "seed": j.seed, "conc": j.conc})
			continue
		}
		if j.err != nil {
			r.Violate("keygen/GenerateKeyPair/error-returned", "GenerateKeyPair returned an error: "+j.err.Error(), map[string]interface{}{"modulusBitLen": j.L, "seed": j.seed, "conc": j.conc})
			continue
		}
		if j.sk == nil || j.pk == nil || j.sk.N == nil || j.pk.N == nil || j.sk.P == nil || j.sk.Q == nil {
			r.Violate("keygen/GenerateKeyPair/nil-field", "GenerateKeyPair returned a nil key or field", map[string]interface{}{"modulusBitLen": j.L, "seed": j.seed})
			continue
		}
		k := (&key{name: name, class: "generated", L: j.L, sk: j.sk}).init()
		if j.pk.N.Cmp(j.sk.N) != 0 {
			r.Violate("keygen/GenerateKeyPair/public-private-N-differ", "public and private modulus differ", rec(k, "pkN", j.pk.N))
		}
		c.structure(k, "GenerateKeyPair")
		if k.crt = newCRT(j.sk.P, j.sk.Q); k.crt == nil {
			continue // structure() has reported why
		}
		keys = append(keys, k)
		r.Distinct("generated_moduli", j.sk.N.String())
	}
	r.Count("generator_calls_hung", int64(hung))
	if hung > 0 {
		r.Set("generator_calls_hung_list(conc0=library default)", hungList)
	}
	core.ParallelFor(len(keys), runtime.NumCPU(), func(i int) { c.battery(keys[i], thorough, 1) })
}

// ---- Run ----

func Run(r *core.Run) {
	thorough := r.Tier == "thorough"
	c := &chk{r: r}
	start := time.Now()
	debug.SetGCPercent(400)        // tens of millions of short-lived big.Ints; the process runs only this check
	phases := map[string]float64{} // informational only (never an oracle)
	last := start
	phase := func(name string) {
		phases[name] += float64(int(time.Since(last).Seconds()*10)) / 10
		last = time.Now()
	}

	// F (started first, collected last): generator calls for the smallest sizes it supports.
	// L < 18 is not requested: for L/2 in {6,7,8} exactly one safe prime has the generator's shape, so the
	// library's own |P-Q| loop can never end (non-termination by construction, not part of this property).
	sizes := []int{18, 20, 22, 24, 32, 64, 128, 256}
	if thorough {
		sizes = append(sizes, 48, 96, 512)
	}
	var jobs []*genJob
	for _, L := range sizes {
		for seed := 0; seed < 8; seed++ {
			conc := 0 // library default, as the library's tests call it
			if seed%2 == 1 {
				conc = 1
			}
			jobs = append(jobs, startGen(L, seed, conc, 10*time.Minute))
		}
	}
	r.Count("generator_calls", int64(len(jobs)))
	genDeadline := start.Add(9 * time.Minute) // generous: these keys take milliseconds; only a generator that never returns gets here

	// keys
	tinyL := []int{6, 12}
	tinyPairsL := map[int]bool{6: true, 12: true}  // all (m1,m2) and (k,m)
	tinyCipherL := map[int]bool{6: true, 12: true} // all c in [0,N^2)
	smallL := []int{18, 20}
	if thorough {
		tinyL = append(tinyL, 14, 16) // L=14: + all ciphertexts; L=16: all m only (N^2 ~ 1.6e9 is out of budget)
		tinyCipherL[14] = true
		smallL = append(smallL, 22)
	}
	// a time budget may only cut the run (exhaustive:false); generous so that a loaded box does not cut quick
	budget := 150 * time.Second
	if thorough {
		budget = 7*time.Minute + 30*time.Second
	}
	over := func(k *key, what string) bool {
		if r.Elapsed() > budget {
			r.Cap("time budget: " + what + " skipped for " + k.name)
			return true
		}
		return false
	}
	var all []*key
	for _, L := range tinyL {
		ks := keySpace(L, false, "tiny")
		r.Set(fmt.Sprintf("tiny_keys_L%d", L), len(ks))
		for _, k := range ks {
			c.structure(k, "hand-built") // self-check of the hand-built key against the same rules
			all = append(all, k)
			if over(k, "exhaustive passes") {
				continue
			}
			if tinyCipherL[L] {
				c.allCiphertexts(k)
				phase("tiny_all_ciphertexts")
			}
			table := c.allPlaintexts(k, true)
			phase("tiny_all_plaintexts")
			if tinyPairsL[L] {
				c.allPairs(k, table)
				phase("tiny_all_pairs")
			}
			done := "all m in [0,N)"
			if tinyCipherL[L] {
				done += ", all ciphertexts in [0,N^2)"
			}
			if tinyPairsL[L] {
				done += ", all (m1,m2) HomoAdd, all (k,m) HomoMult"
			}
			r.Sample(8, map[string]string{"key": k.name, "case": done, "N": k.sk.N.String()})
		}
	}
	for _, L := range smallL {
		ks := keySpace(L, true, "small")
		r.Set(fmt.Sprintf("small_keys_L%d", L), len(ks))
		for _, k := range ks {
			c.structure(k, "hand-built")
			all = append(all, k)
			if over(k, "all-plaintexts pass") {
				continue
			}
			c.allPlaintexts(k, false)
		}
	}
	phase("small_all_plaintexts")
	// vendored 2048-bit keys
	for i, f := range fix.EcFixtures() {
		sk := f.PaillierSK
		k := (&key{name: fmt.Sprintf("vendored-%d", i), class: "vendored", L: 2048, sk: sk}).init()
		c.structure(k, "vendored")
		if k.crt = newCRT(sk.P, sk.Q); k.crt != nil {
			all = append(all, k)
		}
	}
	phase("vendored_structure")
	{
		// key-object reuse: a few keys of different sizes (first tiny, first small, first two vendored)
		var sel []*key
		seenClass := map[string]int{}
		for _, k := range all {
			if seenClass[k.class] < 2 {
				seenClass[k.class]++
				sel = append(sel, k)
			}
		}
		c.reuse(sel)
		phase("key_object_reuse")
	}
	sort.SliceStable(all, func(i, j int) bool { return all[i].sk.N.BitLen() > all[j].sk.N.BitLen() })
	// batteries: the large keys use the cores inside one key, the small ones across keys
	var smallKeys []*key
	for _, k := range all {
		if k.sk.N.BitLen() >= 1024 {
			c.battery(k, thorough, runtime.NumCPU())
		} else {
			smallKeys = append(smallKeys, k)
		}
	}
	phase("battery_large_keys")
	core.ParallelFor(len(smallKeys), runtime.NumCPU(), func(i int) { c.battery(smallKeys[i], thorough, 1) })
	phase("battery_small_keys")

	// watchdog: >= 125 s after launch AND >= 120 s after the competing exhaustive work has ended
	// (finished jobs are collected immediately; only a call that never returns costs the wait)
	if d := time.Now().Add(120 * time.Second); d.After(genDeadline) {
		genDeadline = d
	}
	c.collect(jobs, genDeadline, thorough)
	phase("generated_keys")

	// one 2048-bit generation (thorough only), at most ~3 minutes
	if thorough {
		if r.Elapsed() > 5*time.Minute {
			r.Cap("2048-bit GenerateKeyPair skipped: time budget")
		} else {
			j := startGen(2048, 0, 0, 175*time.Second)
			select {
			case <-j.done:
				if j.err == common.ErrGeneratorCancelled {
					r.Cap("2048-bit GenerateKeyPair did not finish within 175 s; skipped")
				} else {
					r.Set("generate_2048_seconds", int(j.took.Seconds()))
					c.collect([]*genJob{j}, time.Now().Add(time.Second), thorough)
				}
			case <-time.After(175*time.Second + 125*time.Second):
				c.collect([]*genJob{j}, time.Now(), thorough)
			}
		}
	}

	if !strictNonUnitOnHomoOps {
		r.Assume("'ciphertexts sharing a factor with N are refused' is required of Decrypt only; HomoAdd/HomoMult must enforce the range guards (acceptances of non-units there are counted as nonunit_accepted_by_homo_ops)")
	}
	r.Assume("with the library's default concurrency the producer goroutines share the reader, so WHICH key GenerateKeyPair returns for a seed is scheduler-dependent (distinct_generated_moduli varies between runs); the number of cases per returned key is fixed")
	r.Assume("requested modulus lengths are even (GenerateKeyPair gives each prime len/2 bits)")
	r.Assume("freshness (two encryptions differ) is asserted only for moduli of >= 100 bits, where a repeated randomness is not a legitimate event")
	r.Assume("hand-built tiny/small keys fill N, PhiN, LambdaN, P, Q exactly as GenerateKeyPair does; the small ones are exactly the keys the generator can emit at that length")
	phase("generate_2048")
	r.Set("phase_seconds(info)", phases)
	r.Set("evaluations", int(atomic.LoadInt64(&c.evals)))
	r.Set("distinct_nontrivial", r.NDistinct("cases")+int(r.Get("distinct_plaintexts_measured")))
	r.Set("rule", "cases = (key, operation, operand classes) strings of the boundary battery (measured as a set) plus, for the exhaustive passes, "+
		"the number of distinct plaintexts actually returned by Decrypt (bitset/histogram measured per key); evaluations = oracle evaluations "+
		"(one per decrypted ciphertext / refused operand / key structure)")
}
