package c14

import (
	"encoding/json"
	"fmt"
	"math/big"

	"github.com/bnb-chain/tss-lib/v2/crypto/paillier"

	"verif/internal/core"
)

// reuse: ONE key object used, then given another key's value (json.Unmarshal of another key into the same
// variable decodes in place; a plain assignment to the exported field N does the same for a public key),
// then used again. After the reload the object must behave exactly like a fresh object holding the second
// key: same ciphertexts from the same randomness, round trips, homomorphic operations and range guards.
func (c *chk) reuse(keys []*key) {
	r := c.r
	if len(keys) < 2 {
		return
	}
	msgs := func(N *big.Int) []*big.Int {
		return []*big.Int{big.NewInt(0), big.NewInt(1), new(big.Int).Sub(N, big.NewInt(1)), new(big.Int).Mod(new(big.Int).SetBytes(core.Bytes("c14/reuse/m", 300)), N)}
	}
	use := func(sk *paillier.PrivateKey, label string) (obs []string) {
		defer func() {
			if e := recover(); e != nil {
				obs = append(obs, fmt.Sprint("panic: ", e))
			}
		}()
		pk := &sk.PublicKey
		var cts []*big.Int
		for i, m := range msgs(sk.N) {
			ct, err := pk.Encrypt(core.NewDRBG(fmt.Sprintf("c14/reuse/%s/%d", label, i)), m)
			if err != nil {
				obs = append(obs, "enc-err:"+err.Error())
				continue
			}
			cts = append(cts, ct)
			d, err := sk.Decrypt(ct)
			obs = append(obs, fmt.Sprintf("enc=%s dec=%v err=%v roundtrip=%v", ct.Text(16), d, err, err == nil && d.Cmp(m) == 0))
		}
		if len(cts) >= 2 {
			s, err := pk.HomoAdd(cts[1], cts[2])
			obs = append(obs, fmt.Sprintf("add=%v err=%v", s, err))
			p, err := pk.HomoMult(big.NewInt(3), cts[1])
			obs = append(obs, fmt.Sprintf("mul=%v err=%v", p, err))
		}
		// range guards with the key's own N and N^2
		_, e1 := pk.Encrypt(core.NewDRBG("c14/reuse/guard"), new(big.Int).Set(sk.N))
		_, e2 := sk.Decrypt(new(big.Int).Mul(sk.N, sk.N))
		obs = append(obs, fmt.Sprintf("encrypt(N) refused=%v decrypt(N^2) refused=%v", e1 != nil, e2 != nil))
		return
	}
	pairs := 0
	for i, k1 := range keys {
		for j, k2 := range keys {
			if i == j || k1.sk.N.Cmp(k2.sk.N) == 0 {
				continue
			}
			pairs++
			c.ev(1)
			b1, _ := json.Marshal(k1.sk)
			b2, _ := json.Marshal(k2.sk)
			fresh := new(paillier.PrivateKey)
			if json.Unmarshal(b2, fresh) != nil {
				continue
			}
			want := use(fresh, "x")
			obj := new(paillier.PrivateKey)
			if json.Unmarshal(b1, obj) != nil {
				continue
			}
			_ = use(obj, "first") // the object is used with its first value
			if err := json.Unmarshal(b2, obj); err != nil {
				continue
			}
			got := use(obj, "x")
			rec := map[string]string{"first_key": k1.name, "second_key": k2.name, "N1": k1.sk.N.String(), "N2": k2.sk.N.String()}
			for n := range want {
				if n >= len(got) || got[n] != want[n] {
					g := "<missing>"
					if n < len(got) {
						g = got[n]
					}
					rec["fresh_object"], rec["reloaded_object"] = want[n], g
					r.Violate("reuse/reloaded-key-object-differs-from-fresh", "a key object that was used and then reloaded with another key (json.Unmarshal into the same variable) does not behave like a fresh object holding that key", rec)
					break
				}
			}
			// public key: the modulus field assigned
			pk := &paillier.PublicKey{N: new(big.Int).Set(k1.sk.N)}
			m1 := big.NewInt(1)
			if _, err := pk.Encrypt(core.NewDRBG("c14/reuse/pk/first"), m1); err == nil {
				pk.N = new(big.Int).Set(k2.sk.N)
				ct, err := pk.Encrypt(core.NewDRBG("c14/reuse/pk/x"), m1)
				ctw, errw := (&paillier.PublicKey{N: new(big.Int).Set(k2.sk.N)}).Encrypt(core.NewDRBG("c14/reuse/pk/x"), m1)
				if (err == nil) != (errw == nil) || (err == nil && ct.Cmp(ctw) != 0) {
					r.Violate("reuse/public-key-with-reassigned-modulus-differs-from-fresh", "a public key whose N field was reassigned after use encrypts differently from a fresh one", rec)
				}
			}
		}
	}
	r.Set("reuse_key_pairs", pairs)
}
