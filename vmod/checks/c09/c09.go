// Package c09: the party update API is safe to call from many goroutines (SCHED).
// The harness binary (cmd/sched09) is built with an overlay in which /repo/tss/party.go is replaced by
// a mechanically instrumented copy of the CURRENT file; all interleavings of a few concurrent calls on
// one real party are explored up to a preemption bound; a separate free-running -race build of the
// same scenario bodies gives the race detector's second opinion.
package c09

import (
	"bytes"
	"encoding/json"
	"fmt"
	"os"
	"os/exec"
	"path/filepath"
	"regexp"
	"strings"

	"verif/internal/core"
	"verif/internal/ovl"
)

const Implemented = true

type violation struct {
	Key      string   `json:"key"`
	What     string   `json:"what"`
	Schedule []int    `json:"schedule"`
	Trace    []string `json:"trace"`
}

type result struct {
	Scenario     string      `json:"scenario"`
	Bound        int         `json:"bound"`
	Schedules    int         `json:"schedules"`
	Steps        int         `json:"steps"`
	MaxPoints    int         `json:"max_points"`
	Capped       bool        `json:"capped"`
	Outcomes     int         `json:"distinct_outcomes"`
	SeqOutcomes  int         `json:"sequential_outcomes"`
	Violations   []violation `json:"violations"`
	SampleTrace  []string    `json:"sample_trace"`
	ReplayStable bool        `json:"replay_stable"`
}

func Run(r *core.Run) {
	dir := filepath.Join(core.WorkDir(), fmt.Sprintf("c09-%d", os.Getpid()))
	_ = os.MkdirAll(dir, 0o755)
	defer os.RemoveAll(dir)
	o, err := ovl.Base()
	if err != nil {
		r.Cap("cannot read VERIF_OVERLAY: " + err.Error())
		return
	}
	st, err := o.Instrument(dir, "/repo/tss/party.go", []string{"*"}, []string{"StoreMessage", "Start", "Update", "CanProceed"})
	if err != nil {
		fmt.Fprintln(os.Stderr, "INFRASTRUCTURE: cannot instrument tss/party.go:", err)
		os.Exit(2)
	}
	if !st.SyncImport || st.AccessHooks < 5 {
		// the file no longer has the shape the instrumentation expects (no sync import / hardly any access to
		// mutex-protected fields): the exploration still runs with what was found; say so instead of failing
		r.Cap(fmt.Sprintf("instrumentation of tss/party.go found little (%+v): lock-set monitor / scheduling points may be incomplete", st))
	}
	r.Set("instrumentation", fmt.Sprintf("%+v", st))
	ovPath, _ := o.Write(dir)
	bin := filepath.Join(dir, "sched09")
	if err := ovl.Build(ovPath, "./cmd/sched09", bin, false); err != nil {
		fmt.Fprintln(os.Stderr, "INFRASTRUCTURE:", err)
		os.Exit(2)
	}
	bound := "2"
	if r.Tier == "thorough" {
		bound = "4"
	}
	cmd := exec.Command(bin, "explore", r.Tier, fmt.Sprint(r.Seed), bound)
	var stderr bytes.Buffer
	cmd.Stderr = &stderr
	out, err := cmd.Output()
	if err != nil {
		fmt.Fprintln(os.Stderr, "INFRASTRUCTURE: harness failed:", err, tail(stderr.String()))
		os.Exit(2)
	}
	var results []result
	if err := json.Unmarshal(out, &results); err != nil {
		fmt.Fprintln(os.Stderr, "INFRASTRUCTURE: harness output unreadable:", err)
		os.Exit(2)
	}
	var schedules, steps int
	for _, res := range results {
		schedules += res.Schedules
		steps += res.Steps
		proto := strings.SplitN(res.Scenario, "/", 2)[0]
		for _, v := range res.Violations {
			if strings.HasPrefix(v.Key, "infrastructure/") {
				r.Cap("scheduler: " + v.Key + " in " + res.Scenario)
				continue
			}
			r.Violate(proto+"/"+v.Key, v.What+" [scenario "+res.Scenario+"]", map[string]interface{}{"scenario": res.Scenario, "schedule": v.Schedule, "trace": v.Trace})
		}
		if !res.ReplayStable {
			r.Cap("replaying the same schedule twice gave different observations in " + res.Scenario)
		}
		if res.Capped {
			r.Cap("schedule cap hit in " + res.Scenario)
		}
		r.Distinct("outcomes", fmt.Sprintf("%s#%d", res.Scenario, res.Outcomes))
		r.Set("scn:"+res.Scenario, map[string]interface{}{"schedules": res.Schedules, "scheduling_points_total": res.Steps, "max_points_per_schedule": res.MaxPoints,
			"distinct_final_observables": res.Outcomes, "sequential_observables": res.SeqOutcomes, "preemption_bound": res.Bound})
		if len(res.SampleTrace) > 0 && strings.Contains(res.Scenario, "WaitingFor") {
			r.Sample(4, map[string]interface{}{"scenario": res.Scenario, "longest_schedule": res.SampleTrace})
		}
	}
	r.Set("states", steps)
	r.Set("transitions", steps)
	r.Set("schedules", schedules)
	r.Set("traces_validated_against_impl", schedules)
	r.Set("preemption_bound_completed", bound)
	r.Set("scenarios", len(results))

	// free-running race-detector pass (second opinion; a report is a real race)
	rbin := filepath.Join(dir, "sched09race")
	if err := ovl.Build(ovPath, "./cmd/sched09", rbin, true); err != nil {
		r.Cap("race build unavailable: " + firstLine(err.Error()))
	} else {
		rc := exec.Command(rbin, "free", r.Tier, fmt.Sprint(r.Seed), "0")
		rc.Env = append(os.Environ(), "GOMAXPROCS=16", "GORACE=halt_on_error=0")
		bz, _ := rc.CombinedOutput()
		reports := strings.Split(string(bz), "WARNING: DATA RACE")
		r.Set("race_reports", len(reports)-1)
		fr := regexp.MustCompile(`tss-lib/v2/([a-z/]+)\.\(?\*?([A-Za-z0-9]+)\)?\.([A-Za-z0-9]+)\(\)`)
		for _, rep := range reports[1:] {
			site := "unknown"
			if strings.Contains(rep, ").WrapError()") {
				site = "WrapError"
			} else if m := fr.FindStringSubmatch(rep); m != nil {
				site = m[1] + "." + m[2] + "." + m[3]
			}
			lines := strings.Split(rep, "\n")
			if len(lines) > 24 {
				lines = lines[:24]
			}
			r.Violate("race/"+site, "the Go race detector reports a data race (free-running pass)", strings.Join(lines, "\n"))
		}
		if !strings.Contains(string(bz), "free-run-done") {
			r.Cap("free-running pass did not finish: " + tail(string(bz)))
		}
	}
	r.Assume("scheduling points: every Lock of the party mutex; unsynchronised accesses are caught by the lock-set monitor (access hooks on BaseParty.rnd and on the engine's calls into party state) and by the separate free-running -race pass")
	r.Assume("peer messages come from a recorded deterministic transcript; ECDSA signing uses only round-1 messages (later ones depend on the party's own non-reproducible round-2 output)")
}

func tail(s string) string {
	if len(s) > 600 {
		return s[len(s)-600:]
	}
	return s
}

func firstLine(s string) string {
	if i := strings.Index(s, "\n"); i > 0 {
		return s[:i]
	}
	return s
}
