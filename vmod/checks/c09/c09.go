// Package c09: check for property C09 (stub until implemented).
package c09

import "verif/internal/core"

// Implemented reports whether this check is built.
const Implemented = false

func Run(r *core.Run) { r.Cap("not implemented") }
