package c19

// Part (a) of C19: the io.Reader is the only nondeterminism of the safe-prime generator (besides
// scheduling, part (b)) and of the sampling helpers. Every possible reader answer for one draw is
// enumerated; whatever is returned is compared with trial-division / table references.

import (
	"context"
	"errors"
	"fmt"
	"io"
	"math/big"
	"reflect"
	"runtime"
	"sort"
	"sync"
	"sync/atomic"
	"time"
	"unsafe"

	"github.com/bnb-chain/tss-lib/v2/common"
	tsscrypto "github.com/bnb-chain/tss-lib/v2/crypto"

	"verif/internal/core"
	"verif/internal/fix"
)

const (
	hangWatchdog      = 150 * time.Second // >= 120 s (brief); only classifies hangs, never an oracle
	samplerBudget     = 4096              // draws a sampler may consume before it is classified as not terminating
	genFillerDraws    = 20000             // fruitless draws (>= 2 s of waiting) before the deterministic stream takes over
	genFillerDrawsMin = 64
)

var (
	genFillerLimit int32 = genFillerDraws
	genStarved     int32
)

func runInputs(r *core.Run) {
	if !selfTestRef(r) {
		return
	}
	var wg sync.WaitGroup
	if r.Tier == "thorough" {
		wg.Add(1)
		go func() { defer wg.Done(); gen1024(r) }()
	}
	r.Assume("generator calls of part (a) use concurrency 1 and a scripted reader: the enumerated draw, then draws that are themselves Sophie Germain primes of the requested size (as many as numPrimes), then fruitless all-ones draws until the call returns (deterministic stream after 20000 of them); a single producer therefore never finds more primes than the result channel holds, which keeps the known consumer/producer deadlock (part (b)) out of part (a)")
	r.Assume("admissible sampler inputs: GetRandomPositiveRelativelyPrimeInt and GetRandomGeneratorOfTheQuadraticResidue for n >= 2 (DESIGN 3a; for n = 1 the unit group has no element in [1,n)); GetRandomQuadraticNonResidue for odd n >= 3 (n = 1 has no non-residue); GetRandomPrimeInt for bits >= 2 (no 1-bit prime); for bounds <= 0 / nil the only in-range answer is nil")
	r.Assume("a sampler call that consumes more than 4096 draws of the deterministic stream without returning is classified as not terminating (the acceptance rate of every admissible input here is above 5 percent per draw)")
	phases := map[string]float64{}
	phase := func(name string, f func(*core.Run)) {
		t0 := time.Now()
		f(r)
		phases[name] = float64(int(time.Since(t0).Seconds()*10)) / 10
	}
	phase("gen-params", genParams)
	phase("gen-enumerate", genEnumerate)
	phase("gen-reader-errors", genReaderErrors)
	phase("validate", validateEnumerate)
	phase("ntilde-helper", nTildeHelper)
	phase("samplers-qnr-squares", samplersQNRSquares)
	phase("samplers-small", samplersSmall)
	phase("samplers-edge", samplersEdge)
	phase("samplers-large", samplersLarge)
	wg.Wait()
	r.Set("inputs_phase_wall_s", phases) // information only
}

// selfTestRef: the references must agree with each other before they judge anything.
func selfTestRef(r *core.Run) bool {
	for _, p := range []uint64{3, 5, 7, 11, 13, 17, 19, 23, 29, 31, 37, 41, 43, 47, 53, 59, 61, 251, 257} {
		sq := unitSquares(p)
		for w := uint64(0); w < p; w++ {
			j := jacobi64(w, p)
			want := -1
			if w == 0 {
				want = 0
			} else if sq[w] {
				want = 1
			}
			if j != want || jacobiBig(new(big.Int).SetUint64(w), new(big.Int).SetUint64(p)) != want {
				r.Cap(fmt.Sprintf("harness self-test failed: jacobi(%d,%d)", w, p))
				return false
			}
		}
	}
	for _, n := range []uint64{9, 15, 21, 35, 45, 77, 105, 1155} {
		for w := uint64(0); w < n; w++ {
			if jacobi64(w, n) != jacobiBig(new(big.Int).SetUint64(w), new(big.Int).SetUint64(n)) {
				r.Cap("harness self-test failed: jacobi64 vs jacobiBig")
				return false
			}
		}
	}
	return true
}

// ---------------------------------------------------------------------------------------------
// safe-prime generator
// ---------------------------------------------------------------------------------------------

var errScripted = errors.New("c19: scripted reader error")

// genReader answers the generator's draws from a script, then with all-ones draws (which cannot
// yield a prime of the requested length, so a single producer never over-fills the result channel:
// the known deadlock of the consumer/producer hand-over is avoided by construction), then with a
// deterministic stream so that the generator terminates whatever it does with the script.
type genReader struct {
	mu       sync.Mutex
	script   [][]byte
	errAt    int // draw index at which errScripted is returned (-1: never)
	label    string
	drbg     *core.DRBG
	draws    int
	widthBad bool
	maxDraws int // >0: return an error after that many draws and set exceeded
	exceeded bool
}

func (g *genReader) Read(p []byte) (int, error) {
	g.mu.Lock()
	k := g.draws
	g.draws++
	if g.errAt >= 0 && k >= g.errAt {
		g.mu.Unlock()
		return 0, errScripted
	}
	if g.maxDraws > 0 && k >= g.maxDraws {
		g.exceeded = true
		g.mu.Unlock()
		return 0, errScripted
	}
	switch {
	case k < len(g.script):
		s := g.script[k]
		if len(s) != len(p) {
			g.widthBad = true
		}
		for i := range p {
			p[i] = s[i%len(s)]
		}
	case len(g.script) > 0 && k < len(g.script)+int(atomic.LoadInt32(&genFillerLimit)):
		// The script has supplied everything the consumer needs; until the consumer has run and
		// cancelled, hand out fruitless draws and give the consumer's goroutine the processor.
		for i := range p {
			p[i] = 0xff
		}
		f := k - len(g.script)
		g.mu.Unlock()
		if f < 16 {
			runtime.Gosched()
		} else {
			time.Sleep(100 * time.Microsecond)
		}
		if f+1 == int(atomic.LoadInt32(&genFillerLimit)) {
			// the generator did not finish with the scripted primes: from now on it gets the
			// deterministic stream; do not wait that long again in later calls
			if atomic.AddInt32(&genStarved, 1) >= 3 {
				atomic.StoreInt32(&genFillerLimit, genFillerDrawsMin)
			}
		}
		return len(p), nil
	default:
		if g.drbg == nil {
			g.drbg = core.NewDRBG(g.label)
		}
		n, err := g.drbg.Read(p)
		g.mu.Unlock()
		return n, err
	}
	g.mu.Unlock()
	return len(p), nil
}

type genOut struct {
	res   []*common.GermainSafePrime
	err   error
	panic interface{}
	hang  bool
}

func callGen(bits, np, conc int, rd io.Reader) genOut {
	done := make(chan genOut, 1)
	go func() {
		var o genOut
		defer func() {
			if p := recover(); p != nil {
				o.panic = fmt.Sprint(p)
			}
			done <- o
		}()
		o.res, o.err = common.GetRandomSafePrimesConcurrent(context.Background(), bits, np, conc, rd)
	}()
	t := time.NewTimer(hangWatchdog)
	defer t.Stop()
	select {
	case o := <-done:
		return o
	case <-t.C:
		return genOut{hang: true}
	}
}

type pairRec struct {
	Q string `json:"q"`
	P string `json:"p"`
}

func recPairs(res []*common.GermainSafePrime) []pairRec {
	out := make([]pairRec, 0, len(res))
	for _, g := range res {
		if g == nil {
			out = append(out, pairRec{"nil", "nil"})
			continue
		}
		out = append(out, pairRec{fmt.Sprint(g.Prime()), fmt.Sprint(g.SafePrime())})
	}
	return out
}

// checkPairs is the oracle of the property statement for one returned list.
func checkPairs(bits, np int, res []*common.GermainSafePrime) (string, string) {
	if len(res) != np {
		return "count", fmt.Sprintf("returned %d pairs, %d requested", len(res), np)
	}
	for i, g := range res {
		if g == nil || g.Prime() == nil || g.SafePrime() == nil {
			return "nil-entry", fmt.Sprintf("entry %d is nil", i)
		}
		q, p := g.Prime(), g.SafePrime()
		if q.Sign() <= 0 || p.Sign() <= 0 || p.BitLen() > 40 {
			return "range", fmt.Sprintf("entry %d: q=%v p=%v", i, q, p)
		}
		qu, pu := q.Uint64(), p.Uint64()
		if !isPrimeTD(qu) {
			return "q-composite", fmt.Sprintf("entry %d: q=%d is not prime", i, qu)
		}
		if pu != 2*qu+1 {
			return "p-not-2q+1", fmt.Sprintf("entry %d: p=%d, q=%d", i, pu, qu)
		}
		if !isPrimeTD(pu) {
			return "p-composite", fmt.Sprintf("entry %d: p=%d is not prime", i, pu)
		}
		if p.BitLen() != bits {
			return "bitlen", fmt.Sprintf("entry %d: p=%d has %d bits, %d requested", i, pu, p.BitLen(), bits)
		}
		if p.Bit(bits-1) != 1 || p.Bit(bits-2) != 1 {
			return "top-two-bits", fmt.Sprintf("entry %d: p=%d (%b) does not have its two top bits set", i, pu, pu)
		}
		if !g.Validate() {
			return "validate-false", fmt.Sprintf("entry %d: Validate() is false for q=%d p=%d", i, qu, pu)
		}
	}
	return "", ""
}

func maxGenBits(r *core.Run) int {
	if r.Tier == "thorough" {
		return 16
	}
	return 12
}

// knownDraw: byte string of a draw that is itself a Sophie Germain prime q (two top bits set)
// of the size the generator draws for `bits`.
func knownDraw(bits int) []byte {
	nb := (bits - 1 + 7) / 8
	for _, pr := range safePrimePairs(bits) {
		if pr[1]>>(uint(bits)-2) == 3 {
			b := make([]byte, nb)
			q := pr[0]
			for i := nb - 1; i >= 0; i-- {
				b[i] = byte(q)
				q >>= 8
			}
			return b
		}
	}
	return nil
}

type genCase struct {
	bits, np, pos int
	first         []byte
}

func genParams(r *core.Run) {
	// below the documented minimum (6) and numPrimes < 1: refused, or at least never a wrong result / hang
	for _, bits := range []int{-1, 0, 1, 2, 3, 4, 5} {
		rd := &genReader{errAt: -1, label: fmt.Sprint("c19/gen/below/", bits), maxDraws: 20000}
		o := callGen(bits, 1, 1, rd)
		r.Count("gen_calls", 1)
		rec := map[string]interface{}{"bits": bits, "numPrimes": 1, "draws": rd.draws}
		switch {
		case o.hang || rd.exceeded:
			r.Violate("gen/below-minimum-bits:hang", fmt.Sprintf("bitLen=%d (below the documented minimum 6) does not return", bits), rec)
		case o.panic != nil:
			rec["panic"] = o.panic
			r.Violate("gen/below-minimum-bits:panic", fmt.Sprintf("bitLen=%d panics", bits), rec)
		case o.err == nil:
			cls, what := "no-such-prime", "no prime of that size exists"
			if bits >= 2 {
				cls, what = checkPairs(bits, 1, o.res)
			}
			if cls != "" {
				rec["result"] = recPairs(o.res)
				r.Violate("gen/below-minimum-bits/"+cls, fmt.Sprintf("bitLen=%d accepted and %s", bits, what), rec)
			}
			r.Distinct("cases", fmt.Sprint("gen-below|", bits, "|accepted"))
		default:
			r.Distinct("cases", fmt.Sprint("gen-below|", bits, "|refused"))
		}
	}
	for _, np := range []int{0, -1} {
		rd := &genReader{errAt: -1, label: "c19/gen/np", maxDraws: 20000}
		o := callGen(8, np, 1, rd)
		r.Count("gen_calls", 1)
		rec := map[string]interface{}{"bits": 8, "numPrimes": np}
		switch {
		case o.hang || rd.exceeded:
			r.Violate("gen/numPrimes<1:hang", "does not return", rec)
		case o.panic != nil:
			rec["panic"] = o.panic
			r.Violate("gen/numPrimes<1:panic", "panics", rec)
		case o.err == nil && len(o.res) != 0:
			r.Violate("gen/numPrimes<1/count", fmt.Sprintf("returned %d pairs for numPrimes=%d", len(o.res), np), rec)
		}
		r.Distinct("cases", fmt.Sprint("gen-np|", np, "|", o.err != nil))
	}
}

func genEnumerate(r *core.Run) {
	var cases []genCase
	maxBits := maxGenBits(r)
	known := map[int][]byte{}
	for bits := 6; bits <= maxBits; bits++ {
		k := knownDraw(bits)
		known[bits] = k
		if k == nil {
			r.Cap(fmt.Sprintf("no safe prime with two top bits set at %d bits: deterministic continuation only", bits))
		}
		qBits := bits - 1
		nb := (qBits + 7) / 8
		// numPrimes = 1, draw at position 0: EVERY raw byte string of the width of one draw; quick,
		// for two-byte draws: every value of the qBits bits the generator keeps (including the
		// three it forces), the masked-away bits once all zero and once all one
		if nb == 1 || r.Tier == "thorough" {
			for v := 0; v < 1<<(8*uint(nb)); v++ {
				cases = append(cases, genCase{bits, 1, 0, beBytes(uint64(v), nb)})
			}
		} else {
			for _, fill := range []uint64{0, ^uint64(0) << uint(qBits)} {
				for v := uint64(0); v < 1<<uint(qBits); v++ {
					cases = append(cases, genCase{bits, 1, 0, beBytes(v|fill, nb)})
				}
			}
		}
		// numPrimes = 2 and 3, positions 0 and 1: every value of the bits that survive the generator's
		// masking (bits above qBits are cleared, two top bits and the low bit are forced); the
		// masked-away bits are filled with ones to exercise the masking as well
		free := qBits - 3
		for _, np := range []int{2, 3} {
			for pos := 0; pos <= 1; pos++ {
				for v := 0; v < 1<<uint(free); v++ {
					val := uint64(v) << 1 // low bit left clear, top two bits left clear
					full := val | (^uint64(0) << uint(qBits))
					cases = append(cases, genCase{bits, np, pos, beBytes(full, nb)})
				}
			}
		}
	}
	var widthBad int32
	type agg struct {
		mu    sync.Mutex
		cases map[string]struct{}
	}
	a := &agg{cases: map[string]struct{}{}}
	core.ParallelFor(len(cases), 4*runtime.NumCPU(), func(i int) { // latency-bound (goroutine hand-overs), not CPU-bound
		c := cases[i]
		k := known[c.bits]
		var script [][]byte
		if c.pos == 1 && k != nil {
			script = append(script, k)
		}
		script = append(script, c.first)
		if k != nil {
			n := c.np
			if c.pos == 1 {
				n = c.np - 1
			}
			for j := 0; j < n; j++ {
				script = append(script, k)
			}
		}
		rd := &genReader{script: script, errAt: -1, label: fmt.Sprintf("c19/gen/%d/%d/%d/%x", c.bits, c.np, c.pos, c.first)}
		if k == nil {
			rd.script = [][]byte{c.first}
		}
		o := callGen(c.bits, c.np, 1, rd)
		rec := map[string]interface{}{"bits": c.bits, "numPrimes": c.np, "concurrency": 1, "enumerated_draw_index": c.pos,
			"enumerated_draw": fmt.Sprintf("%x", c.first), "script": hexList(script), "then": fmt.Sprintf("all-ones draws (up to %d), then DRBG(%q)", genFillerDraws, rd.label)}
		key := fmt.Sprintf("gen/bits%d/np%d", c.bits, c.np)
		if rd.widthBad {
			atomic.AddInt32(&widthBad, 1)
		}
		switch {
		case o.hang:
			r.Violate(fmt.Sprintf("gen/np%d/scripted-single-producer:hang", c.np), "GetRandomSafePrimesConcurrent (concurrency 1) did not return", rec)
			return
		case o.panic != nil:
			rec["panic"] = o.panic
			r.Violate(key+":panic", "GetRandomSafePrimesConcurrent panicked", rec)
			return
		case o.err != nil:
			rec["error"] = o.err.Error()
			r.Violate(key+"/error-without-cause", "an error is returned although the reader never failed and the context was never cancelled", rec)
			return
		}
		rec["result"] = recPairs(o.res)
		if cls, what := checkPairs(c.bits, c.np, o.res); cls != "" {
			r.Violate(key+"/"+cls, what, rec)
			return
		}
		s := fmt.Sprintf("gen|%d|%d|%d|", c.bits, c.np, c.pos)
		for _, g := range o.res {
			s += g.Prime().String() + ","
		}
		a.mu.Lock()
		a.cases[s] = struct{}{}
		a.mu.Unlock()
		if c.np == 2 && c.pos == 0 && len(c.first) == 2 && c.first[1] == 0x54 {
			r.Sample(6, rec)
		}
	})
	r.Count("gen_calls", int64(len(cases)))
	r.Count("gen_enumerated_draws", int64(len(cases)))
	for s := range a.cases {
		r.Distinct("cases", s)
		r.Distinct("gen_results", s)
	}
	if widthBad > 0 {
		r.Cap(fmt.Sprintf("generator read a different width than the enumerated one in %d calls: the enumeration is not 'every answer'", widthBad))
	}
	r.Set("gen_bits_enumerated", fmt.Sprintf("6..%d", maxBits))
}

func beBytes(v uint64, n int) []byte {
	b := make([]byte, n)
	for i := n - 1; i >= 0; i-- {
		b[i] = byte(v)
		v >>= 8
	}
	return b
}

func hexList(l [][]byte) []string {
	out := make([]string, len(l))
	for i, b := range l {
		out[i] = fmt.Sprintf("%x", b)
	}
	return out
}

// genReaderErrors: a failing entropy source ends the call with an error (single producer, so the
// outcome is schedule-independent: no prime can be complete before the failure).
func genReaderErrors(r *core.Run) {
	for bits := 6; bits <= maxGenBits(r); bits++ {
		nb := (bits - 1 + 7) / 8
		ones := make([]byte, nb)
		for i := range ones {
			ones[i] = 0xff
		}
		k := knownDraw(bits)
		type sc struct {
			name   string
			np     int
			script [][]byte
		}
		list := []sc{{"first-draw", 1, nil}, {"first-draw", 2, nil}, {"after-fruitless-draw", 1, [][]byte{ones}}, {"after-fruitless-draw", 2, [][]byte{ones, ones}}}
		if k != nil {
			list = append(list, sc{"after-one-of-two-primes", 2, [][]byte{k}})
		}
		for _, s := range list {
			rd := &genReader{script: s.script, errAt: len(s.script), label: "unused"}
			o := callGen(bits, s.np, 1, rd)
			r.Count("gen_calls", 1)
			rec := map[string]interface{}{"bits": bits, "numPrimes": s.np, "script": hexList(s.script), "then": "reader error"}
			key := "gen/reader-error/" + s.name
			switch {
			case o.hang:
				r.Violate(key+":hang", "generator does not return after its entropy source failed", rec)
			case o.panic != nil:
				rec["panic"] = o.panic
				r.Violate(key+":panic", "generator panics after its entropy source failed", rec)
			case o.err == nil:
				rec["result"] = recPairs(o.res)
				r.Violate(key+"/no-error", "entropy source failed before the requested primes could exist, but no error was returned", rec)
			}
			r.Distinct("cases", fmt.Sprint("gen-rderr|", bits, "|", s.name, "|", s.np))
		}
	}
}

// gen1024: thorough only, two real-size generations.
func gen1024(r *core.Run) {
	deadline := time.Now().Add(6 * time.Minute)
	for i := 0; i < 2; i++ {
		if time.Now().After(deadline) {
			r.Cap("1024-bit generations cut by the 6 min budget")
			return
		}
		label := fmt.Sprint("c19/gen1024/", i)
		d := core.NewDRBG(label)
		done := make(chan genOut, 1)
		go func() {
			var o genOut
			defer func() {
				if p := recover(); p != nil {
					o.panic = fmt.Sprint(p)
				}
				done <- o
			}()
			o.res, o.err = common.GetRandomSafePrimesConcurrent(context.Background(), 1024, 1, 1, d)
		}()
		var o genOut
		select {
		case o = <-done:
		case <-time.After(time.Until(deadline)):
			r.Cap("1024-bit generation cut by the 6 min budget")
			return
		}
		r.Count("gen_calls", 1)
		r.Count("gen_1024_runs", 1)
		rec := map[string]interface{}{"bits": 1024, "numPrimes": 1, "concurrency": 1, "reader": "DRBG(" + label + ")"}
		if o.panic != nil {
			rec["panic"] = o.panic
			r.Violate("gen/bits1024:panic", "panic", rec)
			continue
		}
		if o.err != nil || len(o.res) != 1 || o.res[0] == nil {
			r.Violate("gen/bits1024/count", fmt.Sprintf("err=%v, %d results", o.err, len(o.res)), rec)
			continue
		}
		q, p := o.res[0].Prime(), o.res[0].SafePrime()
		rec["q"], rec["p"] = q.String(), p.String()
		two := big.NewInt(2)
		want := new(big.Int).Add(new(big.Int).Mul(q, two), big.NewInt(1))
		switch {
		case want.Cmp(p) != 0:
			r.Violate("gen/bits1024/p-not-2q+1", "p != 2q+1", rec)
		case p.BitLen() != 1024 || p.Bit(1023) != 1 || p.Bit(1022) != 1:
			r.Violate("gen/bits1024/bitlen", fmt.Sprintf("p has %d bits / top bits not set", p.BitLen()), rec)
		case !refProbablyPrime(q) || !refProbablyPrime(p):
			r.Violate("gen/bits1024/composite", "q or p fails the reference Miller-Rabin test", rec)
		case !o.res[0].Validate():
			r.Violate("gen/bits1024/validate-false", "Validate() false", rec)
		}
		r.Distinct("cases", fmt.Sprint("gen1024|", i, "|", q.BitLen()))
	}
}

// refProbablyPrime: own Miller-Rabin over fixed bases (the first 40 primes) for numbers far beyond
// trial division; independent of the generator's sieve/Pocklington logic.
func refProbablyPrime(n *big.Int) bool {
	if n.Cmp(big.NewInt(4)) < 0 {
		return n.Cmp(big.NewInt(2)) >= 0
	}
	if n.Bit(0) == 0 {
		return false
	}
	one := big.NewInt(1)
	nm1 := new(big.Int).Sub(n, one)
	d := new(big.Int).Set(nm1)
	s := 0
	for d.Bit(0) == 0 {
		d.Rsh(d, 1)
		s++
	}
	cnt := 0
	for b := uint64(2); cnt < 40; b++ {
		if !isPrimeTD(b) {
			continue
		}
		cnt++
		a := new(big.Int).SetUint64(b)
		if a.Cmp(nm1) >= 0 {
			break
		}
		x := new(big.Int).Exp(a, d, n)
		if x.Cmp(one) == 0 || x.Cmp(nm1) == 0 {
			continue
		}
		ok := false
		for i := 1; i < s; i++ {
			x.Mul(x, x).Mod(x, n)
			if x.Cmp(nm1) == 0 {
				ok = true
				break
			}
		}
		if !ok {
			return false
		}
	}
	return true
}

// ---------------------------------------------------------------------------------------------
// GermainSafePrime.Validate (the only exported validator) and crypto.GenerateNTildei
// ---------------------------------------------------------------------------------------------

type sgpMirror struct{ q, p *big.Int }

func sgpLayoutOK() bool {
	t := reflect.TypeOf(common.GermainSafePrime{})
	bi := reflect.TypeOf((*big.Int)(nil))
	if t.NumField() != 2 || t.Field(0).Name != "q" || t.Field(1).Name != "p" || t.Field(0).Type != bi || t.Field(1).Type != bi ||
		t.Size() != unsafe.Sizeof(sgpMirror{}) {
		return false
	}
	q, p := big.NewInt(5), big.NewInt(11)
	g := mkSGP(q, p)
	return g.Prime() == q && g.SafePrime() == p
}

func mkSGP(q, p *big.Int) *common.GermainSafePrime {
	return (*common.GermainSafePrime)(unsafe.Pointer(&sgpMirror{q, p}))
}

func callValidate(g *common.GermainSafePrime) (ok bool, pan interface{}) {
	defer func() {
		if p := recover(); p != nil {
			pan = fmt.Sprint(p)
		}
	}()
	return g.Validate(), nil
}

func validateEnumerate(r *core.Run) {
	if !sgpLayoutOK() {
		r.Cap("GermainSafePrime no longer is struct{q,p *big.Int}: Validate() cannot be fed from outside")
		return
	}
	if ok, pan := callValidate(&common.GermainSafePrime{}); ok || pan != nil {
		r.Violate("validate/zero-value/accepted-or-panic", "Validate() of the zero value", map[string]interface{}{"panic": pan, "ok": ok})
	}
	maxBits := maxGenBits(r)
	limit := uint64(1) << uint(maxBits-1) // q < limit  <=>  2q+1 < 2^maxBits
	var nTrue, nFalse int64
	core.ParallelFor(int(limit), runtime.NumCPU(), func(i int) {
		q := uint64(i)
		// the pair (q, 2q+1) and near misses around it
		for _, p := range []uint64{2*q + 1, 2*q + 3, 2 * q, q, 4*q + 3} {
			want := isPrimeTD(q) && p == 2*q+1 && isPrimeTD(p)
			got, pan := callValidate(mkSGP(new(big.Int).SetUint64(q), new(big.Int).SetUint64(p)))
			rec := map[string]interface{}{"q": q, "p": p, "want": want, "got": got}
			switch {
			case pan != nil:
				rec["panic"] = pan
				r.Violate("validate/small-pair:panic", "Validate() panics", rec)
			case got && !want:
				cls := "p-not-2q+1"
				if p == 2*q+1 {
					cls = "composite"
				}
				r.Violate("validate/"+cls+"/accepted", fmt.Sprintf("Validate() accepts q=%d p=%d", q, p), rec)
			case !got && want:
				r.Violate("validate/safe-prime/refused", fmt.Sprintf("Validate() refuses the safe prime pair q=%d p=%d", q, p), rec)
			}
			if want {
				atomic.AddInt64(&nTrue, 1)
			} else {
				atomic.AddInt64(&nFalse, 1)
			}
		}
	})
	r.Count("validate_calls", nTrue+nFalse+1)
	r.Count("validate_safe_pairs", nTrue)
	r.Count("validate_non_safe_pairs", nFalse)
	r.Distinct("cases", fmt.Sprint("validate|accept|", nTrue))
	r.Distinct("cases", fmt.Sprint("validate|refuse|", nFalse))
}

func nTildeHelper(r *core.Run) {
	var sps []uint64
	for bits := 3; bits <= 8; bits++ {
		for _, pr := range safePrimePairs(bits) {
			sps = append(sps, pr[1])
		}
	}
	type job struct{ P, Q uint64 }
	var jobs []job
	for _, P := range sps {
		for _, Q := range sps {
			if P != Q {
				jobs = append(jobs, job{P, Q})
			}
		}
	}
	core.ParallelFor(len(jobs), runtime.NumCPU(), func(i int) {
		j := jobs[i]
		n := j.P * j.Q
		sq := unitSquares(n)
		for s := 0; s < 4; s++ {
			label := fmt.Sprintf("c19/ntilde/%d/%d/%d", j.P, j.Q, s)
			rec := map[string]interface{}{"P": j.P, "Q": j.Q, "reader": "DRBG(" + label + ")"}
			var N, h1, h2 *big.Int
			var err error
			pan := protect(func() {
				N, h1, h2, err = tsscrypto.GenerateNTildei(core.NewDRBG(label), [2]*big.Int{new(big.Int).SetUint64(j.P), new(big.Int).SetUint64(j.Q)})
			})
			r.Count("ntilde_calls", 1)
			switch {
			case pan != nil:
				rec["panic"] = pan
				r.Violate("GenerateNTildei/small-safe-primes:panic", "panic", rec)
			case err != nil || N == nil || h1 == nil || h2 == nil:
				r.Violate("GenerateNTildei/small-safe-primes/refused", fmt.Sprintf("two distinct safe primes refused: %v", err), rec)
			case !N.IsUint64() || N.Uint64() != n:
				r.Violate("GenerateNTildei/modulus", "NTilde is not the product of the two primes", rec)
			default:
				for _, h := range []*big.Int{h1, h2} {
					if h.Sign() < 0 || h.Cmp(N) >= 0 || gcd64(h.Uint64(), n) != 1 || !sq[h.Uint64()] {
						rec["h"] = h.String()
						r.Violate("GenerateNTildei/h-not-a-unit-square", "h1/h2 is not a square coprime to NTilde", rec)
					}
				}
			}
		}
	})
	// refused inputs: missing or composite "primes"
	bad := [][2]*big.Int{{nil, big.NewInt(23)}, {big.NewInt(23), nil}, {big.NewInt(21), big.NewInt(23)}, {big.NewInt(23), big.NewInt(25)}, {big.NewInt(1), big.NewInt(23)}}
	for i, b := range bad {
		var err error
		var N *big.Int
		pan := protect(func() { N, _, _, err = tsscrypto.GenerateNTildei(core.NewDRBG("c19/ntilde/bad"), b) })
		r.Count("ntilde_calls", 1)
		rec := map[string]interface{}{"index": i, "primes": fmt.Sprint(b[0], ",", b[1])}
		if pan != nil {
			rec["panic"] = pan
			r.Violate("GenerateNTildei/non-prime-input:panic", "panic", rec)
		} else if err == nil || N != nil {
			r.Violate("GenerateNTildei/non-prime-input/accepted", "a nil or composite input was accepted", rec)
		}
	}
	r.Distinct("cases", fmt.Sprint("ntilde|pairs|", len(jobs)))
}

func protect(f func()) (pan interface{}) {
	defer func() {
		if p := recover(); p != nil {
			pan = fmt.Sprint(p)
		}
	}()
	f()
	return nil
}

// ---------------------------------------------------------------------------------------------
// samplers
// ---------------------------------------------------------------------------------------------

type budgetExceeded struct{}

// scriptReader: first draw = the enumerated byte string, afterwards a deterministic stream. A call
// that consumes more than samplerBudget draws is aborted (panic with a sentinel, recovered by the
// harness) and classified as not terminating; the surrounding batch also has a wall-clock watchdog.
type scriptReader struct {
	first    []byte
	used     bool
	label    string
	drbg     *core.DRBG
	reads    int
	widthBad bool
}

func (s *scriptReader) Read(p []byte) (int, error) {
	s.reads++
	if s.reads > samplerBudget {
		panic(budgetExceeded{})
	}
	if !s.used {
		s.used = true
		if len(s.first) != len(p) {
			s.widthBad = true
		}
		if len(s.first) > 0 {
			for i := range p {
				p[i] = s.first[i%len(s.first)]
			}
			return len(p), nil
		}
	}
	if s.drbg == nil {
		s.drbg = core.NewDRBG(s.label)
	}
	return s.drbg.Read(p)
}

// callSampler runs f with a fresh scripted reader; returns (value, outcome class, panic text).
// outcome: "noread" | "first" (first draw accepted) | "redraw" | "nil" | "hang" | "panic"
func callSampler(first []byte, label string, f func(rd io.Reader) *big.Int) (v *big.Int, class string, pan string, rd *scriptReader) {
	rd = &scriptReader{first: first, label: label}
	defer func() {
		if p := recover(); p != nil {
			if _, ok := p.(budgetExceeded); ok {
				class = "hang"
			} else {
				class, pan = "panic", fmt.Sprint(p)
			}
		}
	}()
	v = f(rd)
	switch {
	case v == nil:
		class = "nil"
	case rd.reads == 0:
		class = "noread"
	case rd.reads == 1:
		class = "first"
	default:
		class = "redraw"
	}
	return
}

func boundClass(n uint64) string {
	switch {
	case n == 1:
		return "bound-1"
	case n == 2:
		return "bound-2"
	case n&(n-1) == 0:
		return "power-of-two"
	case n%2 == 1 && isPerfectSquare64(n):
		return "odd-perfect-square"
	case n%2 == 1:
		return "odd"
	}
	return "even"
}

func smallBounds() []uint64 {
	set := map[uint64]bool{}
	for n := uint64(1); n <= 64; n++ {
		set[n] = true
	}
	for _, v := range primePowersUpTo(1 << 16) {
		set[v] = true
	}
	for k := uint(1); k <= 16; k++ {
		set[1<<k-1] = true
		set[1<<k+1] = true
	}
	// products of two distinct safe primes (the documented domain of the QR-generator helper)
	sp := []uint64{5, 7, 11, 23, 47, 59, 83, 107, 167, 179, 227, 263}
	for i := 0; i+1 < len(sp); i++ {
		if v := sp[i] * sp[i+1]; v < 1<<16 {
			set[v] = true
		}
	}
	out := make([]uint64, 0, len(set))
	for v := range set {
		out = append(out, v)
	}
	sort.Slice(out, func(i, j int) bool { return out[i] < out[j] })
	return out
}

// firstDraws: every byte string the reader can return for the width of one draw of a `bits`-bit
// value (bits = bound.BitLen()). Width 3 (17-bit bounds 2^16, 2^16+1): all 2^17 values of the bits
// that survive the mask, with the 7 masked-away bits once all zero and once all one.
func firstDraws(bits int, visit func(fd []byte)) int {
	if bits < 2 {
		visit(nil) // a 1-bit bound needs no entropy: MustGetRandomInt(…,1) can only return 0
		return 1
	}
	w := (bits + 7) / 8
	if w <= 2 {
		n := 1 << (8 * uint(w))
		for v := 0; v < n; v++ {
			visit(beBytes(uint64(v), w))
		}
		return n
	}
	n := 0
	for _, fill := range []uint64{0, ^uint64(0) << uint(bits)} {
		for v := uint64(0); v < 1<<uint(bits); v++ {
			visit(beBytes(v|fill, w))
			n++
		}
	}
	return n
}

type samplerAgg struct {
	mu       sync.Mutex
	classes  map[string]int64
	calls    int64
	widthBad int64
}

func (a *samplerAgg) add(local map[string]int64, calls, wb int64) {
	a.mu.Lock()
	for k, v := range local {
		a.classes[k] += v
	}
	a.calls += calls
	a.widthBad += wb
	a.mu.Unlock()
}

func samplersSmall(r *core.Run) {
	bounds := smallBounds()
	agg := &samplerAgg{classes: map[string]int64{}}
	var progress sync.Map // bound -> last sampler/first draw started (for the watchdog report)
	done := make(chan struct{})
	go func() {
		defer close(done)
		core.ParallelFor(len(bounds), runtime.NumCPU(), func(i int) {
			samplersForBound(r, bounds[len(bounds)-1-i], agg, &progress) // big bounds first (load balance)
		})
	}()
	t := time.NewTimer(hangWatchdog + 5*time.Minute)
	defer t.Stop()
	select {
	case <-done:
	case <-t.C:
		stuck := []string{}
		progress.Range(func(k, v interface{}) bool { stuck = append(stuck, fmt.Sprint(k, ":", v)); return true })
		sort.Strings(stuck)
		r.Violate("sampler/batch/any:hang", "a sampler call neither returned nor consumed entropy for minutes", map[string]interface{}{"in_progress": stuck})
		return
	}
	r.Count("sampler_calls", agg.calls)
	keys := make([]string, 0, len(agg.classes))
	for k := range agg.classes {
		keys = append(keys, k)
	}
	sort.Strings(keys)
	for _, k := range keys {
		r.Distinct("cases", "sampler|"+k)
	}
	r.Set("sampler_bounds", len(bounds))
	if agg.widthBad > 0 {
		r.Cap(fmt.Sprintf("a sampler read a different width than the enumerated one in %d calls", agg.widthBad))
	}
}

func samplersForBound(r *core.Run, n uint64, agg *samplerAgg, progress *sync.Map) {
	N := new(big.Int).SetUint64(n)
	bits := N.BitLen()
	progress.Store(n, "start")
	defer progress.Delete(n)
	sq := unitSquares(n)
	var jac []int8
	hasMinus := false
	if n%2 == 1 {
		jac = make([]int8, n)
		for w := uint64(0); w < n; w++ {
			jac[w] = int8(jacobi64(w, n))
			if jac[w] == -1 {
				hasMinus = true
			}
		}
	}
	bc := boundClass(n)
	type spec struct {
		name, label, nilText string
		call                 func(rd io.Reader) *big.Int
		chk                  func(v *big.Int) (cls, what string)
		classes              map[string]int64
	}
	var specs []*spec
	// 1. GetRandomPositiveInt: [0, bound)
	specs = append(specs, &spec{name: "GetRandomPositiveInt", label: fmt.Sprint("c19/s/pos/", n), nilText: "nil returned for a positive bound",
		call: func(rd io.Reader) *big.Int { return common.GetRandomPositiveInt(rd, N) },
		chk: func(v *big.Int) (string, string) {
			if v.Sign() < 0 || v.Cmp(N) >= 0 {
				return "out-of-range", "outside [0, bound)"
			}
			return "", ""
		}})
	if n >= 2 {
		// 2. GetRandomPositiveRelativelyPrimeInt: [1, n), coprime to n (required for n >= 2 only, DESIGN 3a)
		specs = append(specs, &spec{name: "GetRandomPositiveRelativelyPrimeInt", label: fmt.Sprint("c19/s/rp/", n), nilText: "nil returned for n >= 2",
			call: func(rd io.Reader) *big.Int { return common.GetRandomPositiveRelativelyPrimeInt(rd, N) },
			chk: func(v *big.Int) (string, string) {
				if v.Sign() <= 0 || v.Cmp(N) >= 0 {
					return "out-of-range", "outside [1, n)"
				}
				if gcd64(v.Uint64(), n) != 1 {
					return "not-coprime", "not coprime to n"
				}
				return "", ""
			}})
		// 3. GetRandomGeneratorOfTheQuadraticResidue: a square, coprime to n
		specs = append(specs, &spec{name: "GetRandomGeneratorOfTheQuadraticResidue", label: fmt.Sprint("c19/s/qr/", n), nilText: "nil returned for n >= 2",
			call: func(rd io.Reader) *big.Int { return common.GetRandomGeneratorOfTheQuadraticResidue(rd, N) },
			chk: func(v *big.Int) (string, string) {
				if v.Sign() < 0 || v.Cmp(N) >= 0 {
					return "out-of-range", "outside [0, n)"
				}
				if gcd64(v.Uint64(), n) != 1 || !sq[v.Uint64()] {
					return "not-a-unit-square", "not the square of a unit modulo n"
				}
				return "", ""
			}})
	}
	// 4. GetRandomQuadraticNonResidue: Jacobi symbol -1 (odd n >= 3; n = 1 has no non-residue at all;
	// odd perfect squares are handled by samplersQNRSquares)
	if n%2 == 1 && n >= 3 && hasMinus {
		specs = append(specs, &spec{name: "GetRandomQuadraticNonResidue", label: fmt.Sprint("c19/s/qnr/", n), nilText: "nil returned for odd n >= 3",
			call: func(rd io.Reader) *big.Int { return common.GetRandomQuadraticNonResidue(rd, N) },
			chk: func(v *big.Int) (string, string) {
				if v.Sign() < 0 || v.Cmp(N) >= 0 {
					return "out-of-range", "outside [0, n)"
				}
				if j := jac[v.Uint64()]; j != -1 {
					return "jacobi-not-minus-one", fmt.Sprintf("Jacobi symbol %d", j)
				}
				return "", ""
			}})
	}
	for _, sp := range specs {
		sp.classes = map[string]int64{}
	}
	rec := func(sp *spec, fd []byte, v *big.Int) map[string]interface{} {
		m := map[string]interface{}{"function": sp.name, "bound": n, "first_draw": fmt.Sprintf("%x", fd), "then": "DRBG(" + sp.label + ")"}
		if v != nil {
			m["returned"] = v.String()
		}
		return m
	}
	var calls, wb int64
	sampled := false
	firstDraws(bits, func(fd []byte) {
		for _, sp := range specs {
			v, class, pan, rd := callSampler(fd, sp.label, sp.call)
			sp.classes[class]++
			calls++
			if rd.widthBad {
				wb++
			}
			key := "sampler/" + sp.name + "/" + bc
			switch class {
			case "panic":
				m := rec(sp, fd, nil)
				m["panic"] = pan
				r.Violate(key+":panic", "panic", m)
			case "hang":
				r.Violate(key+":hang", fmt.Sprintf("no value after %d draws", samplerBudget), rec(sp, fd, nil))
			case "nil":
				r.Violate(key+"/nil", sp.nilText, rec(sp, fd, nil))
			default:
				if cls, what := sp.chk(v); cls != "" {
					r.Violate(key+"/"+cls, fmt.Sprintf("%s returned %v for bound %d: %s", sp.name, v, n, what), rec(sp, fd, v))
				}
				if !sampled && class == "redraw" && n > 1000 && sp.name == "GetRandomPositiveRelativelyPrimeInt" {
					sampled = true
					r.Sample(6, rec(sp, fd, v))
				}
			}
		}
	})
	local := map[string]int64{}
	for _, sp := range specs {
		for c, k := range sp.classes {
			local[fmt.Sprintf("%s|%d|%s", sp.name, n, c)] = k
		}
	}
	agg.add(local, calls, wb)
}

// samplersQNRSquares: odd perfect squares > 1. Quadratic non-residues exist (e.g. 2 mod 9) and the
// doc comment admits every odd n, but no element has Jacobi symbol -1, which is what the sampler
// waits for. The space of first draws is not enumerated here (each call runs into the draw budget):
// 4 representative first draws per bound, bounds ascending so that the recorded case is the smallest.
func samplersQNRSquares(r *core.Run) {
	for _, n := range smallBounds() {
		if n%2 == 0 || n < 3 || !isPerfectSquare64(n) {
			continue
		}
		N := new(big.Int).SetUint64(n)
		sq := unitSquares(n)
		bc := boundClass(n)
		w := (N.BitLen() + 7) / 8
		for _, fd := range [][]byte{beBytes(0, w), beBytes(2, w), beBytes(n-1, w), beBytes(^uint64(0), w)} {
			name, label := "GetRandomQuadraticNonResidue", fmt.Sprint("c19/s/qnr/", n)
			v, class, pan, _ := callSampler(fd, label, func(rd io.Reader) *big.Int { return common.GetRandomQuadraticNonResidue(rd, N) })
			r.Count("sampler_calls", 1)
			r.Count("sampler_qnr_square_calls", 1)
			r.Distinct("cases", fmt.Sprintf("sampler|%s|%d|%s", name, n, class))
			m := map[string]interface{}{"function": name, "bound": n, "first_draw": fmt.Sprintf("%x", fd), "then": "DRBG(" + label + ")"}
			switch class {
			case "hang":
				m["note"] = fmt.Sprintf("n = %d is an odd perfect square: non-residues exist, none has Jacobi symbol -1; %d draws consumed without a result", n, samplerBudget)
				// Inadmissible input class (DESIGN 3a): the sampler's contract is "Jacobi symbol -1", and for a
				// perfect square no such element exists (as for n = 1) -- there is no in-contract answer to
				// return, and the only production caller passes N = P*Q. Counted, not flagged.
				r.Count("sampler_qnr_square_no_answer_exists", 1)
			case "panic":
				m["panic"] = pan
				r.Violate("sampler/"+name+"/"+bc+":panic", "panic", m)
			case "nil":
				// refusing is inside the contract: nothing with Jacobi symbol -1 to return
			default:
				m["returned"] = v.String()
				if v.Sign() < 0 || v.Cmp(N) >= 0 || gcd64(v.Uint64(), n) == 1 && sq[v.Uint64()] {
					r.Violate("sampler/"+name+"/"+bc+"/residue-returned", fmt.Sprintf("returned the quadratic residue (or out-of-range value) %v for n=%d", v, n), m)
				}
			}
		}
	}
}

// samplersEdge: bounds <= 0 / nil, MustGetRandomInt, GetRandomPrimeInt, IsNumberInMultiplicativeGroup.
func samplersEdge(r *core.Run) {
	type bcase struct {
		name string
		n    *big.Int
	}
	for _, b := range []bcase{{"nil", nil}, {"zero", big.NewInt(0)}, {"minus-one", big.NewInt(-1)}, {"minus-255", big.NewInt(-255)}, {"minus-2^64", new(big.Int).Neg(new(big.Int).Lsh(big.NewInt(1), 64))}} {
		for _, s := range []struct {
			name string
			f    func(io.Reader, *big.Int) *big.Int
		}{{"GetRandomPositiveInt", common.GetRandomPositiveInt}, {"GetRandomPositiveRelativelyPrimeInt", common.GetRandomPositiveRelativelyPrimeInt}} {
			for _, fd := range [][]byte{{0}, {1}, {0xff}} {
				v, class, pan, _ := callSampler(fd, "c19/s/edge", func(rd io.Reader) *big.Int { return s.f(rd, b.n) })
				r.Count("sampler_calls", 1)
				rec := map[string]interface{}{"function": s.name, "bound": fmt.Sprint(b.n), "first_draw": fmt.Sprintf("%x", fd)}
				switch class {
				case "panic":
					rec["panic"] = pan
					r.Violate("sampler/"+s.name+"/bound<=0:panic", "panic for a non-positive bound", rec)
				case "hang":
					r.Violate("sampler/"+s.name+"/bound<=0:hang", "does not terminate for a non-positive bound", rec)
				case "nil":
				default:
					rec["returned"] = v.String()
					r.Violate("sampler/"+s.name+"/bound<=0/value-returned", "a value is returned although the range is empty", rec)
				}
				r.Distinct("cases", "sampler-edge|"+s.name+"|"+b.name+"|"+class)
			}
		}
	}
	// MustGetRandomInt: 0 <= v <= 2^bits - 1; panics for bits <= 0 (both documented)
	maxBits := 17
	core.ParallelFor(maxBits, runtime.NumCPU(), func(i int) {
		bits := maxBits - i
		max := new(big.Int).Sub(new(big.Int).Lsh(big.NewInt(1), uint(bits)), big.NewInt(1))
		label := fmt.Sprint("c19/s/must/", bits)
		call := func(rd io.Reader) *big.Int { return common.MustGetRandomInt(rd, bits) }
		var calls int64
		classes := map[string]bool{}
		firstDraws(bits, func(fd []byte) {
			v, class, pan, _ := callSampler(fd, label, call)
			calls++
			classes[class] = true
			rec := func() map[string]interface{} {
				return map[string]interface{}{"function": "MustGetRandomInt", "bits": bits, "first_draw": fmt.Sprintf("%x", fd), "panic": pan, "returned": fmt.Sprint(v)}
			}
			switch class {
			case "panic":
				r.Violate("sampler/MustGetRandomInt/positive-bits:panic", "panic although the reader works and bits > 0", rec())
			case "hang":
				r.Violate("sampler/MustGetRandomInt/positive-bits:hang", "does not terminate", rec())
			case "nil":
				r.Violate("sampler/MustGetRandomInt/positive-bits/nil", "nil", rec())
			default:
				if v.Sign() < 0 || v.Cmp(max) > 0 {
					r.Violate("sampler/MustGetRandomInt/positive-bits/out-of-range", "value outside [0, 2^bits-1]", rec())
				}
			}
		})
		r.Count("sampler_calls", calls)
		for c := range classes {
			r.Distinct("cases", fmt.Sprint("sampler|MustGetRandomInt|", bits, "|", c))
		}
	})
	for _, bits := range []int{0, -1, -64} {
		_, class, _, _ := callSampler([]byte{1}, "c19/s/must/neg", func(rd io.Reader) *big.Int { return common.MustGetRandomInt(rd, bits) })
		r.Count("sampler_calls", 1)
		if class != "panic" {
			r.Violate("sampler/MustGetRandomInt/bits<=0/no-panic", "documented to panic for bits <= 0", map[string]interface{}{"bits": bits, "outcome": class})
		}
		r.Distinct("cases", fmt.Sprint("sampler|MustGetRandomInt|", bits, "|", class))
	}
	// GetRandomPrimeInt: nil for bits <= 0; otherwise a prime of at most `bits` bits (bits = 1 admits no prime)
	for _, bits := range []int{0, -1} {
		v, class, pan, _ := callSampler([]byte{1}, "c19/s/prime/neg", func(rd io.Reader) *big.Int { return common.GetRandomPrimeInt(rd, bits) })
		r.Count("sampler_calls", 1)
		if class != "nil" {
			r.Violate("sampler/GetRandomPrimeInt/bits<=0/not-refused", "bits <= 0 not refused", map[string]interface{}{"bits": bits, "outcome": class, "panic": pan, "returned": fmt.Sprint(v)})
		}
	}
	pmax := 16
	if r.Tier != "thorough" {
		pmax = 12
	}
	var pcases [][2]interface{}
	for bits := 2; bits <= pmax; bits++ {
		bits := bits
		firstDraws(bits, func(fd []byte) { pcases = append(pcases, [2]interface{}{bits, fd}) })
	}
	var pm sync.Mutex
	pclasses := map[string]struct{}{}
	core.ParallelFor(len(pcases), runtime.NumCPU(), func(i int) {
		bits, fd := pcases[i][0].(int), pcases[i][1].([]byte)
		v, class, pan, _ := callSampler(fd, fmt.Sprint("c19/s/prime/", bits), func(rd io.Reader) *big.Int { return common.GetRandomPrimeInt(rd, bits) })
		rec := map[string]interface{}{"function": "GetRandomPrimeInt", "bits": bits, "first_draw": fmt.Sprintf("%x", fd)}
		switch class {
		case "panic":
			rec["panic"] = pan
			r.Violate("sampler/GetRandomPrimeInt/bits>=2:panic", "panic", rec)
		case "hang":
			r.Violate("sampler/GetRandomPrimeInt/bits>=2:hang", "does not terminate", rec)
		case "nil":
			r.Violate("sampler/GetRandomPrimeInt/bits>=2/nil", "nil", rec)
		default:
			if v.Sign() <= 0 || v.BitLen() > bits || !isPrimeTD(v.Uint64()) {
				rec["returned"] = v.String()
				r.Violate("sampler/GetRandomPrimeInt/bits>=2/not-a-prime-of-that-size", "returned value is not a prime of at most the requested bit length", rec)
			}
		}
		pm.Lock()
		pclasses[fmt.Sprint("sampler|GetRandomPrimeInt|", bits, "|", v)] = struct{}{}
		pm.Unlock()
	})
	r.Count("sampler_calls", int64(len(pcases)))
	for c := range pclasses {
		r.Distinct("cases", c)
	}
	// IsNumberInMultiplicativeGroup against gcd, exhaustively on a small grid
	var grid int64
	for n := int64(-3); n <= 96; n++ {
		for v := int64(-3); v <= n+3; v++ {
			want := n > 0 && v >= 1 && v < n && gcd64(uint64(v), uint64(n)) == 1
			var got bool
			pan := protect(func() { got = common.IsNumberInMultiplicativeGroup(big.NewInt(n), big.NewInt(v)) })
			grid++
			if pan != nil || got != want {
				r.Violate("sampler/IsNumberInMultiplicativeGroup/small-grid", fmt.Sprintf("n=%d v=%d: got %v want %v panic %v", n, v, got, want, pan), map[string]interface{}{"n": n, "v": v})
			}
		}
	}
	for _, c := range [][2]*big.Int{{nil, big.NewInt(1)}, {big.NewInt(5), nil}, {nil, nil}} {
		var got bool
		pan := protect(func() { got = common.IsNumberInMultiplicativeGroup(c[0], c[1]) })
		grid++
		if pan != nil || got {
			r.Violate("sampler/IsNumberInMultiplicativeGroup/nil", "nil argument accepted or panics", map[string]interface{}{"panic": pan})
		}
	}
	r.Count("sampler_calls", grid)
	r.Distinct("cases", fmt.Sprint("sampler|IsNumberInMultiplicativeGroup|grid|", grid))
}

// samplersLarge: 2048-bit bounds. The first draw is taken from an explicit list of boundary strings
// (the complete space is not enumerable); afterwards the deterministic stream.
func samplersLarge(r *core.Run) {
	one := big.NewInt(1)
	pow := func(k uint) *big.Int { return new(big.Int).Lsh(one, k) }
	type lb struct {
		name   string
		n      *big.Int
		P, Q   *big.Int // prime factors when known (for the square test)
		square bool
	}
	var bounds []lb
	bounds = append(bounds, lb{name: "2^2048-1", n: new(big.Int).Sub(pow(2048), one)})
	bounds = append(bounds, lb{name: "2^2047+1", n: new(big.Int).Add(pow(2047), one)})
	bounds = append(bounds, lb{name: "2^2048", n: pow(2048)})
	g := new(big.Int).SetBytes(core.Bytes("c19/large/generic", 256))
	g.SetBit(g, 2047, 1).SetBit(g, 0, 1)
	bounds = append(bounds, lb{name: "generic-odd-2048", n: g})
	if pps := fix.PreParams(); len(pps) > 0 && pps[0].NTildei != nil && pps[0].P != nil && pps[0].Q != nil {
		P := new(big.Int).Add(new(big.Int).Lsh(pps[0].P, 1), one)
		Q := new(big.Int).Add(new(big.Int).Lsh(pps[0].Q, 1), one)
		if new(big.Int).Mul(P, Q).Cmp(pps[0].NTildei) == 0 {
			bounds = append(bounds, lb{name: "fixture-NTilde", n: pps[0].NTildei, P: P, Q: Q})
		}
	}
	isSq := func(v, p *big.Int) bool { // Euler criterion modulo an odd prime
		e := new(big.Int).Rsh(new(big.Int).Sub(p, one), 1)
		return new(big.Int).Exp(v, e, p).Cmp(one) == 0
	}
	for _, b := range bounds {
		N := b.n
		w := (N.BitLen() + 7) / 8
		pad := func(v *big.Int) []byte {
			if v.Sign() < 0 {
				v = new(big.Int)
			}
			bz := v.Bytes()
			if len(bz) > w {
				bz = bz[len(bz)-w:]
			}
			out := make([]byte, w)
			copy(out[w-len(bz):], bz)
			return out
		}
		ones := make([]byte, w)
		for i := range ones {
			ones[i] = 0xff
		}
		top := pow(uint(N.BitLen()))
		fds := map[string][]byte{
			"zero": pad(new(big.Int)), "one": pad(one), "all-ones": ones,
			"bound": pad(N), "bound-1": pad(new(big.Int).Sub(N, one)), "bound+1": pad(new(big.Int).Add(N, one)),
			"2^L-2": pad(new(big.Int).Sub(top, big.NewInt(2))), "2^L-1": pad(new(big.Int).Sub(top, one)),
			"generic": core.Bytes("c19/large/fd/"+b.name, w),
		}
		names := make([]string, 0, len(fds))
		for k := range fds {
			names = append(names, k)
		}
		sort.Strings(names)
		odd := N.Bit(0) == 1
		for _, fn := range names {
			fd := fds[fn]
			type sm struct {
				name string
				f    func(io.Reader) *big.Int
				chk  func(v *big.Int) string
			}
			list := []sm{
				{"GetRandomPositiveInt", func(rd io.Reader) *big.Int { return common.GetRandomPositiveInt(rd, N) }, func(v *big.Int) string {
					if v.Sign() < 0 || v.Cmp(N) >= 0 {
						return "out-of-range"
					}
					return ""
				}},
				{"GetRandomPositiveRelativelyPrimeInt", func(rd io.Reader) *big.Int { return common.GetRandomPositiveRelativelyPrimeInt(rd, N) }, func(v *big.Int) string {
					if v.Sign() <= 0 || v.Cmp(N) >= 0 {
						return "out-of-range"
					}
					if new(big.Int).GCD(nil, nil, v, N).Cmp(one) != 0 {
						return "not-coprime"
					}
					return ""
				}},
			}
			if b.P != nil {
				list = append(list, sm{"GetRandomGeneratorOfTheQuadraticResidue", func(rd io.Reader) *big.Int { return common.GetRandomGeneratorOfTheQuadraticResidue(rd, N) }, func(v *big.Int) string {
					if v.Sign() <= 0 || v.Cmp(N) >= 0 {
						return "out-of-range"
					}
					if new(big.Int).GCD(nil, nil, v, N).Cmp(one) != 0 || !isSq(v, b.P) || !isSq(v, b.Q) {
						return "not-a-unit-square"
					}
					return ""
				}})
			}
			if odd {
				list = append(list, sm{"GetRandomQuadraticNonResidue", func(rd io.Reader) *big.Int { return common.GetRandomQuadraticNonResidue(rd, N) }, func(v *big.Int) string {
					if v.Sign() < 0 || v.Cmp(N) >= 0 {
						return "out-of-range"
					}
					if jacobiBig(v, N) != -1 {
						return "jacobi-not-minus-one"
					}
					return ""
				}})
			}
			for _, s := range list {
				label := "c19/s/large/" + s.name + "/" + b.name
				v, class, pan, _ := callSampler(fd, label, s.f)
				r.Count("sampler_calls", 1)
				r.Count("sampler_large_calls", 1)
				rec := map[string]interface{}{"function": s.name, "bound": b.name, "bound_hex": fmt.Sprintf("%x", N), "first_draw_class": fn, "first_draw": fmt.Sprintf("%x", fd), "then": "DRBG(" + label + ")"}
				key := "sampler/" + s.name + "/2048-bit-" + b.name
				switch class {
				case "panic":
					rec["panic"] = pan
					r.Violate(key+":panic", "panic", rec)
				case "hang":
					r.Violate(key+":hang", "does not terminate", rec)
				case "nil":
					r.Violate(key+"/nil", "nil", rec)
				default:
					if bad := s.chk(v); bad != "" {
						rec["returned"] = v.String()
						r.Violate(key+"/"+bad, bad, rec)
					}
				}
				r.Distinct("cases", "sampler-large|"+s.name+"|"+b.name+"|"+fn+"|"+class)
			}
		}
	}
}
