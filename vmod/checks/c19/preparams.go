package c19

// Part (c) of C19: pre-parameters. The two size constants of ecdsa/keygen/prepare.go are scaled
// down by a build overlay generated at run time from the CURRENT source (2048 -> 256-bit Paillier
// modulus, 1024 -> 128-bit safe primes); a helper process (./ppmain) built with that overlay
// generates pre-parameters from deterministic entropy and prints them; every algebraic relation of
// the property statement is checked here. Thorough adds one real-size run without the size overlay.

import (
	"bufio"
	"bytes"
	"context"
	"encoding/json"
	"fmt"
	"math/big"
	"os"
	"os/exec"
	"path/filepath"
	"strings"
	"sync"
	"time"

	"verif/internal/core"
	"verif/internal/fix"
)

const (
	ppConcurrency = 3 // prepare.go divides by 3: one producer for NTilde's primes, two for Paillier's (numPrimes = 2)
	txtPaillier   = "paillierModulusLen = 2048"
	txtSafePrime  = "safePrimeBitLen = 1024"
)

type ppOut struct {
	Err               string `json:"err"`
	Panic             string `json:"panic"`
	Nil               bool   `json:"nil"`
	PaillierN         string `json:"paillier_n"`
	PaillierP         string `json:"paillier_p"`
	PaillierQ         string `json:"paillier_q"`
	PaillierPhiN      string `json:"paillier_phi_n"`
	PaillierLambdaN   string `json:"paillier_lambda_n"`
	NTilde            string `json:"ntilde"`
	H1                string `json:"h1"`
	H2                string `json:"h2"`
	Alpha             string `json:"alpha"`
	Beta              string `json:"beta"`
	P                 string `json:"p"`
	Q                 string `json:"q"`
	Validate          bool   `json:"validate"`
	ValidateWithProof bool   `json:"validate_with_proof"`
	EntropyReads      int    `json:"entropy_reads"`
}

type overlayFile struct {
	Replace map[string]string `json:"Replace"`
}

func goEnv() []string {
	env := []string{}
	for _, e := range os.Environ() {
		if strings.HasPrefix(e, "GOFLAGS=") || strings.HasPrefix(e, "GOPROXY=") || strings.HasPrefix(e, "GOSUMDB=") ||
			strings.HasPrefix(e, "GOTOOLCHAIN=") || strings.HasPrefix(e, "CGO_ENABLED=") {
			continue
		}
		env = append(env, e)
	}
	return append(env, "GOFLAGS=-mod=mod", "GOPROXY=off", "GOSUMDB=off", "GOTOOLCHAIN=local", "CGO_ENABLED=0")
}

// userOverlay returns the Replace map of VERIF_OVERLAY (empty if unset).
func userOverlay() (map[string]string, error) {
	out := map[string]string{}
	p := os.Getenv("VERIF_OVERLAY")
	if p == "" {
		return out, nil
	}
	bz, err := os.ReadFile(p)
	if err != nil {
		return nil, err
	}
	var ov overlayFile
	if err := json.Unmarshal(bz, &ov); err != nil {
		return nil, err
	}
	for k, v := range ov.Replace {
		out[k] = v
	}
	return out, nil
}

// buildPP builds ./checks/c19/ppmain; reduced=true scales the size constants by an overlay.
// Returns the binary path; capText != "" means "could not be set up" (a cap, never a violation).
func buildPP(dir string, reduced bool) (bin string, capText string) {
	rep, err := userOverlay()
	if err != nil {
		return "", "VERIF_OVERLAY unreadable: " + err.Error()
	}
	name := "ppmain-real"
	if reduced {
		name = "ppmain-reduced"
		target := filepath.Join(fix.RepoDir(), "ecdsa/keygen/prepare.go")
		src := target
		if alt, ok := rep[target]; ok && alt != "" {
			src = alt // a mutation overlay of prepare.go is the text that gets scaled
		}
		bz, err := os.ReadFile(src)
		if err != nil {
			return "", "cannot read " + src + ": " + err.Error()
		}
		txt := string(bz)
		if strings.Count(txt, txtPaillier) != 1 || strings.Count(txt, txtSafePrime) != 1 {
			return "", fmt.Sprintf("size constants %q / %q not found exactly once in %s: reduced-size pre-parameters not built", txtPaillier, txtSafePrime, src)
		}
		txt = strings.Replace(txt, txtPaillier, "paillierModulusLen = 256", 1)
		txt = strings.Replace(txt, txtSafePrime, "safePrimeBitLen = 128", 1)
		mod := filepath.Join(dir, "prepare_reduced.go")
		if err := os.WriteFile(mod, []byte(txt), 0o644); err != nil {
			return "", "cannot write overlay source: " + err.Error()
		}
		rep[target] = mod
	}
	args := []string{"build"}
	if len(rep) > 0 {
		ovPath := filepath.Join(dir, name+".overlay.json")
		bz, _ := json.Marshal(overlayFile{Replace: rep})
		if err := os.WriteFile(ovPath, bz, 0o644); err != nil {
			return "", "cannot write overlay: " + err.Error()
		}
		args = append(args, "-overlay", ovPath)
	}
	bin = filepath.Join(dir, name)
	args = append(args, "-o", bin, "./checks/c19/ppmain")
	cmd := exec.Command("go", args...)
	cmd.Dir = filepath.Join(core.Root(), "vmod")
	cmd.Env = goEnv()
	var stderr bytes.Buffer
	cmd.Stderr = &stderr
	if err := cmd.Run(); err != nil {
		msg := stderr.String()
		if len(msg) > 600 {
			msg = msg[:600]
		}
		return "", fmt.Sprintf("go %s failed: %v: %s", strings.Join(args, " "), err, msg)
	}
	return bin, ""
}

// runPP runs the helper once. timedOut reports the watchdog.
func runPP(bin, label string, watchdog time.Duration) (o *ppOut, timedOut bool, problem string) {
	ctx, cancel := context.WithTimeout(context.Background(), watchdog)
	defer cancel()
	cmd := exec.CommandContext(ctx, bin, label, fmt.Sprint(ppConcurrency))
	var stdout, stderr bytes.Buffer
	cmd.Stdout, cmd.Stderr = &stdout, &stderr
	err := cmd.Run()
	if ctx.Err() != nil {
		return nil, true, ""
	}
	sc := bufio.NewScanner(&stdout)
	sc.Buffer(make([]byte, 1<<20), 1<<20)
	for sc.Scan() {
		line := sc.Text()
		if strings.HasPrefix(line, "C19PP ") {
			var out ppOut
			if e := json.Unmarshal([]byte(line[6:]), &out); e != nil {
				return nil, false, "unparsable helper output: " + e.Error()
			}
			return &out, false, ""
		}
	}
	tail := stderr.String()
	if len(tail) > 800 {
		tail = tail[len(tail)-800:]
	}
	return nil, false, fmt.Sprintf("helper produced no result (exit: %v): %s", err, tail)
}

func bigOf(s string) *big.Int {
	if s == "" {
		return nil
	}
	v, ok := new(big.Int).SetString(s, 10)
	if !ok {
		return nil
	}
	return v
}

// checkPP: the oracle of part (c). Returns (class, text) pairs.
func checkPP(o *ppOut, paillierBits, safeBits int) [][2]string {
	var bad [][2]string
	add := func(cls, what string) { bad = append(bad, [2]string{cls, what}) }
	one, two := big.NewInt(1), big.NewInt(2)
	N, P, Q := bigOf(o.PaillierN), bigOf(o.PaillierP), bigOf(o.PaillierQ)
	phi, lam := bigOf(o.PaillierPhiN), bigOf(o.PaillierLambdaN)
	NT, h1, h2, al, be, p, q := bigOf(o.NTilde), bigOf(o.H1), bigOf(o.H2), bigOf(o.Alpha), bigOf(o.Beta), bigOf(o.P), bigOf(o.Q)
	for name, v := range map[string]*big.Int{"PaillierSK.N": N, "PaillierSK.P": P, "PaillierSK.Q": Q, "PaillierSK.PhiN": phi, "PaillierSK.LambdaN": lam,
		"NTildei": NT, "H1i": h1, "H2i": h2, "Alpha": al, "Beta": be, "P": p, "Q": q} {
		if v == nil || v.Sign() <= 0 {
			add("missing-field", name+" is missing or not positive")
		}
	}
	if len(bad) > 0 {
		return bad
	}
	half := func(v *big.Int) *big.Int { return new(big.Int).Rsh(new(big.Int).Sub(v, one), 1) }
	// Paillier key from two distinct safe primes
	if new(big.Int).Mul(P, Q).Cmp(N) != 0 {
		add("paillier/N-not-PQ", "Paillier N != P*Q")
	}
	if P.Cmp(Q) == 0 {
		add("paillier/P-equals-Q", "Paillier P == Q")
	}
	for n, v := range map[string]*big.Int{"P": P, "Q": Q} {
		if !refProbablyPrime(v) || !refProbablyPrime(half(v)) {
			add("paillier/not-safe-prime", "Paillier "+n+" is not a safe prime")
		}
		if v.BitLen() != paillierBits/2 {
			add("paillier/prime-bitlen", fmt.Sprintf("Paillier %s has %d bits, want %d", n, v.BitLen(), paillierBits/2))
		}
	}
	if N.BitLen() != paillierBits {
		add("paillier/N-bitlen", fmt.Sprintf("Paillier N has %d bits, want %d", N.BitLen(), paillierBits))
	}
	pm1, qm1 := new(big.Int).Sub(P, one), new(big.Int).Sub(Q, one)
	wantPhi := new(big.Int).Mul(pm1, qm1)
	if phi.Cmp(wantPhi) != 0 {
		add("paillier/phi", "PhiN != (P-1)(Q-1)")
	}
	if g := new(big.Int).GCD(nil, nil, pm1, qm1); new(big.Int).Mul(lam, g).Cmp(wantPhi) != 0 {
		add("paillier/lambda", "LambdaN != lcm(P-1,Q-1)")
	}
	// ring-Pedersen modulus from two safe primes; the saved P,Q are the Sophie Germain halves
	Pt := new(big.Int).Add(new(big.Int).Mul(p, two), one)
	Qt := new(big.Int).Add(new(big.Int).Mul(q, two), one)
	if new(big.Int).Mul(Pt, Qt).Cmp(NT) != 0 {
		add("ntilde/not-(2p+1)(2q+1)", "NTilde != (2P+1)(2Q+1) for the saved P,Q")
	}
	for n, v := range map[string]*big.Int{"P": p, "Q": q} {
		if !refProbablyPrime(v) {
			add("ntilde/half-not-prime", "saved "+n+" is not prime")
		}
	}
	for n, v := range map[string]*big.Int{"2P+1": Pt, "2Q+1": Qt} {
		if !refProbablyPrime(v) {
			add("ntilde/not-safe-prime", n+" is not prime")
		}
		if v.BitLen() != safeBits {
			add("ntilde/prime-bitlen", fmt.Sprintf("%s has %d bits, want %d", n, v.BitLen(), safeBits))
		}
	}
	if NT.BitLen() != 2*safeBits {
		add("ntilde/bitlen", fmt.Sprintf("NTilde has %d bits, want %d", NT.BitLen(), 2*safeBits))
	}
	if new(big.Int).GCD(nil, nil, N, NT).Cmp(one) != 0 {
		add("ntilde/not-independent", "NTilde shares a factor with the Paillier modulus")
	}
	// h1, h2
	inRange := func(v *big.Int) bool { return v.Cmp(one) > 0 && v.Cmp(NT) < 0 }
	if !inRange(h1) {
		add("h1/trivial", "h1 is 1 or outside (1, NTilde)")
	}
	if !inRange(h2) {
		add("h2/trivial", "h2 is 1 or outside (1, NTilde)")
	}
	if h1.Cmp(h2) == 0 {
		add("h1-equals-h2", "h1 == h2")
	}
	if refProbablyPrime(Pt) && refProbablyPrime(Qt) {
		sq := func(v *big.Int) bool { // Euler criterion modulo both prime factors
			return new(big.Int).Exp(v, p, Pt).Cmp(one) == 0 && new(big.Int).Exp(v, q, Qt).Cmp(one) == 0
		}
		if !sq(h1) {
			add("h1/not-a-square", "h1 is not a square of a unit modulo NTilde")
		}
		if !sq(h2) {
			add("h2/not-a-square", "h2 is not a square of a unit modulo NTilde")
		}
	}
	if new(big.Int).Exp(h1, al, NT).Cmp(h2) != 0 {
		add("h2-not-h1^alpha", "h2 != h1^alpha mod NTilde")
	}
	if new(big.Int).Exp(h2, be, NT).Cmp(h1) != 0 {
		add("h1-not-h2^beta", "h1 != h2^beta mod NTilde")
	}
	pq := new(big.Int).Mul(p, q)
	if ab := new(big.Int).Mul(al, be); ab.Mod(ab, pq).Cmp(one) != 0 {
		add("alpha-beta-not-inverse", "alpha*beta != 1 mod P*Q")
	}
	if !o.ValidateWithProof || !o.Validate {
		add("validate-with-proof-false", "LocalPreParams.ValidateWithProof() is false")
	}
	return bad
}

func runPreParams(r *core.Run) {
	dir := filepath.Join(core.WorkDir(), "c19", fmt.Sprintf("run-%d", os.Getpid()))
	if err := os.MkdirAll(dir, 0o755); err != nil {
		r.Cap("cannot create work dir: " + err.Error())
		return
	}
	defer os.RemoveAll(dir)

	var wg sync.WaitGroup
	if r.Tier == "thorough" {
		wg.Add(1)
		go func() {
			defer wg.Done()
			bin, capText := buildPP(dir, false)
			if capText != "" {
				r.Cap("real-size pre-parameters: " + capText)
				return
			}
			ppOne(r, bin, "real", "c19/pp/real/0", 2048, 1024, 8*time.Minute)
		}()
	}
	bin, capText := buildPP(dir, true)
	if capText != "" {
		r.Cap("reduced-size pre-parameters: " + capText)
	} else {
		seeds := 4
		if r.Tier == "thorough" {
			seeds = 16
		}
		core.ParallelFor(seeds, 8, func(i int) {
			ppOne(r, bin, "reduced", fmt.Sprint("c19/pp/reduced/", i), 256, 128, hangWatchdog)
		})
	}
	wg.Wait()
}

func ppOne(r *core.Run, bin, size, label string, paillierBits, safeBits int, watchdog time.Duration) {
	o, timedOut, problem := runPP(bin, label, watchdog)
	rec := map[string]interface{}{"sizes": fmt.Sprintf("paillier %d / safe primes %d", paillierBits, safeBits), "entropy": "DRBG(" + label + ")", "optionalConcurrency": ppConcurrency}
	key := "preparams/" + size
	switch {
	case timedOut && size == "real":
		r.Cap(fmt.Sprintf("real-size pre-parameter generation cut after %v", watchdog))
		return
	case timedOut:
		r.Count("pp_runs", 1)
		r.Violate(key+"/generation:hang", fmt.Sprintf("GeneratePreParamsWithContextAndRandom did not return within %v at reduced sizes", watchdog), rec)
		return
	case problem != "":
		r.Cap("pre-parameter helper: " + problem)
		return
	}
	r.Count("pp_runs", 1)
	rec["output"] = o
	switch {
	case o.Panic != "":
		r.Violate(key+"/generation:panic", "GeneratePreParamsWithContextAndRandom panicked: "+o.Panic, rec)
		return
	case o.Err != "" || o.Nil:
		r.Violate(key+"/generation/error-without-cause", "no pre-parameters although entropy never failed and the context was never cancelled: "+o.Err, rec)
		return
	}
	bad := checkPP(o, paillierBits, safeBits)
	for _, b := range bad {
		r.Violate(key+"/"+b[0], b[1], rec)
	}
	r.Distinct("cases", "preparams|"+size+"|"+label)
	if len(bad) > 0 {
		return
	}
	r.Sample(8, map[string]interface{}{"preparams": size, "entropy": label, "ntilde_bits": bigOf(o.NTilde).BitLen(), "paillier_n_bits": bigOf(o.PaillierN).BitLen(), "entropy_reads": o.EntropyReads})
}
