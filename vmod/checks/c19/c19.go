// Package c19: check for property C19 (stub until implemented).
package c19

import "verif/internal/core"

// Implemented reports whether this check is built.
const Implemented = false

func Run(r *core.Run) { r.Cap("not implemented") }
