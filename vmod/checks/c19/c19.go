// Package c19: generated primes and pre-parameters have the structure the proofs assume.
//
//	(a) inputs.go    every reader answer for one draw of the safe-prime generator and of the samplers (ENUM)
//	(b) sched.go     goroutine schedules of the concurrent generator (SCHED)
//	(c) preparams.go pre-parameter generation, reduced sizes via a build overlay / real size (ENUM)
package c19

import "verif/internal/core"

// Implemented reports whether this check is built.
const Implemented = true

func Run(r *core.Run) {
	// (a) and (c) are independent and both CPU-bound in phases: run them side by side
	done := make(chan struct{})
	go func() { defer close(done); runPreParams(r) }()
	runInputs(r)
	<-done
	runSchedules(r)

	ev := r.Get("gen_calls") + r.Get("validate_calls") + r.Get("ntilde_calls") + r.Get("sampler_calls") +
		r.Get("pp_runs") + r.Get("sched_runs")
	r.Set("evaluations", int(ev))
	r.Set("distinct_nontrivial", r.NDistinct("cases"))
	r.Set("rule", "evaluations = calls of the code under test: generator calls (one per enumerated reader answer for one draw: "+
		"for numPrimes=1 every raw byte string of the draw width (quick, two-byte draws: every value of the bits the generator keeps, masked-away bits all-zero and all-one), "+
		"for numPrimes=2,3 every value of the unforced bits at draw positions 0 and 1; "+
		"plus parameter/reader-error cases and, thorough, two 1024-bit runs) + Validate() calls on every pair (q, 2q+1 and near misses) below the size bound "+
		"+ GenerateNTildei calls + sampler calls (every first-draw byte string per bound and sampler, boundary first draws for 2048-bit bounds) "+
		"+ pre-parameter generations + schedules of part (b). A case is distinct when it differs in "+
		"(function, size or bound, outcome): for the generator the returned list of primes, for samplers the outcome class "+
		"(no entropy needed / first draw accepted / redrawn / refused / hang), for pre-parameters (sizes, seed).")
}
