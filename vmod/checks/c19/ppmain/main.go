// Command ppmain: helper process of check C19(c). Generates one set of pre-parameters with a
// deterministic entropy stream and prints it as JSON. The C19 check builds it twice: with a build
// overlay that scales the two size constants of ecdsa/keygen/prepare.go down, and unchanged.
//
//	ppmain <drbg label> <optionalConcurrency>
package main

import (
	"context"
	"encoding/json"
	"fmt"
	"math/big"
	"os"
	"strconv"

	"github.com/bnb-chain/tss-lib/v2/ecdsa/keygen"

	"verif/internal/core"
)

type out struct {
	Err               string `json:"err,omitempty"`
	Panic             string `json:"panic,omitempty"`
	Nil               bool   `json:"nil,omitempty"`
	PaillierN         string `json:"paillier_n,omitempty"`
	PaillierP         string `json:"paillier_p,omitempty"`
	PaillierQ         string `json:"paillier_q,omitempty"`
	PaillierPhiN      string `json:"paillier_phi_n,omitempty"`
	PaillierLambdaN   string `json:"paillier_lambda_n,omitempty"`
	NTilde            string `json:"ntilde,omitempty"`
	H1                string `json:"h1,omitempty"`
	H2                string `json:"h2,omitempty"`
	Alpha             string `json:"alpha,omitempty"`
	Beta              string `json:"beta,omitempty"`
	P                 string `json:"p,omitempty"`
	Q                 string `json:"q,omitempty"`
	Validate          bool   `json:"validate"`
	ValidateWithProof bool   `json:"validate_with_proof"`
	EntropyReads      int    `json:"entropy_reads"`
}

func s(v *big.Int) string {
	if v == nil {
		return ""
	}
	return v.String()
}

func main() {
	if len(os.Args) != 3 {
		fmt.Fprintln(os.Stderr, "usage: ppmain <label> <concurrency>")
		os.Exit(2)
	}
	conc, err := strconv.Atoi(os.Args[2])
	if err != nil {
		fmt.Fprintln(os.Stderr, "bad concurrency")
		os.Exit(2)
	}
	var o out
	d := core.NewDRBG(os.Args[1])
	func() {
		defer func() {
			if p := recover(); p != nil {
				o.Panic = fmt.Sprint(p)
			}
		}()
		pp, err := keygen.GeneratePreParamsWithContextAndRandom(context.Background(), d, conc)
		if err != nil {
			o.Err = err.Error()
			return
		}
		if pp == nil {
			o.Nil = true
			return
		}
		if pp.PaillierSK != nil {
			o.PaillierN, o.PaillierP, o.PaillierQ = s(pp.PaillierSK.N), s(pp.PaillierSK.P), s(pp.PaillierSK.Q)
			o.PaillierPhiN, o.PaillierLambdaN = s(pp.PaillierSK.PhiN), s(pp.PaillierSK.LambdaN)
		}
		o.NTilde, o.H1, o.H2, o.Alpha, o.Beta, o.P, o.Q = s(pp.NTildei), s(pp.H1i), s(pp.H2i), s(pp.Alpha), s(pp.Beta), s(pp.P), s(pp.Q)
		o.Validate, o.ValidateWithProof = pp.Validate(), pp.ValidateWithProof()
	}()
	o.EntropyReads = d.Reads
	bz, _ := json.Marshal(o)
	fmt.Println("C19PP " + string(bz))
}
