package c19

// Part (b): goroutine schedules of GetRandomSafePrimesConcurrent under the controlled scheduler.
// The harness (cmd/sched19) is built with an overlay in which /repo/common/safe_prime.go is replaced by a
// mechanically instrumented copy of the CURRENT file (sync -> verif/vsched, go statements, selects and
// channel sends turned into scheduling points); every (scenario, preemption bound) runs in its own process.

import (
	"encoding/json"
	"fmt"
	"os"
	"os/exec"
	"path/filepath"
	"runtime"
	"strings"
	"sync"

	"verif/internal/core"
	"verif/internal/ovl"
)

type schedViolation struct {
	Key      string   `json:"key"`
	What     string   `json:"what"`
	Schedule []int    `json:"schedule"`
	Trace    []string `json:"trace"`
}

type schedResult struct {
	Scenario    string           `json:"scenario"`
	Bound       int              `json:"bound"`
	Schedules   int              `json:"schedules"`
	Steps       int              `json:"steps"`
	MaxPoints   int              `json:"max_points"`
	Capped      bool             `json:"capped"`
	Outcomes    map[string]int   `json:"outcomes"`
	Violations  []schedViolation `json:"violations"`
	SampleTrace []string         `json:"sample_trace"`
}

func runSchedules(r *core.Run) {
	dir := filepath.Join(core.WorkDir(), fmt.Sprintf("c19s-%d", os.Getpid()))
	_ = os.MkdirAll(dir, 0o755)
	defer os.RemoveAll(dir)
	o, err := ovl.Base()
	if err != nil {
		r.Cap("cannot read VERIF_OVERLAY: " + err.Error())
		return
	}
	st, err := o.Instrument(dir, "/repo/common/safe_prime.go", nil, nil)
	if err != nil {
		fmt.Fprintln(os.Stderr, "INFRASTRUCTURE: cannot instrument common/safe_prime.go:", err)
		os.Exit(2)
	}
	if !st.SyncImport || st.GoStmts < 1 || st.Selects < 2 {
		r.Cap(fmt.Sprintf("instrumentation of common/safe_prime.go found little (%+v): the generator may no longer be concurrent in the way the harness expects", st))
	}
	r.Set("sched_instrumentation", fmt.Sprintf("%+v", st))
	ovPath, _ := o.Write(dir)
	bin := filepath.Join(dir, "sched19")
	if err := ovl.Build(ovPath, "./cmd/sched19", bin, false); err != nil {
		fmt.Fprintln(os.Stderr, "INFRASTRUCTURE:", err)
		os.Exit(2)
	}
	lst, err := exec.Command(bin, "list").Output()
	if err != nil {
		fmt.Fprintln(os.Stderr, "INFRASTRUCTURE: sched19 list:", err)
		os.Exit(2)
	}
	type job struct {
		idx, conc, primes, bound, maxExec int
		name                                 string
	}
	var jobs []job
	for _, line := range strings.Split(strings.TrimSpace(string(lst)), "\n") {
		var j job
		parts := strings.SplitN(line, "\t", 4)
		fmt.Sscan(parts[0], &j.idx)
		fmt.Sscan(parts[1], &j.conc)
		fmt.Sscan(parts[2], &j.primes)
		j.name = parts[3]
		cancel := strings.Contains(j.name, "cancel")
		if r.Tier == "quick" {
			j.bound, j.maxExec = 1, 600000
			if j.conc*j.primes <= 2 {
				j.bound = 2
			}
		} else {
			j.maxExec = 6000000
			switch {
			case j.conc == 1:
				j.bound = 99 // unbounded
			case j.conc == 2 && j.primes == 1:
				j.bound = 3
			case j.conc == 2:
				j.bound = 2
			case !cancel:
				j.bound = 2
			default:
				j.bound = 1
			}
		}
		jobs = append(jobs, j)
	}
	results := make([]*schedResult, len(jobs))
	var mu sync.Mutex
	core.ParallelFor(len(jobs), runtime.NumCPU(), func(i int) {
		j := jobs[i]
		out, err := exec.Command(bin, "run", fmt.Sprint(j.idx), fmt.Sprint(j.bound), fmt.Sprint(j.maxExec)).Output()
		if err != nil {
			mu.Lock()
			r.Cap("scheduler harness failed for " + j.name + ": " + err.Error())
			mu.Unlock()
			return
		}
		var res schedResult
		if err := json.Unmarshal(out, &res); err != nil {
			mu.Lock()
			r.Cap("scheduler harness output unreadable for " + j.name)
			mu.Unlock()
			return
		}
		results[i] = &res
	})
	var schedules, steps int
	for _, res := range results {
		if res == nil {
			continue
		}
		schedules += res.Schedules
		steps += res.Steps
		for _, v := range res.Violations {
			if strings.HasPrefix(v.Key, "infrastructure/") {
				r.Cap("scheduler: " + v.Key + " in " + res.Scenario)
				continue
			}
			r.Violate("sched/"+v.Key, v.What+" [scenario "+res.Scenario+"]", map[string]interface{}{"scenario": res.Scenario, "schedule": v.Schedule, "trace": v.Trace})
		}
		if res.Capped {
			r.Cap(fmt.Sprintf("schedule cap hit in %s at preemption bound %d after %d schedules", res.Scenario, res.Bound, res.Schedules))
		}
		// a failing reader must be reported: in every scenario whose reader fails at least once there are
		// schedules in which the consumer looks at its channels while the error is the only thing ready, so
		// over ALL explored schedules the reader's error has to show up as an outcome at least once
		if strings.Contains(res.Scenario, "reader=") && strings.Contains(res.Scenario, "E") && res.Outcomes["reader-error"] == 0 {
			r.Violate("sched/reader-error-never-reported", fmt.Sprintf("in none of the %d explored schedules of %q did the call return the reader's error (outcomes: %v)", res.Schedules, res.Scenario, res.Outcomes), map[string]interface{}{"scenario": res.Scenario, "outcomes": res.Outcomes})
		}
		for k := range res.Outcomes {
			r.Distinct("sched_outcomes", res.Scenario+"="+k)
			r.Distinct("cases", "sched|"+res.Scenario+"|"+k)
		}
		r.Set("sched:"+res.Scenario, map[string]interface{}{"preemption_bound": res.Bound, "schedules": res.Schedules, "scheduling_points_total": res.Steps, "max_points": res.MaxPoints, "outcomes": res.Outcomes})
		if len(res.SampleTrace) > 0 && strings.Contains(res.Scenario, "conc=2,primes=1,reader=P*,cancel") {
			r.Sample(8, map[string]interface{}{"kind": "longest schedule", "scenario": res.Scenario, "trace": res.SampleTrace})
		}
	}
	r.Count("sched_runs", int64(schedules))
	r.Set("states", steps)
	r.Set("transitions", steps)
	r.Set("traces_validated_against_impl", schedules)
	r.Assume("scheduling points in common/safe_prime.go: go statements, select statements, channel sends, WaitGroup.Wait, every reader.Read and the canceller's cancel(); buffered-channel readiness by length, done-channel readiness by closedness")
}
