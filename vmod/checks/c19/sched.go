package c19

import "verif/internal/core"

func runSchedules(r *core.Run) {}
