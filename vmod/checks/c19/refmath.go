package c19

import "math/big"

// Boring reference arithmetic, independent of the library and of math/big's number theory.

// isPrimeTD decides primality by trial division (inputs here are < 2^32).
func isPrimeTD(n uint64) bool {
	if n < 2 {
		return false
	}
	if n < 4 {
		return true
	}
	if n%2 == 0 {
		return false
	}
	for d := uint64(3); d*d <= n; d += 2 {
		if n%d == 0 {
			return false
		}
	}
	return true
}

func gcd64(a, b uint64) uint64 {
	for b != 0 {
		a, b = b, a%b
	}
	return a
}

// jacobi64 is the binary Jacobi symbol (a/n) for odd n >= 1.
func jacobi64(a, n uint64) int {
	if n%2 == 0 {
		panic("jacobi64: even n")
	}
	a %= n
	res := 1
	for a != 0 {
		for a%2 == 0 {
			a /= 2
			if r := n % 8; r == 3 || r == 5 {
				res = -res
			}
		}
		a, n = n, a
		if a%4 == 3 && n%4 == 3 {
			res = -res
		}
		a %= n
	}
	if n == 1 {
		return res
	}
	return 0
}

// jacobiBig: the same algorithm on big integers (odd n >= 1, a >= 0).
func jacobiBig(a0, n0 *big.Int) int {
	a := new(big.Int).Mod(a0, n0)
	n := new(big.Int).Set(n0)
	res := 1
	for a.Sign() != 0 {
		for a.Bit(0) == 0 {
			a.Rsh(a, 1)
			if r := n.Bits()[0] & 7; r == 3 || r == 5 {
				res = -res
			}
		}
		a, n = n, a
		if a.Bits()[0]&3 == 3 && n.Bits()[0]&3 == 3 {
			res = -res
		}
		a.Mod(a, n)
	}
	if n.Cmp(big.NewInt(1)) == 0 {
		return res
	}
	return 0
}

// isPerfectSquare64 by integer search.
func isPerfectSquare64(n uint64) bool {
	lo, hi := uint64(0), uint64(1<<32)
	for lo < hi {
		m := (lo + hi) / 2
		if m*m < n {
			lo = m + 1
		} else {
			hi = m
		}
	}
	return lo*lo == n
}

// unitSquares returns the bitmap of { x^2 mod n : gcd(x,n)=1 } for n >= 1.
func unitSquares(n uint64) []bool {
	out := make([]bool, n)
	for x := uint64(0); x < n; x++ {
		if gcd64(x, n) == 1 || n == 1 {
			out[x*x%n] = true
		}
	}
	return out
}

// primePowersUpTo lists p^k (k >= 2) <= limit, ascending.
func primePowersUpTo(limit uint64) []uint64 {
	var out []uint64
	for p := uint64(2); p*p <= limit; p++ {
		if !isPrimeTD(p) {
			continue
		}
		for v := p * p; v <= limit; v *= p {
			out = append(out, v)
		}
	}
	// insertion sort (small)
	for i := 1; i < len(out); i++ {
		for j := i; j > 0 && out[j-1] > out[j]; j-- {
			out[j-1], out[j] = out[j], out[j-1]
		}
	}
	return out
}

// safePrimePairs lists all (q,p=2q+1) with both prime and p of exactly `bits` bits.
func safePrimePairs(bits int) [][2]uint64 {
	var out [][2]uint64
	lo, hi := uint64(1)<<(bits-1), uint64(1)<<bits
	for p := lo | 1; p < hi; p += 2 {
		q := (p - 1) / 2
		if isPrimeTD(q) && isPrimeTD(p) {
			out = append(out, [2]uint64{q, p})
		}
	}
	return out
}
