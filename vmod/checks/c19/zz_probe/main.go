package main

import (
	"context"
	"fmt"
	"os"
	"time"

	"github.com/bnb-chain/tss-lib/v2/common"
	"github.com/bnb-chain/tss-lib/v2/ecdsa/keygen"
	"verif/internal/core"
)

func main() {
	if len(os.Args) > 1 && os.Args[1] == "pp" {
		t0 := time.Now()
		pp, err := keygen.GeneratePreParamsWithContextAndRandom(context.Background(), core.NewDRBG("pp-real"), 3)
		fmt.Println("preparams", err, pp != nil, time.Since(t0))
		return
	}
	for i := 0; i < 2; i++ {
		t0 := time.Now()
		d := core.NewDRBG(fmt.Sprint("c19/gen1024/", i))
		sg, err := common.GetRandomSafePrimesConcurrent(context.Background(), 1024, 1, 1, d)
		fmt.Println("1024", i, err, len(sg), d.Reads, time.Since(t0))
	}
}
