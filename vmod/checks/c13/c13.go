// Package c13: MtA turns a product of secrets into additive shares of that product (ENUM).
//
// Enumerated space
//
//	(a,b) in {0,1,2,q-2,q-1,generic,generic'}^2 (b != 0 for the check variant: 0*G is the identity, which
//	the library's ECPoint cannot represent on secp256k1 — inadmissible input, DESIGN §3a)
//	x ordered pairs (i,j) of vendored parameter sets (Alice: Paillier key + ring-Pedersen of set i,
//	  Bob: ring-Pedersen of set j); 4 pairs in quick, all 25 in thorough
//	x {MtA, MtAwc}.
//	Every run: alpha+beta == a*b (mod q) with independent big.Int arithmetic, no error from any step.
//	Every MtAwc run: Alice must reject B' = (b+1)*G (both with Bob's honest proof and with a proof Bob
//	  built for B').
//	Every run x tamper alphabet: cA in {+1, *2 mod N^2, another session's cA, 0} -> BobMid[WC] must
//	  return an error; cB in {+1, *2 mod N^2, another session's cB, 0} -> AliceEnd[WC] must return an error.
package c13

import (
	"crypto/elliptic"
	"fmt"
	"math/big"
	"runtime"
	"runtime/debug"
	"strings"
	"sync/atomic"
	"time"

	"github.com/bnb-chain/tss-lib/v2/crypto"
	"github.com/bnb-chain/tss-lib/v2/crypto/mta"
	"github.com/bnb-chain/tss-lib/v2/crypto/paillier"
	"github.com/bnb-chain/tss-lib/v2/tss"

	"verif/internal/core"
	"verif/internal/fix"
	"verif/internal/ref"
)

const Implemented = true

type params struct {
	idx        int
	sk         *paillier.PrivateKey
	NT, h1, h2 *big.Int
}

type scalar struct {
	n string
	v *big.Int
}

type run struct {
	id      int
	variant string // MtA | MtAwc
	A, B    *params
	a, b    scalar
	session []byte
	name    string

	cA    *big.Int
	pfA   *mta.RangeProofAlice
	cB    *big.Int
	piB   *mta.ProofBob
	piBwc *mta.ProofBobWC
	pt    *crypto.ECPoint // b*G (MtAwc)
	done  bool            // all honest steps succeeded
	ed    bool            // run over edwards25519 instead of secp256k1 (the API takes the curve as a parameter)
}

var edCurve = tss.Edwards()

func (x *run) ec() elliptic.Curve {
	if x.ed {
		return edCurve
	}
	return tss.S256()
}

func (x *run) q() *big.Int { return x.ec().Params().N }

func try(f func()) (pan string) {
	defer func() {
		if e := recover(); e != nil {
			pan = fmt.Sprint(e) + site(debug.Stack())
		}
	}()
	f()
	return ""
}

// site: the innermost library frame of a panic stack ("file.go:line").
func site(stack []byte) string {
	for _, ln := range strings.Split(string(stack), "\n") {
		ln = strings.TrimSpace(ln)
		if i := strings.Index(ln, "/crypto/"); i >= 0 && strings.Contains(ln, ".go:") && !strings.Contains(ln, "/verif/") {
			if j := strings.Index(ln, " +0x"); j > 0 {
				ln = ln[:j]
			}
			return " @" + ln[i+1:]
		}
	}
	return ""
}

func str(b *big.Int) string {
	if b == nil {
		return "<nil>"
	}
	return b.String()
}

func (x *run) record(kv ...interface{}) map[string]string {
	m := map[string]string{
		"variant": x.variant, "alice_param_set": fmt.Sprint(x.A.idx), "bob_param_set": fmt.Sprint(x.B.idx),
		"a_class": x.a.n, "b_class": x.b.n, "a": str(x.a.v), "b": str(x.b.v), "session": string(x.session),
		"drbg_label": "c13/run/" + x.name,
	}
	for i := 0; i+1 < len(kv); i += 2 {
		if b, ok := kv[i+1].(*big.Int); ok {
			m[kv[i].(string)] = str(b)
		} else {
			m[kv[i].(string)] = fmt.Sprint(kv[i+1])
		}
	}
	return m
}

func pointOf(x *run, k *big.Int) (*crypto.ECPoint, error) {
	if x.ed {
		p := ref.Ed25519.BaseMul(k)
		return crypto.NewECPoint(edCurve, p.X, p.Y)
	}
	p := ref.Secp256k1.BaseMul(k)
	return crypto.NewECPoint(tss.S256(), p.X, p.Y)
}

type chk struct {
	r     *core.Run
	q     *big.Int
	evals int64
}

// keep snapshots the integers handed to a library call (secrets, ciphertexts, both parameter sets, Alice's
// key, the public point); the returned function reports any of them that the call changed.
func (c *chk) keep(fn string, x *run, more ...*big.Int) func() {
	all := append([]*big.Int{x.a.v, x.b.v, x.A.NT, x.A.h1, x.A.h2, x.B.NT, x.B.h1, x.B.h2, x.A.sk.N, x.A.sk.P, x.A.sk.Q, x.A.sk.LambdaN, x.A.sk.PhiN}, more...)
	snap := make([]*big.Int, len(all))
	for i, a := range all {
		if a != nil {
			snap[i] = new(big.Int).Set(a)
		}
	}
	return func() {
		for i, a := range all {
			if a != nil && a.Cmp(snap[i]) != 0 {
				c.r.Violate("purity/"+fn+"/argument-modified", fmt.Sprintf("%s changed one of the values its caller handed over (argument slot %d)", fn, i), map[string]string{"before": snap[i].String(), "after": a.String(), "run": x.name})
			}
		}
	}
}

// bob runs Bob's step of the right variant on (possibly altered) cA with the given public point.
func (c *chk) bob(x *run, cA *big.Int, pt *crypto.ECPoint, label string) (beta, cB *big.Int, piB *mta.ProofBob, piBwc *mta.ProofBobWC, err error, pan string) {
	ec := x.ec()
	rd := core.NewDRBG("c13/bob/" + x.name + "/" + label)
	pkA := &x.A.sk.PublicKey
	args := []*big.Int{cA}
	if pt != nil {
		args = append(args, pt.X(), pt.Y())
	}
	defer c.keep("BobMid", x, args...)()
	pan = try(func() {
		if x.variant == "MtA" {
			beta, cB, _, piB, err = mta.BobMid(x.session, ec, pkA, x.pfA, x.b.v, cA, x.A.NT, x.A.h1, x.A.h2, x.B.NT, x.B.h1, x.B.h2, rd)
		} else {
			beta, cB, _, piBwc, err = mta.BobMidWC(x.session, ec, pkA, x.pfA, x.b.v, cA, x.A.NT, x.A.h1, x.A.h2, x.B.NT, x.B.h1, x.B.h2, pt, rd)
		}
	})
	return
}

// alice runs Alice's final step of the right variant on (possibly altered) cB / public point / proof.
func (c *chk) alice(x *run, cB *big.Int, piB *mta.ProofBob, piBwc *mta.ProofBobWC, pt *crypto.ECPoint) (alpha *big.Int, err error, pan string) {
	ec := x.ec()
	pkA := &x.A.sk.PublicKey
	args := []*big.Int{x.cA, cB}
	if pt != nil {
		args = append(args, pt.X(), pt.Y())
	}
	defer c.keep("AliceEnd", x, args...)()
	pan = try(func() {
		if x.variant == "MtA" {
			alpha, err = mta.AliceEnd(x.session, ec, pkA, piB, x.A.h1, x.A.h2, x.cA, cB, x.A.NT, x.A.sk)
		} else {
			alpha, err = mta.AliceEndWC(x.session, ec, pkA, piBwc, pt, x.cA, cB, x.A.NT, x.A.h1, x.A.h2, x.A.sk)
		}
	})
	return
}

func (c *chk) honest(x *run) {
	r, q := c.r, x.q()
	ec := x.ec()
	cls := x.a.n + "*" + x.b.n
	atomic.AddInt64(&c.evals, 1)
	canon := fmt.Sprintf("run|%s|A%d|B%d|%s", x.variant, x.A.idx, x.B.idx, cls)
	r.Distinct("cases", canon)
	want := new(big.Int).Mul(x.a.v, x.b.v)
	if want.Cmp(q) >= 0 {
		r.Count("runs_where_ab_exceeds_q", 1)
	}
	want.Mod(want, q)
	if want.Sign() != 0 {
		r.Distinct("cases_nontrivial", canon)
	}

	// Alice, step 1
	var err error
	rd := core.NewDRBG("c13/run/" + x.name)
	doneInit := c.keep("AliceInit", x)
	defer doneInit()
	if p := try(func() { x.cA, x.pfA, err = mta.AliceInit(ec, &x.A.sk.PublicKey, x.a.v, x.B.NT, x.B.h1, x.B.h2, rd) }); p != "" {
		r.Violate("honest/"+x.variant+"/AliceInit/"+cls+":panic", "AliceInit panicked: "+p, x.record())
		return
	}
	if err != nil || x.cA == nil || x.pfA == nil {
		r.Violate("honest/"+x.variant+"/AliceInit/error/"+cls, fmt.Sprintf("AliceInit failed on admissible input: %v", err), x.record())
		return
	}
	// Bob
	if x.variant == "MtAwc" {
		if x.pt, err = pointOf(x, x.b.v); err != nil {
			r.Violate("infrastructure/reference-point-not-accepted", "b*G computed by the reference curve is refused by NewECPoint: "+err.Error(), x.record())
			return
		}
	}
	beta, cB, piB, piBwc, err, pan := c.bob(x, x.cA, x.pt, "honest")
	if pan != "" {
		r.Violate("honest/"+x.variant+"/Bob/"+cls+":panic", "Bob's step panicked on an honest cA: "+pan, x.record("cA", x.cA))
		return
	}
	if err != nil {
		r.Violate("honest/"+x.variant+"/Bob/error/"+cls, "Bob's step rejected Alice's honest range proof or failed: "+err.Error(), x.record("cA", x.cA))
		return
	}
	x.cB, x.piB, x.piBwc = cB, piB, piBwc
	// Alice, step 2
	alpha, err, pan := c.alice(x, cB, piB, piBwc, x.pt)
	if pan != "" {
		r.Violate("honest/"+x.variant+"/AliceEnd/"+cls+":panic", "Alice's final step panicked on an honest cB: "+pan, x.record("cA", x.cA, "cB", cB))
		return
	}
	if err != nil {
		r.Violate("honest/"+x.variant+"/AliceEnd/error/"+cls, "Alice's final step rejected Bob's honest proof or failed: "+err.Error(), x.record("cA", x.cA, "cB", cB))
		return
	}
	if alpha == nil || beta == nil {
		r.Violate("honest/"+x.variant+"/nil-share/"+cls, "a share is nil although no error was returned", x.record())
		return
	}
	sum := new(big.Int).Add(alpha, beta)
	sum.Mod(sum, q)
	if sum.Cmp(want) != 0 {
		r.Violate("share/"+x.variant+"/alpha-plus-beta-not-ab/"+cls, "alpha + beta != a*b (mod q)",
			x.record("alpha", alpha, "beta", beta, "alpha+beta mod q", sum, "a*b mod q", want))
		return
	}
	x.done = true
	r.Count("honest_runs_ok", 1)
	r.Distinct("alpha_values", fmt.Sprintf("%x", alpha.Bytes()))
	if x.id%97 == 0 {
		r.Sample(6, map[string]string{"case": canon, "a": str(x.a.v), "b": str(x.b.v), "alpha": str(alpha), "beta": str(beta), "a*b mod q": str(want)})
	}

	// MtAwc: a wrong public point must be rejected
	if x.variant == "MtAwc" {
		b1 := new(big.Int).Add(x.b.v, big.NewInt(1))
		b1.Mod(b1, q)
		if b1.Sign() == 0 {
			b1.SetInt64(1) // b = q-1: (b+1)*G is the identity; use 1*G (still != b*G)
		}
		wrong, err := pointOf(x, b1)
		if err != nil {
			r.Violate("infrastructure/reference-point-not-accepted", "(b+1)*G computed by the reference curve is refused by NewECPoint: "+err.Error(), x.record())
			return
		}
		// (i) Bob's honest proof, Alice told the wrong point
		atomic.AddInt64(&c.evals, 1)
		cs := fmt.Sprintf("wrong-point/honest-proof|A%d|B%d|%s", x.A.idx, x.B.idx, cls)
		r.Distinct("cases", cs)
		r.Distinct("cases_nontrivial", cs)
		al, err, pan := c.alice(x, cB, nil, piBwc, wrong)
		switch {
		case pan != "":
			r.Violate("wc/wrong-public-point/honest-proof/AliceEndWC:panic", "AliceEndWC panicked: "+pan, x.record("Bx", wrong.X(), "By", wrong.Y()))
		case err == nil:
			r.Violate("wc/wrong-public-point/honest-proof/accepted", "AliceEndWC accepted a public point different from b*G", x.record("Bx", wrong.X(), "By", wrong.Y(), "alpha", al))
		default:
			r.Count("wrong_point_rejected", 1)
		}
		// (ii) Bob builds his proof for the wrong point
		atomic.AddInt64(&c.evals, 1)
		cs = fmt.Sprintf("wrong-point/proof-for-wrong-point|A%d|B%d|%s", x.A.idx, x.B.idx, cls)
		r.Distinct("cases", cs)
		r.Distinct("cases_nontrivial", cs)
		_, cB2, _, piB2, err, pan := c.bob(x, x.cA, wrong, "wrong-point")
		switch {
		case pan != "":
			r.Violate("wc/wrong-public-point/proof-for-wrong-point/BobMidWC:panic", "BobMidWC panicked: "+pan, x.record("Bx", wrong.X(), "By", wrong.Y()))
		case err != nil:
			r.Count("wrong_point_rejected", 1) // the prover itself refused: also a rejection
		default:
			al, err, pan := c.alice(x, cB2, nil, piB2, wrong)
			switch {
			case pan != "":
				r.Violate("wc/wrong-public-point/proof-for-wrong-point/AliceEndWC:panic", "AliceEndWC panicked: "+pan, x.record("Bx", wrong.X(), "By", wrong.Y()))
			case err == nil:
				r.Violate("wc/wrong-public-point/proof-for-wrong-point/accepted", "AliceEndWC accepted a proof and public point for (b+1)*G while cB was computed with b",
					x.record("Bx", wrong.X(), "By", wrong.Y(), "alpha", al))
			default:
				r.Count("wrong_point_rejected", 1)
			}
		}
	}
}

type tamper struct {
	n string
	f func(c, other, N2 *big.Int) *big.Int
}

var tampers = []tamper{
	{"plus-1", func(c, _, _ *big.Int) *big.Int { return new(big.Int).Add(c, big.NewInt(1)) }},
	{"times-2-mod-N2", func(c, _, N2 *big.Int) *big.Int { v := new(big.Int).Lsh(c, 1); return v.Mod(v, N2) }},
	{"other-session", func(_, o, _ *big.Int) *big.Int { return new(big.Int).Set(o) }},
	{"zero", func(_, _, _ *big.Int) *big.Int { return big.NewInt(0) }},
	// the same residue class modulo N^2, another integer on the wire
	{"plus-N2", func(c, _, N2 *big.Int) *big.Int { return new(big.Int).Add(c, N2) }},
	{"plus-2N2", func(c, _, N2 *big.Int) *big.Int { return new(big.Int).Add(c, new(big.Int).Lsh(N2, 1)) }},
	{"negated-mod-N2", func(c, _, N2 *big.Int) *big.Int { return new(big.Int).Sub(N2, c) }},
	{"inverse-mod-N2", func(c, _, N2 *big.Int) *big.Int {
		if v := new(big.Int).ModInverse(c, N2); v != nil {
			return v
		}
		return new(big.Int).Set(c)
	}},
}

// tamperOne: which = "cA" (receiver Bob) or "cB" (receiver Alice).
func (c *chk) tamperOne(x, other *run, which string, t tamper) {
	r := c.r
	N2 := x.A.sk.PublicKey.NSquare()
	cls := x.a.n + "*" + x.b.n
	cs := fmt.Sprintf("tamper|%s|%s|%s|A%d|B%d|%s", which, t.n, x.variant, x.A.idx, x.B.idx, cls)
	if which == "cA" {
		alt := t.f(x.cA, other.cA, N2)
		if alt.Cmp(x.cA) == 0 {
			r.Count("tamper_skipped_equal_value", 1)
			return
		}
		atomic.AddInt64(&c.evals, 1)
		r.Distinct("cases", cs)
		r.Distinct("cases_nontrivial", cs)
		beta, cB, _, _, err, pan := c.bob(x, alt, x.pt, "tamper-"+t.n)
		switch {
		case pan != "":
			r.Violate("tamper/cA/"+t.n+"/"+x.variant+"/receiver-Bob:panic", "Bob's step panicked on an altered cA instead of returning an error: "+pan,
				x.record("cA", x.cA, "cA_altered", alt))
		case err == nil:
			r.Violate("tamper/cA/"+t.n+"/"+x.variant+"/receiver-Bob/accepted", "Bob's step produced a share for an altered cA (Alice's range proof no longer matches)",
				x.record("cA", x.cA, "cA_altered", alt, "beta", beta, "cB", cB))
		default:
			r.Count("tamper_rejected", 1)
			r.Distinct("tamper_reject_reasons", which+"/"+err.Error())
		}
		return
	}
	alt := t.f(x.cB, other.cB, N2)
	if alt.Cmp(x.cB) == 0 {
		r.Count("tamper_skipped_equal_value", 1)
		return
	}
	atomic.AddInt64(&c.evals, 1)
	r.Distinct("cases", cs)
	r.Distinct("cases_nontrivial", cs)
	alpha, err, pan := c.alice(x, alt, x.piB, x.piBwc, x.pt)
	switch {
	case pan != "":
		r.Violate("tamper/cB/"+t.n+"/"+x.variant+"/receiver-Alice:panic", "Alice's final step panicked on an altered cB instead of returning an error: "+pan,
			x.record("cB", x.cB, "cB_altered", alt))
	case err == nil:
		r.Violate("tamper/cB/"+t.n+"/"+x.variant+"/receiver-Alice/accepted", "Alice's final step produced a share for an altered cB (Bob's proof no longer matches)",
			x.record("cB", x.cB, "cB_altered", alt, "alpha", alpha))
	default:
		r.Count("tamper_rejected", 1)
		r.Distinct("tamper_reject_reasons", which+"/"+err.Error())
	}
}

func Run(r *core.Run) {
	thorough := r.Tier == "thorough"
	q := tss.S256().Params().N
	if q.Cmp(ref.Secp256k1.N) != 0 {
		r.Violate("infrastructure/curve-order-differs", "tss.S256() order differs from the reference curve", nil)
		return
	}
	c := &chk{r: r, q: q}
	budget := 85 * time.Second
	if thorough {
		budget = 7*time.Minute + 30*time.Second
	}

	// parameter sets
	fx := fix.EcFixtures()
	sets := make([]*params, len(fx))
	for i, f := range fx {
		sets[i] = &params{idx: i, sk: f.PaillierSK, NT: f.NTildei, h1: f.H1i, h2: f.H2i}
	}
	var pairs [][2]int
	if thorough {
		for i := range sets {
			for j := range sets {
				pairs = append(pairs, [2]int{i, j}) // 20 ordered pairs of different sets + 5 same-set
			}
		}
	} else {
		pairs = [][2]int{{0, 1}, {1, 2}, {3, 4}, {4, 0}} // every set appears on some side
	}
	r.Set("parameter_pairs", len(pairs))

	// scalar alphabet, simplest first
	gen := func(label string) *big.Int {
		g := new(big.Int).SetBytes(core.Bytes("c13/generic/"+label, 48))
		return g.Mod(g, q)
	}
	al := []scalar{
		{"0", big.NewInt(0)},
		{"1", big.NewInt(1)},
		{"2", big.NewInt(2)},
		{"q-2", new(big.Int).Sub(q, big.NewInt(2))},
		{"q-1", new(big.Int).Sub(q, big.NewInt(1))},
		{"generic", gen("a")},
		{"generic'", gen("b")},
	}

	// phase 1: honest runs (+ wrong public point for MtAwc)
	var runs []*run
	groups := map[string][]*run{}
	for _, variant := range []string{"MtA", "MtAwc"} {
		for _, p := range pairs {
			for _, a := range al {
				for _, b := range al {
					if variant == "MtAwc" && b.v.Sign() == 0 {
						r.Count("skipped_wc_b_zero_inadmissible", 1)
						continue
					}
					x := &run{id: len(runs), variant: variant, A: sets[p[0]], B: sets[p[1]], a: a, b: b}
					x.name = fmt.Sprintf("%s/A%d/B%d/%s/%s", variant, p[0], p[1], a.n, b.n)
					x.session = []byte(fmt.Sprintf("c13-session-A%d-B%d", p[0], p[1]))
					runs = append(runs, x)
					g := fmt.Sprintf("%s/%d/%d", variant, p[0], p[1])
					groups[g] = append(groups[g], x)
				}
			}
		}
	}
	// the same exchange over the library's other curve (the MtA functions take the curve as a parameter):
	// first parameter pair, boundary and generic secrets modulo the edwards25519 group order
	{
		qe := edCurve.Params().N
		ge := func(label string) *big.Int {
			g := new(big.Int).SetBytes(core.Bytes("c13/generic-ed/"+label, 48))
			return g.Mod(g, qe)
		}
		ale := []scalar{{"0", big.NewInt(0)}, {"1", big.NewInt(1)}, {"q-1", new(big.Int).Sub(qe, big.NewInt(1))}, {"generic", ge("a")}, {"generic'", ge("b")}}
		p := pairs[0]
		for _, variant := range []string{"MtA", "MtAwc"} {
			for _, a := range ale {
				for _, b := range ale {
					if variant == "MtAwc" && b.v.Sign() == 0 {
						continue
					}
					x := &run{id: len(runs), variant: variant, A: sets[p[0]], B: sets[p[1]], a: a, b: b, ed: true}
					x.name = fmt.Sprintf("%s/ed25519/A%d/B%d/%s/%s", variant, p[0], p[1], a.n, b.n)
					x.session = []byte(fmt.Sprintf("c13-session-ed-A%d-B%d", p[0], p[1]))
					runs = append(runs, x)
					g := fmt.Sprintf("%s/ed25519/%d/%d", variant, p[0], p[1])
					groups[g] = append(groups[g], x)
				}
			}
		}
	}
	r.Set("honest_runs_planned", len(runs))
	var cut int32
	core.ParallelFor(len(runs), runtime.NumCPU(), func(i int) {
		if r.Elapsed() > budget {
			atomic.StoreInt32(&cut, 1)
			return
		}
		c.honest(runs[i])
	})
	if cut != 0 {
		r.Cap("time budget reached during the honest runs; remaining runs and their tamper cases not executed")
	}

	// phase 2: tamper alphabet on every completed run; "another session" = the next completed run of the same
	// (variant, parameter pair) group (same keys, same session id, different secrets and randomness)
	type job struct {
		x, other *run
		which    string
		t        tamper
	}
	var jobs []job
	for _, x := range runs {
		if !x.done {
			continue
		}
		gk := fmt.Sprintf("%s/%d/%d", x.variant, x.A.idx, x.B.idx)
		if x.ed {
			gk = fmt.Sprintf("%s/ed25519/%d/%d", x.variant, x.A.idx, x.B.idx)
		}
		g := groups[gk]
		var other *run
		for k := 1; k < len(g); k++ {
			cand := g[(indexOf(g, x)+k)%len(g)]
			if cand.done {
				other = cand
				break
			}
		}
		if other == nil {
			continue
		}
		for _, which := range []string{"cA", "cB"} {
			for _, t := range tampers {
				jobs = append(jobs, job{x, other, which, t})
			}
		}
	}
	r.Set("tamper_cases_planned", len(jobs))
	cut = 0
	core.ParallelFor(len(jobs), runtime.NumCPU(), func(i int) {
		if r.Elapsed() > budget {
			atomic.StoreInt32(&cut, 1)
			return
		}
		j := jobs[i]
		c.tamperOne(j.x, j.other, j.which, j.t)
	})
	if cut != 0 {
		r.Cap("time budget reached during the tamper cases")
	}

	r.Assume("b = 0 is not fed to the check variant: b*G is the identity, which ECPoint cannot represent on secp256k1 (inadmissible input); the plain variant is run with b = 0")
	r.Assume("'another session' for the swap alteration = the next run of the same variant and parameter pair (same keys and session id, other secrets and randomness)")
	r.Set("evaluations", int(atomic.LoadInt64(&c.evals)))
	r.Set("distinct_nontrivial", r.NDistinct("cases_nontrivial"))
	r.Set("rule", "one case = (variant, Alice set, Bob set, a class, b class) honest run, or that plus a wrong public point, or that plus (altered ciphertext, alteration); "+
		"cases are collected as canonical strings in a set; non-trivial = a*b mod q != 0 for honest runs, every wrong-point and tamper case")
}

func indexOf(g []*run, x *run) int {
	for i, y := range g {
		if y == x {
			return i
		}
	}
	return 0
}
