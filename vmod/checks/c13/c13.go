// Package c13: check for property C13 (stub until implemented).
package c13

import "verif/internal/core"

// Implemented reports whether this check is built.
const Implemented = false

func Run(r *core.Run) { r.Cap("not implemented") }
