// Package c15: Feldman VSS (ENUM).
//
// Space enumerated: curves {secp256k1, edwards25519} x all (t,n), 1<=t<n<=5 (thorough n<=6) x secret
// classes x admissible id patterns x ALL non-empty subsets of the dealt shares, plus every single
// alteration (share+-1, id+-1, each commitment + G) and every refused id pattern (an id = 0, q, 2q at
// every position; every pair of ids congruent modulo q; exact duplicates).
//
// Oracle = the clauses of the property statement, evaluated with the independent curve / Lagrange
// arithmetic of verif/internal/ref.
package c15

import (
	"crypto/elliptic"
	"fmt"
	"math/big"
	"runtime"
	"strings"
	"sync/atomic"

	"github.com/bnb-chain/tss-lib/v2/crypto"
	"github.com/bnb-chain/tss-lib/v2/crypto/vss"
	"github.com/bnb-chain/tss-lib/v2/tss"

	"verif/internal/core"
	"verif/internal/ref"
)

// Implemented reports whether this check is built.
const Implemented = true

type curveCtx struct {
	name string
	ec   elliptic.Curve
	rc   *ref.Curve
	q    *big.Int
}

type named struct {
	name string
	v    *big.Int
}

type idPattern struct {
	name string
	ids  func(cv *curveCtx, n int) []*big.Int
}

var evals int64

func ev(r *core.Run, caseKey string) {
	atomic.AddInt64(&evals, 1)
	r.Distinct("cases", caseKey)
}

func bi(i int64) *big.Int { return big.NewInt(i) }

func addI(a *big.Int, d int64) *big.Int { return new(big.Int).Add(a, bi(d)) }

func mulQ(q *big.Int, k int64, d int64) *big.Int {
	return new(big.Int).Add(new(big.Int).Mul(q, bi(k)), bi(d))
}

func generic(label string, nbytes int) *big.Int {
	return new(big.Int).SetBytes(core.Bytes(label, nbytes))
}

func copyInts(in []*big.Int) []*big.Int {
	out := make([]*big.Int, len(in))
	for i, v := range in {
		out[i] = new(big.Int).Set(v)
	}
	return out
}

func strs(in []*big.Int) []string {
	out := make([]string, len(in))
	for i, v := range in {
		if v == nil {
			out[i] = "nil"
		} else {
			out[i] = v.String()
		}
	}
	return out
}

// guard runs f and turns a panic of the code under test into a violation `<key>:panic`.
func guard(r *core.Run, key string, rec interface{}, f func()) (ok bool) {
	defer func() {
		if e := recover(); e != nil {
			r.Violate(key+":panic", fmt.Sprintf("panic in the code under test: %v", e), rec)
			ok = false
		}
	}()
	f()
	return true
}

func patterns() []idPattern {
	return []idPattern{
		{"1..n", func(cv *curveCtx, n int) []*big.Int {
			out := make([]*big.Int, n)
			for i := range out {
				out[i] = bi(int64(i + 1))
			}
			return out
		}},
		{"q+1..q+n", func(cv *curveCtx, n int) []*big.Int {
			out := make([]*big.Int, n)
			for i := range out {
				out[i] = mulQ(cv.q, 1, int64(i+1))
			}
			return out
		}},
		{"generic256", func(cv *curveCtx, n int) []*big.Int {
			out := make([]*big.Int, n)
			for i := range out {
				out[i] = generic(fmt.Sprintf("c15/id/generic256/%d", i), 32)
			}
			return out
		}},
		{"generic512", func(cv *curveCtx, n int) []*big.Int {
			out := make([]*big.Int, n)
			for i := range out {
				out[i] = generic(fmt.Sprintf("c15/id/generic512/%d", i), 64)
			}
			return out
		}},
		{"mixed", func(cv *curveCtx, n int) []*big.Int {
			all := []*big.Int{
				mulQ(cv.q, 1, -1), // q-1
				bi(1),
				mulQ(cv.q, 2, 3),
				generic("c15/id/mixed/3", 32),
				mulQ(cv.q, 1, 2),
				mulQ(cv.q, 3, -5),
			}
			return all[:n]
		}},
	}
}

type instance struct {
	cv     *curveCtx
	t, n   int
	sec    named
	pat    idPattern
	sample bool
}

func (in *instance) tag() string {
	return fmt.Sprintf("%s/t%d/n%d/s=%s/ids=%s", in.cv.name, in.t, in.n, in.sec.name, in.pat.name)
}

func toRef(p *crypto.ECPoint) ref.Point { return ref.Point{X: p.X(), Y: p.Y()} }

// refCommitEval computes sum_k id^k * V_k with the reference arithmetic.
func refCommitEval(cv *curveCtx, vs []ref.Point, id *big.Int) ref.Point {
	acc := cv.rc.Neutral()
	pow := bi(1)
	idm := new(big.Int).Mod(id, cv.q)
	for k := range vs {
		acc = cv.rc.Add(acc, cv.rc.Mul(pow, vs[k]))
		pow = new(big.Int).Mod(new(big.Int).Mul(pow, idm), cv.q)
	}
	return acc
}

func subsetsOfSize(n, k int) [][]int {
	var out [][]int
	for m := 1; m < 1<<uint(n); m++ {
		var s []int
		for i := 0; i < n; i++ {
			if m>>uint(i)&1 == 1 {
				s = append(s, i)
			}
		}
		if len(s) == k {
			out = append(out, s)
		}
	}
	return out
}

func runInstance(r *core.Run, in *instance) {
	cv, t, n := in.cv, in.t, in.n
	q := cv.q
	tag := in.tag()
	kc := func(area, what string) string { // violation key: no concrete numbers
		return fmt.Sprintf("%s/%s/ids=%s/%s", area, what, in.pat.name, cv.name)
	}
	ids := in.pat.ids(cv, n)
	secret := in.sec.v
	baseRec := map[string]interface{}{"curve": cv.name, "t": t, "n": n, "secret": secret.String(),
		"secret_class": in.sec.name, "id_pattern": in.pat.name, "ids": strs(ids), "drbg_label": "c15/create/" + tag}

	var vs vss.Vs
	var shares vss.Shares
	var err error
	ev(r, "create/"+tag)
	secretArg, idsArg := new(big.Int).Set(secret), copyInts(ids)
	if !guard(r, kc("create", "admissible"), baseRec, func() {
		vs, shares, err = vss.Create(cv.ec, t, secretArg, idsArg, core.NewDRBG("c15/create/"+tag))
	}) {
		return
	}
	// the caller's secret and ids are the caller's: Create must leave them as they were
	argChanged := secretArg.Cmp(secret) != 0
	for i := range ids {
		if idsArg[i].Cmp(ids[i]) != 0 {
			argChanged = true
		}
	}
	if argChanged {
		r.Violate(kc("purity", "create-modified-its-arguments"), "Create changed the secret or an id of its caller", baseRec)
	}
	if err != nil {
		r.Violate(kc("create", "admissible-refused"), "Create refused admissible ids: "+err.Error(), baseRec)
		return
	}
	if len(vs) != t+1 || len(shares) != n {
		r.Violate(kc("create", "wrong-sizes"), fmt.Sprintf("Create returned %d commitments and %d shares for t=%d n=%d", len(vs), len(shares), t, n), baseRec)
		return
	}
	for i, sh := range shares {
		if sh == nil || sh.ID == nil || sh.Share == nil || new(big.Int).Mod(new(big.Int).Sub(sh.ID, ids[i]), q).Sign() != 0 {
			r.Violate(kc("create", "share-id-mismatch"), fmt.Sprintf("share %d does not carry id %d of the input", i, i), baseRec)
			return
		}
	}
	rec := func(extra map[string]interface{}) map[string]interface{} {
		m := map[string]interface{}{}
		for k, v := range baseRec {
			m[k] = v
		}
		sv := make([]string, n)
		for i, sh := range shares {
			sv[i] = sh.Share.String()
		}
		m["shares"] = sv
		cm := make([][2]string, len(vs))
		for k, v := range vs {
			cm[k] = [2]string{v.X().String(), v.Y().String()}
		}
		m["commitments"] = cm
		for k, v := range extra {
			m[k] = v
		}
		return m
	}
	if in.sample {
		r.Sample(6, rec(map[string]interface{}{"what": "dealt instance (all clauses evaluated on it)"}))
	}
	// Verify / ReConstruct read the dealt shares and commitments: whatever is evaluated below must leave them
	// as they are now
	{
		var snap []string
		for _, sh := range shares {
			snap = append(snap, sh.ID.String(), sh.Share.String(), fmt.Sprint(sh.Threshold))
		}
		for _, v := range vs {
			snap = append(snap, v.X().String(), v.Y().String())
		}
		defer func() {
			var now []string
			for _, sh := range shares {
				now = append(now, sh.ID.String(), sh.Share.String(), fmt.Sprint(sh.Threshold))
			}
			for _, v := range vs {
				now = append(now, v.X().String(), v.Y().String())
			}
			if strings.Join(now, ",") != strings.Join(snap, ",") {
				r.Violate(kc("purity", "verify-or-reconstruct-modified-its-inputs"), "the dealt shares / commitments changed while they were verified and recombined", baseRec)
			}
		}()
	}

	// --- V_0 = secret*G (reference arithmetic); every commitment is a point of the curve ---
	refVs := make([]ref.Point, len(vs))
	for k, v := range vs {
		refVs[k] = toRef(v)
		ev(r, fmt.Sprintf("commit-on-curve/%s/k%d", tag, k))
		if !cv.rc.OnCurve(refVs[k].X, refVs[k].Y) {
			r.Violate(kc("create", "commitment-off-curve"), fmt.Sprintf("commitment V_%d is not a canonical point of the curve", k), rec(nil))
			return
		}
	}
	ev(r, "V0/"+tag)
	if want := cv.rc.BaseMul(new(big.Int).Mod(secret, q)); !cv.rc.Equal(want, refVs[0]) {
		r.Violate(fmt.Sprintf("create/V0-not-secretG/s=%s/%s", in.sec.name, cv.name), "first commitment differs from secret*G (reference curve)", rec(nil))
	}

	// --- each share verifies under its own id, under no other id of the set; reference cross-check ---
	for i := 0; i < n; i++ {
		var okV bool
		ev(r, fmt.Sprintf("verify-own/%s/i%d", tag, i))
		if guard(r, kc("verify", "own-id"), rec(map[string]interface{}{"share_index": i}), func() { okV = shares[i].Verify(cv.ec, t, vs) }) && !okV {
			r.Violate(kc("verify", "own-id-rejected"), fmt.Sprintf("share %d does not verify under its own id", i), rec(map[string]interface{}{"share_index": i}))
		}
		// the same statement evaluated with the reference arithmetic (independent of Verify)
		ev(r, fmt.Sprintf("ref-eval/%s/i%d", tag, i))
		if !cv.rc.Equal(refCommitEval(cv, refVs, shares[i].ID), cv.rc.BaseMul(new(big.Int).Mod(shares[i].Share, q))) {
			r.Violate(kc("poly", "share-not-on-committed-polynomial"), fmt.Sprintf("sum_k id^k V_k != share*G for share %d (reference arithmetic)", i), rec(map[string]interface{}{"share_index": i}))
		}
		for j := 0; j < n; j++ {
			if j == i {
				continue
			}
			forged := &vss.Share{Threshold: t, ID: new(big.Int).Set(ids[j]), Share: new(big.Int).Set(shares[i].Share)}
			var okO bool
			ev(r, fmt.Sprintf("verify-other/%s/i%d/j%d", tag, i, j))
			rc := rec(map[string]interface{}{"share_index": i, "claimed_id_index": j})
			if guard(r, kc("verify", "other-id"), rc, func() { okO = forged.Verify(cv.ec, t, vs) }) && okO {
				r.Violate(kc("verify", "other-id-accepted"), fmt.Sprintf("share %d verifies under the id of share %d", i, j), rc)
			}
		}
	}

	// --- all non-empty subsets: >= t+1 reconstruct exactly the secret, fewer never do ---
	for m := 1; m < 1<<uint(n); m++ {
		var idx []int
		for i := 0; i < n; i++ {
			if m>>uint(i)&1 == 1 {
				idx = append(idx, i)
			}
		}
		for _, order := range []string{"asc", "desc"} {
			if order == "desc" && len(idx) == 1 {
				continue
			}
			sub := make(vss.Shares, 0, len(idx))
			if order == "asc" {
				for _, i := range idx {
					sub = append(sub, shares[i])
				}
			} else {
				for k := len(idx) - 1; k >= 0; k-- {
					sub = append(sub, shares[idx[k]])
				}
			}
			var got *big.Int
			var rerr error
			ev(r, fmt.Sprintf("reconstruct/%s/m%d/%s", tag, m, order))
			rc := rec(map[string]interface{}{"subset": idx, "order": order})
			sizeClass := "size<=t"
			if len(idx) == t+1 {
				sizeClass = "size=t+1"
			} else if len(idx) > t+1 {
				sizeClass = "size>t+1"
			}
			if !guard(r, kc("reconstruct", sizeClass), rc, func() { got, rerr = sub.ReConstruct(cv.ec) }) {
				continue
			}
			if len(idx) >= t+1 {
				if rerr != nil {
					r.Violate(kc("reconstruct", sizeClass+"-error"), "ReConstruct failed on a qualified subset: "+rerr.Error(), rc)
				} else if got == nil || got.Cmp(secret) != 0 {
					rc["got"] = fmt.Sprint(got)
					r.Violate(kc("reconstruct", sizeClass+"-wrong-secret"), "a qualified subset does not reconstruct exactly the secret", rc)
				}
				// reference reconstruction (Lagrange at 0) must agree as well
				xs := make([]*big.Int, len(idx))
				for k, i := range idx {
					xs[k] = shares[i].ID
				}
				lam := ref.LagrangeAt(q, xs, bi(0))
				if lam == nil {
					r.Violate(kc("poly", "ids-not-distinct-mod-q"), "reference Lagrange interpolation impossible: dealt ids collide modulo q", rc)
				} else {
					acc := new(big.Int)
					for k, i := range idx {
						acc.Add(acc, new(big.Int).Mul(lam[k], shares[i].Share))
					}
					if acc.Mod(acc, q).Cmp(new(big.Int).Mod(secret, q)) != 0 {
						r.Violate(kc("poly", "reference-reconstruction-wrong"), "reference Lagrange interpolation of a qualified subset does not give the secret", rc)
					}
				}
			} else {
				r.Distinct("subthreshold-outcomes", fmt.Sprintf("err=%v", rerr != nil))
				if rerr == nil && got != nil && new(big.Int).Mod(got, q).Cmp(new(big.Int).Mod(secret, q)) == 0 {
					r.Violate(kc("reconstruct", "subthreshold-gives-secret"), fmt.Sprintf("%d <= t shares reconstruct the secret", len(idx)), rc)
				}
			}
		}
	}

	// --- one polynomial of degree t: any t+1 shares interpolate every other share ---
	for _, s := range subsetsOfSize(n, t+1) {
		xs := make([]*big.Int, len(s))
		inS := map[int]bool{}
		for k, i := range s {
			xs[k] = shares[i].ID
			inS[i] = true
		}
		for j := 0; j < n; j++ {
			if inS[j] {
				continue
			}
			ev(r, fmt.Sprintf("lagrange/%s/S%v/at%d", tag, s, j))
			lam := ref.LagrangeAt(q, xs, shares[j].ID)
			rc := rec(map[string]interface{}{"subset": s, "at_index": j})
			if lam == nil {
				r.Violate(kc("poly", "ids-not-distinct-mod-q"), "dealt ids collide modulo q", rc)
				continue
			}
			acc := new(big.Int)
			for k, i := range s {
				acc.Add(acc, new(big.Int).Mul(lam[k], shares[i].Share))
			}
			if acc.Mod(acc, q).Cmp(new(big.Int).Mod(shares[j].Share, q)) != 0 {
				r.Violate(kc("poly", "lagrange-inconsistent"), "t+1 shares do not interpolate another dealt share: shares are not on one polynomial of degree t", rc)
			}
		}
	}
	// degree exactly bounded by t is also witnessed in the exponent: V_k are the coefficients (ref-eval above).

	// --- single alterations must fail verification ---
	for i := 0; i < n; i++ {
		type alt struct {
			name  string
			share *vss.Share
		}
		var alts []alt
		for _, d := range []int64{1, -1} {
			s2 := addI(shares[i].Share, d)
			if new(big.Int).Mod(s2, q).Sign() == 0 {
				r.Count("alterations_skipped_identity", 1) // share == 0 mod q: identity point, C06's business
				continue
			}
			alts = append(alts, alt{fmt.Sprintf("share%+d", d), &vss.Share{Threshold: t, ID: new(big.Int).Set(shares[i].ID), Share: s2}})
		}
		for _, d := range []int64{1, -1} {
			id2 := addI(shares[i].ID, d)
			if new(big.Int).Mod(id2, q).Sign() == 0 {
				r.Count("alterations_skipped_identity", 1) // id == 0 mod q makes Verify multiply by 0 (identity), C06's business
				continue
			}
			alts = append(alts, alt{fmt.Sprintf("id%+d", d), &vss.Share{Threshold: t, ID: id2, Share: new(big.Int).Set(shares[i].Share)}})
		}
		// structured alterations: the negated share / id (the share point gets mirrored: same x on secp256k1, same
		// y on edwards25519), the doubled ones
		{
			sm := new(big.Int).Mod(shares[i].Share, q)
			if neg := new(big.Int).Sub(q, sm); neg.Sign() != 0 && neg.Cmp(sm) != 0 && neg.Cmp(q) != 0 {
				alts = append(alts, alt{"share-negated", &vss.Share{Threshold: t, ID: new(big.Int).Set(shares[i].ID), Share: neg}})
			}
			if dbl := new(big.Int).Mod(new(big.Int).Lsh(sm, 1), q); dbl.Sign() != 0 && dbl.Cmp(sm) != 0 {
				alts = append(alts, alt{"share-doubled", &vss.Share{Threshold: t, ID: new(big.Int).Set(shares[i].ID), Share: dbl}})
			}
			im := new(big.Int).Mod(shares[i].ID, q)
			if neg := new(big.Int).Sub(q, im); neg.Sign() != 0 && neg.Cmp(im) != 0 && neg.Cmp(q) != 0 {
				alts = append(alts, alt{"id-negated", &vss.Share{Threshold: t, ID: neg, Share: new(big.Int).Set(shares[i].Share)}})
			}
		}
		for _, a := range alts {
			var okA bool
			ev(r, fmt.Sprintf("alter/%s/i%d/%s", tag, i, a.name))
			rc := rec(map[string]interface{}{"share_index": i, "alteration": a.name, "altered_id": a.share.ID.String(), "altered_share": a.share.Share.String()})
			if guard(r, kc("alter", a.name), rc, func() { okA = a.share.Verify(cv.ec, t, vs) }) && okA {
				r.Violate(kc("alter", a.name+"-accepted"), "altered share/id passes Verify", rc)
			}
		}
		// commitment alterations: V_k + G on both curves; on edwards25519 also V_k + T for each of the 7 points T
		// of small order (a different, valid on-curve commitment vector). Expected verdict = the defining
		// equation share*G == sum id^k V'_k evaluated with the reference arithmetic: V_k + T is equivalent for
		// THIS share exactly when id^k * T is the neutral element (e.g. an even id and the point of order 2).
		type delta struct {
			name string
			p    ref.Point
		}
		deltas := []delta{{"G", cv.rc.G()}}
		if cv.name == "ed25519" {
			for ti, T := range cv.rc.TorsionEd() {
				if !cv.rc.IsNeutral(T) {
					deltas = append(deltas, delta{fmt.Sprintf("T%d", ti), T})
				}
			}
		}
		for _, d := range deltas {
			for k := 0; k <= t; k++ {
				np := cv.rc.Add(refVs[k], d.p)
				if cv.rc.IsNeutral(np) {
					r.Count("alterations_skipped_identity", 1)
					continue
				}
				pt, perr := crypto.NewECPoint(cv.ec, np.X, np.Y)
				if perr != nil {
					r.Violate(kc("alter", "cannot-build-point"), "NewECPoint refused V_k+"+d.name+" computed by the reference: "+perr.Error(), rec(map[string]interface{}{"k": k}))
					continue
				}
				vs2 := make(vss.Vs, len(vs))
				refVs2 := make([]ref.Point, len(vs))
				for kk := range vs {
					x, y := vs[kk].X(), vs[kk].Y()
					vs2[kk] = crypto.NewECPointNoCurveCheck(cv.ec, x, y)
					refVs2[kk] = refVs[kk]
				}
				vs2[k] = pt
				refVs2[k] = np
				want := cv.rc.Equal(refCommitEval(cv, refVs2, shares[i].ID), cv.rc.BaseMul(new(big.Int).Mod(shares[i].Share, cv.q)))
				if want {
					r.Count("alterations_equivalent_for_this_id", 1) // the small-order component is annihilated by id^k
				}
				var okA bool
				ev(r, fmt.Sprintf("alter/%s/i%d/V%d+%s", tag, i, k, d.name))
				rc := rec(map[string]interface{}{"share_index": i, "alteration": fmt.Sprintf("V_%d+%s", k, d.name), "reference_equation_holds": want})
				cls := "commitment+G"
				if d.name != "G" {
					cls = "commitment+small-order-point"
				}
				if guard(r, kc("alter", cls), rc, func() { okA = shares[i].Verify(cv.ec, t, vs2) }) && okA != want {
					if okA {
						r.Violate(kc("alter", cls+"-accepted"), fmt.Sprintf("share verifies against commitments with V_%d replaced by V_%d+%s", k, k, d.name), rc)
					} else {
						r.Violate(kc("alter", cls+"-equivalent-refused"), fmt.Sprintf("share does not verify although the equation holds with V_%d+%s", k, d.name), rc)
					}
				}
			}
		}
	}
}

// ---- refused id patterns ----

type refusal struct {
	cv   *curveCtx
	t, n int
	sec  named
	name string // value class (no numbers)
	pos  string
	ids  []*big.Int
}

func refusals(cv *curveCtx, t, n int, sec named) []refusal {
	var out []refusal
	pats := patterns()
	bases := []idPattern{pats[0], pats[1], pats[2]}
	for _, b := range bases {
		base := b.ids(cv, n)
		for p := 0; p < n; p++ {
			for _, z := range []named{{"id=0", bi(0)}, {"id=q", mulQ(cv.q, 1, 0)}, {"id=2q", mulQ(cv.q, 2, 0)}} {
				ids := copyInts(base)
				ids[p] = z.v
				out = append(out, refusal{cv, t, n, sec, z.name + "/base=" + b.name, fmt.Sprintf("p%d", p), ids})
			}
		}
		for i := 0; i < n; i++ {
			for j := 0; j < n; j++ {
				if i == j {
					continue
				}
				for _, d := range []named{{"ids-equal", bi(0)}, {"ids-differ-by-q", mulQ(cv.q, 1, 0)}, {"ids-differ-by-2q", mulQ(cv.q, 2, 0)}, {"ids-differ-by-minus-q", mulQ(cv.q, -1, 0)}} {
					if d.v.Sign() == 0 && j < i {
						continue // exact duplicate is symmetric
					}
					v := new(big.Int).Add(base[i], d.v)
					if v.Sign() < 0 {
						continue // keep ids non-negative
					}
					ids := copyInts(base)
					ids[j] = v
					out = append(out, refusal{cv, t, n, sec, d.name + "/base=" + b.name, fmt.Sprintf("i%d-j%d", i, j), ids})
				}
				// the reduced alias of a large id
				if base[i].Cmp(cv.q) >= 0 {
					ids := copyInts(base)
					ids[j] = new(big.Int).Mod(base[i], cv.q)
					out = append(out, refusal{cv, t, n, sec, "id-and-its-residue/base=" + b.name, fmt.Sprintf("i%d-j%d", i, j), ids})
				}
			}
		}
	}
	return out
}

func runRefusal(r *core.Run, rf *refusal) {
	cv := rf.cv
	tag := fmt.Sprintf("%s/t%d/n%d/s=%s/%s/%s", cv.name, rf.t, rf.n, rf.sec.name, rf.name, rf.pos)
	rec := map[string]interface{}{"curve": cv.name, "t": rf.t, "n": rf.n, "secret": rf.sec.v.String(), "ids": strs(rf.ids), "pattern": rf.name, "position": rf.pos}
	var err error
	var vs vss.Vs
	var shares vss.Shares
	ev(r, "refuse-create/"+tag)
	if guard(r, fmt.Sprintf("refuse/create/%s/%s", rf.name, cv.name), rec, func() {
		vs, shares, err = vss.Create(cv.ec, rf.t, new(big.Int).Set(rf.sec.v), copyInts(rf.ids), core.NewDRBG("c15/refuse/"+tag))
	}) && err == nil {
		rec2 := map[string]interface{}{}
		for k, v := range rec {
			rec2[k] = v
		}
		rec2["n_commitments"], rec2["n_shares"] = len(vs), len(shares)
		r.Violate(fmt.Sprintf("refuse/create-accepted/%s/%s", rf.name, cv.name), "Create dealt shares for inadmissible ids (0 modulo q, or two ids equal modulo q)", rec2)
	}
	ev(r, "refuse-checkindexes/"+tag)
	var cerr error
	if guard(r, fmt.Sprintf("refuse/checkindexes/%s/%s", rf.name, cv.name), rec, func() { _, cerr = vss.CheckIndexes(cv.ec, copyInts(rf.ids)) }) && cerr == nil {
		r.Violate(fmt.Sprintf("refuse/checkindexes-accepted/%s/%s", rf.name, cv.name), "CheckIndexes accepted inadmissible ids", rec)
	}
}

func Run(r *core.Run) {
	maxN := 5
	if r.Tier == "thorough" {
		maxN = 6
	}
	curves := []*curveCtx{
		{"secp256k1", tss.S256(), ref.Secp256k1, nil},
		{"ed25519", tss.Edwards(), ref.Ed25519, nil},
	}
	for _, cv := range curves {
		cv.q = new(big.Int).Set(cv.rc.N)
		if cv.ec.Params().N.Cmp(cv.q) != 0 {
			r.Violate("setup/group-order-differs/"+cv.name, "library curve order differs from the reference curve order", nil)
			return
		}
	}
	var insts []*instance
	var refs []refusal
	for _, cv := range curves {
		secs := []named{
			{"1", bi(1)},
			{"q-1", mulQ(cv.q, 1, -1)},
			{"generic", new(big.Int).Mod(generic("c15/secret/generic/"+cv.name, 40), cv.q)},
		}
		if r.Tier == "thorough" {
			secs = append(secs,
				named{"2", bi(2)},
				named{"q-2", mulQ(cv.q, 1, -2)},
				named{"generic2", new(big.Int).Mod(generic("c15/secret/generic2/"+cv.name, 40), cv.q)})
		}
		for n := 2; n <= maxN; n++ {
			for t := 1; t < n; t++ {
				for _, s := range secs {
					for pi, p := range patterns() {
						insts = append(insts, &instance{cv: cv, t: t, n: n, sec: s, pat: p,
							sample: s.name == "generic" && n == 3 && t == 1 && pi < 3})
					}
					refs = append(refs, refusals(cv, t, n, s)...)
				}
			}
		}
	}
	workers := runtime.NumCPU()
	// largest instances first for load balance
	order := make([]int, 0, len(insts))
	for n := maxN; n >= 2; n-- {
		for i, in := range insts {
			if in.n == n {
				order = append(order, i)
			}
		}
	}
	core.ParallelFor(len(order), workers, func(i int) { runInstance(r, insts[order[i]]) })
	core.ParallelFor(len(refs), workers, func(i int) { runRefusal(r, &refs[i]) })
	if len(refs) > 0 {
		rf := refs[len(refs)/2]
		r.Sample(8, map[string]interface{}{"what": "refused pattern (Create and CheckIndexes must return an error)", "curve": rf.cv.name, "t": rf.t, "n": rf.n, "pattern": rf.name, "position": rf.pos, "ids": strs(rf.ids)})
	}

	r.Set("instances", len(insts))
	r.Set("refusal_cases", len(refs))
	r.Set("max_n", maxN)
	r.Set("evaluations", int(atomic.LoadInt64(&evals)))
	r.Set("distinct_nontrivial", r.NDistinct("cases"))
	r.Set("rule", "cases = curves{secp256k1,ed25519} x (t,n) 1<=t<n<=max_n x secret classes x id patterns{1..n,q+1..q+n,generic256,generic512,mixed(q-1,1,2q+3,..)}: "+
		"one case per oracle evaluation (own-id verify per share; other-id verify per ordered pair; reference evaluation of the commitments per share; "+
		"ReConstruct per non-empty subset in ascending and descending order; reference Lagrange consistency per (t+1)-subset and outside share; "+
		"alteration share+-1, id+-1, V_k+G and (edwards25519) V_k+T for each small-order T, per share and k) plus refusal cases (id in {0,q,2q} at each position; ids[j]=ids[i]+{0,q,2q,-q} and residue aliases for every pair) "+
		"for Create and CheckIndexes. Distinct = distinct canonical case strings (configuration + clause + indices); all are non-trivial (each executes library code on a different input).")
	r.Assume("secrets are in [1,q-1] (0 would make V_0 the identity, which ECPoint cannot represent on secp256k1; C06 owns that)")
	r.Assume("a commitment altered by a point of small order (edwards25519) must fail exactly when the defining equation share*G == sum id^k V_k fails under the reference arithmetic; where id^k annihilates the small-order component the altered vector is equivalent for that share (counted in alterations_equivalent_for_this_id)")
	r.Assume("alterations that are equivalent modulo q (share+q, id+q) are not required to fail; alterations landing on 0 mod q are skipped and counted in alterations_skipped_identity")
	r.Assume("fewer than t+1 shares: ReConstruct may return an error or a value different from the secret (it returns a different value without error for exactly t shares)")
}
