// Package c15: check for property C15 (stub until implemented).
package c15

import "verif/internal/core"

// Implemented reports whether this check is built.
const Implemented = false

func Run(r *core.Run) { r.Cap("not implemented") }
