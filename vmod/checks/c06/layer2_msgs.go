//go:build !c06stub

package c06

// Layer 2 targets for the message layer: every `Unmarshal*` method of every message type of the six
// protocols. A decoder only has to be safe on messages that pass ValidateBasic (tss.BaseUpdate /
// ValidateMessage refuse the others before any round code runs), so each case first calls
// ValidateBasic and calls the decoders only when it returns true - exactly as the protocol does.

import (
	"crypto/elliptic"
	"fmt"
	"math/big"
	"reflect"
	"sort"
	"strings"

	"github.com/bnb-chain/tss-lib/v2/crypto"
	cmts "github.com/bnb-chain/tss-lib/v2/crypto/commitments"
	"github.com/bnb-chain/tss-lib/v2/crypto/dlnproof"
	"github.com/bnb-chain/tss-lib/v2/crypto/modproof"
	"github.com/bnb-chain/tss-lib/v2/crypto/vss"
	eckg "github.com/bnb-chain/tss-lib/v2/ecdsa/keygen"
	ecrs "github.com/bnb-chain/tss-lib/v2/ecdsa/resharing"
	ecsg "github.com/bnb-chain/tss-lib/v2/ecdsa/signing"
	edkg "github.com/bnb-chain/tss-lib/v2/eddsa/keygen"
	edrs "github.com/bnb-chain/tss-lib/v2/eddsa/resharing"
	edsg "github.com/bnb-chain/tss-lib/v2/eddsa/signing"
	"github.com/bnb-chain/tss-lib/v2/tss"

	"verif/checks/c10"
	"verif/internal/core"
)

type l2MsgSpec struct {
	name  string                  // "<protocol package>.<Type>"
	zero  interface{}             // pointer to a zero value (field discovery by reflection)
	ec    elliptic.Curve          // the curve the protocol passes to decoders
	lens  map[string]int          // nominal length of each list field
	elems map[string][]int        // element indices to replace (default: first and last)
	pfx   map[string]map[int]bool // elements that are length prefixes
	mods  map[string]string       // which modulus "N" means for a field
	build func() interface{}      // honest content (worker side)
}

type l2Validator interface{ ValidateBasic() bool }

func l2MsgFields(zero interface{}) (bytesF, listF []string) {
	t := reflect.TypeOf(zero).Elem()
	for i := 0; i < t.NumField(); i++ {
		f := t.Field(i)
		if !f.IsExported() {
			continue
		}
		switch {
		case f.Type == reflect.TypeOf([]byte(nil)):
			bytesF = append(bytesF, f.Name)
		case f.Type == reflect.TypeOf([][]byte(nil)):
			listF = append(listF, f.Name)
		}
	}
	return
}

func l2MsgTarget(s *l2MsgSpec) *l2Target {
	bytesF, listF := l2MsgFields(s.zero)
	comps := []*l2Comp{}
	for _, f := range bytesF {
		comps = append(comps, cW(f, s.mods[f]))
	}
	for _, f := range listF {
		comps = append(comps, cL(f, kBytesL))
		n := s.lens[f]
		idx := s.elems[f]
		if idx == nil && n > 0 {
			idx = []int{0}
			if n > 1 {
				idx = append(idx, n-1)
			}
		}
		for _, i := range idx {
			nm := fmt.Sprintf("%s[%d]", f, i)
			if s.pfx[f][i] {
				comps = append(comps, cWireLen(nm).of(f))
			} else {
				comps = append(comps, cW(nm, s.mods[f]).of(f))
			}
		}
	}
	// the Unmarshal* methods, in name order
	var methods []string
	mt := reflect.TypeOf(s.zero)
	for i := 0; i < mt.NumMethod(); i++ {
		if strings.HasPrefix(mt.Method(i).Name, "Unmarshal") {
			methods = append(methods, mt.Method(i).Name)
		}
	}
	sort.Strings(methods)
	curveT := reflect.TypeOf((*elliptic.Curve)(nil)).Elem()
	return &l2Target{name: s.name + ".{ValidateBasic," + strings.Join(methods, ",") + "}", key: s.name, comps: comps,
		setup: func() *l2Inst {
			honest := s.build()
			hv := reflect.ValueOf(honest).Elem()
			if !honest.(l2Validator).ValidateBasic() {
				panic("c06l2 setup: honest " + s.name + " does not pass ValidateBasic")
			}
			for _, f := range listF {
				if got := hv.FieldByName(f).Len(); got != s.lens[f] {
					panic(fmt.Sprintf("c06l2 setup: %s.%s has %d parts, table says %d", s.name, f, got, s.lens[f]))
				}
			}
			ctx := l2CtxFor(s.ec)
			return &l2Inst{ctx: ctx, prepare: func(m *l2Mut) func() string {
				msg := reflect.New(hv.Type())
				for _, f := range bytesF {
					msg.Elem().FieldByName(f).SetBytes(m.wire(f, hv.FieldByName(f).Bytes()))
				}
				for _, f := range listF {
					out := m.bytesList(f, hv.FieldByName(f).Interface().([][]byte))
					l2ConsumeChildren(m, f)
					msg.Elem().FieldByName(f).Set(reflect.ValueOf(out))
				}
				return func() string {
					if !msg.Interface().(l2Validator).ValidateBasic() {
						return "refused-by-ValidateBasic"
					}
					res := []string{}
					for _, name := range methods {
						mv := msg.MethodByName(name)
						var args []reflect.Value
						if mv.Type().NumIn() == 1 && mv.Type().In(0) == curveT {
							args = []reflect.Value{reflect.ValueOf(&s.ec).Elem()}
						} else if mv.Type().NumIn() != 0 {
							panic("c06l2: unexpected signature of " + s.name + "." + name)
						}
						outs := mv.Call(args)
						r := "ok"
						if n := len(outs); n > 0 {
							if e, isErr := outs[n-1].Interface().(error); isErr && e != nil {
								r = "err"
							}
						}
						res = append(res, r)
					}
					return "valid:" + strings.Join(res, ",")
				}
			}}
		}}
}

// ---------------------------------------------------------------- honest messages

func l2Pid(i int) *tss.PartyID {
	return tss.NewPartyID(fmt.Sprint(i), fmt.Sprintf("P[%d]", i), big.NewInt(int64(i+1)))
}

func l2Commit(label string, secrets ...*big.Int) *cmts.HashCommitDecommit {
	return cmts.NewHashCommitmentWithRandomness(new(big.Int).SetBytes(core.Bytes("c06l2/msg/r/"+label, 32)), secrets...)
}

func l2DlnFieldSpec() (map[int]bool, []int) {
	n := dlnproof.Iterations
	return map[int]bool{0: true, n + 1: true}, []int{0, 1, n + 1, 2*n + 1}
}

func l2MessageTargets() []*l2Target {
	s256, ed := tss.S256(), tss.Edwards()
	dlnPfx, dlnIdx := l2DlnFieldSpec()
	dlnLen := 2 + 2*dlnproof.Iterations
	from, to := l2Pid(0), l2Pid(1)
	q := s256.Params().N
	g := func(s string) *big.Int { return c10.Generic("c06l2/msg/"+s, q) }

	dlnPair := func() (*dlnproof.Proof, *dlnproof.Proof) {
		p := l2P()[0]
		h1, h2, x := c10.DLNStatement(p, 0)
		a := c10.BuildDLN(p, h1, h2, x, "c06l2/msg/dln1")
		h1, h2, x = c10.DLNStatement(p, 1)
		b := c10.BuildDLN(p, h1, h2, x, "c06l2/msg/dln2")
		return a, b
	}
	modPf := func() *modproof.ProofMod {
		pf, err := c10.BuildMod(l2P()[0], l2Session(), false, "c06l2/msg/mod")
		l2Must(err)
		return pf
	}
	vsFlat := func(ec elliptic.Curve) []*big.Int {
		vs, _ := l2VssBase(ec, l2CurveName(ec))
		flat, err := crypto.FlattenECPoints(vs)
		l2Must(err)
		return flat
	}
	share := func(ec elliptic.Curve) *vss.Share {
		_, sh := l2VssBase(ec, l2CurveName(ec))
		return sh[0]
	}
	schnorrOn := func(ec elliptic.Curve, label string) (*crypto.ECPoint, interface{}) {
		pf, X, err := c10.BuildSchnorr(ec, l2Session(), c10.Generic("c06l2/msg/x/"+label, ec.Params().N), "c06l2/msg/schnorr/"+label)
		l2Must(err)
		return X, pf
	}
	_ = schnorrOn

	specs := []*l2MsgSpec{
		// ---- ECDSA keygen
		{name: "ecdsa/keygen.KGRound1Message", zero: &eckg.KGRound1Message{}, ec: s256,
			lens: map[string]int{"Dlnproof_1": dlnLen, "Dlnproof_2": dlnLen}, elems: map[string][]int{"Dlnproof_1": dlnIdx, "Dlnproof_2": dlnIdx},
			pfx: map[string]map[int]bool{"Dlnproof_1": dlnPfx, "Dlnproof_2": dlnPfx}, mods: map[string]string{"NTilde": "NTA", "H1": "NTA", "H2": "NTA", "Dlnproof_1": "NTA", "Dlnproof_2": "NTA"},
			build: func() interface{} {
				p := l2P()[0]
				d1, d2 := dlnPair()
				msg, err := eckg.NewKGRound1Message(from, l2Commit("kg1", g("a")).C, p.PK, p.NTilde, p.H1, p.H2, d1, d2)
				l2Must(err)
				return msg.Content()
			}},
		{name: "ecdsa/keygen.KGRound2Message1", zero: &eckg.KGRound2Message1{}, ec: s256, lens: map[string]int{"FacProof": 11}, mods: map[string]string{"FacProof": "NT"},
			build: func() interface{} {
				ps := l2P()
				pf, err := c10.BuildFac(ps[0], ps[1], s256, l2Session(), "c06l2/msg/fac")
				l2Must(err)
				return eckg.NewKGRound2Message1(to, from, share(s256), pf).Content()
			}},
		{name: "ecdsa/keygen.KGRound2Message2", zero: &eckg.KGRound2Message2{}, ec: s256, lens: map[string]int{"DeCommitment": 7, "ModProof": modproof.ProofModBytesParts},
			build: func() interface{} {
				return eckg.NewKGRound2Message2(from, l2Commit("kg2", vsFlat(s256)...).D, modPf()).Content()
			}},
		{name: "ecdsa/keygen.KGRound3Message", zero: &eckg.KGRound3Message{}, ec: s256, lens: map[string]int{"PaillierProof": 13},
			build: func() interface{} {
				p := l2P()[0]
				return eckg.NewKGRound3Message(from, p.SK.Proof(p.Key, p.Pub)).Content()
			}},
		// ---- ECDSA signing
		{name: "ecdsa/signing.SignRound1Message1", zero: &ecsg.SignRound1Message1{}, ec: s256, lens: map[string]int{"RangeProofAlice": 6}, mods: map[string]string{"RangeProofAlice": "NT"},
			build: func() interface{} {
				rc := l2RangeBase()
				return ecsg.NewSignRound1Message1(to, from, rc.C, rc.Pf).Content()
			}},
		{name: "ecdsa/signing.SignRound1Message2", zero: &ecsg.SignRound1Message2{}, ec: s256,
			build: func() interface{} { return ecsg.NewSignRound1Message2(from, l2Commit("sg1", g("a")).C).Content() }},
		{name: "ecdsa/signing.SignRound2Message", zero: &ecsg.SignRound2Message{}, ec: s256, lens: map[string]int{"ProofBob": 10, "ProofBobWc": 12},
			elems: map[string][]int{"ProofBob": {0, 6, 9}, "ProofBobWc": {0, 6, 10, 11}}, mods: map[string]string{"ProofBob": "NT", "ProofBobWc": "NT"},
			build: func() interface{} {
				b1, b2 := l2BobBase(1, false), l2BobBase(1, true)
				return ecsg.NewSignRound2Message(to, from, b1.C2, b1.Pf, b2.C2, b2.PfWC).Content()
			}},
		{name: "ecdsa/signing.SignRound3Message", zero: &ecsg.SignRound3Message{}, ec: s256,
			build: func() interface{} { return ecsg.NewSignRound3Message(from, g("theta")).Content() }},
		{name: "ecdsa/signing.SignRound4Message", zero: &ecsg.SignRound4Message{}, ec: s256, lens: map[string]int{"DeCommitment": 3},
			build: func() interface{} {
				pf, X, err := c10.BuildSchnorr(s256, l2Session(), g("gamma"), "c06l2/msg/sg4")
				l2Must(err)
				return ecsg.NewSignRound4Message(from, l2Commit("sg4", X.X(), X.Y()).D, pf).Content()
			}},
		{name: "ecdsa/signing.SignRound5Message", zero: &ecsg.SignRound5Message{}, ec: s256,
			build: func() interface{} { return ecsg.NewSignRound5Message(from, l2Commit("sg5", g("a")).C).Content() }},
		{name: "ecdsa/signing.SignRound6Message", zero: &ecsg.SignRound6Message{}, ec: s256, lens: map[string]int{"DeCommitment": 5},
			build: func() interface{} {
				pf, A, err := c10.BuildSchnorr(s256, l2Session(), g("rho"), "c06l2/msg/sg6")
				l2Must(err)
				R := c10.MulG(s256, g("R"))
				vpf, V, err := c10.BuildSchnorrV(s256, l2Session(), R, g("s"), g("l"), "c06l2/msg/sg6v")
				l2Must(err)
				return ecsg.NewSignRound6Message(from, l2Commit("sg6", V.X(), V.Y(), A.X(), A.Y()).D, pf, vpf).Content()
			}},
		{name: "ecdsa/signing.SignRound7Message", zero: &ecsg.SignRound7Message{}, ec: s256,
			build: func() interface{} { return ecsg.NewSignRound7Message(from, l2Commit("sg7", g("a")).C).Content() }},
		{name: "ecdsa/signing.SignRound8Message", zero: &ecsg.SignRound8Message{}, ec: s256, lens: map[string]int{"DeCommitment": 5},
			build: func() interface{} {
				U, T := c10.MulG(s256, g("U")), c10.MulG(s256, g("T"))
				return ecsg.NewSignRound8Message(from, l2Commit("sg8", U.X(), U.Y(), T.X(), T.Y()).D).Content()
			}},
		{name: "ecdsa/signing.SignRound9Message", zero: &ecsg.SignRound9Message{}, ec: s256,
			build: func() interface{} { return ecsg.NewSignRound9Message(from, g("s")).Content() }},
		// ---- ECDSA resharing
		{name: "ecdsa/resharing.DGRound1Message", zero: &ecrs.DGRound1Message{}, ec: s256,
			build: func() interface{} {
				return ecrs.NewDGRound1Message([]*tss.PartyID{to}, from, l2P()[0].Pub, l2Commit("rs1", g("a")).C, l2Session()).Content()
			}},
		{name: "ecdsa/resharing.DGRound2Message1", zero: &ecrs.DGRound2Message1{}, ec: s256,
			lens: map[string]int{"ModProof": modproof.ProofModBytesParts, "Dlnproof_1": dlnLen, "Dlnproof_2": dlnLen}, elems: map[string][]int{"Dlnproof_1": dlnIdx, "Dlnproof_2": dlnIdx},
			pfx: map[string]map[int]bool{"Dlnproof_1": dlnPfx, "Dlnproof_2": dlnPfx}, mods: map[string]string{"NTilde": "NTA", "H1": "NTA", "H2": "NTA", "Dlnproof_1": "NTA", "Dlnproof_2": "NTA"},
			build: func() interface{} {
				p := l2P()[0]
				d1, d2 := dlnPair()
				msg, err := ecrs.NewDGRound2Message1([]*tss.PartyID{to}, from, p.PK, modPf(), p.NTilde, p.H1, p.H2, d1, d2)
				l2Must(err)
				return msg.Content()
			}},
		{name: "ecdsa/resharing.DGRound2Message2", zero: &ecrs.DGRound2Message2{}, ec: s256,
			build: func() interface{} { return ecrs.NewDGRound2Message2([]*tss.PartyID{to}, from).Content() }},
		{name: "ecdsa/resharing.DGRound3Message1", zero: &ecrs.DGRound3Message1{}, ec: s256,
			build: func() interface{} { return ecrs.NewDGRound3Message1(to, from, share(s256)).Content() }},
		{name: "ecdsa/resharing.DGRound3Message2", zero: &ecrs.DGRound3Message2{}, ec: s256, lens: map[string]int{"VDecommitment": 7},
			build: func() interface{} {
				return ecrs.NewDGRound3Message2([]*tss.PartyID{to}, from, l2Commit("rs3", vsFlat(s256)...).D).Content()
			}},
		{name: "ecdsa/resharing.DGRound4Message1", zero: &ecrs.DGRound4Message1{}, ec: s256, lens: map[string]int{"FacProof": 11}, mods: map[string]string{"FacProof": "NT"},
			build: func() interface{} {
				ps := l2P()
				pf, err := c10.BuildFac(ps[0], ps[1], s256, l2Session(), "c06l2/msg/fac")
				l2Must(err)
				return ecrs.NewDGRound4Message1(to, from, pf).Content()
			}},
		{name: "ecdsa/resharing.DGRound4Message2", zero: &ecrs.DGRound4Message2{}, ec: s256,
			build: func() interface{} { return ecrs.NewDGRound4Message2([]*tss.PartyID{to}, from).Content() }},
		// ---- EdDSA keygen
		{name: "eddsa/keygen.KGRound1Message", zero: &edkg.KGRound1Message{}, ec: ed,
			build: func() interface{} { return edkg.NewKGRound1Message(from, l2Commit("edkg1", g("a")).C).Content() }},
		{name: "eddsa/keygen.KGRound2Message1", zero: &edkg.KGRound2Message1{}, ec: ed,
			build: func() interface{} { return edkg.NewKGRound2Message1(to, from, share(ed)).Content() }},
		{name: "eddsa/keygen.KGRound2Message2", zero: &edkg.KGRound2Message2{}, ec: ed, lens: map[string]int{"DeCommitment": 7},
			build: func() interface{} {
				pf, _, err := c10.BuildSchnorr(ed, l2Session(), c10.Generic("c06l2/msg/edx", ed.Params().N), "c06l2/msg/edkg2")
				l2Must(err)
				return edkg.NewKGRound2Message2(from, l2Commit("edkg2", vsFlat(ed)...).D, pf).Content()
			}},
		// ---- EdDSA signing
		{name: "eddsa/signing.SignRound1Message", zero: &edsg.SignRound1Message{}, ec: ed,
			build: func() interface{} { return edsg.NewSignRound1Message(from, l2Commit("edsg1", g("a")).C).Content() }},
		{name: "eddsa/signing.SignRound2Message", zero: &edsg.SignRound2Message{}, ec: ed, lens: map[string]int{"DeCommitment": 3},
			build: func() interface{} {
				pf, X, err := c10.BuildSchnorr(ed, l2Session(), c10.Generic("c06l2/msg/edr", ed.Params().N), "c06l2/msg/edsg2")
				l2Must(err)
				return edsg.NewSignRound2Message(from, l2Commit("edsg2", X.X(), X.Y()).D, pf).Content()
			}},
		{name: "eddsa/signing.SignRound3Message", zero: &edsg.SignRound3Message{}, ec: ed,
			build: func() interface{} {
				return edsg.NewSignRound3Message(from, c10.Generic("c06l2/msg/eds", ed.Params().N)).Content()
			}},
		// ---- EdDSA resharing
		{name: "eddsa/resharing.DGRound1Message", zero: &edrs.DGRound1Message{}, ec: ed,
			build: func() interface{} {
				return edrs.NewDGRound1Message([]*tss.PartyID{to}, from, l2GenericPoint(ed, "msg/edpub"), l2Commit("edrs1", g("a")).C).Content()
			}},
		{name: "eddsa/resharing.DGRound2Message", zero: &edrs.DGRound2Message{}, ec: ed,
			build: func() interface{} { return edrs.NewDGRound2Message([]*tss.PartyID{to}, from).Content() }},
		{name: "eddsa/resharing.DGRound3Message1", zero: &edrs.DGRound3Message1{}, ec: ed,
			build: func() interface{} { return edrs.NewDGRound3Message1(to, from, share(ed)).Content() }},
		{name: "eddsa/resharing.DGRound3Message2", zero: &edrs.DGRound3Message2{}, ec: ed, lens: map[string]int{"VDecommitment": 7},
			build: func() interface{} {
				return edrs.NewDGRound3Message2([]*tss.PartyID{to}, from, l2Commit("edrs3", vsFlat(ed)...).D).Content()
			}},
		{name: "eddsa/resharing.DGRound4Message", zero: &edrs.DGRound4Message{}, ec: ed,
			build: func() interface{} { return edrs.NewDGRound4Message([]*tss.PartyID{to}, from).Content() }},
	}
	out := []*l2Target{}
	for _, s := range specs {
		out = append(out, l2MsgTarget(s))
	}
	return out
}
