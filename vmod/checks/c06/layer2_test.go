//go:build !c06stub

package c06

import (
	"os"
	"testing"

	"verif/internal/core"
)

func TestMain(m *testing.M) {
	if len(os.Args) >= 2 && os.Args[1] == "worker" {
		os.Exit(core.WorkerHook(os.Args[2:]))
	}
	os.Exit(m.Run())
}

func TestLayer2(t *testing.T) {
	tier := os.Getenv("L2TIER")
	if tier == "" {
		tier = "quick"
	}
	r := core.NewRun("C06", tier, "fault_enumeration", "FAULT")
	RunLayer2(r)
	code := r.Finish()
	t.Logf("exit code %d", code)
}

func TestLayer2Table(t *testing.T) {
	for _, tier := range []string{"quick", "thorough"} {
		ts, cs := l2BuildCases(tier)
		per := map[int]int{}
		for _, c := range cs {
			per[c.tgt]++
		}
		t.Logf("%s: %d targets, %d cases", tier, len(ts), len(cs))
		if tier == "quick" {
			for i, x := range ts {
				t.Logf("  %5d %s", per[i], x.name)
			}
		}
	}
}
