//go:build !c06stub

package c06

// Layer 2 of C06: value alphabets (symbolic names), their resolution to concrete numbers / points /
// lists inside the worker, and the value-class function used in violation keys.
//
// The case table is purely symbolic (target, component, value name), so the parent and every worker
// build the identical table without constructing any proof; concrete values are resolved in the
// worker right before the call.

import (
	"crypto/elliptic"
	"encoding/hex"
	"fmt"
	"math/big"
	"strconv"
	"strings"

	"github.com/bnb-chain/tss-lib/v2/crypto"
	"github.com/bnb-chain/tss-lib/v2/tss"

	"verif/internal/core"
	"verif/internal/ref"
)

type l2Kind int

const (
	kNum      l2Kind = iota // a number without special structure (residue, ciphertext, response)
	kScalar                 // a number the code reduces modulo the group order q
	kModulus                // a modulus (N, NTilde, NCap, N0)
	kCoord                  // an affine coordinate (field element)
	kLenPfx                 // a length prefix inside a flattened list
	kPoint                  // *crypto.ECPoint
	kInts                   // []*big.Int, list-level mutation
	kPoints                 // []*crypto.ECPoint, list-level mutation
	kBytesL                 // [][]byte, list-level mutation
	kShares                 // vss.Shares, list-level mutation
	kWire                   // []byte holding a big-endian number (wire field)
	kRaw                    // []byte / string without numeric meaning (session, payload)
	kInt                    // small machine integer (threshold, index, depth)
	kCurve                  // elliptic.Curve argument
	kSignedCo               // coordinate inside a decoder that can yield negative numbers (JSON, Gob)
)

var l2Pow2 = []int{8, 63, 64, 255, 256, 1023, 1024, 2047, 2048, 4095, 4096}

func l2NumVals() []string {
	out := []string{"0", "1", "q-1", "q", "q+1", "2q", "N-1", "N", "N+1", "N^2"}
	for _, k := range l2Pow2 {
		out = append(out, fmt.Sprintf("2^%d", k))
	}
	return append(out, "2xwidth", "flip")
}

// l2ValsOf is the alphabet of a component kind.
func l2ValsOf(k l2Kind) []string {
	switch k {
	case kNum, kScalar:
		return l2NumVals()
	case kModulus:
		out := l2NumVals()
		for _, k := range l2Pow2 {
			// even moduli are refused by parity tests; their odd neighbours exercise the same length boundary
			out = append(out, fmt.Sprintf("2^%d-1", k), fmt.Sprintf("2^%d+1", k))
		}
		return out
	case kCoord:
		return append(l2NumVals(), "p-1", "p", "p+1")
	case kSignedCo:
		return append(l2NumVals(), "p-1", "p", "p+1", "-1")
	case kLenPfx:
		return append(l2NumVals(), "len-1", "len+1", "2^20+1", "2^31", "2^63-1", "2^64-1")
	case kWire:
		return append(l2NumVals(), "empty", "2^63-1", "2^64-1")
	case kPoint:
		return []string{"zero(0,0)", "neutral(0,1)", "torsion1", "torsion2", "torsion3", "torsion4", "torsion5", "torsion6", "torsion7",
			"other-curve", "off-curve", "G", "neg-base"}
	case kInts, kPoints, kBytesL, kShares:
		return []string{"short", "short2", "long", "single", "empty"}
	case kRaw:
		return []string{"empty", "1B-zero", "1kB"}
	case kInt:
		return []string{"i0", "i1", "base-1", "base+1", "i2^31-1"}
	case kCurve:
		return []string{"other"}
	}
	return nil
}

// l2ClassOf maps (component, value name) to the value class used in keys: what matters to the code, not the number.
func l2ClassOf(c *l2Comp, v string) string {
	if c.qClass || c.kind == kScalar {
		if v == "0" || v == "q" || v == "2q" {
			return "q-multiple"
		}
	}
	if c.bitlen {
		// a modulus feeding a rejection sampler that draws ceil(bitlen/256)*256 bits: what matters is whether the
		// bit length is (just below) a multiple of 256. Odd values only (even ones are refused by a parity/sieve test).
		if v == "1" {
			return "bitlen-not-multiple-of-256"
		}
		if strings.HasPrefix(v, "2^") {
			if i := strings.IndexAny(v[2:], "+-"); i >= 0 {
				k, _ := strconv.Atoi(v[2 : 2+i])
				bl := k + 1
				if v[2+i] == '-' {
					bl = k
				}
				if bl%256 != 0 {
					return "bitlen-not-multiple-of-256"
				}
			}
		}
	}
	switch c.kind {
	case kModulus:
		switch {
		case v == "0":
			return "zero"
		case v == "1":
			return "one"
		case v == "q-1" || v == "q+1" || v == "2q" || v == "N-1" || v == "N+1" || v == "flip":
			return "even"
		case strings.HasPrefix(v, "2^") && !strings.ContainsAny(v[2:], "+-"):
			return "even"
		}
	case kPoint:
		switch {
		case strings.HasPrefix(v, "torsion"):
			return "small-order"
		case v == "zero(0,0)" || v == "off-curve" || (v == "neutral(0,1)" && !c.ed):
			return "off-curve" // coordinates that do not satisfy the curve equation (only NewECPointNoCurveCheck builds these)
		}
	}
	return v
}

// l2Ctx carries the numbers a target's alphabet refers to.
type l2Ctx struct {
	ec   elliptic.Curve
	mods map[string]*big.Int // "N" (default), "NT", ...
}

func (c *l2Ctx) q() *big.Int { return c.ec.Params().N }
func (c *l2Ctx) p() *big.Int { return c.ec.Params().P }

func l2OtherCurve(ec elliptic.Curve) elliptic.Curve {
	if tss.SameCurve(ec, tss.Edwards()) {
		return tss.S256()
	}
	return tss.Edwards()
}

func l2IsEd(ec elliptic.Curve) bool { return tss.SameCurve(ec, tss.Edwards()) }

func l2CurveName(ec elliptic.Curve) string {
	if n, ok := tss.GetCurveName(ec); ok {
		return string(n)
	}
	return "?"
}

var (
	l2b0 = big.NewInt(0)
	l2b1 = big.NewInt(1)
)

func l2Wide(label string, base *big.Int) *big.Int {
	n := len(base.Bytes())
	if n == 0 {
		n = 1
	}
	b := core.Bytes("c06l2/2x/"+label, 2*n)
	b[0] |= 0x80
	b[len(b)-1] |= 1
	return new(big.Int).SetBytes(b)
}

// resolveNum turns a symbolic value into a number. base is the honest value of the component.
func (c *l2Ctx) resolveNum(label, mod, v string, base *big.Int) *big.Int {
	n := c.mods[mod]
	if n == nil {
		n = c.mods["N"]
	}
	add := func(x *big.Int, d int64) *big.Int { return new(big.Int).Add(x, big.NewInt(d)) }
	switch v {
	case "0":
		return big.NewInt(0)
	case "1":
		return big.NewInt(1)
	case "-1":
		return big.NewInt(-1)
	case "q-1":
		return add(c.q(), -1)
	case "q":
		return new(big.Int).Set(c.q())
	case "q+1":
		return add(c.q(), 1)
	case "2q":
		return new(big.Int).Lsh(c.q(), 1)
	case "p-1":
		return add(c.p(), -1)
	case "p":
		return new(big.Int).Set(c.p())
	case "p+1":
		return add(c.p(), 1)
	case "N-1":
		return add(n, -1)
	case "N":
		return new(big.Int).Set(n)
	case "N+1":
		return add(n, 1)
	case "N^2":
		return new(big.Int).Mul(n, n)
	case "2xwidth":
		return l2Wide(label, base)
	case "flip":
		return new(big.Int).Xor(base, l2b1)
	case "len-1":
		return add(base, -1)
	case "len+1":
		return add(base, 1)
	}
	if strings.HasPrefix(v, "2^") {
		rest := v[2:]
		d := int64(0)
		if i := strings.IndexAny(rest, "+-"); i >= 0 {
			d, _ = strconv.ParseInt(rest[i:], 10, 64)
			rest = rest[:i]
		}
		k, err := strconv.Atoi(rest)
		if err != nil {
			panic("c06l2: bad value name " + v)
		}
		return add(new(big.Int).Lsh(l2b1, uint(k)), d)
	}
	panic("c06l2: unknown numeric value name " + v)
}

var l2Torsion []ref.Point

// resolvePoint turns a symbolic point value into an ECPoint on (or pretending to be on) ec.
func (c *l2Ctx) resolvePoint(ec elliptic.Curve, v string, base *crypto.ECPoint) *crypto.ECPoint {
	// valid points go through the checking constructor; only the (inadmissible, never executed) off-curve
	// objects would need the unchecked one
	valid := func(cv elliptic.Curve, x, y *big.Int) *crypto.ECPoint {
		p, err := crypto.NewECPoint(cv, x, y)
		if err != nil {
			panic("c06l2: value " + v + " is not a valid point: " + err.Error())
		}
		return p
	}
	switch v {
	case "zero(0,0)":
		return crypto.NewECPointNoCurveCheck(ec, big.NewInt(0), big.NewInt(0))
	case "neutral(0,1)":
		if l2IsEd(ec) {
			return valid(ec, big.NewInt(0), big.NewInt(1))
		}
		return crypto.NewECPointNoCurveCheck(ec, big.NewInt(0), big.NewInt(1))
	case "other-curve":
		o := l2OtherCurve(ec)
		return valid(o, new(big.Int).Set(o.Params().Gx), new(big.Int).Set(o.Params().Gy))
	case "off-curve":
		o := l2OtherCurve(ec)
		return crypto.NewECPointNoCurveCheck(ec, new(big.Int).Mod(o.Params().Gx, ec.Params().P), new(big.Int).Mod(o.Params().Gy, ec.Params().P))
	case "G":
		return valid(ec, new(big.Int).Set(ec.Params().Gx), new(big.Int).Set(ec.Params().Gy))
	case "neg-base":
		p := ec.Params().P
		if l2IsEd(ec) {
			return valid(ec, new(big.Int).Mod(new(big.Int).Neg(base.X()), p), base.Y())
		}
		return valid(ec, base.X(), new(big.Int).Mod(new(big.Int).Neg(base.Y()), p))
	}
	if strings.HasPrefix(v, "torsion") {
		if l2Torsion == nil {
			l2Torsion = ref.Ed25519.TorsionEd()
		}
		k, _ := strconv.Atoi(v[len("torsion"):])
		t := l2Torsion[k]
		return valid(ec, new(big.Int).Set(t.X), new(big.Int).Set(t.Y))
	}
	panic("c06l2: unknown point value name " + v)
}

// l2PointVals: the point alphabet on a given curve (the small-order points only make sense on edwards25519;
// on secp256k1 they would just be further off-curve points).
func l2PointVals(ed bool) []string {
	if ed {
		return l2ValsOf(kPoint)
	}
	return []string{"zero(0,0)", "neutral(0,1)", "other-curve", "off-curve", "G", "neg-base"}
}

// ---------------------------------------------------------------- mutation handle

// l2Mut is handed to a target's prepare function: every component is read through it, and the
// replaced ones come back with their boundary value.
type l2Mut struct {
	tgt  *l2Target
	ctx  *l2Ctx
	repl map[string]string // component name -> symbolic value
	used map[string]bool
	desc map[string]string // component name -> concrete rendering (for the record)
}

func (m *l2Mut) pick(name string) (string, *l2Comp, bool) {
	v, ok := m.repl[name]
	if !ok {
		return "", nil, false
	}
	c := m.tgt.comp(name)
	if c == nil {
		panic("c06l2: component not declared: " + m.tgt.name + "/" + name)
	}
	m.used[name] = true
	return v, c, true
}

func l2Hex(v *big.Int) string {
	if v == nil {
		return "nil"
	}
	s := v.Text(16)
	if len(s) > 1100 {
		s = s[:540] + "..." + s[len(s)-540:] + fmt.Sprintf("(%d bits)", v.BitLen())
	}
	return "0x" + s
}

func (m *l2Mut) num(name string, base *big.Int) *big.Int {
	v, c, ok := m.pick(name)
	if !ok {
		return base
	}
	var out *big.Int
	if x, ok := m.tgt.extraVal(name, v); ok {
		out = x.(*big.Int)
	} else {
		out = m.ctx.resolveNum(m.tgt.name+"/"+name, c.mod, v, base)
	}
	m.desc[name] = l2Hex(out)
	return out
}

func (m *l2Mut) point(name string, ec elliptic.Curve, base *crypto.ECPoint) *crypto.ECPoint {
	v, _, ok := m.pick(name)
	if !ok {
		return base
	}
	out := m.ctx.resolvePoint(ec, v, base)
	m.desc[name] = fmt.Sprintf("curve=%s (%s, %s)", l2CurveName(out.Curve()), l2Hex(out.X()), l2Hex(out.Y()))
	return out
}

func l2ListShape(v string, n int) (keep int, extra int) {
	switch v {
	case "short":
		return n - 1, 0
	case "short2":
		return n - 2, 0
	case "long":
		return n, 1
	case "single":
		return 1, 0
	case "empty":
		return 0, 0
	}
	panic("c06l2: unknown list value " + v)
}

func clampKeep(k, n int) int {
	if k < 0 {
		return 0
	}
	if k > n {
		return n
	}
	return k
}

// ints applies the list-level mutation of `name` and the element-level mutations `name[i]`.
func (m *l2Mut) ints(name string, base []*big.Int) []*big.Int {
	out := append([]*big.Int{}, base...)
	if v, _, ok := m.pick(name); ok {
		keep, extra := l2ListShape(v, len(base))
		out = append([]*big.Int{}, base[:clampKeep(keep, len(base))]...)
		for i := 0; i < extra; i++ {
			out = append(out, new(big.Int).Set(base[len(base)-1]))
		}
		m.desc[name] = fmt.Sprintf("%d elements instead of %d", len(out), len(base))
	}
	for i := range out {
		if i < len(base) {
			out[i] = m.num(fmt.Sprintf("%s[%d]", name, i), out[i])
		}
	}
	return out
}

func (m *l2Mut) points(name string, ec elliptic.Curve, base []*crypto.ECPoint) []*crypto.ECPoint {
	out := append([]*crypto.ECPoint{}, base...)
	if v, _, ok := m.pick(name); ok {
		keep, extra := l2ListShape(v, len(base))
		out = append([]*crypto.ECPoint{}, base[:clampKeep(keep, len(base))]...)
		for i := 0; i < extra; i++ {
			out = append(out, base[len(base)-1])
		}
		m.desc[name] = fmt.Sprintf("%d elements instead of %d", len(out), len(base))
	}
	for i := range out {
		if i < len(base) {
			out[i] = m.point(fmt.Sprintf("%s[%d]", name, i), ec, out[i])
		}
	}
	return out
}

func l2Enc(v *big.Int) []byte {
	b := v.Bytes()
	if len(b) == 0 {
		return []byte{0}
	}
	return b
}

// wire: a []byte field holding a big-endian number; "empty" is the zero-length string (decodes to 0).
func (m *l2Mut) wire(name string, base []byte) []byte {
	v, c, ok := m.pick(name)
	if !ok {
		return base
	}
	var out []byte
	if v == "empty" {
		out = []byte{}
	} else {
		out = l2Enc(m.ctx.resolveNum(m.tgt.name+"/"+name, c.mod, v, new(big.Int).SetBytes(base)))
	}
	m.desc[name] = l2HexBytes(out)
	return out
}

func l2HexBytes(b []byte) string {
	s := hex.EncodeToString(b)
	if len(s) > 1100 {
		s = s[:540] + "..." + s[len(s)-540:]
	}
	return fmt.Sprintf("%d bytes: %s", len(b), s)
}

func (m *l2Mut) bytesList(name string, base [][]byte) [][]byte {
	out := append([][]byte{}, base...)
	if v, _, ok := m.pick(name); ok {
		keep, extra := l2ListShape(v, len(base))
		out = append([][]byte{}, base[:clampKeep(keep, len(base))]...)
		for i := 0; i < extra && len(base) > 0; i++ {
			out = append(out, base[len(base)-1])
		}
		m.desc[name] = fmt.Sprintf("%d parts instead of %d", len(out), len(base))
	}
	for i := range out {
		if i < len(base) {
			nm := fmt.Sprintf("%s[%d]", name, i)
			if _, ok := m.repl[nm]; ok {
				out[i] = m.wire(nm, out[i])
			}
		}
	}
	return out
}

func (m *l2Mut) raw(name string, base []byte) []byte {
	v, _, ok := m.pick(name)
	if !ok {
		return base
	}
	var out []byte
	if x, ok := m.tgt.extraVal(name, v); ok {
		out = x.([]byte)
	} else {
		switch v {
		case "empty":
			out = []byte{}
		case "1B-zero":
			out = []byte{0}
		case "1kB":
			out = core.Bytes("c06l2/raw/1k", 1024)
		default:
			panic("c06l2: unknown raw value " + v)
		}
	}
	m.desc[name] = l2HexBytes(out)
	return out
}

func (m *l2Mut) integer(name string, base int) int {
	v, _, ok := m.pick(name)
	if !ok {
		return base
	}
	var out int
	if x, ok := m.tgt.extraVal(name, v); ok {
		out = x.(int)
	} else {
		switch v {
		case "i0":
			out = 0
		case "i1":
			out = 1
		case "base-1":
			out = base - 1
		case "base+1":
			out = base + 1
		case "i2^31-1":
			out = 1<<31 - 1
		default:
			panic("c06l2: unknown int value " + v)
		}
	}
	m.desc[name] = strconv.Itoa(out)
	return out
}

func (m *l2Mut) curve(name string, base elliptic.Curve) elliptic.Curve {
	_, _, ok := m.pick(name)
	if !ok {
		return base
	}
	o := l2OtherCurve(base)
	m.desc[name] = l2CurveName(o)
	return o
}

// has reports whether a component is replaced (for hand-written components).
func (m *l2Mut) has(name string) (string, bool) {
	v, _, ok := m.pick(name)
	return v, ok
}

func (m *l2Mut) note(name, rendering string) { m.desc[name] = rendering }
