//go:build !c06stub

package c06

// Layer 2 of the C06 check: every exported verifier / decoder of the library called directly with
// exactly one (and, for the small-arity targets, two) argument or proof component replaced by a
// boundary value. The oracle is the outcome class: the call must RETURN (true/false/error are all
// fine) - never panic (in the caller's goroutine or in a goroutine the library started), never
// hang, never run out of memory.
//
// Every call runs in a worker subprocess (`<bin> worker c06l2 <first> <last>`, under `ulimit -v 4 GiB`):
// a panic in a library goroutine cannot be recovered and kills the process, which the parent observes
// as "process died before finishing case k". Panics in the calling goroutine are recovered inside the
// worker (the worker keeps going) and reported with their stack.

import (
	"bufio"
	"encoding/json"
	"fmt"
	"os"
	"os/exec"
	"runtime"
	"runtime/debug"
	"sort"
	"strconv"
	"strings"
	"sync"
	"syscall"
	"time"

	"verif/internal/core"
)

const (
	l2HookName     = "c06l2"
	l2MemLimitKiB  = 4194304 // ulimit -v: 4 GiB
	l2HardFloor    = 120 * time.Second
	l2HardFactor   = 60
	l2SoftFloor    = 6 * time.Second
	l2SoftFactor   = 20
	l2ChunkMax     = 300
	l2ChunkHeavy   = 24
	l2ChunkModulus = 6
	l2SlowParallel = 32
)

// ---------------------------------------------------------------- targets and cases

type l2Comp struct {
	name   string
	kind   l2Kind
	mod    string   // which modulus "N-1, N, N+1, N^2" refer to ("" = "N")
	vals   []string // overrides the kind's alphabet
	extra  []string // additional, target-specific value names (resolved by the instance)
	parent string   // list component this element belongs to (no pairs with the parent)
	noPair bool
	inadmQ bool   // scalars that are 0 mod q are outside the property's domain for this argument (direct curve arithmetic)
	inadm  string // the whole component is outside the domain (reason), e.g. the prover's own parameters
	bitlen bool   // modulus whose bit length drives a rejection sampler: class by bit length
	qClass bool   // the code reduces this number modulo q somewhere: 0, q, 2q are one class
	ed     bool   // point component on edwards25519 (where (0,1) is the neutral element, not an off-curve pair)
}

func (c *l2Comp) values() []string {
	v := c.vals
	if v == nil {
		v = l2ValsOf(c.kind)
	}
	return append(append([]string{}, v...), c.extra...)
}

// l2Inst is a target with its honest baseline built (worker side only).
type l2Inst struct {
	ctx     *l2Ctx
	prepare func(m *l2Mut) func() string // resolves the arguments, returns the call
	extra   func(comp, val string) (interface{}, bool)
	expect  string // outcome of the honest call (checked once: a wrong baseline is an infrastructure error)
}

type l2Target struct {
	name  string // unique, e.g. "schnorr.ZKProof.Verify[secp256k1]"
	key   string // the <package>.<Func> part of violation keys
	comps []*l2Comp
	pairs string // "" none | "thorough" | "always"
	inadm string // the whole target is outside the property's domain (reason): enumerated, counted, not executed
	heavy bool   // scheduling hint only: works on 2048-bit moduli (may meet the long watchdog), run early
	setup func() *l2Inst

	once   sync.Once
	inst   *l2Inst
	byName map[string]*l2Comp
}

func (t *l2Target) comp(name string) *l2Comp {
	if t.byName == nil {
		t.byName = map[string]*l2Comp{}
		for _, c := range t.comps {
			t.byName[c.name] = c
		}
	}
	return t.byName[name]
}

func (t *l2Target) extraVal(comp, val string) (interface{}, bool) {
	if t.inst == nil || t.inst.extra == nil {
		return nil, false
	}
	return t.inst.extra(comp, val)
}

type l2Case struct {
	tgt   int
	repl  [][2]string // (component, value name), one or two entries; empty = the honest baseline
	inadm string      // non-empty: outside the domain of the property (reason); counted, not executed
}

// l2Inadmissible: the property speaks about verifiers and decoders given arbitrary non-nil numbers and (valid)
// points. Outside that domain (decision of the check's owner, see the evidence field l2_inadmissible):
// pure helpers and a party's own reconstruction routine; direct curve arithmetic with a scalar that is 0 mod q
// (the identity is not representable by design - what matters is that no verifier/decoder gets there);
// ECPoint objects that are not on their curve (only the explicitly unchecked constructor builds them);
// the prover's own parameters of a function that also proves.
func l2Inadmissible(t *l2Target, repl [][2]string) string {
	if t.inadm != "" {
		return t.inadm
	}
	for _, rp := range repl {
		c := t.comp(rp[0])
		switch {
		case c.inadm != "":
			return c.inadm
		case c.inadmQ && (rp[1] == "0" || rp[1] == "q" || rp[1] == "2q"):
			return "direct curve arithmetic with a scalar that is 0 mod q"
		case c.kind == kPoint && (rp[1] == "zero(0,0)" || rp[1] == "off-curve" || (rp[1] == "neutral(0,1)" && !c.ed)):
			return "ECPoint that is not on its curve (NewECPointNoCurveCheck only)"
		case c.kind == kPoint && rp[1] == "other-curve":
			// a valid point of ANOTHER curve handed to a function working on a stated curve: the callers in the
			// protocols always build points with the round's own curve (UnFlattenECPoints(round.EC()), NewECPoint(ec, ..))
			return "point of a different curve than the one the call is about"
		}
	}
	return ""
}

func (c *l2Case) isBaseline() bool { return len(c.repl) == 0 }

// l2BuildCases enumerates the case table (identical in parent and workers for a given tier).
func l2BuildCases(tier string) ([]*l2Target, []l2Case) {
	targets := l2Targets(tier)
	var cases []l2Case
	for ti, t := range targets {
		cases = append(cases, l2Case{tgt: ti, inadm: t.inadm}) // the honest call
		for _, c := range t.comps {
			for _, v := range c.values() {
				rp := [][2]string{{c.name, v}}
				cases = append(cases, l2Case{tgt: ti, repl: rp, inadm: l2Inadmissible(t, rp)})
			}
		}
		if t.pairs == "always" || (t.pairs == "thorough" && tier == "thorough") {
			for i := 0; i < len(t.comps); i++ {
				for j := i + 1; j < len(t.comps); j++ {
					a, b := t.comps[i], t.comps[j]
					if a.noPair || b.noPair || a.parent == b.name || b.parent == a.name {
						continue
					}
					for _, va := range a.values() {
						for _, vb := range b.values() {
							rp := [][2]string{{a.name, va}, {b.name, vb}}
							cases = append(cases, l2Case{tgt: ti, repl: rp, inadm: l2Inadmissible(t, rp)})
						}
					}
				}
			}
		}
	}
	return targets, cases
}

// l2KeyOf: `l2/<package>.<Func>/<component>/<class>[+<component>/<class>]`.
func l2KeyOf(t *l2Target, c *l2Case) string {
	if c.isBaseline() {
		return "l2/" + t.key + "/honest/baseline"
	}
	parts := []string{}
	congruent := false
	if len(c.repl) == 2 {
		// two numbers that the code reduces modulo q and that are congruent: one class, whatever the numbers
		a, b := t.comp(c.repl[0][0]), t.comp(c.repl[1][0])
		isQ := func(x *l2Comp) bool { return x.kind == kScalar || x.qClass }
		congruent = isQ(a) && isQ(b) && l2ResidueName(c.repl[0][1]) == l2ResidueName(c.repl[1][1])
	}
	for _, r := range c.repl {
		cl := l2ClassOf(t.comp(r[0]), r[1])
		if congruent {
			cl = "congruent-mod-q"
		}
		parts = append(parts, r[0]+"/"+cl)
	}
	return "l2/" + t.key + "/" + strings.Join(parts, "+")
}

// l2ResidueName: value names that denote the same residue modulo q get the same name.
func l2ResidueName(v string) string {
	switch v {
	case "0", "q", "2q":
		return "0"
	case "1", "q+1":
		return "1"
	}
	return v
}

// ---------------------------------------------------------------- worker side

type l2Event struct {
	K       int               `json:"k"`
	Ev      string            `json:"ev"` // baseline | start | done
	Target  string            `json:"target,omitempty"`
	Input   map[string]string `json:"input,omitempty"`
	Outcome string            `json:"outcome,omitempty"`
	Ms      float64           `json:"ms,omitempty"`
	Panic   string            `json:"panic,omitempty"`
	Stack   string            `json:"stack,omitempty"`
	Leak    int               `json:"leak,omitempty"`
}

func l2Emit(e l2Event) {
	b, _ := json.Marshal(e)
	b = append(b, '\n')
	_, _ = os.Stdout.Write(b) // one unbuffered write per line
}

func init() {
	prev := core.WorkerHook
	core.WorkerHook = func(args []string) int {
		if len(args) > 0 && args[0] == l2HookName {
			return l2Worker(args[1:])
		}
		if prev != nil {
			return prev(args)
		}
		fmt.Fprintln(os.Stderr, "no worker registered for", args)
		return 2
	}
}

func l2Tier() string {
	if t := os.Getenv("C06L2_TIER"); t != "" {
		return t
	}
	return "quick"
}

// l2Guard runs f, recovering a panic of the calling goroutine.
func l2Guard(f func() string) (out string, pan string, stack string) {
	defer func() {
		if r := recover(); r != nil {
			pan = fmt.Sprint(r)
			stack = string(debug.Stack())
		}
	}()
	out = f()
	return
}

func l2Worker(args []string) int {
	if len(args) != 2 {
		fmt.Fprintln(os.Stderr, "usage: worker c06l2 <first-case> <last-case>")
		return 2
	}
	first, err1 := strconv.Atoi(args[0])
	last, err2 := strconv.Atoi(args[1])
	targets, cases := l2BuildCases(l2Tier())
	if err1 != nil || err2 != nil || first < 0 || last >= len(cases) || first > last {
		fmt.Fprintln(os.Stderr, "c06l2 worker: bad case range", args, "of", len(cases))
		return 2
	}
	for k := first; k <= last; k++ {
		c := &cases[k]
		if c.inadm != "" {
			continue // outside the property's domain: counted by the parent, not executed
		}
		t := targets[c.tgt]
		t.once.Do(func() {
			t.inst = t.setup()
			// the honest call: measures the baseline duration and must give the honest result
			m := &l2Mut{tgt: t, ctx: t.inst.ctx, repl: map[string]string{}, used: map[string]bool{}, desc: map[string]string{}}
			call := t.inst.prepare(m)
			t0 := time.Now()
			out, pan, _ := l2Guard(call)
			ms := float64(time.Since(t0).Microseconds()) / 1000
			if pan != "" {
				out = "PANIC " + pan
			}
			l2Emit(l2Event{K: k, Ev: "baseline", Target: t.name, Outcome: out, Ms: ms})
			if t.inst.expect != "" && out != t.inst.expect {
				fmt.Fprintf(os.Stderr, "c06l2 worker: INFRA honest call of %s gave %q, expected %q\n", t.name, out, t.inst.expect)
				os.Exit(4)
			}
		})
		m := &l2Mut{tgt: t, ctx: t.inst.ctx, repl: map[string]string{}, used: map[string]bool{}, desc: map[string]string{}}
		for _, r := range c.repl {
			m.repl[r[0]] = r[1]
		}
		call := t.inst.prepare(m)
		for _, r := range c.repl {
			if !m.used[r[0]] {
				fmt.Fprintf(os.Stderr, "c06l2 worker: INFRA component %s of %s was not consumed\n", r[0], t.name)
				os.Exit(4)
			}
		}
		l2Emit(l2Event{K: k, Ev: "start", Target: t.name, Input: m.desc})
		g0 := runtime.NumGoroutine()
		t0 := time.Now()
		out, pan, stack := l2Guard(call)
		ms := float64(time.Since(t0).Microseconds()) / 1000
		// goroutines the library left behind: give them time to finish, then report (informational)
		leak := 0
		for wait := 0; runtime.NumGoroutine() > g0; wait++ {
			if wait >= 150 {
				leak = runtime.NumGoroutine() - g0
				break
			}
			time.Sleep(10 * time.Millisecond)
		}
		l2Emit(l2Event{K: k, Ev: "done", Outcome: out, Ms: ms, Panic: pan, Stack: l2TrimStack(stack), Leak: leak})
		if leak > 0 {
			// a goroutine that is still running after 1.5 s would disturb the following cases: fresh process
			os.Exit(3)
		}
	}
	return 0
}

func l2TrimStack(s string) string {
	if len(s) > 6000 {
		return s[:6000]
	}
	return s
}

// l2Site extracts "<pkg>/<file>:<Func>" of the first tss-lib frame of a Go stack dump.
func l2Site(stack string) string {
	const mod = "github.com/bnb-chain/tss-lib/v2/"
	lines := strings.Split(stack, "\n")
	for i, ln := range lines {
		ln = strings.TrimSpace(ln)
		if !strings.HasPrefix(ln, mod) {
			continue
		}
		fn := ln[len(mod):]
		if j := strings.LastIndex(fn, "("); j > 0 && !strings.HasPrefix(fn[j:], "(*") {
			fn = fn[:j]
		}
		// fn = "crypto/modproof.(*ProofMod).Verify.func1" ; package = up to the first '.' after the last '/'
		slash := strings.LastIndex(fn, "/")
		dot := strings.Index(fn[slash+1:], ".")
		if dot < 0 {
			continue
		}
		pkg, sym := fn[:slash+1+dot], fn[slash+1+dot+1:]
		sym = strings.NewReplacer("(*", "", ")", "", "(", "").Replace(sym)
		if j := strings.Index(sym, "{"); j > 0 {
			sym = sym[:j]
		}
		file := "?"
		if i+1 < len(lines) {
			f := strings.TrimSpace(lines[i+1])
			if j := strings.LastIndex(f, ":"); j > 0 {
				f = f[:j]
			}
			if j := strings.LastIndex(f, "/"); j >= 0 {
				f = f[j+1:]
			}
			file = f
		}
		return pkg + "/" + file + ":" + sym
	}
	return "outside-tss-lib"
}

// ---------------------------------------------------------------- parent side

type l2Result struct {
	k        int
	class    string // returns | panic | hang | oom | crash
	outcome  string
	ms       float64
	panicMsg string
	site     string
	where    string // caller goroutine | library goroutine (process died)
	input    map[string]string
	stderr   string
	leak     int
	exitInfo string
}

type l2Parent struct {
	r        *core.Run
	bin      string
	tier     string
	targets  []*l2Target
	cases    []l2Case
	mu       sync.Mutex
	results  map[int]*l2Result
	baseMs   map[string]float64
	slow     chan int
	slowWG   sync.WaitGroup
	infra    []string
	nSlow    int
	nProcs   int
	deadline time.Time
}

func (p *l2Parent) baseline(t string) float64 {
	p.mu.Lock()
	defer p.mu.Unlock()
	return p.baseMs[t]
}

func (p *l2Parent) soft(t string) time.Duration {
	d := time.Duration(p.baseline(t)*l2SoftFactor) * time.Millisecond
	if d < l2SoftFloor {
		d = l2SoftFloor
	}
	return d
}

func (p *l2Parent) hard(t string) time.Duration {
	d := time.Duration(p.baseline(t)*l2HardFactor) * time.Millisecond
	if d < l2HardFloor {
		d = l2HardFloor
	}
	return d
}

type l2Proc struct {
	cmd    *exec.Cmd
	events chan l2Event
	errbuf *l2Tail
	done   chan struct{}
}

type l2Tail struct {
	mu  sync.Mutex
	buf []byte
}

func (t *l2Tail) Write(b []byte) (int, error) {
	t.mu.Lock()
	t.buf = append(t.buf, b...)
	if len(t.buf) > 1<<17 {
		// keep the head (the panic message comes first) and the tail
		t.buf = append(append([]byte{}, t.buf[:1<<16]...), t.buf[len(t.buf)-(1<<15):]...)
	}
	t.mu.Unlock()
	return len(b), nil
}

func (t *l2Tail) String() string { t.mu.Lock(); defer t.mu.Unlock(); return string(t.buf) }

func (p *l2Parent) spawn(first, last int, solo bool) (*l2Proc, error) {
	sh := fmt.Sprintf(`ulimit -v %d; exec "$0" "$@"`, l2MemLimitKiB)
	cmd := exec.Command("bash", "-c", sh, p.bin, "worker", l2HookName, strconv.Itoa(first), strconv.Itoa(last))
	procs := "GOMAXPROCS=2"
	if solo {
		procs = "GOMAXPROCS=1" // a case waiting out the watchdog must not take the cores of the others
	}
	cmd.Env = append(os.Environ(), "C06L2_TIER="+p.tier, procs, "GOTRACEBACK=all")
	cmd.SysProcAttr = &syscall.SysProcAttr{Setpgid: true}
	out, err := cmd.StdoutPipe()
	if err != nil {
		return nil, err
	}
	pr := &l2Proc{cmd: cmd, events: make(chan l2Event, 64), errbuf: &l2Tail{}, done: make(chan struct{})}
	cmd.Stderr = pr.errbuf
	if err := cmd.Start(); err != nil {
		return nil, err
	}
	p.mu.Lock()
	p.nProcs++
	p.mu.Unlock()
	go func() {
		sc := bufio.NewScanner(out)
		sc.Buffer(make([]byte, 1<<20), 1<<24)
		for sc.Scan() {
			var e l2Event
			if json.Unmarshal(sc.Bytes(), &e) == nil && e.Ev != "" {
				pr.events <- e
			}
		}
		close(pr.events)
		_ = cmd.Wait()
		close(pr.done)
	}()
	return pr, nil
}

func (pr *l2Proc) kill() {
	go func() { // nobody reads the events of a killed worker any more
		for range pr.events {
		}
	}()
	if pr.cmd.Process != nil {
		_ = syscall.Kill(-pr.cmd.Process.Pid, syscall.SIGKILL)
	}
	<-pr.done
}

func (p *l2Parent) store(res *l2Result) {
	p.mu.Lock()
	p.results[res.k] = res
	p.mu.Unlock()
}

// classifyDeath decides what killed a worker that died while case k was running.
func l2ClassifyDeath(stderr string, state *os.ProcessState) (class, msg, site string) {
	low := stderr
	switch {
	case strings.Contains(low, "out of memory") || strings.Contains(low, "cannot allocate memory"):
		class = "oom"
	case strings.Contains(low, "all goroutines are asleep"):
		class = "hang"
	case strings.Contains(low, "panic:") || strings.Contains(low, "fatal error:"):
		class = "panic"
	default:
		class = "crash"
		if state != nil {
			if ws, ok := state.Sys().(syscall.WaitStatus); ok && ws.Signaled() && ws.Signal() == syscall.SIGKILL {
				class = "oom" // killed from outside (not by us: our kills never reach this function)
			}
		}
	}
	for _, ln := range strings.Split(stderr, "\n") {
		if strings.HasPrefix(ln, "panic:") || strings.HasPrefix(ln, "fatal error:") || strings.HasPrefix(ln, "runtime: out of memory") {
			msg = strings.TrimSpace(ln)
			break
		}
	}
	idx := strings.Index(stderr, "goroutine ")
	if idx < 0 {
		idx = 0
	}
	site = l2Site(stderr[idx:])
	return
}

// runRange executes cases first..last in worker processes, restarting after every death.
// soloHard: use the hard watchdog (a deferred slow case run alone) instead of the soft one.
func (p *l2Parent) runRange(first, last int, soloHard bool) {
	cur := first
	noProgress := 0
	for cur <= last {
		for cur <= last && p.cases[cur].inadm != "" {
			cur++ // inadmissible cases are not executed (the worker skips them as well)
		}
		if cur > last {
			return
		}
		if time.Now().After(p.deadline) {
			p.mu.Lock()
			p.infra = append(p.infra, fmt.Sprintf("time budget: cases %d..%d not executed", cur, last))
			p.mu.Unlock()
			return
		}
		pr, err := p.spawn(cur, last, soloHard)
		if err != nil {
			p.mu.Lock()
			p.infra = append(p.infra, "cannot start worker: "+err.Error())
			p.mu.Unlock()
			return
		}
		running := -1 // case whose start line was seen without a done line
		var runInput map[string]string
		var started time.Time
		progressed := false
		tick := time.NewTicker(200 * time.Millisecond)
		killed := ""
	loop:
		for {
			select {
			case e, ok := <-pr.events:
				if !ok {
					break loop
				}
				switch e.Ev {
				case "baseline":
					p.mu.Lock()
					if old, ok := p.baseMs[e.Target]; !ok || e.Ms > old {
						p.baseMs[e.Target] = e.Ms
					}
					p.mu.Unlock()
				case "start":
					running, runInput, started = e.K, e.Input, time.Now()
				case "done":
					res := &l2Result{k: e.K, class: "returns", outcome: e.Outcome, ms: e.Ms, input: runInput, leak: e.Leak}
					if e.Panic != "" {
						res.class, res.panicMsg, res.site, res.where = "panic", e.Panic, l2Site(e.Stack), "caller goroutine (recovered in the worker)"
						res.stderr = e.Stack
					}
					p.store(res)
					running = -1
					cur = e.K + 1
					progressed = true
				}
			case <-tick.C:
				if running >= 0 {
					t := p.targets[p.cases[running].tgt].name
					limit := p.soft(t)
					if soloHard {
						limit = p.hard(t)
					}
					if time.Since(started) > limit {
						if soloHard {
							killed = "hang"
						} else {
							killed = "slow"
						}
						pr.kill()
						break loop
					}
				}
			}
		}
		tick.Stop()
		if killed == "" {
			<-pr.done
		}
		switch {
		case killed == "slow":
			// not a verdict: the case is re-run alone, from scratch, under the hard watchdog
			p.mu.Lock()
			p.nSlow++
			p.mu.Unlock()
			p.slowWG.Add(1)
			p.slow <- running
			cur = running + 1
			progressed = true
		case killed == "hang":
			t := p.targets[p.cases[running].tgt].name
			p.store(&l2Result{k: running, class: "hang", input: runInput, ms: float64(time.Since(started).Milliseconds()),
				exitInfo: fmt.Sprintf("no result after %s (watchdog = max(%s, %dx the honest call of %.1f ms)); worker killed", p.hard(t), l2HardFloor, l2HardFactor, p.baseline(t)),
				stderr:   l2TailOf(pr.errbuf.String(), 1500)})
			cur = running + 1
			progressed = true
		case running >= 0:
			// the process died while case `running` was executing
			class, msg, site := l2ClassifyDeath(pr.errbuf.String(), pr.cmd.ProcessState)
			p.store(&l2Result{k: running, class: class, panicMsg: msg, site: site, where: "library goroutine or runtime abort (worker process died)",
				input: runInput, stderr: l2TailOf(pr.errbuf.String(), 3000), exitInfo: fmt.Sprint(pr.cmd.ProcessState)})
			cur = running + 1
			progressed = true
		default:
			// ended between cases: normal end, voluntary restart after a goroutine leak (exit 3), or trouble
			code := -1
			if pr.cmd.ProcessState != nil {
				code = pr.cmd.ProcessState.ExitCode()
			}
			if code == 0 {
				cur = last + 1 // the worker went through its whole range (trailing inadmissible cases print nothing)
			}
			if cur <= last && code != 3 {
				p.mu.Lock()
				p.infra = append(p.infra, fmt.Sprintf("worker for cases %d..%d ended outside a case (exit %d): %s", cur, last, code, l2TailOf(pr.errbuf.String(), 600)))
				p.mu.Unlock()
				if !progressed {
					noProgress++
				}
				if code == 4 || noProgress >= 2 {
					// infrastructure problem (dishonest baseline, setup crash): skip the rest of this target's chunk
					return
				}
			}
		}
	}
}

func l2TailOf(s string, n int) string {
	if i := strings.Index(s, "panic:"); i >= 0 {
		s = s[i:]
	} else if i := strings.Index(s, "fatal error:"); i >= 0 {
		s = s[i:]
	}
	if len(s) > n {
		return s[:n]
	}
	return s
}

// RunLayer2 is the entry point of layer 2.
func RunLayer2(r *core.Run) {
	bin := os.Getenv("VERIF_BIN")
	if bin == "" {
		bin = os.Args[0]
	}
	targets, cases := l2BuildCases(r.Tier)
	budget := 10 * time.Minute // safety net only (a loaded machine); the normal quick run takes about 2.5 min
	if r.Tier == "thorough" {
		budget = 45 * time.Minute
	}
	p := &l2Parent{r: r, bin: bin, tier: r.Tier, targets: targets, cases: cases, results: map[int]*l2Result{},
		baseMs: map[string]float64{}, slow: make(chan int, len(cases)+1), deadline: time.Now().Add(budget)}

	// chunks: per target, at most l2ChunkMax cases each (a worker builds only the baselines it needs).
	// Scheduling only: the targets working on 2048-bit moduli go first, because a case that has to wait
	// out the 120 s watchdog should be met early.
	type chunk struct{ a, b int }
	var chunks []chunk
	// class of a case for chunking: 2 = replaces a modulus of a heavy target, 1 = other case of a heavy target, 0 = rest
	caseClass := func(k int) int {
		t := targets[cases[k].tgt]
		if !t.heavy {
			return 0
		}
		for _, rp := range cases[k].repl {
			if t.comp(rp[0]).kind == kModulus {
				return 2
			}
		}
		return 1
	}
	sizeOf := map[int]int{0: l2ChunkMax, 1: l2ChunkHeavy, 2: l2ChunkModulus}
	for a := 0; a < len(cases); {
		b := a
		cl := caseClass(a)
		for b+1 < len(cases) && cases[b+1].tgt == cases[a].tgt && caseClass(b+1) == cl && b+1-a < sizeOf[cl] {
			b++
		}
		chunks = append(chunks, chunk{a, b})
		a = b + 1
	}
	if only := os.Getenv("C06L2_ONLY"); only != "" {
		// development / mutation runs: restrict to the targets whose name contains the given text
		var keep []chunk
		for _, c := range chunks {
			if strings.Contains(targets[cases[c.a].tgt].name, only) {
				keep = append(keep, c)
			}
		}
		chunks = keep
		r.Cap("layer 2 restricted to targets matching C06L2_ONLY=" + only)
	}
	// scheduling only: chunks that replace a modulus of a heavy target first (that is where a call can fall into an
	// unbounded computation, which then has to wait out the 120 s watchdog), then the other heavy chunks, then the rest
	prio := func(c chunk) int { return caseClass(c.a) }
	sort.SliceStable(chunks, func(i, j int) bool { return prio(chunks[i]) > prio(chunks[j]) })
	tStart := time.Now()
	// slow pool: cases that exceeded the soft limit are re-run alone under the hard watchdog
	var slowDone sync.WaitGroup
	for w := 0; w < l2SlowParallel; w++ {
		slowDone.Add(1)
		go func() {
			defer slowDone.Done()
			for k := range p.slow {
				p.runRange(k, k, true)
				p.slowWG.Done()
			}
		}()
	}
	chunkSec := make([]float64, len(chunks))
	core.ParallelFor(len(chunks), runtime.NumCPU(), func(i int) {
		t0 := time.Now()
		p.runRange(chunks[i].a, chunks[i].b, false)
		chunkSec[i] = time.Since(t0).Seconds()
	})
	tMain := time.Since(tStart)
	{
		type cs struct {
			s    string
			secs float64
		}
		var all []cs
		for i, c := range chunks {
			all = append(all, cs{fmt.Sprintf("%s cases %d..%d: %.1fs (started at +%.0fs)", targets[cases[c.a].tgt].name, c.a, c.b, chunkSec[i], 0.0), chunkSec[i]})
		}
		sort.Slice(all, func(i, j int) bool { return all[i].secs > all[j].secs })
		top := []string{}
		for i := 0; i < len(all) && i < 8; i++ {
			top = append(top, all[i].s)
		}
		r.Set("l2_slowest_chunks", top)
	}
	p.slowWG.Wait()
	close(p.slow)
	slowDone.Wait()
	tSlow := time.Since(tStart)

	ks := make([]int, 0, len(p.results))
	for k := range p.results {
		ks = append(ks, k)
	}
	sort.Ints(ks)
	// index of the single-replacement cases: a failing pair whose failure is already shown by one of its
	// two components alone (same class, same site) is the same finding, not a new one
	sameFailure := func(a, b *l2Result) bool {
		return a != nil && b != nil && a.class == b.class && a.class != "returns" && (a.class != "panic" || a.site == b.site)
	}
	// keys of the failing single-replacement cases (the function part of a key does not name the curve, so a
	// pair on one curve is also subsumed by the same single failure met on the other curve)
	singleKeys := map[string]bool{}
	for _, k := range ks {
		if res := p.results[k]; res.class != "returns" && len(cases[k].repl) == 1 {
			singleKeys[fullKeyOfSingle(targets, cases, res)] = true
		}
	}
	fullKey := func(res *l2Result) string {
		c := &cases[res.k]
		if len(c.repl) == 2 {
			t := targets[c.tgt]
			for _, rp := range c.repl {
				one := l2Case{tgt: c.tgt, repl: [][2]string{rp}}
				cand := l2KeyOf(t, &one)
				if res.class == "panic" && res.site != "" {
					cand += "@" + res.site
				}
				cand += ":" + res.class
				if singleKeys[cand] {
					return cand
				}
			}
		}
		return fullKeyOfSingle(targets, cases, res)
	}
	firstOf := map[string]*l2Result{}
	keyCount := map[string]int{}
	for _, k := range ks {
		res := p.results[k]
		if res.class == "returns" {
			continue
		}
		key := fullKey(res)
		keyCount[key]++
		if _, ok := firstOf[key]; !ok {
			firstOf[key] = res // ks is ascending and singles precede pairs: the smallest input of the key
		}
	}
	// confirm every crash-class finding once more in a fresh process of its own (first case of each key)
	type finding struct {
		key string
		res *l2Result
	}
	var confirm []finding
	for key, res := range firstOf {
		if res.class != "hang" { // a hang costs >= 120 s to confirm; the hard-watchdog run already was a process of its own
			confirm = append(confirm, finding{key, res})
		}
	}
	sort.Slice(confirm, func(i, j int) bool { return confirm[i].key < confirm[j].key })
	reproduced := map[string]bool{}
	if len(confirm) > 0 {
		q := &l2Parent{r: r, bin: bin, tier: r.Tier, targets: targets, cases: cases, results: map[int]*l2Result{},
			baseMs: p.baseMs, slow: make(chan int, len(confirm)+1), deadline: time.Now().Add(150 * time.Second)}
		core.ParallelFor(len(confirm), runtime.NumCPU(), func(i int) { q.runRange(confirm[i].res.k, confirm[i].res.k, true) })
		for _, f := range confirm {
			if sameFailure(q.results[f.res.k], f.res) {
				reproduced[f.key] = true
			}
		}
		p.nProcs += q.nProcs
		p.infra = append(p.infra, q.infra...)
	}
	tConfirm := time.Since(tStart)
	r.Set("l2_phase_seconds", map[string]float64{"main": tMain.Seconds(), "main+slow": tSlow.Seconds(), "main+slow+confirm": tConfirm.Seconds()})
	r.Set("l2_failure_keys", keyCount)

	// ------------------------------------------------------------ evidence
	hist := map[string]int{}
	leaks := map[string]int{}
	executed := 0
	pairsExec := 0
	nSamples, nFailSamples := 0, 0
	for _, k := range ks {
		res := p.results[k]
		c := &cases[k]
		t := targets[c.tgt]
		executed++
		h := res.class
		if res.class == "returns" {
			h = "returns:" + l2Shorten(res.outcome)
		}
		hist[h]++
		if res.leak > 0 {
			leaks[l2KeyOf(t, c)+":goroutine-still-running-after-1.5s"]++
		}
		for _, rp := range c.repl {
			trip := t.name + "|" + rp[0] + "|" + l2ClassOf(t.comp(rp[0]), rp[1])
			r.Distinct("l2_triples", trip)
			r.Distinct("l2_cases", trip) // the name the package's Run sums up
		}
		if len(c.repl) == 2 {
			pairsExec++
		}
		if len(c.repl) >= 1 && (k%1013 == 1 || (res.class != "returns" && nFailSamples < 2)) && nSamples < 10 {
			if res.class != "returns" {
				nFailSamples++
			}
			nSamples++
			r.ForceSample(map[string]interface{}{"layer": 2, "case": k, "target": t.name, "replaced": c.repl, "key": l2KeyOf(t, c),
				"input": res.input, "outcome_class": res.class, "outcome": res.outcome, "ms": res.ms})
		}
	}
	allKeys := make([]string, 0, len(firstOf))
	for key := range firstOf {
		allKeys = append(allKeys, key)
	}
	sort.Strings(allKeys)
	for _, key := range allKeys {
		res := firstOf[key]
		c := &cases[res.k]
		t := targets[c.tgt]
		if res.class != "hang" && !reproduced[key] {
			p.infra = append(p.infra, "not reproduced in a fresh process (not reported): "+key)
			continue
		}
		what := fmt.Sprintf("%s with %s: %s", t.name, l2DescribeRepl(t, c), res.class)
		if res.panicMsg != "" {
			what += " - " + res.panicMsg
		}
		if res.where != "" {
			what += " [" + res.where + "]"
		}
		if res.exitInfo != "" && res.class != "panic" {
			what += " (" + res.exitInfo + ")"
		}
		r.Violate(key, what, map[string]interface{}{"layer": 2, "target": t.name, "case": res.k, "replaced": c.repl, "input": res.input,
			"class": res.class, "panic": res.panicMsg, "site": res.site, "where": res.where, "stderr": res.stderr,
			"replay": fmt.Sprintf("C06L2_TIER=%s <bin> worker c06l2 %d %d", r.Tier, res.k, res.k)})
	}
	names := []string{}
	for _, t := range targets {
		names = append(names, t.name)
	}
	bm := map[string]float64{}
	for k, v := range p.baseMs {
		bm[k] = float64(int(v*100)) / 100
	}
	leakKeys := []string{}
	for k, n := range leaks {
		leakKeys = append(leakKeys, fmt.Sprintf("%s x%d", k, n))
	}
	sort.Strings(leakKeys)
	r.Set("l2_targets", names)
	r.Set("l2_outcome_histogram", hist)
	r.Set("l2_baseline_ms", bm)
	r.Set("l2_cases_enumerated", len(cases))
	inadm := map[string]int{}
	nInadm := 0
	for i := range cases {
		if cases[i].inadm != "" {
			inadm[cases[i].inadm]++
			nInadm++
		}
	}
	r.Set("l2_inadmissible", inadm)
	r.Count("l2_inadmissible_cases", int64(nInadm))
	r.Set("l2_pair_cases_executed", pairsExec)
	r.Set("l2_worker_processes", p.nProcs)
	r.Set("l2_slow_cases_rerun_alone", p.nSlow)
	r.Set("l2_goroutine_leaks_informational", leakKeys)
	r.Set("l2_distinct_failure_keys", len(firstOf))
	r.Count("l2_evaluations", int64(executed))
	r.Count("l2_calls", int64(executed))
	r.Set("l2_evaluations_executed", executed)              // c06.Run sums l2_calls into evaluations
	r.Set("l2_distinct_triples", r.NDistinct("l2_triples")) // c06.Run adds NDistinct("l2_cases") to distinct_nontrivial
	r.Set("l2_rule", "layer 2: for every exported verifier/decoder one honest call, then every call with exactly one argument or proof component replaced by "+
		"each value of the component kind's boundary alphabet (numbers: 0,1,q-1,q,q+1,2q,N-1,N,N+1,N^2,2^k for k in {8,63,64,255,256,1023,1024,2047,2048,4095,4096}, "+
		"a value of twice the honest byte width, the honest value with its low bit flipped; moduli additionally 2^k-1 and 2^k+1; points: (0,0), (0,1), the small-order "+
		"points of edwards25519, a point of the other curve, an off-curve point, G, the negated honest point; lists: one/two too short, one too long, single element, empty non-nil), "+
		"and all pairs of replaced components for the small-arity targets; each call in a worker subprocess under ulimit -v 4 GiB; outcome class must be 'returns'. "+
		"distinct_nontrivial = number of distinct (target function, component, value class) triples executed; evaluations = calls executed")
	if len(p.infra) > 0 {
		sort.Strings(p.infra)
		if len(p.infra) > 12 {
			p.infra = append(p.infra[:12], fmt.Sprintf("... and %d more", len(p.infra)-12))
		}
		r.Cap("layer 2: " + strings.Join(p.infra, " | "))
	}
	if executed < len(cases)-nInadm && os.Getenv("C06L2_ONLY") == "" {
		r.Cap(fmt.Sprintf("layer 2: %d of %d admissible cases executed", executed, len(cases)-nInadm))
	}
}

func fullKeyOfSingle(targets []*l2Target, cases []l2Case, res *l2Result) string {
	c := &cases[res.k]
	key := l2KeyOf(targets[c.tgt], c)
	if res.class == "panic" && res.site != "" {
		key += "@" + res.site
	}
	return key + ":" + res.class
}

func l2Shorten(s string) string {
	if len(s) > 40 {
		return s[:40]
	}
	return s
}

func l2DescribeRepl(t *l2Target, c *l2Case) string {
	if c.isBaseline() {
		return "honest arguments"
	}
	parts := []string{}
	for _, r := range c.repl {
		parts = append(parts, r[0]+" = "+r[1])
	}
	return strings.Join(parts, " and ")
}
