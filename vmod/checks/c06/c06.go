// Package c06: check for property C06 (stub until implemented).
package c06

import "verif/internal/core"

// Implemented reports whether this check is built.
const Implemented = false

func Run(r *core.Run) { r.Cap("not implemented") }
