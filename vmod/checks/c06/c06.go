// Package c06: no input from the network can crash a party (FAULT: one deviation per execution, all of
// them, in worker subprocesses) + every exported verifier/decoder on boundary values (layer 2).
package c06

import (
	"fmt"
	"os"
	"path/filepath"
	"runtime"
	"strings"
	"time"

	"verif/internal/core"
	"verif/internal/fault"
	"verif/internal/scen"
)

const Implemented = true

func init() {
	prev := core.WorkerHook
	core.WorkerHook = func(args []string) int {
		if len(args) > 0 && args[0] == "fault" {
			seed := int64(1)
			fmt.Sscan(os.Getenv("VERIF_SEED"), &seed)
			for name, mk := range scen.FaultScenarios(seed) {
				fault.Register(name, mk)
			}
			return fault.WorkerMain(args[1:])
		}
		if prev != nil {
			return prev(args)
		}
		return 2
	}
}

func errClass(t string) string {
	// strip the variable prefix "task .., party .., round N[, culprits ..]: "
	if i := strings.LastIndex(t, "]: "); i >= 0 {
		t = t[i+3:]
	} else if i := strings.Index(t, ": "); i >= 0 {
		t = t[i+2:]
	}
	if len(t) > 60 {
		t = t[:60]
	}
	return t
}

func Run(r *core.Run) {
	keydir := filepath.Join(core.WorkDir(), fmt.Sprintf("keys-%d", os.Getpid()))
	_ = os.MkdirAll(keydir, 0o755)
	defer os.RemoveAll(keydir)
	os.Setenv("VERIF_KEYDIR", keydir)
	os.Setenv("VERIF_SEED", fmt.Sprint(r.Seed))
	for name, mk := range scen.FaultScenarios(r.Seed) {
		fault.Register(name, mk)
	}
	type plan struct {
		scn      string
		deviator int
		classes  []string
		allIdx   bool
	}
	full := r.Tier == "thorough"
	var plans []plan
	edAll := fault.ValueClasses(false, true)
	ecAll := fault.ValueClasses(true, full)
	ecFew := []string{"zero", "one", "plus-one", "q", "N", "N^2", "2^64-1", "double-width"}
	plans = append(plans,
		plan{"eddsa-keygen", 1, edAll, true},
		plan{"eddsa-signing", 1, edAll, true},
		plan{"eddsa-resharing", 0, edAll, true},  // an old member deviates
		plan{"eddsa-resharing", 3, edAll, true},  // a new member deviates
		plan{"ecdsa-signing", 1, ecAll, full},
	)
	if full {
		plans = append(plans,
			plan{"eddsa-keygen", 0, edAll, true}, plan{"eddsa-keygen", 2, edAll, true},
			plan{"eddsa-signing", 0, edAll, true}, plan{"eddsa-signing", 2, edAll, true},
			plan{"ecdsa-signing", 0, ecAll, true},
			plan{"ecdsa-signing-3", 1, ecFew, false},
			plan{"ecdsa-keygen", 1, ecAll, true},
			plan{"ecdsa-resharing", 0, ecAll, true},
			plan{"ecdsa-resharing", 2, ecAll, true},
		)
	} else {
		plans = append(plans,
			plan{"ecdsa-keygen", 1, ecFew, false},
			plan{"ecdsa-resharing", 3, ecFew, false},
		)
	}
	var cases []fault.Case
	for _, p := range plans {
		cs, _, err := fault.EnumerateFieldCases(p.scn, p.deviator, p.classes, p.allIdx, false)
		if err != nil {
			fmt.Fprintln(os.Stderr, "INFRASTRUCTURE: honest run of", p.scn, "failed:", err)
			os.Exit(2)
		}
		cases = append(cases, cs...)
	}
	// a single verification slot (Parameters.SetConcurrency(1)): the parameter and proof fields that the
	// concurrent dln-proof verifiers of ECDSA keygen round 2 / resharing round 4 consume
	for _, p := range []plan{{"ecdsa-keygen-conc1", 1, ecFew, false}, {"ecdsa-resharing-conc1", 3, ecFew, false}} {
		cs, _, err := fault.EnumerateFieldCases(p.scn, p.deviator, p.classes, p.allIdx, false)
		if err != nil {
			fmt.Fprintln(os.Stderr, "INFRASTRUCTURE: honest run of", p.scn, "failed:", err)
			os.Exit(2)
		}
		for _, c := range cs {
			lf := strings.ToLower(c.Dev.Field)
			if strings.Contains(lf, "dlnproof") || strings.Contains(lf, "dln_proof") || lf == "h1" || lf == "h2" || strings.Contains(lf, "tilde") {
				cases = append(cases, c)
			}
		}
		plans = append(plans, p)
	}
	// forged sender indices where the declared old party count exceeds the number of old members taking part
	// (slots are sized by the one, bounds may be checked against the other)
	for _, p := range []plan{{"ecdsa-resharing-gap", 0, nil, false}, {"ecdsa-resharing-gap", 2, nil, false}} {
		cs, _, err := fault.EnumerateFieldCases(p.scn, p.deviator, nil, false, false)
		if err != nil {
			fmt.Fprintln(os.Stderr, "INFRASTRUCTURE: honest run of", p.scn, "failed:", err)
			os.Exit(2)
		}
		for _, c := range cs {
			if strings.HasPrefix(c.Dev.Op, "from-index:") {
				cases = append(cases, c)
			}
		}
		plans = append(plans, p)
	}
	// the same first-round deviations against a party that has not started yet: everything sent to it arrives
	// before its Start(), which then works through the stored messages (and the next round's checks) itself
	{
		frt := map[string]map[string]bool{}
		var lateCases []fault.Case
		for _, c := range cases {
			k := fmt.Sprintf("%s/%d", c.Scenario, c.Deviator)
			if frt[k] == nil {
				frt[k] = fault.FirstRoundTypes(c.Scenario, c.Deviator)
			}
			if !frt[k][c.Dev.MsgType] || c.Dev.Occ > 0 {
				continue
			}
			if !full && !(c.Dev.Op == "plus-one" || c.Dev.Op == "zero" || c.Dev.Op == "drop-last" || c.Dev.Op == "removed") {
				continue
			}
			victim := 0
			if c.Deviator == 0 {
				victim = 1
			}
			if strings.Contains(c.Scenario, "resharing") {
				victim = 2 // a new-committee member (old members are nodes 0..1, new ones follow)
				if c.Deviator == 2 {
					victim = 3
				}
			}
			lc := c
			lc.LateStart = victim + 1
			lateCases = append(lateCases, lc)
		}
		cases = append(cases, lateCases...)
		r.Set("l1_late_start_cases", len(lateCases))
	}
	// crafted relations: the deviator must be the last mover of its round in FIFO order (highest index
	// of its committee) for "minus the sum of the others"
	for _, cp := range []struct {
		scn string
		dev int
	}{{"eddsa-keygen", 2}, {"eddsa-signing", 2}, {"eddsa-resharing", 1}, {"ecdsa-signing", 1}} {
		cases = append(cases, fault.EnumerateCraftedCases(cp.scn, cp.dev)...)
	}
	if full {
		cases = append(cases, fault.EnumerateCraftedCases("ecdsa-keygen", 1)...)
		cases = append(cases, fault.EnumerateCraftedCases("ecdsa-resharing", 1)...)
	}
	// debugging aid: VERIF_C06_FILTER=<substring> restricts layer 1 to the deviations whose operation contains
	// the substring and skips layer 2 (such a run is marked non-exhaustive)
	filter := os.Getenv("VERIF_C06_FILTER")
	if filter != "" {
		var sel []fault.Case
		for _, c := range cases {
			if strings.Contains(c.Dev.Op, filter) {
				sel = append(sel, c)
			}
		}
		cases = sel
		r.Cap("VERIF_C06_FILTER=" + filter)
	}
	for i := range cases {
		cases[i].ID = i
	}
	t0 := time.Now()
	// layer 2 runs alongside layer 1 (both drive worker subprocesses)
	l2done := make(chan struct{})
	go func() {
		defer close(l2done)
		if filter == "" {
			RunLayer2(r)
		}
	}()
	outs := fault.Run(cases, runtime.NumCPU()/2, 10*time.Minute, nil)
	hist := map[string]int{}
	for i, o := range outs {
		c := cases[i]
		if o.ID < 0 {
			r.Cap(fmt.Sprintf("case %d (%s %s) was not executed", i, c.Scenario, c.Dev.Sig()))
			continue
		}
		r.Count("l1_executions", 1)
		cls := "returns/ignored-or-accepted"
		if len(o.Errs) > 0 {
			cls = "returns/error"
		}
		if !o.Applied {
			cls = "deviation-point-not-reached"
		}
		if c.LateStart > 0 {
			c.Scenario += fmt.Sprintf("+node-%d-starts-last", c.LateStart-1)
		}
		rec := map[string]interface{}{"scenario": c.Scenario, "deviator": c.Deviator, "deviation": c.Dev, "outcome": o}
		slot := c.Dev.MsgType + "/" + c.Dev.Field
		if c.Dev.Field == "" {
			slot = c.Dev.MsgType + "/<whole message>"
		}
		if len(o.Panics) > 0 {
			cls = "panic(recovered in caller)"
			site := "unknown"
			if len(o.PanicSites) > 0 {
				site = o.PanicSites[0]
			}
			r.Violate(fmt.Sprintf("l1/%s/%s@%s:panic", c.Scenario, slot, site), fmt.Sprintf("a party entry point panicked (%s) on %s", o.Panics[0], c.Dev.Sig()), rec)
		}
		if o.Crash != "" {
			cls = "process-" + o.Crash
			r.Violate(fmt.Sprintf("l1/%s/%s@%s:%s", c.Scenario, slot, o.CrashSite, o.Crash), fmt.Sprintf("the process running the parties died or hung (%s) on %s", o.CrashText, c.Dev.Sig()), rec)
		}
		hist[cls]++
		ec := ""
		if len(o.Errs) > 0 {
			ec = errClass(o.Errs[0].Text)
		}
		r.Distinct("l1_cases", fmt.Sprintf("%s|%s|%s|%s|%s", c.Scenario, c.Dev.MsgType, c.Dev.Field, cls, ec))
		if i%211 == 0 {
			r.Sample(5, map[string]interface{}{"scenario": c.Scenario, "deviator": c.Deviator, "deviation": c.Dev.Sig(), "outcome_class": cls, "first_error": ec})
		}
	}
	r.Set("l1_outcome_histogram", hist)
	r.Set("l1_wall_s", int(time.Since(t0).Seconds()))
	r.Set("l1_plans", fmt.Sprint(plans))
	<-l2done
	ev := int(r.Get("l1_executions")) + int(r.Get("l2_calls"))
	r.Set("evaluations", ev)
	r.Set("distinct_nontrivial", r.NDistinct("l1_cases")+r.NDistinct("l2_cases"))
	r.Set("rule", "layer 1: every execution that differs from the honest FIFO run by exactly one deviation of one party: each bytes field / element (first, [middle,] last) of each message type replaced by each value class of the boundary alphabet or removed, list operations, truncated/empty/garbage wire bytes, flipped broadcast flag, duplicate, forged sender index, mirror of another party's message; layer 2: every exported verifier/decoder with one (small arity: two) argument(s) at a boundary value. distinct = distinct (scenario, message type, field, outcome class, error class) tuples")
	r.Assume("oversized values are at most 2x the nominal width; hang = no outcome within 10 minutes for a case whose honest run takes seconds")
	r.Assume("crafted multi-message relations (commit to an altered opening, responses summing to zero) are enumerated only where listed in the evidence")
}
