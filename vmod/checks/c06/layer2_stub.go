//go:build c06stub

package c06

import "verif/internal/core"

func RunLayer2(r *core.Run) {}
