//go:build !c06stub

package c06

// Layer 2 targets: the exported verifiers, decoders and helpers of crypto/* and common, each with an
// honest baseline (built with the library's own provers on a deterministic byte stream) and the list
// of its replaceable components.

import (
	"crypto/elliptic"
	"crypto/sha256"
	"encoding/binary"
	"fmt"
	"math/big"
	"strings"
	"sync"

	"github.com/bnb-chain/tss-lib/v2/common"
	"github.com/bnb-chain/tss-lib/v2/crypto"
	"github.com/bnb-chain/tss-lib/v2/crypto/ckd"
	cmts "github.com/bnb-chain/tss-lib/v2/crypto/commitments"
	"github.com/bnb-chain/tss-lib/v2/crypto/dlnproof"
	"github.com/bnb-chain/tss-lib/v2/crypto/facproof"
	"github.com/bnb-chain/tss-lib/v2/crypto/modproof"
	"github.com/bnb-chain/tss-lib/v2/crypto/mta"
	"github.com/bnb-chain/tss-lib/v2/crypto/paillier"
	"github.com/bnb-chain/tss-lib/v2/crypto/schnorr"
	"github.com/bnb-chain/tss-lib/v2/crypto/vss"
	"github.com/bnb-chain/tss-lib/v2/tss"
	"github.com/btcsuite/btcutil/base58"

	"verif/checks/c10"
	"verif/internal/core"
)

var (
	l2ParamsOnce sync.Once
	l2Params     []c10.Params
)

func l2P() []c10.Params {
	l2ParamsOnce.Do(func() { l2Params = c10.LoadParams() })
	return l2Params
}

func l2Must(err error) {
	if err != nil {
		panic("c06l2 setup: " + err.Error())
	}
}

func l2Session() []byte { return core.Bytes("c06l2/session", 32) }

// default context: q,p of the curve; N = Paillier modulus of set 0; NT = NTilde of set 1; NTA = NTilde of set 0
func l2CtxFor(ec elliptic.Curve) *l2Ctx {
	ps := l2P()
	return &l2Ctx{ec: ec, mods: map[string]*big.Int{"N": ps[0].SK.N, "NT": ps[1].NTilde, "NTA": ps[0].NTilde}}
}

func cN(name string) *l2Comp           { return &l2Comp{name: name, kind: kNum} }
func cNM(name, mod string) *l2Comp     { return &l2Comp{name: name, kind: kNum, mod: mod} }
func cS(name string) *l2Comp           { return &l2Comp{name: name, kind: kScalar} }
func cSd(name string) *l2Comp          { return &l2Comp{name: name, kind: kScalar, inadmQ: true} }
func cMd(name, mod string) *l2Comp     { return &l2Comp{name: name, kind: kModulus, mod: mod} }
func cCo(name string) *l2Comp          { return &l2Comp{name: name, kind: kCoord} }
func cRaw(name string) *l2Comp         { return &l2Comp{name: name, kind: kRaw} }
func cI(name string) *l2Comp           { return &l2Comp{name: name, kind: kInt} }
func cW(name, mod string) *l2Comp      { return &l2Comp{name: name, kind: kWire, mod: mod} }
func cL(name string, k l2Kind) *l2Comp { return &l2Comp{name: name, kind: k} }
func cPt(name string, ed bool) *l2Comp {
	return &l2Comp{name: name, kind: kPoint, vals: l2PointVals(ed), ed: ed}
}
func markQ(comps []*l2Comp, names ...string) {
	for _, c := range comps {
		for _, n := range names {
			if c.name == n {
				c.qClass = true
			}
		}
	}
}
func cCustom(name string, vals ...string) *l2Comp {
	return &l2Comp{name: name, kind: kRaw, vals: vals}
}
func (c *l2Comp) of(parent string) *l2Comp { c.parent = parent; return c }
func (c *l2Comp) plus(extra ...string) *l2Comp {
	c.extra = append(c.extra, extra...)
	return c
}
func cWireLen(name string) *l2Comp {
	return &l2Comp{name: name, kind: kWire, vals: append(l2ValsOf(kLenPfx), "empty")}
}

func l2Idx(tier string, n int) []int {
	if tier == "thorough" {
		return []int{0, n / 2, n - 1}
	}
	return []int{0}
}

func l2OkErr(err error) string {
	if err != nil {
		return "err"
	}
	return "ok"
}

// l2Targets lists every target. The order is part of the case numbering.
func l2Targets(tier string) []*l2Target {
	var ts []*l2Target
	for _, ec := range []elliptic.Curve{tss.S256(), tss.Edwards()} {
		ts = append(ts, tSchnorr(ec), tSchnorrV(ec), tVssVerify(ec), tVssReconstruct(ec),
			tNewECPoint(ec), tUnFlatten(ec), tFlatten(ec), tPointJSON(ec),
			tScalarBaseMult(ec), tScalarMult(ec), tPointAdd(ec), tPointMisc(ec))
	}
	ts = append(ts, tEightInvEight(), tPointGob())
	ts = append(ts, tCommit("Verify"), tCommit("DeCommit"), tParseSecrets())
	ts = append(ts, tDLNVerify(tier), tDLNUnmarshal(), tModVerify(tier), tModFromBytes(), tFacVerify(), tFacFromBytes())
	ts = append(ts, tPaillierProof(tier), tPaillierEncrypt(), tPaillierHomoAdd(), tPaillierHomoMult(), tPaillierDecrypt())
	ts = append(ts, tRangeVerify(), tRangeFromBytes(), tBobVerify(false), tBobVerify(true), tBobFromBytes(false), tBobFromBytes(true))
	ts = append(ts, tBobMid(false), tBobMid(true), tAliceEnd(false), tAliceEnd(true))
	ts = append(ts, tCkdFromString(), tCkdDerive(), tCkdChain())
	ts = append(ts, tHashBytes(), tHashInts(), tHashTagged(), tHashOne(), tRejectionSample())
	ts = append(ts, l2MessageTargets()...)
	for _, t := range ts {
		for _, pre := range []string{"dlnproof.", "modproof.", "facproof.", "paillier.", "mta."} {
			if strings.HasPrefix(t.name, pre) {
				t.heavy = true
			}
		}
	}
	return ts
}

// ---------------------------------------------------------------- Schnorr

func tSchnorr(ec elliptic.Curve) *l2Target {
	ed, cn := l2IsEd(ec), l2CurveName(ec)
	return &l2Target{name: "schnorr.ZKProof.Verify[" + cn + "]", key: "schnorr.ZKProof.Verify", pairs: "always",
		comps: []*l2Comp{cPt("Alpha", ed), cS("T"), cPt("X", ed), cRaw("Session")},
		setup: func() *l2Inst {
			sess := l2Session()
			x := c10.Generic("c06l2/schnorr/x/"+cn, ec.Params().N)
			pf, X, err := c10.BuildSchnorr(ec, sess, x, "c06l2/schnorr/"+cn)
			l2Must(err)
			return &l2Inst{ctx: l2CtxFor(ec), expect: "true", prepare: func(m *l2Mut) func() string {
				p2 := &schnorr.ZKProof{Alpha: m.point("Alpha", ec, pf.Alpha), T: m.num("T", pf.T)}
				X2, s2 := m.point("X", ec, X), m.raw("Session", sess)
				return func() string { return fmt.Sprint(p2.Verify(s2, X2)) }
			}}
		}}
}

func tSchnorrV(ec elliptic.Curve) *l2Target {
	ed, cn := l2IsEd(ec), l2CurveName(ec)
	return &l2Target{name: "schnorr.ZKVProof.Verify[" + cn + "]", key: "schnorr.ZKVProof.Verify", pairs: "always",
		comps: []*l2Comp{cPt("Alpha", ed), cS("T"), cS("U"), cPt("V", ed), cPt("R", ed), cRaw("Session")},
		setup: func() *l2Inst {
			sess := l2Session()
			q := ec.Params().N
			R := c10.MulG(ec, c10.Generic("c06l2/schnorrv/r/"+cn, q))
			pf, V, err := c10.BuildSchnorrV(ec, sess, R, c10.Generic("c06l2/schnorrv/s/"+cn, q), c10.Generic("c06l2/schnorrv/l/"+cn, q), "c06l2/schnorrv/"+cn)
			l2Must(err)
			return &l2Inst{ctx: l2CtxFor(ec), expect: "true", prepare: func(m *l2Mut) func() string {
				p2 := &schnorr.ZKVProof{Alpha: m.point("Alpha", ec, pf.Alpha), T: m.num("T", pf.T), U: m.num("U", pf.U)}
				V2, R2, s2 := m.point("V", ec, V), m.point("R", ec, R), m.raw("Session", sess)
				return func() string { return fmt.Sprint(p2.Verify(s2, V2, R2)) }
			}}
		}}
}

// ---------------------------------------------------------------- Feldman VSS

func l2VssBase(ec elliptic.Curve, cn string) (vss.Vs, vss.Shares) {
	q := ec.Params().N
	ids := []*big.Int{}
	for i := 0; i < 4; i++ {
		ids = append(ids, c10.Generic(fmt.Sprintf("c06l2/vss/id/%s/%d", cn, i), q))
	}
	vs, shares, err := vss.Create(ec, 2, c10.Generic("c06l2/vss/secret/"+cn, q), ids, core.NewDRBG("c06l2/vss/"+cn))
	l2Must(err)
	return vs, shares
}

func l2FreshPoints(in []*crypto.ECPoint) []*crypto.ECPoint {
	out := make([]*crypto.ECPoint, len(in))
	for i, p := range in {
		out[i] = crypto.NewECPointNoCurveCheck(p.Curve(), p.X(), p.Y())
	}
	return out
}

func tVssVerify(ec elliptic.Curve) *l2Target {
	ed, cn := l2IsEd(ec), l2CurveName(ec)
	return &l2Target{name: "vss.Share.Verify[" + cn + "]", key: "vss.Share.Verify", pairs: "thorough",
		comps: []*l2Comp{cI("share.Threshold"), cS("share.ID"), cS("share.Share"), cI("threshold"), cL("vs", kPoints),
			cPt("vs[0]", ed).of("vs"), cPt("vs[1]", ed).of("vs"), cPt("vs[2]", ed).of("vs")},
		setup: func() *l2Inst {
			vs, shares := l2VssBase(ec, cn)
			return &l2Inst{ctx: l2CtxFor(ec), expect: "true", prepare: func(m *l2Mut) func() string {
				sh := &vss.Share{Threshold: m.integer("share.Threshold", 2), ID: m.num("share.ID", shares[0].ID), Share: m.num("share.Share", shares[0].Share)}
				thr := m.integer("threshold", 2)
				v2 := vss.Vs(m.points("vs", ec, l2FreshPoints(vs))) // Verify re-labels the points' curve: fresh objects per call
				return func() string { return fmt.Sprint(sh.Verify(ec, thr, v2)) }
			}}
		}}
}

func tVssReconstruct(ec elliptic.Curve) *l2Target {
	cn := l2CurveName(ec)
	comps := []*l2Comp{cL("shares", kShares), cI("shares[0].Threshold").of("shares")}
	for i := 0; i < 3; i++ {
		id := cS(fmt.Sprintf("shares[%d].ID", i)).of("shares")
		if i == 0 {
			id.plus("same-as-shares[1].ID")
		}
		comps = append(comps, id, cS(fmt.Sprintf("shares[%d].Share", i)).of("shares"))
	}
	return &l2Target{name: "vss.Shares.ReConstruct[" + cn + "]", key: "vss.Shares.ReConstruct", pairs: "thorough", comps: comps,
		inadm: "neither verifier nor decoder: reconstruction from a party's own shares",
		setup: func() *l2Inst {
			_, shares := l2VssBase(ec, cn)
			inst := &l2Inst{ctx: l2CtxFor(ec), expect: "ok"}
			inst.extra = func(comp, val string) (interface{}, bool) {
				if val == "same-as-shares[1].ID" {
					return new(big.Int).Set(shares[1].ID), true
				}
				return nil, false
			}
			inst.prepare = func(m *l2Mut) func() string {
				n := 3
				if v, ok := m.has("shares"); ok {
					keep, extra := l2ListShape(v, 3)
					n = clampKeep(keep, 3) + extra
					m.note("shares", fmt.Sprintf("%d shares instead of 3", n))
				}
				list := make(vss.Shares, 0, n)
				for i := 0; i < n; i++ {
					s := &vss.Share{Threshold: shares[i].Threshold, ID: shares[i].ID, Share: shares[i].Share}
					if i < 3 {
						s.ID = m.num(fmt.Sprintf("shares[%d].ID", i), s.ID)
						s.Share = m.num(fmt.Sprintf("shares[%d].Share", i), s.Share)
						if i == 0 {
							s.Threshold = m.integer("shares[0].Threshold", s.Threshold)
						}
					}
					list = append(list, s)
				}
				// element components of a list that no longer holds them count as consumed
				for _, c := range m.tgt.comps {
					if c.parent == "shares" {
						if _, ok := m.repl[c.name]; ok {
							m.used[c.name] = true
						}
					}
				}
				return func() string { _, err := list.ReConstruct(ec); return l2OkErr(err) }
			}
			return inst
		}}
}

// ---------------------------------------------------------------- commitments

func tCommit(fn string) *l2Target {
	return &l2Target{name: "commitments.HashCommitDecommit." + fn, key: "commitments.HashCommitDecommit." + fn, pairs: "thorough",
		comps: []*l2Comp{cN("C"), cL("D", kInts), cN("D[0]").of("D"), cN("D[1]").of("D"), cN("D[2]").of("D")},
		setup: func() *l2Inst {
			q := tss.S256().Params().N
			base := cmts.NewHashCommitmentWithRandomness(new(big.Int).SetBytes(core.Bytes("c06l2/cmt/r", 32)), c10.Generic("c06l2/cmt/a", q), c10.Generic("c06l2/cmt/b", q))
			return &l2Inst{ctx: l2CtxFor(tss.S256()), expect: "true", prepare: func(m *l2Mut) func() string {
				c := &cmts.HashCommitDecommit{C: m.num("C", base.C), D: m.ints("D", base.D)}
				l2ConsumeChildren(m, "D")
				if fn == "Verify" {
					return func() string { return fmt.Sprint(c.Verify()) }
				}
				return func() string { ok, _ := c.DeCommit(); return fmt.Sprint(ok) }
			}}
		}}
}

// l2ConsumeChildren marks element components of a shortened list as consumed (the pair degenerates to the list mutation).
func l2ConsumeChildren(m *l2Mut, parent string) {
	for _, c := range m.tgt.comps {
		if c.parent == parent {
			if _, ok := m.repl[c.name]; ok {
				m.used[c.name] = true
			}
		}
	}
}

func tParseSecrets() *l2Target {
	return &l2Target{name: "commitments.ParseSecrets", key: "commitments.ParseSecrets", pairs: "thorough",
		comps: []*l2Comp{cL("secrets", kInts), cL("secrets[0]", kLenPfx).of("secrets"), cN("secrets[1]").of("secrets"),
			cL("secrets[3]", kLenPfx).of("secrets"), cN("secrets[6]").of("secrets")},
		setup: func() *l2Inst {
			q := tss.S256().Params().N
			g := func(s string) *big.Int { return c10.Generic("c06l2/parse/"+s, q) }
			base, err := cmts.NewBuilder().AddPart([]*big.Int{g("a"), g("b")}).AddPart([]*big.Int{g("c"), g("d"), g("e")}).Secrets()
			l2Must(err)
			return &l2Inst{ctx: l2CtxFor(tss.S256()), expect: "ok:2", prepare: func(m *l2Mut) func() string {
				in := m.ints("secrets", base)
				l2ConsumeChildren(m, "secrets")
				return func() string {
					parts, err := cmts.ParseSecrets(in)
					if err != nil {
						return "err"
					}
					return fmt.Sprintf("ok:%d", len(parts))
				}
			}}
		}}
}

// ---------------------------------------------------------------- dln proof

func tDLNVerify(tier string) *l2Target {
	idx := l2Idx(tier, dlnproof.Iterations)
	comps := []*l2Comp{cN("h1"), cN("h2"), cMd("N", "")}
	for _, i := range idx {
		comps = append(comps, cN(fmt.Sprintf("Alpha[%d]", i)), cN(fmt.Sprintf("T[%d]", i)))
	}
	return &l2Target{name: "dlnproof.Proof.Verify", key: "dlnproof.Proof.Verify", comps: comps,
		setup: func() *l2Inst {
			p := l2P()[0]
			h1, h2, x := c10.DLNStatement(p, 0)
			pf := c10.BuildDLN(p, h1, h2, x, "c06l2/dln")
			ctx := &l2Ctx{ec: tss.S256(), mods: map[string]*big.Int{"N": p.NTilde}}
			return &l2Inst{ctx: ctx, expect: "true", prepare: func(m *l2Mut) func() string {
				p2 := &dlnproof.Proof{Alpha: pf.Alpha, T: pf.T}
				for _, i := range idx {
					p2.Alpha[i] = m.num(fmt.Sprintf("Alpha[%d]", i), pf.Alpha[i])
					p2.T[i] = m.num(fmt.Sprintf("T[%d]", i), pf.T[i])
				}
				a, b, n := m.num("h1", h1), m.num("h2", h2), m.num("N", p.NTilde)
				return func() string { return fmt.Sprint(p2.Verify(a, b, n)) }
			}}
		}}
}

func tDLNUnmarshal() *l2Target {
	n := dlnproof.Iterations
	last := 2*n + 1
	return &l2Target{name: "dlnproof.UnmarshalDLNProof(+Verify)", key: "dlnproof.UnmarshalDLNProof",
		comps: []*l2Comp{cL("bzs", kBytesL), cWireLen("bzs[0]").of("bzs"), cW("bzs[1]", "").of("bzs"),
			cWireLen(fmt.Sprintf("bzs[%d]", n+1)).of("bzs"), cW(fmt.Sprintf("bzs[%d]", last), "").of("bzs")},
		setup: func() *l2Inst {
			p := l2P()[0]
			h1, h2, x := c10.DLNStatement(p, 0)
			pf := c10.BuildDLN(p, h1, h2, x, "c06l2/dln")
			bzs, err := pf.Serialize()
			l2Must(err)
			ctx := &l2Ctx{ec: tss.S256(), mods: map[string]*big.Int{"N": p.NTilde}}
			return &l2Inst{ctx: ctx, expect: "decoded:true", prepare: func(m *l2Mut) func() string {
				in := m.bytesList("bzs", bzs)
				l2ConsumeChildren(m, "bzs")
				return func() string {
					d, err := dlnproof.UnmarshalDLNProof(in)
					if err != nil {
						return "err"
					}
					return fmt.Sprint("decoded:", d.Verify(h1, h2, p.NTilde))
				}
			}}
		}}
}

// ---------------------------------------------------------------- mod proof

func tModVerify(tier string) *l2Target {
	idx := l2Idx(tier, modproof.Iterations)
	comps := []*l2Comp{cMd("N", ""), cRaw("Session"), cN("W"), cN("A"), cN("B")}
	for _, i := range idx {
		comps = append(comps, cN(fmt.Sprintf("X[%d]", i)), cN(fmt.Sprintf("Z[%d]", i)))
	}
	return &l2Target{name: "modproof.ProofMod.Verify", key: "modproof.ProofMod.Verify", comps: comps,
		setup: func() *l2Inst {
			p := l2P()[0]
			sess := l2Session()
			pf, err := c10.BuildMod(p, sess, false, "c06l2/mod")
			l2Must(err)
			return &l2Inst{ctx: l2CtxFor(tss.S256()), expect: "true", prepare: func(m *l2Mut) func() string {
				p2 := &modproof.ProofMod{W: m.num("W", pf.W), X: pf.X, A: m.num("A", pf.A), B: m.num("B", pf.B), Z: pf.Z}
				for _, i := range idx {
					p2.X[i] = m.num(fmt.Sprintf("X[%d]", i), pf.X[i])
					p2.Z[i] = m.num(fmt.Sprintf("Z[%d]", i), pf.Z[i])
				}
				n, s := m.num("N", p.SK.N), m.raw("Session", sess)
				return func() string { return fmt.Sprint(p2.Verify(s, n)) }
			}}
		}}
}

func tModFromBytes() *l2Target {
	it := modproof.Iterations
	return &l2Target{name: "modproof.NewProofFromBytes(+Verify)", key: "modproof.NewProofFromBytes",
		comps: []*l2Comp{cL("bzs", kBytesL), cW("bzs[0]", "").of("bzs"), cW(fmt.Sprintf("bzs[%d]", it+1), "").of("bzs"), cW(fmt.Sprintf("bzs[%d]", 2*it+2), "").of("bzs")},
		setup: func() *l2Inst {
			p := l2P()[0]
			sess := l2Session()
			pf, err := c10.BuildMod(p, sess, false, "c06l2/mod")
			l2Must(err)
			arr := pf.Bytes()
			return &l2Inst{ctx: l2CtxFor(tss.S256()), expect: "decoded:true", prepare: func(m *l2Mut) func() string {
				in := m.bytesList("bzs", arr[:])
				l2ConsumeChildren(m, "bzs")
				return func() string {
					d, err := modproof.NewProofFromBytes(in)
					if err != nil {
						return "err"
					}
					return fmt.Sprint("decoded:", d.Verify(sess, p.SK.N))
				}
			}}
		}}
}

// ---------------------------------------------------------------- fac proof

func l2FacFromFlat(f []*big.Int) *facproof.ProofFac {
	return &facproof.ProofFac{P: f[0], Q: f[1], A: f[2], B: f[3], T: f[4], Sigma: f[5], Z1: f[6], Z2: f[7], W1: f[8], W2: f[9], V: f[10]}
}

func tFacVerify() *l2Target {
	comps := []*l2Comp{}
	for i, n := range c10.FacNames {
		if i < 5 {
			comps = append(comps, cNM(n, "NT"))
		} else {
			comps = append(comps, cN(n))
		}
	}
	comps = append(comps, cMd("N0", "N"), cMd("NCap", "NT"), cNM("s", "NT"), cNM("t", "NT"), cRaw("Session"))
	return &l2Target{name: "facproof.ProofFac.Verify", key: "facproof.ProofFac.Verify", comps: comps,
		setup: func() *l2Inst {
			ps := l2P()
			sess := l2Session()
			ec := tss.S256()
			pf, err := c10.BuildFac(ps[0], ps[1], ec, sess, "c06l2/fac")
			l2Must(err)
			flat := c10.FacFlat(pf)
			return &l2Inst{ctx: l2CtxFor(ec), expect: "true", prepare: func(m *l2Mut) func() string {
				f2 := make([]*big.Int, len(flat))
				for i, n := range c10.FacNames {
					f2[i] = m.num(n, flat[i])
				}
				p2 := l2FacFromFlat(f2)
				n0, nc, s, t, se := m.num("N0", ps[0].SK.N), m.num("NCap", ps[1].NTilde), m.num("s", ps[1].H1), m.num("t", ps[1].H2), m.raw("Session", sess)
				return func() string { return fmt.Sprint(p2.Verify(se, ec, n0, nc, s, t)) }
			}}
		}}
}

func tFacFromBytes() *l2Target {
	return &l2Target{name: "facproof.NewProofFromBytes(+Verify)", key: "facproof.NewProofFromBytes",
		comps: []*l2Comp{cL("bzs", kBytesL), cW("bzs[0]", "NT").of("bzs"), cW("bzs[6]", "").of("bzs"), cW("bzs[10]", "").of("bzs")},
		setup: func() *l2Inst {
			ps := l2P()
			sess := l2Session()
			ec := tss.S256()
			pf, err := c10.BuildFac(ps[0], ps[1], ec, sess, "c06l2/fac")
			l2Must(err)
			arr := pf.Bytes()
			return &l2Inst{ctx: l2CtxFor(ec), expect: "decoded:true", prepare: func(m *l2Mut) func() string {
				in := m.bytesList("bzs", arr[:])
				l2ConsumeChildren(m, "bzs")
				return func() string {
					d, err := facproof.NewProofFromBytes(in)
					if err != nil {
						return "err"
					}
					return fmt.Sprint("decoded:", d.Verify(sess, ec, ps[0].SK.N, ps[1].NTilde, ps[1].H1, ps[1].H2))
				}
			}}
		}}
}

// ---------------------------------------------------------------- Paillier

func tPaillierProof(tier string) *l2Target {
	idx := l2Idx(tier, paillier.ProofIters)
	pkN := cMd("pkN", "")
	pkN.bitlen = true
	comps := []*l2Comp{pkN, cN("k"), cPt("ecdsaPub", false)}
	for _, i := range idx {
		comps = append(comps, cN(fmt.Sprintf("pi[%d]", i)))
	}
	return &l2Target{name: "paillier.Proof.Verify", key: "paillier.Proof.Verify", comps: comps,
		setup: func() *l2Inst {
			p := l2P()[0]
			pf := p.SK.Proof(p.Key, p.Pub)
			return &l2Inst{ctx: l2CtxFor(tss.S256()), expect: "true", prepare: func(m *l2Mut) func() string {
				p2 := pf
				for _, i := range idx {
					p2[i] = m.num(fmt.Sprintf("pi[%d]", i), pf[i])
				}
				n, k, pub := m.num("pkN", p.SK.N), m.num("k", p.Key), m.point("ecdsaPub", tss.S256(), p.Pub)
				return func() string {
					ok, err := p2.Verify(n, k, pub)
					if err != nil {
						return "err"
					}
					return fmt.Sprint(ok)
				}
			}}
		}}
}

func tPaillierEncrypt() *l2Target {
	return &l2Target{name: "paillier.PublicKey.Encrypt", key: "paillier.PublicKey.Encrypt", comps: []*l2Comp{cMd("pk.N", ""), cN("m")},
		setup: func() *l2Inst {
			p := l2P()[0]
			msg := c10.Generic("c06l2/paillier/m", tss.S256().Params().N)
			return &l2Inst{ctx: l2CtxFor(tss.S256()), expect: "ok", prepare: func(m *l2Mut) func() string {
				pk := &paillier.PublicKey{N: m.num("pk.N", p.SK.N)}
				mm := m.num("m", msg)
				return func() string { _, err := pk.Encrypt(core.NewDRBG("c06l2/paillier/enc"), mm); return l2OkErr(err) }
			}}
		}}
}

func l2Cipher(p c10.Params, label string) *big.Int {
	c, err := p.PK.Encrypt(core.NewDRBG(label), c10.Generic(label, tss.S256().Params().N))
	l2Must(err)
	return c
}

func tPaillierHomoAdd() *l2Target {
	return &l2Target{name: "paillier.PublicKey.HomoAdd", key: "paillier.PublicKey.HomoAdd", comps: []*l2Comp{cMd("pk.N", ""), cN("c1"), cN("c2")},
		setup: func() *l2Inst {
			p := l2P()[0]
			c1, c2 := l2Cipher(p, "c06l2/paillier/c1"), l2Cipher(p, "c06l2/paillier/c2")
			return &l2Inst{ctx: l2CtxFor(tss.S256()), expect: "ok", prepare: func(m *l2Mut) func() string {
				pk := &paillier.PublicKey{N: m.num("pk.N", p.SK.N)}
				a, b := m.num("c1", c1), m.num("c2", c2)
				return func() string { _, err := pk.HomoAdd(a, b); return l2OkErr(err) }
			}}
		}}
}

func tPaillierHomoMult() *l2Target {
	return &l2Target{name: "paillier.PublicKey.HomoMult", key: "paillier.PublicKey.HomoMult", comps: []*l2Comp{cMd("pk.N", ""), cN("m"), cN("c1")},
		setup: func() *l2Inst {
			p := l2P()[0]
			c1 := l2Cipher(p, "c06l2/paillier/c1")
			msg := c10.Generic("c06l2/paillier/m", tss.S256().Params().N)
			return &l2Inst{ctx: l2CtxFor(tss.S256()), expect: "ok", prepare: func(m *l2Mut) func() string {
				pk := &paillier.PublicKey{N: m.num("pk.N", p.SK.N)}
				a, b := m.num("m", msg), m.num("c1", c1)
				return func() string { _, err := pk.HomoMult(a, b); return l2OkErr(err) }
			}}
		}}
}

func tPaillierDecrypt() *l2Target {
	return &l2Target{name: "paillier.PrivateKey.Decrypt", key: "paillier.PrivateKey.Decrypt", comps: []*l2Comp{cN("c")},
		setup: func() *l2Inst {
			p := l2P()[0]
			c1 := l2Cipher(p, "c06l2/paillier/c1")
			return &l2Inst{ctx: l2CtxFor(tss.S256()), expect: "ok", prepare: func(m *l2Mut) func() string {
				c := m.num("c", c1)
				return func() string { _, err := p.SK.Decrypt(c); return l2OkErr(err) }
			}}
		}}
}

// ---------------------------------------------------------------- MtA proofs

var l2RangeMods = []string{"NT", "N", "NT", "N", "", ""} // Z U W S S1 S2

func l2RangeFromFlat(f []*big.Int) *mta.RangeProofAlice {
	return &mta.RangeProofAlice{Z: f[0], U: f[1], W: f[2], S: f[3], S1: f[4], S2: f[5]}
}

func l2RangeComps(prefix string) []*l2Comp {
	out := []*l2Comp{}
	for i, n := range c10.RangeNames {
		out = append(out, cNM(prefix+n, l2RangeMods[i]))
	}
	return out
}

func l2MutRange(m *l2Mut, prefix string, pf *mta.RangeProofAlice) *mta.RangeProofAlice {
	flat := c10.RangeFlat(pf)
	f2 := make([]*big.Int, len(flat))
	for i, n := range c10.RangeNames {
		f2[i] = m.num(prefix+n, flat[i])
	}
	return l2RangeFromFlat(f2)
}

func l2RangeBase() *c10.RangeCase {
	ps := l2P()
	rc, err := c10.BuildRange(ps[0], ps[1], tss.S256(), c10.Generic("c06l2/range/m", tss.S256().Params().N), "c06l2/range")
	l2Must(err)
	return rc
}

func tRangeVerify() *l2Target {
	comps := append(l2RangeComps(""), cMd("pk.N", "N"), cMd("NTilde", "NT"), cNM("h1", "NT"), cNM("h2", "NT"), cNM("c", "N"))
	return &l2Target{name: "mta.RangeProofAlice.Verify", key: "mta.RangeProofAlice.Verify", comps: comps,
		setup: func() *l2Inst {
			ps := l2P()
			ec := tss.S256()
			rc := l2RangeBase()
			return &l2Inst{ctx: l2CtxFor(ec), expect: "true", prepare: func(m *l2Mut) func() string {
				p2 := l2MutRange(m, "", rc.Pf)
				pk := &paillier.PublicKey{N: m.num("pk.N", ps[0].SK.N)}
				nt, h1, h2, c := m.num("NTilde", ps[1].NTilde), m.num("h1", ps[1].H1), m.num("h2", ps[1].H2), m.num("c", rc.C)
				return func() string { return fmt.Sprint(p2.Verify(ec, pk, nt, h1, h2, c)) }
			}}
		}}
}

func tRangeFromBytes() *l2Target {
	return &l2Target{name: "mta.RangeProofAliceFromBytes(+Verify)", key: "mta.RangeProofAliceFromBytes",
		comps: []*l2Comp{cL("bzs", kBytesL), cW("bzs[0]", "NT").of("bzs"), cW("bzs[3]", "N").of("bzs"), cW("bzs[4]", "").of("bzs"), cW("bzs[5]", "").of("bzs")},
		setup: func() *l2Inst {
			ps := l2P()
			ec := tss.S256()
			rc := l2RangeBase()
			arr := rc.Pf.Bytes()
			return &l2Inst{ctx: l2CtxFor(ec), expect: "decoded:true", prepare: func(m *l2Mut) func() string {
				in := m.bytesList("bzs", arr[:])
				l2ConsumeChildren(m, "bzs")
				return func() string {
					d, err := mta.RangeProofAliceFromBytes(in)
					if err != nil {
						return "err"
					}
					return fmt.Sprint("decoded:", d.Verify(ec, ps[0].PK, ps[1].NTilde, ps[1].H1, ps[1].H2, rc.C))
				}
			}}
		}}
}

var l2BobMods = []string{"NT", "NT", "NT", "N", "NT", "N", "", "", "", ""} // Z ZPrm T V W S S1 S2 T1 T2

func l2BobFromFlat(f []*big.Int) *mta.ProofBob {
	return &mta.ProofBob{Z: f[0], ZPrm: f[1], T: f[2], V: f[3], W: f[4], S: f[5], S1: f[6], S2: f[7], T1: f[8], T2: f[9]}
}

func l2BobComps(ntMod string) []*l2Comp {
	out := []*l2Comp{}
	for i, n := range c10.BobNames {
		md := l2BobMods[i]
		if md == "NT" {
			md = ntMod
		}
		out = append(out, cNM(n, md))
	}
	return out
}

func l2MutBob(m *l2Mut, pf *mta.ProofBob) *mta.ProofBob {
	flat := c10.BobFlat(pf)
	f2 := make([]*big.Int, len(flat))
	for i, n := range c10.BobNames {
		f2[i] = m.num(n, flat[i])
	}
	return l2BobFromFlat(f2)
}

// l2BobBase: the Paillier key is set 0's (Alice), the ring-Pedersen parameters are those of `ring`.
func l2BobBase(ring int, wc bool) *c10.BobCase {
	ps := l2P()
	q := tss.S256().Params().N
	bc, err := c10.BuildBob(ps[0], ps[ring], tss.S256(), l2Session(), c10.Generic("c06l2/bob/x", q), c10.Generic("c06l2/bob/y", c10.Q5(tss.S256())), wc, fmt.Sprintf("c06l2/bob/%d/%v", ring, wc))
	l2Must(err)
	return bc
}

func l2BobName(wc bool) string {
	if wc {
		return "ProofBobWC"
	}
	return "ProofBob"
}

func tBobVerify(wc bool) *l2Target {
	comps := append(l2BobComps("NT"), cMd("pk.N", "N"), cMd("NTilde", "NT"), cNM("h1", "NT"), cNM("h2", "NT"), cNM("c1", "N"), cNM("c2", "N"), cRaw("Session"))
	if wc {
		comps = append(comps, cPt("U", false), cPt("X", false))
		markQ(comps, "S1") // g^(s1 mod q) is computed in the "with check" variant
	}
	nm := "mta." + l2BobName(wc) + ".Verify"
	return &l2Target{name: nm, key: nm, comps: comps,
		setup: func() *l2Inst {
			ps := l2P()
			ec := tss.S256()
			sess := l2Session()
			bc := l2BobBase(1, wc)
			return &l2Inst{ctx: l2CtxFor(ec), expect: "true", prepare: func(m *l2Mut) func() string {
				p2 := l2MutBob(m, bc.Pf)
				pk := &paillier.PublicKey{N: m.num("pk.N", ps[0].SK.N)}
				nt, h1, h2 := m.num("NTilde", ps[1].NTilde), m.num("h1", ps[1].H1), m.num("h2", ps[1].H2)
				c1, c2, se := m.num("c1", bc.C1), m.num("c2", bc.C2), m.raw("Session", sess)
				if wc {
					w := &mta.ProofBobWC{ProofBob: p2, U: m.point("U", ec, bc.PfWC.U)}
					X := m.point("X", ec, bc.X)
					return func() string { return fmt.Sprint(w.Verify(se, ec, pk, nt, h1, h2, c1, c2, X)) }
				}
				return func() string { return fmt.Sprint(p2.Verify(se, ec, pk, nt, h1, h2, c1, c2)) }
			}}
		}}
}

func tBobFromBytes(wc bool) *l2Target {
	comps := []*l2Comp{cL("bzs", kBytesL), cW("bzs[0]", "NT").of("bzs"), cW("bzs[3]", "N").of("bzs"), cW("bzs[6]", "").of("bzs"), cW("bzs[9]", "").of("bzs")}
	if wc {
		comps = append(comps, cW("bzs[10]", "").of("bzs").plus("p-1", "p", "p+1"), cW("bzs[11]", "").of("bzs").plus("p-1", "p", "p+1"))
		markQ(comps, "bzs[6]")
	}
	nm := "mta." + l2BobName(wc) + "FromBytes"
	return &l2Target{name: nm + "(+Verify)", key: nm, comps: comps,
		setup: func() *l2Inst {
			ps := l2P()
			ec := tss.S256()
			sess := l2Session()
			bc := l2BobBase(1, wc)
			var base [][]byte
			if wc {
				a := bc.PfWC.Bytes()
				base = a[:]
			} else {
				a := bc.Pf.Bytes()
				base = a[:]
			}
			return &l2Inst{ctx: l2CtxFor(ec), expect: "decoded:true", prepare: func(m *l2Mut) func() string {
				in := m.bytesList("bzs", base)
				l2ConsumeChildren(m, "bzs")
				if wc {
					return func() string {
						d, err := mta.ProofBobWCFromBytes(ec, in)
						if err != nil {
							return "err"
						}
						return fmt.Sprint("decoded:", d.Verify(sess, ec, ps[0].PK, ps[1].NTilde, ps[1].H1, ps[1].H2, bc.C1, bc.C2, bc.X))
					}
				}
				return func() string {
					d, err := mta.ProofBobFromBytes(in)
					if err != nil {
						return "err"
					}
					return fmt.Sprint("decoded:", d.Verify(sess, ec, ps[0].PK, ps[1].NTilde, ps[1].H1, ps[1].H2, bc.C1, bc.C2))
				}
			}}
		}}
}

func tBobMid(wc bool) *l2Target {
	comps := append(l2RangeComps("pf."), cN("b"), cNM("cA", "N"), cMd("pkA.N", "N"), cMd("NTildeA", "NTA"), cNM("h1A", "NTA"), cNM("h2A", "NTA"),
		cMd("NTildeB", "NT"), cNM("h1B", "NT"), cNM("h2B", "NT"), cRaw("Session"))
	nm := "mta.BobMid"
	if wc {
		nm = "mta.BobMidWC"
		comps = append(comps, cPt("B", false))
	}
	for _, c := range comps {
		switch c.name {
		case "b", "B", "NTildeA", "h1A", "h2A":
			c.inadm = "argument used only by the proving half of a function that verifies and then proves (the caller's secret, its point, the stored parameters it proves against)"
		}
	}
	return &l2Target{name: nm, key: nm, comps: comps,
		setup: func() *l2Inst {
			ps := l2P()
			ec := tss.S256()
			sess := l2Session()
			rc := l2RangeBase() // Alice = set 0 proves to Bob = set 1
			b := c10.Generic("c06l2/bobmid/b", ec.Params().N)
			B := c10.MulG(ec, b)
			return &l2Inst{ctx: l2CtxFor(ec), expect: "ok", prepare: func(m *l2Mut) func() string {
				pf := l2MutRange(m, "pf.", rc.Pf)
				pkA := &paillier.PublicKey{N: m.num("pkA.N", ps[0].SK.N)}
				bb, cA := m.num("b", b), m.num("cA", rc.C)
				nta, h1a, h2a := m.num("NTildeA", ps[0].NTilde), m.num("h1A", ps[0].H1), m.num("h2A", ps[0].H2)
				ntb, h1b, h2b := m.num("NTildeB", ps[1].NTilde), m.num("h1B", ps[1].H1), m.num("h2B", ps[1].H2)
				se := m.raw("Session", sess)
				if wc {
					BB := m.point("B", ec, B)
					return func() string {
						_, _, _, _, err := mta.BobMidWC(se, ec, pkA, pf, bb, cA, nta, h1a, h2a, ntb, h1b, h2b, BB, core.NewDRBG("c06l2/bobmid/rand"))
						return l2OkErr(err)
					}
				}
				return func() string {
					_, _, _, _, err := mta.BobMid(se, ec, pkA, pf, bb, cA, nta, h1a, h2a, ntb, h1b, h2b, core.NewDRBG("c06l2/bobmid/rand"))
					return l2OkErr(err)
				}
			}}
		}}
}

func tAliceEnd(wc bool) *l2Target {
	comps := append(l2BobComps("NTA"), cNM("cA", "N"), cNM("cB", "N"), cMd("pkA.N", "N"), cMd("NTildeA", "NTA"), cNM("h1A", "NTA"), cNM("h2A", "NTA"), cRaw("Session"))
	nm := "mta.AliceEnd"
	if wc {
		nm = "mta.AliceEndWC"
		comps = append(comps, cPt("U", false), cPt("B", false))
		markQ(comps, "S1")
	}
	return &l2Target{name: nm, key: nm, comps: comps,
		setup: func() *l2Inst {
			ps := l2P()
			ec := tss.S256()
			sess := l2Session()
			bc := l2BobBase(0, wc) // Bob proves against Alice's (set 0) key and ring parameters
			return &l2Inst{ctx: l2CtxFor(ec), expect: "ok", prepare: func(m *l2Mut) func() string {
				p2 := l2MutBob(m, bc.Pf)
				pkA := &paillier.PublicKey{N: m.num("pkA.N", ps[0].SK.N)}
				cA, cB := m.num("cA", bc.C1), m.num("cB", bc.C2)
				nta, h1a, h2a, se := m.num("NTildeA", ps[0].NTilde), m.num("h1A", ps[0].H1), m.num("h2A", ps[0].H2), m.raw("Session", sess)
				if wc {
					w := &mta.ProofBobWC{ProofBob: p2, U: m.point("U", ec, bc.PfWC.U)}
					B := m.point("B", ec, bc.X)
					return func() string {
						_, err := mta.AliceEndWC(se, ec, pkA, w, B, cA, cB, nta, h1a, h2a, ps[0].SK)
						return l2OkErr(err)
					}
				}
				return func() string {
					_, err := mta.AliceEnd(se, ec, pkA, p2, h1a, h2a, cA, cB, nta, ps[0].SK)
					return l2OkErr(err)
				}
			}}
		}}
}

// ---------------------------------------------------------------- ECPoint constructors, decoders, arithmetic

func l2G(ec elliptic.Curve) *crypto.ECPoint {
	return crypto.NewECPointNoCurveCheck(ec, new(big.Int).Set(ec.Params().Gx), new(big.Int).Set(ec.Params().Gy))
}

func l2GenericPoint(ec elliptic.Curve, label string) *crypto.ECPoint {
	return c10.MulG(ec, c10.Generic("c06l2/point/"+label+"/"+l2CurveName(ec), ec.Params().N))
}

func tNewECPoint(ec elliptic.Curve) *l2Target {
	cn := l2CurveName(ec)
	return &l2Target{name: "crypto.NewECPoint[" + cn + "]", key: "crypto.NewECPoint", pairs: "thorough", comps: []*l2Comp{cCo("X"), cCo("Y")},
		setup: func() *l2Inst {
			g := l2GenericPoint(ec, "new")
			return &l2Inst{ctx: l2CtxFor(ec), expect: "ok", prepare: func(m *l2Mut) func() string {
				x, y := m.num("X", g.X()), m.num("Y", g.Y())
				return func() string { _, err := crypto.NewECPoint(ec, x, y); return l2OkErr(err) }
			}}
		}}
}

func tUnFlatten(ec elliptic.Curve) *l2Target {
	cn := l2CurveName(ec)
	return &l2Target{name: "crypto.UnFlattenECPoints[" + cn + "]", key: "crypto.UnFlattenECPoints",
		comps: []*l2Comp{cL("in", kInts), cCo("in[0]").of("in"), cCo("in[3]").of("in")},
		setup: func() *l2Inst {
			a, b := l2GenericPoint(ec, "unflat/a"), l2GenericPoint(ec, "unflat/b")
			base := []*big.Int{a.X(), a.Y(), b.X(), b.Y()}
			return &l2Inst{ctx: l2CtxFor(ec), expect: "ok", prepare: func(m *l2Mut) func() string {
				in := m.ints("in", base)
				l2ConsumeChildren(m, "in")
				return func() string { _, err := crypto.UnFlattenECPoints(ec, in); return l2OkErr(err) }
			}}
		}}
}

func tFlatten(ec elliptic.Curve) *l2Target {
	ed, cn := l2IsEd(ec), l2CurveName(ec)
	return &l2Target{name: "crypto.FlattenECPoints[" + cn + "]", key: "crypto.FlattenECPoints",
		comps: []*l2Comp{cL("in", kPoints), cPt("in[0]", ed).of("in")},
		setup: func() *l2Inst {
			base := []*crypto.ECPoint{l2GenericPoint(ec, "flat/a"), l2GenericPoint(ec, "flat/b")}
			return &l2Inst{ctx: l2CtxFor(ec), expect: "ok", prepare: func(m *l2Mut) func() string {
				in := m.points("in", ec, base)
				l2ConsumeChildren(m, "in")
				return func() string { _, err := crypto.FlattenECPoints(in); return l2OkErr(err) }
			}}
		}}
}

func tPointJSON(ec elliptic.Curve) *l2Target {
	cn := l2CurveName(ec)
	return &l2Target{name: "crypto.ECPoint.UnmarshalJSON[" + cn + "]", key: "crypto.ECPoint.UnmarshalJSON",
		comps: []*l2Comp{{name: "Coords[0]", kind: kSignedCo}, {name: "Coords[1]", kind: kSignedCo},
			cCustom("Curve", "absent", "empty-string", "other-curve-name", "unknown-name", "number"),
			cCustom("Coords", "one-element", "three-elements", "empty-array", "null-elements", "absent", "strings", "fraction"),
			cCustom("payload", "empty", "null", "empty-object", "array", "truncated", "number", "nested-1000")},
		setup: func() *l2Inst {
			g := l2GenericPoint(ec, "json")
			return &l2Inst{ctx: l2CtxFor(ec), expect: "ok:true", prepare: func(m *l2Mut) func() string {
				x, y := m.num("Coords[0]", g.X()), m.num("Coords[1]", g.Y())
				curve := fmt.Sprintf(`"Curve":%q,`, cn)
				if v, ok := m.has("Curve"); ok {
					switch v {
					case "absent":
						curve = ""
					case "empty-string":
						curve = `"Curve":"",`
					case "other-curve-name":
						curve = fmt.Sprintf(`"Curve":%q,`, l2CurveName(l2OtherCurve(ec)))
					case "unknown-name":
						curve = `"Curve":"p256",`
					case "number":
						curve = `"Curve":7,`
					}
					m.note("Curve", curve)
				}
				coords := fmt.Sprintf(`"Coords":[%s,%s]`, x.String(), y.String())
				if v, ok := m.has("Coords"); ok {
					switch v {
					case "one-element":
						coords = fmt.Sprintf(`"Coords":[%s]`, x.String())
					case "three-elements":
						coords = fmt.Sprintf(`"Coords":[%s,%s,%s]`, x.String(), y.String(), x.String())
					case "empty-array":
						coords = `"Coords":[]`
					case "null-elements":
						coords = `"Coords":[null,null]`
					case "absent":
						coords = `"X":1`
					case "strings":
						coords = fmt.Sprintf(`"Coords":["%s","%s"]`, x.String(), y.String())
					case "fraction":
						coords = `"Coords":[1.5,2e400]`
					}
					m.note("Coords", coords)
				}
				payload := []byte("{" + curve + coords + "}")
				if v, ok := m.has("payload"); ok {
					switch v {
					case "empty":
						payload = []byte{}
					case "null":
						payload = []byte("null")
					case "empty-object":
						payload = []byte("{}")
					case "array":
						payload = []byte("[1,2]")
					case "truncated":
						payload = payload[:len(payload)/2]
					case "number":
						payload = []byte("12345")
					case "nested-1000":
						b := []byte{}
						for i := 0; i < 1000; i++ {
							b = append(b, '[')
						}
						payload = b
					}
					m.note("payload", l2HexBytes(payload))
				}
				return func() string {
					p := new(crypto.ECPoint)
					if err := p.UnmarshalJSON(payload); err != nil {
						return "err"
					}
					// what a holder of a decoded point does next
					_, _ = p.MarshalJSON()
					return fmt.Sprint("ok:", p.ValidateBasic())
				}
			}}
		}}
}

func tPointGob() *l2Target {
	ec := tss.S256() // GobDecode always assumes the process-wide default curve
	return &l2Target{name: "crypto.ECPoint.GobDecode", key: "crypto.ECPoint.GobDecode",
		comps: []*l2Comp{{name: "X", kind: kSignedCo}, {name: "Y", kind: kSignedCo},
			cCustom("lenX", "0", "1", "len-1", "len+1", "2^31", "2^32-1"), cCustom("lenY", "0", "1", "len-1", "len+1", "2^31", "2^32-1"),
			cCustom("X.gobVersion", "0", "0xff"), cCustom("buf", "empty", "3-bytes", "first-length-only", "trailing-garbage")},
		setup: func() *l2Inst {
			g := l2GenericPoint(ec, "gob")
			u32 := func(v string, honest int) uint32 {
				switch v {
				case "0":
					return 0
				case "1":
					return 1
				case "len-1":
					return uint32(honest - 1)
				case "len+1":
					return uint32(honest + 1)
				case "2^31":
					return 1 << 31
				}
				return 1<<32 - 1
			}
			return &l2Inst{ctx: l2CtxFor(ec), expect: "ok:true", prepare: func(m *l2Mut) func() string {
				xb, _ := m.num("X", g.X()).GobEncode()
				yb, _ := m.num("Y", g.Y()).GobEncode()
				if v, ok := m.has("X.gobVersion"); ok {
					xb = append([]byte{}, xb...)
					if v == "0" {
						xb[0] = 0
					} else {
						xb[0] = 0xff
					}
					m.note("X.gobVersion", v)
				}
				lx, ly := uint32(len(xb)), uint32(len(yb))
				if v, ok := m.has("lenX"); ok {
					lx = u32(v, len(xb))
					m.note("lenX", fmt.Sprint(lx))
				}
				if v, ok := m.has("lenY"); ok {
					ly = u32(v, len(yb))
					m.note("lenY", fmt.Sprint(ly))
				}
				buf := binary.LittleEndian.AppendUint32(nil, lx)
				buf = append(buf, xb...)
				buf = binary.LittleEndian.AppendUint32(buf, ly)
				buf = append(buf, yb...)
				if v, ok := m.has("buf"); ok {
					switch v {
					case "empty":
						buf = []byte{}
					case "3-bytes":
						buf = buf[:3]
					case "first-length-only":
						buf = buf[:4]
					case "trailing-garbage":
						buf = append(buf, core.Bytes("c06l2/gob/trail", 64)...)
					}
					m.note("buf", l2HexBytes(buf))
				}
				return func() string {
					p := new(crypto.ECPoint)
					if err := p.GobDecode(buf); err != nil {
						return "err"
					}
					return fmt.Sprint("ok:", p.ValidateBasic())
				}
			}}
		}}
}

func tScalarBaseMult(ec elliptic.Curve) *l2Target {
	cn := l2CurveName(ec)
	return &l2Target{name: "crypto.ScalarBaseMult[" + cn + "]", key: "crypto.ScalarBaseMult", comps: []*l2Comp{cSd("k")},
		setup: func() *l2Inst {
			k0 := c10.Generic("c06l2/sbm/"+cn, ec.Params().N)
			return &l2Inst{ctx: l2CtxFor(ec), expect: "ok", prepare: func(m *l2Mut) func() string {
				k := m.num("k", k0)
				return func() string { crypto.ScalarBaseMult(ec, k); return "ok" }
			}}
		}}
}

func tScalarMult(ec elliptic.Curve) *l2Target {
	ed, cn := l2IsEd(ec), l2CurveName(ec)
	return &l2Target{name: "crypto.ECPoint.ScalarMult[" + cn + "]", key: "crypto.ECPoint.ScalarMult", pairs: "thorough", comps: []*l2Comp{cPt("p", ed), cSd("k")},
		setup: func() *l2Inst {
			k0 := c10.Generic("c06l2/sm/"+cn, ec.Params().N)
			p0 := l2GenericPoint(ec, "sm")
			return &l2Inst{ctx: l2CtxFor(ec), expect: "ok", prepare: func(m *l2Mut) func() string {
				p, k := m.point("p", ec, p0), m.num("k", k0)
				return func() string { p.ScalarMult(k); return "ok" }
			}}
		}}
}

func tPointAdd(ec elliptic.Curve) *l2Target {
	ed, cn := l2IsEd(ec), l2CurveName(ec)
	return &l2Target{name: "crypto.ECPoint.Add[" + cn + "]", key: "crypto.ECPoint.Add", pairs: "thorough", comps: []*l2Comp{cPt("p", ed), cPt("p1", ed)},
		setup: func() *l2Inst {
			p0, p1 := l2GenericPoint(ec, "add/a"), l2GenericPoint(ec, "add/b")
			return &l2Inst{ctx: l2CtxFor(ec), expect: "ok", prepare: func(m *l2Mut) func() string {
				a, b := m.point("p", ec, p0), m.point("p1", ec, p1)
				return func() string { _, err := a.Add(b); return l2OkErr(err) }
			}}
		}}
}

func tPointMisc(ec elliptic.Curve) *l2Target {
	ed, cn := l2IsEd(ec), l2CurveName(ec)
	return &l2Target{name: "crypto.ECPoint.{ValidateBasic,IsOnCurve,IsInPrimeOrderSubgroup,Equals,ToECDSAPubKey,GobEncode,MarshalJSON}[" + cn + "]", key: "crypto.ECPoint.misc",
		comps: []*l2Comp{cPt("p", ed)},
		setup: func() *l2Inst {
			p0 := l2GenericPoint(ec, "misc")
			return &l2Inst{ctx: l2CtxFor(ec), expect: "true", prepare: func(m *l2Mut) func() string {
				p := m.point("p", ec, p0)
				return func() string {
					ok := p.ValidateBasic()
					p.IsOnCurve()
					p.IsInPrimeOrderSubgroup()
					p.Equals(p0)
					p.ToECDSAPubKey()
					_, _ = p.GobEncode()
					_, _ = p.MarshalJSON()
					return fmt.Sprint(ok)
				}
			}}
		}}
}

func tEightInvEight() *l2Target {
	ec := tss.Edwards()
	return &l2Target{name: "crypto.ECPoint.EightInvEight[ed25519]", key: "crypto.ECPoint.EightInvEight", comps: []*l2Comp{cPt("p", true)},
		setup: func() *l2Inst {
			p0 := l2GenericPoint(ec, "8inv8")
			return &l2Inst{ctx: l2CtxFor(ec), expect: "ok", prepare: func(m *l2Mut) func() string {
				p := m.point("p", ec, p0)
				return func() string { p.EightInvEight(); return "ok" }
			}}
		}}
}

// ---------------------------------------------------------------- child key derivation

func l2CkdBase() (*ckd.ExtendedKey, string) {
	p := l2P()[0]
	k := &ckd.ExtendedKey{PublicKey: *p.Pub.ToECDSAPubKey(), Depth: 0, ChildIndex: 0, ChainCode: core.Bytes("c06l2/ckd/chain", 32),
		ParentFP: []byte{0, 0, 0, 0}, Version: []byte{0x04, 0x88, 0xb2, 0x1e}}
	return k, k.String()
}

func l2B58Check(payload []byte) string {
	h1 := sha256.Sum256(payload)
	h := sha256.Sum256(h1[:])
	return base58.Encode(append(append([]byte{}, payload...), h[:4]...))
}

func tCkdFromString() *l2Target {
	return &l2Target{name: "ckd.NewExtendedKeyFromString", key: "ckd.NewExtendedKeyFromString",
		comps: []*l2Comp{cCustom("key", "empty", "one-char", "last-char-dropped", "one-char-appended", "invalid-base58-char", "bad-checksum",
			"key-prefix-0x00", "key-prefix-0x04", "key-prefix-0x05", "key-x-zero", "key-x-equals-p", "key-x-not-on-curve", "payload-1-byte-short", "payload-1-byte-long"),
			{name: "curve", kind: kCurve}},
		setup: func() *l2Inst {
			_, str := l2CkdBase()
			raw := base58.Decode(str)
			payload := raw[:len(raw)-4]
			withKey := func(prefix byte, x *big.Int) string {
				pl := append([]byte{}, payload...)
				pl[45] = prefix
				xb := x.Bytes()
				for i := 46; i < 78; i++ {
					pl[i] = 0
				}
				copy(pl[78-len(xb):78], xb)
				return l2B58Check(pl)
			}
			xOld := new(big.Int).SetBytes(payload[46:78])
			ecs := tss.S256()
			return &l2Inst{ctx: l2CtxFor(ecs), expect: "ok", prepare: func(m *l2Mut) func() string {
				s := str
				if v, ok := m.has("key"); ok {
					switch v {
					case "empty":
						s = ""
					case "one-char":
						s = "x"
					case "last-char-dropped":
						s = str[:len(str)-1]
					case "one-char-appended":
						s = str + "1"
					case "invalid-base58-char":
						s = str[:10] + "0" + str[11:]
					case "bad-checksum":
						pl := append([]byte{}, raw...)
						pl[len(pl)-1] ^= 1
						s = base58.Encode(pl)
					case "key-prefix-0x00":
						s = withKey(0, xOld)
					case "key-prefix-0x04":
						s = withKey(4, xOld)
					case "key-prefix-0x05":
						s = withKey(5, xOld)
					case "key-x-zero":
						s = withKey(2, big.NewInt(0))
					case "key-x-equals-p":
						s = withKey(2, ecs.Params().P)
					case "key-x-not-on-curve":
						x := new(big.Int).Set(xOld)
						for { // next x without a square root of x^3+7
							x.Add(x, l2b1)
							if !l2SecpHasY(x) {
								break
							}
						}
						s = withKey(2, x)
					case "payload-1-byte-short":
						s = l2B58Check(payload[:len(payload)-1])
					case "payload-1-byte-long":
						s = l2B58Check(append(append([]byte{}, payload...), 0))
					}
					m.note("key", s)
				}
				ec := m.curve("curve", ecs)
				return func() string { _, err := ckd.NewExtendedKeyFromString(s, ec); return l2OkErr(err) }
			}}
		}}
}

func l2SecpHasY(x *big.Int) bool {
	p := tss.S256().Params().P
	y2 := new(big.Int).Exp(x, big.NewInt(3), p)
	y2.Add(y2, big.NewInt(7)).Mod(y2, p)
	return new(big.Int).ModSqrt(y2, p) != nil
}

func tCkdDerive() *l2Target {
	return &l2Target{name: "ckd.DeriveChildKey", key: "ckd.DeriveChildKey",
		comps: []*l2Comp{cCustom("index", "0", "2^31-1", "2^31", "2^32-1"), cCo("pk.X"), cCo("pk.Y"),
			cCustom("pk.ChainCode", "empty", "31-bytes", "33-bytes", "1kB"), cCustom("pk.Depth", "254", "255"), {name: "curve", kind: kCurve}},
		setup: func() *l2Inst {
			k0, _ := l2CkdBase()
			ecs := tss.S256()
			return &l2Inst{ctx: l2CtxFor(ecs), expect: "ok", prepare: func(m *l2Mut) func() string {
				k := *k0
				k.PublicKey.X, k.PublicKey.Y = m.num("pk.X", k0.X), m.num("pk.Y", k0.Y)
				idx := uint32(1)
				if v, ok := m.has("index"); ok {
					idx = map[string]uint32{"0": 0, "2^31-1": 1<<31 - 1, "2^31": 1 << 31, "2^32-1": 1<<32 - 1}[v]
					m.note("index", fmt.Sprint(idx))
				}
				if v, ok := m.has("pk.ChainCode"); ok {
					k.ChainCode = core.Bytes("c06l2/ckd/chain2", map[string]int{"empty": 0, "31-bytes": 31, "33-bytes": 33, "1kB": 1024}[v])
					m.note("pk.ChainCode", l2HexBytes(k.ChainCode))
				}
				if v, ok := m.has("pk.Depth"); ok {
					k.Depth = map[string]uint8{"254": 254, "255": 255}[v]
					m.note("pk.Depth", v)
				}
				ec := m.curve("curve", ecs)
				return func() string { _, _, err := ckd.DeriveChildKey(idx, &k, ec); return l2OkErr(err) }
			}}
		}}
}

// tCkdChain: what an application does with a received extended public key: decode it, derive from it.
func tCkdChain() *l2Target {
	return &l2Target{name: "ckd.NewExtendedKeyFromString+DeriveChildKey", key: "ckd.NewExtendedKeyFromString+DeriveChildKey",
		comps: []*l2Comp{{name: "curve", kind: kCurve}, cCustom("key", "key-prefix-0x04", "key-x-zero")},
		setup: func() *l2Inst {
			_, str := l2CkdBase()
			raw := base58.Decode(str)
			payload := raw[:len(raw)-4]
			ecs := tss.S256()
			return &l2Inst{ctx: l2CtxFor(ecs), expect: "decoded:ok", prepare: func(m *l2Mut) func() string {
				s := str
				if v, ok := m.has("key"); ok {
					pl := append([]byte{}, payload...)
					if v == "key-prefix-0x04" {
						pl[45] = 4
					} else {
						for i := 46; i < 78; i++ {
							pl[i] = 0
						}
					}
					s = l2B58Check(pl)
					m.note("key", s)
				}
				ec := m.curve("curve", ecs)
				return func() string {
					k, err := ckd.NewExtendedKeyFromString(s, ec)
					if err != nil {
						return "err"
					}
					_, _, err = ckd.DeriveChildKey(1, k, ec)
					return "decoded:" + l2OkErr(err)
				}
			}}
		}}
}

// ---------------------------------------------------------------- hash helpers

func tHashBytes() *l2Target {
	return &l2Target{name: "common.SHA512_256", key: "common.SHA512_256",
		comps: []*l2Comp{cCustom("in", "no-arguments", "single", "one-empty-part", "1000-parts"), cRaw("in[0]")},
		setup: func() *l2Inst {
			base := [][]byte{core.Bytes("c06l2/hash/a", 32), core.Bytes("c06l2/hash/b", 32)}
			return &l2Inst{ctx: l2CtxFor(tss.S256()), expect: "32", prepare: func(m *l2Mut) func() string {
				in := [][]byte{m.raw("in[0]", base[0]), base[1]}
				if v, ok := m.has("in"); ok {
					switch v {
					case "no-arguments":
						in = [][]byte{}
					case "single":
						in = in[:1]
					case "one-empty-part":
						in = [][]byte{{}}
					case "1000-parts":
						in = make([][]byte, 1000)
						for i := range in {
							in[i] = base[i%2]
						}
					}
					m.note("in", fmt.Sprintf("%d parts", len(in)))
				}
				return func() string { return fmt.Sprint(len(common.SHA512_256(in...))) }
			}}
		}}
}

func l2IntList(m *l2Mut, q *big.Int) []*big.Int {
	base := []*big.Int{c10.Generic("c06l2/hashi/a", q), c10.Generic("c06l2/hashi/b", q)}
	in := []*big.Int{m.num("in[0]", base[0]), base[1]}
	if v, ok := m.has("in"); ok {
		switch v {
		case "no-arguments":
			in = []*big.Int{}
		case "single":
			in = in[:1]
		case "1000-elements":
			in = make([]*big.Int, 1000)
			for i := range in {
				in[i] = base[i%2]
			}
		}
		m.note("in", fmt.Sprintf("%d elements", len(in)))
	}
	return in
}

func l2NilOr(v *big.Int) string {
	if v == nil {
		return "nil"
	}
	return "hash"
}

func tHashInts() *l2Target {
	return &l2Target{name: "common.SHA512_256i", key: "common.SHA512_256i",
		comps: []*l2Comp{cCustom("in", "no-arguments", "single", "1000-elements"), cN("in[0]")},
		setup: func() *l2Inst {
			q := tss.S256().Params().N
			return &l2Inst{ctx: l2CtxFor(tss.S256()), expect: "hash", prepare: func(m *l2Mut) func() string {
				in := l2IntList(m, q)
				return func() string { return l2NilOr(common.SHA512_256i(in...)) }
			}}
		}}
}

func tHashTagged() *l2Target {
	return &l2Target{name: "common.SHA512_256i_TAGGED", key: "common.SHA512_256i_TAGGED",
		comps: []*l2Comp{cRaw("tag"), cCustom("in", "no-arguments", "single", "1000-elements"), cN("in[0]")},
		setup: func() *l2Inst {
			q := tss.S256().Params().N
			tag := l2Session()
			return &l2Inst{ctx: l2CtxFor(tss.S256()), expect: "hash", prepare: func(m *l2Mut) func() string {
				in := l2IntList(m, q)
				tg := m.raw("tag", tag)
				return func() string { return l2NilOr(common.SHA512_256i_TAGGED(tg, in...)) }
			}}
		}}
}

func tHashOne() *l2Target {
	return &l2Target{name: "common.SHA512_256iOne", key: "common.SHA512_256iOne", comps: []*l2Comp{cN("in")},
		setup: func() *l2Inst {
			q := tss.S256().Params().N
			b := c10.Generic("c06l2/hashone", q)
			return &l2Inst{ctx: l2CtxFor(tss.S256()), expect: "hash", prepare: func(m *l2Mut) func() string {
				in := m.num("in", b)
				return func() string { return l2NilOr(common.SHA512_256iOne(in)) }
			}}
		}}
}

func tRejectionSample() *l2Target {
	return &l2Target{name: "common.RejectionSample", key: "common.RejectionSample", comps: []*l2Comp{cMd("q", ""), cN("eHash")},
		inadm: "pure helper, neither verifier nor decoder",
		setup: func() *l2Inst {
			q := tss.S256().Params().N
			h := new(big.Int).SetBytes(core.Bytes("c06l2/rejection", 32))
			return &l2Inst{ctx: l2CtxFor(tss.S256()), expect: "ok", prepare: func(m *l2Mut) func() string {
				qq, hh := m.num("q", q), new(big.Int).Set(m.num("eHash", h)) // RejectionSample reduces its argument in place
				return func() string { common.RejectionSample(qq, hh); return "ok" }
			}}
		}}
}
