// Package c20: check for property C20 (stub until implemented).
package c20

import "verif/internal/core"

// Implemented reports whether this check is built.
const Implemented = false

func Run(r *core.Run) { r.Cap("not implemented") }
