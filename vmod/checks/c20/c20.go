// Package c20: key material survives storage and repeated use unchanged; nonces are fresh.
// Exhaustive enumeration of operation sequences over real parties (production entropy).
package c20

import (
	"bytes"
	"encoding/json"
	"fmt"
	"math/big"
	"runtime"
	"strings"

	"github.com/bnb-chain/tss-lib/v2/common"
	"github.com/bnb-chain/tss-lib/v2/crypto"
	"github.com/bnb-chain/tss-lib/v2/crypto/ckd"
	eckg "github.com/bnb-chain/tss-lib/v2/ecdsa/keygen"
	ecsg "github.com/bnb-chain/tss-lib/v2/ecdsa/signing"
	edkg "github.com/bnb-chain/tss-lib/v2/eddsa/keygen"
	"github.com/bnb-chain/tss-lib/v2/tss"
	"github.com/btcsuite/btcd/chaincfg"

	"verif/internal/core"
	"verif/internal/netrun"
	"verif/internal/oracle"
	"verif/internal/ref"
	"verif/internal/scen"
	"verif/internal/statehash"
)

const Implemented = true

var ops = []string{"reload", "sign(0,1)", "sign(2,1;reversed)", "sign+offset(0,2)", "sign+offset0(1,2)", "abort-silence(0,1)", "abort-tamper(1,2)"}

type session struct {
	R      []byte
	commit [][]byte // round-1 commitment message bytes of each signer
	label  string
}

type world struct {
	r      *core.Run
	curve  string
	ec     []eckg.LocalPartySaveData
	ed     []edkg.LocalPartySaveData
	t      int
	msg    *big.Int
	seq    []string
	sess   []session
	seedNo int
}

func (w *world) hashes() []string {
	var out []string
	if w.curve == "ecdsa" {
		for i := range w.ec {
			out = append(out, statehash.ValueHash(&w.ec[i]))
		}
	} else {
		for i := range w.ed {
			out = append(out, statehash.ValueHash(&w.ed[i]))
		}
	}
	return out
}

func (w *world) viol(key, what string) {
	w.r.Violate(w.curve+"/"+key, what, map[string]interface{}{"sequence": w.seq})
}

func (w *world) reload() {
	if w.curve == "ecdsa" {
		var out []eckg.LocalPartySaveData
		for i := range w.ec {
			bz, err := json.Marshal(&w.ec[i])
			if err != nil {
				w.viol("reload/marshal-error", err.Error())
				return
			}
			var k eckg.LocalPartySaveData
			if err := json.Unmarshal(bz, &k); err != nil {
				w.viol("reload/unmarshal-error", err.Error())
				return
			}
			out = append(out, k)
		}
		before := w.hashes()
		w.ec = out
		after := w.hashes()
		if strings.Join(before, ",") != strings.Join(after, ",") {
			// not a violation by itself (the property's oracle is use, not structure): later operations of the
			// sequence sign with the reloaded data and must give valid signatures under the same key
			w.r.Count("reload_value_differences", 1)
		}
	} else {
		var out []edkg.LocalPartySaveData
		for i := range w.ed {
			bz, err := json.Marshal(&w.ed[i])
			if err != nil {
				w.viol("reload/marshal-error", err.Error())
				return
			}
			var k edkg.LocalPartySaveData
			if err := json.Unmarshal(bz, &k); err != nil {
				w.viol("reload/unmarshal-error", err.Error())
				return
			}
			out = append(out, k)
		}
		before := w.hashes()
		w.ed = out
		after := w.hashes()
		if strings.Join(before, ",") != strings.Join(after, ",") {
			w.r.Count("reload_value_differences", 1)
		}
	}
}

// sign runs one session. mode: "", "silence", "tamper". Returns the signature data if completed.
func (w *world) sign(signers []int, reversed bool, mode string, kdd *big.Int, ecKeysOverride []eckg.LocalPartySaveData, pub *crypto.ECPoint, label string) {
	cfg := netrun.Config{Threshold: w.t, Msg: w.msg, RealRand: true, ShareKeys: true, PartialKeyLabel: "c20/partial-key"}
	if reversed {
		cfg.IDOrder = []int{1, 0}
	}
	if w.curve == "ecdsa" {
		cfg.Proto = netrun.EcdsaSigning
		src := w.ec
		if ecKeysOverride != nil {
			src = ecKeysOverride
		}
		for _, s := range signers {
			cfg.EcKeys = append(cfg.EcKeys, src[s])
		}
		cfg.KDD = kdd
	} else {
		cfg.Proto = netrun.EddsaSigning
		for _, s := range signers {
			cfg.EdKeys = append(cfg.EdKeys, w.ed[s])
		}
	}
	nw, err := netrun.New(cfg)
	if err != nil {
		w.viol("sign/constructor-error", err.Error())
		return
	}
	// run FIFO by hand so that a peer can be silenced / a message tampered
	type cp struct {
		m  *netrun.Msg
		to int
	}
	var q []cp
	push := func(ms []*netrun.Msg) {
		for _, m := range ms {
			for _, t := range m.To {
				q = append(q, cp{m, t})
			}
		}
	}
	for i := range nw.Nodes {
		push(nw.Start(i).NewMsg)
	}
	delivered := 0
	tampered := false
	for len(q) > 0 {
		c := q[0]
		q = q[1:]
		if mode == "silence" && c.m.Sender == 1 && c.m.Seq >= 2 {
			continue // peer 1 goes silent after round 1
		}
		bz := c.m.Bytes
		if mode == "tamper" && !tampered && c.m.Sender == 0 && c.m.Seq >= 1 {
			bz = append([]byte{}, bz...)
			bz[len(bz)-3] ^= 0x40
			tampered = true
		}
		res := nw.DeliverRaw(c.to, bz, nw.Nodes[c.m.Sender].ID, c.m.Broadcast, c.m.Ref())
		delivered++
		if res.Panic != "" && mode == "" {
			w.viol("sign/panic", res.Panic)
			return
		}
		push(res.NewMsg)
	}
	w.r.Count("sessions", 1)
	if mode != "" {
		w.r.Count("aborted_sessions", 1)
		for i, n := range nw.Nodes {
			if i != 1 && len(n.Ends) > 0 && mode == "silence" {
				w.viol("abort/silenced-session-completed", "a session completed although a peer was silenced")
			}
		}
		return
	}
	var first *common.SignatureData
	for _, n := range nw.Nodes {
		if len(n.Ends) != 1 {
			w.viol("sign/"+label+"/no-result", fmt.Sprintf("session did not complete: errs=%v", n.Errs))
			return
		}
		first = n.Ends[0].(*common.SignatureData)
	}
	var probs []oracle.Problem
	if w.curve == "ecdsa" {
		probs = oracle.CheckEcdsaSig(first, pub, w.msg, 0)
	} else {
		probs = oracle.CheckEddsaSig(first, pub, w.msg, 0)
	}
	for _, p := range probs {
		w.viol("sign/"+label+"/"+p.Key, p.What)
	}
	s := session{label: label}
	if w.curve == "ecdsa" {
		s.R = first.R
	} else {
		s.R = first.Signature[:32]
	}
	for _, n := range nw.Nodes {
		for _, m := range n.Emitted {
			if m.Type == "SignRound1Message2" || m.Type == "SignRound1Message" {
				s.commit = append(s.commit, m.Bytes)
			}
		}
	}
	w.sess = append(w.sess, s)
	w.r.Count("completed_sessions", 1)
}

func (w *world) apply(op string) {
	before := w.hashes()
	var pub *crypto.ECPoint
	if w.curve == "ecdsa" {
		pub = w.ec[0].ECDSAPub
	} else {
		pub = w.ed[0].EDDSAPub
	}
	switch op {
	case "reload":
		w.reload()
		return
	case "sign(0,1)":
		w.sign([]int{0, 1}, false, "", nil, nil, pub, "plain")
	case "sign(2,1;reversed)":
		w.sign([]int{2, 1}, true, "", nil, nil, pub, "reversed")
	case "abort-silence(0,1)":
		w.sign([]int{0, 1}, false, "silence", nil, nil, pub, "silence")
	case "abort-tamper(1,2)":
		w.sign([]int{1, 2}, false, "tamper", nil, nil, pub, "tamper")
	case "sign+offset0(1,2)":
		// the HD entry point with the offset of the empty path (0): the key signed for is the stored key itself,
		// so the stored data is what the session is given
		w.sign([]int{1, 2}, false, "", big.NewInt(0), nil, w.ec[0].ECDSAPub, "offset0")
	case "sign+offset(0,2)":
		// the caller's workflow: derive, adjust a deep copy of the stored data, sign with the offset
		var copies []eckg.LocalPartySaveData
		for i := range w.ec {
			bz, _ := json.Marshal(&w.ec[i])
			var k eckg.LocalPartySaveData
			if err := json.Unmarshal(bz, &k); err != nil {
				w.viol("offset/copy-error", err.Error())
				return
			}
			copies = append(copies, k)
		}
		chain := core.Bytes("c20-chaincode", 32)
		ext := &ckd.ExtendedKey{PublicKey: *pub.ToECDSAPubKey(), Depth: 0, ChildIndex: 0, ChainCode: chain, ParentFP: []byte{0, 0, 0, 0}, Version: chaincfg.MainNetParams.HDPublicKeyID[:]}
		delta, child, err := ckd.DeriveChildKeyFromHierarchy([]uint32{1, 7}, ext, tss.S256().Params().N, tss.S256())
		if err != nil {
			w.viol("offset/derive-error", err.Error())
			return
		}
		if err := ecsg.UpdatePublicKeyAndAdjustBigXj(delta, copies, &child.PublicKey, tss.S256()); err != nil {
			w.viol("offset/adjust-error", err.Error())
			return
		}
		cpub, _ := crypto.NewECPoint(tss.S256(), child.PublicKey.X, child.PublicKey.Y)
		// the adjusted copies are the key data this session is given: signing must not modify them either
		var cb []string
		for i := range copies {
			cb = append(cb, statehash.ValueHash(&copies[i]))
		}
		w.sign([]int{0, 2}, false, "", delta, copies, cpub, "offset")
		for i := range copies {
			if statehash.ValueHash(&copies[i]) != cb[i] {
				w.viol("key-data-given-to-the-session-modified/by-sign+offset", fmt.Sprintf("party %d's key data (the adjusted copy handed to NewLocalPartyWithKDD) changed during the session", i))
			}
		}
	}
	after := w.hashes()
	for i := range before {
		if before[i] != after[i] {
			w.viol("stored-key-data-modified/by-"+strings.SplitN(op, "(", 2)[0], fmt.Sprintf("party %d's stored key data changed during %s", i, op))
		}
	}
}

func (w *world) finish() {
	for i := range w.sess {
		for j := i + 1; j < len(w.sess); j++ {
			w.r.Count("session_pairs_compared", 1)
			if bytes.Equal(w.sess[i].R, w.sess[j].R) {
				w.viol("nonce-reuse/R", fmt.Sprintf("sessions %d and %d produced the same R", i, j))
			}
			for _, a := range w.sess[i].commit {
				for _, b := range w.sess[j].commit {
					if bytes.Equal(a, b) {
						w.viol("nonce-reuse/round1-commitment", fmt.Sprintf("sessions %d and %d share a round-1 commitment", i, j))
					}
				}
			}
		}
	}
}

func sequences(alphabet []string, maxLen int) [][]string {
	var out [][]string
	var rec func(cur []string)
	rec = func(cur []string) {
		if len(cur) > 0 {
			out = append(out, append([]string{}, cur...))
		}
		if len(cur) == maxLen {
			return
		}
		for _, a := range alphabet {
			rec(append(cur, a))
		}
	}
	rec(nil)
	return out
}

func Run(r *core.Run) {
	wk := runtime.NumCPU()
	maxLen := 3
	if r.Tier == "thorough" {
		maxLen = 4
	}
	// ids 255, 256, 257: minimal byte encodings of different lengths (and 254 for a 4th party)
	ecBase := scen.EcKey("byte-boundary", 3, 1, r.Seed)
	edBase := scen.EdKey("byte-boundary", 3, 1, r.Seed)
	msg := new(big.Int).SetBytes(core.Bytes("c20-msg", 32))
	msg.Mod(msg, ref.Secp256k1.N)
	// a second key per curve whose ids lie at or above the group order (q+3, 2q+11, q+19): histories of length <= 2
	ecBaseQ := scen.EcKey("above-q", 3, 1, r.Seed)
	edBaseQ := scen.EdKey("above-q", 3, 1, r.Seed)
	for _, curve := range []string{"ecdsa", "eddsa", "ecdsa/ids>=q", "eddsa/ids>=q"} {
		ecBase, edBase, maxLen := ecBase, edBase, maxLen
		if strings.HasSuffix(curve, "/ids>=q") {
			ecBase, edBase, maxLen = ecBaseQ, edBaseQ, 2
		}
		idClass := curve
		curve := strings.TrimSuffix(curve, "/ids>=q")
		alpha := ops
		if curve == "eddsa" {
			alpha = []string{"reload", "sign(0,1)", "sign(2,1;reversed)", "abort-silence(0,1)", "abort-tamper(1,2)"}
		}
		seqs := sequences(alpha, maxLen)
		core.ParallelFor(len(seqs), wk, func(i int) {
			w := &world{r: r, curve: curve, t: 1, msg: msg, seq: seqs[i]}
			// every sequence starts from its own deep copy of the generated key (JSON round trip is itself an
			// operation under test, so the copy is made structurally)
			if curve == "ecdsa" {
				w.ec = deepCopyEc(ecBase)
			} else {
				w.ed = deepCopyEd(edBase)
			}
			for _, op := range seqs[i] {
				w.apply(op)
			}
			w.finish()
			r.Count("sequences", 1)
			r.Distinct("sequences", idClass+":"+strings.Join(seqs[i], ">"))
			if i%97 == 0 {
				r.Sample(4, map[string]interface{}{"curve": curve, "sequence": seqs[i], "completed_sessions": len(w.sess)})
			}
		})
	}
	r.Set("evaluations", int(r.Get("sequences")))
	r.Set("distinct_nontrivial", r.NDistinct("sequences"))
	r.Set("states", int(r.Get("sequences")))
	r.Set("transitions", int(r.Get("sessions")))
	r.Set("traces_validated_against_impl", int(r.Get("sequences")))
	r.Set("rule", fmt.Sprintf("every operation sequence of length <= %d over the alphabet %v (ECDSA) / the same without the offset operation (EdDSA), each executed on real parties from a fresh copy of one generated (3,1) key; a sequence is one history, all are distinct", maxLen, ops))
	r.Assume("every signing session is configured with the SAME seed-derived partial-key reader (Parameters.SetPartialKeyRand, the hook that makes keygen reproducible) next to the default entropy source: nonces must be fresh regardless")
	r.Assume("sessions use the library's default entropy (crypto/rand) as in production; equal nonces from a shared seeded reader would be the harness's fault")
	r.Assume("a caller that signs with a derivation offset adjusts a deep copy of the stored data (UpdatePublicKeyAndAdjustBigXj mutates the slice it is given)")
}

func deepCopyEc(in []eckg.LocalPartySaveData) []eckg.LocalPartySaveData {
	out := make([]eckg.LocalPartySaveData, len(in))
	for i := range in {
		out[i] = in[i]
		out[i].Xi = new(big.Int).Set(in[i].Xi)
		out[i].ShareID = new(big.Int).Set(in[i].ShareID)
		out[i].Ks = append([]*big.Int{}, in[i].Ks...)
		out[i].BigXj = append([]*crypto.ECPoint{}, in[i].BigXj...)
		out[i].NTildej = append([]*big.Int{}, in[i].NTildej...)
		out[i].H1j = append([]*big.Int{}, in[i].H1j...)
		out[i].H2j = append([]*big.Int{}, in[i].H2j...)
	}
	return out
}

func deepCopyEd(in []edkg.LocalPartySaveData) []edkg.LocalPartySaveData {
	out := make([]edkg.LocalPartySaveData, len(in))
	for i := range in {
		out[i] = in[i]
		out[i].Xi = new(big.Int).Set(in[i].Xi)
		out[i].ShareID = new(big.Int).Set(in[i].ShareID)
		out[i].Ks = append([]*big.Int{}, in[i].Ks...)
		out[i].BigXj = append([]*crypto.ECPoint{}, in[i].BigXj...)
	}
	return out
}
