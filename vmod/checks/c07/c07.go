// Package c07: outcome independent of delivery order; no deadlock; exactly one result (NETMC).
package c07

import (
	"fmt"
	"math/big"
	"runtime"

	"github.com/bnb-chain/tss-lib/v2/common"
	edkg "github.com/bnb-chain/tss-lib/v2/eddsa/keygen"

	"verif/internal/core"
	"verif/internal/netrun"
	"verif/internal/oracle"
	"verif/internal/protomc"
	"verif/internal/ref"
	"verif/internal/scen"
)

const Implemented = true

func edKeygenOracle(sc protomc.Scenario) func(ends [][]interface{}) []string {
	return func(ends [][]interface{}) []string {
		var parts []oracle.Sharing
		for _, e := range ends {
			parts = append(parts, oracle.EdSharing(e[0].(*edkg.LocalPartySaveData)))
		}
		ids := append([]*big.Int{}, sc.Cfg.Keys...)
		sortBig(ids)
		var out []string
		for _, p := range oracle.CheckSharing(ref.Ed25519, parts, ids, sc.Cfg.Threshold, nil) {
			out = append(out, p.Key)
		}
		return out
	}
}

func sortBig(x []*big.Int) {
	for i := range x {
		for j := i + 1; j < len(x); j++ {
			if x[j].Cmp(x[i]) < 0 {
				x[i], x[j] = x[j], x[i]
			}
		}
	}
}

func edSigningOracle(sc protomc.Scenario) func(ends [][]interface{}) []string {
	return func(ends [][]interface{}) []string {
		var out []string
		var first *common.SignatureData
		for _, e := range ends {
			sd := e[0].(*common.SignatureData)
			if first == nil {
				first = sd
			} else if string(first.Signature) != string(sd.Signature) {
				out = append(out, "signers-disagree")
			}
			for _, p := range oracle.CheckEddsaSig(sd, sc.Cfg.EdKeys[0].EDDSAPub, sc.Cfg.Msg, sc.Cfg.FullBytesLen) {
				out = append(out, p.Key)
			}
		}
		return out
	}
}

func edResharingOracle(sc protomc.Scenario) func(ends [][]interface{}) []string {
	return func(ends [][]interface{}) []string {
		nOld := len(sc.Cfg.EdKeys)
		var parts []oracle.Sharing
		for _, e := range ends[nOld:] {
			parts = append(parts, oracle.EdSharing(e[0].(*edkg.LocalPartySaveData)))
		}
		ids := append([]*big.Int{}, sc.Cfg.NewKeys...)
		sortBig(ids)
		want := ref.Point{X: sc.Cfg.EdKeys[0].EDDSAPub.X(), Y: sc.Cfg.EdKeys[0].EDDSAPub.Y()}
		var out []string
		for _, p := range oracle.CheckSharing(ref.Ed25519, parts, ids, sc.Cfg.NewThreshold, &want) {
			out = append(out, p.Key)
		}
		return out
	}
}

func ecSigningOracle(sc protomc.Scenario) func(ends [][]interface{}) []string {
	return func(ends [][]interface{}) []string {
		var out []string
		var first *common.SignatureData
		for _, e := range ends {
			sd := e[0].(*common.SignatureData)
			if first == nil {
				first = sd
			} else if string(first.Signature) != string(sd.Signature) || string(first.SignatureRecovery) != string(sd.SignatureRecovery) {
				out = append(out, "signers-disagree")
			}
			for _, p := range oracle.CheckEcdsaSig(sd, sc.Cfg.EcKeys[0].ECDSAPub, sc.Cfg.Msg, sc.Cfg.FullBytesLen) {
				out = append(out, p.Key)
			}
		}
		return out
	}
}

type job struct {
	sc   protomc.Scenario
	opt  protomc.Options
	kind string
}

func Run(r *core.Run) {
	w := runtime.NumCPU()
	var jobs []job
	addMode := func(sc protomc.Scenario, mode string, devs, dups int, or func(protomc.Scenario) func([][]interface{}) []string) {
		o := protomc.Options{C07: true, Mode: mode, Deviations: devs, Dups: dups, Workers: w}
		if mode == "joint" || mode == "dev" {
			sc.Cfg.RealRand = mode == "joint" && sc.Cfg.Proto == netrun.EcdsaSigning
		}
		if or != nil {
			o.ResultOracle = or(sc)
		}
		jobs = append(jobs, job{sc: sc, opt: o, kind: mode})
	}
	add := func(sc protomc.Scenario, dups int, or func(protomc.Scenario) func([][]interface{}) []string) {
		o := protomc.Options{C07: true, Dups: dups, Workers: w, JointValidate: 40}
		if or != nil {
			o.ResultOracle = or(sc)
		}
		jobs = append(jobs, job{sc: sc, opt: o})
	}
	msg := new(big.Int).SetBytes(core.Bytes("c07-msg", 32))
	// EdDSA keygen: all schedules, with one duplicate delivery anywhere
	add(scen.EdKeygen("small", 2, 1, r.Seed), 1, edKeygenOracle)
	add(scen.EdKeygen("near-q", 3, 1, r.Seed), 0, edKeygenOracle)
	add(scen.EdKeygen("small", 3, 2, r.Seed), 1, edKeygenOracle)
	// EdDSA signing
	add(scen.EdSigning("small", 3, 1, []int{0, 2}, msg, 0, r.Seed), 1, edSigningOracle)
	add(scen.EdSigning("small", 3, 1, []int{0, 1, 2}, msg, 32, r.Seed), 1, edSigningOracle)
	// EdDSA resharing
	add(scen.EdResharing(3, 1, []int{0, 2}, 2, 1, r.Seed), 1, edResharingOracle)
	// ECDSA signing: joint mode (round-2 values are not reproducible), all schedules for 2 signers
	addMode(scen.EcSigning("small", 2, 1, []int{0, 1}, msg, 0, r.Seed), "joint", 0, 0, ecSigningOracle)
	if r.Tier == "thorough" {
		add(scen.EdKeygen("large", 3, 1, r.Seed), 2, edKeygenOracle)
		add(scen.EdSigning("small", 3, 2, []int{0, 1, 2}, msg, 0, r.Seed), 2, edSigningOracle)
		add(scen.EdResharing(3, 1, []int{0, 1}, 2, 1, r.Seed), 2, edResharingOracle)
	}
	var states, trans, traces int
	for _, j := range jobs {
		st := protomc.Explore(r, j.sc, j.opt)
		states += st.States
		trans += st.Transitions
		traces += st.JointReplays
		if st.Capped {
			r.Cap("state cap hit in " + j.sc.Name)
		}
		r.Distinct("terminal_outcomes", fmt.Sprintf("%s#%d", j.sc.Name, st.DistinctOutcomes))
		r.Set("cfg:"+j.sc.Name, map[string]interface{}{"states": st.States, "transitions": st.Transitions, "max_depth": st.MaxDepth, "terminal_states": st.Terminals,
			"distinct_terminal_outcomes": st.DistinctOutcomes, "feasible_local_states": st.LocalStates, "local_transitions_executed": st.LocalTransitions,
			"nonconfluent_internal": st.NonConfluent, "joint_replays": st.JointReplays, "dup_bound": j.opt.Dups, "mode": j.kind, "deviation_bound": j.opt.Deviations})
		for _, s := range st.Samples {
			r.ForceSample(s)
		}
		fmt.Printf("  %-60s states=%d trans=%d terminals=%d outcomes=%d local=%d joint=%d\n", j.sc.Name, st.States, st.Transitions, st.Terminals, st.DistinctOutcomes, st.LocalStates, st.JointReplays)
	}
	r.Set("states", states)
	r.Set("transitions", trans)
	r.Set("traces_validated_against_impl", traces)
	r.Assume("party independence (parties interact only through messages): validated by joint replays of FIFO, one-deviation and terminal traces, counted in traces_validated_against_impl")
	r.Assume("per-party DRBG seam (SetRand/SetPartialKeyRand) makes a party a deterministic function of its call history")
	_ = netrun.EddsaKeygen
}
