// Package c07: check for property C07 (stub until implemented).
package c07

import "verif/internal/core"

// Implemented reports whether this check is built.
const Implemented = false

func Run(r *core.Run) { r.Cap("not implemented") }
