// Package c07: outcome independent of delivery order; no deadlock; exactly one result (NETMC).
package c07

import (
	"fmt"
	"math/big"
	"runtime"

	"verif/internal/core"
	"verif/internal/netrun"
	"verif/internal/protomc"
	"verif/internal/scen"
)

const Implemented = true

type job struct {
	sc   protomc.Scenario
	opt  protomc.Options
	kind string
}

func Run(r *core.Run) {
	w := runtime.NumCPU()
	var jobs []job
	addMode := func(sc protomc.Scenario, mode string, devs, dups int, or func(protomc.Scenario) func(protomc.TermCtx) []string) {
		o := protomc.Options{C07: true, Mode: mode, Deviations: devs, Dups: dups, Workers: w}
		if mode == "joint" || mode == "dev" {
			sc.Cfg.RealRand = mode == "joint" && sc.Cfg.Proto == netrun.EcdsaSigning
		}
		if or != nil {
			o.ResultOracle = or(sc)
		}
		jobs = append(jobs, job{sc: sc, opt: o, kind: mode})
	}
	add := func(sc protomc.Scenario, dups int, or func(protomc.Scenario) func(protomc.TermCtx) []string) {
		o := protomc.Options{C07: true, Dups: dups, Workers: w, JointValidate: 40}
		if or != nil {
			o.ResultOracle = or(sc)
		}
		jobs = append(jobs, job{sc: sc, opt: o})
	}
	msg := new(big.Int).SetBytes(core.Bytes("c07-msg", 32))
	// EdDSA keygen: all schedules, with one duplicate delivery anywhere
	add(scen.EdKeygen("small", 2, 1, r.Seed), 1, scen.ResultOracle)
	add(scen.EdKeygen("near-q", 3, 1, r.Seed), 0, scen.ResultOracle)
	add(scen.EdKeygen("small", 3, 2, r.Seed), 1, scen.ResultOracle)
	// EdDSA signing
	add(scen.EdSigning("small", 3, 1, []int{0, 2}, msg, 0, r.Seed), 1, scen.ResultOracle)
	add(scen.EdSigning("small", 3, 1, []int{0, 1, 2}, msg, 32, r.Seed), 1, scen.ResultOracle)
	// EdDSA resharing
	add(scen.EdResharing(3, 1, []int{0, 2}, 2, 1, r.Seed), 1, scen.ResultOracle)
	// ECDSA signing: joint mode (round-2 values are not reproducible), all schedules for 2 signers
	addMode(scen.EcSigning("small", 2, 1, []int{0, 1}, msg, 0, r.Seed), "joint", 0, 0, scen.ResultOracle)
	// ECDSA keygen and resharing: FIFO, the directed strategies (starve / rush / late-start each party, LIFO,
	// deliveries before starts) and, in thorough, every 1-deviation run
	devs := 0
	if r.Tier == "thorough" {
		devs = 1
	}
	addMode(scen.EcResharing(2, 1, []int{0, 1}, 2, 1, r.Seed, false), "dev", devs, 0, scen.ResultOracle)
	addMode(scen.EcKeygen("small", 2, 1, r.Seed), "dev", devs, 0, scen.ResultOracle)
	if r.Tier == "thorough" {
		add(scen.EdKeygen("large", 3, 1, r.Seed), 2, scen.ResultOracle)
		add(scen.EdSigning("small", 3, 2, []int{0, 1, 2}, msg, 0, r.Seed), 2, scen.ResultOracle)
		add(scen.EdResharing(3, 1, []int{0, 1}, 2, 1, r.Seed), 2, scen.ResultOracle)
	}
	var states, trans, traces int
	for _, j := range jobs {
		st := protomc.Explore(r, j.sc, j.opt)
		states += st.States
		trans += st.Transitions
		traces += st.JointReplays
		if st.Capped {
			r.Cap("state cap hit in " + j.sc.Name)
		}
		r.Distinct("terminal_outcomes", fmt.Sprintf("%s#%d", j.sc.Name, st.DistinctOutcomes))
		r.Set("cfg:"+j.sc.Name, map[string]interface{}{"states": st.States, "transitions": st.Transitions, "max_depth": st.MaxDepth, "terminal_states": st.Terminals,
			"distinct_terminal_outcomes": st.DistinctOutcomes, "feasible_local_states": st.LocalStates, "local_transitions_executed": st.LocalTransitions,
			"nonconfluent_internal": st.NonConfluent, "joint_replays": st.JointReplays, "dup_bound": j.opt.Dups, "mode": j.kind, "deviation_bound": j.opt.Deviations})
		for _, s := range st.Samples {
			r.ForceSample(s)
		}
		fmt.Printf("  %-60s states=%d trans=%d terminals=%d outcomes=%d local=%d joint=%d\n", j.sc.Name, st.States, st.Transitions, st.Terminals, st.DistinctOutcomes, st.LocalStates, st.JointReplays)
	}
	r.Set("states", states)
	r.Set("transitions", trans)
	r.Set("traces_validated_against_impl", traces)
	r.Assume("party independence (parties interact only through messages): validated by joint replays of FIFO, one-deviation and terminal traces, counted in traces_validated_against_impl")
	r.Assume("per-party DRBG seam (SetRand/SetPartialKeyRand) makes a party a deterministic function of its call history")
	_ = netrun.EddsaKeygen
}
