// Package c08: check for property C08 (stub until implemented).
package c08

import "verif/internal/core"

// Implemented reports whether this check is built.
const Implemented = false

func Run(r *core.Run) { r.Cap("not implemented") }
