// Package c08: rounds, routing and channel discipline follow the protocol; WaitingFor is exact (NETMC).
package c08

import (
	"fmt"
	"math/big"
	"runtime"
	"strings"

	"verif/internal/core"
	"verif/internal/protomc"
	"verif/internal/scen"
)

const Implemented = true

func Run(r *core.Run) {
	w := runtime.NumCPU()
	msg := new(big.Int).SetBytes(core.Bytes("c08-msg", 32))
	var scs []protomc.Scenario
	scs = append(scs,
		scen.EdKeygen("small", 2, 1, r.Seed),
		scen.EdKeygen("small", 3, 1, r.Seed),
		scen.EdSigning("small", 3, 1, []int{1, 2}, msg, 0, r.Seed),
		scen.EdSigning("small", 3, 1, []int{0, 1, 2}, msg, 0, r.Seed),
		scen.EdResharing(3, 1, []int{0, 2}, 2, 1, r.Seed),
	)
	if r.Tier == "thorough" {
		scs = append(scs,
			scen.EdKeygen("near-q", 3, 2, r.Seed),
			scen.EdResharing(3, 1, []int{0, 1, 2}, 2, 1, r.Seed),
			scen.EdResharing(3, 2, []int{0, 1, 2}, 2, 1, r.Seed),
		)
	}
	type job struct {
		sc   protomc.Scenario
		mode string
		devs int
	}
	var jobs []job
	for _, sc := range scs {
		jobs = append(jobs, job{sc, "", 0})
	}
	// ECDSA: joint mode for 2 signers (all schedules); complete runs (FIFO, directed strategies
	// [thorough: + every 1-deviation run]) with the same monitors for 3 signers, keygen and resharing
	devs := 0
	if r.Tier == "thorough" {
		devs = 1
	}
	jobs = append(jobs,
		job{scen.EcSigning("small", 2, 1, []int{0, 1}, msg, 0, r.Seed), "joint", 0},
		job{scen.EcSigning("near-q", 3, 1, []int{0, 1, 2}, msg, 0, r.Seed), "dev", devs},
		job{scen.EcResharing(2, 1, []int{0, 1}, 2, 1, r.Seed, false), "dev", devs},
		job{scen.EcKeygen("small", 2, 1, r.Seed), "dev", devs},
		// more old members than new ones (the two committees' index ranges differ)
		job{scen.EcResharing(3, 1, []int{0, 1, 2}, 2, 1, r.Seed, true), "dev", 0},
	)
	if r.Tier == "thorough" {
		jobs = append(jobs, job{scen.EcKeygen("small", 3, 1, r.Seed), "dev", 0}, job{scen.EcResharing(3, 1, []int{0, 1, 2}, 3, 1, r.Seed, true), "dev", 0})
	}
	var states, trans, traces, probes int
	for _, j := range jobs {
		sc := j.sc
		if j.mode == "joint" {
			sc.Cfg.RealRand = true
		}
		st := protomc.Explore(r, sc, protomc.Options{C08: true, FlipProbes: j.mode == "", FlipThenOne: j.mode == "" && strings.HasPrefix(sc.Name, "eddsa"), Mode: j.mode, Deviations: j.devs, Workers: w, JointValidate: 20})
		states += st.States
		trans += st.Transitions
		traces += st.JointReplays
		probes += st.FlipProbes
		if st.Capped {
			r.Cap("state cap hit in " + sc.Name)
		}
		mode := j.mode
		if mode == "" {
			mode = "all schedules (decomposed) + flag-flip probes in every feasible local state"
		}
		r.Set("cfg:"+sc.Name, map[string]interface{}{"mode": mode, "deviation_bound": j.devs, "states": st.States, "transitions": st.Transitions, "max_depth": st.MaxDepth,
			"feasible_local_states": st.LocalStates, "local_transitions_executed": st.LocalTransitions, "flag_flip_probes": st.FlipProbes, "joint_replays": st.JointReplays})
		for _, s := range st.Samples {
			r.Sample(8, s)
		}
		fmt.Printf("  %-60s %-6s states=%d trans=%d local=%d probes=%d joint=%d\n", sc.Name, j.mode, st.States, st.Transitions, st.LocalStates, st.FlipProbes, st.JointReplays)
	}
	r.Set("states", states)
	r.Set("transitions", trans)
	r.Set("flag_flip_probes", probes)
	r.Set("traces_validated_against_impl", traces)
	r.Assume("reference model of rounds/routing: vmod/internal/model (DESIGN.md Appendix B)")
	r.Assume("party independence validated by joint replays (traces_validated_against_impl)")
	r.Assume("WaitingFor is compared only after an accepted Update on a started party (DESIGN §3a)")
}
