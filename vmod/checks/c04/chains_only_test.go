package c04

import (
	"testing"

	"verif/internal/core"
)

// TestChainsOnly runs the chain part alone (development aid: the chain oracle on the current tree).
func TestChainsOnly(t *testing.T) {
	r := core.NewRun("C04", "quick", "model_checking", "NETMC")
	r.Seed = 1
	chains(r)
	if n := r.NViolations(); n > 0 {
		t.Fatalf("%d violations", n)
	}
	t.Logf("chains=%d old members observed=%d shares >= q=%d", r.Get("chains"), r.Get("chain_old_members_observed"), r.Get("chain_old_shares_not_below_q"))
}
