// Package c04: resharing keeps the key, re-shares it correctly, retires old shares last (NETMC).
package c04

import (
	"fmt"
	"math/big"
	"runtime"
	"strings"

	"github.com/bnb-chain/tss-lib/v2/common"
	"github.com/bnb-chain/tss-lib/v2/crypto"
	eckg "github.com/bnb-chain/tss-lib/v2/ecdsa/keygen"
	edkg "github.com/bnb-chain/tss-lib/v2/eddsa/keygen"

	"verif/internal/core"
	"verif/internal/explore"
	"verif/internal/fix"
	"verif/internal/netrun"
	"verif/internal/oracle"
	"verif/internal/protomc"
	"verif/internal/ref"
	"verif/internal/scen"
	"verif/internal/statehash"
)

const Implemented = true

// observe: what the C04 invariant needs to see of a node in every state.
func observe(nw *netrun.Network, p int) map[string]string {
	n := nw.Nodes[p]
	m := map[string]string{}
	if n.Role == "old" {
		var xi *big.Int
		if n.EcKey != nil {
			xi = n.EcKey.Xi
			m["key"] = statehash.ValueHash(n.EcKey)
		} else if n.EdKey != nil {
			xi = n.EdKey.Xi
			m["key"] = statehash.ValueHash(n.EdKey)
		}
		if xi == nil || xi.Sign() == 0 {
			m["erased"] = "1"
		}
	}
	return m
}

func ackEmitted(s *explore.Sys, l *explore.LState) bool {
	for _, id := range l.Emitted {
		t := s.Msg(id).Type
		if t == "DGRound4Message" || t == "DGRound4Message2" {
			return true
		}
	}
	return false
}

// invariant (every reachable state): (some old share erased or some new member emitted key data)
// => every new member has emitted its round-4 ACK; and while an ACK is missing every old member's
// caller-held key data equals its pre-run snapshot.
func invariant(nOld int, initial []string) func(s *explore.Sys, locals []*explore.LState, viol func(key, what string, trace []string), trace func() []string) {
	return func(s *explore.Sys, locals []*explore.LState, viol func(key, what string, trace []string), trace func() []string) {
		allAck := true
		for p := nOld; p < len(locals); p++ {
			if !ackEmitted(s, locals[p]) {
				allAck = false
			}
		}
		if allAck {
			return
		}
		for p := 0; p < nOld; p++ {
			if locals[p].Obs.Extra["erased"] == "1" {
				viol("old-share-erased-before-all-acks", fmt.Sprintf("old member %d's share is erased while a new member has not yet acknowledged", p), trace())
			} else if locals[p].Obs.Extra["key"] != initial[p] {
				viol("old-key-data-modified-before-all-acks", fmt.Sprintf("old member %d's caller-held key data changed while a new member has not yet acknowledged", p), trace())
			}
		}
		for p := nOld; p < len(locals); p++ {
			if len(locals[p].Obs.Ends) > 0 {
				viol("new-key-material-emitted-before-all-acks", fmt.Sprintf("new member %d emitted key data while a new member has not yet acknowledged", p), trace())
			}
		}
	}
}

// initialKeyHashes: the old members' key data as it was BEFORE any party was constructed from it
// (constructing a party must not modify the caller's key data either).
func initialKeyHashes(sc protomc.Scenario) []string {
	nw := sc.Mk()
	var out []string
	for _, n := range nw.Nodes {
		if n.Role == "old" {
			out = append(out, n.KeyHash0)
		}
	}
	return out
}

// terminalOracle adds the clauses that need the live end values: old-only members erased, and every
// (t'+1)-subset of the new committee signs under the old key.
func terminalOracle(r *core.Run, sc protomc.Scenario, signAll bool) func(protomc.TermCtx) []string {
	base := scen.ResultOracle(sc)
	signed := false
	return func(tc protomc.TermCtx) []string {
		out := base(tc)
		if len(out) > 0 {
			return out
		}
		// the sharing oracle already decides that every (t'+1)-subset interpolates to the old key in every
		// terminal state; actually signing with the new shares is done once per configuration
		if !signed {
			signed = true
			out = append(out, signWithNew(r, sc, tc, signAll)...)
		}
		return out
	}
}

func signWithNew(r *core.Run, sc protomc.Scenario, tc protomc.TermCtx, all bool) []string {
	cfg := sc.Cfg
	var out []string
	msg := new(big.Int).SetBytes(core.Bytes("c04-sign", 32))
	msg.Mod(msg, ref.Secp256k1.N)
	if cfg.Proto == netrun.EddsaResharing {
		nOld := len(cfg.EdKeys)
		var keys []edkg.LocalPartySaveData
		for _, e := range tc.Ends[nOld:] {
			keys = append(keys, *(e[0].(*edkg.LocalPartySaveData)))
		}
		subs := oracle.Subsets(len(keys), cfg.NewThreshold+1)
		if !all && len(subs) > 2 {
			subs = subs[:2]
		}
		for _, sub := range subs {
			var ks []edkg.LocalPartySaveData
			for _, i := range sub {
				ks = append(ks, keys[i])
			}
			nw, err := netrun.New(netrun.Config{Proto: netrun.EddsaSigning, EdKeys: ks, Threshold: cfg.NewThreshold, Msg: msg, Seed: cfg.Seed, Label: "c04-sign"})
			if err != nil {
				return append(out, "new-committee-cannot-sign/constructor")
			}
			_, e, pan := nw.RunFIFO()
			r.Count("signing_runs_with_new_shares", 1)
			if e != nil || len(pan) > 0 || len(nw.Nodes[0].Ends) != 1 {
				out = append(out, "new-committee-cannot-sign")
				continue
			}
			for _, pr := range oracle.CheckEddsaSig(nw.Nodes[0].Ends[0].(*common.SignatureData), cfg.EdKeys[0].EDDSAPub, msg, 0) {
				out = append(out, "new-committee-signature/"+pr.Key)
			}
		}
		return out
	}
	nOld := len(cfg.EcKeys)
	var keys []eckg.LocalPartySaveData
	for _, e := range tc.Ends[nOld:] {
		keys = append(keys, *(e[0].(*eckg.LocalPartySaveData)))
	}
	subs := oracle.Subsets(len(keys), cfg.NewThreshold+1)
	if !all && len(subs) > 1 {
		subs = subs[:1]
	}
	for _, sub := range subs {
		var ks []eckg.LocalPartySaveData
		for _, i := range sub {
			ks = append(ks, keys[i])
		}
		nw, err := netrun.New(netrun.Config{Proto: netrun.EcdsaSigning, EcKeys: ks, Threshold: cfg.NewThreshold, Msg: msg, Seed: cfg.Seed, Label: "c04-sign"})
		if err != nil {
			return append(out, "new-committee-cannot-sign/constructor")
		}
		_, e, pan := nw.RunFIFO()
		r.Count("signing_runs_with_new_shares", 1)
		if e != nil || len(pan) > 0 || len(nw.Nodes[0].Ends) != 1 {
			out = append(out, "new-committee-cannot-sign")
			continue
		}
		for _, pr := range oracle.CheckEcdsaSig(nw.Nodes[0].Ends[0].(*common.SignatureData), cfg.EcKeys[0].ECDSAPub, msg, 0) {
			out = append(out, "new-committee-signature/"+pr.Key)
		}
	}
	return out
}

// oldErasedAtEnd: in terminal states the old-only members' caller-visible Xi must be 0.
func erasedAtEnd(nOld int) func(s *explore.Sys, locals []*explore.LState, viol func(key, what string, trace []string), trace func() []string) {
	return func(s *explore.Sys, locals []*explore.LState, viol func(key, what string, trace []string), trace func() []string) {
		for p := 0; p < nOld; p++ {
			if len(locals[p].Obs.Ends) == 1 && locals[p].Obs.Extra["erased"] != "1" {
				viol("old-member-finished-with-share-intact", fmt.Sprintf("old member %d finished but its caller-visible Xi is not erased", p), trace())
			}
		}
	}
}

type job struct {
	sc      protomc.Scenario
	mode    string
	devs    int
	signAll bool
}

func Run(r *core.Run) {
	w := runtime.NumCPU()
	var jobs []job
	add := func(sc protomc.Scenario, mode string, devs int, signAll bool) { jobs = append(jobs, job{sc, mode, devs, signAll}) }
	// EdDSA: all schedules for old (2,1) -> new (2,1) (every reachable state is a cut point)
	add(scen.EdResharing(2, 1, []int{0, 1}, 2, 1, r.Seed), "", 0, true)
	add(scen.EdResharing(3, 1, []int{0, 2}, 2, 1, r.Seed), "", 0, true)
	// FIFO + 1 deviation: old (3,1)/(3,2), every participating old subset, new thresholds <, =, >
	for _, o := range []struct {
		n, t int
	}{{3, 1}, {3, 2}} {
		for sz := o.t + 1; sz <= o.n; sz++ {
			for _, sub := range oracle.Subsets(o.n, sz) {
				for _, nn := range []struct{ n, t int }{{2, 1}, {3, 1}, {3, 2}} {
					if r.Tier == "quick" && (len(sub)+nn.n > 5 || (sub[0] != 0 && nn.t != 2)) {
						continue
					}
					add(scen.EdResharing(o.n, o.t, sub, nn.n, nn.t, r.Seed), "dev", 1, r.Tier == "thorough")
				}
			}
		}
	}
	// ECDSA, proofs enabled and disabled
	add(scen.EcResharing(2, 1, []int{0, 1}, 2, 1, r.Seed, false), "dev", 0, false)
	add(scen.EcResharing(2, 1, []int{0, 1}, 2, 1, r.Seed, true), "dev", 0, false)
	add(scen.EcResharing(3, 1, []int{0, 1, 2}, 2, 1, r.Seed, true), "dev", 0, false) // more old members than new ones
	// ids at or above the group order in the old key and in the new committee; ids near q
	add(scen.EcResharingP("above-q", "above-q", 3, 1, []int{0, 2}, 2, 1, r.Seed, true), "dev", 0, false)
	add(scen.EdResharingP("above-q", "above-q", 3, 1, []int{0, 2}, 2, 1, r.Seed), "dev", 1, false)
	add(scen.EdResharingP("near-q", "byte-boundary", 3, 1, []int{1, 2}, 3, 1, r.Seed), "dev", 0, false)
	if r.Tier == "thorough" {
		add(scen.EcResharing(2, 1, []int{0, 1}, 2, 1, r.Seed, false), "dev", 1, true)
		add(scen.EcResharing(3, 1, []int{0, 2}, 3, 2, r.Seed, false), "dev", 0, true)
		add(scen.EcResharing(3, 2, []int{0, 1, 2}, 2, 1, r.Seed, true), "dev", 0, true)
		add(scen.EdResharing(3, 1, []int{0, 1, 2}, 2, 1, r.Seed), "", 0, true)
		// ECDSA resharing, ALL delivery schedules (decomposed; every reachable state is a cut point)
		add(scen.EcResharing(2, 1, []int{0, 1}, 2, 1, r.Seed, true), "", 0, false)
	}
	var states, trans, traces int
	for _, j := range jobs {
		nOld := 0
		if j.sc.Cfg.Proto == netrun.EddsaResharing {
			nOld = len(j.sc.Cfg.EdKeys)
		} else {
			nOld = len(j.sc.Cfg.EcKeys)
		}
		var initial []string
		func() {
			defer func() {
				if x := recover(); x != nil {
					if me, ok := x.(protomc.MkError); ok {
						r.Violate(j.sc.Name+"/constructor-error", "the parties of an admissible configuration could not be constructed: "+me.Err.Error(), nil)
						return
					}
					panic(x)
				}
			}()
			initial = initialKeyHashes(j.sc)
		}()
		if initial == nil {
			continue
		}
		inv := invariant(nOld, initial)
		era := erasedAtEnd(nOld)
		o := protomc.Options{C07: true, Mode: j.mode, Deviations: j.devs, Workers: w, JointValidate: 10, Observe: observe,
			ResultOracle: terminalOracle(r, j.sc, j.signAll),
			OnGlobal: func(s *explore.Sys, locals []*explore.LState, viol func(key, what string, trace []string), trace func() []string) {
				r.Count("states_with_invariant_evaluated", 1)
				inv(s, locals, viol, trace)
				era(s, locals, viol, trace)
			}}
		st := protomc.Explore(r, j.sc, o)
		states += st.States
		trans += st.Transitions
		traces += st.JointReplays
		mode := "all schedules (decomposed); every reachable state is a cut point"
		if j.mode == "dev" {
			mode = fmt.Sprintf("complete runs with <=%d deviations; invariant evaluated after every step", j.devs)
		}
		r.Distinct("terminal_outcomes", fmt.Sprintf("%s#%d", j.sc.Name, st.DistinctOutcomes))
		r.Set("cfg:"+j.sc.Name, map[string]interface{}{"mode": mode, "states": st.States, "transitions": st.Transitions, "terminal_states_or_runs": st.Terminals, "joint_replays": st.JointReplays})
		if len(st.Samples) > 0 {
			r.Sample(5, st.Samples[0])
		}
		if st.Capped {
			r.Cap("cap in " + j.sc.Name)
		}
		fmt.Printf("  %-62s %s states=%d trans=%d runs/terminals=%d\n", j.sc.Name, j.mode, st.States, st.Transitions, st.Terminals)
	}
	faults(r)
	chains(r)
	r.Set("states", states)
	r.Set("transitions", trans)
	r.Set("traces_validated_against_impl", traces)
	r.Assume("party independence validated by joint replays; in deviation mode every run is a joint run of the implementation")
	r.Assume("new committee ids (101, 102, ...) are distinct from the old committee's ids, as the property requires")
}

// faults: a new member never accepts shares whose combination does not match the key it was told.
func faults(r *core.Run) {
	type variant struct {
		name   string
		tamper func(cfg *netrun.Config)
	}
	G := func(c *ref.Curve) ref.Point { return c.G() }
	_ = G
	edVariants := []variant{
		{"old-member-0-announces-another-key", func(cfg *netrun.Config) {
			k := cfg.EdKeys[0]
			p2, _ := k.EDDSAPub.Add(crypto.ScalarBaseMult(k.EDDSAPub.Curve(), big.NewInt(1)))
			cfg.EdKeys[0].EDDSAPub = p2
		}},
		{"old-member-1-uses-wrong-share", func(cfg *netrun.Config) {
			cfg.EdKeys[1].Xi = new(big.Int).Add(cfg.EdKeys[1].Xi, big.NewInt(1))
		}},
	}
	for _, v := range edVariants {
		sc := scen.EdResharing(3, 1, []int{0, 2}, 2, 1, r.Seed)
		cfg := sc.Cfg
		cfg.EdKeys = append([]edkg.LocalPartySaveData{}, cfg.EdKeys...)
		v.tamper(&cfg)
		nw, err := netrun.New(cfg)
		if err != nil {
			r.Cap("fault scenario could not be built: " + err.Error())
			continue
		}
		nw.RunFIFO()
		r.Count("fault_runs", 1)
		for p, n := range nw.Nodes {
			if n.Role == "new" && len(n.Ends) > 0 {
				r.Violate("eddsa-resharing/fault/"+v.name+"/new-member-accepted", fmt.Sprintf("new member %d emitted key data although the shares do not combine to the announced key", p), v.name)
			}
			if n.Role == "old" && n.EdKey.Xi.Sign() == 0 {
				r.Violate("eddsa-resharing/fault/"+v.name+"/old-share-erased", fmt.Sprintf("old member %d erased its share although the new committee did not complete", p), v.name)
			}
		}
	}
	ecVariants := []variant{
		{"old-member-0-announces-another-key", func(cfg *netrun.Config) {
			k := cfg.EcKeys[0]
			p2, _ := k.ECDSAPub.Add(crypto.ScalarBaseMult(k.ECDSAPub.Curve(), big.NewInt(1)))
			cfg.EcKeys[0].ECDSAPub = p2
		}},
		{"old-member-1-uses-wrong-share", func(cfg *netrun.Config) {
			cfg.EcKeys[1].Xi = new(big.Int).Add(cfg.EcKeys[1].Xi, big.NewInt(1))
		}},
	}
	for _, v := range ecVariants {
		sc := scen.EcResharing(2, 1, []int{0, 1}, 2, 1, r.Seed, true)
		cfg := sc.Cfg
		cfg.EcKeys = append([]eckg.LocalPartySaveData{}, cfg.EcKeys...)
		v.tamper(&cfg)
		nw, err := netrun.New(cfg)
		if err != nil {
			r.Cap("fault scenario could not be built: " + err.Error())
			continue
		}
		nw.RunFIFO()
		r.Count("fault_runs", 1)
		for p, n := range nw.Nodes {
			if n.Role == "new" && len(n.Ends) > 0 {
				r.Violate("ecdsa-resharing/fault/"+v.name+"/new-member-accepted", fmt.Sprintf("new member %d emitted key data although the shares do not combine to the announced key", p), v.name)
			}
			if n.Role == "old" && n.EcKey.Xi.Sign() == 0 {
				r.Violate("ecdsa-resharing/fault/"+v.name+"/old-share-erased", fmt.Sprintf("old member %d erased its share although the new committee did not complete", p), v.name)
			}
		}
	}
}

// chains: successive resharings over the threshold-change alphabet {<,=,>} followed by signing with
// every (t'+1)-subset of the last committee.
func chains(r *core.Run) {
	maxLen := 2
	alphabet := []string{"<", "=", ">"}
	var seqs [][]string
	var rec func(cur []string)
	rec = func(cur []string) {
		if len(cur) > 0 {
			seqs = append(seqs, append([]string{}, cur...))
		}
		if len(cur) == maxLen {
			return
		}
		for _, a := range alphabet {
			rec(append(cur, a))
		}
	}
	rec(nil)
	base := scen.EdKey("small", 4, 2, r.Seed)
	pub := base[0].EDDSAPub
	msg := new(big.Int).SetBytes(core.Bytes("c04-chain", 32))
	for _, seq := range seqs {
		keys := scen.CopyEdKeys(base)
		t, n := 2, 4
		ok := true
		for step, op := range seq {
			t2 := t
			switch op {
			case "<":
				t2 = t - 1
			case ">":
				t2 = t + 1
			}
			if t2 < 1 {
				ok = false
				break
			}
			n2 := t2 + 2
			var newKeys []*big.Int
			for i := 0; i < n2; i++ {
				newKeys = append(newKeys, big.NewInt(int64(1000*(step+1)+i+1)))
			}
			// the first t+1 holders take part
			cfg := netrun.Config{Proto: netrun.EddsaResharing, EdKeys: keys[:t+1], Threshold: t, OldN: n, NewKeys: newKeys, NewThreshold: t2, Seed: r.Seed, Label: strings.Join(seq, "") + fmt.Sprint(step)}
			for _, k := range cfg.EdKeys {
				if k.Xi != nil && k.Xi.Cmp(ref.Ed25519.N) >= 0 {
					r.Count("chain_old_shares_not_below_q", 1)
				}
			}
			nw, err := netrun.New(cfg)
			if err != nil {
				r.Violate("chain/constructor", err.Error(), seq)
				ok = false
				break
			}
			_, e, pan := nw.RunFIFO()
			if e != nil || len(pan) > 0 {
				r.Violate("eddsa-resharing/chain/"+strings.Join(seq, "")+"/error", fmt.Sprint(e, pan), seq)
				ok = false
				break
			}
			var next []edkg.LocalPartySaveData
			var parts []oracle.Sharing
			// every hop of a chain: the old members (none of them is in the new committee) end with the
			// caller-held share erased. From the second hop on the shares are the unreduced sums a resharing
			// writes (>= q as a rule), which no keygen-made key of the other scenarios has.
			for _, nd := range nw.Nodes {
				if nd.Role == "old" {
					r.Count("chain_old_members_observed", 1)
					if len(nd.Ends) != 1 {
						r.Violate("eddsa-resharing/chain/old-member-no-result", fmt.Sprintf("old member %d of hop %d did not finish", nd.Idx, step+1), seq)
					} else if nd.EdKey == nil || nd.EdKey.Xi == nil || nd.EdKey.Xi.Sign() != 0 {
						r.Violate("eddsa-resharing/chain/old-member-finished-with-share-intact", fmt.Sprintf("old member %d of hop %d finished but its caller-visible Xi is not erased", nd.Idx, step+1), map[string]interface{}{"chain": seq, "hop": step + 1, "old_member": nd.Idx})
					}
				}
			}
			for _, nd := range nw.Nodes {
				if nd.Role == "new" {
					if len(nd.Ends) != 1 {
						r.Violate("eddsa-resharing/chain/no-result", "new member without a result", seq)
						ok = false
						break
					}
					s := nd.Ends[0].(*edkg.LocalPartySaveData)
					next = append(next, *s)
					parts = append(parts, oracle.EdSharing(s))
				}
			}
			if !ok {
				break
			}
			want := ref.Point{X: pub.X(), Y: pub.Y()}
			for _, pr := range oracle.CheckSharing(ref.Ed25519, parts, newKeys, t2, &want) {
				r.Violate("eddsa-resharing/chain/"+pr.Key, pr.What, seq)
			}
			keys, t, n = next, t2, n2
		}
		if !ok {
			continue
		}
		r.Count("chains", 1)
		r.Distinct("chain_shapes", strings.Join(seq, ""))
		for _, sub := range oracle.Subsets(n, t+1) {
			var ks []edkg.LocalPartySaveData
			for _, i := range sub {
				ks = append(ks, keys[i])
			}
			nw, err := netrun.New(netrun.Config{Proto: netrun.EddsaSigning, EdKeys: ks, Threshold: t, Msg: msg, Seed: r.Seed, Label: "chain-sign"})
			if err != nil {
				r.Violate("chain/sign-constructor", err.Error(), seq)
				continue
			}
			_, e, pan := nw.RunFIFO()
			r.Count("chain_signing_runs", 1)
			if e != nil || len(pan) > 0 || len(nw.Nodes[0].Ends) != 1 {
				r.Violate("eddsa-resharing/chain/"+strings.Join(seq, "")+"/cannot-sign", fmt.Sprint(e, pan), map[string]interface{}{"chain": seq, "subset": sub})
				continue
			}
			for _, pr := range oracle.CheckEddsaSig(nw.Nodes[0].Ends[0].(*common.SignatureData), pub, msg, 0) {
				r.Violate("eddsa-resharing/chain/signature/"+pr.Key, pr.What, map[string]interface{}{"chain": seq, "subset": sub})
			}
		}
	}
	if r.Tier == "thorough" {
		ecChain(r)
	}
	_ = fix.PreParams
}

func ecChain(r *core.Run) {
	base := scen.EcKey("small", 3, 1, r.Seed)
	pub := base[0].ECDSAPub
	keys := scen.CopyEcKeys(base)
	t, n := 1, 3
	pp := fix.PreParams()
	for step, t2 := range []int{2, 1} {
		n2 := t2 + 1
		var newKeys []*big.Int
		for i := 0; i < n2; i++ {
			newKeys = append(newKeys, big.NewInt(int64(1000*(step+1)+i+1)))
		}
		cfg := netrun.Config{Proto: netrun.EcdsaResharing, EcKeys: keys[:t+1], Threshold: t, OldN: n, NewKeys: newKeys, NewThreshold: t2, Seed: r.Seed, Label: fmt.Sprint("ecchain", step), PreParams: pp[:n2]}
		nw, err := netrun.New(cfg)
		if err != nil {
			r.Violate("ecdsa-resharing/chain/constructor", err.Error(), step)
			return
		}
		_, e, pan := nw.RunFIFO()
		if e != nil || len(pan) > 0 {
			r.Violate("ecdsa-resharing/chain/error", fmt.Sprint(e, pan), step)
			return
		}
		var next []eckg.LocalPartySaveData
		var parts []oracle.Sharing
		for _, nd := range nw.Nodes {
			if nd.Role == "old" {
				r.Count("chain_old_members_observed", 1)
				if len(nd.Ends) == 1 && (nd.EcKey == nil || nd.EcKey.Xi == nil || nd.EcKey.Xi.Sign() != 0) {
					r.Violate("ecdsa-resharing/chain/old-member-finished-with-share-intact", fmt.Sprintf("old member %d of hop %d finished but its caller-visible Xi is not erased", nd.Idx, step+1), step)
				}
			}
		}
		for _, nd := range nw.Nodes {
			if nd.Role == "new" {
				if len(nd.Ends) != 1 {
					r.Violate("ecdsa-resharing/chain/no-result", "new member without a result", step)
					return
				}
				s := nd.Ends[0].(*eckg.LocalPartySaveData)
				next = append(next, *s)
				parts = append(parts, oracle.EcSharing(s))
			}
		}
		want := ref.Point{X: pub.X(), Y: pub.Y()}
		for _, pr := range oracle.CheckSharing(ref.Secp256k1, parts, newKeys, t2, &want) {
			r.Violate("ecdsa-resharing/chain/"+pr.Key, pr.What, step)
		}
		keys, t, n = next, t2, n2
	}
	r.Count("chains", 1)
	msg := big.NewInt(424242)
	nw, err := netrun.New(netrun.Config{Proto: netrun.EcdsaSigning, EcKeys: keys[:t+1], Threshold: t, Msg: msg, Seed: r.Seed, Label: "ecchain-sign"})
	if err == nil {
		_, e, pan := nw.RunFIFO()
		r.Count("chain_signing_runs", 1)
		if e != nil || len(pan) > 0 || len(nw.Nodes[0].Ends) != 1 {
			r.Violate("ecdsa-resharing/chain/cannot-sign", fmt.Sprint(e, pan), nil)
		} else {
			for _, pr := range oracle.CheckEcdsaSig(nw.Nodes[0].Ends[0].(*common.SignatureData), pub, msg, 0) {
				r.Violate("ecdsa-resharing/chain/signature/"+pr.Key, pr.What, nil)
			}
		}
	}
}
