// Package c04: check for property C04 (stub until implemented).
package c04

import "verif/internal/core"

// Implemented reports whether this check is built.
const Implemented = false

func Run(r *core.Run) { r.Cap("not implemented") }
