package c11

import (
	"fmt"
	"math/big"

	"github.com/bnb-chain/tss-lib/v2/common"
	"github.com/bnb-chain/tss-lib/v2/crypto/modproof"
)

// ---- number theory for the harness prover (complete factorisation known) ----

type primePower struct {
	p  *big.Int
	e  int
	pe *big.Int // p^e
	// group (Z/p^e)^* is cyclic of order phi = p^(e-1)(p-1) for odd p; for p = 2 only e = 1 is used (trivial group)
	phi *big.Int
	s   int      // phi = 2^s * m, m odd
	m   *big.Int // odd part
	g2  *big.Int // generator of the 2-Sylow subgroup (order 2^s)
}

func factorise(factors []*big.Int) []*primePower {
	var out []*primePower
	for _, p := range factors {
		if n := len(out); n > 0 && out[n-1].p.Cmp(p) == 0 {
			out[n-1].e++
			continue
		}
		out = append(out, &primePower{p: p, e: 1})
	}
	for _, pp := range out {
		pp.pe = new(big.Int).Exp(pp.p, bi(int64(pp.e)), nil)
		pp.phi = new(big.Int).Mul(new(big.Int).Exp(pp.p, bi(int64(pp.e-1)), nil), new(big.Int).Sub(pp.p, bi1))
		pp.m = new(big.Int).Set(pp.phi)
		for pp.m.Sign() > 0 && pp.m.Bit(0) == 0 {
			pp.m.Rsh(pp.m, 1)
			pp.s++
		}
		if pp.p.Cmp(bi2) == 0 {
			pp.g2 = bi(1)
			continue
		}
		// a quadratic non-residue modulo p generates the 2-Sylow subgroup after raising to m
		for n := int64(2); ; n++ {
			if big.Jacobi(bi(n), pp.p) == -1 {
				pp.g2 = new(big.Int).Exp(bi(n), pp.m, pp.pe)
				break
			}
		}
	}
	return out
}

// fourthRoot returns (root, exact). If y is not a fourth power in (Z/p^e)^* the returned value is the prover's best
// effort (exact=false).
func (pp *primePower) fourthRoot(y *big.Int) (*big.Int, bool) {
	y = new(big.Int).Mod(y, pp.pe)
	if pp.p.Cmp(bi2) == 0 {
		return bi(1), true
	}
	if gcd(y, pp.p).Cmp(bi1) != 0 {
		return bi(1), false
	}
	// split y = a*b, a in the odd-order part (order | m), b in the 2-Sylow part (order | 2^s)
	twoS := new(big.Int).Lsh(bi1, uint(pp.s))
	inv := new(big.Int).ModInverse(twoS, pp.m) // 2^-s mod m
	ea := new(big.Int).Mul(twoS, inv)          // ≡ 1 mod m, ≡ 0 mod 2^s
	a := new(big.Int).Exp(y, ea, pp.pe)
	b := new(big.Int).Mul(y, new(big.Int).ModInverse(a, pp.pe))
	b.Mod(b, pp.pe)
	ra := new(big.Int).Exp(a, new(big.Int).ModInverse(bi4, pp.m), pp.pe)
	// discrete log of b to the base g2 (2^s is tiny for the moduli used here)
	k := -1
	cur := bi(1)
	for i := 0; i < 1<<uint(pp.s); i++ {
		if cur.Cmp(b) == 0 {
			k = i
			break
		}
		cur = new(big.Int).Mul(cur, pp.g2)
		cur.Mod(cur, pp.pe)
	}
	if k < 0 {
		return ra, false
	}
	exact := k%4 == 0
	rb := new(big.Int).Exp(pp.g2, bi(int64(k/4)), pp.pe)
	r := new(big.Int).Mul(ra, rb)
	return r.Mod(r, pp.pe), exact
}

// nthRoot returns an N-th root of y in (Z/p^e)^* when N is invertible modulo the group order; otherwise best effort
// (exact=false unless the candidate happens to work).
func (pp *primePower) nthRoot(y, N *big.Int) (*big.Int, bool) {
	y = new(big.Int).Mod(y, pp.pe)
	if pp.p.Cmp(bi2) == 0 {
		return bi(1), true
	}
	if gcd(y, pp.p).Cmp(bi1) != 0 {
		return bi(1), false
	}
	ord := new(big.Int).Set(pp.phi)
	for {
		g := gcd(N, ord)
		if g.Cmp(bi1) == 0 {
			break
		}
		ord.Div(ord, g)
	}
	if ord.Cmp(bi1) == 0 {
		return bi(1), new(big.Int).Mod(y, pp.pe).Cmp(bi1) == 0
	}
	r := new(big.Int).Exp(y, new(big.Int).ModInverse(new(big.Int).Mod(N, ord), ord), pp.pe)
	return r, new(big.Int).Exp(r, N, pp.pe).Cmp(y) == 0
}

func crt(pps []*primePower, res []*big.Int, N *big.Int) *big.Int {
	x := bi(0)
	for i, pp := range pps {
		Mi := new(big.Int).Div(N, pp.pe)
		inv := new(big.Int).ModInverse(new(big.Int).Mod(Mi, pp.pe), pp.pe)
		t := new(big.Int).Mul(res[i], Mi)
		t.Mul(t, inv)
		x.Add(x, t)
	}
	return x.Mod(x, N)
}

// modHarnessProve follows modproof.NewProof (Fig. 16 of CGGMP) with the complete factorisation of N:
// Y_i from the same hash chain, z_i an N-th root of Y_i, (a_i,b_i) the first pair (library order) for which
// (-1)^a W^b Y_i has a fourth root, x_i that root – all computed by CRT. Where a root does not exist the best-effort
// value is used. Returns the proof and the number of iterations whose z- and x-equations hold.
func modHarnessProve(session []byte, N *big.Int, factors []*big.Int, W *big.Int) (pf *modproof.ProofMod, zOK, xOK int) {
	pps := factorise(factors)
	Y := [modproof.Iterations]*big.Int{}
	for i := range Y {
		ei := common.SHA512_256i_TAGGED(session, append([]*big.Int{W, N}, Y[:i]...)...)
		Y[i] = common.RejectionSample(N, ei)
	}
	A := new(big.Int).Lsh(bi1, modproof.Iterations)
	B := new(big.Int).Lsh(bi1, modproof.Iterations)
	X := [modproof.Iterations]*big.Int{}
	Z := [modproof.Iterations]*big.Int{}
	clamp := func(v *big.Int) *big.Int { // responses must lie in [1, N)
		if v.Sign() == 0 {
			return bi(1)
		}
		return v
	}
	for i := range Y {
		zr := make([]*big.Int, len(pps))
		allz := true
		for k, pp := range pps {
			var ok bool
			zr[k], ok = pp.nthRoot(Y[i], N)
			allz = allz && ok
		}
		Z[i] = clamp(crt(pps, zr, N))
		if allz {
			zOK++
		}
		var fallback *big.Int
		found := false
		for j := 0; j < 4 && !found; j++ {
			a, b := j&1, (j&2)>>1
			yi := new(big.Int).Set(Y[i])
			if a > 0 {
				yi.Neg(yi).Mod(yi, N)
			}
			if b > 0 {
				yi.Mul(yi, W).Mod(yi, N)
			}
			xr := make([]*big.Int, len(pps))
			all := true
			for k, pp := range pps {
				var ok bool
				xr[k], ok = pp.fourthRoot(yi)
				all = all && ok
			}
			x := clamp(crt(pps, xr, N))
			if j == 0 {
				fallback = x
			}
			if all {
				X[i] = x
				A.SetBit(A, i, uint(a))
				B.SetBit(B, i, uint(b))
				found = true
				xOK++
			}
		}
		if !found {
			X[i] = fallback
		}
	}
	return &modproof.ProofMod{W: W, X: X, A: A, B: B, Z: Z}, zOK, xOK
}

// wCandidates: for odd N, the first W (deterministic stream) for every pattern of quadratic characters modulo the
// distinct odd primes of N whose product is -1 (these are all the W the library prover could draw, by type);
// if no W with Jacobi symbol -1 exists (N a square), one W with symbol +1 and one multiple of p; for even N one
// generic odd W (the Jacobi symbol is undefined there).
func wCandidates(N *big.Int, factors []*big.Int, label string) []struct {
	name string
	W    *big.Int
} {
	type wc = struct {
		name string
		W    *big.Int
	}
	var out []wc
	if N.Bit(0) == 0 {
		w := generic(label+"/w-even", N)
		w.SetBit(w, 0, 1)
		return []wc{{"generic-odd", w}}
	}
	pps := factorise(factors)
	seen := map[string]bool{}
	want := 1 << uint(len(pps)-1)
	square := true
	for _, pp := range pps {
		if pp.e%2 == 1 {
			square = false
		}
	}
	if square {
		w := generic(label+"/w-sq", N)
		for gcd(w, N).Cmp(bi1) != 0 {
			w.Add(w, bi1)
		}
		return []wc{{"jacobi+1(no -1 exists)", w}, {"multiple-of-p(jacobi 0)", new(big.Int).Mul(pps[0].p, bi(int64(3)))}}
	}
	for i := 0; i < 4096 && len(out) < want; i++ {
		w := generic(fmt.Sprintf("%s/w#%d", label, i), N)
		if big.Jacobi(w, N) != -1 {
			continue
		}
		pat := ""
		for _, pp := range pps {
			if big.Jacobi(w, pp.p) == 1 {
				pat += "+"
			} else {
				pat += "-"
			}
		}
		if !seen[pat] {
			seen[pat] = true
			out = append(out, wc{"chars(" + pat + ")", w})
		}
	}
	return out
}

func modRec(pf *modproof.ProofMod) map[string]interface{} {
	return map[string]interface{}{"W": hexs(pf.W), "A": hexs(pf.A), "B": hexs(pf.B), "X": hexList(pf.X[:]), "Z": hexList(pf.Z[:])}
}

type libSplit struct {
	name string
	P, Q *big.Int
}

func (e *env) modTasks() {
	type modCase struct {
		fam  string
		name string
	}
	cases := []modCase{
		{"prime", "prime3mod4"}, {"prime", "prime5mod8"},
		{"even", "even2r"},
		{"prime-power", "psquare"},
		{"three-primes", "pqr"},
		{"factor-1-mod-4", "p1q3"}, {"factor-1-mod-4", "p1q1"},
		{"shares-factor-with-phi", "pdivq1"},
	}
	for _, c := range cases {
		m := e.mods[c.name]
		f := m.Factors
		// witnesses a library prover could be handed for this modulus
		var splits []libSplit
		switch len(f) {
		case 1:
			splits = []libSplit{{"P=N,Q=1", m.N, bi(1)}}
		case 2:
			splits = []libSplit{{"P=f0,Q=f1", f[0], f[1]}}
		case 3:
			splits = []libSplit{{"P=f0,Q=f1*f2", f[0], mul(f[1], f[2])}, {"P=f0*f1,Q=f2", mul(f[0], f[1]), f[2]}}
		}
		for _, ss := range e.sess {
			for _, sp := range splits {
				c, ss, sp := c, ss, sp
				canon := fmt.Sprintf("mod/%s/%s/lib(%s)/sess=%s", c.fam, c.name, sp.name, ss.name)
				e.add("mod", canon, func(t *task) {
					var pf *modproof.ProofMod
					ok, why := tryProve(func() (err error) {
						pf, err = modproof.NewProof(ss.bz, m.N, sp.P, sp.Q, newRand(canon))
						return err
					})
					if !ok {
						e.r.Count("lib_prover_cannot_run", 1)
						e.r.Distinct("lib_prover_cannot_run_reasons", "modproof.NewProof on "+c.name+": "+why)
						return
					}
					complete := pf.ValidateBasic() // the library prover leaves X[i], Z[i] nil when it finds no (a,b) for an iteration
					t.sample = map[string]interface{}{"case": canon, "prover_output_complete": complete}
					res := guard(func() (bool, error) { return pf.Verify(ss.bz, m.N), nil })
					rec := map[string]interface{}{"modulus": c.name, "N": hexs(m.N), "factors": hexList(f), "witness": sp.name, "prover_output_complete": complete, "session": fmt.Sprintf("%x", ss.bz),
						"rand": "core.NewDRBG(\"c11/rand/" + canon + "\")", "proof": modRec(pf)}
					e.judge(t, "mod/"+c.fam+"/"+c.name+"/libprover", "mod proof (library prover, witness "+sp.name+") for N "+c.fam+" ("+c.name+")", rec, res)
				})
			}
			for _, w := range wCandidates(m.N, f, "mod/"+c.name) {
				c, ss, w := c, ss, w
				canon := fmt.Sprintf("mod/%s/%s/harness/W=%s/sess=%s", c.fam, c.name, w.name, ss.name)
				e.add("mod", canon, func(t *task) {
					pf, zOK, xOK := modHarnessProve(ss.bz, m.N, f, w.W)
					res := guard(func() (bool, error) { return pf.Verify(ss.bz, m.N), nil })
					rec := map[string]interface{}{"modulus": c.name, "N": hexs(m.N), "factors": hexList(f), "W_kind": w.name, "session": fmt.Sprintf("%x", ss.bz),
						"nth_root_equations_holding_of_80": zOK, "fourth_root_equations_holding_of_80": xOK, "proof": modRec(pf)}
					t.sample = map[string]interface{}{"case": canon, "nth_root_equations_holding_of_80": zOK, "fourth_root_equations_holding_of_80": xOK}
					if zOK == modproof.Iterations && xOK == modproof.Iterations {
						e.r.Count("mod_all_160_equations_hold", 1)
					}
					e.judge(t, "mod/"+c.fam+"/"+c.name+"/harness", fmt.Sprintf("mod proof (harness prover with the full factorisation; %d/80 N-th-root and %d/80 fourth-root equations hold) for N %s (%s)", zOK, xOK, c.fam, c.name), rec, res)
				})
			}
		}
	}
	// controls: honest Blum modulus, library prover and harness prover (validates the harness prover)
	for _, p := range e.nPsets(2) {
		p := p
		e.add("mod", fmt.Sprintf("mod/control/lib/key%d", p.idx), func(t *task) {
			pf, err := modproof.NewProof(e.sess[1].bz, p.pk.N, p.sk.P, p.sk.Q, newRand(t.canon))
			if err != nil {
				panic(err)
			}
			e.control("mod proof honest (library prover)", guard(func() (bool, error) { return pf.Verify(e.sess[1].bz, p.pk.N), nil }))
		})
		e.add("mod", fmt.Sprintf("mod/control/harness/key%d", p.idx), func(t *task) {
			f := []*big.Int{p.sk.P, p.sk.Q}
			sortInts(f)
			for _, w := range wCandidates(p.pk.N, f, fmt.Sprintf("mod/control/%d", p.idx)) {
				pf, _, _ := modHarnessProve(e.sess[1].bz, p.pk.N, f, w.W)
				e.control("mod proof honest (harness prover, W "+w.name+")", guard(func() (bool, error) { return pf.Verify(e.sess[1].bz, p.pk.N), nil }))
			}
		})
	}
}
