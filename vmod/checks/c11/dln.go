package c11

import (
	"fmt"
	"math/big"

	"github.com/bnb-chain/tss-lib/v2/crypto/dlnproof"
)

func dlnRec(pf *dlnproof.Proof) map[string]interface{} {
	return map[string]interface{}{"Alpha": hexList(pf.Alpha[:]), "T": hexList(pf.T[:])}
}

// dlnTasks: statement "target ∈ <base>" in Z*_NTilde, witness = discrete logarithm modulo sp*sq.
// direction 1: base h1, target h2 = h1^lam; direction 2: base h2, target h1 = h2^lamInv (the protocol sends both).
func (e *env) dlnTasks() {
	for _, p := range e.nPsets(2) {
		p := p
		N := p.NT
		// the non-trivial square root of 1 that is 1 mod P and -1 mod Q (P = 2sp+1, Q = 2sq+1)
		P := new(big.Int).Add(new(big.Int).Lsh(p.sp, 1), bi1)
		Q := new(big.Int).Add(new(big.Int).Lsh(p.sq, 1), bi1)
		if mul(P, Q).Cmp(N) != 0 {
			e.r.Cap(fmt.Sprintf("fixture %d: NTilde != (2p+1)(2q+1); dln cases skipped", p.idx))
			continue
		}
		u := crt([]*primePower{{p: P, e: 1, pe: P}, {p: Q, e: 1, pe: Q}}, []*big.Int{bi(1), new(big.Int).Sub(Q, bi1)}, N)
		for dir := 1; dir <= 2; dir++ {
			base, target, wit := p.h1, p.h2, p.lam
			if dir == 2 {
				base, target, wit = p.h2, p.h1, p.lamInv
			}
			if new(big.Int).Exp(base, wit, N).Cmp(target) != 0 {
				e.r.Cap(fmt.Sprintf("fixture %d dir %d: target != base^witness; dln cases skipped", p.idx, dir))
				continue
			}
			type dcase struct {
				fam, name string
				target    *big.Int // statement's target
				x         *big.Int // witness handed to the prover
				inGroup   bool     // true: target is in <base> but x is not its logarithm
			}
			var cs []dcase
			// (1) target outside <base> (<base> = the squares, odd order sp*sq)
			cs = append(cs, dcase{"h2-outside-group", "-h1^a", new(big.Int).Sub(N, target), wit, false})
			cs = append(cs, dcase{"h2-outside-group", "h1^a*sqrt1(order-2 twist)", new(big.Int).Mod(new(big.Int).Mul(target, u), N), wit, false})
			for i := 0; ; i++ {
				w := generic(fmt.Sprintf("dln/jm1/%d/%d#%d", p.idx, dir, i), N)
				if big.Jacobi(w, N) == -1 {
					cs = append(cs, dcase{"h2-outside-group", "generic-jacobi-1", w, generic(fmt.Sprintf("dln/x/%d/%d", p.idx, dir), p.ord), false})
					break
				}
			}
			{
				g := generic(fmt.Sprintf("dln/nsq/%d/%d", p.idx, dir), N)
				w := new(big.Int).Mul(g, g)
				w.Mod(w, N).Sub(N, w) // -(g^2): Jacobi +1, not a square
				cs = append(cs, dcase{"h2-outside-group", "generic-nonresidue-jacobi+1", w, generic(fmt.Sprintf("dln/x2/%d/%d", p.idx, dir), p.ord), false})
			}
			// (2) wrong exponent
			wrongs := []struct {
				name string
				x    *big.Int
			}{
				{"a+1", new(big.Int).Add(wit, bi1)},
				{"a-1", new(big.Int).Sub(wit, bi1)},
				{"2a", new(big.Int).Lsh(wit, 1)},
				{"a+p'", new(big.Int).Add(wit, p.sp)},
				{"generic", generic(fmt.Sprintf("dln/wx/%d/%d", p.idx, dir), p.ord)},
			}
			for _, w := range wrongs {
				cs = append(cs, dcase{"wrong-exponent", w.name, target, w.x, true})
			}
			for _, c := range cs {
				c, dir, base := c, dir, base
				canon := fmt.Sprintf("dln/%s/%s/dir%d/params%d", c.fam, c.name, dir, p.idx)
				e.add("dln", canon, func(t *task) {
					if c.inGroup {
						// skip exponents equivalent to the true one
						if new(big.Int).Exp(base, new(big.Int).Mod(c.x, p.ord), N).Cmp(c.target) == 0 {
							e.r.Count("skipped_equivalent", 1)
							return
						}
					} else {
						// target^(sp*sq) != 1  <=>  target is not in the group of squares
						if new(big.Int).Exp(c.target, p.ord, N).Cmp(bi1) == 0 {
							e.r.Count("skipped_equivalent", 1)
							return
						}
					}
					var pf *dlnproof.Proof
					ok, why := tryProve(func() error {
						pf = dlnproof.NewDLNProof(base, c.target, c.x, p.sp, p.sq, N, newRand(canon))
						return nil
					})
					if !ok {
						e.r.Count("lib_prover_cannot_run", 1)
						e.r.Distinct("lib_prover_cannot_run_reasons", "NewDLNProof: "+why)
						return
					}
					res := guard(func() (bool, error) { return pf.Verify(base, c.target, N), nil })
					rec := map[string]interface{}{"params": fmt.Sprintf("keygen_data_%d.json (NTilde,H1,H2,Alpha,Beta,P,Q)", p.idx), "direction": dir, "base": hexs(base), "target": hexs(c.target),
						"x": hexs(c.x), "rand": "core.NewDRBG(\"c11/rand/" + canon + "\")", "proof": dlnRec(pf)}
					e.judge(t, fmt.Sprintf("dln/%s/%s/dir%d", c.fam, c.name, dir), "dln proof (library prover) for "+c.fam+" ("+c.name+")", rec, res)
				})
			}
			// control
			dirc, basec, targetc, witc := dir, base, target, wit
			e.add("dln", fmt.Sprintf("dln/control/dir%d/params%d", dir, p.idx), func(t *task) {
				pf := dlnproof.NewDLNProof(basec, targetc, witc, p.sp, p.sq, N, newRand(t.canon))
				_ = dirc
				e.control("dln honest", guard(func() (bool, error) { return pf.Verify(basec, targetc, N), nil }))
			})
		}
	}
}
