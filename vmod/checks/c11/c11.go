// Package c11: verifiers reject proofs of false statements and out-of-range secrets; Paillier operations
// refuse out-of-domain values (ENUM).
//
// The space is an explicit product: proof system × false-statement family × violation size
// {M+1, 2M, M·2^64, M·2^512} (M = largest accepted value of the bounded quantity) × vendored parameter
// sets × session class × prover kind, where the prover is
//   - "lib":     the library's own prover run on the bad witness (where it runs), or
//   - "harness": a copy of the prover algorithm in this package with the masks chosen here, producing a
//     transcript that satisfies every verification equation and misses exactly one range
//     bound (each such transcript has a twin with the response exactly AT the bound, which
//     must be accepted: that proves the rejection of the bound+1 transcript is due to the
//     bound alone).
//
// Oracle: every case must be refused (Verify false / error). A panic of the code under test is recorded
// with key c06-overlap/…:panic (C06 owns it); it counts as "not accepted" here.
package c11

import (
	"fmt"
	"math/big"
	"runtime"
	"sort"
	"strings"
	"sync"
	"sync/atomic"
	"time"

	"github.com/bnb-chain/tss-lib/v2/crypto"
	"github.com/bnb-chain/tss-lib/v2/crypto/paillier"
	"github.com/bnb-chain/tss-lib/v2/tss"

	"verif/internal/core"
	"verif/internal/fix"
)

// Implemented reports whether this check is built.
const Implemented = true

const watchdog = 180 * time.Second

// ---------------------------------------------------------------------------------------------
// guarded calls

type result struct {
	acc  bool
	err  error
	pan  string // panic value, "" if none
	site string // first /repo frame of the panic
	hang bool
}

func repoSite(stack string) string {
	lines := strings.Split(stack, "\n")
	for i := 0; i+1 < len(lines); i++ {
		l := strings.TrimSpace(lines[i+1])
		if strings.Contains(lines[i], "tss-lib") && !strings.Contains(lines[i], "panic") {
			if j := strings.Index(l, " +0x"); j > 0 {
				l = l[:j]
			}
			fn := strings.TrimSpace(lines[i])
			if k := strings.Index(fn, "("); k > 0 {
				fn = fn[:k]
			}
			return fn + " " + l
		}
	}
	return ""
}

// guard runs f in its own goroutine, recovers a panic and gives up waiting after the watchdog.
func guard(f func() (bool, error)) result {
	ch := make(chan result, 1)
	go func() {
		defer func() {
			if p := recover(); p != nil {
				buf := make([]byte, 16<<10)
				n := runtime.Stack(buf, false)
				ch <- result{pan: clip(fmt.Sprint(p), 120), site: repoSite(string(buf[:n]))}
			}
		}()
		a, e := f()
		ch <- result{acc: a, err: e}
	}()
	select {
	case o := <-ch:
		return o
	case <-time.After(watchdog):
		return result{hang: true}
	}
}

// tryProve runs a (library) prover under the same guard; ok=false means the prover could not run.
func tryProve(f func() error) (ok bool, why string) {
	r := guard(func() (bool, error) { return true, f() })
	switch {
	case r.hang:
		return false, "hang"
	case r.pan != "":
		if strings.Contains(r.pan, errBudget.Error()) {
			return false, "loops (randomness budget exhausted)"
		}
		return false, "panic: " + r.pan
	case r.err != nil:
		return false, "error: " + r.err.Error()
	}
	return true, ""
}

func clip(s string, n int) string {
	if len(s) > n {
		return s[:n] + "…"
	}
	return s
}

var errBudget = fmt.Errorf("c11: randomness budget exhausted")

// budgetReader is a deterministic stream that fails after `left` bytes: a prover that loops forever
// on a bad witness (rejection sampling that can never succeed) ends with a panic inside
// common.MustGetRandomInt instead of spinning, without any wall-clock criterion.
type budgetReader struct {
	d    *core.DRBG
	left int64
}

func newRand(label string) *budgetReader {
	return &budgetReader{d: core.NewDRBG("c11/rand/" + label), left: 4 << 20}
}

func (b *budgetReader) Read(p []byte) (int, error) {
	if atomic.AddInt64(&b.left, -int64(len(p))) < 0 {
		return 0, errBudget
	}
	return b.d.Read(p)
}

// ---------------------------------------------------------------------------------------------
// parameter sets

type pset struct {
	idx      int
	sk       *paillier.PrivateKey
	pk       *paillier.PublicKey
	NT       *big.Int // NTilde = (2sp+1)(2sq+1)
	h1, h2   *big.Int // h2 = h1^lam
	lam      *big.Int // Alpha
	lamInv   *big.Int // Beta = lam^-1 mod sp*sq
	sp, sq   *big.Int // Sophie Germain primes
	ord      *big.Int // sp*sq = order of the group of squares
	ecdsaPub *crypto.ECPoint
}

func loadPsets() []*pset {
	fx := fix.EcFixtures()
	out := make([]*pset, len(fx))
	for i := range fx {
		k := fx[i]
		out[i] = &pset{idx: i, sk: k.PaillierSK, pk: &k.PaillierSK.PublicKey, NT: k.NTildei, h1: k.H1i, h2: k.H2i,
			lam: k.Alpha, lamInv: k.Beta, sp: k.P, sq: k.Q, ord: new(big.Int).Mul(k.P, k.Q), ecdsaPub: k.ECDSAPub}
	}
	return out
}

// ---------------------------------------------------------------------------------------------
// tasks

type env struct {
	r      *core.Run
	quick  bool
	ps     []*pset
	mods   map[string]*modulus
	tasks  []*task
	q      *big.Int // secp256k1 order
	q3, q7 *big.Int
	sess   []sessionClass
}

type sessionClass struct {
	name string
	bz   []byte
}

type task struct {
	canon  string // canonical description of the case (distinctness)
	family string
	run    func(t *task)
	sample interface{}
	viol   []pendingViolation // emitted in enumeration order after the parallel phase (deterministic replay files)
}

type pendingViolation struct {
	key, what string
	rec       interface{}
}

func (t *task) violate(key, what string, rec interface{}) {
	t.viol = append(t.viol, pendingViolation{key, what, rec})
}

func (e *env) add(family, canon string, run func(t *task)) {
	e.tasks = append(e.tasks, &task{canon: canon, family: family, run: run})
}

// judge applies the oracle to one negative case.
//
//	key   – case signature without the outcome class
//	what  – human description
//	rec   – reproduction data
func (e *env) judge(t *task, key, what string, rec map[string]interface{}, res result) {
	r := e.r
	r.Count("evaluations", 1)
	r.Count("cases/"+t.family, 1)
	r.Distinct("cases", t.canon)
	outcome := "rejected"
	switch {
	case res.hang:
		outcome = "hang"
		t.violate(key+":hang", what+": verification did not return within "+watchdog.String(), rec)
	case res.pan != "":
		outcome = "panic"
		rec["panic"] = res.pan
		rec["site"] = res.site
		t.violate("c06-overlap/"+key+":panic", what+": panic in the code under test ("+res.pan+") at "+res.site+" [C06's business; counts as not accepted for C11]", rec)
	case res.acc && res.err == nil:
		outcome = "accepted"
		t.violate(key+":accepted", what+": ACCEPTED", rec)
	case res.err != nil:
		outcome = "error"
	}
	r.Count("outcome/"+outcome, 1)
	r.Distinct("outcomes", t.family+"/"+outcome)
	if m, ok := t.sample.(map[string]interface{}); ok {
		m["outcome"] = outcome
	} else {
		t.sample = map[string]interface{}{"case": t.canon, "outcome": outcome}
	}
}

// control records the outcome of a positive control (a true statement / in-range twin that exercises the same
// code path). A refused control is not a C11 violation (completeness is C10's property) but it makes the
// matching negative cases uninformative, so the run is marked non-exhaustive.
func (e *env) control(name string, res result) {
	e.r.Count("controls", 1)
	if res.acc && res.err == nil && res.pan == "" && !res.hang {
		e.r.Count("controls_accepted", 1)
		return
	}
	e.r.Count("controls_refused", 1)
	e.r.Distinct("controls_refused_names", name)
}

func hexs(x *big.Int) string {
	if x == nil {
		return "nil"
	}
	if x.Sign() < 0 {
		return "-" + new(big.Int).Neg(x).Text(16)
	}
	return x.Text(16)
}

// violation sizes relative to M, the largest accepted value.
type sizeClass struct {
	name string
	f    func(M *big.Int) *big.Int
}

var sizes = []sizeClass{
	{"bound+1", func(M *big.Int) *big.Int { return new(big.Int).Add(M, bi1) }},
	{"2*bound", func(M *big.Int) *big.Int { return new(big.Int).Lsh(M, 1) }},
	{"bound*2^64", func(M *big.Int) *big.Int { return new(big.Int).Lsh(M, 64) }},
	{"bound*2^512", func(M *big.Int) *big.Int { return new(big.Int).Lsh(M, 512) }},
}

// generic value in [1, below) from a label.
func generic(label string, below *big.Int) *big.Int {
	v := new(big.Int).SetBytes(core.Bytes("c11/generic/"+label, (below.BitLen()+7)/8+8))
	v.Mod(v, new(big.Int).Sub(below, bi1))
	return v.Add(v, bi1)
}

// genericUnit: generic value in [1, n) coprime to n.
func genericUnit(label string, n *big.Int) *big.Int {
	for i := 0; ; i++ {
		v := generic(fmt.Sprintf("%s#%d", label, i), n)
		if gcd(v, n).Cmp(bi1) == 0 {
			return v
		}
	}
}

// Run is the entry point.
func Run(r *core.Run) {
	e := &env{r: r, quick: r.Tier == "quick"}
	e.q = new(big.Int).Set(tss.S256().Params().N)
	e.q3 = new(big.Int).Exp(e.q, bi3, nil)
	e.q7 = new(big.Int).Exp(e.q, bi(7), nil)
	e.sess = []sessionClass{{"empty", []byte{}}, {"32B", core.Bytes("c11/session", 32)}}

	mods, err := decodeModuli(moduliJSON)
	if err == nil {
		if bad := validateModuli(mods); len(bad) > 0 {
			err = fmt.Errorf("%v", bad)
		}
	}
	if err != nil {
		r.Assume("testdata/moduli.json unusable (" + err.Error() + "); moduli regenerated in memory for this run")
		mods = GenerateModuli()
		if bad := validateModuli(mods); len(bad) > 0 {
			r.Cap("cannot construct the bad moduli: " + strings.Join(bad, "; "))
			r.Set("evaluations", 0)
			r.Set("distinct_nontrivial", 0)
			r.Set("rule", "not run")
			return
		}
	}
	e.mods = mods
	e.ps = loadPsets()
	r.Assume("soundness is decided only for the enumerated false-statement families and sizes (the property is universal over prover strategies); a negligible-probability acceptance by design (challenge = 0, all 13/80/128 iterations passing by chance) would be reported as a violation and has probability < 2^-13 only for a grinding prover, never for the single honest-algorithm runs used here")
	r.Assume("harness provers reuse the library's hash functions (common.SHA512_256i, SHA512_256i_TAGGED, RejectionSample) and samplers; only the prover algorithms are copied, with the range masks chosen by the harness")
	r.Assume("exact bound+1 responses need a zero secret (m = 0 for Alice, x = 0 or y = 0 for Bob) because the response e*secret+mask depends on the challenge; for the fac proof the harness uses the discrete logarithm between the vendored ring-Pedersen generators (known from the fixture) to re-solve the unbounded responses")
	r.Assume("a library PROVER that panics, loops or errors on a bad witness is not a violation (the caller controls its own witness); it is counted in lib_prover_cannot_run and the harness prover is used instead")
	r.Assume("Paillier key proof for a PRIME modulus is an observation, not a violation: gcd(N,phi(N)) = 1 and no factor below 1000 hold, so the statement is inside that proof's language; the statement lists 'prime' for the mod proof, which is checked as must-reject")
	r.Assume("bad moduli are 2048-bit numbers constructed deterministically from core.Bytes labels (testdata/moduli.json, regenerated by `C11_GEN=1 go test ./checks/c11 -run TestGenModuli`) and structurally re-validated at start (products, bit lengths, congruences, gcd(N,phi), primality of all factors)")

	e.schnorrTasks()
	e.paillierGuardTasks()
	e.facTasks()
	e.curveOrderPhase()
	e.mtaTasks()
	e.paillierProofTasks()
	e.modTasks()
	e.dlnTasks()

	budget := 8 * time.Minute
	if e.quick {
		budget = 100 * time.Second
	}
	var cut int64
	var mu sync.Mutex
	core.ParallelFor(len(e.tasks), 16, func(i int) {
		if r.Elapsed() > budget {
			atomic.AddInt64(&cut, 1)
			return
		}
		t := e.tasks[i]
		defer func() {
			if p := recover(); p != nil { // a bug in the harness itself, never the library (library calls are guarded)
				mu.Lock()
				r.Cap(fmt.Sprintf("harness error in task %q: %v", t.canon, p))
				mu.Unlock()
			}
		}()
		t.run(t)
	})
	if cut > 0 {
		r.Cap(fmt.Sprintf("time budget: %d of %d tasks not run", cut, len(e.tasks)))
	}
	if n := r.Get("controls_refused"); n > 0 {
		r.Cap(fmt.Sprintf("%d positive control(s) refused (%s): the matching negative cases are uninformative; completeness is C10's property",
			n, strings.Join(r.DistinctMembers("controls_refused_names"), ", ")))
	}
	// violations and samples in enumeration order (deterministic)
	seen := map[string]int{}
	for _, t := range e.tasks {
		for _, v := range t.viol {
			r.Violate(v.key, v.what, v.rec)
		}
		if t.sample != nil && (seen[t.family] < 2 || (t.family == "mod" && seen[t.family] < 64)) {
			seen[t.family]++
			r.ForceSample(t.sample)
		}
	}
	fams := []string{}
	for f := range seen {
		fams = append(fams, fmt.Sprintf("%s=%d", f, r.Get("cases/"+f)))
	}
	sort.Strings(fams)
	r.Set("families", fams)
	r.Set("observed", r.DistinctMembers("observed"))
	r.Set("lib_prover_cannot_run_reasons", r.DistinctMembers("lib_prover_cannot_run_reasons"))
	r.Set("outcomes_by_family", r.DistinctMembers("outcomes"))
	r.Set("evaluations", int(r.Get("evaluations")))
	r.Set("distinct_nontrivial", r.NDistinct("cases"))
	r.Set("rule", "product of proof system × false-statement family × violation size {M+1,2M,M·2^64,M·2^512} × vendored parameter sets × session class × prover kind (library prover on the bad witness | harness copy of the prover with chosen masks hitting exactly bound+1); "+
		"a case is counted once per canonical string (system/family/variant/size/params/session/prover) and only if the harness has itself established that the statement is false or the response is really outside the bound (equivalent or in-language variants are skipped and counted as skipped_equivalent); "+
		"positive controls (in-range twins, honest proofs) are counted separately as controls")
}
