// Package c11: check for property C11 (stub until implemented).
package c11

import "verif/internal/core"

// Implemented reports whether this check is built.
const Implemented = false

func Run(r *core.Run) { r.Cap("not implemented") }
