package c11

import (
	"os"
	"testing"
)

// TestGenModuli regenerates testdata/moduli.json (only when C11_GEN=1):
//
//	C11_GEN=1 go test ./checks/c11 -run TestGenModuli -count=1
func TestGenModuli(t *testing.T) {
	if os.Getenv("C11_GEN") != "1" {
		t.Skip("set C11_GEN=1 to regenerate testdata/moduli.json")
	}
	m := GenerateModuli()
	if bad := validateModuli(m); len(bad) > 0 {
		t.Fatalf("generated moduli invalid: %v", bad)
	}
	if err := os.WriteFile("testdata/moduli.json", EncodeModuli(m), 0o644); err != nil {
		t.Fatal(err)
	}
}

// TestStoredModuli: the embedded file passes the structural validation.
func TestStoredModuli(t *testing.T) {
	m, err := decodeModuli(moduliJSON)
	if err != nil {
		t.Fatal(err)
	}
	if bad := validateModuli(m); len(bad) > 0 {
		t.Fatalf("stored moduli invalid: %v", bad)
	}
}
