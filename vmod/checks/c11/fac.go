package c11

import (
	"fmt"
	"math/big"

	"github.com/bnb-chain/tss-lib/v2/common"
	"github.com/bnb-chain/tss-lib/v2/crypto/facproof"
	"github.com/bnb-chain/tss-lib/v2/tss"
)

// facHarnessProve follows facproof.NewProof step by step (same sampling ranges, same hash) on the TRUE
// factorisation N0 = p0*q0, then – using the discrete logarithm lam of t to the base s, which the harness knows
// for the vendored ring-Pedersen parameters – moves one response (z1 or z2) to the requested value and
// re-solves the unbounded responses (w1, v or w2) so that all three verification equations still hold.
// which ∈ {"z1","z2"}.
func facHarnessProve(session []byte, N0, p0, q0 *big.Int, v *pset, which string, target *big.Int, label string) *facproof.ProofFac {
	ec := tss.S256()
	rand := newRand(label)
	NCap, s, t := v.NT, v.h1, v.h2
	q := ec.Params().N
	q3 := new(big.Int).Exp(q, bi3, nil)
	qNCap := new(big.Int).Mul(q, NCap)
	qN0NCap := new(big.Int).Mul(qNCap, N0)
	q3NCap := new(big.Int).Mul(q3, NCap)
	q3N0NCap := new(big.Int).Mul(q3NCap, N0)
	q3SqrtN0 := new(big.Int).Mul(q3, new(big.Int).Sqrt(N0))

	alpha := common.GetRandomPositiveInt(rand, q3SqrtN0)
	beta := common.GetRandomPositiveInt(rand, q3SqrtN0)
	mu := common.GetRandomPositiveInt(rand, qNCap)
	nu := common.GetRandomPositiveInt(rand, qNCap)
	sigma := common.GetRandomPositiveInt(rand, qN0NCap)
	r := common.GetRandomPositiveRelativelyPrimeInt(rand, q3N0NCap)
	x := common.GetRandomPositiveInt(rand, q3NCap)
	y := common.GetRandomPositiveInt(rand, q3NCap)

	exp := func(b, e *big.Int) *big.Int { return new(big.Int).Exp(b, e, NCap) }
	mulm := func(a, b *big.Int) *big.Int { m := new(big.Int).Mul(a, b); return m.Mod(m, NCap) }
	P := mulm(exp(s, p0), exp(t, mu))
	Q := mulm(exp(s, q0), exp(t, nu))
	A := mulm(exp(s, alpha), exp(t, x))
	B := mulm(exp(s, beta), exp(t, y))
	T := mulm(exp(Q, alpha), exp(t, r))
	e := common.RejectionSample(q, common.SHA512_256i_TAGGED(session, N0, NCap, s, t, P, Q, A, B, T, sigma))

	z1 := new(big.Int).Add(new(big.Int).Mul(e, p0), alpha)
	z2 := new(big.Int).Add(new(big.Int).Mul(e, q0), beta)
	w1 := new(big.Int).Add(new(big.Int).Mul(e, mu), x)
	w2 := new(big.Int).Add(new(big.Int).Mul(e, nu), y)
	vv := new(big.Int).Sub(sigma, new(big.Int).Mul(nu, p0))
	vv.Mul(vv, e).Add(vv, r)

	switch which {
	case "z1":
		dz := new(big.Int).Sub(z1, target) // z1 = target + dz
		// s^z1 t^w1 : exponent of s is z1 + lam*w1  ->  w1' = w1 + dz/lam
		d := new(big.Int).Mul(dz, v.lamInv)
		w1 = new(big.Int).Mod(new(big.Int).Add(w1, d), v.ord)
		// Q^z1 t^v : exponent kQ*z1 + lam*v with kQ = q0 + lam*nu -> v' = v + kQ*dz/lam
		kQ := new(big.Int).Add(q0, new(big.Int).Mul(v.lam, nu))
		d2 := new(big.Int).Mul(new(big.Int).Mul(kQ, dz), v.lamInv)
		vv = new(big.Int).Mod(new(big.Int).Add(vv, d2), v.ord)
		z1 = new(big.Int).Set(target)
	case "z2":
		dz := new(big.Int).Sub(z2, target)
		d := new(big.Int).Mul(dz, v.lamInv)
		w2 = new(big.Int).Mod(new(big.Int).Add(w2, d), v.ord)
		z2 = new(big.Int).Set(target)
	}
	if vv.Sign() < 0 { // the honest v may be negative; any representative modulo the group order is as good
		vv.Mod(vv, v.ord)
	}
	return &facproof.ProofFac{P: P, Q: Q, A: A, B: B, T: T, Sigma: sigma, Z1: z1, Z2: z2, W1: w1, W2: w2, V: vv}
}

func facRec(pf *facproof.ProofFac) map[string]string {
	return map[string]string{"P": hexs(pf.P), "Q": hexs(pf.Q), "A": hexs(pf.A), "B": hexs(pf.B), "T": hexs(pf.T), "Sigma": hexs(pf.Sigma),
		"Z1": hexs(pf.Z1), "Z2": hexs(pf.Z2), "W1": hexs(pf.W1), "W2": hexs(pf.W2), "V": hexs(pf.V)}
}

func (e *env) facTasks() {
	ec := tss.S256()
	verifiers := e.nPsets(2)
	// (a) library prover on a modulus with one factor far below sqrt(N0)
	type smallCase struct {
		name string
		N0   *big.Int
		a, b *big.Int // a = small factor
	}
	var sc []smallCase
	for _, k := range facSmallBits {
		m := e.mods[fmt.Sprintf("fac%d", k)]
		sc = append(sc, smallCase{fmt.Sprintf("small-factor-%dbit", k), m.N, m.Factors[0], m.Factors[1]})
	}
	// trivial factorisation 1 * N0 of an honest modulus
	sc = append(sc, smallCase{"small-factor-1(trivial)", e.ps[0].pk.N, bi(1), e.ps[0].pk.N})
	for _, c := range sc {
		for _, v := range verifiers {
			for _, order := range []string{"small-first", "small-second"} {
				for _, ss := range e.sess {
					c, v, order, ss := c, v, order, ss
					canon := fmt.Sprintf("fac/%s/%s/verifier%d/sess=%s/lib", c.name, order, v.idx, ss.name)
					e.add("fac", canon, func(t *task) {
						p0, q0 := c.a, c.b
						if order == "small-second" {
							p0, q0 = c.b, c.a
						}
						var pf *facproof.ProofFac
						ok, why := tryProve(func() (err error) {
							pf, err = facproof.NewProof(ss.bz, ec, c.N0, v.NT, v.h1, v.h2, p0, q0, newRand(canon))
							return err
						})
						if !ok {
							e.r.Count("lib_prover_cannot_run", 1)
							e.r.Distinct("lib_prover_cannot_run_reasons", "facproof.NewProof: "+why)
							return
						}
						res := guard(func() (bool, error) { return pf.Verify(ss.bz, ec, c.N0, v.NT, v.h1, v.h2), nil })
						rec := map[string]interface{}{"N0": hexs(c.N0), "N0p": hexs(p0), "N0q": hexs(q0), "verifier_params": fmt.Sprintf("keygen_data_%d.json (NTilde,H1,H2)", v.idx),
							"session": fmt.Sprintf("%x", ss.bz), "rand": "core.NewDRBG(\"c11/rand/" + canon + "\")", "proof": facRec(pf)}
						e.judge(t, fmt.Sprintf("fac/%s/%s/libprover", c.name, order), "fac proof (library prover) for N0 with "+c.name+", "+order, rec, res)
					})
				}
			}
		}
	}
	// (b) harness transcripts: every equation holds, z1 (or z2) is moved just beyond q^3*sqrt(N0)
	for _, v := range verifiers {
		for _, pr := range verifiers {
			if pr.idx == v.idx && len(verifiers) > 1 {
				continue
			}
			N0 := pr.pk.N
			bound := new(big.Int).Mul(e.q3, new(big.Int).Sqrt(N0)) // accepted: 0 <= z < bound
			M := new(big.Int).Sub(bound, bi1)
			for _, which := range []string{"z1", "z2"} {
				for _, ss := range e.sess {
					v, pr, which, ss := v, pr, which, ss
					// control: response exactly at M (largest accepted value)
					e.add("fac", fmt.Sprintf("fac/control/%s/prover%d/verifier%d/sess=%s", which, pr.idx, v.idx, ss.name), func(t *task) {
						pf := facHarnessProve(ss.bz, N0, pr.sk.P, pr.sk.Q, v, which, M, t.canon)
						e.control("fac "+which+" = bound-1 (harness transcript)", guard(func() (bool, error) { return pf.Verify(ss.bz, ec, N0, v.NT, v.h1, v.h2), nil }))
					})
					for _, sz := range sizes {
						sz := sz
						canon := fmt.Sprintf("fac/response-%s/%s/prover%d/verifier%d/sess=%s/harness", which, sz.name, pr.idx, v.idx, ss.name)
						e.add("fac", canon, func(t *task) {
							target := sz.f(M)
							pf := facHarnessProve(ss.bz, N0, pr.sk.P, pr.sk.Q, v, which, target, canon)
							res := guard(func() (bool, error) { return pf.Verify(ss.bz, ec, N0, v.NT, v.h1, v.h2), nil })
							rec := map[string]interface{}{"N0": "Paillier N of keygen_data_" + fmt.Sprint(pr.idx), "verifier_params": fmt.Sprintf("keygen_data_%d.json (NTilde,H1,H2)", v.idx),
								"session": fmt.Sprintf("%x", ss.bz), "moved_response": which, "size": sz.name, "proof": facRec(pf)}
							e.judge(t, fmt.Sprintf("fac/%s-above-q3sqrtN0/%s/harness", which, sz.name), "fac transcript satisfying all three equations with "+which+" = "+sz.name+" (bound = q^3*sqrt(N0)-1)", rec, res)
						})
					}
				}
			}
		}
	}
}
