package c11

// Deterministically constructed "bad" moduli (2048 bits) for the false-statement families.
// They are generated once by GenerateModuli (see gen_test.go) from core.Bytes labels, stored as hex in
// testdata/moduli.json (embedded), and re-validated structurally every time the check starts.

import (
	_ "embed"
	"encoding/json"
	"fmt"
	"math/big"
	"sort"

	"verif/internal/core"
)

//go:embed testdata/moduli.json
var moduliJSON []byte

// modulus: N together with its complete factorisation (primes with multiplicity, ascending).
type modulus struct {
	Name    string
	N       *big.Int
	Factors []*big.Int
}

type modulusJSON struct {
	N string   `json:"n"`
	F []string `json:"f"`
}

var (
	bi0 = big.NewInt(0)
	bi1 = big.NewInt(1)
	bi2 = big.NewInt(2)
	bi3 = big.NewInt(3)
	bi4 = big.NewInt(4)
	bi8 = big.NewInt(8)
)

func bi(v int64) *big.Int { return big.NewInt(v) }

// smallPrimes returns all primes < limit (sieve).
func smallPrimes(limit int) []int64 {
	comp := make([]bool, limit)
	var out []int64
	for i := 2; i < limit; i++ {
		if comp[i] {
			continue
		}
		out = append(out, int64(i))
		for j := i * i; j < limit; j += i {
			comp[j] = true
		}
	}
	return out
}

// genInt: a generic integer of exactly `bits` bits whose `top` most significant bits are all set,
// derived from the label only.
func genInt(label string, bits, top int) *big.Int {
	b := core.Bytes(label, (bits+7)/8+1)
	v := new(big.Int).SetBytes(b)
	v.Mod(v, new(big.Int).Lsh(bi1, uint(bits)))
	for i := 0; i < top; i++ {
		v.SetBit(v, bits-1-i, 1)
	}
	return v
}

// nextPrime: the first prime >= start that is ≡ res (mod m) and satisfies cond (cond may be nil).
func nextPrime(start *big.Int, res, m int64, cond func(*big.Int) bool) *big.Int {
	c := new(big.Int).Set(start)
	M := bi(m)
	r := new(big.Int).Mod(c, M)
	d := new(big.Int).Sub(bi(res), r)
	d.Mod(d, M)
	c.Add(c, d)
	for {
		if c.ProbablyPrime(24) && (cond == nil || cond(c)) {
			return c
		}
		c.Add(c, M)
	}
}

func gcd(a, b *big.Int) *big.Int { return new(big.Int).GCD(nil, nil, a, b) }

func mul(xs ...*big.Int) *big.Int {
	p := big.NewInt(1)
	for _, x := range xs {
		p.Mul(p, x)
	}
	return p
}

// phiOf computes Euler's phi from the full factorisation (with multiplicity).
func phiOf(factors []*big.Int) *big.Int {
	phi := big.NewInt(1)
	var prev *big.Int
	for _, p := range factors {
		if prev != nil && prev.Cmp(p) == 0 {
			phi.Mul(phi, p)
		} else {
			phi.Mul(phi, new(big.Int).Sub(p, bi1))
		}
		prev = p
	}
	return phi
}

func sortInts(xs []*big.Int) {
	sort.Slice(xs, func(i, j int) bool { return xs[i].Cmp(xs[j]) < 0 })
}

var facSmallBits = []int{16, 32, 64, 128, 256, 400}

// GenerateModuli constructs all moduli. Slow (about a minute): run once, store, embed.
func GenerateModuli() map[string]*modulus {
	out := map[string]*modulus{}
	add := func(name string, fs ...*big.Int) {
		f := append([]*big.Int{}, fs...)
		sortInts(f)
		out[name] = &modulus{Name: name, N: mul(f...), Factors: f}
	}
	sp := smallPrimes(1000)

	// A. cofactors for N = s*r, s prime < 1000: one prime r per bit length b of s, just above 2^(2048-b),
	// with r mod s not in {0,1} for every odd s of that bit length (so gcd(N,phi(N)) = 1 and the
	// library prover produces a transcript in which every N-th-root equation holds).
	for b := 2; b <= 10; b++ {
		base := new(big.Int).Lsh(bi1, uint(2048-b))
		start := new(big.Int).Add(base, genInt(fmt.Sprintf("c11/mod/cof/%d", b), 2000, 1))
		r := nextPrime(start, 1, 2, func(c *big.Int) bool {
			for _, s := range sp {
				if bi(s).BitLen() != b || s == 2 {
					continue
				}
				m := new(big.Int).Mod(c, bi(s)).Int64()
				if m == 0 || m == 1 {
					return false
				}
			}
			return true
		})
		add(fmt.Sprintf("cof%d", b), r)
	}
	// B. N = 3r with r ≡ 1 mod 3 (3 | phi(N) and 3 | N)
	{
		start := new(big.Int).Add(new(big.Int).Lsh(bi1, 2046), genInt("c11/mod/n3r1", 2000, 1))
		r := nextPrime(start, 1, 6, nil)
		add("n3r_gcd3", bi3, r)
	}
	// C. N = p*q, q = k*p+1 (p | q-1), p ≡ q ≡ 3 mod 4 (a Blum integer that shares a factor with phi)
	{
		p := nextPrime(genInt("c11/mod/pdivq1/p", 1000, 2), 3, 4, nil)
		p2 := new(big.Int).Mul(p, p)
		k0 := new(big.Int).Div(new(big.Int).Lsh(bi1, 2047), p2)
		k0.Add(k0, bi1)
		k := new(big.Int).Add(k0, genInt("c11/mod/pdivq1/k", 40, 1))
		// k ≡ 2 mod 4
		for new(big.Int).Mod(k, bi4).Int64() != 2 {
			k.Add(k, bi1)
		}
		for {
			q := new(big.Int).Mul(k, p)
			q.Add(q, bi1)
			if q.ProbablyPrime(24) && new(big.Int).Mul(p, q).BitLen() == 2048 {
				add("pdivq1", p, q)
				break
			}
			k.Add(k, bi4)
		}
	}
	// D. primes
	add("prime3mod4", nextPrime(genInt("c11/mod/prime3", 2048, 1), 3, 4, nil))
	add("prime5mod8", nextPrime(genInt("c11/mod/prime5", 2048, 1), 5, 8, nil))
	// E. p^2
	{
		p := nextPrime(genInt("c11/mod/psq", 1024, 2), 3, 4, nil)
		add("psquare", p, p)
	}
	// F. p*q*r, all ≡ 3 mod 4, gcd(N, phi) = 1
	{
		p := nextPrime(genInt("c11/mod/pqr/p", 683, 3), 3, 4, nil)
		q := nextPrime(genInt("c11/mod/pqr/q", 683, 3), 3, 4, nil)
		r := nextPrime(genInt("c11/mod/pqr/r", 682, 3), 3, 4, func(c *big.Int) bool {
			n := mul(p, q, c)
			f := []*big.Int{p, q, c}
			sortInts(f)
			return n.BitLen() == 2048 && gcd(n, phiOf(f)).Cmp(bi1) == 0
		})
		add("pqr", p, q, r)
	}
	// G. p*q with p ≡ 1 mod 4
	{
		p := nextPrime(genInt("c11/mod/p1q3/p", 1024, 2), 5, 8, nil)
		q := nextPrime(genInt("c11/mod/p1q3/q", 1024, 2), 3, 4, func(c *big.Int) bool {
			return gcd(mul(p, c), phiOf([]*big.Int{p, c})).Cmp(bi1) == 0
		})
		add("p1q3", p, q)
		p2 := nextPrime(genInt("c11/mod/p1q1/p", 1024, 2), 5, 8, nil)
		q2 := nextPrime(genInt("c11/mod/p1q1/q", 1024, 2), 9, 16, func(c *big.Int) bool {
			return gcd(mul(p2, c), phiOf([]*big.Int{p2, c})).Cmp(bi1) == 0
		})
		add("p1q1", p2, q2)
	}
	// H. even
	add("even2r", bi2, nextPrime(genInt("c11/mod/even", 2047, 1), 3, 4, nil))
	// I. one factor far below sqrt(N)
	for _, k := range facSmallBits {
		p := nextPrime(genInt(fmt.Sprintf("c11/mod/fac/%d/p", k), k, 2), 1, 2, nil)
		q := nextPrime(genInt(fmt.Sprintf("c11/mod/fac/%d/q", k), 2048-k, 2), 1, 2, nil)
		add(fmt.Sprintf("fac%d", k), p, q)
	}
	return out
}

func EncodeModuli(m map[string]*modulus) []byte {
	enc := map[string]modulusJSON{}
	for k, v := range m {
		j := modulusJSON{N: v.N.Text(16)}
		for _, f := range v.Factors {
			j.F = append(j.F, f.Text(16))
		}
		enc[k] = j
	}
	b, _ := json.MarshalIndent(enc, "", " ")
	return append(b, '\n')
}

func decodeModuli(b []byte) (map[string]*modulus, error) {
	var enc map[string]modulusJSON
	if err := json.Unmarshal(b, &enc); err != nil {
		return nil, err
	}
	out := map[string]*modulus{}
	for k, v := range enc {
		n, ok := new(big.Int).SetString(v.N, 16)
		if !ok {
			return nil, fmt.Errorf("modulus %s: bad hex", k)
		}
		m := &modulus{Name: k, N: n}
		for _, f := range v.F {
			fi, ok := new(big.Int).SetString(f, 16)
			if !ok {
				return nil, fmt.Errorf("modulus %s: bad factor hex", k)
			}
			m.Factors = append(m.Factors, fi)
		}
		out[k] = m
	}
	return out, nil
}

func modulusNames() []string {
	names := []string{"n3r_gcd3", "pdivq1", "prime3mod4", "prime5mod8", "psquare", "pqr", "p1q3", "p1q1", "even2r"}
	for b := 2; b <= 10; b++ {
		names = append(names, fmt.Sprintf("cof%d", b))
	}
	for _, k := range facSmallBits {
		names = append(names, fmt.Sprintf("fac%d", k))
	}
	return names
}

// validateModuli re-checks every structural claim made about the stored moduli (products, bit lengths,
// congruences, primality of every factor, gcd conditions). Returns a list of problems (empty = fine).
func validateModuli(m map[string]*modulus) []string {
	var bad []string
	fail := func(f string, a ...interface{}) { bad = append(bad, fmt.Sprintf(f, a...)) }
	names := modulusNames()
	type job struct {
		name string
		p    *big.Int
	}
	var jobs []job
	for _, n := range names {
		mm := m[n]
		if mm == nil {
			fail("modulus %s missing", n)
			continue
		}
		if mul(mm.Factors...).Cmp(mm.N) != 0 {
			fail("modulus %s: factors do not multiply to N", n)
		}
		for _, f := range mm.Factors {
			jobs = append(jobs, job{n, f})
		}
	}
	if len(bad) > 0 {
		return bad
	}
	prime := make([]bool, len(jobs))
	core.ParallelFor(len(jobs), 16, func(i int) { prime[i] = jobs[i].p.ProbablyPrime(4) })
	for i, j := range jobs {
		if !prime[i] {
			fail("modulus %s: factor %d is not prime", j.name, i)
		}
	}
	mod := func(x *big.Int, k int64) int64 { return new(big.Int).Mod(x, bi(k)).Int64() }
	want := func(c bool, f string, a ...interface{}) {
		if !c {
			fail(f, a...)
		}
	}
	bits2048 := func(n string) { want(m[n].N.BitLen() == 2048, "%s: bit length %d", n, m[n].N.BitLen()) }
	coprimePhi := func(n string) bool { return gcd(m[n].N, phiOf(m[n].Factors)).Cmp(bi1) == 0 }
	for _, n := range []string{"n3r_gcd3", "pdivq1", "prime3mod4", "prime5mod8", "psquare", "pqr", "p1q3", "p1q1", "even2r"} {
		bits2048(n)
	}
	for _, k := range facSmallBits {
		n := fmt.Sprintf("fac%d", k)
		bits2048(n)
		want(len(m[n].Factors) == 2 && m[n].Factors[0].BitLen() == k, "%s: small factor size", n)
	}
	for _, s := range smallPrimes(1000) {
		b := bi(s).BitLen()
		r := m[fmt.Sprintf("cof%d", b)].N
		N := new(big.Int).Mul(bi(s), r)
		want(N.BitLen() == 2048, "cof%d * %d: bit length %d", b, s, N.BitLen())
		if s != 2 {
			rm := mod(r, s)
			want(rm != 0 && rm != 1, "cof%d mod %d = %d", b, s, rm)
		}
	}
	f := m["n3r_gcd3"].Factors
	want(len(f) == 2 && f[0].Cmp(bi3) == 0 && mod(f[1], 3) == 1, "n3r_gcd3 structure")
	f = m["pdivq1"].Factors
	want(len(f) == 2 && mod(f[0], 4) == 3 && mod(f[1], 4) == 3 &&
		new(big.Int).Mod(new(big.Int).Sub(f[1], bi1), f[0]).Sign() == 0, "pdivq1 structure")
	want(len(m["prime3mod4"].Factors) == 1 && mod(m["prime3mod4"].N, 4) == 3, "prime3mod4 structure")
	want(len(m["prime5mod8"].Factors) == 1 && mod(m["prime5mod8"].N, 8) == 5, "prime5mod8 structure")
	f = m["psquare"].Factors
	want(len(f) == 2 && f[0].Cmp(f[1]) == 0 && mod(f[0], 4) == 3, "psquare structure")
	f = m["pqr"].Factors
	want(len(f) == 3 && mod(f[0], 4) == 3 && mod(f[1], 4) == 3 && mod(f[2], 4) == 3 && coprimePhi("pqr"), "pqr structure")
	f = m["p1q3"].Factors
	want(len(f) == 2 && coprimePhi("p1q3") && ((mod(f[0], 4) == 1 && mod(f[1], 4) == 3) || (mod(f[0], 4) == 3 && mod(f[1], 4) == 1)), "p1q3 structure")
	f = m["p1q1"].Factors
	want(len(f) == 2 && coprimePhi("p1q1") && mod(f[0], 4) == 1 && mod(f[1], 4) == 1, "p1q1 structure")
	f = m["even2r"].Factors
	want(len(f) == 2 && f[0].Cmp(bi2) == 0, "even2r structure")
	return bad
}
