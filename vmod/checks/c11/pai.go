package c11

import (
	"strings"
	"fmt"
	"math/big"

	"github.com/bnb-chain/tss-lib/v2/crypto/paillier"
)

// ---------------------------------------------------------------------------------------------
// Paillier domain guards

type operand struct {
	class string
	v     *big.Int
}

func (e *env) nPsets(quickN int) []*pset {
	if e.quick && quickN < len(e.ps) {
		return e.ps[:quickN]
	}
	return e.ps
}

func (e *env) paillierGuardTasks() {
	for _, p := range e.nPsets(2) {
		p := p
		N := p.pk.N
		N2 := p.pk.NSquare()
		plainBad := []operand{
			{"minus1", bi(-1)}, {"bound", new(big.Int).Set(N)}, {"bound+1", new(big.Int).Add(N, bi1)},
			{"2*bound", new(big.Int).Lsh(N, 1)}, {"bound*2^64", new(big.Int).Lsh(N, 64)},
		}
		cipherBad := []operand{
			{"minus1", bi(-1)}, {"bound", new(big.Int).Set(N2)}, {"bound+1", new(big.Int).Add(N2, bi1)},
			{"2*bound", new(big.Int).Lsh(N2, 1)},
			{"nonunit-0", bi(0)}, {"nonunit-P", new(big.Int).Set(p.sk.P)}, {"nonunit-Q", new(big.Int).Set(p.sk.Q)},
			{"nonunit-PN", new(big.Int).Mul(p.sk.P, N)}, {"nonunit-N", new(big.Int).Set(N)},
		}
		goodM := generic(fmt.Sprintf("pai/m/%d", p.idx), N)
		goodC := func(label string) *big.Int {
			c, err := p.pk.Encrypt(newRand(fmt.Sprintf("pai/goodc/%d/%s", p.idx, label)), generic(fmt.Sprintf("pai/gm/%d/%s", p.idx, label), N))
			if err != nil {
				panic(err)
			}
			return c
		}
		one := func(op, operandName string, o operand, call func() (interface{}, error)) {
			canon := fmt.Sprintf("paillier/%s/%s=%s/key%d", op, operandName, o.class, p.idx)
			e.add("paillier-guard", canon, func(t *task) {
				var ret interface{}
				res := guard(func() (bool, error) {
					v, err := call()
					ret = v
					return err == nil, nil // "accepted" = no error
				})
				key := fmt.Sprintf("paillier/%s/%s/%s", op, operandName, o.class)
				rec := map[string]interface{}{"op": op, "operand": operandName, "class": o.class, "value": hexs(o.v), "paillier_key": fmt.Sprintf("test/_ecdsa_fixtures/keygen_data_%d.json", p.idx), "returned": fmt.Sprint(ret)}
				// reuse judge with its own suffix: accepted == "returned no error"
				e.judgeGuard(t, key, fmt.Sprintf("paillier %s with %s = %s returned no error", op, operandName, o.class), rec, res)
			})
		}
		for _, o := range plainBad {
			o := o
			one("Encrypt", "m", o, func() (interface{}, error) {
				return p.pk.Encrypt(newRand("pai/enc/"+o.class), o.v)
			})
			one("HomoMult", "m", o, func() (interface{}, error) { return p.pk.HomoMult(o.v, goodC("hm")) })
		}
		for _, o := range cipherBad {
			o := o
			one("HomoMult", "c1", o, func() (interface{}, error) { return p.pk.HomoMult(goodM, o.v) })
			one("HomoAdd", "c1", o, func() (interface{}, error) { return p.pk.HomoAdd(o.v, goodC("ha1")) })
			one("HomoAdd", "c2", o, func() (interface{}, error) { return p.pk.HomoAdd(goodC("ha2"), o.v) })
			one("Decrypt", "c", o, func() (interface{}, error) { return p.sk.Decrypt(o.v) })
		}
		// controls: in-domain operands are served
		e.add("paillier-guard", fmt.Sprintf("paillier/control/key%d", p.idx), func(t *task) {
			res := guard(func() (bool, error) {
				c1, err := p.pk.Encrypt(newRand("pai/ctl"), new(big.Int).Sub(N, bi1))
				if err != nil {
					return false, err
				}
				c2, err := p.pk.HomoMult(new(big.Int).Sub(N, bi1), c1)
				if err != nil {
					return false, err
				}
				c3, err := p.pk.HomoAdd(c1, c2)
				if err != nil {
					return false, err
				}
				_, err = p.sk.Decrypt(c3)
				return err == nil, err
			})
			e.control("paillier in-domain operations", res)
		})
	}
}

func (e *env) judgeGuard(t *task, key, what string, rec map[string]interface{}, res result) {
	r := e.r
	r.Count("evaluations", 1)
	r.Count("cases/"+t.family, 1)
	r.Distinct("cases", t.canon)
	outcome := "error-returned"
	switch {
	case res.hang:
		outcome = "hang"
		t.violate(key+":hang", what+" (hang)", rec)
	case res.pan != "":
		outcome = "panic"
		rec["panic"], rec["site"] = res.pan, res.site
		t.violate("c06-overlap/"+key+":panic", "panic in the code under test ("+res.pan+") at "+res.site+" [C06's business]", rec)
	case res.acc:
		outcome = "no-error"
		// Narrow reading of the domain clause (see DESIGN.md C11/C14): the gcd ("shares a factor with N")
		// refusal is required where a ciphertext is decrypted; HomoAdd/HomoMult must refuse values outside
		// [0,N) / [0,N^2). Non-unit ciphertexts accepted by the homomorphic operations are counted only.
		if strings.Contains(key, "/nonunit-") && (strings.HasPrefix(key, "paillier/HomoMult/") || strings.HasPrefix(key, "paillier/HomoAdd/")) {
			outcome = "nonunit-accepted-by-homomorphic-op(counted, not required to be refused)"
			r.Count("nonunit_accepted_by_homo_ops", 1)
		} else {
			t.violate(key+":no-error", what, rec)
		}
	}
	r.Count("outcome/guard-"+outcome, 1)
	r.Distinct("outcomes", t.family+"/"+outcome)
	t.sample = map[string]interface{}{"case": t.canon, "outcome": outcome}
}

// ---------------------------------------------------------------------------------------------
// Paillier key proof (GMR98 square-freeness / gcd(N,phi(N)) = 1 proof plus trial division below 1000)

// strippedPhi: phi(N) with every prime that divides N removed completely. If gcd(N,phi)=1 this is phi.
// It is the exponent modulus a prover "doing its best" on a modulus outside the language would use:
// N is invertible modulo it, so the library prover runs.
func strippedPhi(N *big.Int, factors []*big.Int) *big.Int {
	phi := phiOf(factors)
	for {
		g := gcd(N, phi)
		if g.Cmp(bi1) == 0 {
			return phi
		}
		phi.Div(phi, g)
	}
}

type paiCase struct {
	fam     string // family name for key
	variant string
	N       *big.Int
	factors []*big.Int
	observe bool // not a violation if accepted (statement is inside the proof's language)
}

func (e *env) paillierProofTasks() {
	var cases []paiCase
	for _, s := range smallPrimes(1000) {
		b := bi(s).BitLen()
		r := e.mods[fmt.Sprintf("cof%d", b)].N
		fs := []*big.Int{bi(s), r}
		cases = append(cases, paiCase{fam: "small-prime-factor", variant: fmt.Sprintf("s=%d", s), N: mul(fs...), factors: fs})
	}
	for _, n := range []string{"n3r_gcd3", "pdivq1", "psquare"} {
		m := e.mods[n]
		cases = append(cases, paiCase{fam: "shares-factor-with-phi", variant: n, N: m.N, factors: m.Factors})
	}
	// Observation only: a prime N satisfies gcd(N, phi(N)) = 1 and has no small factor, i.e. it is INSIDE the
	// language of this proof system (the statement lists "prime" under the mod proof, which is the verifier that
	// must refuse it). Recorded in the evidence, never a violation.
	for _, n := range []string{"prime3mod4", "prime5mod8"} {
		m := e.mods[n]
		cases = append(cases, paiCase{fam: "prime-modulus", variant: n, N: m.N, factors: m.Factors, observe: true})
	}
	ks := []struct {
		name string
		v    *big.Int
	}{{"k=1", bi(1)}, {"k=generic", generic("pai/k", e.q)}}
	if e.quick {
		ks = ks[1:]
	}
	pub := e.ps[0].ecdsaPub
	for _, c := range cases {
		for _, k := range ks {
			c, k := c, k
			canon := fmt.Sprintf("paillier-keyproof/%s/%s/%s", c.fam, c.variant, k.name)
			e.add("paillier-keyproof", canon, func(t *task) {
				phiTrue := phiOf(c.factors)
				sk := &paillier.PrivateKey{PublicKey: paillier.PublicKey{N: c.N}, PhiN: phiTrue}
				prover := "lib(true phi)"
				var pf paillier.Proof
				ok, why := tryProve(func() error { pf = sk.Proof(k.v, pub); return nil })
				if !ok {
					e.r.Count("lib_prover_cannot_run", 1)
					e.r.Distinct("lib_prover_cannot_run_reasons", "paillier.Proof on "+c.fam+": "+why)
					// best effort: the library's prover with phi stripped of the factors it shares with N
					sk.PhiN = strippedPhi(c.N, c.factors)
					prover = "lib(phi stripped of common factors)"
					ok, why = tryProve(func() error { pf = sk.Proof(k.v, pub); return nil })
					if !ok {
						e.r.Count("skipped_no_prover", 1)
						return
					}
				}
				// how many of the 13 N-th-root equations does this transcript satisfy (harness-side recomputation)
				holds := 0
				xs := paillier.GenerateXs(paillier.ProofIters, k.v, c.N, pub)
				for i := range xs {
					if pf[i] != nil && new(big.Int).Exp(pf[i], c.N, c.N).Cmp(new(big.Int).Mod(xs[i], c.N)) == 0 {
						holds++
					}
				}
				if holds == paillier.ProofIters {
					e.r.Count("paillier_keyproof_all_root_equations_hold", 1)
				}
				res := guard(func() (bool, error) { return pf.Verify(c.N, k.v, pub) })
				if c.observe {
					e.r.Count("observations", 1)
					e.r.Distinct("observed", fmt.Sprintf("paillier key proof for a PRIME modulus (%s): accepted=%v (inside this proof's language: gcd(N,phi)=1, no factor <1000; the mod proof is the one that must refuse primes)", c.variant, res.acc && res.err == nil))
					return
				}
				fam := c.fam + "/" + c.variant
				rec := map[string]interface{}{"N": hexs(c.N), "factors": hexList(c.factors), "k": hexs(k.v), "ecdsaPub": "ECDSAPub of test/_ecdsa_fixtures/keygen_data_0.json",
					"prover": prover, "root_equations_holding": holds, "proof": hexArr(pf[:])}
				t.sample = map[string]interface{}{"case": t.canon, "prover": prover, "root_equations_holding_of_13": holds}
				e.judge(t, "paillier-keyproof/"+fam, fmt.Sprintf("Paillier key proof (%s) for a modulus with %s (%s); %d/13 root equations hold", prover, c.fam, c.variant, holds), rec, res)
			})
		}
	}
	// control: honest key
	e.add("paillier-keyproof", "paillier-keyproof/control", func(t *task) {
		p := e.ps[0]
		k := generic("pai/k", e.q)
		pf := p.sk.Proof(k, pub)
		e.control("paillier key proof, honest", guard(func() (bool, error) { return pf.Verify(p.pk.N, k, pub) }))
	})
}

func hexList(xs []*big.Int) []string {
	out := make([]string, len(xs))
	for i, x := range xs {
		out[i] = hexs(x)
	}
	return out
}

func hexArr(xs []*big.Int) []string { return hexList(xs) }
