package c11

import (
	"fmt"
	"math/big"
	"strings"

	"github.com/bnb-chain/tss-lib/v2/common"
	"github.com/bnb-chain/tss-lib/v2/crypto"
	"github.com/bnb-chain/tss-lib/v2/crypto/mta"
	"github.com/bnb-chain/tss-lib/v2/crypto/paillier"
	"github.com/bnb-chain/tss-lib/v2/tss"
)

// ---- harness copies of the provers (crypto/mta/range_proof.go, proofs.go) with the range masks chosen by the caller ----

func encWith(pk *paillier.PublicKey, m, r *big.Int) *big.Int {
	N2 := pk.NSquare()
	c := new(big.Int).Exp(pk.Gamma(), m, N2)
	c.Mul(c, new(big.Int).Exp(r, pk.N, N2))
	return c.Mod(c, N2)
}

// aliceHarnessProve = ProveRangeAlice with alpha (the mask of s1 = e*m + alpha) given.
func aliceHarnessProve(pk *paillier.PublicKey, c, NT, h1, h2, m, r, alpha *big.Int, label string) *mta.RangeProofAlice {
	return aliceHarnessProveQ(tss.S256().Params().N, pk, c, NT, h1, h2, m, r, alpha, label)
}

// aliceHarnessProveQ: the same for the group order q of any curve.
func aliceHarnessProveQ(q *big.Int, pk *paillier.PublicKey, c, NT, h1, h2, m, r, alpha *big.Int, label string) *mta.RangeProofAlice {
	rand := newRand(label)
	q3 := new(big.Int).Exp(q, bi3, nil)
	beta := common.GetRandomPositiveRelativelyPrimeInt(rand, pk.N)
	gamma := common.GetRandomPositiveInt(rand, new(big.Int).Mul(q3, NT))
	rho := common.GetRandomPositiveInt(rand, new(big.Int).Mul(q, NT))
	modNT := common.ModInt(NT)
	z := modNT.Mul(modNT.Exp(h1, m), modNT.Exp(h2, rho))
	modN2 := common.ModInt(pk.NSquare())
	u := modN2.Mul(modN2.Exp(pk.Gamma(), alpha), modN2.Exp(beta, pk.N))
	w := modNT.Mul(modNT.Exp(h1, alpha), modNT.Exp(h2, gamma))
	e := common.RejectionSample(q, common.SHA512_256i(append(pk.AsInts(), c, z, u, w)...))
	modN := common.ModInt(pk.N)
	s := modN.Mul(modN.Exp(r, e), beta)
	s1 := new(big.Int).Add(new(big.Int).Mul(e, m), alpha)
	s2 := new(big.Int).Add(new(big.Int).Mul(e, rho), gamma)
	return &mta.RangeProofAlice{Z: z, U: u, W: w, S: s, S1: s1, S2: s2}
}

// bobHarnessProve = ProveBobWC with alpha (mask of s1 = e*x + alpha) and gamma (mask of t1 = e*y + gamma) given.
// c2 must be c1^x * Gamma^y * r^N mod N^2.
func bobHarnessProve(session []byte, pk *paillier.PublicKey, NT, h1, h2, c1, c2, x, y, r *big.Int, X *crypto.ECPoint, alpha, gamma *big.Int, label string) *mta.ProofBobWC {
	rand := newRand(label)
	ec := tss.S256()
	q := ec.Params().N
	q3 := new(big.Int).Exp(q, bi3, nil)
	qNT := new(big.Int).Mul(q, NT)
	q3NT := new(big.Int).Mul(q3, NT)
	rho := common.GetRandomPositiveInt(rand, qNT)
	sigma := common.GetRandomPositiveInt(rand, qNT)
	tau := common.GetRandomPositiveInt(rand, q3NT)
	rhoPrm := common.GetRandomPositiveInt(rand, q3NT)
	beta := common.GetRandomPositiveRelativelyPrimeInt(rand, pk.N)
	var u *crypto.ECPoint
	if X != nil {
		u = crypto.ScalarBaseMult(ec, new(big.Int).Mod(alpha, q))
	}
	modNT := common.ModInt(NT)
	z := modNT.Mul(modNT.Exp(h1, x), modNT.Exp(h2, rho))
	zPrm := modNT.Mul(modNT.Exp(h1, alpha), modNT.Exp(h2, rhoPrm))
	t := modNT.Mul(modNT.Exp(h1, y), modNT.Exp(h2, sigma))
	modN2 := common.ModInt(pk.NSquare())
	v := modN2.Mul(modN2.Mul(modN2.Exp(c1, alpha), modN2.Exp(pk.Gamma(), gamma)), modN2.Exp(beta, pk.N))
	w := modNT.Mul(modNT.Exp(h1, gamma), modNT.Exp(h2, tau))
	var eHash *big.Int
	if X == nil {
		eHash = common.SHA512_256i_TAGGED(session, append(pk.AsInts(), c1, c2, z, zPrm, t, v, w)...)
	} else {
		eHash = common.SHA512_256i_TAGGED(session, append(pk.AsInts(), X.X(), X.Y(), c1, c2, u.X(), u.Y(), z, zPrm, t, v, w)...)
	}
	e := common.RejectionSample(q, eHash)
	modN := common.ModInt(pk.N)
	s := modN.Mul(modN.Exp(r, e), beta)
	s1 := new(big.Int).Add(new(big.Int).Mul(e, x), alpha)
	s2 := new(big.Int).Add(new(big.Int).Mul(e, rho), rhoPrm)
	t1 := new(big.Int).Add(new(big.Int).Mul(e, y), gamma)
	t2 := new(big.Int).Add(new(big.Int).Mul(e, sigma), tau)
	return &mta.ProofBobWC{ProofBob: &mta.ProofBob{Z: z, ZPrm: zPrm, T: t, V: v, W: w, S: s, S1: s1, S2: s2, T1: t1, T2: t2}, U: u}
}

// bobDegenerate: ProveBobWC's algorithm for (x,y) on the NTilde and curve side, with v := 0 and s := 0.
func bobDegenerate(session []byte, pk *paillier.PublicKey, NT, h1, h2, c1, c2, x, y *big.Int, X *crypto.ECPoint, label string) *mta.ProofBobWC {
	rand := newRand(label)
	ec := tss.S256()
	q := ec.Params().N
	q3 := new(big.Int).Exp(q, bi3, nil)
	q7 := new(big.Int).Exp(q, bi(7), nil)
	qNT := new(big.Int).Mul(q, NT)
	q3NT := new(big.Int).Mul(q3, NT)
	alpha := common.GetRandomPositiveInt(rand, q3)
	rho := common.GetRandomPositiveInt(rand, qNT)
	sigma := common.GetRandomPositiveInt(rand, qNT)
	tau := common.GetRandomPositiveInt(rand, q3NT)
	rhoPrm := common.GetRandomPositiveInt(rand, q3NT)
	gamma := common.GetRandomPositiveInt(rand, q7)
	var u *crypto.ECPoint
	if X != nil {
		u = crypto.ScalarBaseMult(ec, new(big.Int).Mod(alpha, q))
	}
	modNT := common.ModInt(NT)
	z := modNT.Mul(modNT.Exp(h1, x), modNT.Exp(h2, rho))
	zPrm := modNT.Mul(modNT.Exp(h1, alpha), modNT.Exp(h2, rhoPrm))
	t := modNT.Mul(modNT.Exp(h1, y), modNT.Exp(h2, sigma))
	v := bi(0)
	w := modNT.Mul(modNT.Exp(h1, gamma), modNT.Exp(h2, tau))
	var eHash *big.Int
	if X == nil {
		eHash = common.SHA512_256i_TAGGED(session, append(pk.AsInts(), c1, c2, z, zPrm, t, v, w)...)
	} else {
		eHash = common.SHA512_256i_TAGGED(session, append(pk.AsInts(), X.X(), X.Y(), c1, c2, u.X(), u.Y(), z, zPrm, t, v, w)...)
	}
	e := common.RejectionSample(q, eHash)
	s1 := new(big.Int).Add(new(big.Int).Mul(e, x), alpha)
	s2 := new(big.Int).Add(new(big.Int).Mul(e, rho), rhoPrm)
	t1 := new(big.Int).Add(new(big.Int).Mul(e, y), gamma)
	t2 := new(big.Int).Add(new(big.Int).Mul(e, sigma), tau)
	return &mta.ProofBobWC{ProofBob: &mta.ProofBob{Z: z, ZPrm: zPrm, T: t, V: v, W: w, S: bi(0), S1: s1, S2: s2, T1: t1, T2: t2}, U: u}
}

func bobC2(pk *paillier.PublicKey, c1, x, y, r *big.Int) *big.Int {
	N2 := pk.NSquare()
	c := new(big.Int).Exp(c1, x, N2)
	c.Mul(c, new(big.Int).Exp(pk.Gamma(), y, N2)).Mod(c, N2)
	c.Mul(c, new(big.Int).Exp(r, pk.N, N2))
	return c.Mod(c, N2)
}

func aliceRec(pf *mta.RangeProofAlice) map[string]string {
	return map[string]string{"Z": hexs(pf.Z), "U": hexs(pf.U), "W": hexs(pf.W), "S": hexs(pf.S), "S1": hexs(pf.S1), "S2": hexs(pf.S2)}
}

func bobRec(pf *mta.ProofBobWC) map[string]string {
	m := map[string]string{"Z": hexs(pf.Z), "ZPrm": hexs(pf.ZPrm), "T": hexs(pf.T), "V": hexs(pf.V), "W": hexs(pf.W), "S": hexs(pf.S),
		"S1": hexs(pf.S1), "S2": hexs(pf.S2), "T1": hexs(pf.T1), "T2": hexs(pf.T2)}
	if pf.U != nil {
		m["Ux"], m["Uy"] = hexs(pf.U.X()), hexs(pf.U.Y())
	}
	return m
}

type pair struct{ a, b *pset } // a: owner of the Paillier key, b: owner of the ring-Pedersen parameters

func (e *env) pairs() []pair {
	// all ordered pairs, including (i,i): in the protocol Bob's proofs are verified against Alice's Paillier key AND
	// Alice's ring-Pedersen parameters (same owner), Alice's range proof against her key and Bob's parameters.
	var out []pair
	for _, a := range e.ps {
		for _, b := range e.ps {
			out = append(out, pair{a, b})
		}
	}
	if e.quick {
		n := len(e.ps)
		return []pair{out[1], out[len(out)-2], out[2*n+2]} // (0,1), (4,3), (2,2)
	}
	return out
}

// curveOrderPhase runs BEFORE every other MtA case, one call after the other: first an honest range proof over
// secp256k1 (the larger group order), then harness transcripts over edwards25519 at ITS bound q^3 (control),
// q^3 + 1 and 8 q^3. Anything a process derives once from the first curve it sees would be too loose here.
func (e *env) curveOrderPhase() {
	if len(e.ps) < 2 {
		return
	}
	pk, NT, h1, h2 := e.ps[0].pk, e.ps[1].NT, e.ps[1].h1, e.ps[1].h2
	sec, ed := tss.S256(), tss.Edwards()
	m := generic("order/alice/m", sec.Params().N)
	c, r, err := pk.EncryptAndReturnRandomness(newRand("order/alice/enc"), m)
	if err == nil {
		if pf, err := mta.ProveRangeAlice(sec, pk, c, NT, h1, h2, m, r, newRand("order/alice/prove")); err == nil {
			e.control("range-alice honest over secp256k1 (first MtA use in this process)", guard(func() (bool, error) { return pf.Verify(sec, pk, NT, h1, h2, c), nil }))
		}
	}
	qe := ed.Params().N
	qe3 := new(big.Int).Exp(qe, bi3, nil)
	rr := genericUnit("order/alice/r", pk.N)
	c0 := encWith(pk, bi(0), rr)
	for _, sz := range []struct {
		name string
		s1   *big.Int
		ok   bool
	}{{"q^3", qe3, true}, {"q^3+1", new(big.Int).Add(qe3, bi1), false}, {"8q^3", new(big.Int).Lsh(qe3, 3), false}} {
		pf := aliceHarnessProveQ(qe, pk, c0, NT, h1, h2, bi(0), rr, sz.s1, "order/alice/ed/"+sz.name)
		res := guard(func() (bool, error) { return pf.Verify(ed, pk, NT, h1, h2, c0), nil })
		if sz.ok {
			e.control("range-alice s1 = q^3 over edwards25519 (harness transcript, after secp256k1 was used)", res)
			continue
		}
		t := &task{family: "range-alice", canon: "range-alice/curve-order/secp256k1-then-ed25519/" + sz.name}
		e.judge(t, "range-alice/s1-above-q3/"+sz.name+"/ed25519-after-secp256k1", "range-proof transcript over edwards25519 with s1 = "+sz.name+" (bound: that curve's q^3), verified after the process had used secp256k1", map[string]interface{}{"proof": aliceRec(pf)}, res)
		for _, pv := range t.viol {
			e.r.Violate(pv.key, pv.what, pv.rec)
		}
	}
}

func (e *env) mtaTasks() {
	ec := tss.S256()
	q, q3, q7 := e.q, e.q3, e.q7
	for _, pr := range e.pairs() {
		pr := pr
		pk, NT, h1, h2 := pr.a.pk, pr.b.NT, pr.b.h1, pr.b.h2
		tag := fmt.Sprintf("paillier%d/pedersen%d", pr.a.idx, pr.b.idx)
		params := fmt.Sprintf("Paillier key of keygen_data_%d.json, NTilde/H1/H2 of keygen_data_%d.json", pr.a.idx, pr.b.idx)
		N := pk.N

		// ------------------------------------------------------------------ range proof (Alice)
		// control: honest proof, library prover
		e.add("range-alice", "range-alice/control/lib/"+tag, func(t *task) {
			m := generic("alice/m/"+tag, q)
			c, r, err := pk.EncryptAndReturnRandomness(newRand(t.canon+"/enc"), m)
			if err != nil {
				panic(err)
			}
			pf, err := mta.ProveRangeAlice(ec, pk, c, NT, h1, h2, m, r, newRand(t.canon))
			if err != nil {
				panic(err)
			}
			e.control("range-alice honest (library prover)", guard(func() (bool, error) { return pf.Verify(ec, pk, NT, h1, h2, c), nil }))
		})
		// library prover, plaintext beyond q^3
		msizes := append([]sizeClass{}, sizes...)
		msizes = append(msizes, sizeClass{"N-1(wraps to -1)", func(*big.Int) *big.Int { return new(big.Int).Sub(N, bi1) }})
		for _, sz := range msizes {
			sz := sz
			canon := fmt.Sprintf("range-alice/plaintext-above-q3/%s/%s/lib", sz.name, tag)
			e.add("range-alice", canon, func(t *task) {
				m := sz.f(q3)
				var c *big.Int
				var pf *mta.RangeProofAlice
				ok, why := tryProve(func() error {
					var r *big.Int
					var err error
					c, r, err = pk.EncryptAndReturnRandomness(newRand(canon+"/enc"), m)
					if err != nil {
						return err
					}
					pf, err = mta.ProveRangeAlice(ec, pk, c, NT, h1, h2, m, r, newRand(canon))
					return err
				})
				if !ok {
					e.r.Count("lib_prover_cannot_run", 1)
					e.r.Distinct("lib_prover_cannot_run_reasons", "ProveRangeAlice: "+why)
					return
				}
				res := guard(func() (bool, error) { return pf.Verify(ec, pk, NT, h1, h2, c), nil })
				rec := map[string]interface{}{"params": params, "m": hexs(m), "c": hexs(c), "rand": "core.NewDRBG(\"c11/rand/" + canon + "[/enc]\")", "proof": aliceRec(pf)}
				e.judge(t, "range-alice/plaintext-above-q3/"+sz.name+"/libprover", "Alice's range proof (library prover) for a plaintext m = "+sz.name+" (bound q^3)", rec, res)
			})
		}
		// harness transcripts: m = 0, so s1 = alpha exactly; every equation holds
		aliceHarness := func(t *task, alpha *big.Int) (*mta.RangeProofAlice, *big.Int) {
			r := genericUnit("alice/r/"+tag, N)
			m := bi(0)
			c := encWith(pk, m, r)
			return aliceHarnessProve(pk, c, NT, h1, h2, m, r, alpha, t.canon), c
		}
		e.add("range-alice", "range-alice/control/harness-s1=q3/"+tag, func(t *task) {
			pf, c := aliceHarness(t, q3)
			e.control("range-alice s1 = q^3 (harness transcript)", guard(func() (bool, error) { return pf.Verify(ec, pk, NT, h1, h2, c), nil }))
		})
		for _, sz := range sizes {
			sz := sz
			canon := fmt.Sprintf("range-alice/response-s1/%s/%s/harness", sz.name, tag)
			e.add("range-alice", canon, func(t *task) {
				pf, c := aliceHarness(t, sz.f(q3))
				res := guard(func() (bool, error) { return pf.Verify(ec, pk, NT, h1, h2, c), nil })
				rec := map[string]interface{}{"params": params, "m": "0", "c": hexs(c), "size": sz.name, "proof": aliceRec(pf)}
				e.judge(t, "range-alice/s1-above-q3/"+sz.name+"/harness", "range-proof transcript satisfying both equations with s1 = "+sz.name+" (bound q^3)", rec, res)
			})
		}
		// harness, non-zero plaintext in range, mask at the very top: s1 = q^3 + e*m (just above)
		e.add("range-alice", "range-alice/response-s1/bound+e*m/"+tag+"/harness", func(t *task) {
			m := generic("alice/m2/"+tag, q)
			r := genericUnit("alice/r2/"+tag, N)
			c := encWith(pk, m, r)
			pf := aliceHarnessProve(pk, c, NT, h1, h2, m, r, q3, t.canon)
			if pf.S1.Cmp(q3) <= 0 {
				e.r.Count("skipped_equivalent", 1)
				return
			}
			res := guard(func() (bool, error) { return pf.Verify(ec, pk, NT, h1, h2, c), nil })
			rec := map[string]interface{}{"params": params, "m": hexs(m), "c": hexs(c), "proof": aliceRec(pf)}
			e.judge(t, "range-alice/s1-above-q3/bound+e*m/harness", "range-proof transcript satisfying both equations with s1 = q^3 + e*m", rec, res)
		})

		// degenerate transcript for a FALSE statement (c encrypts q^3*2^64): u = 0 and s = 0 make the Paillier-side
		// equation read 0 = 0 whatever c is; the NTilde-side equation is proved honestly for an unrelated small m'.
		// Only the unit checks on the transcript stand between this forgery and acceptance.
		e.add("range-alice", "range-alice/degenerate-u=0,s=0/"+tag+"/harness", func(t *task) {
			mBig := new(big.Int).Lsh(q3, 64)
			c := encWith(pk, mBig, genericUnit("alice/r3/"+tag, N))
			rand := newRand(t.canon)
			mSmall := generic("alice/m3/"+tag, q)
			alpha := common.GetRandomPositiveInt(rand, q3)
			gamma := common.GetRandomPositiveInt(rand, new(big.Int).Mul(q3, NT))
			rho := common.GetRandomPositiveInt(rand, new(big.Int).Mul(q, NT))
			modNT := common.ModInt(NT)
			z := modNT.Mul(modNT.Exp(h1, mSmall), modNT.Exp(h2, rho))
			w := modNT.Mul(modNT.Exp(h1, alpha), modNT.Exp(h2, gamma))
			u := bi(0)
			ee := common.RejectionSample(q, common.SHA512_256i(append(pk.AsInts(), c, z, u, w)...))
			pf := &mta.RangeProofAlice{Z: z, U: u, W: w, S: bi(0), S1: new(big.Int).Add(new(big.Int).Mul(ee, mSmall), alpha), S2: new(big.Int).Add(new(big.Int).Mul(ee, rho), gamma)}
			res := guard(func() (bool, error) { return pf.Verify(ec, pk, NT, h1, h2, c), nil })
			rec := map[string]interface{}{"params": params, "m(encrypted)": hexs(mBig), "c": hexs(c), "proof": aliceRec(pf)}
			e.judge(t, "range-alice/degenerate-u=0,s=0/harness", "range-proof transcript with u = 0, s = 0 (both equations hold, 0 = 0 on the Paillier side) for a ciphertext of q^3*2^64", rec, res)
		})
		// statements whose ciphertext is not a unit modulo N^2 (not an encryption of anything): library prover
		for _, nc := range []operand{{"nonunit-0", bi(0)}, {"nonunit-P", new(big.Int).Set(pr.a.sk.P)}, {"nonunit-PN", new(big.Int).Mul(pr.a.sk.P, N)}} {
			nc := nc
			canon := fmt.Sprintf("range-alice/ciphertext-%s/%s/lib", nc.class, tag)
			e.add("range-alice", canon, func(t *task) {
				m := generic("alice/m4/"+tag, q)
				r := genericUnit("alice/r4/"+tag, N)
				var pf *mta.RangeProofAlice
				ok, why := tryProve(func() (err error) {
					pf, err = mta.ProveRangeAlice(ec, pk, nc.v, NT, h1, h2, m, r, newRand(canon))
					return err
				})
				if !ok {
					e.r.Count("lib_prover_cannot_run", 1)
					e.r.Distinct("lib_prover_cannot_run_reasons", "ProveRangeAlice: "+why)
					return
				}
				res := guard(func() (bool, error) { return pf.Verify(ec, pk, NT, h1, h2, nc.v), nil })
				rec := map[string]interface{}{"params": params, "c": hexs(nc.v), "m": hexs(m), "r": hexs(r), "rand": "core.NewDRBG(\"c11/rand/" + canon + "\")", "proof": aliceRec(pf)}
				e.judge(t, "range-alice/ciphertext-"+nc.class+"/libprover", "Alice's range proof for a 'ciphertext' c = "+nc.class+" that is not a unit modulo N^2", rec, res)
			})
		}

		// ------------------------------------------------------------------ Bob / Bob-WC
		// here the verifier is Alice: the Paillier key AND the ring-Pedersen parameters are hers in the protocol;
		// the enumeration uses (paillier a, pedersen b) pairs as independent parameter sets.
		aK := generic("bob/alice-k/"+tag, q)
		rA := genericUnit("bob/alice-r/"+tag, N)
		c1 := encWith(pk, aK, rA)
		xG := generic("bob/x/"+tag, q)
		yG := generic("bob/y/"+tag, new(big.Int).Exp(q, bi(5), nil))
		rB := genericUnit("bob/r/"+tag, N)
		XG := crypto.ScalarBaseMult(ec, xG)

		for _, ss := range e.sess {
			ss := ss
			stag := tag + "/sess=" + ss.name
			verify := func(pf *mta.ProofBobWC, c2 *big.Int, X *crypto.ECPoint) result {
				if X == nil {
					return guard(func() (bool, error) { return pf.ProofBob.Verify(ss.bz, ec, pk, NT, h1, h2, c1, c2), nil })
				}
				return guard(func() (bool, error) { return pf.Verify(ss.bz, ec, pk, NT, h1, h2, c1, c2, X), nil })
			}
			mkrec := func(x, y, c2 *big.Int, X *crypto.ECPoint, pf *mta.ProofBobWC, extra string) map[string]interface{} {
				rec := map[string]interface{}{"params": params, "session": fmt.Sprintf("%x", ss.bz), "c1": hexs(c1), "c2": hexs(c2), "x": hexs(x), "y": hexs(y), "r": hexs(rB), "note": extra, "proof": bobRec(pf)}
				if X != nil {
					rec["X"] = []string{hexs(X.X()), hexs(X.Y())}
				}
				return rec
			}
			for _, wc := range []bool{false, true} {
				wc := wc
				sys := map[bool]string{false: "bob", true: "bob-wc"}[wc]
				pointFor := func(x *big.Int) *crypto.ECPoint {
					if !wc {
						return nil
					}
					return crypto.ScalarBaseMult(ec, new(big.Int).Mod(x, q))
				}
				// controls
				e.add(sys, sys+"/control/lib/"+stag, func(t *task) {
					c2 := bobC2(pk, c1, xG, yG, rB)
					pf, err := mta.ProveBobWC(ss.bz, ec, pk, NT, h1, h2, c1, c2, xG, yG, rB, pointFor(xG), newRand(t.canon))
					if err != nil {
						panic(err)
					}
					e.control(sys+" honest (library prover)", verify(pf, c2, pointFor(xG)))
				})
				e.add(sys, sys+"/control/harness-t1=q7/"+stag, func(t *task) {
					y := bi(0)
					c2 := bobC2(pk, c1, xG, y, rB)
					pf := bobHarnessProve(ss.bz, pk, NT, h1, h2, c1, c2, xG, y, rB, pointFor(xG), generic("bob/alpha/"+stag, q3), q7, t.canon)
					e.control(sys+" t1 = q^7 (harness transcript)", verify(pf, c2, pointFor(xG)))
				})
				// library prover: multiplier beyond q^3
				xs := append([]sizeClass{}, sizes...)
				xs = append(xs, sizeClass{"N-1(wraps to -1)", func(*big.Int) *big.Int { return new(big.Int).Sub(N, bi1) }})
				for _, sz := range xs {
					sz := sz
					canon := fmt.Sprintf("%s/multiplier-above-q3/%s/%s/lib", sys, sz.name, stag)
					e.add(sys, canon, func(t *task) {
						x := sz.f(q3)
						if new(big.Int).Mod(x, q).Sign() == 0 { // x*G must be a representable point for the WC variant
							x.Add(x, bi1)
						}
						X := pointFor(x)
						c2 := bobC2(pk, c1, x, yG, rB)
						var pf *mta.ProofBobWC
						ok, why := tryProve(func() (err error) {
							pf, err = mta.ProveBobWC(ss.bz, ec, pk, NT, h1, h2, c1, c2, x, yG, rB, X, newRand(canon))
							return err
						})
						if !ok {
							e.r.Count("lib_prover_cannot_run", 1)
							e.r.Distinct("lib_prover_cannot_run_reasons", "ProveBobWC: "+why)
							return
						}
						e.judge(t, sys+"/multiplier-above-q3/"+sz.name+"/libprover", sys+" proof (library prover) with multiplier x = "+sz.name+" (bound q^3)", mkrec(x, yG, c2, X, pf, "rand: core.NewDRBG(\"c11/rand/"+canon+"\")"), verify(pf, c2, X))
					})
				}
				// library prover: mask beyond q^7
				for _, sz := range sizes {
					sz := sz
					canon := fmt.Sprintf("%s/mask-above-q7/%s/%s/lib", sys, sz.name, stag)
					e.add(sys, canon, func(t *task) {
						y := sz.f(q7)
						X := pointFor(xG)
						c2 := bobC2(pk, c1, xG, y, rB)
						var pf *mta.ProofBobWC
						ok, why := tryProve(func() (err error) {
							pf, err = mta.ProveBobWC(ss.bz, ec, pk, NT, h1, h2, c1, c2, xG, y, rB, X, newRand(canon))
							return err
						})
						if !ok {
							e.r.Count("lib_prover_cannot_run", 1)
							e.r.Distinct("lib_prover_cannot_run_reasons", "ProveBobWC: "+why)
							return
						}
						e.judge(t, sys+"/mask-above-q7/"+sz.name+"/libprover", sys+" proof (library prover) with mask y = "+sz.name+" (bound q^7)", mkrec(xG, y, c2, X, pf, "rand: core.NewDRBG(\"c11/rand/"+canon+"\")"), verify(pf, c2, X))
					})
				}
				// harness: y = 0 so t1 = gamma exactly
				for _, sz := range sizes {
					sz := sz
					canon := fmt.Sprintf("%s/response-t1/%s/%s/harness", sys, sz.name, stag)
					e.add(sys, canon, func(t *task) {
						y := bi(0)
						X := pointFor(xG)
						c2 := bobC2(pk, c1, xG, y, rB)
						pf := bobHarnessProve(ss.bz, pk, NT, h1, h2, c1, c2, xG, y, rB, X, generic("bob/alpha/"+stag, q3), sz.f(q7), canon)
						e.judge(t, sys+"/t1-above-q7/"+sz.name+"/harness", sys+" transcript satisfying every equation with t1 = "+sz.name+" (bound q^7)", mkrec(xG, y, c2, X, pf, "y = 0, gamma chosen"), verify(pf, c2, X))
					})
				}
				// harness: masks at the very top, honest x,y: s1 = q^3 + e*x, t1 = q^7 + e*y
				e.add(sys, fmt.Sprintf("%s/response-s1/bound+e*x/%s/harness", sys, stag), func(t *task) {
					X := pointFor(xG)
					c2 := bobC2(pk, c1, xG, yG, rB)
					pf := bobHarnessProve(ss.bz, pk, NT, h1, h2, c1, c2, xG, yG, rB, X, new(big.Int).Sub(q3, bi1), generic("bob/gamma/"+stag, q7), t.canon)
					if pf.S1.Cmp(q3) <= 0 {
						e.r.Count("skipped_equivalent", 1)
						return
					}
					e.judge(t, sys+"/s1-above-q3/bound+e*x/harness", sys+" transcript satisfying every equation with s1 = q^3 - 1 + e*x", mkrec(xG, yG, c2, X, pf, "alpha = q^3-1"), verify(pf, c2, X))
				})
				e.add(sys, fmt.Sprintf("%s/response-t1/bound+e*y/%s/harness", sys, stag), func(t *task) {
					X := pointFor(xG)
					c2 := bobC2(pk, c1, xG, yG, rB)
					pf := bobHarnessProve(ss.bz, pk, NT, h1, h2, c1, c2, xG, yG, rB, X, generic("bob/alpha/"+stag, q3), q7, t.canon)
					if pf.T1.Cmp(q7) <= 0 {
						e.r.Count("skipped_equivalent", 1)
						return
					}
					e.judge(t, sys+"/t1-above-q7/bound+e*y/harness", sys+" transcript satisfying every equation with t1 = q^7 + e*y", mkrec(xG, yG, c2, X, pf, "gamma = q^7"), verify(pf, c2, X))
				})
			}
			// harness, plain Bob only (x = 0 has no public point): s1 = alpha exactly
			e.add("bob", "bob/control/harness-s1=q3/"+stag, func(t *task) {
				x := bi(0)
				c2 := bobC2(pk, c1, x, yG, rB)
				pf := bobHarnessProve(ss.bz, pk, NT, h1, h2, c1, c2, x, yG, rB, nil, q3, generic("bob/gamma/"+stag, q7), t.canon)
				e.control("bob s1 = q^3 (harness transcript)", verify(pf, c2, nil))
			})
			for _, sz := range sizes {
				sz := sz
				canon := fmt.Sprintf("bob/response-s1/%s/%s/harness", sz.name, stag)
				e.add("bob", canon, func(t *task) {
					x := bi(0)
					c2 := bobC2(pk, c1, x, yG, rB)
					pf := bobHarnessProve(ss.bz, pk, NT, h1, h2, c1, c2, x, yG, rB, nil, sz.f(q3), generic("bob/gamma/"+stag, q7), canon)
					e.judge(t, "bob/s1-above-q3/"+sz.name+"/harness", "bob transcript satisfying every equation with s1 = "+sz.name+" (bound q^3)", mkrec(x, yG, c2, nil, pf, "x = 0, alpha chosen"), verify(pf, c2, nil))
				})
			}
			// degenerate transcripts for a FALSE statement (c2 built with x = q^3*2^64): v = 0 and s = 0 make equation 7
			// read 0 = 0; equations 4-6 are proved honestly for unrelated small x', y'.
			for _, wc := range []bool{false, true} {
				wc := wc
				sys := map[bool]string{false: "bob", true: "bob-wc"}[wc]
				e.add(sys, sys+"/degenerate-v=0,s=0/"+stag+"/harness", func(t *task) {
					xBig := new(big.Int).Add(new(big.Int).Lsh(q3, 64), bi1)
					c2 := bobC2(pk, c1, xBig, yG, rB)
					var X *crypto.ECPoint
					if wc {
						X = XG // public point of the small x' = xG used on the NTilde/curve side
					}
					pf := bobDegenerate(ss.bz, pk, NT, h1, h2, c1, c2, xG, yG, X, t.canon)
					e.judge(t, sys+"/degenerate-v=0,s=0/harness", sys+" transcript with v = 0, s = 0 (equation 7 reads 0 = 0) for a c2 built with multiplier q^3*2^64+1", mkrec(xBig, yG, c2, X, pf, "x', y' small on the NTilde/curve side"), verify(pf, c2, X))
				})
			}
			// Bob-WC with a public point that is not x*G
			XGref := XG
			type wrongX struct {
				name string
				X    *crypto.ECPoint
			}
			g := crypto.ScalarBaseMult(ec, bi(1))
			xPlusG, _ := XGref.Add(g)
			wrongs := []wrongX{
				{"X+G", xPlusG},
				{"2X", XGref.ScalarMult(bi(2))},
				{"-X", XGref.ScalarMult(new(big.Int).Sub(q, bi1))},
				{"generic-point", crypto.ScalarBaseMult(ec, generic("bob/wrongX/"+tag, q))},
			}
			for _, wx := range wrongs {
				for _, mode := range []string{"prover-given-X'", "honest-proof-for-X/verified-against-X'", "proof-made-without-check/verified-against-X'", "proof-made-without-check,U-removed/verified-against-X'"} {
					wx, mode := wx, mode
					canon := fmt.Sprintf("bob-wc/wrong-public-point/%s/%s/%s/lib", wx.name, mode, stag)
					e.add("bob-wc", canon, func(t *task) {
						if wx.X == nil || wx.X.Equals(XGref) {
							e.r.Count("skipped_equivalent", 1)
							return
						}
						given := XGref
						if mode == "prover-given-X'" {
							given = wx.X
						}
						noCheck := strings.HasPrefix(mode, "proof-made-without-check")
						if noCheck {
							given = nil // the library's prover in its "without check" mode: no U, X not bound
						}
						c2 := bobC2(pk, c1, xG, yG, rB)
						var pf *mta.ProofBobWC
						ok, why := tryProve(func() (err error) {
							pf, err = mta.ProveBobWC(ss.bz, ec, pk, NT, h1, h2, c1, c2, xG, yG, rB, given, newRand(canon))
							return err
						})
						if !ok {
							e.r.Count("lib_prover_cannot_run", 1)
							e.r.Distinct("lib_prover_cannot_run_reasons", "ProveBobWC: "+why)
							return
						}
						m := map[bool]string{true: "prover-given-X'", false: "honest-proof"}[mode == "prover-given-X'"]
						if noCheck {
							m = "proof-made-without-check"
							if strings.Contains(mode, "U-removed") {
								pf.U = nil
								m += "-U-removed"
							}
						}
						e.judge(t, "bob-wc/wrong-public-point/"+wx.name+"/"+m, "Bob-WC proof for multiplier x verified against X' = "+wx.name+" != x*G", mkrec(xG, yG, c2, wx.X, pf, mode+"; rand: core.NewDRBG(\"c11/rand/"+canon+"\")"), verify(pf, c2, wx.X))
					})
				}
			}
		}
	}
}
