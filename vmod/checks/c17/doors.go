package c17

import (
	"bytes"
	"encoding/binary"
	"encoding/gob"
	"encoding/json"
	"errors"
	"fmt"
	"math/big"
	"sort"
	"strings"

	"github.com/bnb-chain/tss-lib/v2/crypto"
	"github.com/bnb-chain/tss-lib/v2/crypto/mta"
	ecresharing "github.com/bnb-chain/tss-lib/v2/ecdsa/resharing"
	ecsigning "github.com/bnb-chain/tss-lib/v2/ecdsa/signing"
	edkeygen "github.com/bnb-chain/tss-lib/v2/eddsa/keygen"
	edresharing "github.com/bnb-chain/tss-lib/v2/eddsa/resharing"
	edsigning "github.com/bnb-chain/tss-lib/v2/eddsa/signing"
	"github.com/bnb-chain/tss-lib/v2/tss"

	"verif/internal/core"
)

// ---- encodings built by the harness (independent of the library's encoders) ----

func jsonNum(v *big.Int) string {
	if v == nil {
		return "null"
	}
	return v.String()
}

// jsonPoint builds {"Curve":..., "Coords":[X,Y]}; curveName == nil omits the Curve member.
func jsonPoint(curveName *string, X, Y *big.Int) []byte {
	if curveName == nil {
		return []byte(fmt.Sprintf(`{"Coords":[%s,%s]}`, jsonNum(X), jsonNum(Y)))
	}
	n, _ := json.Marshal(*curveName)
	return []byte(fmt.Sprintf(`{"Curve":%s,"Coords":[%s,%s]}`, n, jsonNum(X), jsonNum(Y)))
}

// gobPoint builds the byte string ECPoint.GobDecode expects: len32le|gob(X)|len32le|gob(Y).
func gobPoint(X, Y *big.Int) []byte {
	xb, _ := X.GobEncode()
	yb, _ := Y.GobEncode()
	var buf bytes.Buffer
	_ = binary.Write(&buf, binary.LittleEndian, uint32(len(xb)))
	buf.Write(xb)
	_ = binary.Write(&buf, binary.LittleEndian, uint32(len(yb)))
	buf.Write(yb)
	return buf.Bytes()
}

func parseGobPoint(b []byte) (X, Y *big.Int, err error) {
	rd := func() (*big.Int, error) {
		if len(b) < 4 {
			return nil, errors.New("short")
		}
		l := int(binary.LittleEndian.Uint32(b))
		b = b[4:]
		if len(b) < l {
			return nil, errors.New("short")
		}
		v := new(big.Int)
		if e := v.GobDecode(b[:l]); e != nil {
			return nil, e
		}
		b = b[l:]
		return v, nil
	}
	if X, err = rd(); err != nil {
		return
	}
	if Y, err = rd(); err != nil {
		return
	}
	if len(b) != 0 {
		err = errors.New("trailing bytes")
	}
	return
}

// rawGob is sent through encoding/gob in place of an ECPoint (same wire shape: an opaque GobEncoder value).
type rawGob struct{ b []byte }

func (g *rawGob) GobEncode() ([]byte, error) { return g.b, nil }
func (g *rawGob) GobDecode(b []byte) error   { g.b = append([]byte{}, b...); return nil }

type gobOut struct{ P *rawGob }
type gobIn struct{ P *crypto.ECPoint }

// ---- doors ----

type door struct {
	name      string
	global    string // which curve tss.EC() designates while the door is used: "this" or "other"
	bytesOnly bool   // coordinates travel as unsigned byte strings: nil / negative not expressible
	decode    func(cv *curveCtx, X, Y *big.Int) (*crypto.ECPoint, error)
}

// usedReceiver returns an ECPoint that already holds the generator of the other curve (decoded from a payload
// that names that curve).
func usedReceiver(cv *curveCtx) (*crypto.ECPoint, error) {
	o := cv.other
	if o == nil {
		return new(crypto.ECPoint), nil
	}
	n := string(o.regName)
	p := new(crypto.ECPoint)
	if err := p.UnmarshalJSON(jsonPoint(&n, o.rc.Gx, o.rc.Gy)); err != nil {
		return nil, fmt.Errorf("harness: cannot prepare a used receiver: %v", err)
	}
	return p, nil
}

func doors() []door {
	gx := func(cv *curveCtx) (*big.Int, *big.Int) {
		return new(big.Int).Set(cv.rc.Gx), new(big.Int).Set(cv.rc.Gy)
	}
	one := []byte{1}
	ds := []door{
		{"NewECPoint", "other", false, func(cv *curveCtx, X, Y *big.Int) (*crypto.ECPoint, error) {
			return crypto.NewECPoint(cv.ec, X, Y)
		}},
		{"UnFlattenECPoints/only", "other", false, func(cv *curveCtx, X, Y *big.Int) (*crypto.ECPoint, error) {
			ps, err := crypto.UnFlattenECPoints(cv.ec, []*big.Int{X, Y})
			if err != nil {
				return nil, err
			}
			if len(ps) != 1 {
				return nil, fmt.Errorf("harness: %d points", len(ps))
			}
			return ps[0], nil
		}},
		{"UnFlattenECPoints/first", "other", false, func(cv *curveCtx, X, Y *big.Int) (*crypto.ECPoint, error) {
			x, y := gx(cv)
			ps, err := crypto.UnFlattenECPoints(cv.ec, []*big.Int{X, Y, x, y})
			if err != nil {
				return nil, err
			}
			return ps[0], nil
		}},
		{"UnFlattenECPoints/last", "other", false, func(cv *curveCtx, X, Y *big.Int) (*crypto.ECPoint, error) {
			x, y := gx(cv)
			ps, err := crypto.UnFlattenECPoints(cv.ec, []*big.Int{x, y, X, Y}, false)
			if err != nil {
				return nil, err
			}
			return ps[1], nil
		}},
		{"UnmarshalJSON/named-curve", "other", false, func(cv *curveCtx, X, Y *big.Int) (*crypto.ECPoint, error) {
			n := string(cv.regName)
			p := new(crypto.ECPoint)
			if err := p.UnmarshalJSON(jsonPoint(&n, X, Y)); err != nil {
				return nil, err
			}
			return p, nil
		}},
		{"UnmarshalJSON/empty-curve-name", "this", false, func(cv *curveCtx, X, Y *big.Int) (*crypto.ECPoint, error) {
			n := ""
			p := new(crypto.ECPoint)
			if err := p.UnmarshalJSON(jsonPoint(&n, X, Y)); err != nil {
				return nil, err
			}
			return p, nil
		}},
		{"UnmarshalJSON/no-curve-member", "this", false, func(cv *curveCtx, X, Y *big.Int) (*crypto.ECPoint, error) {
			p := new(crypto.ECPoint)
			if err := p.UnmarshalJSON(jsonPoint(nil, X, Y)); err != nil {
				return nil, err
			}
			return p, nil
		}},
		{"json.Unmarshal/struct-and-slice", "other", false, func(cv *curveCtx, X, Y *big.Int) (*crypto.ECPoint, error) {
			n := string(cv.regName)
			x, y := gx(cv)
			payload := fmt.Sprintf(`{"P":%s,"L":[%s,%s]}`, jsonPoint(&n, X, Y), jsonPoint(&n, x, y), jsonPoint(&n, X, Y))
			var s struct {
				P *crypto.ECPoint
				L []*crypto.ECPoint
			}
			if err := json.Unmarshal([]byte(payload), &s); err != nil {
				return nil, err
			}
			if s.P == nil || len(s.L) != 2 || s.L[1] == nil {
				return nil, errors.New("harness: members missing after decoding")
			}
			if s.P.X().Cmp(s.L[1].X()) != 0 || s.P.Y().Cmp(s.L[1].Y()) != 0 {
				return nil, errors.New("harness: the same encoding decoded to different coordinates")
			}
			return s.P, nil
		}},
		// the same decoders with a receiver that held a point of the OTHER curve before (encoding/json and gob
		// decode into existing non-nil targets, e.g. when key data is loaded into a variable a second time)
		{"UnmarshalJSON/no-curve-member/reused-receiver", "this", false, func(cv *curveCtx, X, Y *big.Int) (*crypto.ECPoint, error) {
			p, err := usedReceiver(cv)
			if err != nil {
				return nil, err
			}
			if err := p.UnmarshalJSON(jsonPoint(nil, X, Y)); err != nil {
				return nil, err
			}
			return p, nil
		}},
		{"UnmarshalJSON/named-curve/reused-receiver", "other", false, func(cv *curveCtx, X, Y *big.Int) (*crypto.ECPoint, error) {
			p, err := usedReceiver(cv)
			if err != nil {
				return nil, err
			}
			n := string(cv.regName)
			if err := p.UnmarshalJSON(jsonPoint(&n, X, Y)); err != nil {
				return nil, err
			}
			return p, nil
		}},
		{"GobDecode/reused-receiver", "this", false, func(cv *curveCtx, X, Y *big.Int) (*crypto.ECPoint, error) {
			p, err := usedReceiver(cv)
			if err != nil {
				return nil, err
			}
			if err := p.GobDecode(gobPoint(X, Y)); err != nil {
				return nil, err
			}
			return p, nil
		}},
		{"GobDecode", "this", false, func(cv *curveCtx, X, Y *big.Int) (*crypto.ECPoint, error) {
			p := new(crypto.ECPoint)
			if err := p.GobDecode(gobPoint(X, Y)); err != nil {
				return nil, err
			}
			return p, nil
		}},
		{"gob.Decoder/struct-member", "this", false, func(cv *curveCtx, X, Y *big.Int) (*crypto.ECPoint, error) {
			var buf bytes.Buffer
			if err := gob.NewEncoder(&buf).Encode(&gobOut{P: &rawGob{gobPoint(X, Y)}}); err != nil {
				return nil, fmt.Errorf("harness: %v", err)
			}
			var in gobIn
			if err := gob.NewDecoder(&buf).Decode(&in); err != nil {
				return nil, err
			}
			if in.P == nil {
				return nil, errors.New("harness: member missing after decoding")
			}
			return in.P, nil
		}},
		// message-level decoders
		{"msg/ecdsa-signing.SignRound4Message.UnmarshalZKProof", "other", true, func(cv *curveCtx, X, Y *big.Int) (*crypto.ECPoint, error) {
			pf, err := (&ecsigning.SignRound4Message{ProofAlphaX: X.Bytes(), ProofAlphaY: Y.Bytes(), ProofT: one}).UnmarshalZKProof(cv.ec)
			if err != nil {
				return nil, err
			}
			return pf.Alpha, nil
		}},
		{"msg/ecdsa-signing.SignRound6Message.UnmarshalZKProof", "other", true, func(cv *curveCtx, X, Y *big.Int) (*crypto.ECPoint, error) {
			pf, err := (&ecsigning.SignRound6Message{ProofAlphaX: X.Bytes(), ProofAlphaY: Y.Bytes(), ProofT: one}).UnmarshalZKProof(cv.ec)
			if err != nil {
				return nil, err
			}
			return pf.Alpha, nil
		}},
		{"msg/ecdsa-signing.SignRound6Message.UnmarshalZKVProof", "other", true, func(cv *curveCtx, X, Y *big.Int) (*crypto.ECPoint, error) {
			pf, err := (&ecsigning.SignRound6Message{VProofAlphaX: X.Bytes(), VProofAlphaY: Y.Bytes(), VProofT: one, VProofU: one}).UnmarshalZKVProof(cv.ec)
			if err != nil {
				return nil, err
			}
			return pf.Alpha, nil
		}},
		{"msg/ecdsa-resharing.DGRound1Message.UnmarshalECDSAPub", "other", true, func(cv *curveCtx, X, Y *big.Int) (*crypto.ECPoint, error) {
			return (&ecresharing.DGRound1Message{EcdsaPubX: X.Bytes(), EcdsaPubY: Y.Bytes(), VCommitment: one}).UnmarshalECDSAPub(cv.ec)
		}},
		{"msg/eddsa-keygen.KGRound2Message2.UnmarshalZKProof", "other", true, func(cv *curveCtx, X, Y *big.Int) (*crypto.ECPoint, error) {
			pf, err := (&edkeygen.KGRound2Message2{ProofAlphaX: X.Bytes(), ProofAlphaY: Y.Bytes(), ProofT: one}).UnmarshalZKProof(cv.ec)
			if err != nil {
				return nil, err
			}
			return pf.Alpha, nil
		}},
		{"msg/eddsa-signing.SignRound2Message.UnmarshalZKProof", "other", true, func(cv *curveCtx, X, Y *big.Int) (*crypto.ECPoint, error) {
			pf, err := (&edsigning.SignRound2Message{ProofAlphaX: X.Bytes(), ProofAlphaY: Y.Bytes(), ProofT: one}).UnmarshalZKProof(cv.ec)
			if err != nil {
				return nil, err
			}
			return pf.Alpha, nil
		}},
		{"msg/eddsa-resharing.DGRound1Message.UnmarshalEDDSAPub", "other", true, func(cv *curveCtx, X, Y *big.Int) (*crypto.ECPoint, error) {
			return (&edresharing.DGRound1Message{EddsaPubX: X.Bytes(), EddsaPubY: Y.Bytes(), VCommitment: one}).UnmarshalEDDSAPub(cv.ec)
		}},
		{"msg/mta.ProofBobWCFromBytes", "other", true, func(cv *curveCtx, X, Y *big.Int) (*crypto.ECPoint, error) {
			if X.Sign() == 0 || Y.Sign() == 0 {
				return nil, errSkip // the byte-part framing refuses empty parts before the point is looked at
			}
			bzs := make([][]byte, 12)
			for i := range bzs {
				bzs[i] = one
			}
			bzs[10], bzs[11] = X.Bytes(), Y.Bytes()
			pf, err := mta.ProofBobWCFromBytes(cv.ec, bzs)
			if err != nil {
				return nil, err
			}
			return pf.U, nil
		}},
	}
	return ds
}

var errSkip = errors.New("harness: case not expressible through this door")

// ---- coordinate alphabet ----

type alt struct {
	name string
	X, Y *big.Int
}

func alterations(cv *curveCtx, b namedPoint) []alt {
	x, y, p := b.pt.X, b.pt.Y, cv.p
	add := func(a, d *big.Int) *big.Int { return new(big.Int).Add(a, d) }
	sub := func(a, d *big.Int) *big.Int { return new(big.Int).Sub(a, d) }
	c := func(a *big.Int) *big.Int { return new(big.Int).Set(a) }
	sh8 := func(a *big.Int) *big.Int { return add(new(big.Int).Lsh(a, 8), bi(1)) }
	neg := cv.rc.Neg(b.pt)
	return []alt{
		{"as-is", c(x), c(y)},
		{"negated-point(canonical)", c(neg.X), c(neg.Y)},
		{"(x,y+1)", c(x), add(y, bi(1))},
		{"(x+1,y)", add(x, bi(1)), c(y)},
		{"(y,x)", c(y), c(x)},
		{"(x+p,y)", add(x, p), c(y)},
		{"(x,y+p)", c(x), add(y, p)},
		{"(x+p,y+p)", add(x, p), add(y, p)},
		{"(x-p,y)", sub(x, p), c(y)},
		{"(x,y-p)", c(x), sub(y, p)},
		{"(-x,y)", new(big.Int).Neg(x), c(y)},
		{"(x,-y)", c(x), new(big.Int).Neg(y)},
		{"(x+2^255,y)", add(x, pow2(255)), c(y)},
		{"(x,y+2^255)", c(x), add(y, pow2(255))},
		{"(x+2^256,y)", add(x, pow2(256)), c(y)},
		{"(x,y+2^256)", c(x), add(y, pow2(256))},
		{"(x*256+1,y)", sh8(x), c(y)},
		{"(x,y*256+1)", c(x), sh8(y)},
		{"(nil,y)", nil, c(y)},
		{"(x,nil)", c(x), nil},
	}
}

func standaloneAlts(cv *curveCtx) []alt {
	o := cv.other.rc
	return []alt{
		{"other-curve-generator", new(big.Int).Set(o.Gx), new(big.Int).Set(o.Gy)},
		{"(0,0)", bi(0), bi(0)},
		{"(0,1)", bi(0), bi(1)},
		{"(1,0)", bi(1), bi(0)},
		{"(p,p)", new(big.Int).Set(cv.p), new(big.Int).Set(cv.p)},
		{"(nil,nil)", nil, nil},
	}
}

func classify(cv *curveCtx, X, Y *big.Int) string {
	switch {
	case X == nil || Y == nil:
		return "nil-coordinate"
	case X.Sign() < 0 || Y.Sign() < 0:
		return "negative-coordinate"
	case (X.Cmp(cv.p) >= 0 || Y.Cmp(cv.p) >= 0) && cv.rc.SatisfiesEquation(X, Y):
		return "noncanonical-coordinate"
	}
	return "off-curve"
}

func setGlobal(cv *curveCtx, which string) {
	if which == "this" {
		tss.SetCurve(cv.ec)
	} else {
		tss.SetCurve(cv.other.ec)
	}
}

func doorsCheck(r *core.Run, curves []*curveCtx) {
	for _, cv := range curves {
		bases := doorBasePoints(cv, r.Tier)
		r.Set("door_base_points_"+cv.name, len(bases))
		type job struct {
			base string
			bx   namedPoint
			a    alt
		}
		var jobs []job
		for _, b := range bases {
			for _, a := range alterations(cv, b) {
				jobs = append(jobs, job{b.name, b, a})
			}
		}
		for _, a := range standaloneAlts(cv) {
			jobs = append(jobs, job{"-", namedPoint{}, a})
		}
		for _, d := range doors() {
			setGlobal(cv, d.global)
			for _, j := range jobs {
				oneDoorCase(r, cv, &d, j.base, j.a)
			}
		}
		unknownCurveNames(r, cv)
		gobTruncations(r, cv)
	}
	// summary of everything that got in although it should not have (for the report)
	r.Set("accepted_although_invalid", r.DistinctMembers("accepted-bad"))
}

func oneDoorCase(r *core.Run, cv *curveCtx, d *door, base string, a alt) {
	X, Y := a.X, a.Y
	if d.bytesOnly && (X == nil || Y == nil || X.Sign() < 0 || Y.Sign() < 0) {
		return
	}
	if (X == nil || Y == nil) && (strings.HasPrefix(d.name, "GobDecode") || d.name == "gob.Decoder/struct-member") {
		return // a nil big.Int has no gob encoding
	}
	caseKey := fmt.Sprintf("door/%s/%s/%s/%s", d.name, cv.name, base, a.name)
	want := cv.rc.OnCurve(X, Y)
	class := classify(cv, X, Y)
	rec := map[string]interface{}{"door": d.name, "curve": cv.name, "base_point": base, "alteration": a.name,
		"X": istr(X), "Y": istr(Y), "global_curve_is": d.global, "expected_accept": want}
	var pt *crypto.ECPoint
	var err error
	// give the door private copies: it must not be able to disturb the harness' values
	cp := func(v *big.Int) *big.Int {
		if v == nil {
			return nil
		}
		return new(big.Int).Set(v)
	}
	pkey := fmt.Sprintf("door/%s/%s/%s", d.name, class, cv.name)
	if want {
		pkey = fmt.Sprintf("door/%s/valid-point/%s", d.name, cv.name)
	}
	if !guard(r, pkey, rec, func() { pt, err = d.decode(cv, cp(X), cp(Y)) }) {
		ev(r, caseKey)
		return
	}
	if err == errSkip {
		return
	}
	ev(r, caseKey)
	r.Distinct("door-outcomes", fmt.Sprintf("%s/want=%v/accepted=%v", d.name, want, err == nil))
	if want {
		if err != nil {
			rec["error"] = err.Error()
			r.Violate(fmt.Sprintf("door/%s/valid-point-refused/%s", d.name, cv.name), "a canonical point of the stated curve is refused", rec)
			return
		}
		checkDecoded(r, cv, d.name, pt, X, Y, rec)
		if a.name == "as-is" && base == "G" {
			r.Sample(8, map[string]interface{}{"what": "valid point through a door: accepted, same coordinates and curve, re-encodes identically", "door": d.name, "curve": cv.name, "X": istr(X), "Y": istr(Y)})
		}
		return
	}
	if err != nil {
		if a.name == "(x,y+1)" && base == "G" {
			r.Sample(8, map[string]interface{}{"what": "invalid pair refused", "door": d.name, "curve": cv.name, "alteration": a.name, "X": istr(X), "Y": istr(Y), "error": err.Error()})
		}
		return
	}
	// accepted although not a canonical point of the curve
	if pt != nil {
		func() {
			defer func() { _ = recover() }()
			rec["decoded_X"], rec["decoded_Y"] = istr(pt.X()), istr(pt.Y())
			if X != nil && Y != nil {
				cx, cy := new(big.Int).Mod(X, cv.p), new(big.Int).Mod(Y, cv.p)
				if cv.rc.OnCurve(cx, cy) {
					if canon, e := crypto.NewECPoint(cv.ec, cx, cy); e == nil {
						rec["canonical_point"] = [2]string{cx.String(), cy.String()}
						rec["Equals_canonical_point"] = pt.Equals(canon)
					}
				}
			}
			if js, e := pt.MarshalJSON(); e == nil {
				rec["re_encoded_json"] = string(js)
			}
		}()
	}
	r.Distinct("accepted-bad", fmt.Sprintf("%s | %s | %s | %s", d.name, cv.name, class, a.name))
	key := fmt.Sprintf("door/%s/%s/%s", d.name, class, cv.name)
	if class == "off-curve" {
		key = fmt.Sprintf("door/%s/off-curve/%s/%s", d.name, a.name, cv.name)
	}
	what := map[string]string{
		"noncanonical-coordinate": "accepted a coordinate >= p (congruent to a curve point modulo p but not a canonical encoding; the accepted point does not compare/re-encode equal to the canonical point)",
		"negative-coordinate":     "accepted a negative coordinate",
		"nil-coordinate":          "accepted a nil coordinate",
		"off-curve":               "accepted a coordinate pair that does not satisfy the curve equation",
	}[class]
	r.Violate(key, what, rec)
}

// checkDecoded: an accepted valid point has the same coordinates and curve, and re-encodes to them.
func checkDecoded(r *core.Run, cv *curveCtx, doorName string, pt *crypto.ECPoint, X, Y *big.Int, rec map[string]interface{}) {
	bad := func(what, msg string) {
		r.Violate(fmt.Sprintf("door/%s/%s/%s", doorName, what, cv.name), msg, rec)
	}
	if pt == nil {
		bad("nil-result", "decoder returned neither a point nor an error")
		return
	}
	guard(r, fmt.Sprintf("door/%s/re-encode/%s", doorName, cv.name), rec, func() {
		if pt.X().Cmp(X) != 0 || pt.Y().Cmp(Y) != 0 {
			rec["decoded_X"], rec["decoded_Y"] = istr(pt.X()), istr(pt.Y())
			bad("coordinates-changed", "decoded point has different coordinates")
			return
		}
		name, ok := tss.GetCurveName(pt.Curve())
		if !ok || name != cv.regName {
			rec["decoded_curve"] = string(name)
			bad("curve-changed", "decoded point is tagged with a different curve")
			return
		}
		if !pt.IsOnCurve() || !pt.ValidateBasic() {
			bad("not-on-curve-after-decoding", "IsOnCurve/ValidateBasic false on an accepted valid point")
		}
		// re-encode through every encoder
		js, err := pt.MarshalJSON()
		if err != nil {
			bad("re-encode-json-error", "MarshalJSON failed: "+err.Error())
		} else {
			var aux struct {
				Curve  string
				Coords [2]*big.Int
			}
			if e := json.Unmarshal(js, &aux); e != nil || aux.Curve != string(cv.regName) || aux.Coords[0] == nil || aux.Coords[1] == nil ||
				aux.Coords[0].Cmp(X) != 0 || aux.Coords[1].Cmp(Y) != 0 {
				rec["re_encoded_json"] = string(js)
				bad("re-encode-json-differs", "MarshalJSON of the decoded point gives a different point or curve")
			}
		}
		gb, err := pt.GobEncode()
		if err != nil {
			bad("re-encode-gob-error", "GobEncode failed: "+err.Error())
		} else if gx, gy, e := parseGobPoint(gb); e != nil || gx.Cmp(X) != 0 || gy.Cmp(Y) != 0 {
			bad("re-encode-gob-differs", "GobEncode of the decoded point gives different coordinates")
		}
		fl, err := crypto.FlattenECPoints([]*crypto.ECPoint{pt})
		if err != nil || len(fl) != 2 || fl[0].Cmp(X) != 0 || fl[1].Cmp(Y) != 0 {
			bad("re-encode-flatten-differs", "FlattenECPoints of the decoded point gives different coordinates")
		}
	})
}

func unknownCurveNames(r *core.Run, cv *curveCtx) {
	setGlobal(cv, "this")
	for _, n := range []string{"P-256", "SECP256K1", "Ed25519", string(cv.regName) + " ", "\x00", "curve25519"} {
		name := n
		ev(r, fmt.Sprintf("door/UnmarshalJSON/unknown-curve-name/%s/%q", cv.name, name))
		rec := map[string]interface{}{"curve_name": name, "coords_are_generator_of": cv.name}
		var err error
		if guard(r, "door/UnmarshalJSON/unknown-curve-name/"+cv.name, rec, func() {
			err = new(crypto.ECPoint).UnmarshalJSON(jsonPoint(&name, cv.rc.Gx, cv.rc.Gy))
		}) && err == nil {
			r.Violate("door/UnmarshalJSON/unknown-curve-name-accepted/"+cv.name, "a point stated to be on an unregistered curve is accepted", rec)
		}
	}
}

// gobTruncations: every strict prefix of a valid gob point: no panic; if accepted it must be a valid point.
func gobTruncations(r *core.Run, cv *curveCtx) {
	setGlobal(cv, "this")
	full := gobPoint(cv.rc.Gx, cv.rc.Gy)
	for l := 0; l < len(full); l++ {
		buf := append([]byte{}, full[:l]...)
		ev(r, fmt.Sprintf("door/GobDecode/truncated/%s/%d", cv.name, l))
		rec := map[string]interface{}{"curve": cv.name, "prefix_len": l, "full_hex": fmt.Sprintf("%x", full)}
		p := new(crypto.ECPoint)
		var err error
		if guard(r, "door/GobDecode/truncated/"+cv.name, rec, func() { err = p.GobDecode(buf) }) && err == nil {
			ok := false
			guard(r, "door/GobDecode/truncated-accessor/"+cv.name, rec, func() { ok = cv.rc.OnCurve(p.X(), p.Y()) })
			if !ok {
				r.Violate("door/GobDecode/truncated-accepted/"+cv.name, "a truncated encoding is accepted as a point that is not on the curve", rec)
			}
		}
	}
}

// ---- round trips of valid points through the library's own encoders ----

type holder struct {
	One  *crypto.ECPoint
	Many []*crypto.ECPoint
}

func roundTrips(r *core.Run, curves []*curveCtx) {
	for _, cv := range curves {
		bases := doorBasePoints(cv, r.Tier)
		mk := func(np namedPoint) *crypto.ECPoint {
			p, err := crypto.NewECPoint(cv.ec, new(big.Int).Set(np.pt.X), new(big.Int).Set(np.pt.Y))
			if err != nil {
				return nil // reported by the doors check
			}
			return p
		}
		same := func(p *crypto.ECPoint, np namedPoint) bool {
			if p == nil {
				return false
			}
			n, ok := tss.GetCurveName(p.Curve())
			return ok && n == cv.regName && p.X().Cmp(np.pt.X) == 0 && p.Y().Cmp(np.pt.Y) == 0
		}
		var all []*crypto.ECPoint
		var allNp []namedPoint
		for _, np := range bases {
			if p := mk(np); p != nil {
				all = append(all, p)
				allNp = append(allNp, np)
			}
		}
		for i, p := range all {
			np := allNp[i]
			rec := map[string]interface{}{"curve": cv.name, "point": np.name, "X": istr(np.pt.X), "Y": istr(np.pt.Y)}
			// JSON with the process-wide curve set to the OTHER curve: the encoding must carry the curve
			setGlobal(cv, "other")
			ev(r, fmt.Sprintf("roundtrip/json/%s/%s", cv.name, np.name))
			guard(r, "roundtrip/json/"+cv.name, rec, func() {
				js, err := json.Marshal(p)
				if err != nil {
					r.Violate("roundtrip/json-marshal-error/"+cv.name, err.Error(), rec)
					return
				}
				var back crypto.ECPoint
				if err := json.Unmarshal(js, &back); err != nil {
					rec["json"] = string(js)
					r.Violate("roundtrip/json-unmarshal-error/"+cv.name, "the library's own JSON encoding of a valid point is refused: "+err.Error(), rec)
					return
				}
				if !same(&back, np) {
					rec["json"] = string(js)
					r.Violate("roundtrip/json-differs/"+cv.name, "JSON round trip changes coordinates or curve", rec)
				}
			})
			setGlobal(cv, "this")
			ev(r, fmt.Sprintf("roundtrip/gob/%s/%s", cv.name, np.name))
			guard(r, "roundtrip/gob/"+cv.name, rec, func() {
				var buf bytes.Buffer
				if err := gob.NewEncoder(&buf).Encode(&gobIn{P: p}); err != nil {
					r.Violate("roundtrip/gob-encode-error/"+cv.name, err.Error(), rec)
					return
				}
				var back gobIn
				if err := gob.NewDecoder(&buf).Decode(&back); err != nil {
					r.Violate("roundtrip/gob-decode-error/"+cv.name, "the library's own gob encoding of a valid point is refused: "+err.Error(), rec)
					return
				}
				if !same(back.P, np) {
					r.Violate("roundtrip/gob-differs/"+cv.name, "gob round trip changes coordinates or curve", rec)
				}
			})
		}
		// struct with a member and a list (JSON), and Flatten -> UnFlatten of every prefix of the list
		setGlobal(cv, "other")
		ev(r, fmt.Sprintf("roundtrip/json-struct/%s", cv.name))
		guard(r, "roundtrip/json-struct/"+cv.name, nil, func() {
			js, err := json.Marshal(&holder{One: all[0], Many: all})
			if err != nil {
				r.Violate("roundtrip/json-struct-error/"+cv.name, err.Error(), nil)
				return
			}
			var back holder
			if err := json.Unmarshal(js, &back); err != nil || len(back.Many) != len(all) || !same(back.One, allNp[0]) {
				r.Violate("roundtrip/json-struct-differs/"+cv.name, fmt.Sprintf("struct round trip failed: %v", err), nil)
				return
			}
			for i := range all {
				if !same(back.Many[i], allNp[i]) {
					r.Violate("roundtrip/json-struct-differs/"+cv.name, "list member changed in a JSON round trip", map[string]interface{}{"index": i})
				}
			}
		})
		for l := 1; l <= len(all); l++ {
			ev(r, fmt.Sprintf("roundtrip/flatten/%s/%d", cv.name, l))
			rec := map[string]interface{}{"curve": cv.name, "list_len": l}
			guard(r, "roundtrip/flatten/"+cv.name, rec, func() {
				fl, err := crypto.FlattenECPoints(all[:l])
				if err != nil || len(fl) != 2*l {
					r.Violate("roundtrip/flatten-error/"+cv.name, fmt.Sprintf("FlattenECPoints: %v, %d integers", err, len(fl)), rec)
					return
				}
				back, err := crypto.UnFlattenECPoints(cv.ec, fl)
				if err != nil || len(back) != l {
					r.Violate("roundtrip/unflatten-error/"+cv.name, fmt.Sprintf("UnFlattenECPoints of a flattened valid list: %v", err), rec)
					return
				}
				for i := range back {
					if !same(back[i], allNp[i]) {
						r.Violate("roundtrip/flatten-differs/"+cv.name, "Flatten -> UnFlatten changes a point", rec)
					}
				}
			})
			// odd-length lists are not lists of points
			if l >= 1 {
				fl, _ := crypto.FlattenECPoints(all[:l])
				ev(r, fmt.Sprintf("roundtrip/unflatten-odd/%s/%d", cv.name, l))
				guard(r, "door/UnFlattenECPoints/odd-length/"+cv.name, rec, func() {
					if _, err := crypto.UnFlattenECPoints(cv.ec, fl[:len(fl)-1]); err == nil {
						r.Violate("door/UnFlattenECPoints/odd-length-accepted/"+cv.name, "a coordinate list of odd length is accepted", rec)
					}
				})
			}
		}
	}
}

// ---- registry (tss/curve.go) ----

func registryCheck(r *core.Run, curves []*curveCtx) {
	for _, cv := range curves {
		ev(r, "registry/"+cv.name)
		guard(r, "registry/"+cv.name, nil, func() {
			ec, ok := tss.GetCurveByName(cv.regName)
			if !ok || ec.Params().P.Cmp(cv.p) != 0 || ec.Params().N.Cmp(cv.q) != 0 {
				r.Violate("registry/lookup-by-name/"+cv.name, "registered curve not found under its name or has other parameters", nil)
			}
			n, ok := tss.GetCurveName(cv.ec)
			if !ok || n != cv.regName {
				r.Violate("registry/name-of-curve/"+cv.name, fmt.Sprintf("GetCurveName gives %q", n), nil)
			}
			if !tss.SameCurve(cv.ec, cv.ec) || tss.SameCurve(cv.ec, cv.other.ec) {
				r.Violate("registry/same-curve/"+cv.name, "SameCurve confuses the two registered curves", nil)
			}
			if _, ok := tss.GetCurveByName(tss.CurveName(string(cv.regName) + "x")); ok {
				r.Violate("registry/unknown-name-found/"+cv.name, "an unregistered name resolves to a curve", nil)
			}
		})
	}
	names := []string{}
	for _, cv := range curves {
		names = append(names, string(cv.regName))
	}
	sort.Strings(names)
	r.Set("curves", names)
}
