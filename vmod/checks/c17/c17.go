// Package c17: check for property C17 (stub until implemented).
package c17

import "verif/internal/core"

// Implemented reports whether this check is built.
const Implemented = false

func Run(r *core.Run) { r.Cap("not implemented") }
