// Package c17: only valid curve points are accepted; point arithmetic and encodings are exact (ENUM).
//
// Three enumerations, all against the independent curve arithmetic in verif/internal/ref:
//   - doors.go:  every decoder/constructor ("door") x both curves x an explicit alphabet of coordinate
//     pairs derived from base points (perturbed, swapped, +p, -p, negated, truncation aliases, the other
//     curve's generator, (0,0), nil) -> accepted iff canonical-and-on-curve; accepted points re-encode
//     to the same coordinates and curve; encodings of valid points round-trip.
//   - arith.go:  Add / ScalarMult / ScalarBaseMult vs ref on all ordered pairs of 12 points x a scalar
//     alphabet, group laws on the same sets, EightInvEight on (prime-order point + each torsion point).
//   - a separated sub-check for operations whose true result is the identity on secp256k1 (keys
//     c06-overlap/...).
package c17

import (
	"crypto/elliptic"
	"fmt"
	"math/big"
	"sync/atomic"

	"github.com/bnb-chain/tss-lib/v2/tss"

	"verif/internal/core"
	"verif/internal/ref"
)

// Implemented reports whether this check is built.
const Implemented = true

type curveCtx struct {
	name    string
	regName tss.CurveName
	ec      elliptic.Curve
	rc      *ref.Curve
	p, q    *big.Int
	other   *curveCtx
}

type namedPoint struct {
	name string
	pt   ref.Point
}

type namedInt struct {
	name string
	v    *big.Int
}

var evals int64

func ev(r *core.Run, caseKey string) {
	atomic.AddInt64(&evals, 1)
	r.Distinct("cases", caseKey)
}

func bi(i int64) *big.Int { return big.NewInt(i) }

func pow2(n uint) *big.Int { return new(big.Int).Lsh(bi(1), n) }

func generic(label string, nbytes int) *big.Int {
	return new(big.Int).SetBytes(core.Bytes(label, nbytes))
}

func istr(v *big.Int) string {
	if v == nil {
		return "nil"
	}
	return v.String()
}

// guard runs f and turns a panic of the code under test into a violation `<key>:panic`.
func guard(r *core.Run, key string, rec interface{}, f func()) (ok bool) {
	defer func() {
		if e := recover(); e != nil {
			r.Violate(key+":panic", fmt.Sprintf("panic in the code under test: %v", e), rec)
			ok = false
		}
	}()
	f()
	return true
}

// ---- points with tiny coordinates (computed here from the curve equations, validated with ref.OnCurve) ----

// secpFromY: x with x^3 = y^2 - 7; p = 7 mod 9 so a cube root of a cubic residue a is a^((p+2)/9).
func secpFromY(y *big.Int) (ref.Point, bool) {
	c := ref.Secp256k1
	a := new(big.Int).Mod(new(big.Int).Sub(new(big.Int).Mul(y, y), c.B), c.P)
	e := new(big.Int).Div(new(big.Int).Add(c.P, bi(2)), bi(9))
	x := new(big.Int).Exp(a, e, c.P)
	if !c.OnCurve(x, y) {
		return ref.Point{}, false
	}
	return ref.Point{X: x, Y: new(big.Int).Set(y)}, true
}

func edSqrtRatio(c *ref.Curve, num, den *big.Int) *big.Int {
	inv := new(big.Int).ModInverse(new(big.Int).Mod(den, c.P), c.P)
	if inv == nil {
		return nil
	}
	v := new(big.Int).Mod(new(big.Int).Mul(new(big.Int).Mod(num, c.P), inv), c.P)
	return new(big.Int).ModSqrt(v, c.P)
}

// edFromX: y^2 = (1 + x^2) / (1 - d x^2)
func edFromX(x *big.Int) (ref.Point, bool) {
	c := ref.Ed25519
	x2 := new(big.Int).Mul(x, x)
	y := edSqrtRatio(c, new(big.Int).Add(bi(1), x2), new(big.Int).Sub(bi(1), new(big.Int).Mul(c.D, x2)))
	if y == nil || !c.OnCurve(x, y) {
		return ref.Point{}, false
	}
	return ref.Point{X: new(big.Int).Set(x), Y: y}, true
}

// edFromY: x^2 = (y^2 - 1) / (d y^2 + 1)
func edFromY(y *big.Int) (ref.Point, bool) {
	c := ref.Ed25519
	y2 := new(big.Int).Mul(y, y)
	x := edSqrtRatio(c, new(big.Int).Sub(y2, bi(1)), new(big.Int).Add(new(big.Int).Mul(c.D, y2), bi(1)))
	if x == nil || !c.OnCurve(x, y) {
		return ref.Point{}, false
	}
	return ref.Point{X: x, Y: new(big.Int).Set(y)}, true
}

func firstN(n int, from int64, f func(*big.Int) (ref.Point, bool)) []ref.Point {
	var out []ref.Point
	for v := from; len(out) < n && v < from+4096; v++ {
		if p, ok := f(bi(v)); ok {
			out = append(out, p)
		}
	}
	return out
}

// arithPoints: the 12 points used for arithmetic (and as base points of the doors).
func arithPoints(cv *curveCtx) []namedPoint {
	c := cv.rc
	g := func(label string) namedPoint {
		k := new(big.Int).Mod(generic("c17/point/"+cv.name+"/"+label, 40), cv.q)
		return namedPoint{"generic-" + label + "*G", c.BaseMul(k)}
	}
	pts := []namedPoint{
		{"G", c.G()},
		{"2G", c.BaseMul(bi(2))},
		{"3G", c.BaseMul(bi(3))},
		{"(q-1)G", c.BaseMul(new(big.Int).Sub(cv.q, bi(1)))},
		g("a"), g("b"), g("c"),
	}
	if !c.Edwards {
		tx := firstN(3, 1, func(x *big.Int) (ref.Point, bool) { return c.LiftX(x, uint(x.Bit(0))) })
		ty := firstN(2, 1, secpFromY)
		for i, p := range tx {
			pts = append(pts, namedPoint{fmt.Sprintf("tiny-x#%d", i), p})
		}
		for i, p := range ty {
			pts = append(pts, namedPoint{fmt.Sprintf("tiny-y#%d", i), p})
		}
	} else {
		tx := firstN(2, 1, edFromX)
		ty := firstN(1, 2, edFromY)
		for i, p := range tx {
			pts = append(pts, namedPoint{fmt.Sprintf("tiny-x#%d", i), p})
		}
		for i, p := range ty {
			pts = append(pts, namedPoint{fmt.Sprintf("tiny-y#%d", i), p})
		}
		tor := c.TorsionEd()
		pts = append(pts, namedPoint{"order8-T", tor[1]})
		pts = append(pts, namedPoint{"G+T", c.Add(c.G(), tor[1])})
	}
	return pts
}

// doorBasePoints: arithmetic points plus, on edwards25519, the neutral element and small-order points.
func doorBasePoints(cv *curveCtx, tier string) []namedPoint {
	pts := arithPoints(cv)
	if tier == "thorough" {
		for i := 0; i < 8; i++ {
			k := new(big.Int).Mod(generic(fmt.Sprintf("c17/doorpoint/%s/%d", cv.name, i), 40), cv.q)
			pts = append(pts, namedPoint{fmt.Sprintf("generic-d%d*G", i), cv.rc.BaseMul(k)})
		}
	}
	if cv.rc.Edwards {
		tor := cv.rc.TorsionEd()
		pts = append(pts, namedPoint{"neutral(0,1)", tor[0]}, namedPoint{"order2(0,p-1)", tor[4]}, namedPoint{"order4", tor[2]})
	}
	return pts
}

func Run(r *core.Run) {
	secp := &curveCtx{name: "secp256k1", regName: tss.Secp256k1, ec: tss.S256(), rc: ref.Secp256k1}
	ed := &curveCtx{name: "ed25519", regName: tss.Ed25519, ec: tss.Edwards(), rc: ref.Ed25519}
	secp.other, ed.other = ed, secp
	curves := []*curveCtx{secp, ed}
	for _, cv := range curves {
		cv.p, cv.q = new(big.Int).Set(cv.rc.P), new(big.Int).Set(cv.rc.N)
		pr := cv.ec.Params()
		if pr.P.Cmp(cv.p) != 0 || pr.N.Cmp(cv.q) != 0 || pr.Gx.Cmp(cv.rc.Gx) != 0 || pr.Gy.Cmp(cv.rc.Gy) != 0 {
			r.Violate("setup/curve-parameters-differ/"+cv.name, "library curve parameters (p, q, G) differ from the reference curve", nil)
			return
		}
		for _, np := range doorBasePoints(cv, r.Tier) {
			if !cv.rc.OnCurve(np.pt.X, np.pt.Y) {
				panic("c17: internal error, base point off curve: " + np.name)
			}
		}
		if n := len(arithPoints(cv)); n != 12 {
			panic(fmt.Sprintf("c17: internal error, %d arithmetic points on %s", n, cv.name))
		}
	}
	defer tss.SetCurve(tss.S256())

	registryCheck(r, curves)
	doorsCheck(r, curves)
	roundTrips(r, curves)
	arithCheck(r, curves)
	cofactorCheck(r, ed)
	identityOverlap(r, curves)

	r.Set("evaluations", int(atomic.LoadInt64(&evals)))
	r.Set("distinct_nontrivial", r.NDistinct("cases"))
	r.Set("rule", "doors: door x curve x base point x coordinate alteration (one case each; expected verdict = ref.OnCurve on the literal integers, i.e. canonical and on the curve); "+
		"round trips: encoding x curve x valid point; arithmetic: op x curve x ordered point pair / point x scalar, group laws per pair / triple / (pair,scalar) / (point,scalar pair); "+
		"cofactor: (prime-order point, torsion point) pairs; identity sub-check: op x curve x input. Distinct = distinct canonical case strings; every case runs library code on a different input.")
	r.Assume("arithmetic comparisons exclude inputs whose true result is the identity on secp256k1 (ECPoint cannot represent it; C06 owns those) - they are exercised only in the c06-overlap sub-check")
	r.Assume("GobDecode and JSON without a curve name use the process-wide tss.EC(); those doors are exercised with tss.SetCurve(<the stated curve>)")
	r.Assume("message-level doors take byte strings, so negative and nil coordinates are not expressible there and are skipped for them")
}
