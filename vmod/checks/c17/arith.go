package c17

import (
	"fmt"
	"math/big"
	"runtime"

	"github.com/bnb-chain/tss-lib/v2/crypto"

	"verif/internal/core"
	"verif/internal/ref"
)

func scalars(cv *curveCtx, tier string) []namedInt {
	q := cv.q
	out := []namedInt{
		{"1", bi(1)},
		{"2", bi(2)},
		{"3", bi(3)},
		{"q-1", new(big.Int).Sub(q, bi(1))},
		{"q+1", new(big.Int).Add(q, bi(1))},
		{"2^256-1", new(big.Int).Sub(pow2(256), bi(1))},
		{"generic<q", new(big.Int).Mod(generic("c17/scalar/a/"+cv.name, 40), q)},
		{"generic256", new(big.Int).SetBit(generic("c17/scalar/b", 32), 255, 1)},
	}
	if tier == "thorough" {
		out = append(out,
			namedInt{"8", bi(8)},
			namedInt{"q-2", new(big.Int).Sub(q, bi(2))},
			namedInt{"2q-1", new(big.Int).Sub(new(big.Int).Lsh(q, 1), bi(1))},
			namedInt{"2^252", pow2(252)},
			namedInt{"2^255", pow2(255)},
			namedInt{"generic2<q", new(big.Int).Mod(generic("c17/scalar/c/"+cv.name, 40), q)},
		)
	}
	return out
}

// longScalars: wider than 32 bytes (resharing keeps unreduced sums of shares, so these do occur).
func longScalars(cv *curveCtx) []namedInt {
	return []namedInt{
		{"2^256+5", new(big.Int).Add(pow2(256), bi(5))},
		{"generic512", new(big.Int).SetBit(generic("c17/scalar/long", 64), 511, 1)},
	}
}

func mkPoint(cv *curveCtx, p ref.Point) (*crypto.ECPoint, error) {
	return crypto.NewECPoint(cv.ec, new(big.Int).Set(p.X), new(big.Int).Set(p.Y))
}

func eqRef(cv *curveCtx, p *crypto.ECPoint, w ref.Point) bool {
	return p != nil && !w.Inf && p.X().Cmp(w.X) == 0 && p.Y().Cmp(w.Y) == 0
}

func ptRec(p ref.Point) [2]string {
	if p.Inf {
		return [2]string{"inf", "inf"}
	}
	return [2]string{p.X.String(), p.Y.String()}
}

// unrepresentable: the true result is the identity on a curve where ECPoint cannot hold it.
func unrepresentable(cv *curveCtx, p ref.Point) bool { return !cv.rc.Edwards && p.Inf }

func arithCheck(r *core.Run, curves []*curveCtx) {
	workers := runtime.NumCPU()
	for _, cv := range curves {
		cv := cv
		c := cv.rc
		nps := arithPoints(cv)
		lib := make([]*crypto.ECPoint, len(nps))
		for i, np := range nps {
			p, err := mkPoint(cv, np.pt)
			if err != nil {
				r.Violate("arith/setup/valid-point-refused/"+cv.name, "NewECPoint refused a reference point: "+err.Error(), map[string]interface{}{"point": np.name})
				return
			}
			lib[i] = p
		}
		n := len(nps)
		ks := append(scalars(cv, r.Tier), longScalars(cv)...)
		ksSnap := make([]*big.Int, len(ks))
		for si, k := range ks {
			ksSnap[si] = new(big.Int).Set(k.v)
		}
		r.Set("arith_points_"+cv.name, n)
		r.Set("arith_scalars_"+cv.name, len(ks))

		// library results are memoised for the group laws
		sum := make([][]*crypto.ECPoint, n) // sum[i][j] = P_i + P_j (library)
		mul := make([][]*crypto.ECPoint, n) // mul[i][s] = k_s * P_i (library)
		for i := range sum {
			sum[i] = make([]*crypto.ECPoint, n)
			mul[i] = make([]*crypto.ECPoint, len(ks))
		}

		// --- Add vs ref on all ordered pairs; commutativity ---
		core.ParallelFor(n*n, workers, func(idx int) {
			i, j := idx/n, idx%n
			want := c.Add(nps[i].pt, nps[j].pt)
			if unrepresentable(cv, want) {
				r.Count("arith_skipped_identity", 1)
				return
			}
			ev(r, fmt.Sprintf("arith/Add/%s/%s+%s", cv.name, nps[i].name, nps[j].name))
			rec := map[string]interface{}{"curve": cv.name, "P": nps[i].name, "Q": nps[j].name, "P_xy": ptRec(nps[i].pt), "Q_xy": ptRec(nps[j].pt), "want": ptRec(want)}
			var got *crypto.ECPoint
			var err error
			if !guard(r, "arith/Add/"+cv.name, rec, func() { got, err = lib[i].Add(lib[j]) }) {
				return
			}
			if err != nil {
				r.Violate("arith/Add/error/"+cv.name, "Add of two valid points whose sum is not the identity fails: "+err.Error(), rec)
				return
			}
			if !eqRef(cv, got, want) {
				rec["got"] = [2]string{got.X().String(), got.Y().String()}
				cls := "distinct-points"
				if i == j {
					cls = "doubling"
				}
				r.Violate("arith/Add/mismatch-ref/"+cls+"/"+cv.name, "Add differs from the reference curve arithmetic", rec)
			}
			sum[i][j] = got
		})
		for i := 0; i < n; i++ {
			for j := i + 1; j < n; j++ {
				if sum[i][j] == nil || sum[j][i] == nil {
					continue
				}
				ev(r, fmt.Sprintf("law/commutativity/%s/%s,%s", cv.name, nps[i].name, nps[j].name))
				if !sum[i][j].Equals(sum[j][i]) {
					r.Violate("law/commutativity/"+cv.name, "P+Q != Q+P", map[string]interface{}{"P": nps[i].name, "Q": nps[j].name})
				}
			}
		}
		r.Sample(12, map[string]interface{}{"what": "Add vs reference", "curve": cv.name, "P": nps[4].name, "Q": nps[7].name, "P_xy": ptRec(nps[4].pt), "Q_xy": ptRec(nps[7].pt), "sum": ptRec(c.Add(nps[4].pt, nps[7].pt))})

		// --- ScalarMult vs ref: all points x all scalars; ScalarBaseMult x all scalars ---
		core.ParallelFor(n*len(ks), workers, func(idx int) {
			i, s := idx/len(ks), idx%len(ks)
			want := c.Mul(ks[s].v, nps[i].pt)
			if unrepresentable(cv, want) {
				r.Count("arith_skipped_identity", 1)
				return
			}
			ev(r, fmt.Sprintf("arith/ScalarMult/%s/%s*%s", cv.name, ks[s].name, nps[i].name))
			rec := map[string]interface{}{"curve": cv.name, "P": nps[i].name, "P_xy": ptRec(nps[i].pt), "k": ks[s].v.String(), "k_class": ks[s].name, "want": ptRec(want)}
			var got *crypto.ECPoint
			if !guard(r, "arith/ScalarMult/k="+ks[s].name+"/"+cv.name, rec, func() { got = lib[i].ScalarMult(new(big.Int).Set(ks[s].v)) }) {
				return
			}
			if !eqRef(cv, got, want) {
				if got != nil {
					rec["got"] = [2]string{got.X().String(), got.Y().String()}
				}
				r.Violate("arith/ScalarMult/mismatch-ref/k="+ks[s].name+"/"+cv.name, "ScalarMult differs from the reference curve arithmetic", rec)
			}
			mul[i][s] = got
		})
		core.ParallelFor(len(ks), workers, func(s int) {
			want := c.BaseMul(ks[s].v)
			if unrepresentable(cv, want) {
				r.Count("arith_skipped_identity", 1)
				return
			}
			ev(r, fmt.Sprintf("arith/ScalarBaseMult/%s/%s", cv.name, ks[s].name))
			rec := map[string]interface{}{"curve": cv.name, "k": ks[s].v.String(), "k_class": ks[s].name, "want": ptRec(want)}
			var got *crypto.ECPoint
			if !guard(r, "arith/ScalarBaseMult/k="+ks[s].name+"/"+cv.name, rec, func() { got = crypto.ScalarBaseMult(cv.ec, new(big.Int).Set(ks[s].v)) }) {
				return
			}
			if !eqRef(cv, got, want) {
				if got != nil {
					rec["got"] = [2]string{got.X().String(), got.Y().String()}
				}
				r.Violate("arith/ScalarBaseMult/mismatch-ref/k="+ks[s].name+"/"+cv.name, "ScalarBaseMult differs from the reference curve arithmetic", rec)
			}
			if mul[0][s] != nil && got != nil && !got.Equals(mul[0][s]) {
				r.Violate("arith/ScalarBaseMult/differs-from-ScalarMult-G/k="+ks[s].name+"/"+cv.name, "ScalarBaseMult(k) != G.ScalarMult(k)", rec)
			}
		})
		r.Sample(12, map[string]interface{}{"what": "ScalarMult vs reference", "curve": cv.name, "P": nps[5].name, "P_xy": ptRec(nps[5].pt), "k": ks[4].v.String(), "k_class": ks[4].name, "product": ptRec(c.Mul(ks[4].v, nps[5].pt))})

		// --- associativity on all triples ---
		core.ParallelFor(n*n*n, workers, func(idx int) {
			i, j, k := idx/(n*n), (idx/n)%n, idx%n
			pq, qr := c.Add(nps[i].pt, nps[j].pt), c.Add(nps[j].pt, nps[k].pt)
			if unrepresentable(cv, pq) || unrepresentable(cv, qr) || sum[i][j] == nil || sum[j][k] == nil {
				r.Count("arith_skipped_identity", 1)
				return
			}
			want := c.Add(pq, nps[k].pt)
			if unrepresentable(cv, want) {
				r.Count("arith_skipped_identity", 1)
				return
			}
			ev(r, fmt.Sprintf("law/associativity/%s/%s,%s,%s", cv.name, nps[i].name, nps[j].name, nps[k].name))
			rec := map[string]interface{}{"curve": cv.name, "P": nps[i].name, "Q": nps[j].name, "R": nps[k].name}
			var l, rr *crypto.ECPoint
			var e1, e2 error
			if !guard(r, "law/associativity/"+cv.name, rec, func() {
				l, e1 = sum[i][j].Add(lib[k])
				rr, e2 = lib[i].Add(sum[j][k])
			}) {
				return
			}
			if e1 != nil || e2 != nil || !l.Equals(rr) || !eqRef(cv, l, want) {
				r.Violate("law/associativity/"+cv.name, fmt.Sprintf("(P+Q)+R != P+(Q+R) or differs from the reference (errors: %v, %v)", e1, e2), rec)
			}
		})

		// --- k(P+Q) = kP + kQ on all ordered pairs i<=j x scalars ---
		type pj struct{ i, j, s int }
		var jobs []pj
		for i := 0; i < n; i++ {
			for j := i; j < n; j++ {
				for s := range ks {
					jobs = append(jobs, pj{i, j, s})
				}
			}
		}
		core.ParallelFor(len(jobs), workers, func(idx int) {
			i, j, s := jobs[idx].i, jobs[idx].j, jobs[idx].s
			pq := c.Add(nps[i].pt, nps[j].pt)
			if unrepresentable(cv, pq) || sum[i][j] == nil || mul[i][s] == nil || mul[j][s] == nil {
				r.Count("arith_skipped_identity", 1)
				return
			}
			want := c.Mul(ks[s].v, pq)
			if unrepresentable(cv, want) {
				r.Count("arith_skipped_identity", 1)
				return
			}
			ev(r, fmt.Sprintf("law/distributivity-points/%s/%s*(%s+%s)", cv.name, ks[s].name, nps[i].name, nps[j].name))
			rec := map[string]interface{}{"curve": cv.name, "P": nps[i].name, "Q": nps[j].name, "k": ks[s].v.String(), "k_class": ks[s].name}
			var l, rr *crypto.ECPoint
			var e error
			if !guard(r, "law/distributivity-points/k="+ks[s].name+"/"+cv.name, rec, func() {
				l = sum[i][j].ScalarMult(new(big.Int).Set(ks[s].v))
				rr, e = mul[i][s].Add(mul[j][s])
			}) {
				return
			}
			if e != nil || !l.Equals(rr) || !eqRef(cv, l, want) {
				r.Violate("law/distributivity-points/k="+ks[s].name+"/"+cv.name, fmt.Sprintf("k(P+Q) != kP+kQ or differs from the reference (error: %v)", e), rec)
			}
		})

		// --- (k1+k2)P = k1P + k2P on all points x unordered scalar pairs ---
		type sj struct{ i, s1, s2 int }
		var sjobs []sj
		for i := 0; i < n; i++ {
			for s1 := range ks {
				for s2 := s1; s2 < len(ks); s2++ {
					sjobs = append(sjobs, sj{i, s1, s2})
				}
			}
		}
		core.ParallelFor(len(sjobs), workers, func(idx int) {
			i, s1, s2 := sjobs[idx].i, sjobs[idx].s1, sjobs[idx].s2
			ksum := new(big.Int).Add(ks[s1].v, ks[s2].v)
			want := c.Mul(ksum, nps[i].pt)
			if unrepresentable(cv, want) || mul[i][s1] == nil || mul[i][s2] == nil {
				r.Count("arith_skipped_identity", 1)
				return
			}
			ev(r, fmt.Sprintf("law/distributivity-scalars/%s/(%s+%s)*%s", cv.name, ks[s1].name, ks[s2].name, nps[i].name))
			rec := map[string]interface{}{"curve": cv.name, "P": nps[i].name, "k1": ks[s1].v.String(), "k2": ks[s2].v.String(), "k1_class": ks[s1].name, "k2_class": ks[s2].name}
			var l, rr *crypto.ECPoint
			var e error
			if !guard(r, "law/distributivity-scalars/"+cv.name, rec, func() {
				l = lib[i].ScalarMult(ksum)
				rr, e = mul[i][s1].Add(mul[i][s2])
			}) {
				return
			}
			if e != nil || !l.Equals(rr) || !eqRef(cv, l, want) {
				r.Violate("law/distributivity-scalars/"+cv.name, fmt.Sprintf("(k1+k2)P != k1P+k2P or differs from the reference (error: %v)", e), rec)
			}
		})
		// the operand points and scalars were shared by every call above: none of them may have changed
		for i, np := range nps {
			if !eqRef(cv, lib[i], np.pt) {
				r.Violate("purity/operand-point-modified/"+cv.name, "an arithmetic call changed one of its operand points", map[string]interface{}{"point": np.name})
			}
		}
		for si, k := range ks {
			if k.v.Cmp(ksSnap[si]) != 0 {
				r.Violate("purity/operand-scalar-modified/"+cv.name, "an arithmetic call changed its scalar argument", map[string]interface{}{"scalar": k.name})
			}
		}
	}
}

// cofactorCheck: EightInvEight(P+T) = P for prime-order P and every torsion point T (T = neutral gives EightInvEight(P) = P).
func cofactorCheck(r *core.Run, ed *curveCtx) {
	c := ed.rc
	tor := c.TorsionEd()
	// sanity of the reference: 8 distinct points, each killed by 8, orders 1,8,4,8,2,8,4,8
	seen := map[string]bool{}
	for k, t := range tor {
		seen[t.X.String()+","+t.Y.String()] = true
		if !c.OnCurve(t.X, t.Y) || !c.IsNeutral(c.Mul(bi(8), t)) || (k%2 == 1 && c.IsNeutral(c.Mul(bi(4), t))) {
			panic("c17: internal error, reference torsion points wrong")
		}
	}
	if len(tor) != 8 || len(seen) != 8 {
		panic("c17: internal error, reference torsion subgroup does not have 8 elements")
	}
	ks := []namedInt{
		{"0", bi(0)}, {"1", bi(1)}, {"2", bi(2)}, {"3", bi(3)}, {"q-1", new(big.Int).Sub(ed.q, bi(1))},
		{"generic-a", new(big.Int).Mod(generic("c17/cofactor/a", 40), ed.q)},
		{"generic-b", new(big.Int).Mod(generic("c17/cofactor/b", 40), ed.q)},
		{"generic-c", new(big.Int).Mod(generic("c17/cofactor/c", 40), ed.q)},
		{"generic-d", new(big.Int).Mod(generic("c17/cofactor/d", 40), ed.q)},
	}
	if r.Tier == "thorough" {
		for i := 0; i < 8; i++ {
			ks = append(ks, namedInt{fmt.Sprintf("generic-t%d", i), new(big.Int).Mod(generic(fmt.Sprintf("c17/cofactor/t%d", i), 40), ed.q)})
		}
		ks = append(ks, namedInt{"8", bi(8)}, namedInt{"(q+1)/2", new(big.Int).Rsh(new(big.Int).Add(ed.q, bi(1)), 1)})
	}
	r.Set("cofactor_prime_order_points", len(ks))
	type job struct{ k, t int }
	var jobs []job
	for k := range ks {
		for t := range tor {
			jobs = append(jobs, job{k, t})
		}
	}
	orderOf := []string{"1", "8", "4", "8", "2", "8", "4", "8"}
	core.ParallelFor(len(jobs), runtime.NumCPU(), func(idx int) {
		k, t := jobs[idx].k, jobs[idx].t
		P := c.BaseMul(ks[k].v) // prime-order component (neutral for k = 0)
		Q := c.Add(P, tor[t])
		ev(r, fmt.Sprintf("cofactor/EightInvEight/%s*G+T%d", ks[k].name, t))
		rec := map[string]interface{}{"P": ks[k].name + "*G", "P_xy": ptRec(P), "T_index": t, "T_order": orderOf[t], "T_xy": ptRec(tor[t]), "input_xy": ptRec(Q)}
		key := fmt.Sprintf("cofactor/EightInvEight/T-order-%s", orderOf[t])
		in, err := mkPoint(ed, Q)
		if err != nil {
			r.Violate("cofactor/valid-point-refused/T-order-"+orderOf[t], "NewECPoint refuses a point of the curve (prime-order point + torsion point): "+err.Error(), rec)
			return
		}
		var got *crypto.ECPoint
		if !guard(r, key, rec, func() { got = in.EightInvEight() }) {
			return
		}
		if !eqRef(ed, got, P) {
			if got != nil {
				rec["got"] = [2]string{got.X().String(), got.Y().String()}
			}
			what := "EightInvEight(P+T) != P: the small-order component is not removed"
			if t == 0 {
				what = "EightInvEight(P) != P for a prime-order point"
			}
			r.Violate(key, what, rec)
		}
		if k == 5 && (t == 1 || t == 4) {
			r.Sample(16, map[string]interface{}{"what": "EightInvEight(P+T) == P", "case": rec})
		}
	})
}

// identityOverlap: operations whose true result is the identity. On edwards25519 the identity (0,1) is an
// ordinary point and the result must be exact. On secp256k1 ECPoint cannot represent it: an error is a
// refusal (fine); a panic or a wrong point is recorded under c06-overlap/ (C06 owns crashes).
func identityOverlap(r *core.Run, curves []*curveCtx) {
	for _, cv := range curves {
		c := cv.rc
		nps := arithPoints(cv)
		type op struct {
			name string
			run  func() (*crypto.ECPoint, error)
		}
		var ops []op
		for _, k := range []namedInt{{"0", bi(0)}, {"q", new(big.Int).Set(cv.q)}, {"2q", new(big.Int).Lsh(cv.q, 1)}} {
			k := k
			ops = append(ops, op{"ScalarBaseMult/k=" + k.name, func() (*crypto.ECPoint, error) {
				return crypto.ScalarBaseMult(cv.ec, new(big.Int).Set(k.v)), nil
			}})
			for _, i := range []int{0, 4} { // G and a generic prime-order point
				i := i
				ops = append(ops, op{"ScalarMult/k=" + k.name + "/P=" + nps[i].name, func() (*crypto.ECPoint, error) {
					p, err := mkPoint(cv, nps[i].pt)
					if err != nil {
						return nil, err
					}
					return p.ScalarMult(new(big.Int).Set(k.v)), nil
				}})
			}
		}
		for _, i := range []int{0, 4, 7} {
			i := i
			ops = append(ops, op{"Add/P+(-P)/P=" + nps[i].name, func() (*crypto.ECPoint, error) {
				p, err := mkPoint(cv, nps[i].pt)
				if err != nil {
					return nil, err
				}
				m, err := mkPoint(cv, c.Neg(nps[i].pt))
				if err != nil {
					return nil, err
				}
				return p.Add(m)
			}})
		}
		for _, o := range ops {
			o := o
			ev(r, fmt.Sprintf("identity/%s/%s", cv.name, o.name))
			rec := map[string]interface{}{"curve": cv.name, "operation": o.name, "true_result": "identity"}
			prefix := "c06-overlap/identity-result/"
			if c.Edwards {
				prefix = "arith/identity-result/"
			}
			var got *crypto.ECPoint
			var err error
			if !guard(r, prefix+o.name+"/"+cv.name, rec, func() { got, err = o.run() }) {
				r.Distinct("identity-outcomes", cv.name+"/panic")
				continue
			}
			if err != nil {
				r.Distinct("identity-outcomes", cv.name+"/error")
				if c.Edwards {
					rec["error"] = err.Error()
					r.Violate(prefix+o.name+"/error/"+cv.name, "operation whose result is the neutral element (0,1) fails on edwards25519", rec)
				}
				continue // secp256k1: refusing is acceptable
			}
			if c.Edwards && eqRef(cv, got, c.Neutral()) {
				r.Distinct("identity-outcomes", cv.name+"/neutral")
				continue
			}
			r.Distinct("identity-outcomes", cv.name+"/wrong-point")
			if got != nil {
				rec["got"] = [2]string{got.X().String(), got.Y().String()}
			}
			r.Violate(prefix+o.name+"/wrong-point/"+cv.name, "operation whose true result is the identity returns some other point", rec)
		}
	}
}
