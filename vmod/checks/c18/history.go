package c18

import (
	"fmt"

	"github.com/bnb-chain/tss-lib/v2/crypto/ckd"

	"verif/internal/core"
)

// runHistories: one parent OBJECT used for a sequence of operations (derive along a path, serialise the
// derived key, serialise the parent, derive one step). Every result of every sequence must equal the
// reference derivation from the parent's value, and the parent object must keep its value: nothing a caller
// does with one derived key may influence another. Parents are taken both as parsed from their xpub
// string (the slices of a parsed key share one backing array with spare capacity) and as built field by field.
func runHistories(r *core.Run, thorough bool) {
	type op struct {
		name string
		path []uint32
	}
	ops := []op{
		{"derive[0]+String", []uint32{0}},
		{"derive[0/1]+String", []uint32{0, 1}},
		{"derive[1/2147483647/2]+String", []uint32{1, 2147483647, 2}},
		{"parent.String", nil},
		{"step[1]+String", []uint32{1}},
	}
	maxLen := 3
	var seqs [][]int
	var rec func(cur []int)
	rec = func(cur []int) {
		if len(cur) > 0 {
			seqs = append(seqs, append([]int{}, cur...))
		}
		if len(cur) == maxLen {
			return
		}
		for i := range ops {
			rec(append(cur, i))
		}
	}
	rec(nil)
	ps := parents()
	if !thorough && len(ps) > 4 {
		ps = ps[:4]
	}
	for _, p := range ps {
		want0 := p.x.String()
		for _, how := range []string{"parsed-from-xpub", "built-from-fields"} {
			for _, sq := range seqs {
				var parent *ckd.ExtendedKey
				if how == "parsed-from-xpub" {
					k, err, pan := libParse(want0)
					if err != nil || pan != "" {
						break // the parse doors have their own cases
					}
					parent = k
					if dumpLib(parent) != dumpRef(p.x) {
						// the parent has no xpub form of its own (an off-curve key: the string carries x and a parity
						// bit, parsing yields ANOTHER, valid key): this route does not exist for it
						r.Count("history_parents_without_an_xpub_form", 1)
						break
					}
				} else {
					parent = toLib(p.x)
				}
				hist := how
				for _, oi := range sq {
					o := ops[oi]
					hist += " > " + o.name
					r.Count("cases_history_ops", 1)
					rc := caseRec{Parent: p.name, ParentXpub: want0, Path: o.path, Site: "history: " + hist}
					switch {
					case o.path == nil:
						s, pan := libString(parent)
						if pan != "" || s != want0 {
							rc.Got, rc.Want = s+pan, want0
							r.Violate("history/parent-serialisation-changed", "the parent no longer serialises to its own extended key after earlier derivations / serialisations", rc)
						}
					default:
						want := refDerive(p.x, o.path)
						var got libRes
						if o.name[:4] == "step" {
							got = libChild(o.path[0], parent)
						} else {
							got = libHier(o.path, parent)
						}
						if got.panic != "" {
							rc.Got = got.panic
							r.Violate("history/derive:panic", "derivation panicked", rc)
							continue
						}
						if want.err != nil || got.err != nil {
							if (want.err == nil) != (got.err == nil) {
								rc.Got, rc.Want = fmt.Sprint(got.err), fmt.Sprint(want.err)
								r.Violate("history/derive/refusal-differs", "derivation is refused / accepted differently from the reference after earlier operations on the same parent object", rc)
							}
							continue
						}
						s, pan := libString(got.key)
						if pan != "" || s != want.x.String() {
							rc.Got, rc.Want = s+pan, want.x.String()
							r.Violate("history/derived-key-differs", "a key derived from a parent object that was used before differs from BIP32 public derivation", rc)
						}
					}
					if d := dumpLib(parent); d != dumpRef(p.x) {
						rc.Got, rc.Want = d, dumpRef(p.x)
						r.Violate("history/parent-object-changed", "an operation on a derived key changed the parent object", rc)
						break
					}
				}
				r.Count("cases_history", 1)
			}
		}
	}
}
