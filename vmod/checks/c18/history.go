package c18

import (
	"fmt"
	"sync"

	"github.com/bnb-chain/tss-lib/v2/crypto/ckd"

	"verif/internal/core"
)

// runHistories: one parent OBJECT used for a sequence of operations (derive along a path, serialise the
// derived key, serialise the parent, derive one step). Every result of every sequence must equal the
// reference derivation from the parent's value, and the parent object must keep its value: nothing a caller
// does with one derived key may influence another. Parents are taken both as parsed from their xpub
// string (the slices of a parsed key share one backing array with spare capacity) and as built field by field.
func runHistories(r *core.Run, thorough bool) {
	type op struct {
		name string
		path []uint32
	}
	ops := []op{
		{"derive[0]+String", []uint32{0}},
		{"derive[0/1]+String", []uint32{0, 1}},
		{"derive[1/2147483647/2]+String", []uint32{1, 2147483647, 2}},
		{"parent.String", nil},
		{"step[1]+String", []uint32{1}},
	}
	maxLen := 3
	var seqs [][]int
	var rec func(cur []int)
	rec = func(cur []int) {
		if len(cur) > 0 {
			seqs = append(seqs, append([]int{}, cur...))
		}
		if len(cur) == maxLen {
			return
		}
		for i := range ops {
			rec(append(cur, i))
		}
	}
	rec(nil)
	ps := parents()
	if !thorough && len(ps) > 4 {
		ps = ps[:4]
	}
	for _, p := range ps {
		want0 := p.x.String()
		for _, how := range []string{"parsed-from-xpub", "built-from-fields"} {
			for _, sq := range seqs {
				var parent *ckd.ExtendedKey
				if how == "parsed-from-xpub" {
					k, err, pan := libParse(want0)
					if err != nil || pan != "" {
						break // the parse doors have their own cases
					}
					parent = k
					if dumpLib(parent) != dumpRef(p.x) {
						// the parent has no xpub form of its own (an off-curve key: the string carries x and a parity
						// bit, parsing yields ANOTHER, valid key): this route does not exist for it
						r.Count("history_parents_without_an_xpub_form", 1)
						break
					}
				} else {
					parent = toLib(p.x)
				}
				hist := how
				for _, oi := range sq {
					o := ops[oi]
					hist += " > " + o.name
					r.Count("cases_history_ops", 1)
					rc := caseRec{Parent: p.name, ParentXpub: want0, Path: o.path, Site: "history: " + hist}
					switch {
					case o.path == nil:
						s, pan := libString(parent)
						if pan != "" || s != want0 {
							rc.Got, rc.Want = s+pan, want0
							r.Violate("history/parent-serialisation-changed", "the parent no longer serialises to its own extended key after earlier derivations / serialisations", rc)
						}
					default:
						want := refDerive(p.x, o.path)
						var got libRes
						if o.name[:4] == "step" {
							got = libChild(o.path[0], parent)
						} else {
							got = libHier(o.path, parent)
						}
						if got.panic != "" {
							rc.Got = got.panic
							r.Violate("history/derive:panic", "derivation panicked", rc)
							continue
						}
						if want.err != nil || got.err != nil {
							if (want.err == nil) != (got.err == nil) {
								rc.Got, rc.Want = fmt.Sprint(got.err), fmt.Sprint(want.err)
								r.Violate("history/derive/refusal-differs", "derivation is refused / accepted differently from the reference after earlier operations on the same parent object", rc)
							}
							continue
						}
						s, pan := libString(got.key)
						if pan != "" || s != want.x.String() {
							rc.Got, rc.Want = s+pan, want.x.String()
							r.Violate("history/derived-key-differs", "a key derived from a parent object that was used before differs from BIP32 public derivation", rc)
						}
					}
					if d := dumpLib(parent); d != dumpRef(p.x) {
						rc.Got, rc.Want = d, dumpRef(p.x)
						r.Violate("history/parent-object-changed", "an operation on a derived key changed the parent object", rc)
						break
					}
				}
				r.Count("cases_history", 1)
			}
		}
	}
}

// runConcurrent: a supplementary, free-running pass (NOT exhaustive and not the deciding method of this check:
// the derivation functions have no synchronisation points a scheduler could own). Many goroutines derive
// along the same paths from their own parent objects at the same time; derivation is a function of its
// arguments, so every result must equal the reference. A mismatch or panic is a sound finding (state shared
// between calls); silence here proves nothing.
func runConcurrent(r *core.Run) {
	ps := parents()
	if len(ps) == 0 {
		return
	}
	p := ps[0]
	paths := [][]uint32{{0}, {0, 1}, {1, 2147483647, 2}}
	want := make([]string, len(paths))
	for i, pa := range paths {
		w := refDerive(p.x, pa)
		if w.err != nil {
			return
		}
		want[i] = w.x.String()
	}
	const workers, rounds = 16, 300
	var mu sync.Mutex
	bad := ""
	var wg sync.WaitGroup
	for g := 0; g < workers; g++ {
		wg.Add(1)
		go func() {
			defer wg.Done()
			parent := toLib(p.x) // every goroutine has its own parent object
			for k := 0; k < rounds; k++ {
				for i, pa := range paths {
					got := libHier(pa, parent)
					msg := ""
					switch {
					case got.panic != "":
						msg = "panic: " + got.panic
					case got.err != nil:
						msg = "error: " + got.err.Error()
					default:
						if s, pan := libString(got.key); pan != "" || s != want[i] {
							msg = "derived " + s + pan + " want " + want[i]
						}
					}
					if msg != "" {
						mu.Lock()
						if bad == "" {
							bad = fmt.Sprintf("path %s: %s", pathStr(pa), msg)
						}
						mu.Unlock()
						return
					}
				}
			}
		}()
	}
	wg.Wait()
	r.Set("concurrent_pass", fmt.Sprintf("%d goroutines x %d rounds x %d paths (supplementary, free-running)", workers, rounds, len(paths)))
	if bad != "" {
		r.Violate("concurrent/derivation-depends-on-other-goroutines", "derivations running at the same time in several goroutines (each on its own parent object) give a wrong result: "+bad, map[string]string{"parent": p.name, "first": bad})
	}
}
