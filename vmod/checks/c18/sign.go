package c18

import (
	"fmt"
	"math/big"
	"time"

	"github.com/bnb-chain/tss-lib/v2/common"
	eckg "github.com/bnb-chain/tss-lib/v2/ecdsa/keygen"
	"github.com/bnb-chain/tss-lib/v2/ecdsa/signing"
	"github.com/bnb-chain/tss-lib/v2/tss"

	"verif/internal/core"
	"verif/internal/fix"
	"verif/internal/netrun"
	"verif/internal/ref"
	"verif/internal/statehash"
)

const signThreshold = 2

var signPaths = [][]uint32{
	{0},
	{1, hardened - 1},
	{hardened - 1, 0, 1},
}

func allSubsets3of5() [][]int {
	var out [][]int
	for a := 0; a < 5; a++ {
		for b := a + 1; b < 5; b++ {
			for c := b + 1; c < 5; c++ {
				out = append(out, []int{a, b, c})
			}
		}
	}
	return out
}

func hashAll(keys []eckg.LocalPartySaveData, skip ...string) []string {
	out := make([]string, len(keys))
	for i := range keys {
		out[i] = statehash.Hash(&keys[i], skip...)
	}
	return out
}

func sameHashes(a, b []string) bool {
	if len(a) != len(b) {
		return false
	}
	for i := range a {
		if a[i] != b[i] {
			return false
		}
	}
	return true
}

type signRec struct {
	Path       []uint32 `json:"path"`
	Subset     []int    `json:"subset"`
	Step       int      `json:"step"`
	Msg        string   `json:"msg_hex"`
	ChainCode  string   `json:"chain_code_hex"`
	ParentXpub string   `json:"parent_xpub_ref"`
	ChildXpub  string   `json:"child_xpub_ref,omitempty"`
	Delta      string   `json:"delta_hex,omitempty"`
	Detail     string   `json:"detail,omitempty"`
}

type sigOut struct {
	r, s            *big.Int
	child           ref.Point
	ok              bool // a signature was produced
	vChild, vParent bool // it verifies under the child / parent key (first signer's copy)
}

// deriveAndSign is what a caller does for one signature under a child key: fresh copy of the stored key
// data -> derive -> UpdatePublicKeyAndAdjustBigXj on the copy -> signing parties with the offset.
// stored is the caller's long-lived data; it is never handed to the library here.
func deriveAndSign(label string, path []uint32, subset []int, step int, stored []eckg.LocalPartySaveData, storedSnap []string) (fs []finding, out sigOut) {
	c := ref.Secp256k1
	par := mkParent("fixture/cc-generic", "fixture", fixturePoint(), chainCodeGeneric, verXpub, 0, [4]byte{}, 0)
	msg := new(big.Int).Mod(new(big.Int).SetBytes(core.Bytes("c18/msg|"+label, 32)), qS256)
	rec := signRec{Path: path, Subset: subset, Step: step, Msg: msg.Text(16), ChainCode: fmt.Sprintf("%x", chainCodeGeneric), ParentXpub: par.x.String()}
	fail := func(key, what, detail string) {
		rc := rec
		rc.Detail = detail
		fs = append(fs, finding{key, what, rc})
	}
	want := refDerive(par.x, path)
	if want.err != nil {
		infra("signing path %s refused by the reference", pathStr(path))
	}
	rec.ChildXpub = want.x.String()
	out.child = want.x.Key

	// derivation by the library (its offset is what the parties get)
	got := libHier(path, toLib(par.x))
	if got.panic != "" || got.err != nil || got.key == nil || got.delta == nil {
		fail("sign/derive/failed", "derivation for the signing part failed", fmt.Sprint(got.err, got.panic))
		return
	}
	rec.Delta = got.delta.Text(16)

	// fresh deep copy of the stored data for this derivation
	work := fix.EcFixtures()
	keys := make([]eckg.LocalPartySaveData, len(subset))
	for i, s := range subset {
		keys[i] = work[s]
	}
	var uerr error
	upanic := ""
	func() {
		defer func() {
			if x := recover(); x != nil {
				upanic = fmt.Sprint(x)
			}
		}()
		uerr = signing.UpdatePublicKeyAndAdjustBigXj(got.delta, keys, &got.key.PublicKey, tss.S256())
	}()
	if upanic != "" {
		fail("sign/adjust/update:panic", "UpdatePublicKeyAndAdjustBigXj panicked", upanic)
		return
	}
	if uerr != nil {
		fail("sign/adjust/refused", "UpdatePublicKeyAndAdjustBigXj failed for a valid child key and offset", uerr.Error())
		return
	}
	// the adjustment touches the public data only: shares, ids, Paillier/ring-Pedersen material stay
	storedSub := make([]eckg.LocalPartySaveData, len(subset))
	for i, s := range subset {
		storedSub[i] = stored[s]
	}
	if !sameHashes(hashAll(keys, "ECDSAPub", "BigXj"), hashAll(storedSub, "ECDSAPub", "BigXj")) {
		fail("sign/adjust/secret-share-changed", "UpdatePublicKeyAndAdjustBigXj changed key data other than ECDSAPub/BigXj (the stored share x_i must stay)", "")
	}
	before := hashAll(keys)

	nw, err := netrun.New(netrun.Config{Proto: netrun.EcdsaSigning, EcKeys: keys, Threshold: signThreshold, Msg: msg, KDD: got.delta, Label: "c18|" + label})
	if err != nil {
		fail("sign/setup/failed", "cannot build the signing parties", err.Error())
		return
	}
	// what the party constructors were handed (netrun keeps its own copy of the slice and of x_i)
	held := func() []string {
		out := make([]string, len(nw.Nodes))
		for i, n := range nw.Nodes {
			out[i] = statehash.Hash(n.EcKey)
		}
		return out
	}
	heldBefore := held()
	type runRes struct {
		err    *tss.Error
		panics []string
	}
	done := make(chan runRes, 1)
	go func() {
		defer func() {
			if x := recover(); x != nil {
				done <- runRes{panics: []string{fmt.Sprint(x)}}
			}
		}()
		_, e, p := nw.RunFIFO()
		done <- runRes{e, p}
	}()
	var rr runRes
	select {
	case rr = <-done:
	case <-time.After(300 * time.Second):
		fail("sign/run/kdd:hang", "signing with a key derivation offset did not terminate within 300 s", "")
		return
	}
	if len(rr.panics) > 0 {
		fail("sign/run/kdd:panic", "a signing party panicked", fmt.Sprint(rr.panics))
		return
	}
	if rr.err != nil {
		fail("sign/run/error", "signing with the derived offset ended with an error", rr.err.Error())
		return
	}
	for i, n := range nw.Nodes {
		if len(n.Ends) != 1 {
			fail("sign/run/no-signature", "a signer produced no (or more than one) signature", fmt.Sprintf("node %d: %d results", i, len(n.Ends)))
			return
		}
		sd := n.Ends[0].(*common.SignatureData)
		r, s := new(big.Int).SetBytes(sd.R), new(big.Int).SetBytes(sd.S)
		if !ref.EcdsaVerify(c, want.x.Key, msg, r, s) {
			fail("sign/verify/child-key-rejects", "the signature does not verify under the BIP32 child key",
				fmt.Sprintf("node %d r=%s s=%s", i, r.Text(16), s.Text(16)))
		}
		if ref.EcdsaVerify(c, par.x.Key, msg, r, s) {
			fail("sign/verify/parent-key-accepts", "the signature verifies under the parent key",
				fmt.Sprintf("node %d r=%s s=%s", i, r.Text(16), s.Text(16)))
		}
		if i == 0 {
			out.r, out.s = r, s
			out.vChild, out.vParent = ref.EcdsaVerify(c, want.x.Key, msg, r, s), ref.EcdsaVerify(c, par.x.Key, msg, r, s)
		}
	}
	out.ok = true
	// the data handed to the parties (by value) is untouched by signing: x_i in particular
	if !sameHashes(before, hashAll(keys)) || !sameHashes(heldBefore, held()) {
		fail("sign/keydata/changed-by-signing", "the key data handed to NewLocalPartyWithKDD changed during signing", "")
	}
	// the stored data (never passed through the adjustment) is as it was, and equals a fresh load
	if !sameHashes(storedSnap, hashAll(stored)) {
		fail("sign/keydata/stored-changed", "the stored key data changed although only copies were handed to the library", "")
	}
	if !sameHashes(storedSnap, hashAll(fix.EcFixtures())) {
		fail("sign/keydata/fresh-load-differs", "a fresh load of the key files differs from the stored snapshot", "")
	}
	return
}

type signJob struct {
	paths  [][]uint32 // 1 = single run, 2 = sequence derive->sign->derive'->sign
	subset []int
}

type signJobOut struct {
	fs      []finding
	runs    int
	sigs    []string
	sample  interface{}
	elapsed time.Duration
}

func runSignJob(j signJob) (o signJobOut) {
	t0 := time.Now()
	stored := fix.EcFixtures() // the caller's long-lived key data for the whole sequence
	snap := hashAll(stored)
	var outs []sigOut
	var labels []string
	for step, p := range j.paths {
		label := fmt.Sprintf("step=%d|%v|seq=", step, j.subset)
		for _, q := range j.paths {
			label += pathStr(q) + ","
		}
		fs, so := deriveAndSign(label, p, j.subset, step, stored, snap)
		o.fs = append(o.fs, fs...)
		o.runs++
		outs = append(outs, so)
		labels = append(labels, label)
		if so.ok {
			o.sigs = append(o.sigs, so.r.Text(16)+"/"+so.s.Text(16))
		}
	}
	// across the sequence: each signature belongs to its own child key only
	if len(outs) == 2 && outs[0].ok && outs[1].ok && !ref.Secp256k1.Equal(outs[0].child, outs[1].child) {
		c := ref.Secp256k1
		m0 := new(big.Int).Mod(new(big.Int).SetBytes(core.Bytes("c18/msg|"+labels[0], 32)), qS256)
		m1 := new(big.Int).Mod(new(big.Int).SetBytes(core.Bytes("c18/msg|"+labels[1], 32)), qS256)
		if ref.EcdsaVerify(c, outs[0].child, m1, outs[1].r, outs[1].s) || ref.EcdsaVerify(c, outs[1].child, m0, outs[0].r, outs[0].s) {
			o.fs = append(o.fs, finding{"sign/sequence/signature-under-other-child", "a signature of a derive-sign sequence verifies under the other step's child key",
				signRec{Path: j.paths[1], Subset: j.subset, Step: 1, Detail: "first path " + pathStr(j.paths[0])}})
		}
	}
	if len(outs) > 0 && outs[len(outs)-1].ok {
		last := outs[len(outs)-1]
		var ps []string
		for _, p := range j.paths {
			ps = append(ps, pathStr(p))
		}
		o.sample = map[string]interface{}{"kind": "sign", "paths_in_order": ps, "subset": j.subset,
			"child_key_x": last.child.X.Text(16), "r": last.r.Text(16), "s": last.s.Text(16),
			"verifies_under_child": last.vChild, "verifies_under_parent": last.vParent}
	}
	o.elapsed = time.Since(t0)
	return
}

func runSigning(r *core.Run, thorough bool) {
	subsets := allSubsets3of5()
	single := subsets
	seqSubsets := subsets
	if !thorough {
		single = [][]int{subsets[0], subsets[4], subsets[9]} // {0,1,2},{0,2,4},{2,3,4}: every party signs
		seqSubsets = [][]int{subsets[4]}
	}
	var jobs []signJob
	for _, p := range signPaths {
		for _, s := range single {
			jobs = append(jobs, signJob{[][]uint32{p}, s})
		}
	}
	// all ordered pairs (p, p') incl. p = p' : derive -> sign -> derive' -> sign on the same stored data
	for _, s := range seqSubsets {
		for _, p := range signPaths {
			for _, p2 := range signPaths {
				jobs = append(jobs, signJob{[][]uint32{p, p2}, s})
			}
		}
	}
	outs := make([]signJobOut, len(jobs))
	core.ParallelFor(len(jobs), workers(), func(i int) { outs[i] = runSignJob(jobs[i]) })
	nSample := 0
	for i, o := range outs {
		for _, f := range o.fs {
			r.Violate(f.key, f.what, f.record)
		}
		r.Count("cases_signing_runs", int64(o.runs))
		canon := fmt.Sprintf("sign|%v", jobs[i].subset)
		for _, p := range jobs[i].paths {
			canon += "|" + pathStr(p)
		}
		r.Distinct("cases", canon)
		r.Distinct("nontrivial", canon)
		for _, s := range o.sigs {
			r.Distinct("signatures", s)
		}
		if o.sample != nil && nSample < 3 && (i == 0 || len(jobs[i].paths) == 2) {
			nSample++
			r.ForceSample(o.sample)
		}
	}
	r.Set("signing_single_jobs", len(signPaths)*len(single))
	r.Set("signing_sequence_jobs", len(seqSubsets)*len(signPaths)*len(signPaths))
	r.Set("signing_subsets", len(single))

	// observation only (not part of the property): a shallow struct copy of LocalPartySaveData shares the
	// BigXj backing array, so adjusting such a "copy" rewrites the original's BigXj entries.
	func() {
		defer func() { _ = recover() }()
		orig := fix.EcFixtures()[:1]
		h0 := hashAll(orig)
		shallow := []eckg.LocalPartySaveData{orig[0]}
		par := mkParent("fixture/cc-generic", "fixture", fixturePoint(), chainCodeGeneric, verXpub, 0, [4]byte{}, 0)
		got := libHier(signPaths[0], toLib(par.x))
		if got.err == nil && got.key != nil {
			_ = signing.UpdatePublicKeyAndAdjustBigXj(got.delta, shallow, &got.key.PublicKey, tss.S256())
			r.Set("observation_shallow_struct_copy_aliases_BigXj", !sameHashes(h0, hashAll(orig)))
		}
	}()
}
