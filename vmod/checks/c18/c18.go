// Package c18: HD child key derivation matches BIP32 and threshold signatures verify under the child
// key (ENUM + the netrun runner).
//
// Part 1 enumerates parents x paths and compares crypto/ckd with the reference BIP32 public derivation
// of verif/internal/ref (itself cross-checked on every node against btcutil/hdkeychain v1.1.0 and the
// published BIP32 vectors before the library is looked at). Part 2 signs with the vendored 5-party t=2
// key under derived child keys for every enumerated (path, signer subset) and for all two-step
// derive->sign->derive'->sign sequences.
package c18

import (
	"fmt"
	"os"
	"runtime"

	logging "github.com/ipfs/go-log"

	"verif/internal/core"
)

// Implemented reports whether this check is built.
const Implemented = true

// finding is a violation produced by a (parallel) job; findings are reported in job order so that the
// stored counterexample is the first one in enumeration order.
type finding struct {
	key, what string
	record    interface{}
}

func workers() int {
	n := runtime.NumCPU()
	if n > 16 {
		n = 16
	}
	if n < 1 {
		n = 1
	}
	return n
}

func infra(format string, a ...interface{}) {
	fmt.Fprintf(os.Stderr, "C18 INFRASTRUCTURE ERROR (reference model, not the library): "+format+"\n", a...)
	os.Exit(2)
}

func Run(r *core.Run) {
	thorough := r.Tier == "thorough"
	_ = logging.SetLogLevel("tss-lib", "fatal") // the refusals enumerated below are logged as errors by the library

	selfCheckReference(r)
	runVectors(r)
	runDerivation(r, thorough)
	runHistories(r, thorough)
	runConcurrent(r)
	runSigning(r, thorough)

	r.Assume("I_L >= n, I_L = 0 and 'child is the point at infinity' cannot be reached by enumeration (probability <= 2^-127 per step); 'invalid intermediate keys are refused' is covered only by an off-curve parent key")
	r.Assume("signing part uses paths of length >= 1: for the empty path the child key is the parent key, so 'verifies under the child and not under the parent' has no admissible instance")
	r.Assume("each derivation starts from a fresh deep copy (re-parsed key files) of the stored key data, as UpdatePublicKeyAndAdjustBigXj rewrites the slice it is given in place by design")

	ev := int(r.Get("cases_derive_hierarchy") + r.Get("cases_derive_step") + r.Get("cases_refused") +
		r.Get("cases_vector") + r.Get("cases_history_ops") + r.Get("cases_signing_runs") + r.Get("cases_roundtrip"))
	r.Set("evaluations", ev)
	r.Set("distinct_nontrivial", r.NDistinct("nontrivial"))
	r.Set("distinct_child_keys", r.NDistinct("childkeys"))
	r.Set("distinct_signatures", r.NDistinct("signatures"))
	r.Set("rule", "derivation: every (parent, path) with parent in the listed parent set and path in all sequences of length 0..L over {0,1,2^31-1} "+
		"(plus length 5 over {0,1} in thorough), every single-position replacement by 2^31 / 2^32-1, depth parents 253/254/255, an off-curve parent, "+
		"all non-hardened segments of the BIP32 vector chains; histories: every sequence of <= 3 operations (derive along 3 paths and serialise the result, serialise the parent, one derivation step) on ONE parent object, parsed from its xpub or built from fields; signing: paths x (t+1)-subsets and all ordered pairs of paths per subset. "+
		"A case is one canonical string 'kind|parent|path[|subset]'; non-trivial = path length >= 1 (a derivation or refusal actually happened) or a signing run; "+
		"distinct_child_keys counts distinct derived serialised keys (no two cases collapsed)")
}
