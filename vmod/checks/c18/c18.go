// Package c18: check for property C18 (stub until implemented).
package c18

import "verif/internal/core"

// Implemented reports whether this check is built.
const Implemented = false

func Run(r *core.Run) { r.Cap("not implemented") }
