// Golden extended public keys copied verbatim from
// github.com/btcsuite/btcd/btcutil@v1.1.0/hdkeychain/extendedkey_test.go (TestBIP0032Vectors = the vectors
// published in BIP32, mainnet; TestPublicDerivation = btcutil's public-only chains from the same masters).
package c18

// published BIP32 test vector 1 chain: m, m/0H, m/0H/1, m/0H/1/2H, m/0H/1/2H/2, m/0H/1/2H/2/1000000000
var bip32Vec1 = []string{
	"xpub661MyMwAqRbcFtXgS5sYJABqqG9YLmC4Q1Rdap9gSE8NqtwybGhePY2gZ29ESFjqJoCu1Rupje8YtGqsefD265TMg7usUDFdp6W1EGMcet8",
	"xpub68Gmy5EdvgibQVfPdqkBBCHxA5htiqg55crXYuXoQRKfDBFA1WEjWgP6LHhwBZeNK1VTsfTFUHCdrfp1bgwQ9xv5ski8PX9rL2dZXvgGDnw",
	"xpub6ASuArnXKPbfEwhqN6e3mwBcDTgzisQN1wXN9BJcM47sSikHjJf3UFHKkNAWbWMiGj7Wf5uMash7SyYq527Hqck2AxYysAA7xmALppuCkwQ",
	"xpub6D4BDPcP2GT577Vvch3R8wDkScZWzQzMMUm3PWbmWvVJrZwQY4VUNgqFJPMM3No2dFDFGTsxxpG5uJh7n7epu4trkrX7x7DogT5Uv6fcLW5",
	"xpub6FHa3pjLCk84BayeJxFW2SP4XRrFd1JYnxeLeU8EqN3vDfZmbqBqaGJAyiLjTAwm6ZLRQUMv1ZACTj37sR62cfN7fe5JnJ7dh8zL4fiyLHV",
	"xpub6H1LXWLaKsWFhvm6RVpEL9P4KfRZSW7abD2ttkWP3SSQvnyA8FSVqNTEcYFgJS2UaFcxupHiYkro49S8yGasTvXEYBVPamhGW6cFJodrTHy",
}

// published BIP32 test vector 2 chain: m, m/0, m/0/2147483647H, m/0/2147483647H/1, m/0/2147483647H/1/2147483646H, .../2
var bip32Vec2 = []string{
	"xpub661MyMwAqRbcFW31YEwpkMuc5THy2PSt5bDMsktWQcFF8syAmRUapSCGu8ED9W6oDMSgv6Zz8idoc4a6mr8BDzTJY47LJhkJ8UB7WEGuduB",
	"xpub69H7F5d8KSRgmmdJg2KhpAK8SR3DjMwAdkxj3ZuxV27CprR9LgpeyGmXUbC6wb7ERfvrnKZjXoUmmDznezpbZb7ap6r1D3tgFxHmwMkQTPH",
	"xpub6ASAVgeehLbnwdqV6UKMHVzgqAG8Gr6riv3Fxxpj8ksbH9ebxaEyBLZ85ySDhKiLDBrQSARLq1uNRts8RuJiHjaDMBU4Zn9h8LZNnBC5y4a",
	"xpub6DF8uhdarytz3FWdA8TvFSvvAh8dP3283MY7p2V4SeE2wyWmG5mg5EwVvmdMVCQcoNJxGoWaU9DCWh89LojfZ537wTfunKau47EL2dhHKon",
	"xpub6ERApfZwUNrhLCkDtcHTcxd75RbzS1ed54G1LkBUHQVHQKqhMkhgbmJbZRkrgZw4koxb5JaHWkY4ALHY2grBGRjaDMzQLcgJvLJuZZvRcEL",
	"xpub6FnCn6nSzZAw5Tw7cgR9bi15UV96gLZhjDstkXXxvCLsUXBGXPdSnLFbdpq8p9HmGsApME5hQTZ3emM2rnY5agb9rXpVGyy3bdW6EEgAtqt",
}

// btcutil public chain 1: M, M/0, M/0/1, M/0/1/2, M/0/1/2/2, M/0/1/2/2/1000000000 (M = vector 1 master)
var pubChain1 = []string{
	"xpub661MyMwAqRbcFtXgS5sYJABqqG9YLmC4Q1Rdap9gSE8NqtwybGhePY2gZ29ESFjqJoCu1Rupje8YtGqsefD265TMg7usUDFdp6W1EGMcet8",
	"xpub68Gmy5EVb2BdFbj2LpWrk1M7obNuaPTpT5oh9QCCo5sRfqSHVYWex97WpDZzszdzHzxXDAzPLVSwybe4uPYkSk4G3gnrPqqkV9RyNzAcNJ1",
	"xpub6AvUGrnEpfvJBbfx7sQ89Q8hEMPM65UteqEX4yUbUiES2jHfjexmfJoxCGSwFMZiPBaKQT1RiKWrKfuDV4vpgVs4Xn8PpPTR2i79rwHd4Zr",
	"xpub6BqyndF6rhZqmgktFCBcapkwubGxPqoAZtQaYewJHXVKZcLdnqBVC8N6f6FSHWUghjuTLeubWyQWfJdk2G3tGgvgj3qngo4vLTnnSjAZckv",
	"xpub6FHUhLbYYkgFQiFrDiXRfQFXBB2msCxKTsNyAExi6keFxQ8sHfwpogY3p3s1ePSpUqLNYks5T6a3JqpCGszt4kxbyq7tUoFP5c8KWyiDtPp",
	"xpub6GX3zWVgSgPc5tgjE6ogT9nfwSADD3tdsxpzd7jJoJMqSY12Be6VQEFwDCp6wAQoZsH2iq5nNocHEaVDxBcobPrkZCjYW3QUmoDYzMFBDu9",
}

// btcutil public chain 2: M, M/0, M/0/2147483647, M/0/2147483647/1, M/0/2147483647/1/2147483646, .../2 (M = vector 2 master)
var pubChain2 = []string{
	"xpub661MyMwAqRbcFW31YEwpkMuc5THy2PSt5bDMsktWQcFF8syAmRUapSCGu8ED9W6oDMSgv6Zz8idoc4a6mr8BDzTJY47LJhkJ8UB7WEGuduB",
	"xpub69H7F5d8KSRgmmdJg2KhpAK8SR3DjMwAdkxj3ZuxV27CprR9LgpeyGmXUbC6wb7ERfvrnKZjXoUmmDznezpbZb7ap6r1D3tgFxHmwMkQTPH",
	"xpub6ASAVgeWMg4pmutghzHG3BohahjwNwPmy2DgM6W9wGegtPrvNgjBwuZRD7hSDFhYfunq8vDgwG4ah1gVzZysgp3UsKz7VNjCnSUJJ5T4fdD",
	"xpub6CrnV7NzJy4VdgP5niTpqWJiFXMAca6qBm5Hfsry77SQmN1HGYHnjsZSujoHzdxf7ZNK5UVrmDXFPiEW2ecwHGWMFGUxPC9ARipss9rXd4b",
	"xpub6FL2423qFaWzHCvBndkN9cbkn5cysiUeFq4eb9t9kE88jcmY63tNuLNRzpHPdAM4dUpLhZ7aUm2cJ5zF7KYonf4jAPfRqTMTRBNkQL3Tfta",
	"xpub6H7WkJf547AiSwAbX6xsm8Bmq9M9P1Gjequ5SipsjipWmtXSyp4C3uwzewedGEgAMsDy4jEvNTWtxLyqqHY9C12gaBmgUdk2CGmwachwnWK",
}
