package main

import (
	"fmt"
	"math/big"

	"verif/internal/fix"
	"verif/internal/netrun"
	"verif/internal/statehash"
)

func main() {
	w := fix.EcFixtures()
	keys := w[:3]
	h0 := statehash.Hash(&keys[0])
	x0 := new(big.Int).Set(keys[0].Xi)
	nw, err := netrun.New(netrun.Config{Proto: netrun.EcdsaSigning, EcKeys: keys, Threshold: 2, Msg: big.NewInt(42), KDD: big.NewInt(5), Label: "dbg"})
	if err != nil {
		panic(err)
	}
	_, e, p := nw.RunFIFO()
	fmt.Println(e, p, len(nw.Nodes[0].Ends))
	fmt.Println(x0.Cmp(keys[0].Xi), h0 == statehash.Hash(&keys[0]))
}
