package c18

import (
	"bytes"
	"crypto/ecdsa"
	"fmt"
	"math/big"
	"strings"
	"sync"

	"github.com/bnb-chain/tss-lib/v2/crypto/ckd"
	"github.com/bnb-chain/tss-lib/v2/tss"
	"github.com/btcsuite/btcd/btcutil/hdkeychain"

	"verif/internal/core"
	"verif/internal/fix"
	"verif/internal/ref"
)

const hardened = uint32(0x80000000)

var (
	verXpub = [4]byte{0x04, 0x88, 0xB2, 0x1E}
	verTpub = [4]byte{0x04, 0x35, 0x87, 0xCF}
	verXprv = [4]byte{0x04, 0x88, 0xAD, 0xE4} // what signing.derivingPubkeyFromPath hands in
	qS256   = ref.Secp256k1.N
)

// ---------- paths ----------

func pathStr(p []uint32) string {
	if len(p) == 0 {
		return "m"
	}
	var sb strings.Builder
	sb.WriteString("m")
	for _, i := range p {
		fmt.Fprintf(&sb, "/%d", i)
	}
	return sb.String()
}

// allPaths: every sequence over alpha of length lo..hi, shortest first, alphabet order.
func allPaths(alpha []uint32, lo, hi int) [][]uint32 {
	var out [][]uint32
	prev := [][]uint32{{}}
	if lo == 0 {
		out = append(out, []uint32{})
	}
	for l := 1; l <= hi; l++ {
		var cur [][]uint32
		for _, p := range prev {
			for _, a := range alpha {
				cur = append(cur, append(append([]uint32{}, p...), a))
			}
		}
		if l >= lo {
			out = append(out, cur...)
		}
		prev = cur
	}
	return out
}

func validPaths(thorough bool) [][]uint32 {
	alpha := []uint32{0, 1, hardened - 1}
	if !thorough {
		return allPaths(alpha, 0, 3)
	}
	out := allPaths(alpha, 0, 4)
	return append(out, allPaths([]uint32{0, 1}, 5, 5)...)
}

// hardenedPaths: every valid path of length >= 1 with exactly one position replaced by 2^31 or 2^32-1.
func hardenedPaths(valid [][]uint32) [][]uint32 {
	var out [][]uint32
	seen := map[string]bool{}
	for _, p := range valid {
		for pos := range p {
			for _, h := range []uint32{hardened, 0xFFFFFFFF} {
				q := append([]uint32{}, p...)
				q[pos] = h
				k := pathStr(q)
				if !seen[k] {
					seen[k] = true
					out = append(out, q)
				}
			}
		}
	}
	return out
}

// ---------- parents ----------

type parent struct {
	name  string
	class string // fixture | vector | shortx | depth | offcurve
	x     *ref.XPub
}

func mkParent(name, class string, key ref.Point, cc []byte, ver [4]byte, depth byte, fp [4]byte, childNum uint32) parent {
	x := &ref.XPub{Version: ver, Depth: depth, ParentFP: fp, ChildNum: childNum, Key: key}
	copy(x.ChainCode[:], cc)
	return parent{name: name, class: class, x: x}
}

func fixturePoint() ref.Point {
	k := fix.EcFixtures()[0]
	return ref.Point{X: new(big.Int).Set(k.ECDSAPub.X()), Y: new(big.Int).Set(k.ECDSAPub.Y())}
}

// shortXPoint: k*G for the smallest k >= 1 whose x coordinate needs fewer than 32 bytes (exercises padding).
func shortXPoint() (ref.Point, int) {
	c := ref.Secp256k1
	lim := new(big.Int).Lsh(big.NewInt(1), 248)
	p := c.G()
	for k := 1; k < 100000; k++ {
		if p.X.Cmp(lim) < 0 {
			return p, k
		}
		p = c.Add(p, c.G())
	}
	infra("no short-x multiple of G found")
	return ref.Point{}, 0
}

var chainCodeGeneric = core.Bytes("c18/chaincode/generic", 32)

func parents() []parent {
	zero := make([]byte, 32)
	ff := bytes.Repeat([]byte{0xff}, 32)
	fp0 := [4]byte{}
	gk := fixturePoint()
	ps := []parent{
		mkParent("fixture/cc-zero", "fixture", gk, zero, verXpub, 0, fp0, 0),
		mkParent("fixture/cc-generic", "fixture", gk, chainCodeGeneric, verXpub, 0, fp0, 0),
		mkParent("fixture/cc-ff", "fixture", gk, ff, verXpub, 0, fp0, 0),
		mkParent("fixture/cc-generic/tpub", "fixture", gk, chainCodeGeneric, verTpub, 0, fp0, 0),
		mkParent("fixture/cc-generic/xprv-version", "fixture", gk, chainCodeGeneric, verXprv, 0, fp0, 0),
	}
	for vi, chain := range [][]string{bip32Vec1, bip32Vec2} {
		for ni, s := range chain {
			x, err := ref.ParseXPub(s)
			if err != nil {
				infra("cannot parse vector %d node %d", vi+1, ni)
			}
			ps = append(ps, parent{name: fmt.Sprintf("bip32-vec%d/node%d", vi+1, ni), class: "vector", x: x})
		}
	}
	sx, _ := shortXPoint()
	ps = append(ps, mkParent("shortx/cc-generic", "shortx", sx, chainCodeGeneric, verXpub, 0, fp0, 0))
	var fpg [4]byte
	copy(fpg[:], core.Bytes("c18/parentfp/generic", 4))
	for _, d := range []byte{253, 254, 255} {
		ps = append(ps, mkParent(fmt.Sprintf("fixture/depth-%d", d), "depth", gk, chainCodeGeneric, verXpub, d, fpg, 7))
	}
	// a parent whose key is not a curve point: every derivation of length >= 1 must be refused
	off := ref.Point{X: new(big.Int).Set(ref.Secp256k1.Gx), Y: new(big.Int).Add(ref.Secp256k1.Gy, big.NewInt(1))}
	ps = append(ps, mkParent("offcurve/G.y+1", "offcurve", off, chainCodeGeneric, verXpub, 0, fp0, 0))
	return ps
}

// ---------- reference tree ----------

type refNode struct {
	x     *ref.XPub // nil if refused
	delta *big.Int  // sum of I_L mod q from the parent
	il    *big.Int  // I_L of the last step
	err   error
}

var refMemo sync.Map // "serialised parent|path" -> refNode (the reference tree of every parent, shared by all cases)

func refDerive(p *ref.XPub, path []uint32) refNode {
	if len(path) == 0 {
		return refNode{x: p, delta: big.NewInt(0)}
	}
	key := string(p.Serialize()) + "|" + pathStr(path)
	if v, ok := refMemo.Load(key); ok {
		return v.(refNode)
	}
	pre := refDerive(p, path[:len(path)-1])
	var out refNode
	if pre.err != nil {
		out = refNode{err: pre.err}
	} else if c, l, err := pre.x.Child(path[len(path)-1]); err != nil {
		out = refNode{err: err}
	} else {
		out = refNode{x: c, il: l, delta: new(big.Int).Mod(new(big.Int).Add(pre.delta, l), qS256)}
	}
	refMemo.Store(key, out)
	return out
}

// hdk converts a reference node into an hdkeychain key (for the cross-check of the reference only).
func hdk(x *ref.XPub) *hdkeychain.ExtendedKey {
	return hdkeychain.NewExtendedKey(x.Version[:], ref.SecCompress(x.Key), x.ChainCode[:], x.ParentFP[:], x.Depth, x.ChildNum, false)
}

// crossCheckStep: reference CKDpub against hdkeychain.Derive on one edge. Any disagreement is an error
// of the harness, never of the library.
func crossCheckStep(p *ref.XPub, i uint32) {
	c, _, err := p.Child(i)
	if err == ref.ErrBip32Parent {
		return // hdkeychain parses lazily; an off-curve parent is not a BIP32 node at all
	}
	hc, herr := hdk(p).Derive(i)
	if (err != nil) != (herr != nil) {
		infra("ref/hdkeychain disagree on refusal: parent %s index %d: ref=%v hdkeychain=%v", p.String(), i, err, herr)
	}
	if err == nil && hc.String() != c.String() {
		infra("ref/hdkeychain disagree: parent %s index %d: ref=%s hdkeychain=%s", p.String(), i, c.String(), hc.String())
	}
}

// ---------- library wrappers (panics recovered) ----------

type libRes struct {
	delta *big.Int
	key   *ckd.ExtendedKey
	err   error
	panic string
}

func toLib(x *ref.XPub) *ckd.ExtendedKey {
	return &ckd.ExtendedKey{
		PublicKey:  ecdsa.PublicKey{Curve: tss.S256(), X: new(big.Int).Set(x.Key.X), Y: new(big.Int).Set(x.Key.Y)},
		Depth:      x.Depth,
		ChildIndex: x.ChildNum,
		ChainCode:  append([]byte{}, x.ChainCode[:]...),
		ParentFP:   append([]byte{}, x.ParentFP[:]...),
		Version:    append([]byte{}, x.Version[:]...),
	}
}

func libHier(path []uint32, pk *ckd.ExtendedKey) (res libRes) {
	defer func() {
		if x := recover(); x != nil {
			res.panic = fmt.Sprint(x)
		}
	}()
	res.delta, res.key, res.err = ckd.DeriveChildKeyFromHierarchy(path, pk, new(big.Int).Set(qS256), tss.S256())
	return
}

func libChild(i uint32, pk *ckd.ExtendedKey) (res libRes) {
	defer func() {
		if x := recover(); x != nil {
			res.panic = fmt.Sprint(x)
		}
	}()
	res.delta, res.key, res.err = ckd.DeriveChildKey(i, pk, tss.S256())
	return
}

func libString(k *ckd.ExtendedKey) (s string, pan string) {
	defer func() {
		if x := recover(); x != nil {
			pan = fmt.Sprint(x)
		}
	}()
	return k.String(), ""
}

func libParse(s string) (k *ckd.ExtendedKey, err error, pan string) {
	defer func() {
		if x := recover(); x != nil {
			pan = fmt.Sprint(x)
		}
	}()
	k, err = ckd.NewExtendedKeyFromString(s, tss.S256())
	return
}

// ---------- comparison ----------

type caseRec struct {
	Parent     string   `json:"parent"`
	ParentXpub string   `json:"parent_xpub_ref"`
	Path       []uint32 `json:"path"`
	Site       string   `json:"site"`
	Got        string   `json:"got,omitempty"`
	Want       string   `json:"want,omitempty"`
}

func dumpLib(k *ckd.ExtendedKey) string {
	if k == nil {
		return "<nil>"
	}
	xs, ys := "<nil>", "<nil>"
	if k.X != nil {
		xs = k.X.Text(16)
	}
	if k.Y != nil {
		ys = k.Y.Text(16)
	}
	return fmt.Sprintf("ver=%x depth=%d fp=%x idx=%d cc=%x X=%s Y=%s", k.Version, k.Depth, k.ParentFP, k.ChildIndex, k.ChainCode, xs, ys)
}

func dumpRef(x *ref.XPub) string {
	return fmt.Sprintf("ver=%x depth=%d fp=%x idx=%d cc=%x X=%s Y=%s", x.Version, x.Depth, x.ParentFP, x.ChildNum, x.ChainCode, x.Key.X.Text(16), x.Key.Y.Text(16))
}

// compareNode compares a library node with the reference node field by field; area is the key prefix
// ("derive" or "roundtrip"), site names the API the node came from.
func compareNode(area, site string, got *ckd.ExtendedKey, want *ref.XPub, rec caseRec) (fs []finding) {
	add := func(field string) {
		rc := rec
		rc.Got, rc.Want = dumpLib(got), dumpRef(want)
		fs = append(fs, finding{fmt.Sprintf("%s/%s/mismatch@%s", area, field, site),
			fmt.Sprintf("%s of the %s result differs from BIP32 public derivation (parent %s, path %s)", field, site, rec.Parent, pathStr(rec.Path)), rc})
	}
	if got == nil {
		add("key-nil")
		return
	}
	if got.X == nil || got.Y == nil || got.X.Cmp(want.Key.X) != 0 || got.Y.Cmp(want.Key.Y) != 0 {
		add("public-key")
	}
	if !bytes.Equal(got.ChainCode, want.ChainCode[:]) {
		add("chain-code")
	}
	if got.Depth != want.Depth {
		add("depth")
	}
	if got.ChildIndex != want.ChildNum {
		add("child-index")
	}
	if !bytes.Equal(got.ParentFP, want.ParentFP[:]) {
		add("fingerprint")
	}
	if !bytes.Equal(got.Version, want.Version[:]) {
		add("version")
	}
	return
}

// checkSerialisation: String() against the reference serialisation, and NewExtendedKeyFromString on
// the BIP32 string.
func checkSerialisation(site string, got *ckd.ExtendedKey, want *ref.XPub, rec caseRec) (fs []finding) {
	ws := want.String()
	if got != nil && got.X != nil && got.Y != nil {
		s, pan := libString(got)
		switch {
		case pan != "":
			rc := rec
			rc.Got = pan
			fs = append(fs, finding{"derive/string/" + site + ":panic", "ExtendedKey.String panicked on a derived key", rc})
		case s != ws:
			rc := rec
			rc.Got, rc.Want = s, ws
			fs = append(fs, finding{"derive/string/mismatch@" + site,
				fmt.Sprintf("String() of the derived key is not the BIP32 serialisation (parent %s, path %s)", rec.Parent, pathStr(rec.Path)), rc})
		}
	}
	k2, err, pan := libParse(ws)
	switch {
	case pan != "":
		rc := rec
		rc.Got, rc.Want = pan, ws
		fs = append(fs, finding{"roundtrip/parse/" + site + ":panic", "NewExtendedKeyFromString panicked on a BIP32 extended public key", rc})
	case err != nil:
		rc := rec
		rc.Got, rc.Want = err.Error(), ws
		fs = append(fs, finding{"roundtrip/parse/refused@" + site, "NewExtendedKeyFromString refused a valid BIP32 extended public key", rc})
	default:
		fs = append(fs, compareNode("roundtrip", site, k2, want, rec)...)
		if k2 != nil && k2.X != nil && k2.Y != nil {
			s2, pan2 := libString(k2)
			if pan2 != "" || s2 != ws {
				rc := rec
				rc.Got, rc.Want = s2+pan2, ws
				fs = append(fs, finding{"roundtrip/string/mismatch@" + site, "String(NewExtendedKeyFromString(s)) != s for a BIP32 extended public key", rc})
			}
		}
	}
	return
}

// checkOffset: child = parent + delta*G (reference arithmetic) and delta = sum of I_L mod q.
func checkOffset(site string, parentKey ref.Point, got libRes, want refNode, rec caseRec) (fs []finding) {
	c := ref.Secp256k1
	if got.delta == nil {
		rc := rec
		fs = append(fs, finding{"derive/offset/nil@" + site, "no offset returned with a successful derivation", rc})
		return
	}
	if got.key != nil && got.key.X != nil && got.key.Y != nil {
		sum := c.Add(parentKey, c.BaseMul(new(big.Int).Mod(got.delta, qS256)))
		if sum.Inf || sum.X.Cmp(got.key.X) != 0 || sum.Y.Cmp(got.key.Y) != 0 {
			rc := rec
			rc.Got = "delta=" + got.delta.Text(16) + " child=" + dumpLib(got.key)
			fs = append(fs, finding{"derive/offset/child-not-parent-plus-offset@" + site,
				fmt.Sprintf("returned child != parent + offset*G (parent %s, path %s)", rec.Parent, pathStr(rec.Path)), rc})
		}
	}
	if new(big.Int).Mod(got.delta, qS256).Cmp(want.delta) != 0 {
		rc := rec
		rc.Got, rc.Want = got.delta.Text(16), want.delta.Text(16)
		fs = append(fs, finding{"derive/offset/sum-mismatch@" + site,
			fmt.Sprintf("returned offset is not the sum of I_L modulo q along the path (parent %s, path %s)", rec.Parent, pathStr(rec.Path)), rc})
	}
	return
}

func refusalClass(p parent, path []uint32, err error) string {
	switch err {
	case ref.ErrBip32Hardened:
		for _, i := range path {
			if i == 0xFFFFFFFF {
				return "hardened-2^32-1"
			}
		}
		return "hardened-2^31"
	case ref.ErrBip32Depth:
		return "depth-overflow"
	case ref.ErrBip32Parent:
		return "off-curve-parent"
	}
	return "invalid-child"
}

// ---------- one (parent, path) case ----------

type caseOut struct {
	fs        []finding
	canon     string
	childStr  string
	refused   bool
	nontriv   bool
	stepDone  bool
	sample    interface{}
	roundtrip int
}

func deriveCase(p parent, path []uint32) (out caseOut) {
	rec := caseRec{Parent: p.name, ParentXpub: p.x.String(), Path: path, Site: "hierarchy"}
	out.canon = "derive|" + p.name + "|" + pathStr(path)
	out.nontriv = len(path) >= 1
	want := refDerive(p.x, path)

	// reference cross-check against hdkeychain on the last edge (all prefixes are cases of their own)
	if len(path) >= 1 {
		if pre := refDerive(p.x, path[:len(path)-1]); pre.err == nil {
			crossCheckStep(pre.x, path[len(path)-1])
		}
	}

	got := libHier(path, toLib(p.x))
	if got.panic != "" {
		rec.Got = got.panic
		out.fs = append(out.fs, finding{"derive/call/hierarchy:panic", "DeriveChildKeyFromHierarchy panicked", rec})
		return
	}
	if want.err != nil {
		out.refused = true
		if got.err == nil {
			cls := refusalClass(p, path, want.err)
			rec.Got = dumpLib(got.key)
			rec.Want = want.err.Error()
			out.fs = append(out.fs, finding{"derive/" + cls + "/accepted@hierarchy",
				fmt.Sprintf("derivation that BIP32 refuses (%s) succeeded (parent %s, path %s)", cls, p.name, pathStr(path)), rec})
		}
		return
	}
	if got.err != nil {
		rec.Got = got.err.Error()
		rec.Want = want.x.String()
		out.fs = append(out.fs, finding{"derive/valid-path/refused@hierarchy",
			fmt.Sprintf("valid non-hardened derivation was refused (parent %s, path %s)", p.name, pathStr(path)), rec})
		return
	}
	out.childStr = want.x.String()
	out.fs = append(out.fs, compareNode("derive", "hierarchy", got.key, want.x, rec)...)
	out.fs = append(out.fs, checkSerialisation("hierarchy", got.key, want.x, rec)...)
	out.roundtrip = 1
	out.fs = append(out.fs, checkOffset("hierarchy", p.x.Key, got, want, rec)...)

	// single step from the reference node of the prefix
	if len(path) >= 1 {
		pre := refDerive(p.x, path[:len(path)-1])
		last := path[len(path)-1]
		srec := rec
		srec.Site = "step"
		st := libChild(last, toLib(pre.x))
		out.stepDone = true
		switch {
		case st.panic != "":
			srec.Got = st.panic
			out.fs = append(out.fs, finding{"derive/call/step:panic", "DeriveChildKey panicked", srec})
		case st.err != nil:
			srec.Got = st.err.Error()
			out.fs = append(out.fs, finding{"derive/valid-path/refused@step", "DeriveChildKey refused a valid non-hardened index", srec})
		default:
			out.fs = append(out.fs, compareNode("derive", "step", st.key, want.x, srec)...)
			out.fs = append(out.fs, checkOffset("step", pre.x.Key, st, refNode{delta: want.il}, srec)...)
		}
	}
	out.sample = map[string]interface{}{
		"kind": "derive", "parent": p.name, "parent_xpub": rec.ParentXpub, "path": pathStr(path),
		"child_xpub_ref": out.childStr, "offset_ref": want.delta.Text(16),
		"lib_child": dumpLib(got.key), "lib_offset": got.delta.Text(16),
	}
	return
}

func runDerivation(r *core.Run, thorough bool) {
	ps := parents()
	valid := validPaths(thorough)
	hard := hardenedPaths(valid)
	type job struct {
		p    parent
		path []uint32
	}
	var jobs []job
	for _, p := range ps {
		for _, pa := range valid {
			if p.class == "offcurve" && len(pa) == 0 {
				continue // not a BIP32 node: there is nothing to compare the untouched parent with
			}
			jobs = append(jobs, job{p, pa})
		}
	}
	for _, p := range ps {
		for _, pa := range hard {
			jobs = append(jobs, job{p, pa})
		}
	}
	outs := make([]caseOut, len(jobs))
	core.ParallelFor(len(jobs), workers(), func(i int) { outs[i] = deriveCase(jobs[i].p, jobs[i].path) })

	samples := map[string]int{}
	for i, o := range outs {
		for _, f := range o.fs {
			r.Violate(f.key, f.what, f.record)
		}
		r.Distinct("cases", o.canon)
		if o.nontriv {
			r.Distinct("nontrivial", o.canon)
		}
		if o.refused {
			r.Count("cases_refused", 1)
			r.Distinct("refusal_classes", jobs[i].p.class+"|"+fmt.Sprint(len(jobs[i].path)))
		} else {
			r.Count("cases_derive_hierarchy", 1)
		}
		if o.stepDone {
			r.Count("cases_derive_step", 1)
		}
		r.Count("cases_roundtrip", int64(o.roundtrip))
		if o.childStr != "" {
			r.Distinct("childkeys", o.childStr)
		}
		// written-out examples: one per parent class at the longest path length
		if o.sample != nil && len(jobs[i].path) == 3 && samples[jobs[i].p.class] == 0 {
			samples[jobs[i].p.class]++
			r.Sample(12, o.sample)
		}
	}
	r.Set("parents", len(ps))
	r.Set("paths_valid", len(valid))
	r.Set("paths_with_one_hardened_index", len(hard))
	var names []string
	for _, p := range ps {
		names = append(names, p.name)
	}
	r.Set("parent_list", names)
	_, k := shortXPoint()
	r.Set("shortx_parent_multiple_of_G", k)
}

// ---------- reference self-check and published vectors ----------

type chain struct {
	name  string
	nodes []string
	steps []uint32 // steps[i] leads from nodes[i] to nodes[i+1]
}

func chains() []chain {
	H := hardened
	return []chain{
		{"bip32-vec1", bip32Vec1, []uint32{H + 0, 1, H + 2, 2, 1000000000}},
		{"bip32-vec2", bip32Vec2, []uint32{0, H + 2147483647, 1, H + 2147483646, 2}},
		{"btcutil-pub1", pubChain1, []uint32{0, 1, 2, 2, 1000000000}},
		{"btcutil-pub2", pubChain2, []uint32{0, 2147483647, 1, 2147483646, 2}},
	}
}

// segments: all (i<j) with only non-hardened steps between node i and node j.
func (c chain) segments() (out [][2]int) {
	for i := 0; i < len(c.nodes); i++ {
		for j := i + 1; j < len(c.nodes); j++ {
			if c.steps[j-1] >= hardened {
				break
			}
			out = append(out, [2]int{i, j})
		}
	}
	return
}

// selfCheckReference validates the reference (not the library): golden strings parse and re-serialise,
// depth/child number are those of the chain, every non-hardened segment derives the golden child, and
// hdkeychain agrees. Exit 2 on any disagreement.
func selfCheckReference(r *core.Run) {
	n := 0
	for _, c := range chains() {
		for i, s := range c.nodes {
			x, err := ref.ParseXPub(s)
			if err != nil {
				infra("%s node %d does not parse", c.name, i)
			}
			if x.String() != s {
				infra("%s node %d: reference re-serialisation differs", c.name, i)
			}
			if int(x.Depth) != i || (i > 0 && x.ChildNum != c.steps[i-1]) || x.Version != verXpub {
				infra("%s node %d: depth/child number/version differ from the chain", c.name, i)
			}
			hk, err := hdkeychain.NewKeyFromString(s)
			if err != nil || hk.String() != s {
				infra("%s node %d: hdkeychain does not round-trip the golden string", c.name, i)
			}
			if i > 0 {
				// fingerprint of the golden parent
				px, _ := ref.ParseXPub(c.nodes[i-1])
				if px.Fingerprint() != x.ParentFP {
					infra("%s node %d: reference fingerprint of the parent differs from the golden child's parent fingerprint", c.name, i)
				}
			}
			n++
		}
		for _, sg := range c.segments() {
			px, _ := ref.ParseXPub(c.nodes[sg[0]])
			got := refDerive(px, c.steps[sg[0]:sg[1]])
			if got.err != nil || got.x.String() != c.nodes[sg[1]] {
				infra("%s: reference derivation %d->%d does not give the golden key", c.name, sg[0], sg[1])
			}
			if !ref.Secp256k1.Equal(got.x.Key, ref.Secp256k1.Add(px.Key, ref.Secp256k1.BaseMul(got.delta))) {
				infra("%s: reference offset inconsistent", c.name)
			}
			n++
		}
		for i, st := range c.steps {
			if st >= hardened {
				px, _ := ref.ParseXPub(c.nodes[i])
				if _, _, err := px.Child(st); err != ref.ErrBip32Hardened {
					infra("%s: reference accepted a hardened step", c.name)
				}
				crossCheckStep(px, st)
				n++
			}
		}
	}
	// base58 edge: leading zero bytes
	for _, b := range [][]byte{{}, {0}, {0, 0, 1}, {0xff}, core.Bytes("c18/b58", 40)} {
		d, ok := ref.Base58Decode(ref.Base58Encode(b))
		if !ok || !bytes.Equal(d, b) {
			infra("base58 round trip failed for %x", b)
		}
		n++
	}
	r.Set("reference_selfcheck_cases", n)
}

// runVectors: the library on the golden chains.
func runVectors(r *core.Run) {
	for _, c := range chains() {
		// every node: parse + String round trip and fields
		for i, s := range c.nodes {
			want, _ := ref.ParseXPub(s)
			rec := caseRec{Parent: fmt.Sprintf("%s/node%d", c.name, i), ParentXpub: s, Site: "vector"}
			for _, f := range checkSerialisation("vector", nil, want, rec) {
				r.Violate(f.key, f.what, f.record)
			}
			r.Count("cases_vector", 1)
			r.Distinct("cases", "vector-node|"+c.name+"|"+fmt.Sprint(i))
		}
		for _, sg := range c.segments() {
			path := c.steps[sg[0]:sg[1]]
			parentS, childS := c.nodes[sg[0]], c.nodes[sg[1]]
			want, _ := ref.ParseXPub(childS)
			px, _ := ref.ParseXPub(parentS)
			rec := caseRec{Parent: fmt.Sprintf("%s/node%d", c.name, sg[0]), ParentXpub: parentS, Path: path, Site: "vector", Want: childS}
			canon := fmt.Sprintf("vector|%s|%d|%s", c.name, sg[0], pathStr(path))
			r.Distinct("cases", canon)
			r.Distinct("nontrivial", canon)
			r.Count("cases_vector", 1)
			pk, err, pan := libParse(parentS)
			if pan != "" || err != nil || pk == nil {
				rec.Got = fmt.Sprint(err, pan)
				r.Violate("vector/parse/refused", "NewExtendedKeyFromString failed on a published extended public key", rec)
				continue
			}
			got := libHier(path, pk)
			if got.panic != "" {
				rec.Got = got.panic
				r.Violate("vector/call/hierarchy:panic", "DeriveChildKeyFromHierarchy panicked on a published vector", rec)
				continue
			}
			if got.err != nil {
				rec.Got = got.err.Error()
				r.Violate("vector/valid-path/refused", "a published non-hardened derivation was refused", rec)
				continue
			}
			s, pan := libString(got.key)
			if pan != "" || s != childS {
				rc := rec
				rc.Got = s + pan
				r.Violate("vector/string/mismatch", fmt.Sprintf("derived key string differs from the published vector (%s node %d path %s)", c.name, sg[0], pathStr(path)), rc)
			}
			for _, f := range compareNode("vector", "hierarchy", got.key, want, rec) {
				r.Violate(f.key, f.what, f.record)
			}
			for _, f := range checkOffset("vector", px.Key, got, refDerive(px, path), rec) {
				r.Violate(f.key, f.what, f.record)
			}
			r.Distinct("childkeys", childS)
			if c.name == "bip32-vec2" && sg[0] == 0 {
				r.Sample(12, map[string]interface{}{"kind": "published-vector", "chain": c.name, "parent_xpub": parentS, "path": pathStr(path),
					"want_child_xpub": childS, "lib_child_xpub": s, "lib_offset": got.delta.Text(16)})
			}
		}
		// hardened steps of the published chains must be refused from the public node
		for i, st := range c.steps {
			if st < hardened {
				continue
			}
			rec := caseRec{Parent: fmt.Sprintf("%s/node%d", c.name, i), ParentXpub: c.nodes[i], Path: []uint32{st}, Site: "vector"}
			canon := fmt.Sprintf("vector-hardened|%s|%d", c.name, i)
			r.Distinct("cases", canon)
			r.Distinct("nontrivial", canon)
			r.Count("cases_vector", 1)
			pk, err, pan := libParse(c.nodes[i])
			if pan != "" || err != nil || pk == nil {
				continue // reported above
			}
			got := libChild(st, pk)
			if got.panic != "" {
				rec.Got = got.panic
				r.Violate("vector/call/step:panic", "DeriveChildKey panicked", rec)
			} else if got.err == nil {
				rec.Got = dumpLib(got.key)
				r.Violate("vector/hardened-step/accepted", "a hardened step of a published chain was derived from the public node", rec)
			}
		}
	}
}
