package c12

// Challenge sensitivity (black box): the prover is run twice with the SAME randomness (identical
// deterministic reader) and exactly one public input changed — a statement component or the
// session. All first-move commitments that do not involve the changed input are then identical, so if
// the Fiat-Shamir challenge did not depend on the changed input the challenge-dependent responses
// would be identical too. Equal responses therefore mean: this input is not bound into the challenge,
// i.e. a proof can be moved to another statement/session. (For the deterministic Paillier key proof
// the same is asked of the proof values directly.)

import (
	"fmt"
	"math/big"

	"github.com/bnb-chain/tss-lib/v2/common"
	"github.com/bnb-chain/tss-lib/v2/crypto"
	"github.com/bnb-chain/tss-lib/v2/crypto/dlnproof"
	"github.com/bnb-chain/tss-lib/v2/crypto/facproof"
	"github.com/bnb-chain/tss-lib/v2/crypto/mta"
	"github.com/bnb-chain/tss-lib/v2/crypto/schnorr"
	"github.com/bnb-chain/tss-lib/v2/tss"

	"verif/checks/c10"
	"verif/internal/core"
)

func sameInts(a, b []*big.Int) bool {
	if len(a) != len(b) {
		return false
	}
	for i := range a {
		if a[i].Cmp(b[i]) != 0 {
			return false
		}
	}
	return true
}

func runSensitivity(r *core.Run) {
	ps := c10.LoadParams()
	p0, p1 := ps[0], ps[1]
	sess := []byte("session-A|0")
	sess2 := []byte("session-A|1")
	one := big.NewInt(1)
	report := func(system, input string, equal bool) {
		r.Count("sensitivity_cases", 1)
		r.Distinct("cases", "sensitivity|"+system+"|"+input)
		if equal {
			r.Violate("sensitivity/"+system+"/"+input+"/not-bound-into-challenge", "running the "+system+" prover twice with the same randomness and a different "+input+" gives identical challenge-dependent responses: "+input+" is not bound into the Fiat-Shamir challenge", map[string]string{"system": system, "input": input})
		}
	}
	// ---- Schnorr / Schnorr-V (both curves) ----
	for _, cv := range []struct{ name string }{{"secp256k1"}, {"ed25519"}} {
		ec := tss.S256()
		if cv.name == "ed25519" {
			ec = tss.Edwards()
		}
		q := ec.Params().N
		x := c10.Generic("sens-x-"+cv.name, q)
		X := crypto.ScalarBaseMult(ec, x)
		X2 := crypto.ScalarBaseMult(ec, new(big.Int).Add(x, one))
		mk := func(s []byte, st *crypto.ECPoint) []*big.Int {
			pf, err := schnorr.NewZKProof(s, x, st, core.NewDRBG("sens-schnorr-"+cv.name))
			if err != nil {
				return nil
			}
			return []*big.Int{pf.T}
		}
		base := mk(sess, X)
		report("schnorr("+cv.name+")", "statement X", sameInts(base, mk(sess, X2)))
		report("schnorr("+cv.name+")", "session", sameInts(base, mk(sess2, X)))
		// Schnorr-V: V = s*R + l*G
		R := crypto.ScalarBaseMult(ec, c10.Generic("sens-R-"+cv.name, q))
		R2 := crypto.ScalarBaseMult(ec, c10.Generic("sens-R2-"+cv.name, q))
		s, l := c10.Generic("sens-s-"+cv.name, q), c10.Generic("sens-l-"+cv.name, q)
		V, _ := R.ScalarMult(s).Add(crypto.ScalarBaseMult(ec, l))
		V2, _ := V.Add(crypto.ScalarBaseMult(ec, one))
		mkv := func(sn []byte, v, rr *crypto.ECPoint) []*big.Int {
			pf, err := schnorr.NewZKVProof(sn, v, rr, s, l, core.NewDRBG("sens-schnorrv-"+cv.name))
			if err != nil {
				return nil
			}
			return []*big.Int{pf.T, pf.U}
		}
		bv := mkv(sess, V, R)
		report("schnorr-v("+cv.name+")", "statement V", sameInts(bv, mkv(sess, V2, R)))
		report("schnorr-v("+cv.name+")", "session", sameInts(bv, mkv(sess2, V, R)))
		_ = R2 // changing R changes the commitment alpha = a*R + b*G as well, so it is not a clean probe
	}
	// ---- dln (statement: h1, h2, N) ----
	{
		h1, h2, x := c10.DLNStatement(p0, 0)
		mk := func(a, b *big.Int) []*big.Int {
			pf := dlnproof.NewDLNProof(a, b, x, p0.P, p0.Q, p0.NTilde, core.NewDRBG("sens-dln"))
			return pf.T[:]
		}
		base := mk(h1, h2)
		// h2 only enters the challenge (alpha_i = h1^a_i, t_i = a_i + c_i x): a clean probe
		report("dln", "statement h2", sameInts(base, mk(h1, new(big.Int).Mod(new(big.Int).Mul(h2, h2), p0.NTilde))))
	}
	// ---- fac (session, NCap/s/t enter commitments too: probe the session and N0 only through the session) ----
	{
		ec := tss.S256()
		mk := func(sn []byte) []*big.Int {
			pf, err := facproof.NewProof(sn, ec, p0.SK.N, p1.NTilde, p1.H1, p1.H2, p0.SK.P, p0.SK.Q, core.NewDRBG("sens-fac"))
			if err != nil {
				return nil
			}
			return []*big.Int{pf.Z1, pf.Z2, pf.W1, pf.W2, pf.V}
		}
		report("fac", "session", sameInts(mk(sess), mk(sess2)))
	}
	// ---- range-Alice (statement: ciphertext c) ----
	{
		ec := tss.S256()
		q := ec.Params().N
		m := c10.Generic("sens-range-m", q)
		c, rnd, err := p0.PK.EncryptAndReturnRandomness(core.NewDRBG("sens-range-enc"), m)
		if err == nil {
			c2 := new(big.Int).Mod(new(big.Int).Mul(c, c), p0.PK.NSquare())
			mk := func(ct *big.Int) []*big.Int {
				pf, err := mta.ProveRangeAlice(ec, p0.PK, ct, p1.NTilde, p1.H1, p1.H2, m, rnd, core.NewDRBG("sens-range"))
				if err != nil {
					return nil
				}
				return []*big.Int{pf.S, pf.S1, pf.S2}
			}
			report("range-alice", "statement c", sameInts(mk(c), mk(c2)))
		}
	}
	// ---- Bob / Bob-WC (statement: c1, c2, X; session) ----
	{
		ec := tss.S256()
		q := ec.Params().N
		x, y := c10.Generic("sens-bob-x", q), c10.Generic("sens-bob-y", c10.Q5(ec))
		a := c10.Generic("sens-bob-a", q)
		c1, _, err1 := p0.PK.EncryptAndReturnRandomness(core.NewDRBG("sens-bob-enc1"), a)
		cy, rr, err2 := p0.PK.EncryptAndReturnRandomness(core.NewDRBG("sens-bob-enc2"), y)
		if err1 == nil && err2 == nil {
			cx, _ := p0.PK.HomoMult(x, c1)
			c2, _ := p0.PK.HomoAdd(cx, cy)
			X := crypto.ScalarBaseMult(ec, x)
			X2 := crypto.ScalarBaseMult(ec, new(big.Int).Add(x, one))
			c1b := new(big.Int).Mod(new(big.Int).Mul(c1, c1), p0.PK.NSquare())
			c2b := new(big.Int).Mod(new(big.Int).Mul(c2, c2), p0.PK.NSquare())
			mkwc := func(sn []byte, k1, k2 *big.Int, pt *crypto.ECPoint) []*big.Int {
				pf, err := mta.ProveBobWC(sn, ec, p0.PK, p1.NTilde, p1.H1, p1.H2, k1, k2, x, y, rr, pt, core.NewDRBG("sens-bobwc"))
				if err != nil {
					return nil
				}
				return []*big.Int{pf.S, pf.S1, pf.S2, pf.T1, pf.T2}
			}
			b := mkwc(sess, c1, c2, X)
			report("bob-wc", "statement X (public point)", sameInts(b, mkwc(sess, c1, c2, X2)))
			report("bob-wc", "statement c2", sameInts(b, mkwc(sess, c1, c2b, X)))
			report("bob-wc", "session", sameInts(b, mkwc(sess2, c1, c2, X)))
			mkb := func(sn []byte, k1, k2 *big.Int) []*big.Int {
				pf, err := mta.ProveBob(sn, ec, p0.PK, p1.NTilde, p1.H1, p1.H2, k1, k2, x, y, rr, core.NewDRBG("sens-bob"))
				if err != nil {
					return nil
				}
				return []*big.Int{pf.S, pf.S1, pf.S2, pf.T1, pf.T2}
			}
			bb := mkb(sess, c1, c2)
			report("bob", "statement c2", sameInts(bb, mkb(sess, c1, c2b)))
			report("bob", "session", sameInts(bb, mkb(sess2, c1, c2)))
			_ = c1b // c1 enters the commitment v = c1^alpha ... as well: not a clean probe
		}
	}
	// ---- Paillier key proof: deterministic in (N, k, pub); another prover id / key must give another proof ----
	{
		k := p0.Key
		base := p0.SK.Proof(k, p0.Pub)
		variants := map[string]*big.Int{
			"k+1":      new(big.Int).Add(k, one),
			"k+2^64":   new(big.Int).Add(k, new(big.Int).Lsh(one, 64)),
			"k+2^128":  new(big.Int).Add(k, new(big.Int).Lsh(one, 128)),
			"k xor 2^200": new(big.Int).Xor(k, new(big.Int).Lsh(one, 200)),
			"k mod 2^64": new(big.Int).And(k, new(big.Int).Sub(new(big.Int).Lsh(one, 64), one)),
		}
		for name, kv := range variants {
			if kv.Cmp(k) == 0 {
				continue
			}
			pf := p0.SK.Proof(kv, p0.Pub)
			eq := true
			for i := range pf {
				if pf[i].Cmp(base[i]) != 0 {
					eq = false
				}
			}
			report("paillier-key-proof", "prover id "+name, eq)
			// and the verifier must reject the original proof under the other id
			ok, err := base.Verify(p0.SK.N, kv, p0.Pub)
			r.Count("sensitivity_cases", 1)
			if err == nil && ok {
				r.Violate("sensitivity/paillier-key-proof/prover id "+name+"/accepted-for-other-id", "a Paillier key proof made for party id k verifies for the different id "+name, nil)
			}
		}
		pub2, _ := p0.Pub.Add(crypto.ScalarBaseMult(tss.S256(), one))
		pf := p0.SK.Proof(k, pub2)
		eq := true
		for i := range pf {
			if pf[i].Cmp(base[i]) != 0 {
				eq = false
			}
		}
		report("paillier-key-proof", "group public key", eq)
	}
	_ = common.SHA512_256i
	_ = fmt.Sprint
}
