package c12

import (
	"fmt"
	"math/big"

	"github.com/bnb-chain/tss-lib/v2/common"
	"github.com/bnb-chain/tss-lib/v2/crypto"
	"github.com/bnb-chain/tss-lib/v2/crypto/mta"
	"github.com/bnb-chain/tss-lib/v2/crypto/paillier"
	"github.com/bnb-chain/tss-lib/v2/tss"

	"verif/checks/c10"
	"verif/internal/core"
)

func mtaSystems(tier string, ps []c10.Params, ssid []byte) []*sysInst {
	var out []*sysInst
	pairs := c10.Pairs("quick", false)
	if tier == "thorough" {
		pairs = [][2]int{{0, 1}, {1, 2}, {2, 3}, {3, 4}, {4, 0}}
	}
	for _, pr := range pairs {
		third := ps[(pr[0]+2)%len(ps)]
		if third.Idx == pr[1] {
			third = ps[(pr[0]+3)%len(ps)]
		}
		out = append(out, rangeSystem(ps[pr[0]], ps[pr[1]], third))
	}
	for _, p := range ps {
		other := ps[(p.Idx+1)%len(ps)]
		out = append(out, bobSystem(p, other, ssid, false), bobSystem(p, other, ssid, true))
	}
	return out
}

func invm(a, m *big.Int) *big.Int { return new(big.Int).ModInverse(a, m) }

// exactDiv returns (a-b)/d when it is an integer in [0,q), else nil.
func exactDiv(a, b, d, q *big.Int) *big.Int {
	if d.Sign() == 0 {
		return nil
	}
	quo, rem := new(big.Int).QuoRem(new(big.Int).Sub(a, b), d, new(big.Int))
	if rem.Sign() != 0 || quo.Sign() < 0 || quo.Cmp(q) >= 0 {
		return nil
	}
	return quo
}

// ---------------------------------------------------------------- Alice's range proof

func rangeSystem(prover, verifier, third c10.Params) *sysInst {
	ec := tss.S256()
	q := ec.Params().N
	q3 := muli(q, muli(q, q))
	N, N2 := prover.SK.N, prover.PK.NSquare()
	Gam := prover.PK.Gamma()
	NT, h1, h2 := verifier.NTilde, verifier.H1, verifier.H2
	m := c10.Generic("c12/range/m", q)
	label := fmt.Sprintf("c12/range/%d/%d", prover.Idx, verifier.Idx)
	rc, err := c10.BuildRange(prover, verifier, ec, m, label)
	if err != nil {
		panic(err)
	}
	pf := rc.Pf
	otherC, err := prover.PK.Encrypt(core.NewDRBG(label+"/other-c"), c10.Generic("c12/range/m-other", q))
	if err != nil {
		panic(err)
	}
	s := &sysInst{name: "range", where: fmt.Sprintf("prover=%d,verifier=%d", prover.Idx, verifier.Idx),
		pNames: c10.RangeNames, sNames: []string{"N", "NTilde", "h1", "h2", "c"},
		pEq:    []*big.Int{nil, nil, nil, nil, nil, verifier.PQ},
		pBound: []*big.Int{NT, N2, NT, N, q3, muli(q3, NT)},
		sOther: []*big.Int{third.SK.N, third.NTilde, third.H1, third.H2, otherC},
		base:   &tr{proof: c10.RangeFlat(pf), stmt: []*big.Int{N, NT, h1, h2, rc.C}},
		idx:    seq(6),
	}
	s.verify = func(t *tr) bool {
		p, err := mta.RangeProofAliceFromBytes(c10.EncAll(t.proof))
		if err != nil {
			return false
		}
		return p.Verify(ec, &paillier.PublicKey{N: t.stmt[0]}, t.stmt[1], t.stmt[2], t.stmt[3], t.stmt[4])
	}
	const (
		iZ, iU, iW, iS, iS1, iS2 = 0, 1, 2, 3, 4, 5
	)
	s.consistent = func(t *tr, e *big.Int) bool {
		return safely(func() bool {
			p := t.proof
			n, nt, hh1, hh2, c := t.stmt[0], t.stmt[1], t.stmt[2], t.stmt[3], t.stmt[4]
			n2 := muli(n, n)
			if p[iS1].Cmp(q3) > 0 || p[iS1].Cmp(q) < 0 || p[iS2].Cmp(q) < 0 {
				return false
			}
			r := mulm(expm(addi(n, big1), p[iS1], n2), expm(p[iS], n, n2), n2)
			r = mulm(r, expm(invm(c, n2), e, n2), n2)
			if r.Cmp(p[iU]) != 0 {
				return false
			}
			w := mulm(expm(hh1, p[iS1], nt), expm(hh2, p[iS2], nt), nt)
			w = mulm(w, expm(invm(p[iZ], nt), e, nt), nt)
			return w.Cmp(p[iW]) == 0
		})
	}
	eHash := modq(common.SHA512_256i(N, Gam, rc.C, pf.Z, pf.U, pf.W), q)
	eRec := exactDiv(pf.S1, c10.RangeFirstMask(ec, label), m, q)
	es := dedupe(eRec, eHash)
	s.shifts = func() []shiftCase {
		var out []shiftCase
		b := c10.GenericUnit("c12/range/b", N)
		bN := expm(b, N, N2)
		for _, d := range shiftDs("range", q) {
			h1d, h2d, gd := expm(h1, d.V, NT), expm(h2, d.V, NT), expm(Gam, d.V, N2)
			mk := func(name string, e *big.Int, f func(t *tr)) {
				t := s.base.clone()
				f(t)
				out = append(out, shiftCase{name + "/" + d.Name, t, e})
			}
			e0 := es[0]
			mk("W*h2^d,S2+d", e0, func(t *tr) { p := t.proof; p[iW], p[iS2] = mulm(p[iW], h2d, NT), addi(p[iS2], d.V) })
			mk("U*Gamma^d,W*h1^d,S1+d", e0, func(t *tr) {
				p := t.proof
				p[iU], p[iW], p[iS1] = mulm(p[iU], gd, N2), mulm(p[iW], h1d, NT), addi(p[iS1], d.V)
			})
			for ci, e := range es {
				tag := ""
				if ci > 0 {
					tag = "/hash-challenge"
				}
				ed := muli(e, d.V)
				mk("Z*h2^d,S2+e*d"+tag, e, func(t *tr) { p := t.proof; p[iZ], p[iS2] = mulm(p[iZ], h2d, NT), addi(p[iS2], ed) })
				mk("c*Gamma^d,Z*h1^d,S1+e*d"+tag, e, func(t *tr) {
					p := t.proof
					t.stmt[4] = mulm(t.stmt[4], gd, N2)
					p[iZ], p[iS1] = mulm(p[iZ], h1d, NT), addi(p[iS1], ed)
				})
			}
		}
		out = append(out, func() shiftCase {
			t := s.base.clone()
			t.proof[iU], t.proof[iS] = mulm(t.proof[iU], bN, N2), mulm(t.proof[iS], b, N)
			return shiftCase{"U*b^N,S*b", t, es[0]}
		}())
		for ci, e := range es {
			tag := ""
			if ci > 0 {
				tag = "/hash-challenge"
			}
			t := s.base.clone()
			t.stmt[4] = mulm(t.stmt[4], bN, N2)
			t.proof[iS] = mulm(t.proof[iS], expm(b, e, N), N)
			out = append(out, shiftCase{"c*b^N,S*b^e" + tag, t, e})
		}
		return out
	}
	return s
}

// ---------------------------------------------------------------- Bob's proofs

func bobSystem(p, other c10.Params, ssid []byte, wc bool) *sysInst {
	ec := tss.S256()
	q := ec.Params().N
	fp := ec.Params().P
	q3 := muli(q, muli(q, q))
	q7 := muli(muli(q3, q3), q)
	N, N2 := p.SK.N, p.PK.NSquare()
	Gam := p.PK.Gamma()
	NT, h1, h2 := p.NTilde, p.H1, p.H2
	x := c10.Generic("c12/bob/x", q)
	y := c10.Generic("c12/bob/y", c10.Q5(ec))
	name := "bob"
	if wc {
		name = "bobwc"
	}
	label := fmt.Sprintf("c12/%s/%d", name, p.Idx)
	sess := baseSession(ssid)
	bc, err := c10.BuildBob(p, p, ec, sess, x, y, wc, label)
	if err != nil {
		panic(err)
	}
	otherC1, _ := p.PK.Encrypt(core.NewDRBG(label+"/other-c1"), c10.Generic("c12/bob/a-other", q))
	otherC2, _ := p.PK.Encrypt(core.NewDRBG(label+"/other-c2"), c10.Generic("c12/bob/b-other", q))
	qnt := muli(q3, NT)
	s := &sysInst{name: name, where: fmt.Sprintf("set=%d", p.Idx), hasSession: true, ssid: ssid,
		pNames: c10.BobNames, sNames: []string{"N", "NTilde", "h1", "h2", "c1", "c2"},
		pEq:    []*big.Int{nil, nil, nil, nil, nil, nil, nil, p.PQ, nil, p.PQ},
		pBound: []*big.Int{NT, NT, NT, N2, NT, N, q3, qnt, q7, qnt},
		sOther: []*big.Int{other.SK.N, other.NTilde, other.H1, other.H2, otherC1, otherC2},
		base:   &tr{proof: c10.BobFlat(bc.Pf), stmt: []*big.Int{N, NT, h1, h2, bc.C1, bc.C2}, session: sess},
		idx:    seq(10),
	}
	if wc {
		oX := c10.MulG(ec, c10.Generic("c12/bob/x-other", q))
		s.pNames = c10.BobWCNames
		s.sNames = append(s.sNames, "Xx", "Xy")
		s.pEq = append(s.pEq, nil, nil)
		s.pBound = append(s.pBound, fp, fp)
		s.sOther = append(s.sOther, oX.X(), oX.Y())
		s.base.proof = c10.BobWCFlat(bc.PfWC)
		s.base.stmt = append(s.base.stmt, bc.X.X(), bc.X.Y())
		s.idx = seq(12)
		s.points = []pointRef{{"U", false, 10, ec}, {"X", true, 6, ec}}
	}
	s.verify = func(t *tr) bool {
		pk := &paillier.PublicKey{N: t.stmt[0]}
		if !wc {
			pf, err := mta.ProofBobFromBytes(c10.EncAll(t.proof))
			if err != nil {
				return false
			}
			return pf.Verify(t.session, ec, pk, t.stmt[1], t.stmt[2], t.stmt[3], t.stmt[4], t.stmt[5])
		}
		pf, err := mta.ProofBobWCFromBytes(ec, c10.EncAll(t.proof))
		if err != nil {
			return false
		}
		X, err := crypto.NewECPoint(ec, t.stmt[6], t.stmt[7])
		if err != nil {
			return false
		}
		return pf.Verify(t.session, ec, pk, t.stmt[1], t.stmt[2], t.stmt[3], t.stmt[4], t.stmt[5], X)
	}
	const (
		iZ, iZP, iT, iV, iW, iS, iS1, iS2, iT1, iT2, iUX = 0, 1, 2, 3, 4, 5, 6, 7, 8, 9, 10
		sC1, sC2, sX                                     = 4, 5, 6
	)
	s.consistent = func(t *tr, e *big.Int) bool {
		return safely(func() bool {
			pr := t.proof
			n, nt, hh1, hh2, c1, c2 := t.stmt[0], t.stmt[1], t.stmt[2], t.stmt[3], t.stmt[4], t.stmt[5]
			n2 := muli(n, n)
			for _, i := range []int{iS1, iS2, iT1, iT2} {
				if pr[i].Cmp(q) < 0 {
					return false
				}
			}
			if pr[iS1].Cmp(q3) > 0 || pr[iT1].Cmp(q7) > 0 {
				return false
			}
			if wc {
				U := crypto.NewECPointNoCurveCheck(ec, pr[iUX], pr[iUX+1])
				X := crypto.NewECPointNoCurveCheck(ec, t.stmt[sX], t.stmt[sX+1])
				if !U.IsOnCurve() || !X.IsOnCurve() || !samePoint(c10.MulG(ec, pr[iS1]), c10.AddP(c10.MulP(X, e), U)) {
					return false
				}
			}
			if mulm(expm(hh1, pr[iS1], nt), expm(hh2, pr[iS2], nt), nt).Cmp(mulm(expm(pr[iZ], e, nt), pr[iZP], nt)) != 0 {
				return false
			}
			if mulm(expm(hh1, pr[iT1], nt), expm(hh2, pr[iT2], nt), nt).Cmp(mulm(expm(pr[iT], e, nt), pr[iW], nt)) != 0 {
				return false
			}
			l := mulm(mulm(expm(c1, pr[iS1], n2), expm(pr[iS], n, n2), n2), expm(addi(n, big1), pr[iT1], n2), n2)
			return l.Cmp(mulm(expm(c2, e, n2), pr[iV], n2)) == 0
		})
	}
	pf := bc.Pf
	var eHash *big.Int
	if wc {
		U := bc.PfWC.U
		eHash = modq(common.SHA512_256i_TAGGED(sess, N, Gam, bc.X.X(), bc.X.Y(), bc.C1, bc.C2, U.X(), U.Y(), pf.Z, pf.ZPrm, pf.T, pf.V, pf.W), q)
	} else {
		eHash = modq(common.SHA512_256i_TAGGED(sess, N, Gam, bc.C1, bc.C2, pf.Z, pf.ZPrm, pf.T, pf.V, pf.W), q)
	}
	eRec := exactDiv(pf.S1, c10.BobFirstMask(ec, label), x, q)
	es := dedupe(eRec, eHash)
	s.shifts = func() []shiftCase {
		var out []shiftCase
		b := c10.GenericUnit("c12/bob/b", N)
		bN := expm(b, N, N2)
		mk := func(name string, e *big.Int, f func(t *tr)) {
			t := s.base.clone()
			f(t)
			out = append(out, shiftCase{name, t, e})
		}
		shiftPt := func(t *tr, ref pointRef, k *big.Int) { // point += k*G
			setPoint(t, ref, c10.AddP(getPoint(t, ref), c10.MulG(ec, modq(k, q))))
		}
		for _, d := range shiftDs("bob", q) {
			dn := "/" + d.Name
			h1d, h2d, gd := expm(h1, d.V, NT), expm(h2, d.V, NT), expm(Gam, d.V, N2)
			c1d := expm(bc.C1, d.V, N2)
			e0 := es[0]
			mk("ZPrm*h2^d,S2+d"+dn, e0, func(t *tr) { p := t.proof; p[iZP], p[iS2] = mulm(p[iZP], h2d, NT), addi(p[iS2], d.V) })
			mk("W*h2^d,T2+d"+dn, e0, func(t *tr) { p := t.proof; p[iW], p[iT2] = mulm(p[iW], h2d, NT), addi(p[iT2], d.V) })
			mk("W*h1^d,V*Gamma^d,T1+d"+dn, e0, func(t *tr) {
				p := t.proof
				p[iW], p[iV], p[iT1] = mulm(p[iW], h1d, NT), mulm(p[iV], gd, N2), addi(p[iT1], d.V)
			})
			mk("ZPrm*h1^d,V*c1^d,(U+dG),S1+d"+dn, e0, func(t *tr) {
				p := t.proof
				p[iZP], p[iV], p[iS1] = mulm(p[iZP], h1d, NT), mulm(p[iV], c1d, N2), addi(p[iS1], d.V)
				if wc {
					shiftPt(t, s.points[0], d.V)
				}
			})
			for ci, e := range es {
				tag := dn
				if ci > 0 {
					tag += "/hash-challenge"
				}
				ed := muli(e, d.V)
				mk("Z*h2^d,S2+e*d"+tag, e, func(t *tr) { p := t.proof; p[iZ], p[iS2] = mulm(p[iZ], h2d, NT), addi(p[iS2], ed) })
				mk("T*h2^d,T2+e*d"+tag, e, func(t *tr) { p := t.proof; p[iT], p[iT2] = mulm(p[iT], h2d, NT), addi(p[iT2], ed) })
				mk("c2*Gamma^d,T*h1^d,T1+e*d"+tag, e, func(t *tr) {
					p := t.proof
					t.stmt[sC2] = mulm(t.stmt[sC2], gd, N2)
					p[iT], p[iT1] = mulm(p[iT], h1d, NT), addi(p[iT1], ed)
				})
				mk("c2*c1^d,Z*h1^d,(X+dG),S1+e*d"+tag, e, func(t *tr) {
					p := t.proof
					t.stmt[sC2] = mulm(t.stmt[sC2], c1d, N2)
					p[iZ], p[iS1] = mulm(p[iZ], h1d, NT), addi(p[iS1], ed)
					if wc {
						shiftPt(t, s.points[1], d.V)
					}
				})
				if wc {
					mk("X+dG,U-e*d*G"+tag, e, func(t *tr) {
						shiftPt(t, s.points[1], d.V)
						shiftPt(t, s.points[0], new(big.Int).Neg(ed))
					})
				}
			}
		}
		mk("V*b^N,S*b", es[0], func(t *tr) { p := t.proof; p[iV], p[iS] = mulm(p[iV], bN, N2), mulm(p[iS], b, N) })
		for ci, e := range es {
			tag := ""
			if ci > 0 {
				tag = "/hash-challenge"
			}
			mk("c2*b^N,S*b^e"+tag, e, func(t *tr) {
				t.stmt[sC2] = mulm(t.stmt[sC2], bN, N2)
				t.proof[iS] = mulm(t.proof[iS], expm(b, e, N), N)
			})
		}
		return out
	}
	return s
}
