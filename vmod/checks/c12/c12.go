// Package c12: check for property C12 (stub until implemented).
package c12

import "verif/internal/core"

// Implemented reports whether this check is built.
const Implemented = false

func Run(r *core.Run) { r.Cap("not implemented") }
