// Package c12: proofs are bound to session, statement, prover; not malleable (ENUM).
//
// For one accepted proof per proof system and parameter set the check enumerates transcript
// transformations (single-component perturbations at every index, replaced statement components,
// session variants, commitment/response shifts that satisfy every verification equation under the
// original challenge) and requires the library's verifier to reject every one of them.
// Oracle: "accepted" is the only alarm; perturbations that give a value equivalent in the component's
// group are skipped (counted), a panic inside a verifier is recorded under the c06-overlap/ prefix.
package c12

import (
	"crypto/elliptic"
	"fmt"
	"math/big"
	"regexp"
	"runtime"
	"sync"
	"sync/atomic"

	"github.com/bnb-chain/tss-lib/v2/crypto"
	"github.com/bnb-chain/tss-lib/v2/tss"

	"verif/checks/c10"
	"verif/internal/core"
)

// Implemented reports whether this check is built.
const Implemented = true

var (
	big0 = big.NewInt(0)
	big1 = big.NewInt(1)
	big2 = big.NewInt(2)
)

// tr is a flat transcript: proof parts in wire order, statement components, session.
type tr struct {
	proof   []*big.Int
	stmt    []*big.Int
	session []byte
}

func (t *tr) clone() *tr {
	n := &tr{proof: make([]*big.Int, len(t.proof)), stmt: make([]*big.Int, len(t.stmt)), session: append([]byte{}, t.session...)}
	for i, v := range t.proof {
		n.proof[i] = new(big.Int).Set(v)
	}
	for i, v := range t.stmt {
		n.stmt[i] = new(big.Int).Set(v)
	}
	return n
}

// pointRef names an elliptic-curve point stored as two consecutive components.
type pointRef struct {
	name   string
	inStmt bool
	xi     int
	ec     elliptic.Curve
}

type shiftCase struct {
	name string
	t    *tr
	e    *big.Int // the challenge under which the shifted transcript satisfies every equation
}

type sysInst struct {
	name, where string
	hasSession  bool
	pNames      []string
	sNames      []string
	pEq         []*big.Int       // equivalence modulus of each proof component (nil: equality of integers)
	pBound      []*big.Int       // bound below which the generic replacement is drawn
	pGen        map[int]*big.Int // explicit generic replacement for a component (overrides pBound)
	sOther      []*big.Int       // "other party's value" for each statement component (nil: none)
	base        *tr
	verify      func(*tr) bool // wire parse + library Verify; a parse error is a rejection
	idx         []int          // proof component indices to perturb in this tier
	points      []pointRef
	shifts      func() []shiftCase
	consistent  func(t *tr, e *big.Int) bool // reference: all verification equations hold under challenge e
	ssid        []byte
	extra       func(c *checker, s *sysInst) // system specific informational probes
}

type checker struct {
	r     *core.Run
	jobs  []func()
	evals int64
}

var idxRe = regexp.MustCompile(`\[\d+\]`)

func keyName(n string) string { return idxRe.ReplaceAllString(n, "[i]") }

func hx(v *big.Int) string {
	if v == nil {
		return "nil"
	}
	return v.Text(16)
}

// try runs the verifier on one transformed transcript.
func (c *checker) try(s *sysInst, kind, comp, pert string, t *tr, rec map[string]interface{}) {
	c.tryPre(s, kind, comp, pert, t, rec, nil)
}

// tryPre: pre (optional) decides inside the job whether the case is meaningful; false = not executed.
func (c *checker) tryPre(s *sysInst, kind, comp, pert string, t *tr, rec map[string]interface{}, pre func() bool) {
	canon := fmt.Sprintf("%s|%s|%s|%s|%s", s.name, s.where, kind, comp, pert)
	key := fmt.Sprintf("%s/%s/%s/%s", s.name, kind, keyName(comp), pert)
	c.jobs = append(c.jobs, func() {
		if pre != nil && !pre() {
			return
		}
		atomic.AddInt64(&c.evals, 1)
		c.r.Distinct("cases", canon)
		c.r.Count("cases_"+s.name, 1)
		c.r.Count("kind_"+kind, 1)
		var ok bool
		pan, hung := c10.Guard(func() { ok = s.verify(t) })
		if rec == nil {
			rec = map[string]interface{}{}
		}
		rec["case"] = canon
		switch {
		case hung:
			c.r.Distinct("outcomes", s.name+"/"+kind+"/hang")
			c.r.Violate("c06-overlap/c12/"+key+":hang", "verifier did not return within 240 s on a transformed transcript", rec)
		case pan != nil:
			rec["panic"] = fmt.Sprint(pan)
			c.r.Distinct("outcomes", s.name+"/"+kind+"/panic")
			c.r.Violate("c06-overlap/c12/"+key+":panic", "verifier panicked on a transformed transcript: "+fmt.Sprint(pan), rec)
		case ok:
			c.r.Distinct("outcomes", s.name+"/"+kind+"/accepted")
			c.r.Violate(key+"/accepted", "verifier accepted a transformed transcript ("+kind+" "+comp+" "+pert+")", rec)
		default:
			c.r.Distinct("outcomes", s.name+"/"+kind+"/rejected")
			c.r.Sample(9, rec)
		}
	})
}

func (s *sysInst) generic(i int) *big.Int {
	if g, ok := s.pGen[i]; ok {
		return g
	}
	return c10.Generic("c12/"+s.name+"/"+s.where+"/"+s.pNames[i], s.pBound[i])
}

var (
	cruMu    sync.Mutex
	cruCache = map[string][]*big.Int{}
)

// cubeRootsOfUnity returns the non-trivial cube roots of unity modulo the secp256k1 field prime or group
// order (the endomorphism constants beta, lambda), nil for any other modulus.
func cubeRootsOfUnity(m *big.Int) []*big.Int {
	sp := tss.S256().Params()
	if m.Cmp(sp.P) != 0 && m.Cmp(sp.N) != 0 {
		return nil
	}
	cruMu.Lock()
	defer cruMu.Unlock()
	if v, ok := cruCache[m.String()]; ok {
		return v
	}
	// roots of x^2 + x + 1: (-1 +- sqrt(-3)) / 2
	sq := new(big.Int).ModSqrt(new(big.Int).Mod(big.NewInt(-3), m), m)
	var out []*big.Int
	if sq != nil {
		inv2 := new(big.Int).ModInverse(big2, m)
		for _, sg := range []int64{1, -1} {
			r := new(big.Int).Mul(sq, big.NewInt(sg))
			r.Sub(r, big1).Mul(r, inv2).Mod(r, m)
			out = append(out, r)
		}
	}
	cruCache[m.String()] = out
	return out
}

func equivalent(a, b, mod *big.Int) bool {
	if mod == nil {
		return a.Cmp(b) == 0
	}
	return new(big.Int).Mod(new(big.Int).Sub(a, b), mod).Sign() == 0
}

func (c *checker) skip(why string) { c.r.Count("skipped_"+why, 1) }

// perturbProof enumerates {+1, -1, generic, swap with right neighbour, 0} on the selected proof components.
func (c *checker) perturbProof(s *sysInst) {
	for _, i := range s.idx {
		v := s.base.proof[i]
		name := s.pNames[i]
		cands := []struct {
			p string
			v *big.Int
		}{
			{"+1", new(big.Int).Add(v, big1)},
			{"-1", new(big.Int).Sub(v, big1)},
			{"generic", s.generic(i)},
			{"0", big.NewInt(0)},
		}
		// bits added above the value's own length (a verifier that looks at the low bits / a marker bit only, or
		// an encoding that tolerates a prepended byte, accepts exactly these)
		for _, up := range []uint{1, 8, 64} {
			cands = append(cands, struct {
				p string
				v *big.Int
			}{fmt.Sprintf("bit-set-%d-above-its-length", up), new(big.Int).SetBit(new(big.Int).Set(v), v.BitLen()+int(up), 1)})
		}
		// structured replacements: values related to v by the symmetries of the group it lives in (negation,
		// doubling, and for scalars modulo the secp256k1 order the two cube-root-of-unity multiples that the
		// curve endomorphism maps to a point with the same y): a verifier comparing "half" of its equation
		// accepts exactly these
		if m := s.pEq[i]; m != nil && m.Sign() > 0 {
			vm := new(big.Int).Mod(v, m)
			cands = append(cands, struct {
				p string
				v *big.Int
			}{"negated", new(big.Int).Mod(new(big.Int).Neg(vm), m)}, struct {
				p string
				v *big.Int
			}{"doubled", new(big.Int).Mod(new(big.Int).Lsh(vm, 1), m)})
			for k, l := range cubeRootsOfUnity(m) {
				cands = append(cands, struct {
					p string
					v *big.Int
				}{fmt.Sprintf("times-cube-root-of-unity-%d", k+1), new(big.Int).Mod(new(big.Int).Mul(vm, l), m)})
			}
		}
		for _, cd := range cands {
			if cd.v.Sign() < 0 {
				c.skip("negative_not_encodable")
				continue
			}
			if equivalent(cd.v, v, s.pEq[i]) {
				c.skip("equivalent_value")
				continue
			}
			t := s.base.clone()
			t.proof[i] = cd.v
			c.try(s, "component", name, cd.p, t, map[string]interface{}{"index": i, "old": hx(v), "new": hx(cd.v)})
		}
		if i+1 < len(s.base.proof) {
			w := s.base.proof[i+1]
			if equivalent(v, w, s.pEq[i]) && equivalent(v, w, s.pEq[i+1]) {
				c.skip("equivalent_value")
			} else {
				t := s.base.clone()
				t.proof[i], t.proof[i+1] = t.proof[i+1], t.proof[i]
				c.try(s, "component", name, "swap-right", t, map[string]interface{}{"index": i, "with": s.pNames[i+1]})
			}
		}
	}
}

func getPoint(t *tr, p pointRef) *crypto.ECPoint {
	src := t.proof
	if p.inStmt {
		src = t.stmt
	}
	return crypto.NewECPointNoCurveCheck(p.ec, src[p.xi], src[p.xi+1])
}

func setPoint(t *tr, p pointRef, pt *crypto.ECPoint) {
	dst := t.proof
	if p.inStmt {
		dst = t.stmt
	}
	dst[p.xi], dst[p.xi+1] = pt.X(), pt.Y()
}

// perturbPoints replaces each point by other valid curve points (these get past the parser, unlike coordinate edits).
func (c *checker) perturbPoints(s *sysInst) {
	for _, p := range s.points {
		base := getPoint(s.base, p)
		G := c10.MulG(p.ec, big1)
		q := p.ec.Params().N
		cands := []struct {
			n  string
			pt *crypto.ECPoint
		}{
			{"+G", c10.AddP(base, G)},
			{"-G", c10.AddP(base, c10.NegP(G))},
			{"negated", c10.NegP(base)},
			{"doubled", c10.MulP(base, big2)},
			{"generic-point", c10.MulG(p.ec, c10.Generic("c12/point/"+s.name+"/"+p.name, q))},
			{"G", G},
		}
		// every other curve point that shares one coordinate with the base point
		fp := p.ec.Params().P
		negc := func(v *big.Int) *big.Int { return new(big.Int).Mod(new(big.Int).Neg(v), fp) }
		mk := func(n string, x, y *big.Int) {
			if pt, err := crypto.NewECPoint(p.ec, x, y); err == nil {
				cands = append(cands, struct {
					n  string
					pt *crypto.ECPoint
				}{n, pt})
			}
		}
		mk("same-x-other-y", base.X(), negc(base.Y()))
		mk("same-y-other-x", negc(base.X()), base.Y()) // on the twisted Edwards curve only
		mk("both-coordinates-negated", negc(base.X()), negc(base.Y()))
		for k, b := range cubeRootsOfUnity(fp) { // secp256k1: (beta*x, y) is on the curve
			mk(fmt.Sprintf("same-y-x-times-cube-root-of-unity-%d", k+1), new(big.Int).Mod(new(big.Int).Mul(base.X(), b), fp), base.Y())
		}
		kind := "point"
		if p.inStmt {
			kind = "statement-point"
		}
		for _, cd := range cands {
			if !cd.pt.IsOnCurve() || cd.pt.Equals(base) {
				c.skip("equivalent_value")
				continue
			}
			t := s.base.clone()
			setPoint(t, p, cd.pt)
			c.try(s, kind, p.name, cd.n, t, map[string]interface{}{"x": hx(cd.pt.X()), "y": hx(cd.pt.Y())})
		}
	}
}

func (c *checker) perturbStatement(s *sysInst) {
	for i, v := range s.base.stmt {
		t := s.base.clone()
		t.stmt[i] = new(big.Int).Add(v, big1)
		c.try(s, "statement", s.sNames[i], "+1", t, map[string]interface{}{"old": hx(v)})
		if s.sOther != nil && s.sOther[i] != nil && s.sOther[i].Cmp(v) != 0 {
			t := s.base.clone()
			t.stmt[i] = new(big.Int).Set(s.sOther[i])
			c.try(s, "statement", s.sNames[i], "other-party", t, map[string]interface{}{"old": hx(v), "new": hx(s.sOther[i])})
		}
	}
}

// baseSession is ssid || index (index 1), as ContextI is built in the rounds.
func baseSession(ssid []byte) []byte {
	return append(append([]byte{}, ssid...), big.NewInt(1).Bytes()...)
}

func (c *checker) sessions(s *sysInst) {
	if !s.hasSession {
		return
	}
	b := s.base.session
	flipFirst := append([]byte{}, b...)
	flipFirst[0] ^= 0x01
	flipLast := append([]byte{}, b...)
	flipLast[len(b)-1] ^= 0x80
	other := baseSession(core.Bytes("c12/other-ssid", len(s.ssid)))
	vars := []struct {
		n string
		b []byte
	}{
		{"other-index", append(append([]byte{}, s.ssid...), big.NewInt(2).Bytes()...)},
		{"index0-no-suffix", append([]byte{}, s.ssid...)}, // big.NewInt(0).Bytes() is empty: party 0's context is the bare ssid
		{"index-appended", append(append([]byte{}, b...), big.NewInt(2).Bytes()...)},
		{"zero-byte-appended", append(append([]byte{}, b...), 0)},
		{"empty", []byte{}},
		{"nil", nil},
		{"prefix-half", append([]byte{}, b[:len(b)/2]...)},
		{"bit-flipped-first", flipFirst},
		{"bit-flipped-last", flipLast},
		{"other-ssid", other},
	}
	for _, v := range vars {
		t := s.base.clone()
		t.session = v.b
		c.try(s, "session", "session", v.n, t, map[string]interface{}{"session_hex": fmt.Sprintf("%x", v.b)})
	}
}

func (c *checker) doShifts(s *sysInst) {
	if s.shifts == nil {
		return
	}
	for _, sc := range s.shifts() {
		sc := sc
		var pre func() bool
		if s.consistent != nil {
			pre = func() bool {
				if !s.consistent(sc.t, sc.e) {
					// the harness' algebra is wrong, or this challenge candidate is not the prover's: such a transcript proves nothing
					c.r.Count("shift_not_consistent_under_original_challenge", 1)
					c.r.Distinct("inconsistent_shifts", s.name+"/"+keyName(sc.name))
					return false
				}
				c.r.Count("shift_consistent_under_original_challenge", 1)
				return true
			}
		}
		c.tryPre(s, "shift", sc.name, "consistent-except-challenge", sc.t, nil, pre)
	}
}

func (c *checker) system(s *sysInst) {
	// the untouched transcript must be accepted, and must satisfy the reference equations
	ok := false
	pan, hung := c10.Guard(func() { ok = s.verify(s.base) })
	if pan != nil || hung || !ok {
		c.r.Cap(fmt.Sprintf("%s %s: baseline proof not accepted (panic=%v hang=%v) - completeness is C10's business; nothing enumerated for it", s.name, s.where, pan, hung))
		return
	}
	c.r.Count("baselines_accepted", 1)
	c.perturbProof(s)
	c.perturbPoints(s)
	c.perturbStatement(s)
	c.sessions(s)
	c.doShifts(s)
	if s.extra != nil {
		s.extra(c, s)
	}
}

// pick returns the indices of a repeated part to perturb: all (thorough) or first/middle/last (quick).
func pick(tier string, start, n int) []int {
	if tier == "thorough" {
		out := make([]int, n)
		for i := range out {
			out[i] = start + i
		}
		return out
	}
	return []int{start, start + n/2, start + n - 1}
}

func seq(n int) []int {
	out := make([]int, n)
	for i := range out {
		out[i] = i
	}
	return out
}

func repeatInt(v *big.Int, n int) []*big.Int {
	out := make([]*big.Int, n)
	for i := range out {
		out[i] = v
	}
	return out
}

func Run(r *core.Run) {
	ps := c10.LoadParams()
	c := &checker{r: r}
	ssid := core.Bytes("c12/ssid", 32)

	var systems []*sysInst
	systems = append(systems, schnorrSystems(ssid)...)
	systems = append(systems, rsaSystems(r.Tier, ps, ssid)...)
	systems = append(systems, mtaSystems(r.Tier, ps, ssid)...)

	// building the jobs verifies each baseline (cheap) and is done in parallel per system
	perSys := make([]*checker, len(systems))
	core.ParallelFor(len(systems), runtime.NumCPU(), func(i int) {
		cc := &checker{r: r}
		cc.system(systems[i])
		perSys[i] = cc
	})
	for _, cc := range perSys {
		c.jobs = append(c.jobs, cc.jobs...)
	}
	core.ParallelFor(len(c.jobs), runtime.NumCPU(), func(i int) { c.jobs[i]() })
	evals := 0
	for _, cc := range perSys {
		evals += int(atomic.LoadInt64(&cc.evals))
	}
	evals += int(atomic.LoadInt64(&c.evals))

	runSensitivity(r)
	protocolReplay(r)
	r.Set("evaluations", int(r.Get("kind_component")+r.Get("kind_point")+r.Get("kind_statement")+r.Get("kind_statement-point")+r.Get("kind_session")+r.Get("kind_shift")+r.Get("sensitivity_cases")))
	r.Set("evaluations_counted_in_jobs", evals)
	r.Set("distinct_nontrivial", r.NDistinct("cases"))
	r.Set("systems_instances", len(systems))
	r.Set("rule", "one case = (proof system, parameter set(s), kind in {component, point, statement, statement-point, session, shift}, component name incl. index, "+
		"perturbation); the transformed transcript goes through the wire parser and the library Verify; distinct = distinct canonical case strings; a perturbation whose "+
		"result is equivalent to the original in the component's group, or negative (not encodable), is skipped and counted under skipped_*; every counted case differs "+
		"from the accepted transcript in a non-equivalent way, so all are non-trivial; shifts are first checked against reference equations under the original challenge")
	r.Assume("session binding is asserted for Schnorr, Schnorr-V, mod, fac, Bob, Bob-WC only; dln, Alice's range proof and the Paillier key proof take no session in this code base")
	r.Assume("the challenge used by statement-side shifts is recovered by replaying the prover's first mask from the deterministic stream and, independently, recomputed from the documented hash inputs; both candidates are tried")
	r.Assume("coordinate edits of curve points are judged through the message layer's parser (NewECPoint); on-curve replacement points are used to reach the verifier")
}
