package c12

import (
	"fmt"
	"math/big"

	"github.com/bnb-chain/tss-lib/v2/common"
	"github.com/bnb-chain/tss-lib/v2/crypto"
	"github.com/bnb-chain/tss-lib/v2/crypto/dlnproof"
	"github.com/bnb-chain/tss-lib/v2/crypto/facproof"
	"github.com/bnb-chain/tss-lib/v2/crypto/modproof"
	"github.com/bnb-chain/tss-lib/v2/crypto/paillier"
	"github.com/bnb-chain/tss-lib/v2/tss"

	"verif/checks/c10"
)

func expm(b, e, m *big.Int) *big.Int { return new(big.Int).Exp(b, e, m) }
func mulm(a, b, m *big.Int) *big.Int { return new(big.Int).Mod(new(big.Int).Mul(a, b), m) }
func addi(a, b *big.Int) *big.Int    { return new(big.Int).Add(a, b) }
func muli(a, b *big.Int) *big.Int    { return new(big.Int).Mul(a, b) }

func rsaSystems(tier string, ps []c10.Params, ssid []byte) []*sysInst {
	var out []*sysInst
	for _, p := range ps {
		other := ps[(p.Idx+1)%len(ps)]
		out = append(out, dlnSystem(tier, p, other, 0), dlnSystem(tier, p, other, 1))
		out = append(out, paillierSystem(tier, p, other))
		out = append(out, modSystem(tier, p, other, ssid))
	}
	pairs := c10.Pairs("quick", false)
	if tier == "thorough" {
		pairs = [][2]int{{0, 1}, {1, 2}, {2, 3}, {3, 4}, {4, 0}}
	}
	for _, pr := range pairs {
		third := ps[(pr[0]+2)%len(ps)]
		if third.Idx == pr[1] {
			third = ps[(pr[0]+3)%len(ps)]
		}
		out = append(out, facSystem(ps[pr[0]], ps[pr[1]], third, ssid))
	}
	return out
}

// ---------------------------------------------------------------- dln

func dlnSystem(tier string, p, other c10.Params, dir int) *sysInst {
	h1, h2, x := c10.DLNStatement(p, dir)
	oh1, oh2, _ := c10.DLNStatement(other, dir)
	N := p.NTilde
	label := fmt.Sprintf("c12/dln/%d/%d", p.Idx, dir)
	pf := c10.BuildDLN(p, h1, h2, x, label)
	n := dlnproof.Iterations
	s := &sysInst{name: fmt.Sprintf("dln%d", dir+1), where: fmt.Sprintf("set=%d", p.Idx),
		pNames: c10.DLNNames(), sNames: []string{"h1", "h2", "N"},
		pEq:    append(repeatInt(N, n), repeatInt(p.PQ, n)...),
		pBound: append(repeatInt(N, n), repeatInt(p.PQ, n)...),
		sOther: []*big.Int{oh1, oh2, other.NTilde},
		base:   &tr{proof: c10.DLNFlat(pf), stmt: []*big.Int{h1, h2, N}},
		idx:    append(pick(tier, 0, n), pick(tier, n, n)...),
	}
	s.verify = func(t *tr) bool {
		q, err := c10.DLNFromFlat(t.proof)
		if err != nil {
			return false
		}
		return q.Verify(t.stmt[0], t.stmt[1], t.stmt[2])
	}
	// reference equations; indices whose inputs are untouched were confirmed by the library's verifier on the base transcript
	s.consistent = func(t *tr, c *big.Int) bool {
		stmtSame := true
		for i := range t.stmt {
			if t.stmt[i].Cmp(s.base.stmt[i]) != 0 {
				stmtSame = false
			}
		}
		for i := 0; i < n; i++ {
			if stmtSame && t.proof[i].Cmp(s.base.proof[i]) == 0 && t.proof[n+i].Cmp(s.base.proof[n+i]) == 0 {
				continue
			}
			l := expm(t.stmt[0], t.proof[n+i], t.stmt[2])
			r := new(big.Int).Mod(t.proof[i], t.stmt[2])
			if c.Bit(i) == 1 {
				r = mulm(r, t.stmt[1], t.stmt[2])
			}
			if l.Cmp(r) != 0 {
				return false
			}
		}
		return true
	}
	// challenge bits: recovered from the replayed nonces, and recomputed from the documented hash inputs
	as := c10.DLNNonces(p, label)
	cRec := new(big.Int)
	for i := 0; i < n; i++ {
		if pf.T[i].Cmp(as[i]) != 0 {
			cRec.SetBit(cRec, i, 1)
		}
	}
	hfull := common.SHA512_256i(append([]*big.Int{h1, h2, N}, pf.Alpha[:]...)...)
	cHash := new(big.Int)
	for i := 0; i < n; i++ {
		cHash.SetBit(cHash, i, hfull.Bit(i))
	}
	cs := dedupe(cRec, cHash)
	s.shifts = func() []shiftCase {
		var out []shiftCase
		for _, d := range shiftDs("dln", p.PQ) {
			h1d := expm(h1, d.V, N)
			for _, i := range pick(tier, 0, n) {
				t := s.base.clone()
				t.proof[i] = mulm(t.proof[i], h1d, N)
				t.proof[n+i] = new(big.Int).Mod(addi(t.proof[n+i], d.V), p.PQ)
				out = append(out, shiftCase{fmt.Sprintf("Alpha[%d]*h1^d,T[%d]+d/%s", i, i, d.Name), t, cs[0]})
			}
			for ci, c := range cs {
				tag := ""
				if ci > 0 {
					tag = "/hash-challenge"
				}
				t := s.base.clone()
				t.stmt[1] = mulm(h2, h1d, N)
				for i := 0; i < n; i++ {
					if c.Bit(i) == 1 {
						t.proof[n+i] = new(big.Int).Mod(addi(t.proof[n+i], d.V), p.PQ)
					}
				}
				out = append(out, shiftCase{"h2*h1^d,T[i]+d-where-c_i=1/" + d.Name + tag, t, c})
			}
		}
		return out
	}
	return s
}

// ---------------------------------------------------------------- Paillier key proof

func paillierSystem(tier string, p, other c10.Params) *sysInst {
	ec := tss.S256()
	pf := p.SK.Proof(p.Key, p.Pub)
	N := p.SK.N
	n := paillier.ProofIters
	// "other party's" public key: a different point (the fixtures share one ECDSA key)
	oPub := c10.MulG(ec, c10.Generic("c12/paillier/other-pub", ec.Params().N))
	s := &sysInst{name: "paillier", where: fmt.Sprintf("set=%d", p.Idx),
		pNames: c10.PaillierNames(), sNames: []string{"N", "k", "pubX", "pubY"},
		pEq: repeatInt(N, n), pBound: repeatInt(N, n),
		sOther: []*big.Int{other.SK.N, other.Key, oPub.X(), oPub.Y()},
		base:   &tr{proof: c10.PaillierFlat(pf), stmt: []*big.Int{N, p.Key, p.Pub.X(), p.Pub.Y()}},
		idx:    pick(tier, 0, n),
		points: []pointRef{{"pub", true, 2, ec}},
	}
	s.verify = func(t *tr) bool {
		q, err := c10.PaillierParse(c10.EncAll(t.proof))
		if err != nil {
			return false
		}
		pub, err := crypto.NewECPoint(ec, t.stmt[2], t.stmt[3])
		if err != nil {
			return false
		}
		ok, err := q.Verify(t.stmt[0], t.stmt[1], pub)
		return ok && err == nil
	}
	return s
}

// ---------------------------------------------------------------- mod

func modSystem(tier string, p, other c10.Params, ssid []byte) *sysInst {
	N := p.SK.N
	sess := baseSession(ssid)
	label := fmt.Sprintf("c12/mod/%d", p.Idx)
	pf, err := c10.BuildMod(p, sess, false, label)
	if err != nil {
		panic(err)
	}
	n := modproof.Iterations
	two80 := new(big.Int).Lsh(big1, uint(n))
	two81 := new(big.Int).Lsh(big1, uint(n+1))
	eq := make([]*big.Int, modproof.ProofModBytesParts)
	bound := repeatInt(N, modproof.ProofModBytesParts)
	bound[n+1], bound[n+2] = two81, two81
	idx := []int{0}
	idx = append(idx, pick(tier, 1, n)...)
	idx = append(idx, n+1, n+2)
	idx = append(idx, pick(tier, n+3, n)...)
	s := &sysInst{name: "mod", where: fmt.Sprintf("set=%d", p.Idx), hasSession: true, ssid: ssid,
		pNames: c10.ModNames(), sNames: []string{"N"},
		pEq: eq, pBound: bound,
		pGen: map[int]*big.Int{
			n + 1: addi(two80, c10.Generic("c12/mod/A", two80)), // keeps the required bit length 81
			n + 2: addi(two80, c10.Generic("c12/mod/B", two80)),
		},
		sOther: []*big.Int{other.SK.N},
		base:   &tr{proof: c10.ModFlat(pf), stmt: []*big.Int{N}, session: sess},
		idx:    idx,
	}
	s.verify = func(t *tr) bool {
		q, err := modproof.NewProofFromBytes(c10.EncAll(t.proof))
		if err != nil {
			return false
		}
		return q.Verify(t.session, t.stmt[0])
	}
	// the challenges Y_i of the base transcript (a shift must satisfy the equations for *these*)
	Y := make([]*big.Int, n)
	for i := range Y {
		ei := common.SHA512_256i_TAGGED(sess, append([]*big.Int{pf.W, N}, Y[:i]...)...)
		Y[i] = new(big.Int).Mod(ei, N)
	}
	s.consistent = func(t *tr, _ *big.Int) bool {
		W, A, B := t.proof[0], t.proof[n+1], t.proof[n+2]
		if big.Jacobi(W, N) != -1 {
			return false
		}
		for i := 0; i < n; i++ {
			l := expm(t.proof[1+i], big.NewInt(4), N)
			r := new(big.Int).Set(Y[i])
			if A.Bit(i) == 1 {
				r = new(big.Int).Mod(new(big.Int).Neg(r), N)
			}
			if B.Bit(i) == 1 {
				r = mulm(r, W, N)
			}
			if l.Cmp(r) != 0 {
				return false
			}
		}
		return true
	}
	s.shifts = func() []shiftCase {
		var out []shiftCase
		for _, u := range []c10.NamedInt{{Name: "u=2", V: big.NewInt(2)}, {Name: "u=3", V: big.NewInt(3)}, {Name: "u=generic", V: c10.GenericUnit("c12/mod/u", N)}} {
			t := s.base.clone()
			t.proof[0] = mulm(pf.W, expm(u.V, big.NewInt(4), N), N)
			for i := 0; i < n; i++ {
				if pf.B.Bit(i) == 1 {
					t.proof[1+i] = mulm(pf.X[i], u.V, N)
				}
			}
			out = append(out, shiftCase{"W*u^4,X[i]*u-where-b_i=1/" + u.Name, t, nil})
		}
		return out
	}
	// informational: N - X[i] is another fourth root; it is not in the property's perturbation alphabet, the outcome is only counted
	s.extra = func(c *checker, s *sysInst) {
		for _, i := range pick("quick", 1, n) {
			i := i
			t := s.base.clone()
			t.proof[i] = new(big.Int).Sub(N, t.proof[i])
			c.jobs = append(c.jobs, func() {
				ok := false
				c10.Guard(func() { ok = s.verify(t) })
				if ok {
					c.r.Count("info_mod_negated_fourth_root_accepted", 1)
				} else {
					c.r.Count("info_mod_negated_fourth_root_rejected", 1)
				}
			})
		}
	}
	return s
}

// ---------------------------------------------------------------- fac

func facSystem(prover, verifier, third c10.Params, ssid []byte) *sysInst {
	ec := tss.S256()
	q := ec.Params().N
	q3 := muli(q, muli(q, q))
	N0, NCap, sB, tB := prover.SK.N, verifier.NTilde, verifier.H1, verifier.H2
	sess := baseSession(ssid)
	label := fmt.Sprintf("c12/fac/%d/%d", prover.Idx, verifier.Idx)
	pf, err := c10.BuildFac(prover, verifier, ec, sess, label)
	if err != nil {
		panic(err)
	}
	zb := muli(q3, new(big.Int).Sqrt(N0))
	ord := verifier.PQ
	s := &sysInst{name: "fac", where: fmt.Sprintf("prover=%d,verifier=%d", prover.Idx, verifier.Idx), hasSession: true, ssid: ssid,
		pNames: c10.FacNames, sNames: []string{"N0", "NCap", "s", "t"},
		pEq:    []*big.Int{NCap, NCap, NCap, NCap, NCap, ord, ord, ord, ord, ord, ord},
		pBound: []*big.Int{NCap, NCap, NCap, NCap, NCap, muli(q, muli(N0, NCap)), zb, zb, muli(q3, NCap), muli(q3, NCap), muli(q3, muli(N0, NCap))},
		sOther: []*big.Int{third.SK.N, third.NTilde, third.H1, third.H2},
		base:   &tr{proof: c10.FacFlat(pf), stmt: []*big.Int{N0, NCap, sB, tB}, session: sess},
		idx:    seq(11),
	}
	s.verify = func(t *tr) bool {
		p, err := facproof.NewProofFromBytes(c10.EncAll(t.proof))
		if err != nil {
			return false
		}
		return p.Verify(t.session, ec, t.stmt[0], t.stmt[1], t.stmt[2], t.stmt[3])
	}
	const (
		iP, iQ, iA, iB, iT, iSigma, iZ1, iZ2, iW1, iW2, iV = 0, 1, 2, 3, 4, 5, 6, 7, 8, 9, 10
	)
	s.consistent = func(t *tr, e *big.Int) bool {
		p := t.proof
		n0, nc, ss, tt := t.stmt[0], t.stmt[1], t.stmt[2], t.stmt[3]
		b := muli(q3, new(big.Int).Sqrt(n0))
		for _, v := range p {
			if v.Sign() < 0 {
				return false
			}
		}
		if p[iZ1].Cmp(b) >= 0 || p[iZ2].Cmp(b) >= 0 {
			return false
		}
		if mulm(expm(ss, p[iZ1], nc), expm(tt, p[iW1], nc), nc).Cmp(mulm(p[iA], expm(p[iP], e, nc), nc)) != 0 {
			return false
		}
		if mulm(expm(ss, p[iZ2], nc), expm(tt, p[iW2], nc), nc).Cmp(mulm(p[iB], expm(p[iQ], e, nc), nc)) != 0 {
			return false
		}
		R := mulm(expm(ss, n0, nc), expm(tt, p[iSigma], nc), nc)
		return mulm(expm(p[iQ], p[iZ1], nc), expm(tt, p[iV], nc), nc).Cmp(mulm(p[iT], expm(R, e, nc), nc)) == 0
	}
	eHash := modq(common.SHA512_256i_TAGGED(sess, N0, NCap, sB, tB, pf.P, pf.Q, pf.A, pf.B, pf.T, pf.Sigma), q)
	var eRec *big.Int
	{
		alpha := c10.FacFirstMask(prover, ec, label)
		num := new(big.Int).Sub(pf.Z1, alpha)
		quo, rem := new(big.Int).QuoRem(num, prover.SK.P, new(big.Int))
		if rem.Sign() == 0 && quo.Sign() >= 0 && quo.Cmp(q) < 0 {
			eRec = quo
		}
	}
	es := dedupe(eRec, eHash)
	s.shifts = func() []shiftCase {
		var out []shiftCase
		for _, d := range shiftDs("fac", q) {
			sd, td := expm(sB, d.V, NCap), expm(tB, d.V, NCap)
			mk := func(name string, e *big.Int, f func(p []*big.Int)) {
				t := s.base.clone()
				f(t.proof)
				for _, v := range t.proof {
					if v.Sign() < 0 {
						return
					}
				}
				out = append(out, shiftCase{name + "/" + d.Name, t, e})
			}
			e0 := es[0]
			mk("A*s^d,T*Q^d,Z1+d", e0, func(p []*big.Int) {
				p[iA], p[iT], p[iZ1] = mulm(p[iA], sd, NCap), mulm(p[iT], expm(pf.Q, d.V, NCap), NCap), addi(p[iZ1], d.V)
			})
			mk("A*t^d,W1+d", e0, func(p []*big.Int) { p[iA], p[iW1] = mulm(p[iA], td, NCap), addi(p[iW1], d.V) })
			mk("B*s^d,Z2+d", e0, func(p []*big.Int) { p[iB], p[iZ2] = mulm(p[iB], sd, NCap), addi(p[iZ2], d.V) })
			mk("B*t^d,W2+d", e0, func(p []*big.Int) { p[iB], p[iW2] = mulm(p[iB], td, NCap), addi(p[iW2], d.V) })
			mk("T*t^d,V+d", e0, func(p []*big.Int) { p[iT], p[iV] = mulm(p[iT], td, NCap), addi(p[iV], d.V) })
			for ci, e := range es {
				tag := ""
				if ci > 0 {
					tag = "/hash-challenge"
				}
				ed := muli(e, d.V)
				mk("Sigma+d,V+e*d"+tag, e, func(p []*big.Int) { p[iSigma], p[iV] = addi(p[iSigma], d.V), addi(p[iV], ed) })
				mk("P*t^d,W1+e*d"+tag, e, func(p []*big.Int) { p[iP], p[iW1] = mulm(p[iP], td, NCap), addi(p[iW1], ed) })
				mk("Q*t^d,W2+e*d,V-d*Z1"+tag, e, func(p []*big.Int) {
					p[iQ], p[iW2], p[iV] = mulm(p[iQ], td, NCap), addi(p[iW2], ed), new(big.Int).Sub(p[iV], muli(d.V, pf.Z1))
				})
			}
		}
		return out
	}
	return s
}
