package c12

import (
	"crypto/elliptic"
	"math/big"

	"github.com/bnb-chain/tss-lib/v2/common"
	"github.com/bnb-chain/tss-lib/v2/crypto"
	"github.com/bnb-chain/tss-lib/v2/tss"

	"verif/checks/c10"
)

func modq(v, q *big.Int) *big.Int { return new(big.Int).Mod(v, q) }

func samePoint(a, b *crypto.ECPoint) bool {
	return a.X().Cmp(b.X()) == 0 && a.Y().Cmp(b.Y()) == 0
}

// dedupe keeps distinct non-nil challenges.
func dedupe(vs ...*big.Int) []*big.Int {
	var out []*big.Int
	for _, v := range vs {
		if v == nil {
			continue
		}
		dup := false
		for _, w := range out {
			if w.Cmp(v) == 0 {
				dup = true
			}
		}
		if !dup {
			out = append(out, v)
		}
	}
	return out
}

func shiftDs(label string, q *big.Int) []c10.NamedInt {
	return []c10.NamedInt{{Name: "d=1", V: big.NewInt(1)}, {Name: "d=2", V: big.NewInt(2)}, {Name: "d=generic", V: c10.Generic("c12/d/"+label, q)}}
}

func safely(f func() bool) (ok bool) {
	defer func() {
		if recover() != nil {
			ok = false
		}
	}()
	return f()
}

func schnorrSystems(ssid []byte) []*sysInst {
	var out []*sysInst
	for _, ec := range []elliptic.Curve{tss.S256(), tss.Edwards()} {
		out = append(out, schnorrSystem(ec, ssid), schnorrVSystem(ec, ssid))
	}
	return out
}

func schnorrSystem(ec elliptic.Curve, ssid []byte) *sysInst {
	cn := c10.CurveName(ec)
	q := ec.Params().N
	fp := ec.Params().P
	G := c10.MulG(ec, big1)
	x := c10.Generic("c12/schnorr/x", q)
	label := "c12/schnorr/" + cn
	sess := baseSession(ssid)
	pf, X, err := c10.BuildSchnorr(ec, sess, x, label)
	if err != nil {
		panic(err)
	}
	other := c10.MulG(ec, c10.Generic("c12/schnorr/x-other", q))
	s := &sysInst{name: "schnorr", where: cn, hasSession: true, ssid: ssid,
		pNames: c10.SchnorrNames, sNames: []string{"Xx", "Xy"},
		pEq: []*big.Int{nil, nil, q}, pBound: []*big.Int{fp, fp, q},
		sOther: []*big.Int{other.X(), other.Y()},
		base:   &tr{proof: c10.SchnorrFlat(pf), stmt: []*big.Int{X.X(), X.Y()}, session: sess},
		idx:    seq(3),
		points: []pointRef{{"Alpha", false, 0, ec}, {"X", true, 0, ec}},
	}
	s.verify = func(t *tr) bool {
		p, err := c10.SchnorrParse(ec, c10.EncAll(t.proof))
		if err != nil {
			return false
		}
		Xp, err := crypto.NewECPoint(ec, t.stmt[0], t.stmt[1])
		if err != nil {
			return false
		}
		return p.Verify(t.session, Xp)
	}
	s.consistent = func(t *tr, e *big.Int) bool {
		return safely(func() bool {
			alpha := crypto.NewECPointNoCurveCheck(ec, t.proof[0], t.proof[1])
			Xp := crypto.NewECPointNoCurveCheck(ec, t.stmt[0], t.stmt[1])
			return samePoint(c10.MulG(ec, t.proof[2]), c10.AddP(alpha, c10.MulP(Xp, e)))
		})
	}
	cHash := modq(common.SHA512_256i_TAGGED(sess, X.X(), X.Y(), G.X(), G.Y(), pf.Alpha.X(), pf.Alpha.Y()), q)
	a := c10.SchnorrNonce(ec, label)
	cRec := modq(new(big.Int).Mul(new(big.Int).Sub(pf.T, a), new(big.Int).ModInverse(x, q)), q)
	cs := dedupe(cRec, cHash)
	s.shifts = func() []shiftCase {
		var out []shiftCase
		for _, d := range shiftDs("schnorr", q) {
			for ci, c := range cs {
				tag := ""
				if ci > 0 {
					tag = "/hash-challenge"
				}
				// commitment + response
				t := s.base.clone()
				setPoint(t, s.points[0], c10.AddP(pf.Alpha, c10.MulG(ec, d.V)))
				t.proof[2] = modq(new(big.Int).Add(pf.T, d.V), q)
				out = append(out, shiftCase{"alpha+dG,t+d/" + d.Name + tag, t, c})
				// statement (another prover's public value) + response
				t = s.base.clone()
				setPoint(t, s.points[1], c10.AddP(X, c10.MulG(ec, d.V)))
				t.proof[2] = modq(new(big.Int).Add(pf.T, new(big.Int).Mul(c, d.V)), q)
				out = append(out, shiftCase{"X+dG,t+c*d/" + d.Name + tag, t, c})
			}
		}
		return out
	}
	return s
}

func schnorrVSystem(ec elliptic.Curve, ssid []byte) *sysInst {
	cn := c10.CurveName(ec)
	q := ec.Params().N
	fp := ec.Params().P
	G := c10.MulG(ec, big1)
	sv := c10.Generic("c12/schnorrv/s", q)
	lv := c10.Generic("c12/schnorrv/l", q)
	R := c10.MulG(ec, c10.Generic("c12/schnorrv/r", q))
	label := "c12/schnorrv/" + cn
	sess := baseSession(ssid)
	pf, V, err := c10.BuildSchnorrV(ec, sess, R, sv, lv, label)
	if err != nil {
		panic(err)
	}
	oV := c10.MulG(ec, c10.Generic("c12/schnorrv/v-other", q))
	oR := c10.MulG(ec, c10.Generic("c12/schnorrv/r-other", q))
	s := &sysInst{name: "schnorrv", where: cn, hasSession: true, ssid: ssid,
		pNames: c10.SchnorrVNames, sNames: []string{"Vx", "Vy", "Rx", "Ry"},
		pEq: []*big.Int{nil, nil, q, q}, pBound: []*big.Int{fp, fp, q, q},
		sOther: []*big.Int{oV.X(), oV.Y(), oR.X(), oR.Y()},
		base:   &tr{proof: c10.SchnorrVFlat(pf), stmt: []*big.Int{V.X(), V.Y(), R.X(), R.Y()}, session: sess},
		idx:    seq(4),
		points: []pointRef{{"Alpha", false, 0, ec}, {"V", true, 0, ec}, {"R", true, 2, ec}},
	}
	s.verify = func(t *tr) bool {
		p, err := c10.SchnorrVParse(ec, c10.EncAll(t.proof))
		if err != nil {
			return false
		}
		Vp, err := crypto.NewECPoint(ec, t.stmt[0], t.stmt[1])
		if err != nil {
			return false
		}
		Rp, err := crypto.NewECPoint(ec, t.stmt[2], t.stmt[3])
		if err != nil {
			return false
		}
		return p.Verify(t.session, Vp, Rp)
	}
	s.consistent = func(t *tr, e *big.Int) bool {
		return safely(func() bool {
			alpha := crypto.NewECPointNoCurveCheck(ec, t.proof[0], t.proof[1])
			Vp := crypto.NewECPointNoCurveCheck(ec, t.stmt[0], t.stmt[1])
			Rp := crypto.NewECPointNoCurveCheck(ec, t.stmt[2], t.stmt[3])
			return samePoint(c10.AddP(c10.MulP(Rp, t.proof[2]), c10.MulG(ec, t.proof[3])), c10.AddP(alpha, c10.MulP(Vp, e)))
		})
	}
	cHash := modq(common.SHA512_256i_TAGGED(sess, V.X(), V.Y(), R.X(), R.Y(), G.X(), G.Y(), pf.Alpha.X(), pf.Alpha.Y()), q)
	a, _ := c10.SchnorrVNonces(ec, label)
	cRec := modq(new(big.Int).Mul(new(big.Int).Sub(pf.T, a), new(big.Int).ModInverse(sv, q)), q)
	cs := dedupe(cRec, cHash)
	add := func(v, w *big.Int) *big.Int { return modq(new(big.Int).Add(v, w), q) }
	mul := func(v, w *big.Int) *big.Int { return new(big.Int).Mul(v, w) }
	s.shifts = func() []shiftCase {
		var out []shiftCase
		for _, d := range shiftDs("schnorrv", q) {
			for ci, c := range cs {
				tag := ""
				if ci > 0 {
					tag = "/hash-challenge"
				}
				t := s.base.clone()
				setPoint(t, s.points[0], c10.AddP(pf.Alpha, c10.MulP(R, d.V)))
				t.proof[2] = add(pf.T, d.V)
				out = append(out, shiftCase{"alpha+dR,t+d/" + d.Name + tag, t, c})

				t = s.base.clone()
				setPoint(t, s.points[0], c10.AddP(pf.Alpha, c10.MulG(ec, d.V)))
				t.proof[3] = add(pf.U, d.V)
				out = append(out, shiftCase{"alpha+dG,u+d/" + d.Name + tag, t, c})

				t = s.base.clone()
				setPoint(t, s.points[1], c10.AddP(V, c10.MulG(ec, d.V)))
				t.proof[3] = add(pf.U, mul(c, d.V))
				out = append(out, shiftCase{"V+dG,u+c*d/" + d.Name + tag, t, c})

				t = s.base.clone()
				setPoint(t, s.points[1], c10.AddP(V, c10.MulP(R, d.V)))
				t.proof[2] = add(pf.T, mul(c, d.V))
				out = append(out, shiftCase{"V+dR,t+c*d/" + d.Name + tag, t, c})

				t = s.base.clone()
				setPoint(t, s.points[2], c10.AddP(R, c10.MulG(ec, d.V)))
				t.proof[3] = modq(new(big.Int).Sub(pf.U, mul(pf.T, d.V)), q)
				out = append(out, shiftCase{"R+dG,u-t*d/" + d.Name + tag, t, c})
			}
		}
		return out
	}
	return s
}
