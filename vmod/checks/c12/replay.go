package c12

import (
	"fmt"

	"verif/internal/core"
	"verif/internal/fault"
	"verif/internal/scen"
)

// protocolReplay: the clause "a proof cannot be replayed by another participant (whose context differs by its
// index)" at the place where the contexts are BUILT, i.e. inside the protocols. Real parties, FIFO delivery,
// one deviation: participant `dev` hands over, under its own name, every message participant `src` emitted
// (whole-identity replay: commitment, opening, Schnorr proof, shares). The honest third participant receives a
// proof made for src's context under dev's index and has to refuse it: it must report an error and emit no key.
// Session shapes: the default ids and ids whose session id (a hash taken as a number) has a leading zero byte,
// for every (src, dev) pair among the participants other than the observer.
func protocolReplay(r *core.Run) {
	for name, mk := range scen.FaultScenarios(r.Seed) {
		fault.Register(name, mk)
	}
	for _, scn := range []string{"eddsa-keygen", "eddsa-keygen-shortssid"} {
		sc, ok := fault.Scenario(scn)
		if !ok {
			r.Cap("protocol replay: scenario " + scn + " not available")
			continue
		}
		n := len(sc.Cfg.Keys)
		if scn == "eddsa-keygen-shortssid" {
			r.Count("protocol_replay_short_session_ids", 1)
		}
		for src := 0; src < n; src++ {
			for dev := 0; dev < n; dev++ {
				if dev == src {
					continue
				}
				o := fault.Execute(fault.Case{Scenario: scn, Deviator: dev, Dev: fault.Dev{MsgType: "*", Index: -1, Op: fmt.Sprintf("mirror-all:%d", src)}})
				r.Count("protocol_replay_runs", 1)
				r.Count("kind_session", 1)
				canon := fmt.Sprintf("protocol-replay|%s|src=%d|dev=%d", sc.Name, src, dev)
				r.Distinct("cases", canon)
				rec := map[string]interface{}{"scenario": sc.Name, "replayed_participant": src, "replaying_participant": dev, "errors": o.Errs, "results_per_node": o.Ends}
				if !o.Applied {
					r.Cap("protocol replay: deviation point not reached in " + canon)
					continue
				}
				if len(o.Panics) > 0 {
					r.Violate("c06-overlap/protocol-replay/"+scn+":panic", fmt.Sprint(o.Panics), rec)
					continue
				}
				for obs := 0; obs < n; obs++ {
					if obs == src || obs == dev {
						continue
					}
					refused := false
					for _, e := range o.Errs {
						if e.Node == obs {
							refused = true
						}
					}
					if (obs < len(o.Ends) && o.Ends[obs] > 0) || !refused {
						rec["observer"] = obs
						r.Violate("protocol/"+scn+"/replayed-by-another-participant:accepted",
							fmt.Sprintf("participant %d handed over participant %d's messages (with its session-bound proof) as its own and honest participant %d did not refuse them", dev, src, obs), rec)
					}
				}
			}
		}
	}
}
