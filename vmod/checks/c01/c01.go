// Package c01: check for property C01 (stub until implemented).
package c01

import "verif/internal/core"

// Implemented reports whether this check is built.
const Implemented = false

func Run(r *core.Run) { r.Cap("not implemented") }
