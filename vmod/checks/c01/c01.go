// Package c01: threshold ECDSA signing yields one valid, canonical signature (NETMC + ENUM of configurations).
package c01

import (
	"fmt"
	"math/big"
	"runtime"
	"sync"

	"github.com/bnb-chain/tss-lib/v2/common"
	eckg "github.com/bnb-chain/tss-lib/v2/ecdsa/keygen"
	"github.com/bnb-chain/tss-lib/v2/tss"

	"verif/internal/core"
	"verif/internal/fix"
	"verif/internal/netrun"
	"verif/internal/oracle"
	"verif/internal/protomc"
	"verif/internal/ref"
	"verif/internal/scen"
)

const Implemented = true

type digestCase struct {
	name string
	m    *big.Int
}

func digests() []digestCase {
	q := ref.Secp256k1.N
	g1 := new(big.Int).SetBytes(core.Bytes("c01-digest-1", 32))
	g1.Mod(g1, q)
	g2 := new(big.Int).SetBytes(core.Bytes("c01-digest-2", 32))
	g2.Mod(g2, q)
	return []digestCase{
		{"0", big.NewInt(0)},
		{"1", big.NewInt(1)},
		{"2", big.NewInt(2)},
		{"q-1", new(big.Int).Sub(q, big.NewInt(1))},
		{"q-2", new(big.Int).Sub(q, big.NewInt(2))},
		{"2^248-1(leading zero byte)", new(big.Int).Sub(new(big.Int).Lsh(big.NewInt(1), 248), big.NewInt(1))},
		{"2^8(31 leading zero bytes)", big.NewInt(256)},
		{"generic-1", g1},
		{"generic-2", g2},
	}
}

type keyCase struct {
	name string
	keys []eckg.LocalPartySaveData
	t    int
}

func subsetsAtLeast(n, k int) [][]int {
	var out [][]int
	for sz := k; sz <= n; sz++ {
		out = append(out, oracle.Subsets(n, sz)...)
	}
	return out
}

func orderFor(variant, n int) []int {
	switch variant % 3 {
	case 1: // reversed
		o := make([]int, n)
		for i := range o {
			o[i] = n - 1 - i
		}
		return o
	case 2: // rotated
		o := make([]int, n)
		for i := range o {
			o[i] = (i + 1) % n
		}
		return o
	}
	return nil
}

// groupSecret interpolates the private key from all shares (the harness holds every share).
func groupSecret(keys []eckg.LocalPartySaveData, t int) *big.Int {
	q := ref.Secp256k1.N
	xs := make([]*big.Int, t+1)
	for i := 0; i <= t; i++ {
		xs[i] = new(big.Int).Mod(keys[i].ShareID, q)
	}
	l := ref.LagrangeAtZero(q, xs)
	x := big.NewInt(0)
	for i := 0; i <= t; i++ {
		x.Mod(x.Add(x, new(big.Int).Mul(l[i], keys[i].Xi)), q)
	}
	return x
}

type sigClass struct{ neg, odd, rz, sz bool }

func (c sigClass) String() string {
	return fmt.Sprintf("S-negated=%v,R.y-odd=%v,R-leading-zero=%v,S-leading-zero=%v", c.neg, c.odd, c.rz, c.sz)
}

// predict the signature class from the parties' nonce shares k_i (first draw of every party's stream).
func predict(labels []string, x, m *big.Int) (sigClass, *big.Int) {
	c := ref.Secp256k1
	q := c.N
	k := big.NewInt(0)
	for _, l := range labels {
		ki := common.GetRandomPositiveInt(core.NewDRBG(l), q)
		k.Mod(k.Add(k, ki), q)
	}
	kinv := new(big.Int).ModInverse(k, q)
	R := c.BaseMul(kinv)
	r := new(big.Int).Mod(R.X, q)
	s := new(big.Int).Mul(k, new(big.Int).Add(m, new(big.Int).Mul(r, x)))
	s.Mod(s, q)
	var cl sigClass
	half := new(big.Int).Rsh(q, 1)
	if s.Cmp(half) > 0 {
		cl.neg = true
		s.Sub(q, s)
	}
	cl.odd = R.Y.Bit(0) == 1
	cl.rz = r.BitLen() <= 248
	cl.sz = s.BitLen() <= 248
	return cl, r
}

func Run(r *core.Run) {
	w := runtime.NumCPU()
	// the process-wide default curve is deliberately NOT secp256k1: signing must use the curve of its parameters
	tss.SetCurve(tss.Edwards())
	r.Set("process_default_curve", "edwards25519 (the other curve)")
	kcs := []keyCase{
		{"generated(n=2,t=1,ids=small)", scen.EcKey("small", 2, 1, r.Seed), 1},
		{"generated(n=3,t=1,ids=near-q)", scen.EcKey("near-q", 3, 1, r.Seed), 1},
		{"generated(n=3,t=2,ids=large)", scen.EcKey("large", 3, 2, r.Seed), 2},
		{"generated(n=3,t=1,ids=byte-boundary)", scen.EcKey("byte-boundary", 3, 1, r.Seed), 1},
		{"generated(n=3,t=1,ids=above-q)", scen.EcKey("above-q", 3, 1, r.Seed), 1},
		{"vendored(n=5,t=2)", fix.EcFixtures(), 2},
	}
	if r.Tier == "thorough" {
		kcs = append(kcs, keyCase{"generated(n=4,t=1,ids=multiples)", scen.EcKey("multiples", 4, 1, r.Seed), 1},
			keyCase{"generated(n=4,t=3,ids=small)", scen.EcKey("small", 4, 3, r.Seed), 3})
	}
	ds := digests()
	lens := []int{0, 32}

	type fc struct {
		kc    keyCase
		sub   []int
		d     digestCase
		full  int
		order []int
		label string
		seedOverride map[int]string
		predR        *big.Int
	}
	var cases []fc
	ci := 0
	for ki, kc := range kcs {
		for _, sub := range subsetsAtLeast(len(kc.keys), kc.t+1) {
			if ki == 0 || r.Tier == "thorough" { // full product
				for _, d := range ds {
					for _, fl := range lens {
						cases = append(cases, fc{kc: kc, sub: sub, d: d, full: fl, order: orderFor(ci, len(sub))})
						ci++
					}
				}
			} else { // quick: three (digest,len) pairs per subset, rotating through the alphabet
				for k := 0; k < 3; k++ {
					cases = append(cases, fc{kc: kc, sub: sub, d: ds[(ci)%len(ds)], full: lens[(ci/len(ds)+k)%2], order: orderFor(ci, len(sub))})
					ci++
				}
			}
		}
	}
	// other full lengths than the curve's 32 bytes (a 20-byte digest signed with fullBytesLen 20; 1; 31): every
	// digest of the alphabet that fits, on the cheapest key
	for _, fl := range []int{1, 20, 31} {
		for _, d := range ds {
			if d.m.BitLen() <= 8*fl {
				cases = append(cases, fc{kc: kcs[0], sub: []int{0, 1}, d: d, full: fl, order: orderFor(ci, 2), label: fmt.Sprintf("fullBytesLen=%d", fl)})
				ci++
			}
		}
	}
	// nonce classes on the cheapest key: one seed per class of the canonical-form branches
	{
		kc := kcs[0]
		x := groupSecret(kc.keys, kc.t)
		m := ds[7].m
		want := map[sigClass]bool{}
		for _, neg := range []bool{false, true} {
			for _, odd := range []bool{false, true} {
				want[sigClass{neg, odd, false, false}] = true
			}
		}
		foundRZ, foundSZ := false, false
		for seed := 0; seed < 4000 && (len(want) > 0 || !foundRZ || !foundSZ); seed++ {
			labels := []string{fmt.Sprintf("c01-nonce-%d-0", seed), fmt.Sprintf("c01-nonce-%d-1", seed)}
			cl, pr := predict(labels, x, m)
			take := false
			base := sigClass{cl.neg, cl.odd, false, false}
			if !cl.rz && !cl.sz && want[base] {
				delete(want, base)
				take = true
			}
			if cl.rz && !foundRZ {
				foundRZ, take = true, true
			}
			if cl.sz && !foundSZ {
				foundSZ, take = true, true
			}
			if take {
				cases = append(cases, fc{kc: kc, sub: []int{0, 1}, d: ds[7], full: 0, label: "nonce-class:" + cl.String(),
					seedOverride: map[int]string{0: labels[0], 1: labels[1]}, predR: pr})
			}
		}
		if len(want) > 0 || !foundRZ || !foundSZ {
			r.Cap("nonce class search did not find a seed for every class")
		}
	}

	var mu sync.Mutex
	core.ParallelFor(len(cases), w/2+1, func(i int) {
		c := cases[i]
		keys := make([]eckg.LocalPartySaveData, len(c.sub))
		for k, s := range c.sub {
			keys[k] = c.kc.keys[s]
		}
		cfg := netrun.Config{Proto: netrun.EcdsaSigning, EcKeys: keys, Threshold: c.kc.t, Msg: c.d.m, FullBytesLen: c.full, Seed: r.Seed,
			Label: fmt.Sprint(c.kc.name, c.sub, i), IDOrder: c.order, SeedOverride: c.seedOverride}
		name := fmt.Sprintf("%s/signers=%v/order=%v/digest=%s/len=%d %s", c.kc.name, c.sub, c.order, c.d.name, c.full, c.label)
		nw, err := netrun.New(cfg)
		if err != nil {
			r.Violate("fifo/constructor-error", err.Error(), name)
			return
		}
		_, e, pan := nw.RunFIFO()
		r.Count("fifo_runs", 1)
		r.Distinct("fifo_case_classes", fmt.Sprintf("%s|size=%d|%s|%d", c.kc.name, len(c.sub), c.d.name, c.full))
		if len(pan) > 0 {
			r.Violate("fifo/panic/digest="+c.d.name, pan[0], name)
			return
		}
		if e != nil {
			r.Violate("fifo/error/digest="+c.d.name, e.Error(), name)
			return
		}
		var first *common.SignatureData
		for p, n := range nw.Nodes {
			if len(n.Ends) != 1 {
				r.Violate("fifo/no-result", fmt.Sprintf("node %d has %d results", p, len(n.Ends)), name)
				return
			}
			sd := n.Ends[0].(*common.SignatureData)
			if first == nil {
				first = sd
			} else if string(first.Signature) != string(sd.Signature) || string(first.SignatureRecovery) != string(sd.SignatureRecovery) || string(first.M) != string(sd.M) {
				r.Violate("fifo/signers-disagree", "signers output different signature data", name)
			}
			for _, pr := range oracle.CheckEcdsaSig(sd, keys[0].ECDSAPub, c.d.m, c.full) {
				r.Violate("fifo/"+pr.Key, pr.What+" ["+c.label+"]", name)
			}
		}
		if c.predR != nil && new(big.Int).SetBytes(first.R).Cmp(c.predR) != 0 {
			// the seed selection relies on k being each party's first draw; this is harness calibration, not a property
			r.Cap("nonce prediction does not match the signature's R (seed selection seam changed): nonce classes not guaranteed")
		}
		// observed canonical-form classes
		cl := sigClass{rz: len(first.R) == 32 && first.R[0] == 0, sz: len(first.S) == 32 && first.S[0] == 0, odd: len(first.SignatureRecovery) == 1 && first.SignatureRecovery[0]&1 == 1}
		r.Distinct("observed_signature_shapes", fmt.Sprintf("recid=%x,R0zero=%v,S0zero=%v", first.SignatureRecovery, cl.rz, cl.sz))
		if c.label != "" {
			r.Distinct("nonce_classes_run", c.label)
		}
		mu.Lock()
		r.Sample(3, map[string]interface{}{"kind": "fifo case", "case": name, "R": fmt.Sprintf("%x", first.R), "S": fmt.Sprintf("%x", first.S), "recid": fmt.Sprintf("%x", first.SignatureRecovery)})
		mu.Unlock()
	})

	// the same in-memory key data used for consecutive sessions (different signer sets, orders and digests):
	// every session must give a valid signature ("any key produced by DKG, any signer set, any digest" also
	// holds for a key that has already signed)
	for _, kc := range []keyCase{kcs[1], kcs[2]} {
		held := make([]eckg.LocalPartySaveData, len(kc.keys))
		for i := range kc.keys {
			held[i] = kc.keys[i]
			held[i].Xi = new(big.Int).Set(kc.keys[i].Xi) // this block's own copy of the secret (the sessions share it)
		}
		subs := subsetsAtLeast(len(held), kc.t+1)
		for si := 0; si < 4; si++ {
			sub := subs[(si*2+1)%len(subs)]
			d := ds[(si*3+1)%len(ds)]
			keys := make([]eckg.LocalPartySaveData, len(sub))
			for k, s := range sub {
				keys[k] = held[s]
			}
			name := fmt.Sprintf("%s/session %d on the same key data/signers=%v/digest=%s", kc.name, si+1, sub, d.name)
			cfg := netrun.Config{Proto: netrun.EcdsaSigning, EcKeys: keys, Threshold: kc.t, Msg: d.m, Seed: r.Seed, Label: fmt.Sprint("repeat", kc.name, si), ShareKeys: true, IDOrder: orderFor(si, len(sub))}
			nw, err := netrun.New(cfg)
			if err != nil {
				r.Violate("repeat/constructor-error", err.Error(), name)
				break
			}
			_, e, pan := nw.RunFIFO()
			r.Count("repeat_sessions", 1)
			if len(pan) > 0 || e != nil {
				r.Violate(fmt.Sprintf("repeat/session-%d-fails", si+1), fmt.Sprintf("a later session on key data that has already signed fails: %v %v", e, pan), name)
				break
			}
			for p, n := range nw.Nodes {
				if len(n.Ends) != 1 {
					r.Violate("repeat/no-result", fmt.Sprintf("node %d has %d results", p, len(n.Ends)), name)
					continue
				}
				for _, pr := range oracle.CheckEcdsaSig(n.Ends[0].(*common.SignatureData), keys[0].ECDSAPub, d.m, 0) {
					r.Violate("repeat/"+pr.Key, pr.What, name)
				}
			}
		}
	}

	// refused digests: Start must return an error and nothing may have been sent
	q := ref.Secp256k1.N
	for _, bad := range []digestCase{{"q", q}, {"q+1", new(big.Int).Add(q, big.NewInt(1))}, {"2^256-1", new(big.Int).Sub(new(big.Int).Lsh(big.NewInt(1), 256), big.NewInt(1))}} {
		for _, fl := range lens {
			cfg := netrun.Config{Proto: netrun.EcdsaSigning, EcKeys: kcs[0].keys, Threshold: 1, Msg: bad.m, FullBytesLen: fl, Seed: r.Seed, Label: "refused"}
			nw, err := netrun.New(cfg)
			if err != nil {
				r.Violate("refused-digest/constructor-error", err.Error(), bad.name)
				continue
			}
			for p := range nw.Nodes {
				res := nw.Start(p)
				r.Count("refused_digest_starts", 1)
				if res.Panic != "" {
					r.Violate("refused-digest/panic/"+bad.name, res.Panic, bad.name)
				} else if res.Err == nil {
					r.Violate("refused-digest/accepted/"+bad.name, "Start accepted a digest >= q", bad.name)
				}
				if len(nw.Nodes[p].Emitted) != 0 {
					r.Violate("refused-digest/message-sent/"+bad.name, "a message was sent before the digest was refused", bad.name)
				}
			}
		}
	}

	// schedules
	var states, trans, traces int
	explore := func(sc protomc.Scenario, mode string, devs int) {
		sc.Cfg.RealRand = true
		st := protomc.Explore(r, sc, protomc.Options{C07: true, Mode: mode, Deviations: devs, Workers: w, ResultOracle: scen.ResultOracle(sc)})
		states += st.States
		trans += st.Transitions
		traces += st.JointReplays
		r.Distinct("terminal_outcomes", fmt.Sprintf("%s#%d", sc.Name, st.DistinctOutcomes))
		r.Set("cfg:"+sc.Name, map[string]interface{}{"mode": mode, "deviation_bound": devs, "states": st.States, "transitions": st.Transitions, "terminal_states_or_runs": st.Terminals, "replays": st.JointReplays})
		if len(st.Samples) > 0 {
			r.Sample(6, st.Samples[len(st.Samples)-1])
		}
		if st.Capped {
			r.Cap("cap in " + sc.Name)
		}
		fmt.Printf("  %-50s mode=%s devs=%d states=%d trans=%d runs/terminals=%d\n", sc.Name, mode, devs, st.States, st.Transitions, st.Terminals)
	}
	explore(scen.EcSigning("small", 2, 1, []int{0, 1}, ds[3].m, 32, r.Seed), "joint", 0)
	explore(scen.EcSigning("near-q", 3, 1, []int{0, 2}, ds[5].m, 0, r.Seed), "joint", 0)
	if r.Tier == "thorough" {
		explore(scen.EcSigning("near-q", 3, 1, []int{0, 1, 2}, ds[8].m, 0, r.Seed), "dev", 1)
		explore(scen.EcSigning("large", 3, 2, []int{0, 1, 2}, ds[0].m, 32, r.Seed), "dev", 1)
	} else {
		explore(scen.EcSigning("near-q", 3, 1, []int{0, 1, 2}, ds[8].m, 0, r.Seed), "dev", 0)
	}
	r.Set("states", states)
	r.Set("transitions", trans)
	r.Set("traces_validated_against_impl", traces)
	r.Set("schedule_part", "joint mode (every transition is a complete re-execution of the real network, so every explored trace is validated against the implementation): all schedules for 2 signers; FIFO [thorough: + every 1-deviation run] for 3 signers")
	r.Assume("independent verifiers: reference textbook ECDSA over the reference curve, and btcec's verifier; recovery per SEC1 4.1.6 with the reference curve")
	r.Assume("fullBytesLen: absent, 32 in the full product; 1, 20 and 31 with every digest of the alphabet that fits into that many bytes; lengths above 32 are not admissible (standard ECDSA takes the leftmost 32 bytes of a longer digest, so a 33-byte echo is another message)")
}
