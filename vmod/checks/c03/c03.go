// Package c03: key generation yields a consistent (t,n) sharing of one key (NETMC + result oracle).
package c03

import (
	"fmt"
	"runtime"
	"strings"

	"github.com/bnb-chain/tss-lib/v2/tss"

	"math/big"

	"verif/internal/fix"
	"verif/internal/netrun"
	"verif/internal/ref"

	"verif/internal/core"
	"verif/internal/protomc"
	"verif/internal/scen"
)

const Implemented = true

type job struct {
	sc   protomc.Scenario
	mode string
	devs int
}

func Run(r *core.Run) {
	w := runtime.NumCPU()
	var jobs []job
	add := func(sc protomc.Scenario, mode string, devs int) { jobs = append(jobs, job{sc, mode, devs}) }
	// EdDSA: all (n,t) with n<=3 and every id pattern: all schedules (decomposed)
	for _, pat := range []string{"small", "near-q", "large", "multiples", "byte-boundary"} {
		add(scen.EdKeygen(pat, 2, 1, r.Seed), "", 0)
		add(scen.EdKeygen(pat, 3, 1, r.Seed), "", 0)
		add(scen.EdKeygen(pat, 3, 2, r.Seed), "", 0)
	}
	// EdDSA n=4: FIFO + every 1-deviation run
	add(scen.EdKeygen("small", 4, 1, r.Seed), "dev", 1)
	add(scen.EdKeygen("near-q", 4, 3, r.Seed), "dev", 1)
	// ECDSA (vendored pre-parameters): n=2 FIFO + 1 deviation in quick
	add(scen.EcKeygen("small", 2, 1, r.Seed), "dev", 1)
	add(scen.EcKeygen("near-q", 3, 2, r.Seed), "dev", 0)
	add(scen.EcKeygen("above-q", 3, 1, r.Seed), "dev", 0) // ids q+3, 2q+11, q+19
	add(scen.EdKeygen("above-q", 3, 1, r.Seed), "", 0)
	add(scen.EcKeygenNoProofs("small", 2, 1, r.Seed, false, true), "dev", 0) // optional proofs switched off
	add(scen.EcKeygenNoProofs("near-q", 3, 1, r.Seed, true, true), "dev", 0)
	add(scen.EcKeygen("multiples", 4, 3, r.Seed), "dev", 0) // t >= 3: the first configuration in which k^3 differs from k^4/2 etc.
	if r.Tier == "thorough" {
		add(scen.EdKeygen("large", 4, 2, r.Seed), "dev", 1)
		add(scen.EdKeygen("multiples", 2, 1, r.Seed), "dev", 2) // every 2-deviation run of the smallest configuration
		add(scen.EdKeygen("small", 5, 2, r.Seed), "dev", 1)
		add(scen.EdKeygen("near-q", 5, 4, r.Seed), "dev", 1)
		add(scen.EcKeygen("large", 2, 1, r.Seed), "", 0) // all schedules, decomposed
		add(scen.EcKeygen("small", 3, 1, r.Seed), "dev", 1)
		add(scen.EcKeygen("multiples", 3, 2, r.Seed), "dev", 0)
		add(scen.EcKeygen("large", 4, 2, r.Seed), "dev", 0)
		add(scen.EcKeygen("small", 5, 2, r.Seed), "dev", 0)
		add(scen.EcKeygen("near-q", 5, 4, r.Seed), "dev", 0)
	}
	var states, trans, traces int
	for _, j := range jobs {
		// the process-wide default curve (tss.SetCurve) is deliberately the OTHER curve: a party must work
		// on the curve of its own parameters, whatever another protocol in the same process selected
		if strings.HasPrefix(string(j.sc.Cfg.Proto), "ecdsa") {
			tss.SetCurve(tss.Edwards())
		} else {
			tss.SetCurve(tss.S256())
		}
		o := protomc.Options{C07: true, Mode: j.mode, Deviations: j.devs, Workers: w, JointValidate: 10, ResultOracle: scen.ResultOracle(j.sc)}
		st := protomc.Explore(r, j.sc, o)
		states += st.States
		trans += st.Transitions
		traces += st.JointReplays
		if st.Capped {
			r.Cap("state cap hit in " + j.sc.Name)
		}
		mode := j.mode
		if mode == "" {
			mode = "all schedules (decomposed)"
		} else {
			mode = fmt.Sprintf("complete runs with <=%d deviations from FIFO", j.devs)
		}
		r.Distinct("terminal_outcomes", fmt.Sprintf("%s#%d", j.sc.Name, st.DistinctOutcomes))
		r.Set("cfg:"+j.sc.Name, map[string]interface{}{"mode": mode, "states": st.States, "transitions": st.Transitions, "terminal_states_or_runs": st.Terminals,
			"distinct_terminal_outcomes": st.DistinctOutcomes, "joint_replays": st.JointReplays})
		if len(st.Samples) > 0 {
			r.Sample(6, st.Samples[0])
		}
		fmt.Printf("  %-50s %-45s states=%d trans=%d terminals/runs=%d outcomes=%d\n", j.sc.Name, mode, st.States, st.Transitions, st.Terminals, st.DistinctOutcomes)
	}
	refusals(r)
	r.Set("states", states)
	r.Set("transitions", trans)
	r.Set("traces_validated_against_impl", traces)
	r.Set("oracle", "in every terminal state: identical public view at all parties; Xi*G = BigXj[i]; every (t+1)-subset interpolates (in the exponent and on the secrets) to the group key and to every other party's public share (degree <= t); group key = sum of the constant-term commitments opened in the round-2 broadcasts; per-index slots hold the right party's Paillier modulus / NTilde / h1 / h2 / id; Paillier private key consistent")
	r.Assume("party independence validated by joint replays (traces_validated_against_impl)")
	r.Assume("ECDSA parties use the 5 vendored pre-parameter sets (n <= 5)")
	r.Set("process_default_curve", "set to the other curve than the protocol's (edwards25519 while ECDSA runs, secp256k1 while EdDSA runs)")
}

// refusals: inadmissible party-key sets (an id that is 0 modulo the group order, two ids congruent
// modulo it) must be REFUSED: no party may hand over key data (DESIGN 3a: positive runs use admissible
// configurations only, the others are checked as refused).
func refusals(r *core.Run) {
	for _, cv := range []struct {
		proto netrun.Proto
		c     *ref.Curve
	}{{netrun.EddsaKeygen, ref.Ed25519}, {netrun.EcdsaKeygen, ref.Secp256k1}} {
		q := cv.c.N
		k := big.NewInt(5)
		sets := map[string][]*big.Int{
			"k,k+q,7":  {k, new(big.Int).Add(k, q), big.NewInt(7)},
			"k,k+2q,7": {k, new(big.Int).Add(k, new(big.Int).Lsh(q, 1)), big.NewInt(7)},
			"q,3,4":    {new(big.Int).Set(q), big.NewInt(3), big.NewInt(4)},
			"2q,3,4":   {new(big.Int).Lsh(q, 1), big.NewInt(3), big.NewInt(4)},
			"3,3,4":    {big.NewInt(3), big.NewInt(3), big.NewInt(4)},
		}
		for name, ids := range sets {
			cfg := netrun.Config{Proto: cv.proto, Keys: ids, Threshold: 1, Seed: r.Seed, Label: "refusal-" + name, PreParams: fix.PreParams()}
			nw, err := netrun.New(cfg)
			r.Count("refusal_runs", 1)
			if err != nil {
				continue // refused at construction: fine
			}
			nw.RunFIFO()
			for p, n := range nw.Nodes {
				if len(n.Ends) > 0 {
					r.Violate(fmt.Sprintf("%s/inadmissible-ids-accepted/%s", cv.proto, name), fmt.Sprintf("keygen handed over key data at party %d for the inadmissible id set {%s} (an id 0 modulo the group order / two ids congruent modulo it)", p, name), name)
					break
				}
			}
		}
	}
}
