// Package c03: check for property C03 (stub until implemented).
package c03

import "verif/internal/core"

// Implemented reports whether this check is built.
const Implemented = false

func Run(r *core.Run) { r.Cap("not implemented") }
