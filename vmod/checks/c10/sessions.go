package c10

import (
	"fmt"
	"math/big"

	"github.com/bnb-chain/tss-lib/v2/tss"

	"verif/internal/core"
)

// runSessionBuffers: a prover that builds its session strings in ONE reused buffer (proves under session A,
// overwrites the same bytes with session B of equal length, proves under B, ...). Every proof must be accepted
// by a verifier that holds its own copies of the sessions, verifying in another order than the proofs were made.
func runSessionBuffers(r *core.Run, ps []Params) {
	sessA := [][]byte{[]byte("session-A-0001"), []byte("session-B-0002"), []byte("session-C-0003")}
	type made struct {
		sys    string
		sess   []byte // the verifier's own copy
		verify func(sess []byte) bool
	}
	var all []made
	buf := make([]byte, len(sessA[0]), 64)
	for si, s := range sessA {
		copy(buf, s) // overwrite in place
		own := append([]byte{}, s...)
		for _, ec := range []struct {
			name string
			c    interface{}
		}{{"secp256k1", nil}, {"ed25519", nil}} {
			cv := tss.S256()
			if ec.name == "ed25519" {
				cv = tss.Edwards()
			}
			label := fmt.Sprintf("c10/session-buffer/%s/%d", ec.name, si)
			if pf, X, err := BuildSchnorr(cv, buf, big.NewInt(int64(7+si)), label); err == nil {
				pf, X := pf, X
				all = append(all, made{"schnorr@" + ec.name, own, func(s []byte) bool { return pf.Verify(s, X) }})
			}
			R := MulG(cv, big.NewInt(5))
			if pf, V, err := BuildSchnorrV(cv, buf, R, big.NewInt(int64(3+si)), big.NewInt(11), label+"/v"); err == nil {
				pf, V := pf, V
				all = append(all, made{"schnorrv@" + ec.name, own, func(s []byte) bool { return pf.Verify(s, V, R) }})
			}
		}
		if len(ps) > 1 {
			p0, p1 := ps[0], ps[1]
			if pf, err := BuildFac(p0, p1, tss.S256(), buf, fmt.Sprintf("c10/session-buffer/fac/%d", si)); err == nil {
				pf := pf
				all = append(all, made{"fac", own, func(s []byte) bool { return pf.Verify(s, tss.S256(), p0.SK.N, p1.NTilde, p1.H1, p1.H2) }})
			}
			if si < 2 {
				if pf, err := BuildMod(p0, buf, false, fmt.Sprintf("c10/session-buffer/mod/%d", si)); err == nil {
					pf := pf
					all = append(all, made{"mod", own, func(s []byte) bool { return pf.Verify(s, p0.SK.N) }})
				}
			}
		}
	}
	// verify in reverse order of creation (whatever the prover's calls left behind is no longer current)
	for i := len(all) - 1; i >= 0; i-- {
		m := all[i]
		r.Count("session_buffer_proofs", 1)
		ok := false
		pan, _ := Guard(func() { ok = m.verify(append([]byte{}, m.sess...)) })
		if pan != nil || !ok {
			r.Violate(m.sys+"/session-built-in-a-reused-buffer/verify-rejected", "an honest proof whose session string was built in a buffer the prover reuses for the next session is rejected by a verifier holding its own copy of that session", map[string]string{"system": m.sys, "session": string(m.sess), "panic": fmt.Sprint(pan)})
		}
	}
}
