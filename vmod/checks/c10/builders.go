package c10

// Honest-proof builders, wire encoders/parsers and small helpers shared by the C10 and C12 checks.
// Everything here only *uses* the library's provers (with a deterministic byte stream) and parsers;
// no oracle lives in this file.

import (
	"crypto/elliptic"
	"errors"
	"fmt"
	"math/big"
	"time"

	"github.com/bnb-chain/tss-lib/v2/common"
	"github.com/bnb-chain/tss-lib/v2/crypto"
	"github.com/bnb-chain/tss-lib/v2/crypto/dlnproof"
	"github.com/bnb-chain/tss-lib/v2/crypto/facproof"
	"github.com/bnb-chain/tss-lib/v2/crypto/modproof"
	"github.com/bnb-chain/tss-lib/v2/crypto/mta"
	"github.com/bnb-chain/tss-lib/v2/crypto/paillier"
	"github.com/bnb-chain/tss-lib/v2/crypto/schnorr"
	"github.com/bnb-chain/tss-lib/v2/tss"

	"verif/internal/core"
	"verif/internal/fix"
)

var (
	big0 = big.NewInt(0)
	big1 = big.NewInt(1)
	big2 = big.NewInt(2)
)

// Params is one vendored parameter set (Paillier key + ring-Pedersen parameters with their trapdoors).
type Params struct {
	Idx    int
	SK     *paillier.PrivateKey
	PK     *paillier.PublicKey
	NTilde *big.Int
	H1, H2 *big.Int
	Alpha  *big.Int // H2 = H1^Alpha mod NTilde
	Beta   *big.Int // H1 = H2^Beta  mod NTilde
	P, Q   *big.Int // Sophie Germain primes: NTilde = (2P+1)(2Q+1)
	PQ     *big.Int // P*Q, the order of the group of squares modulo NTilde
	Pub    *crypto.ECPoint
	Key    *big.Int // the party key (ShareID) stored in the fixture
}

// LoadParams returns the 5 vendored parameter sets; it panics when a fixture does not have the
// structure the provers assume (that would be an infrastructure problem, not a finding).
func LoadParams() []Params {
	fx := fix.EcFixtures()
	out := make([]Params, len(fx))
	for i := range fx {
		f := fx[i]
		p := Params{Idx: i, SK: f.PaillierSK, PK: &paillier.PublicKey{N: f.PaillierSK.N}, NTilde: f.NTildei, H1: f.H1i, H2: f.H2i,
			Alpha: f.Alpha, Beta: f.Beta, P: f.P, Q: f.Q, Pub: f.ECDSAPub, Key: f.ShareID}
		p.PQ = new(big.Int).Mul(p.P, p.Q)
		P2 := new(big.Int).Add(new(big.Int).Lsh(p.P, 1), big1)
		Q2 := new(big.Int).Add(new(big.Int).Lsh(p.Q, 1), big1)
		if new(big.Int).Mul(P2, Q2).Cmp(p.NTilde) != 0 ||
			new(big.Int).Exp(p.H1, p.Alpha, p.NTilde).Cmp(p.H2) != 0 ||
			new(big.Int).Exp(p.H2, p.Beta, p.NTilde).Cmp(p.H1) != 0 ||
			new(big.Int).Mul(p.SK.P, p.SK.Q).Cmp(p.SK.N) != 0 {
			panic(fmt.Sprintf("fixture %d does not have the expected structure", i))
		}
		out[i] = p
	}
	return out
}

// Pairs returns the ordered pairs (prover set, verifier set) used for the two-sided proofs.
// quick: 4 off-diagonal pairs touching all 5 sets; thorough: all 20 off-diagonal pairs; diag adds (i,i).
func Pairs(tier string, diag bool) [][2]int {
	if tier != "thorough" {
		ps := [][2]int{{0, 1}, {2, 3}, {4, 0}, {1, 4}}
		if diag {
			ps = append(ps, [2]int{3, 3})
		}
		return ps
	}
	var ps [][2]int
	for i := 0; i < 5; i++ {
		for j := 0; j < 5; j++ {
			if i != j || diag {
				ps = append(ps, [2]int{i, j})
			}
		}
	}
	return ps
}

type NamedInt struct {
	Name string
	V    *big.Int
}

type NamedBytes struct {
	Name string
	B    []byte
}

// Generic derives a fixed generic value in [2, below) from a label.
func Generic(label string, below *big.Int) *big.Int {
	n := (below.BitLen()+7)/8 + 8
	v := new(big.Int).SetBytes(core.Bytes("generic/"+label, n))
	m := new(big.Int).Sub(below, big2)
	if m.Sign() <= 0 {
		return big.NewInt(2)
	}
	v.Mod(v, m)
	return v.Add(v, big2)
}

// GenericUnit derives a fixed generic unit modulo n.
func GenericUnit(label string, n *big.Int) *big.Int {
	for k := 0; ; k++ {
		v := Generic(fmt.Sprintf("%s/%d", label, k), n)
		if new(big.Int).GCD(nil, nil, v, n).Cmp(big1) == 0 {
			return v
		}
	}
}

// ScalarAlphabet is the witness alphabet of DESIGN C10 for a secret living modulo q.
func ScalarAlphabet(q *big.Int, zero bool) []NamedInt {
	out := []NamedInt{}
	if zero {
		out = append(out, NamedInt{"0", big.NewInt(0)})
	}
	out = append(out,
		NamedInt{"1", big.NewInt(1)},
		NamedInt{"2", big.NewInt(2)},
		NamedInt{"q-1", new(big.Int).Sub(q, big1)},
		NamedInt{"q-2", new(big.Int).Sub(q, big2)},
		NamedInt{"2^248", new(big.Int).Lsh(big1, 248)},
		NamedInt{"g1", Generic("scalar/g1", q)},
		NamedInt{"g2", Generic("scalar/g2", q)},
	)
	return out
}

// Sessions is the session alphabet {empty, 1 byte, 32 bytes, 1 kB}.
func Sessions() []NamedBytes {
	return []NamedBytes{
		{"empty", []byte{}},
		{"1B", []byte{0x00}},
		{"32B", core.Bytes("session/32", 32)},
		{"1kB", core.Bytes("session/1k", 1024)},
	}
}

func CurveName(ec elliptic.Curve) string {
	if n, ok := tss.GetCurveName(ec); ok {
		return string(n)
	}
	return "?"
}

// MulG returns k*G for k != 0 mod q without touching the library's panicking zero case.
func MulG(ec elliptic.Curve, k *big.Int) *crypto.ECPoint {
	x, y := ec.ScalarBaseMult(new(big.Int).Mod(k, ec.Params().N).Bytes())
	return crypto.NewECPointNoCurveCheck(ec, x, y)
}

func MulP(p *crypto.ECPoint, k *big.Int) *crypto.ECPoint {
	ec := p.Curve()
	x, y := ec.ScalarMult(p.X(), p.Y(), new(big.Int).Mod(k, ec.Params().N).Bytes())
	return crypto.NewECPointNoCurveCheck(ec, x, y)
}

func AddP(a, b *crypto.ECPoint) *crypto.ECPoint {
	ec := a.Curve()
	x, y := ec.Add(a.X(), a.Y(), b.X(), b.Y())
	return crypto.NewECPointNoCurveCheck(ec, x, y)
}

func NegP(a *crypto.ECPoint) *crypto.ECPoint {
	ec := a.Curve()
	p := ec.Params().P
	if CurveName(ec) == string(tss.Ed25519) {
		// twisted Edwards: -(x,y) = (-x,y)
		return crypto.NewECPointNoCurveCheck(ec, new(big.Int).Mod(new(big.Int).Neg(a.X()), p), a.Y())
	}
	return crypto.NewECPointNoCurveCheck(ec, a.X(), new(big.Int).Mod(new(big.Int).Neg(a.Y()), p))
}

// Guard runs f with panic recovery and a watchdog. It returns the recovered panic value (nil if none)
// and whether the call did not finish within the watchdog time.
func Guard(f func()) (pan interface{}, hung bool) {
	done := make(chan interface{}, 1)
	go func() {
		defer func() { done <- recover() }()
		f()
	}()
	select {
	case p := <-done:
		return p, false
	case <-time.After(240 * time.Second):
		return nil, true
	}
}

// Enc is the wire encoding of one integer part; zero is sent as the single byte 0x00 (an empty part is
// refused by the message layer before any proof code runs).
func Enc(v *big.Int) []byte {
	b := v.Bytes()
	if len(b) == 0 {
		return []byte{0}
	}
	return b
}

func EncAll(vs []*big.Int) [][]byte {
	out := make([][]byte, len(vs))
	for i, v := range vs {
		out[i] = Enc(v)
	}
	return out
}

func dec(b []byte) *big.Int { return new(big.Int).SetBytes(b) }

// ---------------------------------------------------------------- Schnorr

func BuildSchnorr(ec elliptic.Curve, session []byte, x *big.Int, label string) (*schnorr.ZKProof, *crypto.ECPoint, error) {
	X := MulG(ec, x)
	pf, err := schnorr.NewZKProof(session, x, X, core.NewDRBG(label))
	return pf, X, err
}

// PeerCurve returns the curve object another party (another process) would hold for the same curve: an
// equivalent but distinct object where the library can build one (tss.Edwards() builds a fresh one per call;
// secp256k1 is a process-wide singleton).
func PeerCurve(ec elliptic.Curve) elliptic.Curve {
	if CurveName(ec) == string(tss.Ed25519) {
		return tss.Edwards()
	}
	return ec
}

// OnPeerCurve rebuilds a point from its coordinates on the peer's curve object.
func OnPeerCurve(p *crypto.ECPoint) *crypto.ECPoint {
	q, err := crypto.NewECPoint(PeerCurve(p.Curve()), p.X(), p.Y())
	if err != nil {
		return p
	}
	return q
}

// SchnorrNonce replays the prover's first draw (the nonce a) for a label.
func SchnorrNonce(ec elliptic.Curve, label string) *big.Int {
	return common.GetRandomPositiveInt(core.NewDRBG(label), ec.Params().N)
}

func SchnorrFlat(pf *schnorr.ZKProof) []*big.Int {
	return []*big.Int{pf.Alpha.X(), pf.Alpha.Y(), pf.T}
}

var SchnorrNames = []string{"AlphaX", "AlphaY", "T"}

// SchnorrParse is what every Unmarshal*ZKProof of the message layer does.
func SchnorrParse(ec elliptic.Curve, bzs [][]byte) (*schnorr.ZKProof, error) {
	if len(bzs) != 3 {
		return nil, errors.New("expected 3 parts")
	}
	pt, err := crypto.NewECPoint(ec, dec(bzs[0]), dec(bzs[1]))
	if err != nil {
		return nil, err
	}
	return &schnorr.ZKProof{Alpha: pt, T: dec(bzs[2])}, nil
}

// BuildSchnorrV builds V = s*R + l*G (s or l may be 0, not both) and the library's proof for it.
func BuildSchnorrV(ec elliptic.Curve, session []byte, R *crypto.ECPoint, s, l *big.Int, label string) (*schnorr.ZKVProof, *crypto.ECPoint, error) {
	q := ec.Params().N
	var V *crypto.ECPoint
	sz := new(big.Int).Mod(s, q).Sign() == 0
	lz := new(big.Int).Mod(l, q).Sign() == 0
	switch {
	case sz && lz:
		return nil, nil, errors.New("V would be the identity")
	case sz:
		V = MulG(ec, l)
	case lz:
		V = MulP(R, s)
	default:
		V = AddP(MulP(R, s), MulG(ec, l))
	}
	if !V.IsOnCurve() || (CurveName(ec) == string(tss.Ed25519) && V.X().Sign() == 0 && V.Y().Cmp(big1) == 0) {
		return nil, nil, errors.New("V is the identity")
	}
	pf, err := schnorr.NewZKVProof(session, V, R, s, l, core.NewDRBG(label))
	return pf, V, err
}

// SchnorrVNonces replays the prover's two draws (a, b).
func SchnorrVNonces(ec elliptic.Curve, label string) (*big.Int, *big.Int) {
	d := core.NewDRBG(label)
	q := ec.Params().N
	a := common.GetRandomPositiveInt(d, q)
	b := common.GetRandomPositiveInt(d, q)
	return a, b
}

func SchnorrVFlat(pf *schnorr.ZKVProof) []*big.Int {
	return []*big.Int{pf.Alpha.X(), pf.Alpha.Y(), pf.T, pf.U}
}

var SchnorrVNames = []string{"AlphaX", "AlphaY", "T", "U"}

func SchnorrVParse(ec elliptic.Curve, bzs [][]byte) (*schnorr.ZKVProof, error) {
	if len(bzs) != 4 {
		return nil, errors.New("expected 4 parts")
	}
	pt, err := crypto.NewECPoint(ec, dec(bzs[0]), dec(bzs[1]))
	if err != nil {
		return nil, err
	}
	return &schnorr.ZKVProof{Alpha: pt, T: dec(bzs[2]), U: dec(bzs[3])}, nil
}

// ---------------------------------------------------------------- dln

// DLNStatement returns (h1, h2, x) with h2 = h1^x mod NTilde for direction 0 (H1,H2,Alpha) or 1 (H2,H1,Beta).
func DLNStatement(p Params, dir int) (h1, h2, x *big.Int) {
	if dir == 0 {
		return p.H1, p.H2, p.Alpha
	}
	return p.H2, p.H1, p.Beta
}

func BuildDLN(p Params, h1, h2, x *big.Int, label string) *dlnproof.Proof {
	return dlnproof.NewDLNProof(h1, h2, x, p.P, p.Q, p.NTilde, core.NewDRBG(label))
}

// DLNNonces replays the prover's 128 draws.
func DLNNonces(p Params, label string) []*big.Int {
	d := core.NewDRBG(label)
	out := make([]*big.Int, dlnproof.Iterations)
	for i := range out {
		out[i] = common.GetRandomPositiveInt(d, p.PQ)
	}
	return out
}

func DLNFlat(pf *dlnproof.Proof) []*big.Int {
	out := make([]*big.Int, 0, 2*dlnproof.Iterations)
	out = append(out, pf.Alpha[:]...)
	out = append(out, pf.T[:]...)
	return out
}

func DLNNames() []string {
	out := make([]string, 0, 2*dlnproof.Iterations)
	for i := 0; i < dlnproof.Iterations; i++ {
		out = append(out, fmt.Sprintf("Alpha[%d]", i))
	}
	for i := 0; i < dlnproof.Iterations; i++ {
		out = append(out, fmt.Sprintf("T[%d]", i))
	}
	return out
}

// DLNFromFlat rebuilds the wire form (length-prefixed parts, as Serialize produces) from 256 integers and parses it.
func DLNFromFlat(flat []*big.Int) (*dlnproof.Proof, error) {
	if len(flat) != 2*dlnproof.Iterations {
		return nil, errors.New("expected 256 integers")
	}
	bzs := make([][]byte, 0, 2+len(flat))
	bzs = append(bzs, big.NewInt(dlnproof.Iterations).Bytes())
	for _, v := range flat[:dlnproof.Iterations] {
		bzs = append(bzs, Enc(v))
	}
	bzs = append(bzs, big.NewInt(dlnproof.Iterations).Bytes())
	for _, v := range flat[dlnproof.Iterations:] {
		bzs = append(bzs, Enc(v))
	}
	return dlnproof.UnmarshalDLNProof(bzs)
}

// ---------------------------------------------------------------- Paillier key proof

func PaillierFlat(pf paillier.Proof) []*big.Int {
	out := make([]*big.Int, len(pf))
	copy(out, pf[:])
	return out
}

func PaillierNames() []string {
	out := make([]string, paillier.ProofIters)
	for i := range out {
		out[i] = fmt.Sprintf("pi[%d]", i)
	}
	return out
}

// PaillierParse is KGRound3Message.UnmarshalProofInts.
func PaillierParse(bzs [][]byte) (paillier.Proof, error) {
	var pf paillier.Proof
	if !common.NonEmptyMultiBytes(bzs, paillier.ProofIters) {
		return pf, errors.New("expected 13 non-empty parts")
	}
	for i := range pf {
		pf[i] = dec(bzs[i])
	}
	return pf, nil
}

// ---------------------------------------------------------------- mod

func BuildMod(p Params, session []byte, swapPQ bool, label string) (*modproof.ProofMod, error) {
	P, Q := p.SK.P, p.SK.Q
	if swapPQ {
		P, Q = Q, P
	}
	return modproof.NewProof(session, p.SK.N, P, Q, core.NewDRBG(label))
}

func ModFlat(pf *modproof.ProofMod) []*big.Int {
	out := make([]*big.Int, 0, modproof.ProofModBytesParts)
	out = append(out, pf.W)
	out = append(out, pf.X[:]...)
	out = append(out, pf.A, pf.B)
	out = append(out, pf.Z[:]...)
	return out
}

func ModNames() []string {
	out := []string{"W"}
	for i := 0; i < modproof.Iterations; i++ {
		out = append(out, fmt.Sprintf("X[%d]", i))
	}
	out = append(out, "A", "B")
	for i := 0; i < modproof.Iterations; i++ {
		out = append(out, fmt.Sprintf("Z[%d]", i))
	}
	return out
}

// ---------------------------------------------------------------- fac

func BuildFac(prover, verifier Params, ec elliptic.Curve, session []byte, label string) (*facproof.ProofFac, error) {
	return facproof.NewProof(session, ec, prover.SK.N, verifier.NTilde, verifier.H1, verifier.H2, prover.SK.P, prover.SK.Q, core.NewDRBG(label))
}

// FacFirstMask replays the prover's first draw (alpha, the mask of z1).
func FacFirstMask(prover Params, ec elliptic.Curve, label string) *big.Int {
	q := ec.Params().N
	q3 := new(big.Int).Mul(q, new(big.Int).Mul(q, q))
	b := new(big.Int).Mul(q3, new(big.Int).Sqrt(prover.SK.N))
	return common.GetRandomPositiveInt(core.NewDRBG(label), b)
}

func FacFlat(pf *facproof.ProofFac) []*big.Int {
	return []*big.Int{pf.P, pf.Q, pf.A, pf.B, pf.T, pf.Sigma, pf.Z1, pf.Z2, pf.W1, pf.W2, pf.V}
}

var FacNames = []string{"P", "Q", "A", "B", "T", "Sigma", "Z1", "Z2", "W1", "W2", "V"}

// ---------------------------------------------------------------- MtA: Alice's range proof

type RangeCase struct {
	Pf   *mta.RangeProofAlice
	C, R *big.Int // ciphertext of m under the prover's key and its randomness
}

func BuildRange(prover, verifier Params, ec elliptic.Curve, m *big.Int, label string) (*RangeCase, error) {
	d := core.NewDRBG(label)
	c, rr, err := prover.PK.EncryptAndReturnRandomness(d, m)
	if err != nil {
		return nil, err
	}
	pf, err := mta.ProveRangeAlice(ec, prover.PK, c, verifier.NTilde, verifier.H1, verifier.H2, m, rr, core.NewDRBG(label+"/prove"))
	if err != nil {
		return nil, err
	}
	return &RangeCase{Pf: pf, C: c, R: rr}, nil
}

// RangeFirstMask replays the prover's first draw (alpha, the mask of s1) for BuildRange's label.
func RangeFirstMask(ec elliptic.Curve, label string) *big.Int {
	q := ec.Params().N
	q3 := new(big.Int).Mul(q, new(big.Int).Mul(q, q))
	return common.GetRandomPositiveInt(core.NewDRBG(label+"/prove"), q3)
}

func RangeFlat(pf *mta.RangeProofAlice) []*big.Int {
	return []*big.Int{pf.Z, pf.U, pf.W, pf.S, pf.S1, pf.S2}
}

var RangeNames = []string{"Z", "U", "W", "S", "S1", "S2"}

// ---------------------------------------------------------------- MtA: Bob's proofs

type BobCase struct {
	Pf     *mta.ProofBob
	PfWC   *mta.ProofBobWC
	C1, C2 *big.Int
	X      *crypto.ECPoint // x*G (only for the "with check" variant)
	RY     *big.Int        // randomness of Enc(y)
}

// BuildBob: keyOwner supplies the Paillier key, ring the ring-Pedersen parameters (the protocol uses the same
// party for both; the API allows any combination). c1 = Enc(a) for a fixed generic a, c2 = c1^x * Enc(y).
func BuildBob(keyOwner, ring Params, ec elliptic.Curve, session []byte, x, y *big.Int, wc bool, label string) (*BobCase, error) {
	pk := keyOwner.PK
	q := ec.Params().N
	a := Generic("bob/a", q)
	c1, err := pk.Encrypt(core.NewDRBG(label+"/c1"), a)
	if err != nil {
		return nil, err
	}
	cy, ry, err := pk.EncryptAndReturnRandomness(core.NewDRBG(label+"/cy"), y)
	if err != nil {
		return nil, err
	}
	c2, err := pk.HomoMult(x, c1)
	if err != nil {
		return nil, err
	}
	c2, err = pk.HomoAdd(c2, cy)
	if err != nil {
		return nil, err
	}
	bc := &BobCase{C1: c1, C2: c2, RY: ry}
	if wc {
		bc.X = MulG(ec, x)
		pf, err := mta.ProveBobWC(session, ec, pk, ring.NTilde, ring.H1, ring.H2, c1, c2, x, y, ry, bc.X, core.NewDRBG(label+"/prove"))
		if err != nil {
			return nil, err
		}
		bc.PfWC = pf
		bc.Pf = pf.ProofBob
		return bc, nil
	}
	pf, err := mta.ProveBob(session, ec, pk, ring.NTilde, ring.H1, ring.H2, c1, c2, x, y, ry, core.NewDRBG(label+"/prove"))
	if err != nil {
		return nil, err
	}
	bc.Pf = pf
	return bc, nil
}

// BobFirstMask replays the prover's first draw (alpha, the mask of s1) for BuildBob's label.
func BobFirstMask(ec elliptic.Curve, label string) *big.Int {
	q := ec.Params().N
	q3 := new(big.Int).Mul(q, new(big.Int).Mul(q, q))
	return common.GetRandomPositiveInt(core.NewDRBG(label+"/prove"), q3)
}

func BobFlat(pf *mta.ProofBob) []*big.Int {
	return []*big.Int{pf.Z, pf.ZPrm, pf.T, pf.V, pf.W, pf.S, pf.S1, pf.S2, pf.T1, pf.T2}
}

var BobNames = []string{"Z", "ZPrm", "T", "V", "W", "S", "S1", "S2", "T1", "T2"}

func BobWCFlat(pf *mta.ProofBobWC) []*big.Int {
	return append(BobFlat(pf.ProofBob), pf.U.X(), pf.U.Y())
}

var BobWCNames = append(append([]string{}, BobNames...), "UX", "UY")

// Q5 returns q^5, the bound of Bob's mask beta'.
func Q5(ec elliptic.Curve) *big.Int {
	q := ec.Params().N
	return new(big.Int).Exp(q, big.NewInt(5), nil)
}
