package c10

import (
	"encoding/json"
	"fmt"
	"os"
	"os/exec"
	"sort"
	"strings"

	"verif/internal/core"
)

// The order in which one process uses the curves is a history of its own (anything computed once per process
// from the first curve seen would be wrong for the other): two worker processes run a slice of the curve-
// parametrised proof systems (fac, range, Bob, Bob-WC, Schnorr, Schnorr-V) with all edwards25519 cases first
// and with all secp256k1 cases first, one case after the other.

func init() {
	prev := core.WorkerHook
	core.WorkerHook = func(args []string) int {
		if len(args) >= 2 && args[0] == "c10-order" {
			return orderWorker(args[1], args[2:])
		}
		if prev != nil {
			return prev(args)
		}
		return 2
	}
}

type orderFail struct {
	Canon  string `json:"canon"`
	Sys    string `json:"sys"`
	Stage  string `json:"stage"`
	Detail string `json:"detail"`
}

func orderCases(c *runner, ps []Params, first string) []*kase {
	pairsDiag := Pairs("quick", true)
	c.schnorrAll()
	c.schnorrVAll()
	c.facAll(ps, pairsDiag[:1])
	c.rangeAll(ps, pairsDiag[:1])
	c.bobAll(ps, pairsDiag[:1], map[[2]int]bool{})
	isEd := func(k *kase) bool { return strings.Contains(k.canon, "ed25519") }
	var ed, sp []*kase
	perSys := map[string]int{}
	for _, k := range c.cases {
		key := k.sys + fmt.Sprint(isEd(k))
		if perSys[key] >= 6 { // a few cases per proof system and curve are enough to expose a per-process memo
			continue
		}
		perSys[key]++
		if isEd(k) {
			ed = append(ed, k)
		} else {
			sp = append(sp, k)
		}
	}
	if first == "ed25519-first" {
		return append(append(ed, sp...), ed...)
	}
	return append(append(sp, ed...), sp...)
}

func orderWorker(first string, _ []string) int {
	r := core.NewRun("C10", "quick", "exploration", "order-worker")
	c := &runner{r: r}
	var fails []orderFail
	for _, k := range orderCases(c, LoadParams(), first) {
		var stage, detail string
		pan, hung := Guard(func() { stage, detail = k.run(k) })
		switch {
		case hung:
			stage = "hang"
		case pan != nil:
			stage, detail = "panic", fmt.Sprint(pan)
		}
		if stage != "" {
			fails = append(fails, orderFail{k.canon, k.sys, stage, detail})
		}
	}
	_ = json.NewEncoder(os.Stdout).Encode(fails)
	return 0
}

// runOrders is called by Run: both curve orders in worker processes.
func runOrders(r *core.Run) {
	bin := os.Getenv("VERIF_BIN")
	if bin == "" {
		r.Cap("curve-order histories skipped: VERIF_BIN not set")
		return
	}
	for _, first := range []string{"ed25519-first", "secp256k1-first"} {
		out, err := exec.Command(bin, "worker", "c10-order", first).Output()
		r.Count("curve_order_processes", 1)
		var fails []orderFail
		if err != nil || json.Unmarshal(out, &fails) != nil {
			r.Violate("order/"+first+"/worker-died", fmt.Sprintf("the worker process for curve order %s died or gave no result: %v", first, err), string(out))
			continue
		}
		sort.Slice(fails, func(i, j int) bool { return fails[i].Canon < fails[j].Canon })
		seen := map[string]bool{}
		for _, f := range fails {
			k := fmt.Sprintf("%s/depends-on-curve-order/%s/%s", f.Sys, first, f.Stage)
			if !seen[k] {
				seen[k] = true
				r.Violate(k, "an honest proof fails when the process has used the curves in this order (each case runs alone, one after the other): "+f.Stage+" "+f.Detail, f)
			}
		}
	}
}
