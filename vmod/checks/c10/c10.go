// Package c10: check for property C10 (stub until implemented).
package c10

import "verif/internal/core"

// Implemented reports whether this check is built.
const Implemented = false

func Run(r *core.Run) { r.Cap("not implemented") }
