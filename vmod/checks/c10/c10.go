// Package c10: every honestly generated zero-knowledge proof verifies, also after encoding (ENUM).
//
// Enumerated space: proof system x witness alphabet x vendored parameter sets (ordered pairs where two
// sides are involved) x curves (Schnorr, Schnorr-V) x session strings {empty, 1 byte, 32 bytes, 1 kB}.
// Oracle (a transcription of the property): the library's prover, given a true statement and valid
// parameters, must produce a proof that the library's verifier accepts under the same session; the proof
// must survive serialisation to its wire parts and parsing back with every component reproduced, and the
// parsed proof must be accepted again.
package c10

import (
	"crypto/elliptic"
	"fmt"
	"math/big"
	"regexp"
	"runtime"
	"sort"
	"sync"
	"sync/atomic"

	"github.com/bnb-chain/tss-lib/v2/crypto"
	cmt "github.com/bnb-chain/tss-lib/v2/crypto/commitments"
	"github.com/bnb-chain/tss-lib/v2/crypto/dlnproof"
	"github.com/bnb-chain/tss-lib/v2/crypto/facproof"
	"github.com/bnb-chain/tss-lib/v2/crypto/modproof"
	"github.com/bnb-chain/tss-lib/v2/crypto/mta"
	"github.com/bnb-chain/tss-lib/v2/crypto/paillier"
	"github.com/bnb-chain/tss-lib/v2/crypto/schnorr"
	eckeygen "github.com/bnb-chain/tss-lib/v2/ecdsa/keygen"
	ecsigning "github.com/bnb-chain/tss-lib/v2/ecdsa/signing"
	edkeygen "github.com/bnb-chain/tss-lib/v2/eddsa/keygen"
	"github.com/bnb-chain/tss-lib/v2/tss"

	"verif/internal/core"
)

// Implemented reports whether this check is built.
const Implemented = true

type kase struct {
	sys   string
	canon string // canonical description: distinct string = distinct case
	class string // value class used in violation keys (no parameter-set numbers)
	rec   map[string]interface{}
	run   func(k *kase) (stage string, detail string) // "" = pass
}

type failure struct {
	k             *kase
	stage, detail string
}

type runner struct {
	r     *core.Run
	cases []*kase
	evals int64
	mu    sync.Mutex
	fails []failure
}

func (c *runner) add(k *kase) { c.cases = append(c.cases, k) }

func hx(v *big.Int) string {
	if v == nil {
		return "nil"
	}
	return v.Text(16)
}

func (c *runner) exec(k *kase) {
	atomic.AddInt64(&c.evals, 1)
	c.r.Distinct("cases", k.canon)
	c.r.Count("cases_"+k.sys, 1)
	var stage, detail string
	pan, hung := Guard(func() { stage, detail = k.run(k) })
	k.rec["case"] = k.canon
	switch {
	case hung:
		c.r.Violate(k.sys+"/honest/"+k.class+":hang", "prover/verifier/parser did not return within 240 s on an honest case", k.rec)
	case pan != nil:
		k.rec["panic"] = fmt.Sprint(pan)
		c.r.Violate(k.sys+"/honest/"+k.class+":panic", "panic on an honest case: "+fmt.Sprint(pan), k.rec)
	case stage != "":
		k.rec["detail"] = detail
		c.mu.Lock()
		c.fails = append(c.fails, failure{k, stage, detail})
		c.mu.Unlock()
		c.r.Distinct("outcomes", k.sys+"/"+stage)
	default:
		c.r.Distinct("outcomes", k.sys+"/accepted+roundtrip")
		c.r.Sample(8, k.rec)
	}
}

var idxRe = regexp.MustCompile(`\[\d+\]`)

// report turns the collected failures into violations. When every case of a proof system fails in the same way the
// finding does not depend on the witness/session class and is reported once; otherwise one finding per value class.
func (c *runner) report() {
	sort.Slice(c.fails, func(i, j int) bool { return c.fails[i].k.canon < c.fails[j].k.canon })
	perSys := map[string]int{}
	for _, k := range c.cases {
		perSys[k.sys]++
	}
	groups := map[string]int{}
	gkey := func(f failure) string { return f.k.sys + "/" + f.stage + "/" + f.detail }
	for _, f := range c.fails {
		groups[gkey(f)]++
	}
	for _, f := range c.fails {
		what := "honest proof: " + f.stage + " " + f.detail
		stage := f.stage
		if stage == "roundtrip-component" {
			stage += "/" + idxRe.ReplaceAllString(f.detail, "[i]")
		}
		if groups[gkey(f)] == perSys[f.k.sys] {
			f.k.rec["failing_cases"] = groups[gkey(f)]
			c.r.Violate(f.k.sys+"/"+stage+"/every-case", what+" (every enumerated case of this proof system)", f.k.rec)
			continue
		}
		c.r.Violate(f.k.sys+"/"+stage+"/"+f.k.class, what, f.k.rec)
	}
}

// sameInts compares two flat component lists.
func sameInts(names []string, a, b []*big.Int) (string, string) {
	if len(a) != len(b) {
		return "roundtrip-arity", fmt.Sprintf("%d vs %d parts", len(a), len(b))
	}
	for i := range a {
		if a[i] == nil || b[i] == nil || a[i].Cmp(b[i]) != 0 {
			n := fmt.Sprint(i)
			if i < len(names) {
				n = names[i]
			}
			return "roundtrip-component", n
		}
	}
	return "", ""
}

func (c *runner) noteShort(sys string, parts [][]byte, nominal []int) {
	for i, p := range parts {
		if i < len(nominal) && len(p) < nominal[i] {
			c.r.Count("short_encodings_"+sys, 1)
		}
	}
}

func fromID() *tss.PartyID {
	id := tss.NewPartyID("1", "P1", big.NewInt(1))
	id.Index = 0
	return id
}

// wireRoundTrip marshals a message to wire bytes and parses it back.
func wireRoundTrip(msg tss.ParsedMessage) (tss.MessageContent, error) {
	bz, _, err := msg.WireBytes()
	if err != nil {
		return nil, err
	}
	pm, err := tss.ParseWireMessage(bz, msg.GetFrom(), msg.IsBroadcast())
	if err != nil {
		return nil, err
	}
	return pm.Content(), nil
}

// ---------------------------------------------------------------- Schnorr

func (c *runner) schnorrCase(ec elliptic.Curve, sess NamedBytes, x NamedInt, label, extra string) {
	cn := CurveName(ec)
	k := &kase{sys: "schnorr", class: "x=" + x.Name + extra + "/sess=" + sess.Name + "@" + cn,
		canon: fmt.Sprintf("schnorr|%s|x=%s%s|sess=%s|%s", cn, x.Name, extra, sess.Name, label),
		rec:   map[string]interface{}{"curve": cn, "x": hx(x.V), "session_hex": fmt.Sprintf("%x", trunc(sess.B)), "session_len": len(sess.B), "drbg": label}}
	k.run = func(k *kase) (string, string) {
		pf, X, err := BuildSchnorr(ec, sess.B, x.V, label)
		if err != nil {
			return "prove-error", err.Error()
		}
		k.rec["alphaX"], k.rec["alphaY"], k.rec["t"] = hx(pf.Alpha.X()), hx(pf.Alpha.Y()), hx(pf.T)
		if !pf.Verify(sess.B, X) {
			return "verify-rejected", ""
		}
		// the three wire parts as the message constructors produce them
		parts := [][]byte{pf.Alpha.X().Bytes(), pf.Alpha.Y().Bytes(), pf.T.Bytes()}
		c.noteShort("schnorr", parts, []int{32, 32, 32})
		pf2, err := SchnorrParse(ec, parts)
		if err != nil {
			return "reparse-error", err.Error()
		}
		if s, d := sameInts(SchnorrNames, SchnorrFlat(pf), SchnorrFlat(pf2)); s != "" {
			return s, d
		}
		if !pf2.Verify(sess.B, X) {
			return "reverify-rejected", ""
		}
		// the receiving party holds its own (equivalent) curve object and its own copy of the statement
		pf2p, err := SchnorrParse(PeerCurve(ec), parts)
		if err != nil {
			return "reparse-error", err.Error() + " (peer curve object)"
		}
		if !pf2p.Verify(sess.B, X) || !pf2p.Verify(sess.B, OnPeerCurve(X)) || !pf.Verify(sess.B, OnPeerCurve(X)) {
			return "reverify-rejected", "(parsed / statement held on another, equivalent curve object)"
		}
		// through the real message types and the protobuf wire format
		var pf3 *schnorr.ZKProof
		if cn == string(tss.Ed25519) {
			msg := edkeygen.NewKGRound2Message2(fromID(), cmt.HashDeCommitment{big1, big2}, pf)
			ct, err := wireRoundTrip(msg)
			if err != nil {
				return "wire-error", err.Error()
			}
			m, ok := ct.(*edkeygen.KGRound2Message2)
			if !ok {
				return "wire-error", "content type"
			}
			if !m.ValidateBasic() {
				return "message-refused", "KGRound2Message2.ValidateBasic"
			}
			pf3, err = m.UnmarshalZKProof(PeerCurve(ec))
			if err != nil {
				return "reparse-error", err.Error()
			}
		} else {
			msg := ecsigning.NewSignRound4Message(fromID(), cmt.HashDeCommitment{big1, big2, big2}, pf)
			ct, err := wireRoundTrip(msg)
			if err != nil {
				return "wire-error", err.Error()
			}
			m, ok := ct.(*ecsigning.SignRound4Message)
			if !ok {
				return "wire-error", "content type"
			}
			if !m.ValidateBasic() {
				return "message-refused", "SignRound4Message.ValidateBasic"
			}
			pf3, err = m.UnmarshalZKProof(PeerCurve(ec))
			if err != nil {
				return "reparse-error", err.Error()
			}
		}
		if s, d := sameInts(SchnorrNames, SchnorrFlat(pf), SchnorrFlat(pf3)); s != "" {
			return s, d + " (message)"
		}
		if !pf3.Verify(sess.B, X) {
			return "reverify-rejected", "(message)"
		}
		return "", ""
	}
	c.add(k)
}

func trunc(b []byte) []byte {
	if len(b) > 40 {
		return b[:40]
	}
	return b
}

// findShort searches labels 0.. for the first honest Schnorr proof whose part `which` has a leading zero byte.
func findShort(ec elliptic.Curve, x *big.Int, which int, max int) (string, bool) {
	for n := 0; n < max; n++ {
		label := fmt.Sprintf("c10/schnorr/short/%d/%d", which, n)
		pf, _, err := BuildSchnorr(ec, []byte("s"), x, label)
		if err != nil {
			return "", false
		}
		if len(SchnorrFlat(pf)[which].Bytes()) < 32 {
			return label, true
		}
	}
	return "", false
}

func (c *runner) schnorrAll() {
	for _, ec := range []elliptic.Curve{tss.S256(), tss.Edwards()} {
		cn := CurveName(ec)
		q := ec.Params().N
		alpha := ScalarAlphabet(q, cn == string(tss.Ed25519)) // 0*G is representable on the Edwards curve only
		for _, sess := range Sessions() {
			for _, x := range alpha {
				c.schnorrCase(ec, sess, x, "c10/schnorr/"+cn+"/"+x.Name+"/"+sess.Name, "")
			}
		}
		// leading-zero encodings of each wire part (the session does not matter for the search: the nonce fixes alpha,
		// and T is searched under the session actually used)
		g1 := NamedInt{"g1", Generic("scalar/g1", q)}
		for which, nm := range SchnorrNames {
			label, ok := findShort(ec, g1.V, which, 20000)
			if !ok {
				c.r.Assume("no short " + nm + " encoding found within 20000 labels on " + cn)
				continue
			}
			c.schnorrCase(ec, NamedBytes{"s", []byte("s")}, g1, label, "/short-"+nm)
		}
	}
}

// ---------------------------------------------------------------- Schnorr-V

func (c *runner) schnorrVAll() {
	for _, ec := range []elliptic.Curve{tss.S256(), tss.Edwards()} {
		ec := ec
		cn := CurveName(ec)
		q := ec.Params().N
		alpha := ScalarAlphabet(q, true)
		R := MulG(ec, Generic("schnorrv/r", q))
		for _, sess := range Sessions() {
			sess := sess
			for _, s := range alpha {
				for _, l := range alpha {
					s, l := s, l
					if s.V.Sign() == 0 && l.V.Sign() == 0 {
						continue // V would be the identity
					}
					if new(big.Int).Mod(new(big.Int).Add(new(big.Int).Mul(s.V, Generic("schnorrv/r", q)), l.V), q).Sign() == 0 {
						continue
					}
					label := "c10/schnorrv/" + cn + "/" + s.Name + "/" + l.Name + "/" + sess.Name
					k := &kase{sys: "schnorrv", class: "s=" + s.Name + "/l=" + l.Name + "/sess=" + sess.Name + "@" + cn,
						canon: fmt.Sprintf("schnorrv|%s|s=%s|l=%s|sess=%s", cn, s.Name, l.Name, sess.Name),
						rec:   map[string]interface{}{"curve": cn, "s": hx(s.V), "l": hx(l.V), "session_len": len(sess.B), "drbg": label}}
					k.run = func(k *kase) (string, string) {
						pf, V, err := BuildSchnorrV(ec, sess.B, R, s.V, l.V, label)
						if err != nil {
							return "prove-error", err.Error()
						}
						if !pf.Verify(sess.B, V, R) {
							return "verify-rejected", ""
						}
						parts := [][]byte{pf.Alpha.X().Bytes(), pf.Alpha.Y().Bytes(), pf.T.Bytes(), pf.U.Bytes()}
						c.noteShort("schnorrv", parts, []int{32, 32, 32, 32})
						pf2, err := SchnorrVParse(ec, parts)
						if err != nil {
							return "reparse-error", err.Error()
						}
						if s, d := sameInts(SchnorrVNames, SchnorrVFlat(pf), SchnorrVFlat(pf2)); s != "" {
							return s, d
						}
						if !pf2.Verify(sess.B, V, R) {
							return "reverify-rejected", ""
						}
						pf2p, err := SchnorrVParse(PeerCurve(ec), parts)
						if err != nil {
							return "reparse-error", err.Error() + " (peer curve object)"
						}
						if !pf2p.Verify(sess.B, V, R) || !pf2p.Verify(sess.B, OnPeerCurve(V), OnPeerCurve(R)) || !pf.Verify(sess.B, V, OnPeerCurve(R)) || !pf.Verify(sess.B, OnPeerCurve(V), R) {
							return "reverify-rejected", "(parsed / statement held on another, equivalent curve object)"
						}
						// message path (SignRound6Message carries a ZKProof and a ZKVProof)
						zk, _, err := BuildSchnorr(ec, sess.B, big2, label+"/zk")
						if err != nil {
							return "prove-error", err.Error()
						}
						msg := ecsigning.NewSignRound6Message(fromID(), cmt.HashDeCommitment{big1, big2, big2, big2, big2}, zk, pf)
						ct, err := wireRoundTrip(msg)
						if err != nil {
							return "wire-error", err.Error()
						}
						m, ok := ct.(*ecsigning.SignRound6Message)
						if !ok {
							return "wire-error", "content type"
						}
						if !m.ValidateBasic() {
							return "message-refused", "SignRound6Message.ValidateBasic"
						}
						pf3, err := m.UnmarshalZKVProof(PeerCurve(ec))
						if err != nil {
							return "reparse-error", err.Error()
						}
						if s, d := sameInts(SchnorrVNames, SchnorrVFlat(pf), SchnorrVFlat(pf3)); s != "" {
							return s, d + " (message)"
						}
						if !pf3.Verify(sess.B, V, R) {
							return "reverify-rejected", "(message)"
						}
						return "", ""
					}
					c.add(k)
				}
			}
		}
	}
}

// ---------------------------------------------------------------- dln

func (c *runner) dlnCase(p Params, h1, h2, x *big.Int, dirName, xName string) {
	label := fmt.Sprintf("c10/dln/%d/%s/%s", p.Idx, dirName, xName)
	k := &kase{sys: "dln", class: dirName + "/x=" + xName,
		canon: fmt.Sprintf("dln|set=%d|%s|x=%s", p.Idx, dirName, xName),
		rec:   map[string]interface{}{"set": p.Idx, "direction": dirName, "x": hx(x), "drbg": label}}
	k.run = func(k *kase) (string, string) {
		pf := BuildDLN(p, h1, h2, x, label)
		if !pf.Verify(h1, h2, p.NTilde) {
			return "verify-rejected", ""
		}
		bzs, err := pf.Serialize()
		if err != nil {
			return "serialize-error", err.Error()
		}
		nominal := make([]int, len(bzs))
		for i := range nominal {
			nominal[i] = 256
		}
		nominal[0], nominal[1+dlnproof.Iterations] = 1, 1
		c.noteShort("dln", bzs, nominal)
		pf2, err := dlnproof.UnmarshalDLNProof(bzs)
		if err != nil {
			return "reparse-error", err.Error()
		}
		if s, d := sameInts(DLNNames(), DLNFlat(pf), DLNFlat(pf2)); s != "" {
			return s, d
		}
		if !pf2.Verify(h1, h2, p.NTilde) {
			return "reverify-rejected", ""
		}
		return "", ""
	}
	c.add(k)
}

func (c *runner) dlnAll(ps []Params) {
	for _, p := range ps {
		for dir := 0; dir < 2; dir++ {
			h1, h2, x := DLNStatement(p, dir)
			c.dlnCase(p, h1, h2, x, fmt.Sprintf("dir%d", dir+1), "fixture")
		}
		// chosen witnesses: h2 := h1^x. x = 0 and x = 1 give h2 = 1 and h2 = h1, which are not valid parameters
		// (the verifier refuses them by design), so the alphabet starts at 2.
		ws := []NamedInt{
			{"2", big.NewInt(2)},
			{"pq-1", new(big.Int).Sub(p.PQ, big1)},
			{"pq-2", new(big.Int).Sub(p.PQ, big2)},
			{"pq+2", new(big.Int).Add(p.PQ, big2)},
			{"2^248", new(big.Int).Lsh(big1, 248)},
			{"g1", Generic("dln/g1", p.PQ)},
			{"g2", Generic("dln/g2", p.PQ)},
		}
		for _, w := range ws {
			h2 := new(big.Int).Exp(p.H1, w.V, p.NTilde)
			c.dlnCase(p, p.H1, h2, w.V, "chosen", w.Name)
		}
	}
}

// ---------------------------------------------------------------- Paillier key proof

func (c *runner) paillierAll(ps []Params) {
	ec := tss.S256()
	q := ec.Params().N
	for _, p := range ps {
		p := p
		ks := append(ScalarAlphabet(q, true), NamedInt{"fixture", p.Key}, NamedInt{"2^256+1", new(big.Int).Add(new(big.Int).Lsh(big1, 256), big1)})
		pubs := []struct {
			name string
			pt   *crypto.ECPoint
		}{{"fixture", p.Pub}, {"G", MulG(ec, big1)}, {"generic", MulG(ec, Generic("paillier/pub", q))}, {"ed-generic", MulG(tss.Edwards(), Generic("paillier/pub", tss.Edwards().Params().N))}}
		for _, kk := range ks {
			for _, pub := range pubs {
				kk, pub := kk, pub
				k := &kase{sys: "paillier", class: "k=" + kk.Name + "/pub=" + pub.name,
					canon: fmt.Sprintf("paillier|set=%d|k=%s|pub=%s", p.Idx, kk.Name, pub.name),
					rec:   map[string]interface{}{"set": p.Idx, "k": hx(kk.V), "pub": pub.name}}
				k.run = func(k *kase) (string, string) {
					pf := p.SK.Proof(kk.V, pub.pt)
					ok, err := pf.Verify(p.SK.N, kk.V, pub.pt)
					if err != nil {
						return "verify-error", err.Error()
					}
					if !ok {
						return "verify-rejected", ""
					}
					msg := eckeygen.NewKGRound3Message(fromID(), pf)
					ct, err := wireRoundTrip(msg)
					if err != nil {
						return "wire-error", err.Error()
					}
					m, okc := ct.(*eckeygen.KGRound3Message)
					if !okc {
						return "wire-error", "content type"
					}
					if !m.ValidateBasic() {
						return "message-refused", "KGRound3Message.ValidateBasic"
					}
					nominal := make([]int, paillier.ProofIters)
					for i := range nominal {
						nominal[i] = 256
					}
					c.noteShort("paillier", m.GetPaillierProof(), nominal)
					pf2 := m.UnmarshalProofInts()
					if s, d := sameInts(PaillierNames(), PaillierFlat(pf), PaillierFlat(pf2)); s != "" {
						return s, d
					}
					ok, err = pf2.Verify(p.SK.N, kk.V, pub.pt)
					if err != nil {
						return "verify-error", err.Error()
					}
					if !ok {
						return "reverify-rejected", ""
					}
					return "", ""
				}
				c.add(k)
			}
		}
	}
}

// ---------------------------------------------------------------- mod

func (c *runner) modAll(ps []Params) {
	for _, p := range ps {
		for _, sess := range Sessions() {
			for _, swap := range []bool{false, true} {
				p, sess, swap := p, sess, swap
				order := "PQ"
				if swap {
					order = "QP"
				}
				label := fmt.Sprintf("c10/mod/%d/%s/%s", p.Idx, sess.Name, order)
				k := &kase{sys: "mod", class: "factors=" + order + "/sess=" + sess.Name,
					canon: fmt.Sprintf("mod|set=%d|%s|sess=%s", p.Idx, order, sess.Name),
					rec:   map[string]interface{}{"set": p.Idx, "factor_order": order, "session_len": len(sess.B), "drbg": label}}
				k.run = func(k *kase) (string, string) {
					pf, err := BuildMod(p, sess.B, swap, label)
					if err != nil {
						return "prove-error", err.Error()
					}
					if !pf.Verify(sess.B, p.SK.N) {
						return "verify-rejected", ""
					}
					bzs := pf.Bytes()
					nominal := make([]int, len(bzs))
					for i := range nominal {
						nominal[i] = 256
					}
					nominal[modproof.Iterations+1], nominal[modproof.Iterations+2] = 11, 11
					c.noteShort("mod", bzs[:], nominal)
					pf2, err := modproof.NewProofFromBytes(bzs[:])
					if err != nil {
						return "reparse-error", err.Error()
					}
					if s, d := sameInts(ModNames(), ModFlat(pf), ModFlat(pf2)); s != "" {
						return s, d
					}
					if !pf2.Verify(sess.B, p.SK.N) {
						return "reverify-rejected", ""
					}
					return "", ""
				}
				c.add(k)
			}
		}
	}
}

// ---------------------------------------------------------------- fac

func (c *runner) facAll(ps []Params, pairs [][2]int) {
	c.facOn(tss.S256(), "", ps, pairs)
	c.facOn(tss.Edwards(), "@ed25519", ps, pairs[:1]) // the curve is a parameter of the proof: the other curve too
}

func (c *runner) facOn(ec elliptic.Curve, cvTag string, ps []Params, pairs [][2]int) {
	for _, pr := range pairs {
		for _, sess := range Sessions() {
			prover, verifier, sess := ps[pr[0]], ps[pr[1]], sess
			label := fmt.Sprintf("c10/fac/%d/%d/%s%s", prover.Idx, verifier.Idx, sess.Name, cvTag)
			k := &kase{sys: "fac", class: "sess=" + sess.Name + cvTag,
				canon: fmt.Sprintf("fac|prover=%d|verifier=%d|sess=%s%s", prover.Idx, verifier.Idx, sess.Name, cvTag),
				rec:   map[string]interface{}{"prover_set": prover.Idx, "verifier_set": verifier.Idx, "session_len": len(sess.B), "drbg": label}}
			k.run = func(k *kase) (string, string) {
				pf, err := BuildFac(prover, verifier, ec, sess.B, label)
				if err != nil {
					return "prove-error", err.Error()
				}
				ver := func(pf *facproof.ProofFac) bool {
					return pf.Verify(sess.B, ec, prover.SK.N, verifier.NTilde, verifier.H1, verifier.H2)
				}
				if !ver(pf) {
					return "verify-rejected", ""
				}
				for i, v := range FacFlat(pf) {
					if v.Sign() < 0 {
						return "negative-component", FacNames[i] // a sign cannot travel in Bytes()
					}
				}
				bzs := pf.Bytes()
				pf2, err := facproof.NewProofFromBytes(bzs[:])
				if err != nil {
					return "reparse-error", err.Error()
				}
				if s, d := sameInts(FacNames, FacFlat(pf), FacFlat(pf2)); s != "" {
					return s, d
				}
				if !ver(pf2) {
					return "reverify-rejected", ""
				}
				return "", ""
			}
			c.add(k)
		}
	}
}

// ---------------------------------------------------------------- range (Alice)

func (c *runner) rangeAll(ps []Params, pairs [][2]int) {
	c.rangeOn(tss.S256(), "", ps, pairs)
	c.rangeOn(tss.Edwards(), "@ed25519", ps, pairs[:1])
}

func (c *runner) rangeOn(ec elliptic.Curve, cvTag string, ps []Params, pairs [][2]int) {
	q := ec.Params().N
	for _, pr := range pairs {
		for _, m := range ScalarAlphabet(q, true) {
			prover, verifier, m := ps[pr[0]], ps[pr[1]], m
			label := fmt.Sprintf("c10/range/%d/%d/%s%s", prover.Idx, verifier.Idx, m.Name, cvTag)
			k := &kase{sys: "range", class: "m=" + m.Name + cvTag,
				canon: fmt.Sprintf("range|prover=%d|verifier=%d|m=%s%s", prover.Idx, verifier.Idx, m.Name, cvTag),
				rec:   map[string]interface{}{"prover_set": prover.Idx, "verifier_set": verifier.Idx, "m": hx(m.V), "drbg": label}}
			k.run = func(k *kase) (string, string) {
				rc, err := BuildRange(prover, verifier, ec, m.V, label)
				if err != nil {
					return "prove-error", err.Error()
				}
				ver := func(pf *mta.RangeProofAlice) bool {
					return pf.Verify(ec, prover.PK, verifier.NTilde, verifier.H1, verifier.H2, rc.C)
				}
				if !ver(rc.Pf) {
					return "verify-rejected", ""
				}
				bzs := rc.Pf.Bytes()
				c.noteShort("range", bzs[:], []int{256, 512, 256, 256, 0, 0})
				pf2, err := mta.RangeProofAliceFromBytes(bzs[:])
				if err != nil {
					return "reparse-error", err.Error()
				}
				if s, d := sameInts(RangeNames, RangeFlat(rc.Pf), RangeFlat(pf2)); s != "" {
					return s, d
				}
				if !ver(pf2) {
					return "reverify-rejected", ""
				}
				return "", ""
			}
			c.add(k)
		}
	}
}

// ---------------------------------------------------------------- Bob / Bob-WC

func (c *runner) bobAll(ps []Params, pairs [][2]int, fullProduct map[[2]int]bool) {
	c.bobOn(tss.S256(), "", ps, pairs, fullProduct)
	c.bobOn(tss.Edwards(), "@ed25519", ps, pairs[:1], map[[2]int]bool{})
}

func (c *runner) bobOn(ec elliptic.Curve, cvTag string, ps []Params, pairs [][2]int, fullProduct map[[2]int]bool) {
	q := ec.Params().N
	q5 := Q5(ec)
	ys := []NamedInt{
		{"0", big.NewInt(0)},
		{"1", big.NewInt(1)},
		{"q^5-1", new(big.Int).Sub(q5, big1)},
		{"g", Generic("bob/y", q5)},
	}
	sessions := Sessions()
	for _, wc := range []bool{false, true} {
		sys := "bob"
		if wc {
			sys = "bobwc"
		}
		xs := ScalarAlphabet(q, !wc) // x = 0 has no point X on secp256k1
		for _, pr := range pairs {
			type combo struct {
				x, y NamedInt
				s    NamedBytes
			}
			var combos []combo
			if fullProduct[pr] {
				for _, x := range xs {
					for _, y := range ys {
						for _, s := range sessions {
							combos = append(combos, combo{x, y, s})
						}
					}
				}
			} else {
				// every x, every y, every session at least once, and every (x,y) pair
				for xi, x := range xs {
					for yi, y := range ys {
						combos = append(combos, combo{x, y, sessions[(xi+yi)%len(sessions)]})
					}
				}
			}
			for _, cb := range combos {
				keyOwner, ring, cb, wc, sys := ps[pr[0]], ps[pr[1]], cb, wc, sys
				label := fmt.Sprintf("c10/%s/%d/%d/%s/%s/%s%s", sys, keyOwner.Idx, ring.Idx, cb.x.Name, cb.y.Name, cb.s.Name, cvTag)
				k := &kase{sys: sys, class: "x=" + cb.x.Name + "/y=" + cb.y.Name + "/sess=" + cb.s.Name + cvTag,
					canon: fmt.Sprintf("%s|key=%d|ring=%d|x=%s|y=%s|sess=%s%s", sys, keyOwner.Idx, ring.Idx, cb.x.Name, cb.y.Name, cb.s.Name, cvTag),
					rec: map[string]interface{}{"paillier_set": keyOwner.Idx, "ring_set": ring.Idx, "x": hx(cb.x.V), "y": hx(cb.y.V),
						"session_len": len(cb.s.B), "drbg": label}}
				k.run = func(k *kase) (string, string) {
					bc, err := BuildBob(keyOwner, ring, ec, cb.s.B, cb.x.V, cb.y.V, wc, label)
					if err != nil {
						return "prove-error", err.Error()
					}
					if !wc {
						ver := func(pf *mta.ProofBob) bool {
							return pf.Verify(cb.s.B, ec, keyOwner.PK, ring.NTilde, ring.H1, ring.H2, bc.C1, bc.C2)
						}
						if !ver(bc.Pf) {
							return "verify-rejected", ""
						}
						bzs := bc.Pf.Bytes()
						c.noteShort(sys, bzs[:], []int{256, 256, 256, 512, 256, 256})
						pf2, err := mta.ProofBobFromBytes(bzs[:])
						if err != nil {
							return "reparse-error", err.Error()
						}
						if s, d := sameInts(BobNames, BobFlat(bc.Pf), BobFlat(pf2)); s != "" {
							return s, d
						}
						if !ver(pf2) {
							return "reverify-rejected", ""
						}
						return "", ""
					}
					ver := func(pf *mta.ProofBobWC) bool {
						return pf.Verify(cb.s.B, ec, keyOwner.PK, ring.NTilde, ring.H1, ring.H2, bc.C1, bc.C2, bc.X)
					}
					if !ver(bc.PfWC) {
						return "verify-rejected", ""
					}
					bzs := bc.PfWC.Bytes()
					c.noteShort(sys, bzs[:], []int{256, 256, 256, 512, 256, 256, 0, 0, 0, 0, 32, 32})
					pf2, err := mta.ProofBobWCFromBytes(ec, bzs[:])
					if err != nil {
						return "reparse-error", err.Error()
					}
					if s, d := sameInts(BobWCNames, BobWCFlat(bc.PfWC), BobWCFlat(pf2)); s != "" {
						return s, d
					}
					if !ver(pf2) {
						return "reverify-rejected", ""
					}
					// the embedded proof without check must also survive on its own wire form
					b10 := bc.PfWC.ProofBob.Bytes()
					pf3, err := mta.ProofBobFromBytes(b10[:])
					if err != nil {
						return "reparse-error", "embedded ProofBob: " + err.Error()
					}
					if s, d := sameInts(BobNames, BobFlat(bc.PfWC.ProofBob), BobFlat(pf3)); s != "" {
						return s, d + " (embedded)"
					}
					return "", ""
				}
				c.add(k)
			}
		}
	}
}

func Run(r *core.Run) {
	ps := LoadParams()
	c := &runner{r: r}
	pairs := Pairs(r.Tier, false)
	pairsDiag := Pairs(r.Tier, true)

	c.schnorrAll()
	c.schnorrVAll()
	c.dlnAll(ps)
	c.paillierAll(ps)
	c.modAll(ps)
	c.facAll(ps, pairsDiag)
	c.rangeAll(ps, pairsDiag)
	full := map[[2]int]bool{}
	if r.Tier == "thorough" {
		for _, pr := range pairsDiag {
			full[pr] = true
		}
	} else {
		full[pairsDiag[len(pairsDiag)-1]] = true // the protocol's own combination (same party's key and ring)
	}
	c.bobAll(ps, pairsDiag, full)
	_ = pairs

	workers := runtime.NumCPU()
	core.ParallelFor(len(c.cases), workers, func(i int) { c.exec(c.cases[i]) })
	c.report()
	runOrders(r)
	runSessionBuffers(r, ps)

	r.Set("evaluations", int(atomic.LoadInt64(&c.evals)))
	r.Set("distinct_nontrivial", r.NDistinct("cases"))
	r.Set("proof_systems", []string{"schnorr", "schnorrv", "dln(dir1,dir2,chosen)", "paillier", "mod", "fac", "range", "bob", "bobwc"})
	r.Set("parameter_sets", len(ps))
	r.Set("ordered_pairs_two_sided", len(pairsDiag))
	r.Set("rule", "one case = (proof system, curve, parameter set or ordered pair (prover,verifier), witness alphabet element(s), session alphabet element); "+
		"every case runs the library prover on a deterministic byte stream, Verify, Bytes/Serialize -> FromBytes/Unmarshal (Schnorr, Schnorr-V and the Paillier proof also "+
		"through the real protobuf messages), component-wise comparison and Verify again; distinct = distinct canonical case strings; every case is a true statement "+
		"with a different input, so all are non-trivial")
	r.Assume("the prover's internal masks come from a fixed SHA-256 counter stream per case (core.NewDRBG); only witnesses, parameter sets, curves and sessions are enumerated")
	r.Assume("Schnorr x=0 is enumerated on the Edwards curve only (0*G is not representable as an ECPoint on secp256k1); Bob-WC skips x=0 for the same reason; dln skips x in {0,1} (h2=1, h2=h1 are refused by design)")
	r.Assume("fac, range and Bob proofs: full enumeration on secp256k1 (the curve the MtA / Paillier protocols are used with), the first parameter pair on edwards25519 as well (the curve is a parameter of these proofs)")
}
