// Package c02: check for property C02 (stub until implemented).
package c02

import "verif/internal/core"

// Implemented reports whether this check is built.
const Implemented = false

func Run(r *core.Run) { r.Cap("not implemented") }
