// Package c02: threshold EdDSA signing yields one valid standard Ed25519 signature (NETMC + ENUM of configurations).
package c02

import (
	"fmt"
	"math/big"
	"runtime"
	"sync"

	"github.com/bnb-chain/tss-lib/v2/common"
	edkg "github.com/bnb-chain/tss-lib/v2/eddsa/keygen"

	"verif/internal/core"
	"verif/internal/fix"
	"verif/internal/netrun"
	"verif/internal/oracle"
	"verif/internal/protomc"
	"verif/internal/scen"
)

const Implemented = true

type msgCase struct {
	name string
	m    *big.Int
	full int
}

func messages() []msgCase {
	g32 := core.Bytes("c02-msg32", 32)
	g32[0] |= 0x80
	z32 := core.Bytes("c02-msg32z", 32)
	z32[0] = 0
	g64 := core.Bytes("c02-msg64", 64)
	g64[0] |= 0x01
	return []msgCase{
		{"zero(empty encoding)", big.NewInt(0), 0},
		{"one", big.NewInt(1), 0},
		{"2^8,len=2", big.NewInt(256), 2},
		{"one,len=32(31 leading zeros)", big.NewInt(1), 32},
		{"32-byte generic", new(big.Int).SetBytes(g32), 0},
		{"32-byte top byte 0, no length", new(big.Int).SetBytes(z32), 0},
		{"32-byte top byte 0, len=32", new(big.Int).SetBytes(z32), 32},
		{"64-byte generic", new(big.Int).SetBytes(g64), 0},
		{"64-byte generic,len=64", new(big.Int).SetBytes(g64), 64},
	}
}

type keyCase struct {
	name string
	keys []edkg.LocalPartySaveData
	t    int
}

func subsetsAtLeast(n, k int) [][]int {
	var out [][]int
	for sz := k; sz <= n; sz++ {
		out = append(out, oracle.Subsets(n, sz)...)
	}
	return out
}

func Run(r *core.Run) {
	w := runtime.NumCPU()
	maxN := 4
	if r.Tier == "thorough" {
		maxN = 5
	}
	var kcs []keyCase
	for n := 2; n <= maxN; n++ {
		for t := 1; t < n; t++ {
			pat := []string{"small", "near-q", "large", "byte-boundary", "above-q"}[(n+2*t)%5]
			kcs = append(kcs, keyCase{fmt.Sprintf("generated(n=%d,t=%d,ids=%s)", n, t, pat), scen.EdKey(pat, n, t, r.Seed), t})
		}
	}
	kcs = append(kcs, keyCase{"vendored(n=5,t=2)", fix.EdFixtures(), 2})
	// group keys of particular shapes (a coordinate with a leading zero byte: one key in 128), found by running
	// the real keygen under successive seeds
	for _, shape := range []string{"y-short", "x-short"} {
		if ks := scen.EdKeyShaped(shape, 2, 1, r.Seed, 2000); ks != nil {
			kcs = append(kcs, keyCase{"generated(n=2,t=1,pub=" + shape + ")", ks, 1})
			r.Count("shaped_keys", 1)
		} else {
			r.Cap("no key of shape " + shape + " within 2000 keygens")
		}
	}
	msgs := messages()

	// (1) the full product (key x signer subset x message) on the FIFO schedule
	type fc struct {
		kc     keyCase
		sub    []int
		mc     msgCase
		order  []int
	}
	var cases []fc
	for _, kc := range kcs {
		subs := subsetsAtLeast(len(kc.keys), kc.t+1)
		for si, sub := range subs {
			for mi, mc := range msgs {
				var order []int
				if (si+mi)%3 == 1 { // ids handed over in reverse order
					for i := len(sub) - 1; i >= 0; i-- {
						order = append(order, i)
					}
				}
				cases = append(cases, fc{kc, sub, mc, order})
			}
		}
	}
	var mu sync.Mutex
	core.ParallelFor(len(cases), w, func(i int) {
		c := cases[i]
		keys := make([]edkg.LocalPartySaveData, len(c.sub))
		for k, s := range c.sub {
			keys[k] = c.kc.keys[s]
		}
		cfg := netrun.Config{Proto: netrun.EddsaSigning, EdKeys: keys, Threshold: c.kc.t, Msg: c.mc.m, FullBytesLen: c.mc.full, Seed: r.Seed, Label: fmt.Sprint(c.kc.name, c.sub), IDOrder: c.order}
		nw, err := netrun.New(cfg)
		name := fmt.Sprintf("%s/signers=%v/msg=%s", c.kc.name, c.sub, c.mc.name)
		if err != nil {
			r.Violate("fifo/constructor-error", err.Error(), name)
			return
		}
		_, e, pan := nw.RunFIFO()
		r.Count("fifo_runs", 1)
		cls := fmt.Sprintf("%s|size=%d|t=%d|%s", c.kc.name, len(c.sub), c.kc.t, c.mc.name)
		r.Distinct("fifo_case_classes", cls)
		if len(pan) > 0 {
			r.Violate("fifo/panic/msg="+c.mc.name, pan[0], name)
			return
		}
		if e != nil {
			r.Violate("fifo/error/msg="+c.mc.name, e.Error(), name)
			return
		}
		var first *common.SignatureData
		for p, n := range nw.Nodes {
			if len(n.Ends) != 1 {
				r.Violate("fifo/no-result/msg="+c.mc.name, fmt.Sprintf("node %d has %d results", p, len(n.Ends)), name)
				return
			}
			sd := n.Ends[0].(*common.SignatureData)
			if first == nil {
				first = sd
			} else if string(first.Signature) != string(sd.Signature) {
				r.Violate("fifo/signers-disagree", "signers output different signatures", name)
			}
			for _, pr := range oracle.CheckEddsaSig(sd, keys[0].EDDSAPub, c.mc.m, c.mc.full) {
				r.Violate("fifo/"+pr.Key+"/msg="+c.mc.name, pr.What, name)
			}
		}
		mu.Lock()
		r.Sample(3, map[string]interface{}{"kind": "fifo case", "case": name, "signature": fmt.Sprintf("%x", first.Signature)})
		mu.Unlock()
	})

	// (1b) large signer sets (|S| >= t+3) over a list of seeds: the sum of the partial signatures then
	// exceeds (t+2)L for a sizeable fraction of nonce choices, which is where a reduction bug shows
	type lc struct {
		kc   keyCase
		sub  []int
		seed int
	}
	var large []lc
	nSeeds := 24
	if r.Tier == "thorough" {
		nSeeds = 64
	}
	for _, kc := range kcs {
		n := len(kc.keys)
		if n < kc.t+3 {
			continue
		}
		all := make([]int, n)
		for i := range all {
			all[i] = i
		}
		for sd := 0; sd < nSeeds; sd++ {
			large = append(large, lc{kc, all, sd})
		}
	}
	core.ParallelFor(len(large), w, func(i int) {
		c := large[i]
		keys := make([]edkg.LocalPartySaveData, len(c.sub))
		for k, s := range c.sub {
			keys[k] = c.kc.keys[s]
		}
		m := msgs[4+c.seed%2]
		cfg := netrun.Config{Proto: netrun.EddsaSigning, EdKeys: keys, Threshold: c.kc.t, Msg: m.m, FullBytesLen: m.full, Seed: r.Seed*1000 + int64(c.seed), Label: fmt.Sprint("large", c.kc.name, c.seed)}
		nw, err := netrun.New(cfg)
		name := fmt.Sprintf("%s/all %d signers/nonce-seed=%d", c.kc.name, len(c.sub), c.seed)
		if err != nil {
			r.Violate("large-set/constructor-error", err.Error(), name)
			return
		}
		_, e, pan := nw.RunFIFO()
		r.Count("large_signer_set_runs", 1)
		if e != nil || len(pan) > 0 {
			r.Violate("large-set/error-or-panic", fmt.Sprint(e, pan), name)
			return
		}
		for _, n := range nw.Nodes {
			if len(n.Ends) != 1 {
				r.Violate("large-set/no-result", "a signer did not finish", name)
				return
			}
			for _, pr := range oracle.CheckEddsaSig(n.Ends[0].(*common.SignatureData), keys[0].EDDSAPub, m.m, m.full) {
				r.Violate("large-set/"+pr.Key, pr.What, name)
			}
		}
	})

	// (1c) consecutive sessions on the same in-memory key data (different signer sets, orders, messages)
	for _, kc := range []keyCase{kcs[1], kcs[2]} {
		held := make([]edkg.LocalPartySaveData, len(kc.keys))
		for i := range kc.keys {
			held[i] = kc.keys[i]
			held[i].Xi = new(big.Int).Set(kc.keys[i].Xi)
		}
		subs := subsetsAtLeast(len(held), kc.t+1)
		for si := 0; si < 4; si++ {
			sub := subs[(si*2+1)%len(subs)]
			m := msgs[(si*3+1)%len(msgs)]
			keys := make([]edkg.LocalPartySaveData, len(sub))
			for k, s := range sub {
				keys[k] = held[s]
			}
			name := fmt.Sprintf("%s/session %d on the same key data/signers=%v/msg=%s", kc.name, si+1, sub, m.name)
			var order []int
			if si%2 == 1 {
				for i := len(sub) - 1; i >= 0; i-- {
					order = append(order, i)
				}
			}
			nw, err := netrun.New(netrun.Config{Proto: netrun.EddsaSigning, EdKeys: keys, Threshold: kc.t, Msg: m.m, FullBytesLen: m.full, Seed: r.Seed, Label: fmt.Sprint("repeat", kc.name, si), ShareKeys: true, IDOrder: order})
			if err != nil {
				r.Violate("repeat/constructor-error", err.Error(), name)
				break
			}
			_, e, pan := nw.RunFIFO()
			r.Count("repeat_sessions", 1)
			if len(pan) > 0 || e != nil {
				r.Violate(fmt.Sprintf("repeat/session-%d-fails", si+1), fmt.Sprintf("a later session on key data that has already signed fails: %v %v", e, pan), name)
				break
			}
			for p, n := range nw.Nodes {
				if len(n.Ends) != 1 {
					r.Violate("repeat/no-result", fmt.Sprintf("node %d has %d results", p, len(n.Ends)), name)
					continue
				}
				for _, pr := range oracle.CheckEddsaSig(n.Ends[0].(*common.SignatureData), keys[0].EDDSAPub, m.m, m.full) {
					r.Violate("repeat/"+pr.Key, pr.What, name)
				}
			}
		}
	}

	// (2) schedules: all schedules for 2 and 3 signers (decomposed), FIFO + 1 deviation for 4 and 5
	var states, trans, traces int
	si := 0
	for _, kc := range kcs {
		for _, sub := range subsetsAtLeast(len(kc.keys), kc.t+1) {
			if len(sub) > 3 && r.Tier == "quick" && (len(sub) != len(kc.keys) || len(sub) > 4) {
				continue // quick: 4 signers only as the full committee; 5 signers in thorough
			}
			mc := msgs[si%len(msgs)]
			si++
			keys := make([]edkg.LocalPartySaveData, len(sub))
			for k, s := range sub {
				keys[k] = kc.keys[s]
			}
			sc := protomc.Scenario{Name: fmt.Sprintf("eddsa-signing/%s/signers=%v/msg=%s", kc.name, sub, mc.name),
				Cfg: netrun.Config{Proto: netrun.EddsaSigning, EdKeys: keys, Threshold: kc.t, Msg: mc.m, FullBytesLen: mc.full, Seed: r.Seed, Label: fmt.Sprint(kc.name, sub)}}
			opt := protomc.Options{C07: true, Workers: w, JointValidate: 6, ResultOracle: scen.ResultOracle(sc)}
			mode := "all schedules"
			if len(sub) > 3 {
				opt.Mode, opt.Deviations = "dev", 1
				mode = "FIFO + every 1-deviation run"
			}
			st := protomc.Explore(r, sc, opt)
			states += st.States
			trans += st.Transitions
			traces += st.JointReplays
			r.Count("schedule_explorations", 1)
			r.Distinct("terminal_outcomes", fmt.Sprintf("%s#%d", sc.Name, st.DistinctOutcomes))
			if len(sub) == 3 && len(st.Samples) > 0 {
				r.Sample(5, st.Samples[len(st.Samples)-1])
			}
			if st.Capped {
				r.Cap("cap in " + sc.Name)
			}
			_ = mode
		}
	}
	r.Set("states", states)
	r.Set("transitions", trans)
	r.Set("traces_validated_against_impl", traces)
	r.Set("fifo_product", "every key x every signer subset of size >= t+1 x every message of the alphabet (ids handed over reversed in a third of the cases)")
	r.Set("schedule_part", "all delivery schedules (decomposed search) for 2 and 3 signers, FIFO + every 1-deviation complete run for 4 and 5 signers; one message of the alphabet per subset, rotating")
	r.Assume("standard verifier = Go crypto/ed25519 over the reference RFC 8032 encoding of EDDSAPub, plus the reference verification equation")
	r.Assume("party independence validated by joint replays (traces_validated_against_impl)")
}
