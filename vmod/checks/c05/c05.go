// Package c05: check for property C05 (stub until implemented).
package c05

import "verif/internal/core"

// Implemented reports whether this check is built.
const Implemented = false

func Run(r *core.Run) { r.Cap("not implemented") }
