// Package c05: a misbehaving peer cannot cause a bad output and is the one blamed
// (FAULT: exactly one deviation per execution, all of them).
package c05

import (
	"fmt"
	"os"
	"path/filepath"
	"runtime"
	"sort"
	"strings"
	"time"

	"verif/internal/core"
	"verif/internal/fault"
	"verif/internal/scen"
)

const Implemented = true

func init() {
	prev := core.WorkerHook
	core.WorkerHook = func(args []string) int {
		if len(args) > 0 && args[0] == "fault" {
			seed := int64(1)
			fmt.Sscan(os.Getenv("VERIF_SEED"), &seed)
			for name, mk := range scen.FaultScenarios(seed) {
				fault.Register(name, mk)
			}
			return fault.WorkerMain(args[1:])
		}
		if prev != nil {
			return prev(args)
		}
		return 2
	}
}

// notCovered: (protocol family, message type, field) whose alteration the protocol cannot attribute
// (DESIGN.md Appendix A, "—"): only clauses (a) and (b) apply to them. Everything else is covered by a
// commitment, a share check or a zero-knowledge proof: a reporting honest party must name exactly the deviator.
var notCovered = map[string]bool{
	"ecdsa-signing/SignRound3Message/theta":      true,
	"ecdsa-signing/SignRound9Message/s":          true,
	"eddsa-signing/SignRound3Message/s":          true,
	"ecdsa-resharing/DGRound1Message/ecdsa_pub_x": true,
	"ecdsa-resharing/DGRound1Message/ecdsa_pub_y": true,
	"ecdsa-resharing/DGRound1Message/ssid":        true,
	"eddsa-resharing/DGRound1Message/eddsa_pub_x": true,
	"eddsa-resharing/DGRound1Message/eddsa_pub_y": true,
}

func family(scn string) string {
	for _, f := range []string{"ecdsa-signing", "ecdsa-keygen", "ecdsa-resharing", "eddsa-keygen", "eddsa-signing", "eddsa-resharing"} {
		// (scenario names carry a suffix such as -3 / -3new)
		if strings.HasPrefix(scn, f) {
			return f
		}
	}
	return scn
}

func Run(r *core.Run) {
	keydir := filepath.Join(core.WorkDir(), fmt.Sprintf("keys-%d", os.Getpid()))
	_ = os.MkdirAll(keydir, 0o755)
	defer os.RemoveAll(keydir)
	os.Setenv("VERIF_KEYDIR", keydir)
	os.Setenv("VERIF_SEED", fmt.Sprint(r.Seed))
	for name, mk := range scen.FaultScenarios(r.Seed) {
		fault.Register(name, mk)
	}
	kinds := []string{"plus-one", "generic", "other"}
	type plan struct {
		scn      string
		deviator int
		allIdx   bool
		allAddr  bool
	}
	full := r.Tier == "thorough"
	plans := []plan{
		{"eddsa-keygen", 0, true, true}, {"eddsa-keygen", 1, true, true}, {"eddsa-keygen", 2, true, true},
		{"eddsa-signing", 0, true, true}, {"eddsa-signing", 1, true, true}, {"eddsa-signing", 2, true, true},
		{"eddsa-resharing", 0, true, true}, {"eddsa-resharing", 1, true, true}, {"eddsa-resharing", 2, true, true}, {"eddsa-resharing", 3, true, true},
		{"ecdsa-signing", 0, full, false}, {"ecdsa-signing", 1, full, false},
	}
	if full {
		plans = append(plans, plan{"ecdsa-resharing-3old", 2, false, false}, plan{"eddsa-resharing-3old", 2, true, true})
		plans = append(plans,
			plan{"ecdsa-signing-3", 0, false, false}, plan{"ecdsa-signing-3", 1, false, true}, plan{"ecdsa-signing-3", 2, false, false},
			plan{"ecdsa-keygen", 0, true, false}, plan{"ecdsa-keygen", 1, true, false},
			plan{"ecdsa-keygen-3", 1, false, false},
			plan{"ecdsa-resharing", 0, true, false}, plan{"ecdsa-resharing", 1, true, false}, plan{"ecdsa-resharing", 2, true, false}, plan{"ecdsa-resharing", 3, true, false},
		)
	} else {
		plans = append(plans, plan{"ecdsa-keygen", 1, false, false}, plan{"ecdsa-resharing", 0, false, false}, plan{"ecdsa-resharing", 2, false, false})
	}
	var cases []fault.Case
	if !full {
		// three parties, the deviator is NOT the last one: round-1 broadcast only (blame must not drift to a later party)
		plans = append(plans, plan{"ecdsa-keygen-3:KGRound1Message", 0, false, false})
		// three new members, the deviating new member is not the last one
		plans = append(plans, plan{"ecdsa-resharing-3new:DGRound2Message1", 2, false, false})
		// t+2 old members take part and the LAST of them deviates in what it hands to the new members
		plans = append(plans, plan{"ecdsa-resharing-3old:DGRound3Message1", 2, false, false}, plan{"ecdsa-resharing-3old:DGRound3Message2", 2, false, false},
			plan{"eddsa-resharing-3old:DGRound3Message1", 2, false, false}, plan{"eddsa-resharing-3old:DGRound3Message2", 2, false, false})
	}
	for _, p := range plans {
		only := ""
		if i := strings.Index(p.scn, ":"); i >= 0 {
			p.scn, only = p.scn[:i], p.scn[i+1:]
		}
		cs, _, err := fault.EnumerateFieldCases(p.scn, p.deviator, kinds, p.allIdx, p.allAddr)
		if only != "" {
			var sel []fault.Case
			for _, c := range cs {
				if c.Dev.MsgType == only {
					sel = append(sel, c)
				}
			}
			cs = sel
		}
		if err != nil {
			fmt.Fprintln(os.Stderr, "INFRASTRUCTURE: honest run of", p.scn, "failed:", err)
			os.Exit(2)
		}
		for _, c := range cs {
			// C05's alphabet: field alterations, field removed, list too short, whole-message mirror; wire-level
			// garbage and forged routing belong to C06
			switch {
			case c.Dev.Field != "" && (c.Dev.Op == "removed" || c.Dev.Op == "drop-last" || contains(kinds, c.Dev.Op)):
			case strings.HasPrefix(c.Dev.Op, "mirror:"):
			default:
				continue
			}
			cases = append(cases, c)
		}
	}
	// the first-round deviations once more against an honest party whose Start() comes last (everything sent
	// to it arrives before its Start(), which then works through the stored messages itself): blame and
	// outputs must not depend on that
	{
		frt := map[string]map[string]bool{}
		var lateCases []fault.Case
		for _, c := range cases {
			k := fmt.Sprintf("%s/%d", c.Scenario, c.Deviator)
			if frt[k] == nil {
				frt[k] = fault.FirstRoundTypes(c.Scenario, c.Deviator)
			}
			if !frt[k][c.Dev.MsgType] || c.Dev.Occ > 0 || !(c.Dev.Op == "plus-one" || c.Dev.Op == "removed" || c.Dev.Op == "drop-last") {
				continue
			}
			if !full && c.Dev.Index > 0 {
				continue // quick: the first element of a list only
			}
			victim := 0
			if c.Deviator == 0 {
				victim = 1
			}
			if strings.Contains(c.Scenario, "resharing") {
				victim = 2
				if c.Deviator == 2 {
					victim = 3
				}
			}
			lc := c
			lc.LateStart = victim + 1
			lateCases = append(lateCases, lc)
		}
		cases = append(cases, lateCases...)
		r.Set("late_start_cases", len(lateCases))
	}
	// a deviator that shares a polynomial of a higher degree than the threshold, consistently (one more
	// committed coefficient, every share moved accordingly): covered by the share check / the opening
	for _, sd := range []struct {
		scn string
		dev int
	}{{"eddsa-keygen", 1}, {"ecdsa-keygen", 1}, {"eddsa-resharing", 0}, {"ecdsa-resharing", 0}, {"eddsa-signing", 1}} {
		for _, c := range fault.EnumerateCraftedCases(sd.scn, sd.dev) {
			// (and, on edwards25519, committed points that carry a component of order 2, 4 or 8)
			if c.Dev.Op == "recommit:raise-degree" || strings.HasPrefix(c.Dev.Op, "recommit:add-small-order-point-") {
				cases = append(cases, c)
			}
		}
	}
	if !full {
		for _, c := range fault.EnumerateCraftedCases("ecdsa-keygen-3", 1) {
			if c.Dev.Op == "recommit:raise-degree" {
				cases = append(cases, c)
			}
		}
	}
	// parties configured with a wrong secret input, or with Paillier / ring-Pedersen parameters copied from another party
	cases = append(cases, fault.ConfigCases("eddsa-signing", []int{0, 1, 2}, nil)...)
	cases = append(cases, fault.ConfigCases("eddsa-resharing", []int{0, 1}, nil)...)
	cases = append(cases, fault.ConfigCases("ecdsa-signing", []int{0, 1}, nil)...)
	cases = append(cases, fault.ConfigCases("ecdsa-resharing", []int{0, 1}, map[int]int{2: 3, 3: 2})...)
	cases = append(cases, fault.ConfigCases("ecdsa-keygen", nil, map[int]int{0: 1, 1: 0})...)
	// under-sized (1024-bit) Paillier / ring-Pedersen parameters brought by one party
	cases = append(cases, fault.WeakCases("ecdsa-keygen", []int{0, 1})...)
	cases = append(cases, fault.WeakCases("ecdsa-resharing", []int{2, 3})...)
	if full {
		cases = append(cases, fault.ConfigCases("ecdsa-signing-3", []int{0, 1, 2}, nil)...)
		cases = append(cases, fault.ConfigCases("ecdsa-keygen-3", nil, map[int]int{0: 2, 2: 0, 1: 2})...)
	}
	if f := os.Getenv("VERIF_C05_FILTER"); f != "" { // development aid: run only the cases whose description contains f
		var sel []fault.Case
		for _, c := range cases {
			if strings.Contains(c.Scenario+"/"+c.Dev.Sig(), f) {
				sel = append(sel, c)
			}
		}
		cases = sel
		r.Cap("VERIF_C05_FILTER=" + f)
	}
	for i := range cases {
		cases[i].ID = i
	}
	t0 := time.Now()
	outs := fault.Run(cases, runtime.NumCPU()/2, 10*time.Minute, nil)
	hist := map[string]int{}
	for i, o := range outs {
		c := cases[i]
		if o.ID < 0 {
			r.Cap(fmt.Sprintf("case %d (%s %s) was not executed", i, c.Scenario, c.Dev.Sig()))
			continue
		}
		r.Count("executions", 1)
		fam := family(c.Scenario)
		slot := c.Dev.MsgType + "/" + c.Dev.Field
		if c.Dev.Field == "" {
			slot = c.Dev.MsgType + "/<mirror>"
		}
		if c.Dev.MsgType == "<config>" {
			slot = "config/" + strings.SplitN(c.Dev.Op, ":", 2)[0]
		}
		rec := map[string]interface{}{"scenario": c.Scenario, "deviator": c.Deviator, "deviation": c.Dev, "outcome": o, "late_start_node_plus_1": c.LateStart}
		cls := "undetected-harmless"
		switch {
		case o.Crash != "" || len(o.Panics) > 0:
			cls = "crash (see C06)" // C06 owns crashes; not a C05 violation by itself
			r.Count("crashes_left_to_C06", 1)
		case !o.Applied:
			cls = "deviation-point-not-reached"
		case o.Equivalent:
			cls = "equivalent-message"
		case len(o.Errs) > 0:
			cls = "detected"
		}
		hist[cls]++
		if o.Crash != "" {
			continue
		}
		// (a) no honest party outputs anything bad
		for _, b := range o.BadOutput {
			what := b
			if j := strings.Index(b, ": "); j >= 0 {
				what = b[j+2:]
			}
			r.Violate(fmt.Sprintf("%s/bad-output/%s/%s", fam, slot, strings.ReplaceAll(what, " ", "-")), fmt.Sprintf("an honest party produced a bad output after %s by node %d: %s", c.Dev.Sig(), c.Deviator, b), rec)
		}
		// (b) culprits ⊆ {deviator, reporter}; (c) covered => exactly the deviator
		for _, e := range o.Errs {
			if e.Node == c.Deviator {
				continue // the deviating party's own errors are not of interest
			}
			var foreign []int
			namesDev := false
			for _, cu := range e.Culprits {
				if cu == c.Deviator {
					namesDev = true
				} else if cu != e.Node {
					foreign = append(foreign, cu)
				}
			}
			if len(foreign) > 0 {
				r.Violate(fmt.Sprintf("%s/blames-innocent/%s/round%d", fam, slot, e.Round), fmt.Sprintf("honest node %d blames node(s) %v for a deviation of node %d (%s): %s", e.Node, foreign, c.Deviator, c.Dev.Sig(), e.Text), rec)
			}
			if !namesDev && !notCovered[fam+"/"+c.Dev.MsgType+"/"+c.Dev.Field] && c.Dev.Field != "" && len(foreign) == 0 && c.Dev.MsgType != "<config>" {
				r.Violate(fmt.Sprintf("%s/no-blame-for-covered-value/%s/round%d", fam, slot, e.Round), fmt.Sprintf("honest node %d reports an error for an altered value that is covered by a commitment/share check/proof but does not name the deviating node %d (%s): %s", e.Node, c.Deviator, c.Dev.Sig(), e.Text), rec)
			}
		}
		// (d) resharing: an erased honest old share implies every honest new member emitted valid key data
		if strings.Contains(fam, "resharing") && len(o.Erased) > 0 {
			sc, _ := fault.Scenario(c.Scenario)
			nOld := len(sc.Cfg.EcKeys) + len(sc.Cfg.EdKeys)
			honestErased := false
			for _, e := range o.Erased {
				if e != c.Deviator {
					honestErased = true
				}
			}
			if honestErased {
				for n := nOld; n < len(o.Ends); n++ {
					if n != c.Deviator && o.Ends[n] != 1 {
						r.Violate(fmt.Sprintf("%s/key-lost/%s", fam, slot), fmt.Sprintf("an honest old member erased its share but honest new member %d did not obtain key data (deviation %s by node %d)", n, c.Dev.Sig(), c.Deviator), rec)
					}
				}
			}
		}
		r.Distinct("cases", fmt.Sprintf("%s|%d|%s|%s", c.Scenario, c.Deviator, slot, cls))
		if i%157 == 0 {
			r.Sample(6, map[string]interface{}{"scenario": c.Scenario, "deviator": c.Deviator, "deviation": c.Dev.Sig(), "class": cls, "errors": o.Errs})
		}
	}
	var hk []string
	for k, v := range hist {
		hk = append(hk, fmt.Sprintf("%s=%d", k, v))
	}
	sort.Strings(hk)
	r.Set("outcome_histogram", hk)
	r.Set("wall_fault_s", int(time.Since(t0).Seconds()))
	r.Set("evaluations", int(r.Get("executions")))
	r.Set("distinct_nontrivial", r.NDistinct("cases"))
	r.Set("rule", "every execution that differs from the honest FIFO run by exactly one deviation of one party (every position): each bytes field / list element (first, middle, last) of each message type replaced by +1, a same-size generic value, the value another party sent in its corresponding message, or removed; list one element short; whole-message mirror of another party's message. distinct = distinct (scenario, deviator, message slot, outcome class)")
	r.Assume("crashes and hangs are C06's business and are not counted as C05 violations")
	r.Assume("attribution table (values not covered by a commitment, share check or proof): " + fmt.Sprint(keysOf(notCovered)))
}

func contains(l []string, s string) bool {
	for _, x := range l {
		if x == s {
			return true
		}
	}
	return false
}

func keysOf(m map[string]bool) []string {
	var k []string
	for x := range m {
		k = append(k, x)
	}
	sort.Strings(k)
	return k
}
