package c16

import (
	"fmt"
	"math/big"

	"github.com/bnb-chain/tss-lib/v2/common"
	cmt "github.com/bnb-chain/tss-lib/v2/crypto/commitments"

	"verif/internal/core"
)

// purityPart: the hash and commitment functions are functions of the VALUES of their arguments. Every
// sequence of up to three calls is made through ONE reused buffer per argument (the caller overwrites the
// tag buffer / the byte strings / the big.Ints in place between calls, as code that builds `append(ssid, i)`
// contexts in a loop does); the digest obtained for a value must be the same in every history.
func purityPart(r *core.Run) {
	tags := [][]byte{{}, []byte("a"), []byte("b"), []byte("ab"), []byte("ba"), []byte("$"), []byte("session-1"), []byte("session-2")}
	tuples := [][]int64{{1}, {1, 2}, {0, 255, 256}}
	type seen struct {
		dig  string
		hist string
	}
	first := map[string]seen{}
	note := func(fn, val, dig, hist string) {
		r.Count("purity_calls", 1)
		k := fn + "|" + val
		if p, ok := first[k]; !ok {
			first[k] = seen{dig, hist}
		} else if p.dig != dig {
			r.Violate("hash/"+fn+"/depends-on-call-history", "the same argument values gave two different digests in two call histories (caller reuses / overwrites its buffers between calls)",
				map[string]string{"value": val, "history_a": p.hist, "digest_a": p.dig, "history_b": hist, "digest_b": dig})
		}
	}
	var seqs [][]int
	for a := range tags {
		seqs = append(seqs, []int{a})
		for b := range tags {
			seqs = append(seqs, []int{a, b})
			for c := range tags {
				seqs = append(seqs, []int{a, b, c})
			}
		}
	}
	for _, tu := range tuples {
		for _, sq := range seqs {
			buf := make([]byte, 0, 32) // one backing array for every tag of this history
			ints := make([]*big.Int, len(tu))
			for i := range ints {
				ints[i] = new(big.Int)
			}
			hist := ""
			for step, ti := range sq {
				tag := append(buf[:0], tags[ti]...) // overwrite in place
				for i, v := range tu {
					ints[i].SetInt64(v + int64(step)) // arguments overwritten in place as well
				}
				hist += fmt.Sprintf("[tag=%q step=%d]", tags[ti], step)
				val := fmt.Sprintf("tag=%x;%v+%d", tags[ti], tu, step)
				d := common.SHA512_256i_TAGGED(tag, ints...)
				if d == nil {
					continue
				}
				note("SHA512_256i_TAGGED", val, d.Text(16), hist)
				d2 := common.SHA512_256i(ints...)
				if d2 != nil {
					note("SHA512_256i", fmt.Sprintf("%v+%d", tu, step), d2.Text(16), hist)
				}
				d3 := common.SHA512_256(tag, []byte{byte(step)})
				note("SHA512_256", fmt.Sprintf("%x,%d", tags[ti], step), fmt.Sprintf("%x", d3), hist)
				// the rounds' own idiom: contexts appended to one shared prefix with spare capacity
				ctx := append(tag, byte('0'+step))
				d4 := common.SHA512_256i_TAGGED(ctx, ints...)
				if d4 != nil {
					note("SHA512_256i_TAGGED", fmt.Sprintf("tag=%x;%v+%d", ctx, tu, step), d4.Text(16), hist+"(appended context)")
				}
				rnd := big.NewInt(7)
				c := cmt.NewHashCommitmentWithRandomness(rnd, ints...)
				if c != nil && c.C != nil {
					note("NewHashCommitmentWithRandomness", fmt.Sprintf("%v+%d", tu, step), c.C.Text(16), hist)
				}
			}
		}
	}
	r.Set("purity_distinct_values", len(first))
}

// tagPart: tags of every length around the digest size (0, 1, 31, 32, 33, 63, 64, 65 bytes), each together with its
// own SHA-512/256 digest and the digest of that (a tag that already IS a digest is the usual case: the protocols'
// session ids are), times a few integer tuples: all (tag, tuple) inputs must have distinct digests.
func tagPart(r *core.Run) {
	var tags [][]byte
	for _, n := range []int{0, 1, 2, 31, 32, 33, 63, 64, 65} {
		t := core.Bytes(fmt.Sprintf("c16/tag/%d", n), n)
		tags = append(tags, t)
		h1 := common.SHA512_256(t)
		if n == 0 {
			h1 = common.SHA512_256([]byte{}) // (nil for no input at all: hash the empty string)
		}
		if h1 != nil {
			tags = append(tags, h1, common.SHA512_256(h1))
		}
	}
	tuples := [][]int64{{}, {0}, {1}, {1, 2}, {2, 1}, {0, 0, 1}}
	set := &digestSet{m: map[[16]byte]string{}}
	for _, tu := range tuples {
		ints := make([]*big.Int, len(tu))
		for i, v := range tu {
			ints[i] = big.NewInt(v)
		}
		for _, tag := range tags {
			r.Count("tag_inputs", 1)
			d := common.SHA512_256i_TAGGED(tag, ints...)
			canon := fmt.Sprintf("tag=%x;%v", tag, tu)
			if d == nil {
				if len(tu) > 0 {
					r.Violate("hash/SHA512_256i_TAGGED/nil-digest", "nil digest", canon)
				}
				continue
			}
			if prev, ok := set.add(d.FillBytes(make([]byte, 32)), canon); !ok && prev != canon {
				r.Violate("hash/SHA512_256i_TAGGED/tag-collision", "two distinct (tag, integer tuple) inputs share a digest (tags of digest size / tags that are digests of other tags)", map[string]string{"a": prev, "b": canon})
			}
		}
	}
	r.Set("tag_alphabet", len(tags))
}

// limitPart: the packing builder and its parser agree at the size limits: whatever layout Secrets() packs
// without an error, ParseSecrets gives back unchanged (layouts whose parts are each at most MaxPartSize, also
// when their sum exceeds it), and what the builder refuses stays refused.
func limitPart(r *core.Run) {
	max := int(cmt.MaxPartSize)
	layouts := [][]int{{max}, {max, 1}, {1, max}, {max/2 + 1, max/2 + 1}, {max, max, max}, {max + 1}, {1, max + 1}}
	one := big.NewInt(1)
	for _, lay := range layouts {
		r.Count("limit_layouts", 1)
		name := fmt.Sprint(lay)
		bld := cmt.NewBuilder()
		for _, n := range lay {
			part := make([]*big.Int, n)
			for i := range part {
				part[i] = one
			}
			bld.AddPart(part)
		}
		secrets, err := bld.Secrets()
		within := true
		for _, n := range lay {
			if n > max {
				within = false
			}
		}
		if err != nil {
			if within {
				r.Violate("builder/limit/refused-by-builder", "Secrets() refuses a layout whose parts are all within MaxPartSize: "+err.Error(), name)
			}
			continue
		}
		if !within {
			r.Violate("builder/limit/oversized-part-packed", "Secrets() packs a part larger than MaxPartSize", name)
			continue
		}
		parts, perr := cmt.ParseSecrets(secrets)
		if perr != nil {
			r.Violate("builder/limit/packed-layout-refused-by-parser", "ParseSecrets refuses what Secrets() has just packed: "+perr.Error(), name)
			continue
		}
		ok := len(parts) == len(lay)
		for i := range parts {
			if !ok || len(parts[i]) != lay[i] {
				ok = false
				break
			}
		}
		if !ok {
			r.Violate("builder/limit/round-trip-differs", "the parsed layout differs from the packed one", name)
		}
	}
}
