// Package c16: commitments bind; hash inputs are framed unambiguously (ENUM).
package c16

import (
	"bytes"
	"encoding/binary"
	"fmt"
	"math/big"
	"runtime"
	"sort"
	"strings"
	"sync"

	"github.com/bnb-chain/tss-lib/v2/common"
	cmt "github.com/bnb-chain/tss-lib/v2/crypto/commitments"

	"verif/internal/core"
)

func allStrings(alpha []byte, maxLen int) [][]byte {
	out := [][]byte{{}}
	prev := [][]byte{{}}
	for l := 1; l <= maxLen; l++ {
		var cur [][]byte
		for _, p := range prev {
			for _, a := range alpha {
				s := append(append([]byte{}, p...), a)
				cur = append(cur, s)
			}
		}
		out = append(out, cur...)
		prev = cur
	}
	return out
}

type digestSet struct {
	mu sync.Mutex
	m  map[[16]byte]string
}

func (d *digestSet) add(dig []byte, canon string) (string, bool) {
	var k [16]byte
	copy(k[:], dig)
	d.mu.Lock()
	defer d.mu.Unlock()
	if prev, ok := d.m[k]; ok && prev != canon {
		return prev, false
	}
	d.m[k] = canon
	return "", true
}

func canonBytes(t [][]byte) string {
	var sb strings.Builder
	fmt.Fprintf(&sb, "%d", len(t))
	for _, b := range t {
		fmt.Fprintf(&sb, "|%x", b)
	}
	return sb.String()
}

func hashPart(r *core.Run, alpha []byte, maxLen, maxTuple int) {
	strs := allStrings(alpha, maxLen)
	// integers: strings without a leading zero byte (big.Int drops them), plus zero (empty)
	var ints []*big.Int
	var intStrs [][]byte
	for _, s := range strs {
		if len(s) > 0 && s[0] == 0 {
			continue
		}
		ints = append(ints, new(big.Int).SetBytes(s))
		intStrs = append(intStrs, s)
	}
	tags := [][]byte{{}, []byte("a"), []byte("$")}
	setB := &digestSet{m: map[[16]byte]string{}}
	setI := &digestSet{m: map[[16]byte]string{}}
	setT := &digestSet{m: map[[16]byte]string{}}
	type job struct{ first int }
	workers := runtime.NumCPU()
	// shard on the first element
	core.ParallelFor(len(strs), workers, func(a int) {
		var nB int64
		emit := func(t [][]byte) {
			nB++
			d := common.SHA512_256(t...)
			if d == nil {
				r.Violate("hash/SHA512_256/nil-digest", "nil digest for non-empty input", canonBytes(t))
				return
			}
			if prev, ok := setB.add(d, canonBytes(t)); !ok {
				r.Violate("hash/SHA512_256/collision", "two distinct byte-string tuples share a digest",
					map[string]string{"a": prev, "b": canonBytes(t)})
			}
		}
		t := [][]byte{strs[a]}
		emit(t)
		if maxTuple >= 2 {
			for _, b := range strs {
				emit([][]byte{strs[a], b})
				if maxTuple >= 3 {
					for _, c := range strs {
						emit([][]byte{strs[a], b, c})
					}
				}
			}
		}
		r.Count("hash_bytes_tuples", nB)
	})
	core.ParallelFor(len(ints), workers, func(a int) {
		var nI, nT int64
		emit := func(idx []int) {
			t := make([]*big.Int, len(idx))
			bs := make([][]byte, len(idx))
			for i, x := range idx {
				t[i] = ints[x]
				bs[i] = intStrs[x]
			}
			c := canonBytes(bs)
			nI++
			d := common.SHA512_256i(t...)
			if d == nil {
				r.Violate("hash/SHA512_256i/nil-digest", "nil digest", c)
			} else if prev, ok := setI.add(d.FillBytes(make([]byte, 32)), c); !ok {
				r.Violate("hash/SHA512_256i/collision", "two distinct integer tuples share a digest", map[string]string{"a": prev, "b": c})
			}
			for _, tag := range tags {
				nT++
				ct := fmt.Sprintf("tag=%x;%s", tag, c)
				d := common.SHA512_256i_TAGGED(tag, t...)
				if d == nil {
					r.Violate("hash/SHA512_256i_TAGGED/nil-digest", "nil digest", ct)
				} else if prev, ok := setT.add(d.FillBytes(make([]byte, 32)), ct); !ok {
					r.Violate("hash/SHA512_256i_TAGGED/collision", "two distinct (tag, integer tuple) inputs share a digest", map[string]string{"a": prev, "b": ct})
				}
			}
		}
		emit([]int{a})
		if maxTuple >= 2 {
			for b := range ints {
				emit([]int{a, b})
				if maxTuple >= 3 {
					for c := range ints {
						emit([]int{a, b, c})
					}
				}
			}
		}
		r.Count("hash_int_tuples", nI)
		r.Count("hash_tagged_inputs", nT)
	})
	r.Set("hash_distinct_digests_bytes", len(setB.m))
	r.Set("hash_distinct_digests_ints", len(setI.m))
	r.Set("hash_distinct_digests_tagged", len(setT.m))
	r.Set("hash_alphabet", fmt.Sprintf("%x", alpha))
	r.Set("hash_max_len", maxLen)
	r.Set("hash_max_tuple", maxTuple)
	// tagged vs untagged must differ too (tag domain separation)
	r.Sample(8, map[string]interface{}{"kind": "hash-bytes-tuple", "input": canonBytes([][]byte{strs[len(strs)-1], strs[1], {}})})
}

func seqKey(d []*big.Int) string {
	var sb strings.Builder
	for _, x := range d {
		sb.WriteString(x.String())
		sb.WriteByte(',')
	}
	return sb.String()
}

func commitPart(r *core.Run, maxTuple int) {
	alpha := []*big.Int{big.NewInt(0), big.NewInt(1), big.NewInt(2), big.NewInt(0x24), big.NewInt(255), big.NewInt(256), big.NewInt(0x0100000000000000)}
	rs := []*big.Int{big.NewInt(0), big.NewInt(1), new(big.Int).SetBytes(core.Bytes("c16-r", 32))}
	cset := map[string]string{}
	var tuples [][]*big.Int
	var rec func(cur []*big.Int)
	rec = func(cur []*big.Int) {
		if len(cur) > 0 {
			tuples = append(tuples, append([]*big.Int{}, cur...))
		}
		if len(cur) == maxTuple {
			return
		}
		for _, a := range alpha {
			rec(append(cur, a))
		}
	}
	rec(nil)
	edits := int64(0)
	for _, rr := range rs {
		for _, t := range tuples {
			c := cmt.NewHashCommitmentWithRandomness(rr, t...)
			r.Count("commit_created", 1)
			cd := cmt.HashCommitDecommit{C: c.C, D: c.D}
			ok, got := cd.DeCommit()
			if !ok || seqKey(got) != seqKey(t) {
				r.Violate("commit/honest-open-fails", "honest commitment does not open to the committed sequence", seqKey(t))
			}
			k := c.C.String()
			if prev, ok := cset[k]; ok && prev != seqKey(c.D) {
				r.Violate("commit/collision", "two different sequences share a commitment", map[string]string{"a": prev, "b": seqKey(c.D)})
			}
			cset[k] = seqKey(c.D)
			orig := seqKey(c.D)
			try := func(kind string, d []*big.Int) {
				if seqKey(d) == orig {
					return
				}
				edits++
				bad := cmt.HashCommitDecommit{C: c.C, D: d}
				if bad.Verify() {
					r.Violate("commit/edit-opens/"+kind, "edited decommitment still opens", map[string]string{"orig": orig, "edited": seqKey(d)})
				}
				if ok, _ := bad.DeCommit(); ok {
					r.Violate("commit/edit-decommits/"+kind, "edited decommitment still de-commits", map[string]string{"orig": orig, "edited": seqKey(d)})
				}
				r.Distinct("commit_edit_kinds", kind)
			}
			D := c.D
			for i := range D {
				for _, a := range alpha {
					d := append([]*big.Int{}, D...)
					d[i] = a
					try("change", d)
				}
				d := append(append([]*big.Int{}, D[:i]...), D[i+1:]...)
				if len(d) > 0 {
					try("delete", d)
				}
				if i+1 < len(D) { // merge neighbours: concatenated big-endian bytes
					m := new(big.Int).SetBytes(append(append([]byte{}, D[i].Bytes()...), D[i+1].Bytes()...))
					d := append(append(append([]*big.Int{}, D[:i]...), m), D[i+2:]...)
					try("merge", d)
				}
				bz := D[i].Bytes()
				for cut := 0; cut <= len(bz); cut++ { // split an element into two
					l, rgt := new(big.Int).SetBytes(bz[:cut]), new(big.Int).SetBytes(bz[cut:])
					d := append(append(append([]*big.Int{}, D[:i]...), l, rgt), D[i+1:]...)
					try("split", d)
				}
			}
			for i := 0; i <= len(D); i++ {
				for _, a := range alpha {
					d := append(append(append([]*big.Int{}, D[:i]...), a), D[i:]...)
					try("insert", d)
				}
			}
		}
	}
	r.Count("commit_edits", edits)
	r.Sample(8, map[string]interface{}{"kind": "commit-edit", "orig": seqKey(tuples[len(tuples)-1]), "edit": "merge neighbours 0,1"})
}

// refParse is the boring reference parser for the `(len, elem^len)+` packing:
// 1..PartsCap parts, each length a non-negative integer <= MaxPartSize that is fully present.
func refParse(s []*big.Int) (parts [][]*big.Int, ok bool) {
	parts, reason := refParseR(s)
	return parts, reason == ""
}

func refParseR(s []*big.Int) ([][]*big.Int, string) {
	p, ok, why := refParse0(s)
	if ok {
		return p, ""
	}
	return nil, why
}

func refParse0(s []*big.Int) ([][]*big.Int, bool, string) {
	if len(s) < 2 { // the library documents a minimum of 2 elements
		return nil, false, "too-short"
	}
	var parts [][]*big.Int
	i := 0
	for i < len(s) {
		l := s[i]
		if l.Sign() < 0 || !l.IsInt64() || l.Int64() > cmt.MaxPartSize {
			return nil, false, "bad-length/" + valClass(l)
		}
		n := int(l.Int64())
		i++
		if i+n > len(s) {
			return nil, false, "not-enough-data"
		}
		if len(parts) >= cmt.PartsCap {
			return nil, false, "too-many-parts"
		}
		parts = append(parts, s[i:i+n])
		i += n
	}
	return parts, true, ""
}

func partsKey(p [][]*big.Int) string {
	var sb strings.Builder
	for _, x := range p {
		sb.WriteString("[" + seqKey(x) + "]")
	}
	return sb.String()
}

func valClass(v *big.Int) string {
	switch {
	case v.Sign() < 0:
		return "negative"
	case v.BitLen() > 64:
		return "len>=2^64"
	case v.BitLen() == 64:
		return "len>=2^63"
	case v.Cmp(big.NewInt(cmt.MaxPartSize)) > 0:
		return "len>max"
	}
	return "small"
}

func builderPart(r *core.Run, maxSeq int) {
	// (a) round trip of every layout of <=3 parts with sizes 0..3, and 4 parts refused
	vals := []*big.Int{big.NewInt(0), big.NewInt(2), big.NewInt(7)}
	var layouts [][]int
	for a := 0; a <= 3; a++ {
		layouts = append(layouts, []int{a})
		for b := 0; b <= 3; b++ {
			layouts = append(layouts, []int{a, b})
			for c := 0; c <= 3; c++ {
				layouts = append(layouts, []int{a, b, c})
			}
		}
	}
	for _, lay := range layouts {
		for v0 := range vals {
			b := cmt.NewBuilder()
			var want [][]*big.Int
			k := v0
			for _, sz := range lay {
				p := make([]*big.Int, sz)
				for i := range p {
					p[i] = vals[k%len(vals)]
					k++
				}
				b.AddPart(p)
				want = append(want, p)
			}
			r.Count("builder_layouts", 1)
			sec, err := b.Secrets()
			if err != nil {
				r.Violate("builder/secrets-refuses-legal-layout", "builder.Secrets errors on a legal layout", fmt.Sprint(lay))
				continue
			}
			if len(sec) < 2 {
				// single empty part: the parser documents a 2-element minimum and refuses explicitly
				if _, err := safeParse(sec); err == nil {
					r.Violate("builder/short-accepted", "parser accepts <2 elements", fmt.Sprint(lay))
				}
				r.Count("builder_layouts_refused_by_documented_minimum", 1)
				continue
			}
			got, err := safeParse(sec)
			lk := fmt.Sprint(lay)
			trailingEmpty := lay[len(lay)-1] == 0
			cls := "layout"
			if trailingEmpty {
				cls = "trailing-empty-part"
			}
			if err != nil {
				r.Violate("builder/roundtrip/"+cls+"/error", "legal layout does not parse back: "+err.Error(), lk)
				continue
			}
			if partsKey(got) != partsKey(want) || len(got) != len(want) {
				r.Violate("builder/roundtrip/"+cls+"/mismatch", "layout does not round-trip through Secrets/ParseSecrets",
					map[string]string{"layout": lk, "want": partsKey(want), "got": partsKey(got)})
			}
		}
	}
	{
		b := cmt.NewBuilder()
		for i := 0; i < 4; i++ {
			b.AddPart([]*big.Int{big.NewInt(1)})
		}
		if _, err := b.Secrets(); err == nil {
			r.Violate("builder/4-parts-accepted", "builder.Secrets accepts 4 parts", nil)
		}
	}
	// (b) differential: ParseSecrets vs refParse on every sequence of length <= maxSeq over the alphabet
	two := big.NewInt(2)
	alpha := []*big.Int{big.NewInt(0), big.NewInt(1), big.NewInt(2), big.NewInt(3),
		big.NewInt(cmt.MaxPartSize), big.NewInt(cmt.MaxPartSize + 1),
		new(big.Int).Sub(new(big.Int).Exp(two, big.NewInt(63), nil), big.NewInt(1)),
		new(big.Int).Exp(two, big.NewInt(63), nil),
		new(big.Int).Sub(new(big.Int).Exp(two, big.NewInt(64), nil), big.NewInt(1)),
		new(big.Int).Exp(two, big.NewInt(64), nil),
		new(big.Int).Add(new(big.Int).Exp(two, big.NewInt(64), nil), big.NewInt(1)),
	}
	var mu sync.Mutex
	first := map[string]bool{}
	var total int64
	var walk func(cur []*big.Int, depth int)
	check := func(s []*big.Int) {
		total++
		want, why := refParseR(s)
		wok := why == ""
		got, err := safeParse(s)
		maxCls := why
		var key, what string
		switch {
		case err != nil && strings.HasPrefix(err.Error(), "PANIC"):
			key, what = "parse/panic/"+maxCls, "ParseSecrets panics: "+err.Error()
		case wok && err != nil:
			tr := ""
			if len(want) > 0 && len(want[len(want)-1]) == 0 {
				tr = "/trailing-empty-part"
			}
			key, what = "parse/rejects-wellformed"+tr, "well-formed packing refused: "+err.Error()
		case !wok && err == nil:
			key, what = "parse/accepts-malformed/"+maxCls, "malformed packing accepted as "+partsKey(got)
		case wok && (partsKey(got) != partsKey(want) || len(got) != len(want)):
			tr := ""
			if len(want) > 0 && len(want[len(want)-1]) == 0 {
				tr = "/trailing-empty-part"
			}
			key, what = "parse/misparse"+tr, "parsed "+partsKey(got)+" want "+partsKey(want)
		}
		if wok {
			r.Distinct("parse_outcomes", "ok:"+fmt.Sprint(len(want)))
		} else {
			r.Distinct("parse_outcomes", "refused")
		}
		if key != "" {
			mu.Lock()
			if !first[key] {
				first[key] = true
				r.Violate(key, what, map[string]string{"input": seqKey(s)})
			}
			mu.Unlock()
		}
	}
	walk = func(cur []*big.Int, depth int) {
		if len(cur) > 0 {
			check(cur)
		}
		if depth == maxSeq {
			return
		}
		for _, a := range alpha {
			walk(append(cur, a), depth+1)
		}
	}
	walk(nil, 0)
	r.Count("parse_sequences", total)
	r.Set("parse_alphabet", seqKey(alpha))
	r.Set("parse_max_len", maxSeq)
	r.Sample(8, map[string]interface{}{"kind": "parse-sequence", "input": seqKey([]*big.Int{alpha[2], alpha[1], alpha[1], alpha[8]})})
}

func safeParse(s []*big.Int) (p [][]*big.Int, err error) {
	defer func() {
		if x := recover(); x != nil {
			err = fmt.Errorf("PANIC: %v", x)
		}
	}()
	return cmt.ParseSecrets(s)
}

// lengthFieldProbes: the per-element length suffix must be injective for LONG elements too. For a
// shift D = 2^k the two sequences (a1, a2) and (b1, b2) below have the same concatenated framing if the
// length field only kept the length modulo D (b1 swallows a1's delimiter and length field plus the first
// D-9 bytes of a2, whose bytes at that position imitate a delimiter and the length field of a1):
//   a1 = 1 byte, a2 = D+5 bytes with a2[D-9] = '$' and a2[D-8:D] = LE64(1);  b1 = a1 || '$' || LE64(1) || a2[:D-9];  b2 = a2[D:]
// Any two distinct sequences must have distinct digests, so these pairs (and their integer / tagged
// forms) are simply added to the enumeration.
func lengthFieldProbes(r *core.Run) {
	for _, k := range []uint{8, 16, 24} {
		D := 1 << k
		a1 := []byte{0x7f}
		a2 := make([]byte, D+5)
		for i := range a2 {
			a2[i] = byte(0x41 + i%23)
		}
		a2[D-9] = '$'
		binary.LittleEndian.PutUint64(a2[D-8:D], 1)
		b1 := append(append(append([]byte{}, a1...), '$'), make([]byte, 8)...)
		binary.LittleEndian.PutUint64(b1[2:10], 1)
		b1 = append(b1, a2[:D-9]...)
		b2 := append([]byte{}, a2[D:]...)
		r.Count("hash_length_field_probes", 1)
		name := fmt.Sprintf("length-field-modulo-2^%d", k)
		if bytes.Equal(common.SHA512_256(a1, a2), common.SHA512_256(b1, b2)) {
			r.Violate("hash/SHA512_256/collision/"+name, "two distinct byte-string tuples with a long element share a digest (the per-element length field does not cover the whole length)", name)
		}
		ia1, ia2, ib1, ib2 := new(big.Int).SetBytes(a1), new(big.Int).SetBytes(a2), new(big.Int).SetBytes(b1), new(big.Int).SetBytes(b2)
		if common.SHA512_256i(ia1, ia2).Cmp(common.SHA512_256i(ib1, ib2)) == 0 {
			r.Violate("hash/SHA512_256i/collision/"+name, "two distinct integer tuples with a long element share a digest", name)
		}
		if common.SHA512_256i_TAGGED([]byte("t"), ia1, ia2).Cmp(common.SHA512_256i_TAGGED([]byte("t"), ib1, ib2)) == 0 {
			r.Violate("hash/SHA512_256i_TAGGED/collision/"+name, "two distinct tagged integer tuples with a long element share a digest", name)
		}
		// and the commitment built on the hash: (r, a1, a2) must not open as (r, b1, b2)
		rnd := big.NewInt(12345)
		c := cmt.NewHashCommitmentWithRandomness(rnd, ia1, ia2)
		forged := cmt.HashCommitDecommit{C: c.C, D: []*big.Int{rnd, ib1, ib2}}
		if forged.Verify() {
			r.Violate("commit/edit-opens/regroup-long-element/"+name, "a commitment opens with a re-grouped sequence containing a long element", name)
		}
	}
}

func Run(r *core.Run) {
	alpha := []byte{0x00, 0x01, 0x08, '$', 0xff}
	maxSeq := 6
	if r.Tier == "quick" {
		alpha = []byte{0x00, 0x01, 0x08, '$'}
		maxSeq = 5
	}
	hashPart(r, alpha, 3, 3)
	lengthFieldProbes(r)
	purityPart(r)
	tagPart(r)
	limitPart(r)
	commitPart(r, 4)
	builderPart(r, maxSeq)
	ev := r.Get("hash_bytes_tuples") + r.Get("hash_int_tuples") + r.Get("hash_tagged_inputs") + r.Get("purity_calls") + r.Get("tag_inputs") + r.Get("commit_edits") + r.Get("builder_layouts") + r.Get("parse_sequences")
	r.Set("evaluations", ev)
	dn := 0
	for _, k := range []string{"hash_distinct_digests_bytes", "hash_distinct_digests_ints", "hash_distinct_digests_tagged"} {
		dn += r.Cov[k].(int)
	}
	r.Set("distinct_nontrivial", dn)
	r.Set("rule", "every tuple of <=3 byte strings of length <=3 over the alphabet (and the integers / tagged integers they denote) is hashed; distinct = distinct digests observed (must equal the number of distinct canonical inputs); plus every single edit of every decommitment of <=4 small integers and every integer sequence up to the stated length for the packing parser, compared with a strict reference parser; plus every sequence of <=3 calls made through reused, overwritten argument buffers (the digest of a value must not depend on the call history)")
	r.Assume("SHA-512/256 collision resistance: equal digests of distinct canonical inputs are taken to mean equal pre-images, i.e. ambiguous framing")
	r.Assume("big.Int inputs to the *i hash variants are non-negative (the wire decoders only produce non-negative values)")
	_ = bytes.Equal
	_ = sort.Strings
}
