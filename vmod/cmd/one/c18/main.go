// Command c18 runs the check for property C18: c18 quick|thorough
package main

import (
	"os"

	chk "verif/checks/c18"
	"verif/internal/core"
)

func main() { os.Exit(core.Main("C18", "exploration", "ENUM", chk.Run)) }
