// Command c06 runs the check for property C06: c06 quick|thorough
package main

import (
	"os"

	chk "verif/checks/c06"
	"verif/internal/core"
)

func main() { os.Exit(core.Main("C06", "fault_enumeration", "FAULT", chk.Run)) }
