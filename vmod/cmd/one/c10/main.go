// Command c10 runs the check for property C10: c10 quick|thorough
package main

import (
	"os"

	chk "verif/checks/c10"
	"verif/internal/core"
)

func main() { os.Exit(core.Main("C10", "exploration", "ENUM", chk.Run)) }
