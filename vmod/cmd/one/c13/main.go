// Command c13 runs the check for property C13: c13 quick|thorough
package main

import (
	"os"

	chk "verif/checks/c13"
	"verif/internal/core"
)

func main() { os.Exit(core.Main("C13", "exploration", "ENUM", chk.Run)) }
