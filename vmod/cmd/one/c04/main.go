// Command c04 runs the check for property C04: c04 quick|thorough
package main

import (
	"os"

	chk "verif/checks/c04"
	"verif/internal/core"
)

func main() { os.Exit(core.Main("C04", "model_checking", "NETMC", chk.Run)) }
