// Command c11 runs the check for property C11: c11 quick|thorough
package main

import (
	"os"

	chk "verif/checks/c11"
	"verif/internal/core"
)

func main() { os.Exit(core.Main("C11", "exploration", "ENUM", chk.Run)) }
