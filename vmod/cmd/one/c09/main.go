// Command c09 runs the check for property C09: c09 quick|thorough
package main

import (
	"os"

	chk "verif/checks/c09"
	"verif/internal/core"
)

func main() { os.Exit(core.Main("C09", "model_checking", "SCHED", chk.Run)) }
