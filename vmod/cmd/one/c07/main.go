// Command c07 runs the check for property C07: c07 quick|thorough
package main

import (
	"os"

	chk "verif/checks/c07"
	"verif/internal/core"
)

func main() { os.Exit(core.Main("C07", "model_checking", "NETMC", chk.Run)) }
