// Command c15 runs the check for property C15: c15 quick|thorough
package main

import (
	"os"

	chk "verif/checks/c15"
	"verif/internal/core"
)

func main() { os.Exit(core.Main("C15", "exploration", "ENUM", chk.Run)) }
