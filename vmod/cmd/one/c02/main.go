// Command c02 runs the check for property C02: c02 quick|thorough
package main

import (
	"os"

	chk "verif/checks/c02"
	"verif/internal/core"
)

func main() { os.Exit(core.Main("C02", "model_checking", "NETMC", chk.Run)) }
