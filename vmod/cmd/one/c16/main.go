// Command c16 runs the check for property C16: c16 quick|thorough
package main

import (
	"os"

	chk "verif/checks/c16"
	"verif/internal/core"
)

func main() { os.Exit(core.Main("C16", "exploration", "ENUM", chk.Run)) }
