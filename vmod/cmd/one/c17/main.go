// Command c17 runs the check for property C17: c17 quick|thorough
package main

import (
	"os"

	chk "verif/checks/c17"
	"verif/internal/core"
)

func main() { os.Exit(core.Main("C17", "exploration", "ENUM", chk.Run)) }
