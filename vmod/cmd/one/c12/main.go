// Command c12 runs the check for property C12: c12 quick|thorough
package main

import (
	"os"

	chk "verif/checks/c12"
	"verif/internal/core"
)

func main() { os.Exit(core.Main("C12", "exploration", "ENUM", chk.Run)) }
