// Command c01 runs the check for property C01: c01 quick|thorough
package main

import (
	"os"

	chk "verif/checks/c01"
	"verif/internal/core"
)

func main() { os.Exit(core.Main("C01", "model_checking", "NETMC", chk.Run)) }
