// Command c14 runs the check for property C14: c14 quick|thorough
package main

import (
	"os"

	chk "verif/checks/c14"
	"verif/internal/core"
)

func main() { os.Exit(core.Main("C14", "exploration", "ENUM", chk.Run)) }
