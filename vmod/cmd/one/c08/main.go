// Command c08 runs the check for property C08: c08 quick|thorough
package main

import (
	"os"

	chk "verif/checks/c08"
	"verif/internal/core"
)

func main() { os.Exit(core.Main("C08", "model_checking", "NETMC", chk.Run)) }
