// Command c19 runs the check for property C19: c19 quick|thorough
package main

import (
	"os"

	chk "verif/checks/c19"
	"verif/internal/core"
)

func main() { os.Exit(core.Main("C19", "model_checking", "SCHED+ENUM", chk.Run)) }
