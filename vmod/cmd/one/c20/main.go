// Command c20 runs the check for property C20: c20 quick|thorough
package main

import (
	"os"

	chk "verif/checks/c20"
	"verif/internal/core"
)

func main() { os.Exit(core.Main("C20", "model_checking", "NETMC", chk.Run)) }
