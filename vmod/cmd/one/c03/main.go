// Command c03 runs the check for property C03: c03 quick|thorough
package main

import (
	"os"

	chk "verif/checks/c03"
	"verif/internal/core"
)

func main() { os.Exit(core.Main("C03", "model_checking", "NETMC", chk.Run)) }
