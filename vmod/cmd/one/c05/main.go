// Command c05 runs the check for property C05: c05 quick|thorough
package main

import (
	"os"

	chk "verif/checks/c05"
	"verif/internal/core"
)

func main() { os.Exit(core.Main("C05", "fault_enumeration", "FAULT", chk.Run)) }
