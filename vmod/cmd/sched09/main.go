// Command sched09: the C09 harness. It must be built with an overlay that replaces /repo/tss/party.go
// by the instrumented copy (sync -> verif/vsched, lock-set hooks); it explores all interleavings of a few
// concurrent calls on ONE real party up to a preemption bound, or (mode "free") runs the same scenario
// bodies on free-running goroutines for the race detector.
package main

import (
	"encoding/json"
	"fmt"
	"io"
	"math/big"
	"os"
	"sort"
	"strconv"
	"strings"
	gosync "sync"
	"time"

	"verif/internal/core"
	"verif/internal/netrun"
	"verif/internal/scen"
	"verif/vsched"
)

type opSpec struct {
	Kind string // start | update | garbage | waiting
	Msg  int    // index into the transcript
}

type scenario struct {
	Name         string
	Cfg          netrun.Config
	Node         int
	NoCompletion bool       // do not deliver the rest of the transcript afterwards (its later messages depend on this party's own non-reproducible output)
	Prefix       []opSpec   // applied sequentially before the threads start
	Threads      [][]opSpec // concurrent part
}

type transcript struct {
	msgs []*netrun.Msg // messages addressed to the party under test, FIFO order of a recorded run
}

func record(cfg netrun.Config, node int) transcript {
	nw, err := netrun.New(cfg)
	if err != nil {
		panic(err)
	}
	var tr transcript
	type cp struct {
		m  *netrun.Msg
		to int
	}
	var q []cp
	push := func(ms []*netrun.Msg) {
		for _, m := range ms {
			for _, t := range m.To {
				q = append(q, cp{m, t})
			}
		}
	}
	order := []int{}
	for _, n := range nw.Nodes {
		if n.Role == "new" {
			order = append(order, n.Idx)
		}
	}
	for _, n := range nw.Nodes {
		if n.Role != "new" {
			order = append(order, n.Idx)
		}
	}
	for _, i := range order {
		push(nw.Start(i).NewMsg)
	}
	for len(q) > 0 {
		c := q[0]
		q = q[1:]
		if c.to == node {
			tr.msgs = append(tr.msgs, c.m)
		}
		push(nw.Deliver(c.to, c.m).NewMsg)
	}
	return tr
}

type outcome struct {
	Started  bool
	Ends     int
	Errs     int
	Emitted  []string
	Finished bool
	Panics   int
}

func (o outcome) key() string {
	return fmt.Sprintf("ends=%d errs=%d fin=%v pan=%d em=%s", o.Ends, o.Errs, o.Finished, o.Panics, strings.Join(o.Emitted, ";"))
}

type runner struct {
	sc scenario
	tr transcript
	nw *netrun.Network
	mu gosync.Mutex // protects the netrun bookkeeping (not the party) in free-running mode
}

// yieldingReader makes every draw of randomness inside a round a scheduling point, so that other
// threads can run while a round's Start() is in progress.
type yieldingReader struct{ rd io.Reader }

func (y yieldingReader) Read(p []byte) (int, error) {
	vsched.Yield("rand.Read")
	return y.rd.Read(p)
}

func (r *runner) fresh() {
	nw, err := netrun.New(r.sc.Cfg)
	if err != nil {
		panic(err)
	}
	r.nw = nw
	n := nw.Nodes[r.sc.Node]
	if n.Rand != nil && n.Params != nil {
		n.Params.SetRand(yieldingReader{n.Rand})
		n.Params.SetPartialKeyRand(yieldingReader{n.Rand})
	}
}

// snapshot: the observable right after the concurrent phase (before the rest of the transcript is delivered).
func (r *runner) snapshot() string {
	n := r.nw.Nodes[r.sc.Node]
	r.nw.DeliverRaw(r.sc.Node, []byte{}, n.ID, true, "drain") // unparsable: only drains the channels
	var em []string
	for _, m := range n.Emitted {
		em = append(em, fmt.Sprintf("%s>%v", m.Type, m.To))
	}
	sort.Strings(em)
	return fmt.Sprintf("round=%d ends=%d em=%s", r.nw.Round(r.sc.Node), len(n.Ends), strings.Join(em, ";"))
}

func (r *runner) do(o opSpec) {
	// outside a controlled execution (reference runs, completion phase) an operation includes whatever the
	// library detached from it
	defer vsched.WaitFree()
	n := r.nw.Nodes[r.sc.Node]
	switch o.Kind {
	case "start":
		n.Started = true
		if err := n.Party.Start(); err != nil {
			r.mu.Lock()
			n.Errs = append(n.Errs, err)
			r.mu.Unlock()
		}
	case "update":
		m := r.tr.msgs[o.Msg]
		_, err := n.Party.UpdateFromBytes(m.Bytes, r.nw.Nodes[m.Sender].ID, m.Broadcast)
		if err != nil {
			r.mu.Lock()
			n.Errs = append(n.Errs, err)
			r.mu.Unlock()
		}
	case "tampered":
		// a well-formed message with one altered byte near the end (fails a later verification)
		m := r.tr.msgs[o.Msg]
		bz := append([]byte{}, m.Bytes...)
		bz[len(bz)-2] ^= 0x10
		_, err := n.Party.UpdateFromBytes(bz, r.nw.Nodes[m.Sender].ID, m.Broadcast)
		if err != nil {
			r.mu.Lock()
			n.Errs = append(n.Errs, err)
			r.mu.Unlock()
		}
	case "garbage":
		m := r.tr.msgs[o.Msg]
		_, _ = n.Party.UpdateFromBytes([]byte{0xff, 0x01, 0x02}, r.nw.Nodes[m.Sender].ID, true)
	case "waiting":
		_ = n.Party.WaitingFor()
	}
}

// finish delivers the rest of the transcript sequentially and reads the observable outcome.
func (r *runner) finish(delivered map[int]bool) outcome {
	n := r.nw.Nodes[r.sc.Node]
	if !n.Started {
		r.do(opSpec{Kind: "start"})
	}
	for i := range r.tr.msgs {
		if !delivered[i] && !r.sc.NoCompletion {
			r.do(opSpec{Kind: "update", Msg: i})
		}
	}
	// drain channels through netrun's collector
	r.nw.Nodes[r.sc.Node].Calls++
	res := r.nw.DeliverRaw(r.sc.Node, []byte{}, n.ID, true, "drain") // unparsable: only drains the channels
	_ = res
	var o outcome
	o.Started = n.Started
	o.Ends = len(n.Ends)
	o.Errs = len(n.Errs) - 2 // minus the two drain calls' parse errors (snapshot + here)
	if o.Errs < 0 {
		o.Errs = 0
	}
	for _, m := range n.Emitted {
		o.Emitted = append(o.Emitted, fmt.Sprintf("%s>%v", m.Type, m.To))
	}
	sort.Strings(o.Emitted)
	o.Finished = r.nw.Finished(r.sc.Node)
	o.Panics = len(n.Panics)
	return o
}

func deliveredSet(sc scenario) map[int]bool {
	d := map[int]bool{}
	for _, o := range sc.Prefix {
		if o.Kind == "update" || o.Kind == "tampered" {
			d[o.Msg] = true
		}
	}
	for _, t := range sc.Threads {
		for _, o := range t {
			if o.Kind == "update" || o.Kind == "tampered" {
				d[o.Msg] = true
			}
		}
	}
	return d
}

// sequentialOutcomes: every interleaving of whole operations (thread order respected), no scheduler.
func sequentialOutcomes(r *runner) map[string]bool {
	out := map[string]bool{}
	idx := make([]int, len(r.sc.Threads))
	var order []opSpec
	var rec func()
	rec = func() {
		done := true
		for t := range r.sc.Threads {
			if idx[t] < len(r.sc.Threads[t]) {
				done = false
				order = append(order, r.sc.Threads[t][idx[t]])
				idx[t]++
				rec()
				idx[t]--
				order = order[:len(order)-1]
			}
		}
		if done {
			r.fresh()
			for _, o := range r.sc.Prefix {
				r.do(o)
			}
			for _, o := range order {
				r.do(o)
			}
			mid := r.snapshot()
			out["MID:"+mid] = true
			out[r.finish(deliveredSet(r.sc)).key()] = true
		}
	}
	rec()
	return out
}

type violation struct {
	Key      string   `json:"key"`
	What     string   `json:"what"`
	Schedule []int    `json:"schedule"`
	Trace    []string `json:"trace"`
}

type result struct {
	Scenario     string      `json:"scenario"`
	Bound        int         `json:"bound"`
	Schedules    int         `json:"schedules"`
	Steps        int         `json:"steps"`
	MaxPoints    int         `json:"max_points"`
	Capped       bool        `json:"capped"`
	Outcomes     int         `json:"distinct_outcomes"`
	SeqOutcomes  int         `json:"sequential_outcomes"`
	Violations   []violation `json:"violations"`
	SampleTrace  []string    `json:"sample_trace"`
	ReplayStable bool        `json:"replay_stable"`
}

func explore(sc scenario, bound, maxExec int) result {
	r := &runner{sc: sc, tr: record(sc.Cfg, sc.Node)}
	seq := sequentialOutcomes(r)
	res := result{Scenario: sc.Name, Bound: bound, SeqOutcomes: len(seq), ReplayStable: true}
	outcomes := map[string]bool{}
	seen := map[string]bool{}
	addV := func(key, what string, x *vsched.Execution) {
		if seen[key] {
			return
		}
		seen[key] = true
		res.Violations = append(res.Violations, violation{key, what, x.Choices, x.Sched.Trace})
	}
	body := func() {
		for ti, th := range sc.Threads {
			th := th
			vsched.GoNamed(fmt.Sprintf("T%d", ti+1), func() {
				for _, o := range th {
					r.do(o)
				}
			})
		}
	}
	ex := &vsched.Explorer{Bound: bound, MaxSteps: 10000, MaxExec: maxExec, Deadline: time.Now().Add(40 * time.Minute)}
	stuck := 0
	var lastKey string
	allDelivered := !sc.NoCompletion || len(deliveredSet(sc)) == len(r.tr.msgs)
	ex.Body = func() {
		r.fresh()
		for _, o := range sc.Prefix {
			r.do(o)
		}
		body()
	}
	ex.Check = func(x *vsched.Execution) {
		s := x.Sched
		res.Steps += len(s.Points)
		if res.SampleTrace == nil || len(s.Trace) > len(res.SampleTrace) {
			res.SampleTrace = s.Trace
		}
		if s.Aborted != "" {
			addV("infrastructure/"+s.Aborted, s.Aborted, x)
			ex.Stop = true
			return
		}
		if s.Deadlock {
			addV("deadlock", "no enabled goroutine: "+s.Trace[len(s.Trace)-1], x)
			if stuck++; stuck >= 3 { // the goroutines of a deadlocked execution stay parked: a few counterexamples are enough
				ex.Stop = true
			}
			return
		}
		for _, v := range s.Violations {
			k := "lockset"
			if strings.HasPrefix(v, "panic") {
				k = "panic"
			}
			// signature: which accessor
			sig := v
			if i := strings.Index(v, "accesses "); i >= 0 {
				sig = strings.Fields(v[i+9:])[0]
			}
			addV(k+"/"+sig, v, x)
		}
		mid := r.snapshot()
		if !seq["MID:"+mid] {
			addV("not-sequentially-equivalent/after-the-concurrent-calls", "when all concurrent calls have returned the party is at ["+mid+"], which no sequential order of the same calls produces", x)
		}
		o := r.finish(deliveredSet(sc))
		lastKey = o.key()
		outcomes[lastKey] = true
		if !seq[lastKey] {
			addV("not-sequentially-equivalent", "final observable "+lastKey+" matches no sequential order of the same operations", x)
		}
		if o.Ends > 1 {
			addV("result-emitted-twice", fmt.Sprintf("%d results", o.Ends), x)
		}
		// every message of the transcript has been handed over: the party has produced its result, or some call
		// has returned the error that stopped it (independent of the sequential reference)
		if allDelivered && o.Ends == 0 && o.Errs == 0 {
			addV("silent-stop/no-result-and-no-error", "every message was delivered, no call returned an error, and the party has no result: "+lastKey, x)
		}
	}
	ex.Explore()
	res.Schedules, res.MaxPoints, res.Capped, res.Outcomes = ex.Schedules, ex.MaxPoints, ex.Capped, len(outcomes)
	// determinism: replay the last schedule's prefix-free default twice
	s1 := vsched.Run(nil, 10000, ex.Body)
	k1 := r.finish(deliveredSet(sc)).key()
	s2 := vsched.Run(nil, 10000, ex.Body)
	k2 := r.finish(deliveredSet(sc)).key()
	if k1 != k2 || strings.Join(s1.Trace, "|") != strings.Join(s2.Trace, "|") {
		res.ReplayStable = false
	}
	return res
}

func freeRun(sc scenario, reps int) {
	r := &runner{sc: sc, tr: record(sc.Cfg, sc.Node)}
	for i := 0; i < reps; i++ {
		r.fresh()
		for _, o := range sc.Prefix {
			r.do(o)
		}
		var wg gosync.WaitGroup
		for _, th := range sc.Threads {
			th := th
			wg.Add(1)
			go func() {
				defer wg.Done()
				for _, o := range th {
					r.do(o)
				}
			}()
		}
		wg.Wait()
		r.finish(deliveredSet(sc))
	}
}

// roundOneCount: how many transcript messages belong to the first round the party waits in.
func scenarios(tier string, seed int64) []scenario {
	var out []scenario
	msg := new(big.Int).SetBytes(core.Bytes("c09-msg", 32))
	gen := func(name string, cfg netrun.Config, node int, r1 int) {
		// r1 = number of transcript messages that complete the party's first waiting round
		upd := func(i int) opSpec { return opSpec{"update", i} }
		var prefixAllBut2 []opSpec
		prefixAllBut2 = append(prefixAllBut2, opSpec{Kind: "start"})
		for i := 0; i < r1-2; i++ {
			prefixAllBut2 = append(prefixAllBut2, upd(i))
		}
		var prefixAllBut1 []opSpec
		prefixAllBut1 = append(prefixAllBut1, opSpec{Kind: "start"})
		for i := 0; i < r1-1; i++ {
			prefixAllBut1 = append(prefixAllBut1, upd(i))
		}
		out = append(out,
			scenario{Name: name + "/start-vs-early-message", Cfg: cfg, Node: node, Threads: [][]opSpec{{{Kind: "start"}}, {upd(0)}}},
			scenario{Name: name + "/start-vs-the-updates-completing-round-1", Cfg: cfg, Node: node, Threads: [][]opSpec{{{Kind: "start"}}, {upd(0)}, {upd(1)}}},
			scenario{Name: name + "/two-updates-completing-a-round", Cfg: cfg, Node: node, Prefix: prefixAllBut2, Threads: [][]opSpec{{upd(r1 - 2)}, {upd(r1 - 1)}}},
			scenario{Name: name + "/round-completion-vs-next-round-message-vs-WaitingFor", Cfg: cfg, Node: node, Prefix: prefixAllBut1, Threads: [][]opSpec{{upd(r1 - 1)}, {upd(r1)}, {{Kind: "waiting"}}}},
			scenario{Name: name + "/garbage-vs-round-completion", Cfg: cfg, Node: node, Prefix: prefixAllBut1, Threads: [][]opSpec{{{Kind: "garbage", Msg: 0}}, {upd(r1 - 1)}}},
			scenario{Name: name + "/duplicate-vs-new-vs-WaitingFor", Cfg: cfg, Node: node, Prefix: prefixAllBut1, Threads: [][]opSpec{{upd(0), {Kind: "waiting"}}, {upd(r1 - 1)}}},
		)
	}
	// the last message round stored ahead of time, one of its messages forged: the update that completes the
	// round before it works through two rounds and must return the failure of the final one
	{
		cfg := scen.EdSigning("small", 3, 1, []int{0, 1, 2}, msg, 0, seed).Cfg
		out = append(out, scenario{Name: "eddsa-signing(3 signers)/forged-final-round-message-stored-early-vs-round-completion", Cfg: cfg, Node: 0, NoCompletion: true,
			Prefix:  []opSpec{{Kind: "start"}, {"update", 0}, {"update", 1}, {"update", 2}, {"update", 4}, {"tampered", 5}},
			Threads: [][]opSpec{{{"update", 3}}, {{Kind: "waiting"}}}})
	}
	// a round that fails to start (tampered last message of round 2) racing with the next round's message
	{
		cfg := scen.EdSigning("small", 3, 1, []int{0, 1, 2}, msg, 0, seed).Cfg
		out = append(out, scenario{Name: "eddsa-signing(3 signers)/failing-round-start-vs-next-message-vs-WaitingFor", Cfg: cfg, Node: 0, NoCompletion: true,
			Prefix:  []opSpec{{Kind: "start"}, {"update", 0}, {"update", 1}, {"update", 2}},
			Threads: [][]opSpec{{{"tampered", 3}}, {{"update", 4}}, {{Kind: "waiting"}}}})
	}
	// an update that completes a round while the next round is already partly (or completely) stored, racing
	// with the delivery that completes that next round: whoever works through a chain of rounds must not act on
	// a round another call has finished meanwhile
	{
		cfg := scen.EdSigning("small", 3, 1, []int{0, 1, 2}, msg, 0, seed).Cfg
		out = append(out, scenario{Name: "eddsa-signing(3 signers)/round-completion-with-next-round-half-stored-vs-its-last-message-vs-WaitingFor", Cfg: cfg, Node: 0,
			Prefix:  []opSpec{{Kind: "start"}, {"update", 0}, {"update", 1}, {"update", 2}, {"update", 4}},
			Threads: [][]opSpec{{{"update", 3}}, {{"update", 5}}, {{Kind: "waiting"}}}})
		cfg2 := scen.EdSigning("small", 2, 1, []int{0, 1}, msg, 0, seed).Cfg
		out = append(out, scenario{Name: "eddsa-signing(2 signers)/three-updates-each-completing-a-round", Cfg: cfg2, Node: 0,
			Prefix:  []opSpec{{Kind: "start"}},
			Threads: [][]opSpec{{{"update", 0}}, {{"update", 1}}, {{"update", 2}}}})
		cfg3 := scen.EdKeygen("small", 2, 1, seed).Cfg
		out = append(out, scenario{Name: "eddsa-keygen(n=2)/updates-each-completing-a-round", Cfg: cfg3, Node: 0,
			Prefix:  []opSpec{{Kind: "start"}},
			Threads: [][]opSpec{{{"update", 0}}, {{"update", 1}, {"update", 2}}}})
	}
	gen("eddsa-keygen(n=3)", scen.EdKeygen("small", 3, 1, seed).Cfg, 0, 2)
	gen("eddsa-signing(3 signers)", scen.EdSigning("small", 3, 1, []int{0, 1, 2}, msg, 0, seed).Cfg, 0, 2)
	gen("eddsa-resharing(new member)", scen.EdResharing(3, 1, []int{0, 2}, 2, 1, seed).Cfg, 2, 2)
	ecs := scen.EcSigning("small", 2, 1, []int{0, 1}, msg, 0, seed).Cfg
	out = append(out,
		scenario{Name: "ecdsa-signing(2 signers)/start-vs-early-message", Cfg: ecs, Node: 0, NoCompletion: true, Threads: [][]opSpec{{{Kind: "start"}}, {{"update", 0}}}},
		scenario{Name: "ecdsa-signing(2 signers)/two-updates-completing-round-1-vs-WaitingFor", Cfg: ecs, Node: 0, NoCompletion: true, Prefix: []opSpec{{Kind: "start"}}, Threads: [][]opSpec{{{"update", 0}}, {{"update", 1}}, {{Kind: "waiting"}}}},
	)
	if tier == "thorough" {
		gen("ecdsa-keygen(n=2)", scen.EcKeygen("small", 2, 1, seed).Cfg, 0, 1+0)
		gen("ecdsa-resharing(new member)", scen.EcResharing(2, 1, []int{0, 1}, 2, 1, seed, true).Cfg, 2, 2)
	}
	// scenarios with r1 < 2 make some op lists degenerate: drop scenarios with negative indices
	var ok []scenario
	for _, s := range out {
		good := true
		for _, l := range append([][]opSpec{s.Prefix}, s.Threads...) {
			for _, o := range l {
				if o.Msg < 0 {
					good = false
				}
			}
		}
		if good {
			ok = append(ok, s)
		}
	}
	return ok
}

func main() {
	mode, tier := os.Args[1], os.Args[2]
	seed, _ := strconv.ParseInt(os.Args[3], 10, 64)
	bound, _ := strconv.Atoi(os.Args[4])
	scs := scenarios(tier, seed)
	if mode == "free" {
		for _, sc := range scs {
			freeRun(sc, 12)
		}
		fmt.Println("free-run-done", len(scs))
		return
	}
	var results []result
	for _, sc := range scs {
		results = append(results, explore(sc, bound, 20000))
	}
	json.NewEncoder(os.Stdout).Encode(results)
}
