package main

import (
	"fmt"
	"os"

	"verif/checks/c01"
	"verif/checks/c02"
	"verif/checks/c03"
	"verif/checks/c04"
	"verif/checks/c05"
	"verif/checks/c06"
	"verif/checks/c07"
	"verif/checks/c08"
	"verif/checks/c09"
	"verif/checks/c10"
	"verif/checks/c11"
	"verif/checks/c12"
	"verif/checks/c13"
	"verif/checks/c14"
	"verif/checks/c15"
	"verif/checks/c16"
	"verif/checks/c17"
	"verif/checks/c18"
	"verif/checks/c19"
	"verif/checks/c20"
	"verif/internal/core"
)

type entry struct {
	level, engine string
	run           func(*core.Run)
}

var registry = map[string]entry{
	"C01": {"model_checking", "NETMC", c01.Run},
	"C02": {"model_checking", "NETMC", c02.Run},
	"C03": {"model_checking", "NETMC", c03.Run},
	"C04": {"model_checking", "NETMC", c04.Run},
	"C05": {"fault_enumeration", "FAULT", c05.Run},
	"C06": {"fault_enumeration", "FAULT", c06.Run},
	"C07": {"model_checking", "NETMC", c07.Run},
	"C08": {"model_checking", "NETMC", c08.Run},
	"C09": {"model_checking", "SCHED", c09.Run},
	"C10": {"exploration", "ENUM", c10.Run},
	"C11": {"exploration", "ENUM", c11.Run},
	"C12": {"exploration", "ENUM", c12.Run},
	"C13": {"exploration", "ENUM", c13.Run},
	"C14": {"exploration", "ENUM", c14.Run},
	"C15": {"exploration", "ENUM", c15.Run},
	"C16": {"exploration", "ENUM", c16.Run},
	"C17": {"exploration", "ENUM", c17.Run},
	"C18": {"exploration", "ENUM", c18.Run},
	"C19": {"model_checking", "SCHED+ENUM", c19.Run},
	"C20": {"model_checking", "NETMC", c20.Run},
}

func main() {
	if len(os.Args) >= 2 && os.Args[1] == "worker" {
		os.Exit(workerMain(os.Args[2:]))
	}
	if len(os.Args) < 3 {
		fmt.Fprintln(os.Stderr, "usage: check <Cnn> quick|thorough")
		os.Exit(2)
	}
	id, tier := os.Args[1], os.Args[2]
	e, ok := registry[id]
	if !ok || (tier != "quick" && tier != "thorough") {
		fmt.Fprintln(os.Stderr, "unknown check or tier")
		os.Exit(2)
	}
	r := core.NewRun(id, tier, e.level, e.engine)
	e.run(r)
	os.Exit(r.Finish())
}
