package main

import (
	"fmt"
	"os"

	"verif/checks/c16"
	"verif/internal/core"
)

type entry struct {
	level, engine string
	run           func(*core.Run)
}

var registry = map[string]entry{
	"C16": {"exploration", "ENUM", c16.Run},
}

func main() {
	if len(os.Args) < 3 {
		fmt.Fprintln(os.Stderr, "usage: check <Cnn> quick|thorough")
		os.Exit(2)
	}
	id, tier := os.Args[1], os.Args[2]
	e, ok := registry[id]
	if !ok || (tier != "quick" && tier != "thorough") {
		fmt.Fprintln(os.Stderr, "unknown check or tier")
		os.Exit(2)
	}
	r := core.NewRun(id, tier, e.level, e.engine)
	e.run(r)
	os.Exit(r.Finish())
}
