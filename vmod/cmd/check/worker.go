package main

// workerMain is the entry point of FAULT worker subprocesses (filled in by the fault engine).
func workerMain(args []string) int { return workerDispatch(args) }

var workerDispatch = func(args []string) int { return 2 }
