package main

import (
	"fmt"
	"math/big"

	"github.com/bnb-chain/tss-lib/v2/common"

	"verif/internal/core"
	"verif/internal/netrun"
	"verif/internal/ref"
	"verif/internal/scen"
	"verif/internal/statehash"
)

func main() {
	keys := scen.EcKey("small", 2, 1, 1)
	cfg := netrun.Config{Proto: netrun.EcdsaSigning, EcKeys: keys, Threshold: 1, Msg: big.NewInt(5), SeedOverride: map[int]string{0: "a", 1: "b"}}
	nw, _ := netrun.New(cfg)
	nw.Start(0)
	k := statehash.FieldBig(nw.Nodes[0].Party, "temp", "k")
	fmt.Println("actual k", k)
	fmt.Println("pred   k", common.GetRandomPositiveInt(core.NewDRBG("a"), ref.Secp256k1.N))
	fmt.Println("reads", nw.Nodes[0].Rand.Reads)
}
