package main

import (
	"fmt"
	"os"
	"strconv"
	"time"

	"verif/internal/explore"
	"verif/internal/fix"
	"verif/internal/netrun"
)

func main() {
	n, _ := strconv.Atoi(os.Args[1])
	dups, _ := strconv.Atoi(os.Args[2])
	t0 := time.Now()
	mk := func() *netrun.Network {
		nw, err := netrun.New(netrun.Config{Proto: netrun.EddsaKeygen, Keys: fix.SmallKeys(n), Threshold: 1})
		if err != nil {
			panic(err)
		}
		return nw
	}
	s := explore.NewSys(mk)
	res := s.Explore(explore.Options{Workers: 16, MaxDups: dups})
	fmt.Printf("states=%d trans=%d depth=%d terminals=%d localtrans=%d nonconf=%d  %.1fs\n", res.States, res.Transitions, res.MaxDepth, len(res.Terminals), s.LocalTransitions, s.NonConfluent, time.Since(t0).Seconds())
	for p := range s.Tabs {
		fmt.Printf(" node %d local states %d\n", p, len(s.Tabs[p]))
	}
	for _, g := range res.Terminals {
		tr := res.Trace(g)
		mm, _ := s.JointReplay(tr)
		fmt.Println(" terminal depth", g.Depth, "joint mismatch:", mm)
		for p := 0; p < s.N; p++ {
			l := s.Local(g, p)
			fmt.Printf("   node %d ends=%d errs=%d round=%d waiting=%v\n", p, len(l.Obs.Ends), len(l.Obs.Errs), l.Obs.Round, l.Obs.Waiting)
		}
	}
}
