package main

import (
	"fmt"
	"os"

	"verif/internal/rewrite"
)

func main() {
	src, _ := os.ReadFile(os.Args[1])
	var fields, calls []string
	if len(os.Args) > 2 && os.Args[2] == "party" {
		fields = []string{"rnd"}
		calls = []string{"StoreMessage"}
	}
	out, st, err := rewrite.File(src, fields, calls)
	fmt.Fprintln(os.Stderr, st, err)
	os.Stdout.Write(out)
}
