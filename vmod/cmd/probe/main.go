package main

import (
	"fmt"
	"github.com/bnb-chain/tss-lib/v2/common"
	"math/big"
)

func main() { fmt.Println(common.SHA512_256i(big.NewInt(1))) }
