// Command sched19: the C19(b) harness. Built with an overlay replacing /repo/common/safe_prime.go by its
// instrumented copy; explores the interleavings of the consumer, the producer goroutines and a
// canceller of GetRandomSafePrimesConcurrent under scripted reader answers.
package main

import (
	"context"
	"encoding/json"
	"errors"
	"fmt"
	"os"
	"strconv"
	"strings"
	"time"

	"github.com/bnb-chain/tss-lib/v2/common"

	"verif/vsched"
)

var errReader = errors.New("scripted reader failure")

// scripted reader: call k answers script[k] ('P' = bytes that make a 6-bit safe prime, 'N' = bytes that
// make no safe prime, 'E' = error); after the script every call answers 'P'.
type reader struct {
	script string
	calls  int
}

func (r *reader) Read(p []byte) (int, error) {
	vsched.Yield("reader.Read")
	k := r.calls
	r.calls++
	c := byte('P')
	sc := r.script
	if strings.HasSuffix(sc, "*") && len(sc) >= 2 { // "...X*": X repeats forever
		rep := sc[len(sc)-2]
		sc = sc[:len(sc)-2]
		c = rep
	}
	if k < len(sc) {
		c = sc[k]
	}
	switch c {
	case 'E':
		return 0, errReader
	case 'N':
		for i := range p {
			p[i] = 0x1f // q = 31 -> p = 63 is composite; the sieve walks on and finds nothing of the right size
		}
	default:
		for i := range p {
			p[i] = 0x1d // q = 29, p = 59
		}
	}
	return len(p), nil
}

type scenario struct {
	Name        string
	Concurrency int
	NumPrimes   int
	Script      string
	Cancel      bool
}

type violation struct {
	Key      string   `json:"key"`
	What     string   `json:"what"`
	Schedule []int    `json:"schedule"`
	Trace    []string `json:"trace"`
}

type result struct {
	Scenario    string         `json:"scenario"`
	Bound       int            `json:"bound"`
	Schedules   int            `json:"schedules"`
	Steps       int            `json:"steps"`
	MaxPoints   int            `json:"max_points"`
	Capped      bool           `json:"capped"`
	Outcomes    map[string]int `json:"outcomes"`
	Violations  []violation    `json:"violations"`
	SampleTrace []string       `json:"sample_trace"`
}

func isPrime(n int64) bool {
	if n < 2 {
		return false
	}
	for d := int64(2); d*d <= n; d++ {
		if n%d == 0 {
			return false
		}
	}
	return true
}

func explore(sc scenario, bound, maxExec int) result {
	res := result{Scenario: sc.Name, Bound: bound, Outcomes: map[string]int{}}
	seen := map[string]bool{}
	type ret struct {
		returned      bool
		primes        []*common.GermainSafePrime
		err           error
		aliveAtReturn int
		cancelled     bool
		readerErr     bool
	}
	var cur *ret
	deadlocks := 0
	ex := &vsched.Explorer{Bound: bound, MaxSteps: 1200, MaxExec: maxExec, Deadline: time.Now().Add(25 * time.Minute)}
	ex.Body = func() {
		cur = &ret{}
		my := cur
		rd := &reader{script: sc.Script}
		ctx, cancel := context.WithCancel(context.Background())
		if sc.Cancel {
			vsched.GoNamed("canceller", func() {
				vsched.Yield("cancel()")
				my.cancelled = true
				cancel()
			})
		}
		ps, err := common.GetRandomSafePrimesConcurrent(ctx, 6, sc.NumPrimes, sc.Concurrency, rd)
		my.returned, my.primes, my.err = true, ps, err
		my.readerErr = strings.Contains(sc.Script, "E")
		my.aliveAtReturn = vsched.Alive()
		if sc.Cancel && !my.cancelled {
			my.aliveAtReturn-- // the canceller thread of the harness is not the generator's goroutine
		}
		cancel()
	}
	ex.Check = func(x *vsched.Execution) {
		s := x.Sched
		res.Steps += len(s.Points)
		if res.SampleTrace == nil || len(s.Trace) > len(res.SampleTrace) {
			res.SampleTrace = s.Trace
		}
		add := func(key, what string) {
			res.Outcomes["VIOLATION:"+key]++
			if seen[key] {
				return
			}
			seen[key] = true
			res.Violations = append(res.Violations, violation{key, what, x.Choices, s.Trace})
		}
		if s.Aborted == "horizon exceeded" {
			add("livelock/does-not-stop", "the call (or one of its goroutines) keeps running without end: "+fmt.Sprint(s.Trace[len(s.Trace)-6:]))
			ex.Stop = true // the goroutines of such an execution stay parked for good: one counterexample is enough
			return
		}
		if s.Aborted != "" {
			add("infrastructure/"+s.Aborted, s.Aborted)
			ex.Stop = true
			return
		}
		if s.Deadlock {
			where := "before-return"
			if cur.returned {
				where = "after-return"
			}
			add("deadlock/"+where, "the generator call never completes: "+s.Trace[len(s.Trace)-1])
			deadlocks++
			if deadlocks >= 3 { // parked goroutines are never reclaimed: stop after a few counterexamples
				ex.Stop = true
			}
			return
		}
		for _, v := range s.Violations {
			add("panic", v)
		}
		if !cur.returned {
			add("no-return", "the call did not return")
			return
		}
		switch {
		case cur.err == nil:
			res.Outcomes["complete"]++
			if len(cur.primes) != sc.NumPrimes {
				add("wrong-count", fmt.Sprintf("%d primes returned, %d requested", len(cur.primes), sc.NumPrimes))
			}
			for _, p := range cur.primes {
				if p == nil || p.Prime() == nil || p.SafePrime() == nil {
					add("nil-prime", "nil entry in the result")
					continue
				}
				q, sp := p.Prime().Int64(), p.SafePrime().Int64()
				if !isPrime(q) || !isPrime(sp) || sp != 2*q+1 || p.SafePrime().BitLen() != 6 {
					add("bad-prime", fmt.Sprintf("q=%d p=%d", q, sp))
				}
			}
		case errors.Is(cur.err, common.ErrGeneratorCancelled):
			res.Outcomes["cancelled"]++
			if !cur.cancelled {
				add("spurious-cancel", "ErrGeneratorCancelled without a cancellation")
			}
		case errors.Is(cur.err, errReader):
			res.Outcomes["reader-error"]++
			if !cur.readerErr {
				add("spurious-reader-error", "reader error reported although the reader never failed")
			}
		default:
			add("unexpected-error", cur.err.Error())
		}
		if cur.aliveAtReturn > 0 {
			add("goroutine-left-behind", fmt.Sprintf("%d generator goroutine(s) still alive when the call returned", cur.aliveAtReturn))
		}
	}
	ex.Explore()
	res.Schedules, res.MaxPoints, res.Capped = ex.Schedules, ex.MaxPoints, ex.Capped
	return res
}

func scenarios() []scenario {
	var scs []scenario
	for _, c := range []int{1, 2, 3} {
		for _, n := range []int{1, 2} {
			scs = append(scs, scenario{fmt.Sprintf("conc=%d,primes=%d,reader=P*", c, n), c, n, "", false})
			scs = append(scs, scenario{fmt.Sprintf("conc=%d,primes=%d,reader=P*,cancel", c, n), c, n, "", true})
		}
	}
	scs = append(scs,
		scenario{"conc=2,primes=1,reader=E*", 2, 1, "EEEEEE", false},
		scenario{"conc=2,primes=2,reader=PE,then P*", 2, 2, "PE", false},
		scenario{"conc=2,primes=1,reader=NNP*,cancel", 2, 1, "NN", true},
		scenario{"conc=3,primes=2,reader=NEP*", 3, 2, "NE", false},
		// the reader never yields a prime: only the cancellation can end the call (producers must look at
		// the context between draws; a spinning producer must not keep the call from returning)
		// every producer's read fails: each sends its error; only the first is consumed
		// one transient failure while the other producers are healthy
		scenario{"conc=2,primes=2,reader=E then P-forever", 2, 2, "E", false},
		scenario{"conc=3,primes=1,reader=PPE then P-forever", 3, 1, "PPE", false},
		scenario{"conc=3,primes=1,reader=E-forever", 3, 1, "E*", false},
		scenario{"conc=3,primes=2,reader=P then E-forever", 3, 2, "PE*", false},
		scenario{"conc=1,primes=1,reader=N-forever,cancel", 1, 1, "N*", true},
		scenario{"conc=2,primes=1,reader=N-forever,cancel", 2, 1, "N*", true},
	)
	return scs
}

// usage: sched19 list | sched19 run <scenario index> <preemption bound> <max executions>
func main() {
	scs := scenarios()
	if os.Args[1] == "list" {
		for i, sc := range scs {
			fmt.Printf("%d\t%d\t%d\t%s\n", i, sc.Concurrency, sc.NumPrimes, sc.Name)
		}
		return
	}
	idx, _ := strconv.Atoi(os.Args[2])
	bound, _ := strconv.Atoi(os.Args[3])
	maxExec, _ := strconv.Atoi(os.Args[4])
	json.NewEncoder(os.Stdout).Encode(explore(scs[idx], bound, maxExec))
}
