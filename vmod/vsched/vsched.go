// Package vsched: a cooperative scheduler for real goroutines plus drop-in replacements for the
// sync primitives used by the code under test (it is imported under the name `sync` by overlay
// copies of /repo files, so it must not import tss-lib). Exactly one managed goroutine runs at a time;
// before each hooked operation the goroutine announces it and parks; the explorer decides who goes next.
// With no active scheduler every primitive behaves like the real one.
package vsched

import (
	"fmt"
	"reflect"
	"runtime"
	rsync "sync"
	"time"
)

// Re-exported real types that overlaid files may reference through the `sync` name.
type (
	Once   = rsync.Once
	Locker = rsync.Locker
	Pool   = rsync.Pool
	Map    = rsync.Map
)

type opKind int

const (
	opStart opKind = iota
	opLock
	opWgWait
	opSelect
	opSend
	opYield
)

type gor struct {
	goid    int64 // runtime goroutine id (to tell managed callers from goroutines the library started itself)
	id      int
	name    string
	resume  chan int // value = chosen case index for select
	pending *op
	done    bool
	held    map[interface{}]bool
}

type op struct {
	kind  opKind
	mu    *Mutex
	wg    *WaitGroup
	cases []Case
	ch    reflect.Value
	label string
}

// Case of a select.
type Case struct {
	Kind int // 0 recv, 1 send, 2 default
	Ch   reflect.Value
}

func RecvOf(ch interface{}) Case { return Case{0, reflect.ValueOf(ch)} }
func SendOf(ch interface{}) Case { return Case{1, reflect.ValueOf(ch)} }
func Default() Case              { return Case{Kind: 2} }

// Point describes one scheduling decision for the explorer.
type Point struct {
	Enabled    []int // goroutine ids in canonical order (the default choice first)
	Sub        []int // per enabled goroutine: number of ready select cases (1 otherwise)
	Cost       []int // per enabled goroutine: deviations charged for choosing it at this point
	Running    int
	RunEnabled bool
	Labels     []string
}

type Sched struct {
	mu       rsync.Mutex
	gors     []*gor
	cur      *gor
	parked   chan *gor
	Choices  []int // replayed prefix, then extended with defaults
	pos      int
	Points   []Point
	Trace    []string
	Deadlock bool
	Violations []string
	Steps    int
	MaxSteps int
	Aborted  string
	lastRun  int
}

var active *Sched
var activeMu rsync.Mutex

func current() *Sched {
	activeMu.Lock()
	defer activeMu.Unlock()
	return active
}

// self finds the gor record of the calling managed goroutine: only one managed goroutine runs at a
// time, so it is the scheduler's current one.
func (s *Sched) self() *gor { return s.cur }

func ready(c Case) bool {
	switch c.Kind {
	case 2:
		return true
	case 1:
		if c.Ch.Cap() == 0 {
			panic("vsched: send on an unbuffered channel in a select is not supported")
		}
		return c.Ch.Len() < c.Ch.Cap()
	default:
		if c.Ch.Len() > 0 {
			return true
		}
		if c.Ch.Cap() == 0 && c.Ch.Type().Elem().Kind() == reflect.Struct && c.Ch.Type().Elem().NumField() == 0 {
			// a done channel: nobody sends, it only gets closed; probe without consuming anything
			chosen, _, ok := reflect.Select([]reflect.SelectCase{{Dir: reflect.SelectRecv, Chan: c.Ch}, {Dir: reflect.SelectDefault}})
			return chosen == 0 && !ok
		}
		return false
	}
}

func (s *Sched) enabled(g *gor) (bool, []int) {
	o := g.pending
	if o == nil {
		return false, nil
	}
	switch o.kind {
	case opStart, opYield:
		return true, nil
	case opLock:
		return !o.mu.locked, nil
	case opWgWait:
		return o.wg.n == 0, nil
	case opSend:
		return o.ch.Len() < o.ch.Cap(), nil
	case opSelect:
		var rd []int
		def := -1
		for i, c := range o.cases {
			if c.Kind == 2 {
				def = i
			} else if ready(c) {
				rd = append(rd, i)
			}
		}
		if len(rd) == 0 && def >= 0 {
			rd = []int{def} // default only when nothing else is ready (Go semantics)
		}
		return len(rd) > 0, rd
	}
	return false, nil
}

// park announces an operation and waits to be scheduled. Returns the select case index.
func (s *Sched) park(o *op) int {
	g := s.self()
	g.pending = o
	s.parked <- g
	return <-g.resume
}

// Run executes body as managed goroutine 0 under the schedule `choices` (prefix; afterwards choice 0).
func Run(choices []int, maxSteps int, body func()) *Sched {
	s := &Sched{parked: make(chan *gor), Choices: append([]int{}, choices...), MaxSteps: maxSteps, lastRun: -1}
	activeMu.Lock()
	if active != nil {
		activeMu.Unlock()
		panic("vsched: nested Run")
	}
	active = s
	activeMu.Unlock()
	defer func() {
		activeMu.Lock()
		active = nil
		activeMu.Unlock()
	}()
	s.spawn("main", body)
	s.loop()
	return s
}

func (s *Sched) spawn(name string, f func()) *gor {
	g := &gor{id: len(s.gors), name: name, resume: make(chan int), held: map[interface{}]bool{}}
	g.pending = &op{kind: opStart, label: "start " + name}
	s.gors = append(s.gors, g)
	go func() {
		g.goid = goid()
		<-g.resume
		defer func() {
			if x := recover(); x != nil {
				s.Violations = append(s.Violations, fmt.Sprintf("panic in %s: %v", g.name, x))
			}
			g.done = true
			g.pending = nil
			s.parked <- g
		}()
		f()
	}()
	return g
}

func (s *Sched) next() int {
	if s.pos < len(s.Choices) {
		c := s.Choices[s.pos]
		s.pos++
		return c
	}
	s.Choices = append(s.Choices, 0)
	s.pos++
	return 0
}

func (s *Sched) loop() {
	for {
		// collect enabled goroutines in canonical order
		var en []*gor
		var subs [][]int
		alive := 0
		runStill := false
		for _, g := range s.gors {
			if !g.done {
				alive++
			}
		}
		if alive == 0 {
			return
		}
		add := func(g *gor) {
			if ok, rd := s.enabled(g); ok {
				en = append(en, g)
				subs = append(subs, rd)
			}
		}
		// Canonical order and deviation costs.
		//  - the goroutine that ran last, if still enabled at an ordinary operation, comes first and
		//    continuing it is free; switching away from it is a preemption (cost 1);
		//  - if it parked at a voluntary Yield (spin/poll loops, environment steps) the default is to hand
		//    over to the next goroutine (fairness: a spinning goroutine cannot starve the others); any
		//    other choice, including continuing the yielder, costs 1;
		//  - if it is blocked or finished, every choice is free.
		yielded := false
		if s.lastRun >= 0 && !s.gors[s.lastRun].done {
			lr := s.gors[s.lastRun]
			if ok, _ := s.enabled(lr); ok {
				runStill = true
				yielded = lr.pending != nil && lr.pending.kind == opYield
			}
		}
		var costs []int
		if runStill && !yielded {
			add(s.gors[s.lastRun])
			costs = append(costs, 0)
		}
		// others in ascending id order starting after the last runner (round robin)
		n := len(s.gors)
		startAt := 0
		if s.lastRun >= 0 {
			startAt = s.lastRun + 1
		}
		for k := 0; k < n; k++ {
			g := s.gors[(startAt+k)%n]
			if g.done || (runStill && g.id == s.lastRun) {
				continue
			}
			before := len(en)
			add(g)
			if len(en) > before {
				switch {
				case runStill && !yielded:
					costs = append(costs, 1)
				case runStill && yielded:
					if len(costs) == 0 {
						costs = append(costs, 0) // the fair default
					} else {
						costs = append(costs, 1)
					}
				default:
					costs = append(costs, 0)
				}
			}
		}
		if runStill && yielded {
			add(s.gors[s.lastRun])
			if len(costs) == 0 {
				costs = append(costs, 0) // nobody else can run: continuing is the only option
			} else {
				costs = append(costs, 1)
			}
		}
		if len(en) == 0 {
			s.Deadlock = true
			var w []string
			for _, g := range s.gors {
				if !g.done && g.pending != nil {
					w = append(w, g.name+" blocked at "+g.pending.label)
				}
			}
			s.Trace = append(s.Trace, "DEADLOCK: "+fmt.Sprint(w))
			return
		}
		s.Steps++
		if s.MaxSteps > 0 && s.Steps > s.MaxSteps {
			s.Aborted = "horizon exceeded"
			return
		}
		pt := Point{Running: s.lastRun, RunEnabled: runStill, Cost: costs}
		for i, g := range en {
			pt.Enabled = append(pt.Enabled, g.id)
			n := 1
			if len(subs[i]) > 1 {
				n = len(subs[i])
			}
			pt.Sub = append(pt.Sub, n)
			pt.Labels = append(pt.Labels, g.name+":"+g.pending.label)
		}
		// flatten (goroutine, sub-choice) into one choice index
		total := 0
		for _, n := range pt.Sub {
			total += n
		}
		c := s.next()
		if c >= total {
			s.Aborted = fmt.Sprintf("replay divergence: choice %d out of range (%d options) at point %d", c, total, len(s.Points))
			return
		}
		s.Points = append(s.Points, pt)
		gi, sub := 0, c
		for sub >= pt.Sub[gi] {
			sub -= pt.Sub[gi]
			gi++
		}
		g := en[gi]
		o := g.pending
		caseIdx := 0
		switch o.kind {
		case opLock:
			o.mu.locked = true
			o.mu.owner = g
			g.held[o.mu] = true
		case opSelect:
			caseIdx = subs[gi][sub]
		}
		s.Trace = append(s.Trace, fmt.Sprintf("%s:%s", g.name, o.label))
		g.pending = nil
		s.cur = g
		s.lastRun = g.id
		g.resume <- caseIdx
		// wait until it parks again or finishes
		<-s.parked
	}
}

// ---- primitives ----

// Go starts a managed goroutine (plain `go` without an active scheduler).
// freeWG tracks goroutines started through Go/GoNamed while no scheduler is active (reference runs and
// completion phases), so that the harness can wait for them (WaitFree) before the next controlled execution:
// a goroutine that outlives its phase would otherwise run into the next execution's scheduler.
var freeWG rsync.WaitGroup

func goFree(f func()) {
	freeWG.Add(1)
	go func() {
		defer freeWG.Done()
		f()
	}()
}

// WaitFree waits until every goroutine started outside a controlled execution has finished (no-op inside one).
func WaitFree() {
	if current() == nil {
		freeWG.Wait()
	}
}

func Go(f func()) {
	s := current()
	if s == nil {
		goFree(f)
		return
	}
	s.spawn(fmt.Sprintf("g%d", len(s.gors)), f)
}

// GoNamed is Go with a readable name.
func GoNamed(name string, f func()) {
	s := current()
	if s == nil {
		goFree(f)
		return
	}
	s.spawn(name, f)
}

// Yield is a scheduling point with no effect (environment steps: reader answers, cancel calls).
// Called from a goroutine the scheduler does not manage (one the code under test started itself and
// joins before returning) it does nothing.
func Yield(label string) {
	if s := current(); s != nil {
		if s.cur == nil || s.cur.goid != goid() {
			return
		}
		s.park(&op{kind: opYield, label: label})
	}
}

// goid parses the current goroutine's id out of its stack header ("goroutine 123 [running]:").
func goid() int64 {
	var buf [64]byte
	n := runtime.Stack(buf[:], false)
	var id int64
	for _, c := range buf[len("goroutine "):n] {
		if c < '0' || c > '9' {
			break
		}
		id = id*10 + int64(c-'0')
	}
	return id
}

type Mutex struct {
	real   rsync.Mutex
	locked bool
	owner  *gor
}

func (m *Mutex) Lock() {
	s := current()
	if s == nil {
		m.real.Lock()
		return
	}
	s.park(&op{kind: opLock, mu: m, label: "Lock"})
}

func (m *Mutex) Unlock() {
	s := current()
	if s == nil {
		m.real.Unlock()
		return
	}
	if !m.locked {
		panic("vsched: unlock of unlocked mutex")
	}
	g := s.self()
	delete(g.held, m)
	m.locked = false
	m.owner = nil
}

func (m *Mutex) TryLock() bool {
	s := current()
	if s == nil {
		return m.real.TryLock()
	}
	if m.locked {
		return false
	}
	g := s.self()
	m.locked, m.owner = true, g
	g.held[m] = true
	return true
}

type WaitGroup struct {
	real rsync.WaitGroup
	n    int
}

func (w *WaitGroup) Add(d int) {
	if current() == nil {
		w.real.Add(d)
		return
	}
	w.n += d
	if w.n < 0 {
		panic("vsched: negative WaitGroup counter")
	}
}

func (w *WaitGroup) Done() { w.Add(-1) }

func (w *WaitGroup) Wait() {
	s := current()
	if s == nil {
		w.real.Wait()
		return
	}
	s.park(&op{kind: opWgWait, wg: w, label: "WaitGroup.Wait"})
}

// Choose is the scheduling point of a select statement; it returns the index of the case to take.
// The caller then performs the real channel operation, which cannot block.
func Choose(label string, cases ...Case) int {
	s := current()
	if s == nil {
		// free-running: emulate with reflect.Select (used only by the -race pass)
		var rc []reflect.SelectCase
		for _, c := range cases {
			switch c.Kind {
			case 0:
				rc = append(rc, reflect.SelectCase{Dir: reflect.SelectRecv, Chan: c.Ch})
			case 2:
				rc = append(rc, reflect.SelectCase{Dir: reflect.SelectDefault})
			default:
				panic("vsched: free-running Choose with a send case is not supported")
			}
		}
		i, _, _ := reflect.Select(rc)
		return i
	}
	return s.park(&op{kind: opSelect, cases: cases, label: "select " + label})
}

// Send is the scheduling point before a plain send on a buffered channel.
func Send(label string, ch interface{}) {
	s := current()
	if s == nil {
		return
	}
	v := reflect.ValueOf(ch)
	if v.Cap() == 0 {
		panic("vsched: plain send on an unbuffered channel is not supported")
	}
	s.park(&op{kind: opSend, ch: v, label: "send " + label})
}

// Access is the lock-set monitor hook: an access to protected state. It is a violation to reach it
// holding no lock while another managed goroutine is alive.
func Access(tag string) {
	s := current()
	if s == nil {
		return
	}
	g := s.self()
	if len(g.held) > 0 {
		return
	}
	others := 0
	for _, x := range s.gors {
		if x != g && !x.done {
			others++
		}
	}
	if others > 0 {
		s.Violations = append(s.Violations, fmt.Sprintf("lockset: %s accesses %s holding no lock while %d other goroutine(s) are alive", g.name, tag, others))
	}
}

// Alive returns the number of managed goroutines that have not finished, excluding the caller.
func Alive() int {
	s := current()
	if s == nil {
		return 0
	}
	n := 0
	for _, x := range s.gors {
		if x != s.self() && !x.done {
			n++
		}
	}
	return n
}

// ---- explorer: iterative preemption bounding ----

type Execution struct {
	Choices []int
	Sched   *Sched
}

type Explorer struct {
	Bound     int
	MaxSteps  int
	MaxExec   int
	Body      func()
	Check     func(x *Execution) // called for every complete execution
	Schedules int
	Capped    bool
	MaxPoints int
	// Stop: set by Check to end the exploration (an execution that deadlocks or runs past the horizon leaves
	// its goroutines parked for good; the first such counterexample is enough, more of them only leak memory)
	Stop bool
	// Deadline: exploration stops with Capped once it has passed (zero: none)
	Deadline time.Time
}

// optionCost: deviations charged for flattened choice c at point p.
func optionCost(p Point, c int) int {
	gi := 0
	for c >= p.Sub[gi] {
		c -= p.Sub[gi]
		gi++
	}
	return p.Cost[gi]
}

func (e *Explorer) preemptionsBefore(x *Sched, i int) int {
	cost := 0
	for k := 0; k < i; k++ {
		cost += optionCost(x.Points[k], x.Choices[k])
	}
	return cost
}

func (e *Explorer) Explore() {
	e.explore(nil)
}

func (e *Explorer) explore(prefix []int) {
	if e.Stop {
		return
	}
	if (e.MaxExec > 0 && e.Schedules >= e.MaxExec) || (!e.Deadline.IsZero() && time.Now().After(e.Deadline)) {
		e.Capped = true
		return
	}
	s := Run(prefix, e.MaxSteps, e.Body)
	e.Schedules++
	if len(s.Points) > e.MaxPoints {
		e.MaxPoints = len(s.Points)
	}
	x := &Execution{Choices: append([]int{}, s.Choices[:len(s.Points)]...), Sched: s}
	e.Check(x)
	if s.Aborted != "" && len(prefix) > 0 && len(s.Points) < len(prefix) {
		return
	}
	for i := len(prefix); i < len(s.Points); i++ {
		p := s.Points[i]
		base := e.preemptionsBefore(s, i)
		total := 0
		for _, n := range p.Sub {
			total += n
		}
		for alt := 1; alt < total; alt++ {
			cost := base + optionCost(p, alt)
			if cost > e.Bound {
				continue
			}
			np := append(append([]int{}, s.Choices[:i]...), alt)
			e.explore(np)
			if e.Capped || e.Stop {
				return
			}
		}
	}
}
