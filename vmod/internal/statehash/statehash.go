// Package statehash: structural deep hash / deep dump of live objects (unexported fields included),
// used to canonicalise party states and to compare key material before/after operations.
package statehash

import (
	"crypto/elliptic"
	"crypto/sha256"
	"encoding/hex"
	"fmt"
	"hash"
	"math/big"
	"reflect"
	"sort"
	"unsafe"

	"google.golang.org/protobuf/proto"

	"github.com/bnb-chain/tss-lib/v2/tss"

	"verif/internal/core"
)

type walker struct {
	noAlias bool // value hash: pointer sharing between siblings is not part of the hash
	h       hash.Hash
	seen    map[uintptr]int
	skip    map[string]bool // field names to skip
	Unknown map[string]int
}

var (
	bigIntPtr   = reflect.TypeOf((*big.Int)(nil))
	curveIface  = reflect.TypeOf((*elliptic.Curve)(nil)).Elem()
	protoIface  = reflect.TypeOf((*proto.Message)(nil)).Elem()
	parsedIface = reflect.TypeOf((*tss.ParsedMessage)(nil)).Elem()
	drbgPtr     = reflect.TypeOf((*core.DRBG)(nil))
	partyIDPtr  = reflect.TypeOf((*tss.PartyID)(nil))
)

func (w *walker) w(s string) { w.h.Write([]byte(s)); w.h.Write([]byte{0}) }

func access(v reflect.Value) reflect.Value {
	if v.CanInterface() {
		return v
	}
	if v.CanAddr() {
		return reflect.NewAt(v.Type(), unsafe.Pointer(v.UnsafeAddr())).Elem()
	}
	return v
}

func (w *walker) walk(v reflect.Value, depth int) {
	if depth > 60 {
		w.w("<deep>")
		return
	}
	if !v.IsValid() {
		w.w("<invalid>")
		return
	}
	v = access(v)
	t := v.Type()
	// special cases first
	switch {
	case t == bigIntPtr:
		if v.IsNil() {
			w.w("big:nil")
		} else if v.CanInterface() {
			w.w("big:" + v.Interface().(*big.Int).Text(16))
		} else {
			w.w("big:?")
		}
		return
	case t == drbgPtr:
		if v.IsNil() {
			w.w("drbg:nil")
		} else if v.CanInterface() {
			d := v.Interface().(*core.DRBG)
			w.w(fmt.Sprintf("drbg:%d", d.Position()))
		}
		return
	case t == partyIDPtr:
		if v.IsNil() {
			w.w("pid:nil")
		} else if v.CanInterface() {
			p := v.Interface().(*tss.PartyID)
			if p.MessageWrapper_PartyID == nil {
				w.w(fmt.Sprintf("pid:{nil,%d}", p.Index))
			} else {
				w.w(fmt.Sprintf("pid:{%s,%x,%d}", p.Id, p.Key, p.Index))
			}
		}
		return
	}
	if v.CanInterface() && (t.Kind() == reflect.Ptr || t.Kind() == reflect.Interface) && !v.IsNil() {
		if pm, ok := v.Interface().(tss.ParsedMessage); ok {
			bz, _, err := pm.WireBytes()
			s := sha256.Sum256(bz)
			fi := -1
			if pm.GetFrom() != nil {
				fi = pm.GetFrom().Index
			}
			w.w(fmt.Sprintf("msg:%s:%d:%v:%x:%v", pm.Type(), fi, pm.IsBroadcast(), s[:8], err))
			return
		}
		if c, ok := v.Interface().(elliptic.Curve); ok {
			w.w("curve:" + c.Params().Name + ":" + c.Params().N.Text(16))
			return
		}
		if m, ok := v.Interface().(proto.Message); ok {
			bz, _ := proto.MarshalOptions{Deterministic: true}.Marshal(m)
			w.w(fmt.Sprintf("proto:%x", sha256.Sum256(bz)))
			return
		}
	}
	switch t.Kind() {
	case reflect.Bool:
		w.w(fmt.Sprint(v.Bool()))
	case reflect.Int, reflect.Int8, reflect.Int16, reflect.Int32, reflect.Int64:
		w.w(fmt.Sprint(v.Int()))
	case reflect.Uint, reflect.Uint8, reflect.Uint16, reflect.Uint32, reflect.Uint64, reflect.Uintptr:
		w.w(fmt.Sprint(v.Uint()))
	case reflect.Float32, reflect.Float64:
		w.w(fmt.Sprint(v.Float()))
	case reflect.String:
		w.w("s:" + v.String())
	case reflect.Chan, reflect.Func, reflect.UnsafePointer:
		w.w("<" + t.Kind().String() + ">")
	case reflect.Ptr:
		if v.IsNil() {
			w.w("nil")
			return
		}
		p := v.Pointer()
		if id, ok := w.seen[p]; ok {
			if w.noAlias {
				w.w("cycle")
			} else {
				w.w(fmt.Sprintf("ref#%d", id))
			}
			return
		}
		w.seen[p] = len(w.seen)
		w.w("&")
		w.walk(v.Elem(), depth+1)
		if w.noAlias {
			delete(w.seen, p) // only guards against cycles on the current path
		}
	case reflect.Interface:
		if v.IsNil() {
			w.w("inil")
			return
		}
		w.w("i:" + v.Elem().Type().String())
		w.walk(v.Elem(), depth+1)
	case reflect.Struct:
		if t.PkgPath() == "sync" || t.PkgPath() == "sync/atomic" {
			w.w("<sync>")
			return
		}
		w.w("{" + t.String())
		for i := 0; i < t.NumField(); i++ {
			f := t.Field(i)
			if w.skip[f.Name] {
				continue
			}
			w.w(f.Name)
			w.walk(v.Field(i), depth+1)
		}
		w.w("}")
	case reflect.Slice:
		if v.IsNil() {
			w.w("snil")
			return
		}
		if t.Elem().Kind() == reflect.Uint8 {
			w.w("b:" + hex.EncodeToString(v.Bytes()))
			return
		}
		w.w(fmt.Sprintf("[%d", v.Len()))
		for i := 0; i < v.Len(); i++ {
			w.walk(v.Index(i), depth+1)
		}
		w.w("]")
	case reflect.Array:
		w.w(fmt.Sprintf("[%d", v.Len()))
		for i := 0; i < v.Len(); i++ {
			w.walk(v.Index(i), depth+1)
		}
		w.w("]")
	case reflect.Map:
		if v.IsNil() {
			w.w("mnil")
			return
		}
		// order-independent: hash each entry separately and sort
		var ents []string
		it := v.MapRange()
		for it.Next() {
			sub := &walker{h: sha256.New(), seen: map[uintptr]int{}, skip: w.skip}
			sub.walk(it.Key(), depth+1)
			sub.walk(it.Value(), depth+1)
			ents = append(ents, hex.EncodeToString(sub.h.Sum(nil)))
		}
		sort.Strings(ents)
		w.w(fmt.Sprintf("map%d", len(ents)))
		for _, e := range ents {
			w.w(e)
		}
	default:
		w.w("<?" + t.Kind().String() + ">")
	}
}

// Hash returns a hex digest of the deep structure reachable from x (x should be a pointer for
// unexported fields to be readable). skipFields names struct fields to ignore everywhere.
func Hash(x interface{}, skipFields ...string) string {
	w := &walker{h: sha256.New(), seen: map[uintptr]int{}, skip: map[string]bool{}}
	for _, s := range skipFields {
		w.skip[s] = true
	}
	w.walk(reflect.ValueOf(x), 0)
	return hex.EncodeToString(w.h.Sum(nil))[:32]
}

// ValueHash is Hash without sensitivity to pointer sharing: two structures with equal values hash
// equal whether or not they alias sub-objects.
func ValueHash(x interface{}, skipFields ...string) string {
	w := &walker{h: sha256.New(), seen: map[uintptr]int{}, skip: map[string]bool{}, noAlias: true}
	for _, s := range skipFields {
		w.skip[s] = true
	}
	w.walk(reflect.ValueOf(x), 0)
	return hex.EncodeToString(w.h.Sum(nil))[:32]
}

// Field digs an unexported field path out of a struct pointer, e.g. Field(p, "temp", "k").
func Field(x interface{}, path ...string) reflect.Value {
	v := reflect.ValueOf(x)
	for _, name := range path {
		for v.Kind() == reflect.Ptr || v.Kind() == reflect.Interface {
			v = v.Elem()
		}
		f := v.FieldByName(name)
		if !f.IsValid() {
			return reflect.Value{}
		}
		v = access(f)
	}
	return v
}

func FieldBig(x interface{}, path ...string) *big.Int {
	v := Field(x, path...)
	if !v.IsValid() || v.Type() != bigIntPtr || v.IsNil() {
		return nil
	}
	return v.Interface().(*big.Int)
}
