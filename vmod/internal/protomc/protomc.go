// Package protomc: protocol-level model checking — the decomposed explorer of package explore driven
// over one protocol configuration, with the monitors of properties C07 and C08 evaluated on every
// feasible local transition and every reachable global state.
package protomc

import (
	"bytes"
	"encoding/hex"
	"fmt"
	"math/big"
	"reflect"
	"sort"
	"strings"

	"google.golang.org/protobuf/proto"

	"github.com/bnb-chain/tss-lib/v2/tss"

	"verif/internal/core"
	"verif/internal/explore"
	"verif/internal/model"
	"verif/internal/netrun"
	"verif/internal/statehash"
)

type Scenario struct {
	Name string
	Cfg  netrun.Config
}

// MkError is raised (as a panic) when the parties of a scenario cannot be constructed.
type MkError struct{ Err error }

func (sc Scenario) Mk() *netrun.Network {
	nw, err := netrun.New(sc.Cfg)
	if err != nil {
		panic(MkError{err})
	}
	return nw
}

type Options struct {
	// Mode: "" = decomposed exhaustive search (deterministic protocols); "joint" = exhaustive search with
	// full replays and value-free states; "dev" = every complete run with at most Deviations deviations from FIFO.
	Mode       string
	Deviations int
	Dups        int
	C07         bool // schedule independence / termination / no error
	C08         bool // emission discipline, routing, WaitingFor, wire round trip, secrets
	FlipProbes  bool // leaf probes with the broadcast flag flipped (C08)
	FlipThenOne bool // + after every flipped hand-over, every single further proper delivery: no influence allowed
	MaxStates   int
	Workers     int
	JointValidate int // number of 1-deviation traces to validate jointly (in addition to FIFO and terminals); -1 = all
	// ResultOracle is evaluated on every terminal state in which all parties have finished; it receives
	// the end values per node (nil where none).
	ResultOracle func(t TermCtx) []string
	Observe      func(nw *netrun.Network, p int) map[string]string
	// OnGlobal is evaluated in every reachable global state (all modes) with the records of all nodes.
	OnGlobal func(s *explore.Sys, locals []*explore.LState, viol func(key, what string, trace []string), trace func() []string)
}

// TermCtx is what a result oracle sees of a terminal state.
type TermCtx struct {
	Ends    [][]interface{}
	Emitted [][]EmittedMsg // per node, in emission order
}

type EmittedMsg struct {
	Type  string
	Bytes []byte
	To    []int
}

type Stats struct {
	States, Transitions, MaxDepth, Terminals, LocalStates, LocalTransitions int
	NonConfluent, JointReplays, FlipProbes                                  int
	Capped                                                                  bool
	DistinctOutcomes                                                        int
	Samples                                                                 []interface{}
}

type nodeInfo struct {
	role  string
	key   string // hex party key
	peers map[string][]int
}

// expected computes the reference model's view of node p after the given delivery set.
type expView struct {
	round    int // 1-based index into the spec; len(spec) = final
	emitted  []string // canonical "Type|bcast|to,to"
	awaiting []string // hex keys
	finished bool
}

type modelCtx struct {
	proto netrun.Proto
	nodes []nodeInfo
	byRole map[string][]int
}

func newModelCtx(nw *netrun.Network) *modelCtx {
	mc := &modelCtx{proto: nw.Cfg.Proto, byRole: map[string][]int{}}
	for _, n := range nw.Nodes {
		mc.nodes = append(mc.nodes, nodeInfo{role: n.Role, key: hex.EncodeToString(n.ID.Key)})
		mc.byRole[n.Role] = append(mc.byRole[n.Role], n.Idx)
	}
	return mc
}

func (mc *modelCtx) committee(p int, which string) []int {
	var out []int
	add := func(role string) {
		for _, i := range mc.byRole[role] {
			if i != p {
				out = append(out, i)
			}
		}
	}
	switch which {
	case "":
		add(mc.nodes[p].role)
	case "both":
		add("old")
		add("new")
	default:
		add(which)
	}
	sort.Ints(out)
	return out
}

func canonEmit(t string, bcast bool, to []int) string {
	return fmt.Sprintf("%s|b=%v|to=%v", t, bcast, to)
}

// expected state of p given (started, set of correctly-flagged delivered (type,sender) pairs).
func (mc *modelCtx) expected(p int, started bool, have map[string]bool) expView {
	spec := model.Specs[mc.proto][mc.nodes[p].role]
	var ev expView
	if !started {
		return ev
	}
	cur := 1
	for {
		rd := spec[cur-1]
		for _, e := range rd.Emits {
			dest := mc.committee(p, e.Committee)
			if e.P2P {
				for _, d := range dest {
					ev.emitted = append(ev.emitted, canonEmit(e.Type, false, []int{d}))
				}
			} else {
				ev.emitted = append(ev.emitted, canonEmit(e.Type, true, dest))
			}
		}
		if cur == len(spec) {
			ev.finished = true
			break
		}
		missing := map[int]bool{}
		for _, rq := range rd.Requires {
			for _, j := range mc.committee(p, rq.From) {
				if !have[fmt.Sprintf("%s|%d", rq.Type, j)] {
					missing[j] = true
				}
			}
		}
		if len(missing) > 0 {
			for j := range missing {
				ev.awaiting = append(ev.awaiting, mc.nodes[j].key)
			}
			sort.Strings(ev.awaiting)
			break
		}
		cur++
	}
	ev.round = cur
	sort.Strings(ev.emitted)
	return ev
}

func secretsOf(nw *netrun.Network, p int) map[string][]byte {
	out := map[string][]byte{}
	add := func(name string, v *big.Int) {
		if v != nil && v.BitLen() >= 120 {
			out[name] = v.Bytes()
		}
	}
	party := nw.Nodes[p].Party
	for _, path := range [][]string{
		{"temp", "ui"}, {"data", "Xi"}, {"keys", "Xi"}, {"input", "Xi"}, {"save", "Xi"}, {"temp", "newXi"},
		{"temp", "k"}, {"temp", "gamma"}, {"temp", "w"}, {"temp", "wi"}, {"temp", "ri"}, {"temp", "sigma"},
		{"data", "P"}, {"data", "Q"}, {"data", "Alpha"}, {"data", "Beta"},
		{"keys", "P"}, {"keys", "Q"}, {"keys", "Alpha"}, {"keys", "Beta"},
		{"save", "P"}, {"save", "Q"}, {"save", "Alpha"}, {"save", "Beta"},
	} {
		add(strings.Join(path, "."), statehash.FieldBig(party, path...))
	}
	for _, base := range []string{"data", "keys", "save", "input"} {
		v := statehash.Field(party, base, "PaillierSK")
		if v.IsValid() && v.Kind() == reflect.Ptr && !v.IsNil() {
			for _, f := range []string{"P", "Q", "LambdaN", "PhiN"} {
				add(base+".PaillierSK."+f, statehash.FieldBig(v.Interface(), f))
			}
		}
	}
	return out
}

// Explore runs the decomposed exploration of one scenario and reports violations to r with the given
// property-specific key prefix.
func Explore(r *core.Run, sc Scenario, opt Options) (st Stats) {
	// a party that cannot even be constructed from legal inputs is a finding of the check, not a crash of it
	defer func() {
		if x := recover(); x != nil {
			if me, ok := x.(MkError); ok {
				r.Violate(sc.Name+"/constructor-error", "the parties of an admissible configuration could not be constructed: "+me.Err.Error(), nil)
				return
			}
			panic(x)
		}
	}()
	sys := explore.NewSysObs(sc.Mk, func(nw *netrun.Network, p int) map[string]string {
		m := map[string]string{}
		if opt.C08 {
			// secret leakage is a property of (state, emitted bytes): evaluate while the live party exists
			sec := secretsOf(nw, p)
			for _, em := range nw.Nodes[p].Emitted {
				for name, bz := range sec {
					if bytes.Contains(em.Bytes, bz) {
						m["leak:"+em.Type+":"+name] = "1"
					}
				}
			}
		}
		if opt.Observe != nil {
			for k, v := range opt.Observe(nw, p) {
				m[k] = v
			}
		}
		return m
	})
	nw0 := sc.Mk()
	mc := newModelCtx(nw0)
	pfx := sc.Name
	viol := func(key, what string, rec interface{}) { r.Violate(pfx+"/"+key, what, rec) }
	histOf := func(l *explore.LState) []string { return explore.TraceStrings(l.Hist) }

	checkedLocal := map[string]bool{}
	onLocal := func(s *explore.Sys, prev, cur *explore.LState, e explore.Event) {
		k := fmt.Sprintf("%d/%d", cur.Node, cur.ID)
		if opt.Mode != "" {
			k = fmt.Sprintf("%d/%s=>%s", cur.Node, explore.JKey(prev), explore.JKey(cur))
		}
		if checkedLocal[k] {
			return
		}
		checkedLocal[k] = true
		p := cur.Node
		role := mc.nodes[p].role
		if len(cur.Obs.Panics) > 0 {
			viol(fmt.Sprintf("panic/%s-round%d", role, prev.Obs.Round), "panic on an honest schedule: "+cur.Obs.Panics[0], histOf(cur))
			return
		}
		if opt.C07 && len(cur.Obs.Errs) > len(prev.Obs.Errs) {
			viol(fmt.Sprintf("error-on-honest-schedule/%sround%d", role, prev.Obs.Round), "a call returned an error on an honest schedule: "+cur.Obs.Errs[len(cur.Obs.Errs)-1].Error(), histOf(cur))
		}
		if opt.C07 && len(cur.Obs.Ends) > 1 {
			viol("more-than-one-result", fmt.Sprintf("%d values on the end channel", len(cur.Obs.Ends)), histOf(cur))
		}
		if !opt.C08 {
			return
		}
		for k := range cur.Obs.Extra {
			if strings.HasPrefix(k, "leak:") {
				viol("secret-in-message/"+k[5:], "an outgoing message contains the byte encoding of a long-term secret", histOf(cur))
			}
		}
		// delivered set with the right flags
		have := map[string]bool{}
		for _, id := range cur.Delivered {
			m := s.Msg(id)
			have[fmt.Sprintf("%s|%d", m.Type, m.Sender)] = true
		}
		ex := mc.expected(p, cur.Obs.Started, have)
		// emitted so far, canonical
		var got []string
		for _, id := range cur.Emitted {
			m := s.Msg(id)
			got = append(got, canonEmit(m.Type, m.Bcast, m.To))
			if m.Unresolved > 0 {
				viol("routing/unresolvable-addressee/"+m.Type, "a To entry matches no party of the addressed committee", histOf(cur))
			}
		}
		sort.Strings(got)
		// safety: nothing beyond what the model allows for this delivery set
		exSet := map[string]int{}
		for _, x := range ex.emitted {
			exSet[x]++
		}
		for _, g := range got {
			if exSet[g] == 0 {
				viol("emission/unexpected/"+strings.SplitN(g, "|", 2)[0]+"/"+role, "emitted "+g+" which the protocol does not prescribe at this point (expected so far: "+strings.Join(ex.emitted, " ; ")+")", histOf(cur))
			} else {
				exSet[g]--
			}
		}
		// exactness only after an accepted update on a started party
		if e.Kind == 'D' && cur.Obs.Started && cur.Obs.LastErr == nil && prev.Obs.Started {
			if strings.Join(got, ";") != strings.Join(ex.emitted, ";") {
				viol(fmt.Sprintf("emission/missing/%sround%d", role, ex.round), "after an update the emitted set differs from the protocol's: got "+strings.Join(got, " ; ")+" want "+strings.Join(ex.emitted, " ; "), histOf(cur))
			}
			if strings.Join(cur.Obs.Waiting, ",") != strings.Join(ex.awaiting, ",") {
				fin := ""
				if ex.finished {
					fin = "finished-"
				}
				viol(fmt.Sprintf("waitingfor/%s%sround%d", fin, role, ex.round), fmt.Sprintf("WaitingFor=%v, peers with an undelivered required message=%v", cur.Obs.Waiting, ex.awaiting), histOf(cur))
			}
			wantEnds := 0
			if ex.finished {
				wantEnds = 1
			}
			if len(cur.Obs.Ends) != wantEnds {
				viol(fmt.Sprintf("result-timing/%sround%d", role, ex.round), fmt.Sprintf("%d results emitted, protocol says %d", len(cur.Obs.Ends), wantEnds), histOf(cur))
			}
		}
	}

	// per-message static checks (routing table, wire round trip), once per message id
	checkedMsg := map[string]bool{}
	checkMsg := func(s *explore.Sys, id string) {
		if checkedMsg[id] || !opt.C08 {
			return
		}
		checkedMsg[id] = true
		m := s.Msg(id)
		if model.IsSecretBearing(mc.proto, m.Type) {
			if m.Bcast || len(m.To) != 1 || m.RawToLen != 1 {
				viol("routing/secret-bearing-not-p2p/"+m.Type, fmt.Sprintf("bcast=%v to=%v", m.Bcast, m.To), id)
			}
		} else if !m.Bcast {
			viol("routing/not-flagged-broadcast/"+m.Type, "non-secret message not flagged broadcast", id)
		}
		// wire round trip
		pm, err := tss.ParseWireMessage(m.Bytes, nw0.Nodes[m.Sender].ID, m.Bcast)
		if err != nil {
			viol("wire/parse-error/"+m.Type, err.Error(), id)
			return
		}
		if shortT(pm.Type()) != m.Type || pm.IsBroadcast() != m.Bcast || !pm.ValidateBasic() {
			viol("wire/routing-changed/"+m.Type, "type/broadcast flag/validity changed by the wire encoding", id)
		}
		if raw, ok := m.Raw.(tss.ParsedMessage); ok {
			if !proto.Equal(raw.Content(), pm.Content()) {
				viol("wire/content-changed/"+m.Type, "content differs after WireBytes -> ParseWireMessage", id)
			}
		}
		bz2, _, err := pm.WireBytes()
		if err != nil || !bytes.Equal(bz2, m.Bytes) {
			viol("wire/reencode-differs/"+m.Type, "re-encoding the parsed message gives different bytes", id)
		}
	}

	outcomes := map[string]bool{}
	var firstEmitted []string
	var res *explore.Result
	terminal := func(s *explore.Sys, locals []*explore.LState, trace []string, live *netrun.Network) {
		// no enabled event: every sent message delivered, every party started
		var ends [][]interface{}
		allFin := true
		var sig []string
		for p := 0; p < s.N; p++ {
			l := locals[p]
			ends = append(ends, l.Obs.Ends)
			if len(l.Obs.Ends) != 1 {
				allFin = false
			}
			var em []string
			for _, id := range l.Emitted {
				m := s.Msg(id)
				em = append(em, canonEmit(m.Type, m.Bcast, m.To))
			}
			sort.Strings(em)
			sig = append(sig, fmt.Sprintf("n%d:ends=%d:errs=%d:%s", p, len(l.Obs.Ends), len(l.Obs.Errs), strings.Join(em, ";")))
		}
		o := strings.Join(sig, " || ")
		outcomes[o] = true
		if !opt.C07 {
			return
		}
		if !allFin {
			viol("deadlock", "all sent messages delivered but a party has not finished: "+o, trace)
			return
		}
		if firstEmitted == nil {
			firstEmitted = sig
		} else if strings.Join(firstEmitted, "||") != strings.Join(sig, "||") {
			viol("emitted-set-depends-on-schedule", "two terminal states differ in the messages sent", []string{strings.Join(firstEmitted, " || "), o})
		}
		if opt.ResultOracle != nil {
			tc := TermCtx{Ends: ends, Emitted: make([][]EmittedMsg, s.N)}
			for p := 0; p < s.N; p++ {
				if live != nil {
					for _, m := range live.Nodes[p].Emitted {
						tc.Emitted[p] = append(tc.Emitted[p], EmittedMsg{m.Type, m.Bytes, m.To})
					}
				} else {
					for _, id := range locals[p].Emitted {
						m := s.Msg(id)
						tc.Emitted[p] = append(tc.Emitted[p], EmittedMsg{m.Type, m.Bytes, m.To})
					}
				}
			}
			for _, pr := range opt.ResultOracle(tc) {
				viol("result/"+pr, "terminal result violates the protocol's result oracle", trace)
			}
		}
	}
	eo := explore.Options{MaxDups: opt.Dups, Workers: opt.Workers, MaxStates: opt.MaxStates,
		OnLocal: onLocal,
		OnGlobal: func(s *explore.Sys, g *explore.GState) {
			if opt.OnGlobal != nil {
				locals := make([]*explore.LState, s.N)
				for p := range locals {
					locals[p] = s.Local(g, p)
				}
				opt.OnGlobal(s, locals, func(key, what string, tr []string) { viol(key, what, tr) }, func() []string { return explore.TraceStrings(res.Trace(g)) })
			}
		}}
	eo.ResPtr = &res
	if opt.Mode != "" {
		return exploreJointModes(r, sc, opt, sys, &st, onLocal, checkMsg, terminal, outcomes)
	}
	res = sys.Explore(eo)
	for _, g := range res.Terminals {
		locals := make([]*explore.LState, sys.N)
		for p := range locals {
			locals[p] = sys.Local(g, p)
		}
		terminal(sys, locals, explore.TraceStrings(res.Trace(g)), nil)
	}
	for _, id := range sys.MsgIDs() {
		checkMsg(sys, id)
	}
	st.States, st.Transitions, st.MaxDepth, st.Terminals = res.States, res.Transitions, res.MaxDepth, len(res.Terminals)
	st.Capped = res.Capped
	st.LocalTransitions, st.NonConfluent = sys.LocalTransitions, sys.NonConfluent
	for p := range sys.Tabs {
		for _, l := range sys.Tabs[p] {
			if l.Feasible {
				st.LocalStates++
			}
		}
	}
	st.DistinctOutcomes = len(outcomes)

	// ---- flag-flip leaf probes (C08) ----
	if opt.FlipProbes {
		type probe struct {
			l  *explore.LState
			id string
		}
		var probes []probe
		for p := range sys.Tabs {
			for _, l := range sys.Tabs[p] {
				if !l.Feasible || !l.Obs.Started {
					continue
				}
				for id, m := range sys.Msgs {
					for _, t := range m.To {
						if t == p {
							probes = append(probes, probe{l, id})
						}
					}
				}
			}
		}
		sort.Slice(probes, func(i, j int) bool {
			if probes[i].l.Node != probes[j].l.Node {
				return probes[i].l.Node < probes[j].l.Node
			}
			if probes[i].l.ID != probes[j].l.ID {
				return probes[i].l.ID < probes[j].l.ID
			}
			return probes[i].id < probes[j].id
		})
		type out struct {
			key, what string
			rec       interface{}
		}
		outs := make([]*out, len(probes))
		core.ParallelFor(len(probes), opt.Workers, func(i int) {
			pr := probes[i]
			after := sys.ProbeFlip(pr.l, pr.id)
			m := sys.Msgs[pr.id]
			b, a := pr.l.Obs, after.Obs
			// "not consumed" = after the flipped hand-over the party is exactly where the reference model puts
			// it for the UNCHANGED set of properly delivered messages (a party that had already completed its
			// round may catch up on this call; that is not consumption). Peers only (DESIGN 3a).
			self := mc.nodes[pr.l.Node].key
			peers := func(w []string) string {
				var o []string
				for _, k := range w {
					if k != self {
						o = append(o, k)
					}
				}
				return strings.Join(o, ",")
			}
			have := map[string]bool{}
			for _, id := range pr.l.Delivered {
				dm := sys.Msg(id)
				have[fmt.Sprintf("%s|%d", dm.Type, dm.Sender)] = true
			}
			ex := mc.expected(pr.l.Node, true, have)
			var got []string
			for _, id := range after.Emitted {
				em := sys.Msg(id)
				got = append(got, canonEmit(em.Type, em.Bcast, em.To))
			}
			sort.Strings(got)
			wantEnds := 0
			if ex.finished {
				wantEnds = 1
			}
			if strings.Join(got, ";") != strings.Join(ex.emitted, ";") || len(a.Ends) != wantEnds || peers(a.Waiting) != strings.Join(ex.awaiting, ",") {
				outs[i] = &out{"flagflip/consumed/" + m.Type, fmt.Sprintf("a %s handed over with the broadcast flag flipped was taken into account: round %d->%d emitted %v (protocol for the unchanged delivered set: %v) ends %d (protocol: %d) waiting %v (protocol: %v)", m.Type, b.Round, a.Round, got, ex.emitted, len(a.Ends), wantEnds, a.Waiting, ex.awaiting), append(histOf(pr.l), "F<-"+pr.id)}
			}
			if len(a.Panics) > len(b.Panics) {
				outs[i] = &out{"flagflip/panic/" + m.Type, a.Panics[len(a.Panics)-1], append(histOf(pr.l), "F<-"+pr.id)}
			}
		})
		for _, o := range outs {
			if o != nil {
				viol(o.key, o.what, o.rec)
			}
		}
		st.FlipProbes = len(probes)
		if opt.FlipThenOne {
			// a flipped message may be stored and looked at later (e.g. when its round starts): after the flipped
			// hand-over F(id), every proper delivery D(id2) of another message must leave the party exactly where
			// D(id2) alone leaves it
			type probe2 struct {
				l       *explore.LState
				id, id2 string
			}
			var p2 []probe2
			for _, pr := range probes {
				done := map[string]bool{}
				for _, d := range pr.l.Delivered {
					done[d] = true
				}
				if done[pr.id] {
					// a flipped RE-delivery of a message that was already delivered properly is a replay (which the
					// library leaves to the transport: "we expect the caller to apply replay and spoofing
					// protection"); the property quantifies over flipped messages, not over flipped replays
					continue
				}
				for id2, m2 := range sys.Msgs {
					if id2 == pr.id || done[id2] {
						continue
					}
					for _, t := range m2.To {
						if t == pr.l.Node {
							p2 = append(p2, probe2{pr.l, pr.id, id2})
						}
					}
				}
			}
			sort.Slice(p2, func(i, j int) bool {
				a, b := p2[i], p2[j]
				if a.l.Node != b.l.Node {
					return a.l.Node < b.l.Node
				}
				if a.l.ID != b.l.ID {
					return a.l.ID < b.l.ID
				}
				if a.id != b.id {
					return a.id < b.id
				}
				return a.id2 < b.id2
			})
			outs2 := make([]*out, len(p2))
			sig := func(l *explore.LState) string {
				var em []string
				for _, id := range l.Emitted {
					e := sys.Msg(id)
					em = append(em, canonEmit(e.Type, e.Bcast, e.To))
				}
				sort.Strings(em)
				return fmt.Sprintf("round=%d ends=%d emitted=%v waiting=%v", l.Obs.Round, len(l.Obs.Ends), em, l.Obs.Waiting)
			}
			core.ParallelFor(len(p2), opt.Workers, func(i int) {
				pr := p2[i]
				dv := explore.Event{Kind: 'D', Node: pr.l.Node, Msg: pr.id2}
				with := sys.ProbeSeq(pr.l, explore.Event{Kind: 'F', Node: pr.l.Node, Msg: pr.id}, dv)
				without := sys.ProbeSeq(pr.l, dv)
				if a, b := sig(with), sig(without); a != b {
					m := sys.Msg(pr.id)
					outs2[i] = &out{"flagflip/influences-later-delivery/" + m.Type, fmt.Sprintf("a %s handed over with the broadcast flag flipped changes what the next proper delivery does: with it [%s], without it [%s]", m.Type, a, b), append(histOf(pr.l), "F<-"+pr.id, "<-"+pr.id2)}
				}
			})
			for _, o := range outs2 {
				if o != nil {
					viol(o.key, o.what, o.rec)
				}
			}
			st.FlipProbes += len(p2)
		}
	}

	// ---- conformance of the decomposition: joint replays ----
	var traces [][]explore.Event
	for _, g := range res.Terminals {
		traces = append(traces, res.Trace(g))
	}
	fifo := fifoTrace(sys, res)
	if fifo != nil {
		traces = append(traces, fifo)
		devs := oneDeviationTraces(sys, fifo)
		if opt.JointValidate >= 0 && len(devs) > opt.JointValidate {
			devs = devs[:opt.JointValidate]
		}
		traces = append(traces, devs...)
	}
	mism := make([]string, len(traces))
	core.ParallelFor(len(traces), opt.Workers, func(i int) {
		mism[i], _ = sys.JointReplay(traces[i])
	})
	for i, m := range mism {
		if m != "" {
			// infrastructure problem (the decomposition assumption failed), never a property violation
			r.Cap("CONFORMANCE MISMATCH in " + sc.Name + ": " + m + " trace=" + strings.Join(explore.TraceStrings(traces[i]), " "))
			r.Set("conformance_mismatch", true)
		}
	}
	st.JointReplays = len(traces)
	if len(res.Terminals) > 0 {
		st.Samples = append(st.Samples, map[string]interface{}{"scenario": sc.Name, "kind": "shortest trace to the terminal state", "trace": explore.TraceStrings(res.Trace(res.Terminals[0]))})
	}
	if fifo != nil {
		st.Samples = append(st.Samples, map[string]interface{}{"scenario": sc.Name, "kind": "FIFO trace", "trace": explore.TraceStrings(fifo)})
		st.Samples = append(st.Samples, map[string]interface{}{"scenario": sc.Name, "kind": "LIFO trace (member of the explored set)", "trace": explore.TraceStrings(lifoTrace(sys))})
	}
	return st
}

func shortT(t string) string {
	if i := strings.LastIndex(t, "."); i >= 0 {
		return t[i+1:]
	}
	return t
}

// fifoTrace: start everybody (new committee first), then always deliver the oldest pending copy.
func fifoTrace(s *explore.Sys, res *explore.Result) []explore.Event {
	return policyTrace(s, func(evs []explore.Event, order map[string]int) int {
		best := 0
		for i := range evs {
			if order[evs[i].String()] < order[evs[best].String()] {
				best = i
			}
		}
		return best
	})
}

func lifoTrace(s *explore.Sys) []explore.Event {
	return policyTrace(s, func(evs []explore.Event, order map[string]int) int {
		best := 0
		for i := range evs {
			if order[evs[i].String()] > order[evs[best].String()] {
				best = i
			}
		}
		return best
	})
}

// policyTrace walks the tables (no execution) choosing among enabled events by age.
func policyTrace(s *explore.Sys, pick func(evs []explore.Event, order map[string]int) int) []explore.Event {
	g := &explore.GState{Locals: make([]int, s.N)}
	order := map[string]int{}
	var tr []explore.Event
	for step := 0; step < 10000; step++ {
		evs, _ := s.Enabled(g)
		if len(evs) == 0 {
			return tr
		}
		for _, e := range evs {
			if _, ok := order[e.String()]; !ok {
				order[e.String()] = len(order)
			}
		}
		e := evs[pick(evs, order)]
		to, ok := s.TransLookup(g.Locals[e.Node], e)
		if !ok {
			return nil
		}
		nl := append([]int{}, g.Locals...)
		nl[e.Node] = to
		g = &explore.GState{Locals: nl}
		tr = append(tr, e)
	}
	return nil
}

// oneDeviationTraces: every trace that follows FIFO except for one step at which another enabled event is taken.
func oneDeviationTraces(s *explore.Sys, fifo []explore.Event) [][]explore.Event {
	var out [][]explore.Event
	g := &explore.GState{Locals: make([]int, s.N)}
	for i := 0; i < len(fifo); i++ {
		evs, _ := s.Enabled(g)
		for _, alt := range evs {
			if alt == fifo[i] {
				continue
			}
			// take alt, then continue FIFO-by-age
			tr := append(append([]explore.Event{}, fifo[:i]...), alt)
			to, ok := s.TransLookup(g.Locals[alt.Node], alt)
			if !ok {
				continue
			}
			nl := append([]int{}, g.Locals...)
			nl[alt.Node] = to
			g2 := &explore.GState{Locals: nl}
			rest := continueFIFO(s, g2, fifo)
			if rest != nil {
				out = append(out, append(tr, rest...))
			}
		}
		to, ok := s.TransLookup(g.Locals[fifo[i].Node], fifo[i])
		if !ok {
			break
		}
		nl := append([]int{}, g.Locals...)
		nl[fifo[i].Node] = to
		g = &explore.GState{Locals: nl}
	}
	return out
}

func continueFIFO(s *explore.Sys, g *explore.GState, fifo []explore.Event) []explore.Event {
	rank := map[string]int{}
	for i, e := range fifo {
		rank[e.String()] = i
	}
	var tr []explore.Event
	for step := 0; step < 10000; step++ {
		evs, _ := s.Enabled(g)
		if len(evs) == 0 {
			return tr
		}
		best := 0
		for i := range evs {
			ri, ok := rank[evs[i].String()]
			if !ok {
				ri = 1 << 30
			}
			rb, ok := rank[evs[best].String()]
			if !ok {
				rb = 1 << 30
			}
			if ri < rb {
				best = i
			}
		}
		e := evs[best]
		to, ok := s.TransLookup(g.Locals[e.Node], e)
		if !ok {
			return nil
		}
		nl := append([]int{}, g.Locals...)
		nl[e.Node] = to
		g = &explore.GState{Locals: nl}
		tr = append(tr, e)
	}
	return nil
}

// exploreJointModes drives the joint explorers with the same monitors.
func exploreJointModes(r *core.Run, sc Scenario, opt Options, sys *explore.Sys, st *Stats,
	onLocal func(s *explore.Sys, prev, cur *explore.LState, e explore.Event),
	checkMsg func(s *explore.Sys, id string),
	terminal func(s *explore.Sys, locals []*explore.LState, trace []string, live *netrun.Network),
	outcomes map[string]bool) Stats {
	sys.RefIDs = true
	if opt.OnGlobal != nil {
		sys.OnLiveState = func(locals []*explore.LState, trace []explore.Event) {
			opt.OnGlobal(sys, locals, func(key, what string, tr []string) { r.Violate(sc.Name+"/"+key, what, tr) }, func() []string { return explore.TraceStrings(trace) })
		}
	}
	step := func(prev, cur *explore.LState, e explore.Event, hist []explore.Event) {
		if prev != nil {
			// the monitors want the history of the node only
			onLocal(sys, prev, cur, e)
		}
	}
	switch opt.Mode {
	case "joint":
		res := sys.ExploreJoint(explore.JointOptions{Workers: opt.Workers, MaxStates: opt.MaxStates, MaxDups: opt.Dups, OnStep: step})
		for _, t := range res.Terminals {
			terminal(sys, t.Locals, explore.TraceStrings(t.Hist), t.Net)
		}
		st.States, st.Transitions, st.MaxDepth, st.Terminals, st.Capped = res.States, res.Transitions, res.MaxDepth, len(res.Terminals), res.Capped
		st.JointReplays = res.Replays
		if len(res.Terminals) > 0 {
			st.Samples = append(st.Samples, map[string]interface{}{"scenario": sc.Name, "kind": "a shortest trace to a terminal state (joint mode)", "trace": explore.TraceStrings(res.Terminals[0].Hist)})
			last := res.Terminals[len(res.Terminals)-1]
			st.Samples = append(st.Samples, map[string]interface{}{"scenario": sc.Name, "kind": "last discovered terminal trace", "trace": explore.TraceStrings(last.Hist)})
		}
	case "dev":
		states := map[string]bool{}
		trans := 0
		runs := sys.DeviationRuns(opt.Deviations, opt.Workers, func(prev, cur *explore.LState, e explore.Event, hist []explore.Event) {
			trans++
			states[fmt.Sprintf("%d/%s", cur.Node, explore.JKey(cur))] = true
			step(prev, cur, e, hist)
		}, func(dr *explore.DevRun) {
			if dr.Bad != "" {
				r.Cap("scripted run aborted: " + dr.Bad)
				return
			}
			terminal(sys, dr.Locals, explore.TraceStrings(dr.Trace), dr.Net)
			if len(dr.Script) == 0 || len(st.Samples) < 3 || dr.Name == "lifo" {
				kind := fmt.Sprintf("complete run with deviations %v", dr.Script)
				if dr.Name != "" {
					kind = "directed strategy " + dr.Name
				}
				st.Samples = append(st.Samples, map[string]interface{}{"scenario": sc.Name, "kind": kind, "trace": explore.TraceStrings(dr.Trace)})
			}
		})
		st.States, st.Transitions, st.Terminals = len(states), trans, runs
		st.JointReplays = runs
	}
	for _, id := range sys.MsgIDs() {
		checkMsg(sys, id)
	}
	st.DistinctOutcomes = len(outcomes)
	return *st
}
