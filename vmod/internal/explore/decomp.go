// Package explore: explicit-state exploration of networks of real parties.
//
// decomp.go — decomposed mode. Parties interact only through messages, so the behaviour of party p
// is a function of the sequence of calls made on it. That function is tabulated lazily by really
// running p (fresh party, replay of the shortest history, one more call) and memoised by a deep
// structural hash of the party object; the global search is a level-synchronous breadth-first
// product over tuples of local state ids in which every transition is a table lookup. Missing table
// entries of one BFS level are computed in parallel.
package explore

import (
	"crypto/sha256"
	"encoding/hex"
	"fmt"
	"sort"
	"strings"
	"sync"

	"github.com/bnb-chain/tss-lib/v2/tss"

	"verif/internal/netrun"
	"verif/internal/statehash"
)

type MsgInfo struct {
	ID     string
	Sender int
	Seq    int
	Type   string
	Bytes  []byte
	Bcast  bool
	ToNil  bool
	To     []int
	ToOld  bool
	ToBoth bool
	Unresolved, RawToLen int
	Raw    tss.Message
}

func msgID(m *netrun.Msg) string {
	h := sha256.New()
	fmt.Fprintf(h, "%d|%s|%v|%v|", m.Sender, m.Type, m.Broadcast, m.To)
	h.Write(m.Bytes)
	return fmt.Sprintf("%d:%s:%s", m.Sender, m.Type, hex.EncodeToString(h.Sum(nil))[:10])
}

// Event on one party. Kind: 'S' start, 'D' deliver, 'F' deliver with the broadcast flag flipped.
type Event struct {
	Kind byte
	Node int
	Msg  string // message id
}

func (e Event) String() string {
	if e.Kind == 'S' {
		return fmt.Sprintf("S%d", e.Node)
	}
	return fmt.Sprintf("%c%d<-%s", e.Kind, e.Node, e.Msg)
}

type Obs struct {
	Round    int
	Started  bool
	Ends     []interface{}
	Errs     []*tss.Error // errors returned by the calls of the history, in order
	Panics   []string
	Waiting  []string // hex party keys reported by WaitingFor after the last call
	LastOK   bool
	LastErr  *tss.Error
	PartyStr string
	Extra    map[string]string
}

type LState struct {
	ID        int
	Node      int
	Key       string
	Hist      []Event
	Delivered []string // sorted set of delivered message ids (flag-flipped deliveries not included)
	Emitted   []string // message ids in emission order
	Obs       Obs
	Feasible  bool
	trans     map[string]int
	Net       *netrun.Network // live network that computed this state (only node Node is meaningful)
}

type Sys struct {
	Mk      func() *netrun.Network
	N       int
	// RefIDs identifies messages by (sender, type, emission index) instead of by content: needed when
	// message values are not reproducible between replays (ECDSA signing draws randomness concurrently).
	RefIDs bool
	// OnLiveState is called by the joint explorers with the records of all nodes after every step
	// (under the explorer's lock in the parallel deviation mode).
	OnLiveState func(locals []*LState, trace []Event)
	Observe func(nw *netrun.Network, p int) map[string]string
	KeepNet bool

	mu   sync.Mutex
	Msgs map[string]*MsgInfo
	Tabs [][]*LState          // per node
	idx  []map[string]*LState // per node: key -> state
	// statistics
	LocalTransitions int
	Replays          int
	NonConfluent     int // same delivered set + started, different deep hash
	bySet            []map[string]string
}

func NewSys(mk func() *netrun.Network) *Sys { return NewSysObs(mk, nil) }

// NewSysObs installs the per-state observer before the initial states are recorded.
func NewSysObs(mk func() *netrun.Network, obs func(nw *netrun.Network, p int) map[string]string) *Sys {
	nw := mk()
	s := &Sys{Mk: mk, N: len(nw.Nodes), Msgs: map[string]*MsgInfo{}, Observe: obs}
	s.Tabs = make([][]*LState, s.N)
	s.idx = make([]map[string]*LState, s.N)
	s.bySet = make([]map[string]string, s.N)
	for p := 0; p < s.N; p++ {
		s.idx[p] = map[string]*LState{}
		s.bySet[p] = map[string]string{}
		st := s.observe(nw, p, nil)
		st.ID = 0
		s.Tabs[p] = []*LState{st}
		s.idx[p][st.Key] = st
	}
	return s
}

// ObserveNode builds the local-state record of node p of a live network (hist = the events applied to p).
func (s *Sys) ObserveNode(nw *netrun.Network, p int, hist []Event) *LState { return s.observe(nw, p, hist) }

// ApplyEvent applies one event to a live network.
func (s *Sys) ApplyEvent(nw *netrun.Network, e Event) netrun.StepResult { return s.apply(nw, e) }

func (s *Sys) observe(nw *netrun.Network, p int, hist []Event) *LState {
	n := nw.Nodes[p]
	st := &LState{Node: p, Hist: append([]Event{}, hist...), trans: map[string]int{}}
	set := map[string]bool{}
	for _, e := range hist {
		if e.Kind == 'D' {
			set[e.Msg] = true
		}
	}
	for k := range set {
		st.Delivered = append(st.Delivered, k)
	}
	sort.Strings(st.Delivered)
	s.mu.Lock()
	for _, m := range n.Emitted {
		id := msgID(m)
		if s.RefIDs {
			id = fmt.Sprintf("%d:%s:#%d", m.Sender, m.Type, m.Seq)
		}
		if _, ok := s.Msgs[id]; !ok || s.RefIDs {
			s.Msgs[id] = &MsgInfo{ID: id, Sender: m.Sender, Seq: m.Seq, Type: m.Type, Bytes: m.Bytes, Bcast: m.Broadcast, ToNil: m.ToNil, To: m.To, ToOld: m.ToOld, ToBoth: m.ToBoth, Unresolved: m.Unresolved, RawToLen: m.RawToLen, Raw: m.Raw}
		}
		st.Emitted = append(st.Emitted, id)
	}
	s.mu.Unlock()
	o := &st.Obs
	o.Round = nw.Round(p)
	o.Started = n.Started
	o.Ends = append(o.Ends, n.Ends...)
	o.Errs = append(o.Errs, n.Errs...)
	o.Panics = append(o.Panics, n.Panics...)
	o.PartyStr = n.Party.String()
	if len(n.Panics) == 0 {
		func() {
			defer func() {
				if x := recover(); x != nil {
					o.Panics = append(o.Panics, fmt.Sprint("WaitingFor: ", x))
				}
			}()
			for _, w := range n.Party.WaitingFor() {
				o.Waiting = append(o.Waiting, hex.EncodeToString(w.Key))
			}
		}()
		sort.Strings(o.Waiting)
	}
	if s.Observe != nil {
		o.Extra = s.Observe(nw, p)
	}
	deep := statehash.Hash(n.Party)
	exk := []string{}
	for k, v := range o.Extra {
		exk = append(exk, k+"="+v)
	}
	sort.Strings(exk)
	st.Key = fmt.Sprintf("%s|st=%v|D=%s|E=%s|ends=%d|errs=%d|pan=%d|x=%s", deep, o.Started, strings.Join(st.Delivered, ","), strings.Join(st.Emitted, ","), len(o.Ends), len(o.Errs), len(o.Panics), strings.Join(exk, ","))
	if s.KeepNet {
		st.Net = nw
	}
	return st
}

// apply one event to node e.Node of a live network.
func (s *Sys) apply(nw *netrun.Network, e Event) netrun.StepResult {
	switch e.Kind {
	case 'S':
		return nw.Start(e.Node)
	default:
		s.mu.Lock()
		m := s.Msgs[e.Msg]
		s.mu.Unlock()
		b := m.Bcast
		if e.Kind == 'F' {
			b = !b
		}
		bz := m.Bytes
		if s.RefIDs {
			// values are not reproducible between replays: take the bytes this very network produced
			em := nw.Nodes[m.Sender].Emitted
			if m.Seq >= len(em) || em[m.Seq].Type != m.Type {
				panic(fmt.Sprintf("replay divergence: message %s does not exist in this run", e.Msg))
			}
			bz = em[m.Seq].Bytes
		}
		return nw.DeliverRaw(e.Node, bz, nw.Nodes[m.Sender].ID, b, m.ID)
	}
}

// compute the successor of local state `from` under event e by replay on a fresh party.
func (s *Sys) compute(from *LState, e Event) *LState {
	nw := s.Mk()
	var last netrun.StepResult
	for _, h := range from.Hist {
		s.apply(nw, h)
	}
	last = s.apply(nw, e)
	st := s.observe(nw, from.Node, append(append([]Event{}, from.Hist...), e))
	st.Obs.LastOK, st.Obs.LastErr = last.OK, last.Err
	return st
}

// panicBox carries a panic out of worker goroutines so that it can be re-raised in the caller
// (a construction failure of the scenario must reach the check, not kill the process).
type panicBox struct {
	mu sync.Mutex
	v  interface{}
}

func (b *panicBox) guard() {
	if x := recover(); x != nil {
		b.mu.Lock()
		if b.v == nil {
			b.v = x
		}
		b.mu.Unlock()
	}
}

func (b *panicBox) rethrow() {
	if b.v != nil {
		panic(b.v)
	}
}

type need struct {
	from *LState
	e    Event
}

// resolve makes sure the listed transitions exist in the tables (computing missing ones in parallel).
func (s *Sys) resolve(needs []need, workers int) {
	type res struct {
		n  need
		st *LState
	}
	out := make([]res, len(needs))
	var wg sync.WaitGroup
	var pb panicBox
	sem := make(chan struct{}, workers)
	for i := range needs {
		wg.Add(1)
		sem <- struct{}{}
		go func(i int) {
			defer wg.Done()
			defer func() { <-sem }()
			defer pb.guard()
			out[i] = res{needs[i], s.compute(needs[i].from, needs[i].e)}
		}(i)
	}
	wg.Wait()
	pb.rethrow()
	for _, r := range out {
		p := r.n.from.Node
		s.LocalTransitions++
		s.Replays += len(r.n.from.Hist) + 1
		ex, ok := s.idx[p][r.st.Key]
		if !ok {
			r.st.ID = len(s.Tabs[p])
			s.Tabs[p] = append(s.Tabs[p], r.st)
			s.idx[p][r.st.Key] = r.st
			ex = r.st
			setKey := fmt.Sprintf("%v|%s", r.st.Obs.Started, strings.Join(r.st.Delivered, ","))
			if prev, ok := s.bySet[p][setKey]; ok && prev != r.st.Key {
				s.NonConfluent++
			} else {
				s.bySet[p][setKey] = r.st.Key
			}
		}
		r.n.from.trans[r.n.e.String()] = ex.ID
	}
}

// ---- global search ----

type GState struct {
	Locals []int // local state id per node
	Dups   int   // duplicate deliveries used
	Flips  int
	Depth  int
	parent string
	via    Event
	key    string
}

func gkey(l []int, dups int) string {
	var sb strings.Builder
	for _, x := range l {
		fmt.Fprintf(&sb, "%d,", x)
	}
	fmt.Fprintf(&sb, "|%d", dups)
	return sb.String()
}

type Options struct {
	MaxDups    int  // bound on duplicate deliveries per execution
	DupAfterFinishOnly bool
	Workers    int
	MaxStates  int // cap (0 = none)
	// Silent lists nodes that never take a step (crash/silence sub-spaces are covered anyway because the
	// search is prefix closed; this is only used to shrink spaces deliberately).
	OnLocal    func(s *Sys, prev, cur *LState, e Event)
	OnGlobal   func(s *Sys, g *GState) // every reachable global state
	OnTerminal func(s *Sys, g *GState) // no enabled event
	ResPtr     **Result                // set to the result under construction before callbacks run
}

type Result struct {
	States, Transitions, MaxDepth int
	Terminals                     []*GState
	Capped                        bool
	states                        map[string]*GState
}

func (s *Sys) Local(g *GState, p int) *LState { return s.Tabs[p][g.Locals[p]] }

// Enabled events in global state g (without duplicates).
func (s *Sys) Enabled(g *GState) (evs []Event, dup []Event) {
	for p := 0; p < s.N; p++ {
		lp := s.Local(g, p)
		if !lp.Obs.Started {
			evs = append(evs, Event{'S', p, ""})
		}
	}
	for q := 0; q < s.N; q++ {
		for _, id := range s.Local(g, q).Emitted {
			m := s.Msgs[id]
			for _, p := range m.To {
				lp := s.Local(g, p)
				i := sort.SearchStrings(lp.Delivered, id)
				if i < len(lp.Delivered) && lp.Delivered[i] == id {
					dup = append(dup, Event{'D', p, id})
				} else {
					evs = append(evs, Event{'D', p, id})
				}
			}
		}
	}
	return
}

func (s *Sys) Explore(opt Options) *Result {
	if opt.Workers < 1 {
		opt.Workers = 1
	}
	res := &Result{states: map[string]*GState{}}
	if opt.ResPtr != nil {
		*opt.ResPtr = res
	}
	init := &GState{Locals: make([]int, s.N)}
	init.key = gkey(init.Locals, 0)
	res.states[init.key] = init
	for p := 0; p < s.N; p++ {
		s.Tabs[p][0].Feasible = true
	}
	frontier := []*GState{init}
	if opt.OnGlobal != nil {
		opt.OnGlobal(s, init)
	}
	for len(frontier) > 0 {
		// 1. collect missing local transitions of this level
		type ge struct {
			g *GState
			e Event
			d bool
		}
		var ges []ge
		seenNeed := map[string]bool{}
		var needs []need
		for _, g := range frontier {
			evs, dup := s.Enabled(g)
			if g.Dups < opt.MaxDups {
				for _, e := range dup {
					ges = append(ges, ge{g, e, true})
				}
			}
			for _, e := range evs {
				ges = append(ges, ge{g, e, false})
			}
			if len(evs) == 0 {
				res.Terminals = append(res.Terminals, g)
				if opt.OnTerminal != nil {
					opt.OnTerminal(s, g)
				}
			}
		}
		for _, x := range ges {
			lp := s.Local(x.g, x.e.Node)
			if _, ok := lp.trans[x.e.String()]; !ok {
				k := fmt.Sprintf("%d/%d/%s", x.e.Node, lp.ID, x.e.String())
				if !seenNeed[k] {
					seenNeed[k] = true
					needs = append(needs, need{lp, x.e})
				}
			}
		}
		s.resolve(needs, opt.Workers)
		// 2. expand
		var next []*GState
		for _, x := range ges {
			lp := s.Local(x.g, x.e.Node)
			to := lp.trans[x.e.String()]
			cur := s.Tabs[x.e.Node][to]
			if !cur.Feasible {
				cur.Feasible = true
			}
			if opt.OnLocal != nil {
				opt.OnLocal(s, lp, cur, x.e)
			}
			res.Transitions++
			nl := append([]int{}, x.g.Locals...)
			nl[x.e.Node] = to
			d := x.g.Dups
			if x.d {
				d++
			}
			k := gkey(nl, d)
			if _, ok := res.states[k]; ok {
				continue
			}
			ng := &GState{Locals: nl, Dups: d, Depth: x.g.Depth + 1, parent: x.g.key, via: x.e, key: k}
			res.states[k] = ng
			if ng.Depth > res.MaxDepth {
				res.MaxDepth = ng.Depth
			}
			if opt.OnGlobal != nil {
				opt.OnGlobal(s, ng)
			}
			next = append(next, ng)
		}
		if opt.MaxStates > 0 && len(res.states) > opt.MaxStates {
			res.Capped = true
			break
		}
		frontier = next
	}
	res.States = len(res.states)
	return res
}

// Trace reconstructs the shortest event sequence leading to g.
func (r *Result) Trace(g *GState) []Event {
	var rev []Event
	for g != nil && g.Depth > 0 {
		rev = append(rev, g.via)
		g = r.states[g.parent]
	}
	out := make([]Event, len(rev))
	for i := range rev {
		out[i] = rev[len(rev)-1-i]
	}
	return out
}

// TraceOfKey is Trace for callbacks that run while the search is in progress.
func (r *Result) TraceOfKey(g *GState) []Event { return r.Trace(g) }

func TraceStrings(t []Event) []string {
	out := make([]string, len(t))
	for i, e := range t {
		out[i] = e.String()
	}
	return out
}

// JointReplay runs a global trace on ONE fresh network with all parties live and compares every
// node's final observation key with the table's prediction. It returns a mismatch description or "".
func (s *Sys) JointReplay(trace []Event) (string, *netrun.Network) {
	nw := s.Mk()
	cur := make([]*LState, s.N)
	for p := range cur {
		cur[p] = s.Tabs[p][0]
	}
	for i, e := range trace {
		s.apply(nw, e)
		to, ok := cur[e.Node].trans[e.String()]
		if !ok {
			return fmt.Sprintf("step %d (%s): transition not in table", i, e), nw
		}
		cur[e.Node] = s.Tabs[e.Node][to]
	}
	for p := 0; p < s.N; p++ {
		var hist []Event
		for _, e := range trace {
			if e.Node == p {
				hist = append(hist, e)
			}
		}
		got := s.observe(nw, p, hist)
		if got.Key != cur[p].Key {
			return fmt.Sprintf("node %d: joint run state differs from the table's prediction\n joint=%s\n table=%s", p, got.Key, cur[p].Key), nw
		}
	}
	return "", nw
}

// TransLookup returns the table entry for (local state id of e.Node, e) if it has been computed.
func (s *Sys) TransLookup(from int, e Event) (int, bool) {
	to, ok := s.Tabs[e.Node][from].trans[e.String()]
	return to, ok
}

// ProbeFlip computes (without entering it into the tables) the state reached from l by delivering
// message id with the broadcast flag flipped.
func (s *Sys) ProbeFlip(l *LState, id string) *LState {
	return s.compute(l, Event{'F', l.Node, id})
}

// ProbeSeq computes (without entering it into the tables) the state reached from l by the given events.
func (s *Sys) ProbeSeq(l *LState, evs ...Event) *LState {
	cur := l
	for _, e := range evs {
		cur = s.compute(cur, e)
	}
	return cur
}

// Msg returns the message record for an id (safe for concurrent use).
func (s *Sys) Msg(id string) *MsgInfo {
	s.mu.Lock()
	defer s.mu.Unlock()
	return s.Msgs[id]
}

// MsgIDs lists all known message ids.
func (s *Sys) MsgIDs() []string {
	s.mu.Lock()
	defer s.mu.Unlock()
	var out []string
	for k := range s.Msgs {
		out = append(out, k)
	}
	sort.Strings(out)
	return out
}
