package explore

// joint.go — joint mode: the whole network is (re)executed for every explored history. Used where
// message values are not reproducible (ECDSA signing) and as the deviation-bounded explorer for
// configurations that are too expensive to explore exhaustively.

import (
	"fmt"
	"sort"
	"strings"
	"sync"

	"verif/internal/netrun"
)

// JKey is the value-free canonical key of one node's local state.
func JKey(l *LState) string {
	return fmt.Sprintf("st=%v|r=%d|D=%s|E=%s|ends=%d|errs=%d|pan=%d|w=%s", l.Obs.Started, l.Obs.Round,
		strings.Join(l.Delivered, ","), strings.Join(l.Emitted, ","), len(l.Obs.Ends), len(l.Obs.Errs), len(l.Obs.Panics), strings.Join(l.Obs.Waiting, ","))
}

type JState struct {
	Hist   []Event
	Locals []*LState
	Dups   int
	Key    string
	Net    *netrun.Network // live network of the replay that discovered this state
}

type JointOptions struct {
	Workers    int
	MaxStates  int
	MaxDups    int
	KeepNets   bool
	OnStep     func(prev, cur *LState, e Event, hist []Event)
	OnTerminal func(st *JState)
	OnState    func(st *JState)
}

type JointResult struct {
	States, Transitions, MaxDepth, Replays int
	Terminals                              []*JState
	Capped                                 bool
}

// enabledLive computes the enabled events from the per-node records of a live run.
func (s *Sys) enabledLive(locals []*LState) (evs []Event, dup []Event) {
	for p := 0; p < s.N; p++ {
		if !locals[p].Obs.Started {
			evs = append(evs, Event{'S', p, ""})
		}
	}
	for q := 0; q < s.N; q++ {
		for _, id := range locals[q].Emitted {
			s.mu.Lock()
			m := s.Msgs[id]
			s.mu.Unlock()
			for _, p := range m.To {
				lp := locals[p]
				i := sort.SearchStrings(lp.Delivered, id)
				if i < len(lp.Delivered) && lp.Delivered[i] == id {
					dup = append(dup, Event{'D', p, id})
				} else {
					evs = append(evs, Event{'D', p, id})
				}
			}
		}
	}
	return
}

// runHistory executes a history on a fresh network and observes every node; it also returns the
// record of the node that took the last step as it was before that step.
func (s *Sys) runHistory(hist []Event) (nw *netrun.Network, locals []*LState, prevOfLast *LState, last netrun.StepResult) {
	nw = s.Mk()
	per := make([][]Event, s.N)
	for i, e := range hist {
		if i == len(hist)-1 {
			prevOfLast = s.observe(nw, e.Node, per[e.Node])
		}
		last = s.apply(nw, e)
		per[e.Node] = append(per[e.Node], e)
	}
	locals = make([]*LState, s.N)
	for p := 0; p < s.N; p++ {
		locals[p] = s.observe(nw, p, per[p])
	}
	if len(hist) > 0 {
		l := locals[hist[len(hist)-1].Node]
		l.Obs.LastOK, l.Obs.LastErr = last.OK, last.Err
	}
	return
}

func jointKey(locals []*LState, dups int) string {
	var sb strings.Builder
	for _, l := range locals {
		sb.WriteString(JKey(l))
		sb.WriteString(" ## ")
	}
	fmt.Fprintf(&sb, "dups=%d", dups)
	return sb.String()
}

// ExploreJoint: breadth-first search over value-free global states; every transition is one complete
// replay of the history on a fresh network.
func (s *Sys) ExploreJoint(opt JointOptions) *JointResult {
	if opt.Workers < 1 {
		opt.Workers = 1
	}
	res := &JointResult{}
	seen := map[string]bool{}
	nw, locals, _, _ := s.runHistory(nil)
	init := &JState{Locals: locals, Net: nw}
	init.Key = jointKey(locals, 0)
	seen[init.Key] = true
	frontier := []*JState{init}
	if opt.OnState != nil {
		opt.OnState(init)
	}
	for len(frontier) > 0 {
		type cand struct {
			parent *JState
			e      Event
			dup    bool
		}
		var cands []cand
		for _, st := range frontier {
			evs, dup := s.enabledLive(st.Locals)
			if len(evs) == 0 {
				res.Terminals = append(res.Terminals, st)
				if opt.OnTerminal != nil {
					opt.OnTerminal(st)
				}
			}
			for _, e := range evs {
				cands = append(cands, cand{st, e, false})
			}
			if st.Dups < opt.MaxDups {
				for _, e := range dup {
					cands = append(cands, cand{st, e, true})
				}
			}
			if !opt.KeepNets && len(evs) > 0 {
				st.Net = nil
			}
		}
		type out struct {
			st   *JState
			prev *LState
		}
		outs := make([]out, len(cands))
		var wg sync.WaitGroup
		var pb panicBox
		sem := make(chan struct{}, opt.Workers)
		for i := range cands {
			wg.Add(1)
			sem <- struct{}{}
			go func(i int) {
				defer wg.Done()
				defer func() { <-sem }()
				defer pb.guard()
				c := cands[i]
				h := append(append([]Event{}, c.parent.Hist...), c.e)
				nw, locals, prev, _ := s.runHistory(h)
				d := c.parent.Dups
				if c.dup {
					d++
				}
				outs[i] = out{&JState{Hist: h, Locals: locals, Dups: d, Key: jointKey(locals, d), Net: nw}, prev}
			}(i)
		}
		wg.Wait()
		pb.rethrow()
		res.Replays += len(cands)
		var next []*JState
		for i, o := range outs {
			res.Transitions++
			if opt.OnStep != nil {
				opt.OnStep(o.prev, o.st.Locals[cands[i].e.Node], cands[i].e, o.st.Hist)
			}
			if seen[o.st.Key] {
				continue
			}
			seen[o.st.Key] = true
			if len(o.st.Hist) > res.MaxDepth {
				res.MaxDepth = len(o.st.Hist)
			}
			if opt.OnState != nil {
				opt.OnState(o.st)
			}
			if s.OnLiveState != nil {
				s.OnLiveState(o.st.Locals, o.st.Hist)
			}
			next = append(next, o.st)
		}
		if opt.MaxStates > 0 && len(seen) > opt.MaxStates {
			res.Capped = true
			break
		}
		frontier = next
	}
	res.States = len(seen)
	return res
}

// ---- deviation-bounded complete runs ----

// RunScripted executes one complete run: at every step the enabled events are ordered by age (the
// step at which they first became enabled; ties by event string) and event 0 (FIFO) is taken unless
// script[step] names another index. It returns the trace, the terminal records and, per step, the
// number of alternatives that were available (for the enumeration of deviations).
func (s *Sys) RunScripted(script map[int]int, onStep func(prev, cur *LState, e Event, hist []Event)) (trace []Event, locals []*LState, alts []int, nw *netrun.Network, bad string) {
	return s.RunPolicy(func(step int, evs []Event) int { return script[step] }, onStep)
}

// Directed strategies (members of the set of all schedules, named in the property text): the policy
// sees the enabled events ordered by age and returns the index to take.
func PolicyStarve(node int) func(step int, evs []Event) int {
	return func(step int, evs []Event) int {
		for i, e := range evs {
			if e.Node != node {
				return i
			}
		}
		return 0
	}
}

func PolicyRush(node int) func(step int, evs []Event) int {
	return func(step int, evs []Event) int {
		for i, e := range evs {
			if e.Node == node {
				return i
			}
		}
		return 0
	}
}

// PolicyLateStart postpones Start(node) as long as anything else is enabled, so that everything
// addressed to the node is delivered before its local Start call.
func PolicyLateStart(node int) func(step int, evs []Event) int {
	return func(step int, evs []Event) int {
		for i, e := range evs {
			if !(e.Kind == 'S' && e.Node == node) {
				return i
			}
		}
		return 0
	}
}

func PolicyLIFO(step int, evs []Event) int { return len(evs) - 1 }

// PolicyFutureFirst prefers the most recently emitted message of the highest round (largest message ids sort last).
func PolicyStartsLast(step int, evs []Event) int {
	for i, e := range evs {
		if e.Kind != 'S' {
			return i
		}
	}
	return 0
}

// RunPolicy executes one complete run under an arbitrary choice policy.
func (s *Sys) RunPolicy(policy func(step int, evs []Event) int, onStep func(prev, cur *LState, e Event, hist []Event)) (trace []Event, locals []*LState, alts []int, nw *netrun.Network, bad string) {
	nw = s.Mk()
	per := make([][]Event, s.N)
	locals = make([]*LState, s.N)
	for p := 0; p < s.N; p++ {
		locals[p] = s.observe(nw, p, nil)
	}
	age := map[string]int{}
	for step := 0; step < 100000; step++ {
		evs, _ := s.enabledLive(locals)
		if len(evs) == 0 {
			return
		}
		for _, e := range evs {
			if _, ok := age[e.String()]; !ok {
				age[e.String()] = len(age)
			}
		}
		sort.Slice(evs, func(i, j int) bool { return age[evs[i].String()] < age[evs[j].String()] })
		alts = append(alts, len(evs))
		c := policy(step, evs)
		if c >= len(evs) {
			bad = fmt.Sprintf("script choice %d out of range at step %d (%d enabled)", c, step, len(evs))
			return
		}
		e := evs[c]
		prev := locals[e.Node]
		last := s.apply(nw, e)
		per[e.Node] = append(per[e.Node], e)
		cur := s.observe(nw, e.Node, per[e.Node])
		cur.Obs.LastOK, cur.Obs.LastErr = last.OK, last.Err
		locals[e.Node] = cur
		trace = append(trace, e)
		if onStep != nil {
			onStep(prev, cur, e, trace)
		}
		if s.OnLiveState != nil {
			s.OnLiveState(locals, trace)
		}
	}
	bad = "horizon exceeded"
	return
}

// Scripts enumerates every script with at most k deviations, given the alternatives profile of the
// FIFO run. Because a deviation changes what is enabled later, scripts with 2 deviations are
// enumerated from the profile of the corresponding 1-deviation run by the caller (see DeviationRuns).
func scriptKey(m map[int]int) string {
	var ks []int
	for k := range m {
		ks = append(ks, k)
	}
	sort.Ints(ks)
	var sb strings.Builder
	for _, k := range ks {
		fmt.Fprintf(&sb, "%d:%d,", k, m[k])
	}
	return sb.String()
}

type DevRun struct {
	Name   string // directed strategy name ("" for scripted deviation runs)
	Script map[int]int
	Trace  []Event
	Locals []*LState
	Net    *netrun.Network
	Bad    string
}

// DeviationRuns executes every complete run with at most k deviations from FIFO (iteratively: the
// runs with d+1 deviations extend, after their last deviation, every run with d deviations).
func (s *Sys) DeviationRuns(k, workers int, onStep func(prev, cur *LState, e Event, hist []Event), onRun func(r *DevRun)) (runs int) {
	var mu sync.Mutex
	type item struct {
		script map[int]int
		alts   []int
		lastDev int
	}
	exec := func(scripts []map[int]int) []item {
		out := make([]item, len(scripts))
		var wg sync.WaitGroup
		var pb panicBox
		sem := make(chan struct{}, workers)
		for i := range scripts {
			wg.Add(1)
			sem <- struct{}{}
			go func(i int) {
				defer wg.Done()
				defer func() { <-sem }()
				defer pb.guard()
				var stepCb func(prev, cur *LState, e Event, hist []Event)
				if onStep != nil {
					stepCb = func(prev, cur *LState, e Event, hist []Event) {
						mu.Lock()
						onStep(prev, cur, e, hist)
						mu.Unlock()
					}
				}
				tr, locals, alts, nw, bad := s.RunScripted(scripts[i], stepCb)
				ld := -1
				for st := range scripts[i] {
					if st > ld {
						ld = st
					}
				}
				out[i] = item{scripts[i], alts, ld}
				mu.Lock()
				onRun(&DevRun{Script: scripts[i], Trace: tr, Locals: locals, Net: nw, Bad: bad})
				mu.Unlock()
			}(i)
		}
		wg.Wait()
		pb.rethrow()
		return out
	}
	// directed strategies: starve / rush every node, LIFO, all deliveries before any Start
	{
		type named struct {
			name string
			pol  func(step int, evs []Event) int
		}
		var pols []named
		for p := 0; p < s.N; p++ {
			pols = append(pols, named{fmt.Sprintf("starve-node-%d", p), PolicyStarve(p)}, named{fmt.Sprintf("rush-node-%d", p), PolicyRush(p)}, named{fmt.Sprintf("late-start-node-%d", p), PolicyLateStart(p)})
		}
		pols = append(pols, named{"lifo", PolicyLIFO}, named{"starts-last", PolicyStartsLast})
		// per-message starvation: every single delivery of the FIFO run is held back until nothing else is
		// enabled (one slow link: the copy arrives one or more rounds late, everything else overtakes it)
		fifoTrace, _, _, _, _ := s.RunPolicy(func(step int, evs []Event) int { return 0 }, nil)
		for _, ev := range fifoTrace {
			if ev.Kind != 'D' {
				continue
			}
			held := ev
			pols = append(pols, named{"hold-back " + held.String(), func(step int, evs []Event) int {
				for i, e := range evs {
					if e != held {
						return i
					}
				}
				return 0
			}})
		}
		var wg sync.WaitGroup
		var pb panicBox
		sem := make(chan struct{}, workers)
		for _, np := range pols {
			np := np
			wg.Add(1)
			sem <- struct{}{}
			go func() {
				defer wg.Done()
				defer func() { <-sem }()
				defer pb.guard()
				var stepCb func(prev, cur *LState, e Event, hist []Event)
				if onStep != nil {
					stepCb = func(prev, cur *LState, e Event, hist []Event) {
						mu.Lock()
						onStep(prev, cur, e, hist)
						mu.Unlock()
					}
				}
				tr, locals, _, nw, bad := s.RunPolicy(np.pol, stepCb)
				mu.Lock()
				onRun(&DevRun{Script: map[int]int{-1: 0}, Name: np.name, Trace: tr, Locals: locals, Net: nw, Bad: bad})
				mu.Unlock()
			}()
		}
		wg.Wait()
		pb.rethrow()
		runs += len(pols)
	}
	level := exec([]map[int]int{{}})
	runs++
	for d := 0; d < k; d++ {
		var scripts []map[int]int
		for _, it := range level {
			for step := it.lastDev + 1; step < len(it.alts); step++ {
				for a := 1; a < it.alts[step]; a++ {
					m := map[int]int{}
					for kk, v := range it.script {
						m[kk] = v
					}
					m[step] = a
					scripts = append(scripts, m)
				}
			}
		}
		level = exec(scripts)
		runs += len(scripts)
	}
	return
}
