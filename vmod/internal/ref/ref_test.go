package ref

import (
	"crypto/ed25519"
	"math/big"
	"testing"

	"verif/internal/core"
)

func TestCurves(t *testing.T) {
	for _, c := range []*Curve{Secp256k1, Ed25519} {
		if !c.OnCurve(c.Gx, c.Gy) {
			t.Fatal(c.Name, "G not on curve")
		}
		if !c.IsNeutral(c.Mul(c.N, c.G())) {
			t.Fatal(c.Name, "N*G != 0")
		}
		a, b := big.NewInt(123456789), new(big.Int).SetBytes(core.Bytes("x", 32))
		l := c.Add(c.BaseMul(a), c.BaseMul(b))
		r := c.BaseMul(new(big.Int).Add(a, b))
		if !c.Equal(l, r) {
			t.Fatal(c.Name, "distributivity")
		}
	}
	if Ed25519.Gx.Text(16) != "216936d3cd6e53fec0a4e231fdd6dc5c692cc7609525a7b2c9562d608f25d51a" {
		t.Fatal("ed25519 Gx", Ed25519.Gx.Text(16))
	}
	tor := Ed25519.TorsionEd()
	if len(tor) != 8 || !Ed25519.IsNeutral(Ed25519.Mul(big.NewInt(8), tor[1])) || Ed25519.IsNeutral(Ed25519.Mul(big.NewInt(4), tor[1])) {
		t.Fatal("torsion")
	}
}

func TestEd25519AgainstStdlib(t *testing.T) {
	seed := core.Bytes("edseed", 32)
	priv := ed25519.NewKeyFromSeed(seed)
	pub := priv.Public().(ed25519.PublicKey)
	msg := []byte("hello")
	sig := ed25519.Sign(priv, msg)
	var pe [32]byte
	copy(pe[:], pub)
	if !Ed25519Verify(pe, msg, sig) {
		t.Fatal("ref rejects a stdlib signature")
	}
	sig[3] ^= 1
	if Ed25519Verify(pe, msg, sig) {
		t.Fatal("ref accepts a broken signature")
	}
	A, ok := Ed25519.DecodeEd(pe)
	if !ok || Ed25519.EncodeEd(A) != pe {
		t.Fatal("encode/decode")
	}
}

func TestEcdsa(t *testing.T) {
	c := Secp256k1
	d := new(big.Int).SetBytes(core.Bytes("d", 32))
	d.Mod(d, c.N)
	Q := c.BaseMul(d)
	k := new(big.Int).SetBytes(core.Bytes("k", 32))
	k.Mod(k, c.N)
	R := c.BaseMul(k)
	r := new(big.Int).Mod(R.X, c.N)
	e := big.NewInt(42)
	s := new(big.Int).Mul(new(big.Int).ModInverse(k, c.N), new(big.Int).Add(e, new(big.Int).Mul(r, d)))
	s.Mod(s, c.N)
	if !EcdsaVerify(c, Q, e, r, s) {
		t.Fatal("verify")
	}
	rec, ok := EcdsaRecover(c, e, r, s, int(R.Y.Bit(0)))
	if !ok || !c.Equal(rec, Q) {
		t.Fatal("recover")
	}
	rec2, ok := EcdsaRecover(c, e, r, s, int(R.Y.Bit(0))^1)
	if ok && c.Equal(rec2, Q) {
		t.Fatal("recover wrong parity gives the same key")
	}
}
