package ref

// Reference BIP32 *public* derivation (CKDpub), serialisation and base58check, written from the BIP
// text on top of the reference secp256k1 arithmetic of this package. Nothing here calls btcec,
// btcutil or tss-lib.

import (
	"bytes"
	"crypto/hmac"
	"crypto/sha256"
	"crypto/sha512"
	"encoding/binary"
	"errors"
	"math/big"

	"golang.org/x/crypto/ripemd160"
)

const Bip32Hardened = uint32(0x80000000)

var (
	ErrBip32Hardened = errors.New("bip32: hardened index in public derivation")
	ErrBip32Depth    = errors.New("bip32: depth does not fit one byte")
	ErrBip32Invalid  = errors.New("bip32: I_L >= n or child is the point at infinity")
	ErrBip32Parent   = errors.New("bip32: parent key is not a curve point")
	ErrBip32Format   = errors.New("bip32: malformed serialised key")
)

// XPub is one public BIP32 node.
type XPub struct {
	Version   [4]byte
	Depth     byte
	ParentFP  [4]byte
	ChildNum  uint32
	ChainCode [32]byte
	Key       Point
}

// SecCompress is the 33-byte SEC1 compressed encoding (02/03 || x, x left-padded to 32 bytes).
func SecCompress(p Point) []byte {
	out := make([]byte, 33)
	out[0] = 0x02 + byte(p.Y.Bit(0))
	xb := p.X.Bytes()
	copy(out[33-len(xb):], xb)
	return out
}

// SecDecompress parses a 33-byte compressed secp256k1 point.
func SecDecompress(b []byte) (Point, bool) {
	if len(b) != 33 || (b[0] != 2 && b[0] != 3) {
		return Point{}, false
	}
	return Secp256k1.LiftX(new(big.Int).SetBytes(b[1:]), uint(b[0]&1))
}

// Hash160 = RIPEMD160(SHA256(b)).
func Hash160(b []byte) []byte {
	s := sha256.Sum256(b)
	h := ripemd160.New()
	h.Write(s[:])
	return h.Sum(nil)
}

// Fingerprint of a node: first 4 bytes of Hash160(compressed key).
func (x *XPub) Fingerprint() [4]byte {
	var fp [4]byte
	copy(fp[:], Hash160(SecCompress(x.Key))[:4])
	return fp
}

// Child is CKDpub((K_par, c_par), i). It also returns I_L (the scalar with K_i = K_par + I_L*G).
func (x *XPub) Child(i uint32) (*XPub, *big.Int, error) {
	c := Secp256k1
	if i >= Bip32Hardened {
		return nil, nil, ErrBip32Hardened
	}
	if x.Depth == 255 {
		return nil, nil, ErrBip32Depth
	}
	if x.Key.Inf || !c.OnCurve(x.Key.X, x.Key.Y) {
		return nil, nil, ErrBip32Parent
	}
	data := make([]byte, 37)
	copy(data, SecCompress(x.Key))
	binary.BigEndian.PutUint32(data[33:], i)
	mac := hmac.New(sha512.New, x.ChainCode[:])
	mac.Write(data)
	I := mac.Sum(nil)
	il := new(big.Int).SetBytes(I[:32])
	if il.Cmp(c.N) >= 0 {
		return nil, nil, ErrBip32Invalid
	}
	child := c.Add(c.BaseMul(il), x.Key)
	if child.Inf {
		return nil, nil, ErrBip32Invalid
	}
	out := &XPub{Version: x.Version, Depth: x.Depth + 1, ParentFP: x.Fingerprint(), ChildNum: i, Key: child}
	copy(out.ChainCode[:], I[32:])
	return out, il, nil
}

// Serialize gives the 78-byte BIP32 payload.
func (x *XPub) Serialize() []byte {
	out := make([]byte, 0, 78)
	out = append(out, x.Version[:]...)
	out = append(out, x.Depth)
	out = append(out, x.ParentFP[:]...)
	var cn [4]byte
	binary.BigEndian.PutUint32(cn[:], x.ChildNum)
	out = append(out, cn[:]...)
	out = append(out, x.ChainCode[:]...)
	out = append(out, SecCompress(x.Key)...)
	return out
}

func (x *XPub) String() string { return Base58CheckEncode(x.Serialize()) }

// ParseXPub decodes a base58check extended *public* key.
func ParseXPub(s string) (*XPub, error) {
	payload, ok := Base58CheckDecode(s)
	if !ok || len(payload) != 78 {
		return nil, ErrBip32Format
	}
	x := &XPub{}
	copy(x.Version[:], payload[0:4])
	x.Depth = payload[4]
	copy(x.ParentFP[:], payload[5:9])
	x.ChildNum = binary.BigEndian.Uint32(payload[9:13])
	copy(x.ChainCode[:], payload[13:45])
	p, ok := SecDecompress(payload[45:78])
	if !ok {
		return nil, ErrBip32Format
	}
	x.Key = p
	return x, nil
}

const b58Alphabet = "123456789ABCDEFGHJKLMNPQRSTUVWXYZabcdefghijkmnopqrstuvwxyz"

func Base58Encode(b []byte) string {
	n := new(big.Int).SetBytes(b)
	radix := big.NewInt(58)
	var rev []byte
	m := new(big.Int)
	for n.Sign() > 0 {
		n.DivMod(n, radix, m)
		rev = append(rev, b58Alphabet[m.Int64()])
	}
	for _, c := range b {
		if c != 0 {
			break
		}
		rev = append(rev, b58Alphabet[0])
	}
	for i, j := 0, len(rev)-1; i < j; i, j = i+1, j-1 {
		rev[i], rev[j] = rev[j], rev[i]
	}
	return string(rev)
}

func Base58Decode(s string) ([]byte, bool) {
	n := new(big.Int)
	radix := big.NewInt(58)
	for i := 0; i < len(s); i++ {
		k := bytes.IndexByte([]byte(b58Alphabet), s[i])
		if k < 0 {
			return nil, false
		}
		n.Mul(n, radix)
		n.Add(n, big.NewInt(int64(k)))
	}
	zeros := 0
	for zeros < len(s) && s[zeros] == b58Alphabet[0] {
		zeros++
	}
	return append(make([]byte, zeros), n.Bytes()...), true
}

func checksum4(b []byte) []byte {
	a := sha256.Sum256(b)
	c := sha256.Sum256(a[:])
	return c[:4]
}

func Base58CheckEncode(payload []byte) string {
	return Base58Encode(append(append([]byte{}, payload...), checksum4(payload)...))
}

func Base58CheckDecode(s string) ([]byte, bool) {
	raw, ok := Base58Decode(s)
	if !ok || len(raw) < 4 {
		return nil, false
	}
	payload, sum := raw[:len(raw)-4], raw[len(raw)-4:]
	if !bytes.Equal(checksum4(payload), sum) {
		return nil, false
	}
	return payload, true
}
