// Package ref: boring reference models written from the textbook definitions, independent of the
// curve libraries tss-lib uses (btcec, decred edwards, agl/ed25519).
package ref

import (
	"crypto/sha512"
	"math/big"
)

// Point is an affine point; Inf marks the neutral element of a Weierstrass curve
// (the Edwards neutral element is the ordinary affine point (0,1)).
type Point struct {
	X, Y *big.Int
	Inf  bool
}

type Curve struct {
	Name    string
	P, N    *big.Int // field prime, prime group order
	Gx, Gy  *big.Int
	Edwards bool
	D       *big.Int // Edwards d
	B       *big.Int // Weierstrass b (a = 0)
	H       int      // cofactor
}

func hexInt(s string) *big.Int { v, _ := new(big.Int).SetString(s, 16); return v }

var Secp256k1 = &Curve{
	Name: "secp256k1",
	P:    hexInt("FFFFFFFFFFFFFFFFFFFFFFFFFFFFFFFFFFFFFFFFFFFFFFFFFFFFFFFEFFFFFC2F"),
	N:    hexInt("FFFFFFFFFFFFFFFFFFFFFFFFFFFFFFFEBAAEDCE6AF48A03BBFD25E8CD0364141"),
	Gx:   hexInt("79BE667EF9DCBBAC55A06295CE870B07029BFCDB2DCE28D959F2815B16F81798"),
	Gy:   hexInt("483ADA7726A3C4655DA4FBFC0E1108A8FD17B448A68554199C47D08FFB10D4B8"),
	B:    big.NewInt(7), H: 1,
}

var Ed25519 = func() *Curve {
	p := new(big.Int).Sub(new(big.Int).Lsh(big.NewInt(1), 255), big.NewInt(19))
	// d = -121665/121666 mod p
	d := new(big.Int).Mul(big.NewInt(-121665), new(big.Int).ModInverse(big.NewInt(121666), p))
	d.Mod(d, p)
	n := new(big.Int).Add(new(big.Int).Lsh(big.NewInt(1), 252), hexInt("14def9dea2f79cd65812631a5cf5d3ed"))
	c := &Curve{Name: "ed25519", P: p, N: n, Edwards: true, D: d, H: 8}
	// base point: y = 4/5, x even... (x is the "positive"=even root per RFC 8032)
	gy := new(big.Int).Mul(big.NewInt(4), new(big.Int).ModInverse(big.NewInt(5), p))
	gy.Mod(gy, p)
	gx := c.recoverX(gy, 0)
	c.Gx, c.Gy = gx, gy
	return c
}()

func (c *Curve) mod(x *big.Int) *big.Int { return x.Mod(x, c.P) }

func (c *Curve) G() Point { return Point{X: new(big.Int).Set(c.Gx), Y: new(big.Int).Set(c.Gy)} }

func (c *Curve) Neutral() Point {
	if c.Edwards {
		return Point{X: big.NewInt(0), Y: big.NewInt(1)}
	}
	return Point{Inf: true}
}

func (c *Curve) IsNeutral(p Point) bool {
	if c.Edwards {
		return !p.Inf && p.X.Sign() == 0 && p.Y.Cmp(big.NewInt(1)) == 0
	}
	return p.Inf
}

// OnCurve: coordinates canonical (0 <= x,y < p) and satisfying the curve equation.
func (c *Curve) OnCurve(x, y *big.Int) bool {
	if x == nil || y == nil || x.Sign() < 0 || y.Sign() < 0 || x.Cmp(c.P) >= 0 || y.Cmp(c.P) >= 0 {
		return false
	}
	return c.SatisfiesEquation(x, y)
}

// SatisfiesEquation checks the curve equation modulo p without requiring canonical coordinates.
func (c *Curve) SatisfiesEquation(x, y *big.Int) bool {
	x2 := c.mod(new(big.Int).Mul(x, x))
	y2 := c.mod(new(big.Int).Mul(y, y))
	if c.Edwards {
		// -x^2 + y^2 = 1 + d x^2 y^2
		l := c.mod(new(big.Int).Sub(y2, x2))
		r := c.mod(new(big.Int).Add(big.NewInt(1), new(big.Int).Mul(c.D, new(big.Int).Mul(x2, y2))))
		return l.Cmp(r) == 0
	}
	r := c.mod(new(big.Int).Add(new(big.Int).Mul(x2, x), c.B))
	return y2.Cmp(r) == 0
}

func (c *Curve) Equal(a, b Point) bool {
	if a.Inf || b.Inf {
		return a.Inf == b.Inf
	}
	return a.X.Cmp(b.X) == 0 && a.Y.Cmp(b.Y) == 0
}

func (c *Curve) Neg(a Point) Point {
	if a.Inf {
		return a
	}
	if c.Edwards {
		return Point{X: c.mod(new(big.Int).Neg(a.X)), Y: new(big.Int).Set(a.Y)}
	}
	return Point{X: new(big.Int).Set(a.X), Y: c.mod(new(big.Int).Neg(a.Y))}
}

func (c *Curve) Add(a, b Point) Point {
	if c.Edwards {
		// x3 = (x1y2+x2y1)/(1+d x1x2y1y2), y3 = (y1y2+x1x2)/(1-d x1x2y1y2)   (a = -1)
		x1y2 := new(big.Int).Mul(a.X, b.Y)
		x2y1 := new(big.Int).Mul(b.X, a.Y)
		y1y2 := new(big.Int).Mul(a.Y, b.Y)
		x1x2 := new(big.Int).Mul(a.X, b.X)
		dxy := c.mod(new(big.Int).Mul(c.D, c.mod(new(big.Int).Mul(x1x2, y1y2))))
		nx := c.mod(new(big.Int).Add(x1y2, x2y1))
		ny := c.mod(new(big.Int).Add(y1y2, x1x2))
		dx := new(big.Int).ModInverse(c.mod(new(big.Int).Add(big.NewInt(1), dxy)), c.P)
		dy := new(big.Int).ModInverse(c.mod(new(big.Int).Sub(big.NewInt(1), dxy)), c.P)
		return Point{X: c.mod(nx.Mul(nx, dx)), Y: c.mod(ny.Mul(ny, dy))}
	}
	if a.Inf {
		return b
	}
	if b.Inf {
		return a
	}
	var lam *big.Int
	if a.X.Cmp(b.X) == 0 {
		if c.mod(new(big.Int).Add(a.Y, b.Y)).Sign() == 0 {
			return Point{Inf: true}
		}
		num := c.mod(new(big.Int).Mul(big.NewInt(3), new(big.Int).Mul(a.X, a.X)))
		den := new(big.Int).ModInverse(c.mod(new(big.Int).Mul(big.NewInt(2), a.Y)), c.P)
		lam = c.mod(num.Mul(num, den))
	} else {
		num := c.mod(new(big.Int).Sub(b.Y, a.Y))
		den := new(big.Int).ModInverse(c.mod(new(big.Int).Sub(b.X, a.X)), c.P)
		lam = c.mod(num.Mul(num, den))
	}
	x3 := c.mod(new(big.Int).Sub(new(big.Int).Sub(new(big.Int).Mul(lam, lam), a.X), b.X))
	y3 := c.mod(new(big.Int).Sub(new(big.Int).Mul(lam, new(big.Int).Sub(a.X, x3)), a.Y))
	return Point{X: x3, Y: y3}
}

// Mul computes k*a by double-and-add; k may be any integer (negative allowed, not reduced).
func (c *Curve) Mul(k *big.Int, a Point) Point {
	if k.Sign() < 0 {
		return c.Mul(new(big.Int).Neg(k), c.Neg(a))
	}
	r := c.Neutral()
	for i := k.BitLen() - 1; i >= 0; i-- {
		r = c.Add(r, r)
		if k.Bit(i) == 1 {
			r = c.Add(r, a)
		}
	}
	return r
}

func (c *Curve) BaseMul(k *big.Int) Point { return c.Mul(k, c.G()) }

// sqrt modulo p (p = 3 mod 4 for secp256k1, p = 5 mod 8 for ed25519); returns nil if none.
func (c *Curve) sqrt(a *big.Int) *big.Int {
	a = new(big.Int).Mod(a, c.P)
	r := new(big.Int).ModSqrt(a, c.P)
	return r
}

// recoverX for Edwards: x^2 = (y^2-1)/(d y^2+1); sign = desired low bit.
func (c *Curve) recoverX(y *big.Int, sign uint) *big.Int {
	y2 := c.mod(new(big.Int).Mul(y, y))
	num := c.mod(new(big.Int).Sub(y2, big.NewInt(1)))
	den := c.mod(new(big.Int).Add(new(big.Int).Mul(c.D, y2), big.NewInt(1)))
	x2 := c.mod(new(big.Int).Mul(num, new(big.Int).ModInverse(den, c.P)))
	x := c.sqrt(x2)
	if x == nil {
		return nil
	}
	if x.Bit(0) != sign {
		x = c.mod(new(big.Int).Neg(x))
	}
	return x
}

// LiftX for Weierstrass: the point with the given x and y parity, or ok=false.
func (c *Curve) LiftX(x *big.Int, odd uint) (Point, bool) {
	if x.Sign() < 0 || x.Cmp(c.P) >= 0 {
		return Point{}, false
	}
	r := c.mod(new(big.Int).Add(new(big.Int).Mul(new(big.Int).Mul(x, x), x), c.B))
	y := c.sqrt(r)
	if y == nil {
		return Point{}, false
	}
	if y.Bit(0) != odd {
		y = c.mod(new(big.Int).Neg(y))
	}
	return Point{X: new(big.Int).Set(x), Y: y}, true
}

// EncodeEd is the RFC 8032 32-byte point encoding: little-endian y with the low bit of x in bit 255.
func (c *Curve) EncodeEd(p Point) [32]byte {
	var out [32]byte
	yb := p.Y.Bytes() // big-endian
	for i, b := range yb {
		out[len(yb)-1-i] = b
	}
	out[31] |= byte(p.X.Bit(0) << 7)
	return out
}

// DecodeEd decodes an RFC 8032 point encoding.
func (c *Curve) DecodeEd(b [32]byte) (Point, bool) {
	sign := uint(b[31] >> 7)
	var be [32]byte
	for i := range b {
		be[31-i] = b[i]
	}
	be[0] &= 0x7f
	y := new(big.Int).SetBytes(be[:])
	if y.Cmp(c.P) >= 0 {
		return Point{}, false
	}
	x := c.recoverX(y, sign)
	if x == nil {
		return Point{}, false
	}
	if x.Sign() == 0 && sign == 1 {
		return Point{}, false
	}
	return Point{X: x, Y: y}, true
}

// TorsionEd returns the 8 points of order dividing 8 on edwards25519.
func (c *Curve) TorsionEd() []Point {
	// find a point of order 8: take points Q = (L)*P for generic P until order is exactly 8
	for seed := int64(2); ; seed++ {
		y := big.NewInt(seed)
		x := c.recoverX(y, 0)
		if x == nil || !c.OnCurve(x, y) {
			continue
		}
		q := c.Mul(c.N, Point{X: x, Y: y})
		// order of q divides 8
		if !c.IsNeutral(c.Mul(big.NewInt(4), q)) {
			out := []Point{}
			for k := int64(0); k < 8; k++ {
				out = append(out, c.Mul(big.NewInt(k), q))
			}
			return out
		}
	}
}

// ---- signatures ----

// EcdsaVerify is textbook ECDSA verification (hash given as an integer in [0, 2^256), taken as is).
func EcdsaVerify(c *Curve, pub Point, e, r, s *big.Int) bool {
	if r.Sign() <= 0 || s.Sign() <= 0 || r.Cmp(c.N) >= 0 || s.Cmp(c.N) >= 0 || pub.Inf || !c.OnCurve(pub.X, pub.Y) {
		return false
	}
	w := new(big.Int).ModInverse(s, c.N)
	u1 := new(big.Int).Mod(new(big.Int).Mul(e, w), c.N)
	u2 := new(big.Int).Mod(new(big.Int).Mul(r, w), c.N)
	pt := c.Add(c.BaseMul(u1), c.Mul(u2, pub))
	if pt.Inf {
		return false
	}
	return new(big.Int).Mod(pt.X, c.N).Cmp(r) == 0
}

// EcdsaRecover recovers the public key from (r, s, recid) per SEC 1 §4.1.6; recid bit0 = parity of R.y,
// bit1 = R.x overflowed the group order.
func EcdsaRecover(c *Curve, e, r, s *big.Int, recid int) (Point, bool) {
	x := new(big.Int).Set(r)
	if recid&2 != 0 {
		x.Add(x, c.N)
	}
	R, ok := c.LiftX(x, uint(recid&1))
	if !ok {
		return Point{}, false
	}
	rinv := new(big.Int).ModInverse(r, c.N)
	if rinv == nil {
		return Point{}, false
	}
	// Q = r^-1 (s R - e G)
	sR := c.Mul(s, R)
	eG := c.BaseMul(new(big.Int).Mod(e, c.N))
	q := c.Mul(rinv, c.Add(sR, c.Neg(eG)))
	if q.Inf {
		return Point{}, false
	}
	return q, true
}

// Ed25519Verify is RFC 8032 verification written against the reference curve:
// [S]B = R + [H(R||A||M)]A with S < L (cofactorless equation, as crypto/ed25519 checks).
func Ed25519Verify(pubEnc [32]byte, msg []byte, sig []byte) bool {
	c := Ed25519
	if len(sig) != 64 {
		return false
	}
	var rb [32]byte
	copy(rb[:], sig[:32])
	R, ok := c.DecodeEd(rb)
	if !ok {
		return false
	}
	A, ok := c.DecodeEd(pubEnc)
	if !ok {
		return false
	}
	sl := make([]byte, 32)
	for i := 0; i < 32; i++ {
		sl[31-i] = sig[32+i]
	}
	S := new(big.Int).SetBytes(sl)
	if S.Cmp(c.N) >= 0 {
		return false
	}
	h := sha512.New()
	h.Write(sig[:32])
	h.Write(pubEnc[:])
	h.Write(msg)
	d := h.Sum(nil)
	for i, j := 0, len(d)-1; i < j; i, j = i+1, j-1 {
		d[i], d[j] = d[j], d[i]
	}
	k := new(big.Int).Mod(new(big.Int).SetBytes(d), c.N)
	return c.Equal(c.BaseMul(S), c.Add(R, c.Mul(k, A)))
}

// ---- Shamir / Lagrange ----

// LagrangeAtZero returns the coefficients l_i with sum l_i f(x_i) = f(0) mod q.
func LagrangeAtZero(q *big.Int, xs []*big.Int) []*big.Int { return LagrangeAt(q, xs, big.NewInt(0)) }

func LagrangeAt(q *big.Int, xs []*big.Int, at *big.Int) []*big.Int {
	out := make([]*big.Int, len(xs))
	for i := range xs {
		num, den := big.NewInt(1), big.NewInt(1)
		for j := range xs {
			if i == j {
				continue
			}
			num.Mod(num.Mul(num, new(big.Int).Sub(at, xs[j])), q)
			den.Mod(den.Mul(den, new(big.Int).Sub(xs[i], xs[j])), q)
		}
		inv := new(big.Int).ModInverse(den, q)
		if inv == nil {
			return nil
		}
		out[i] = num.Mod(num.Mul(num, inv), q)
	}
	return out
}
