// Package fault: deviation-bounded fault enumeration on top of the netrun runner. Every execution
// differs from the honest FIFO run by exactly one element of a finite, listed deviation alphabet; the
// executions run in worker subprocesses so that a panic in a library goroutine, a hang or an
// out-of-memory abort is observed as an outcome instead of killing the explorer.
package fault

import (
	"bufio"
	"bytes"
	"encoding/hex"
	"encoding/json"
	"fmt"
	"math/big"
	"os"
	"os/exec"
	"path/filepath"
	"regexp"
	"sort"
	"strings"
	"sync"
	"time"

	"google.golang.org/protobuf/proto"
	"google.golang.org/protobuf/reflect/protoreflect"
	"google.golang.org/protobuf/types/known/anypb"

	"github.com/bnb-chain/tss-lib/v2/common"
	"github.com/bnb-chain/tss-lib/v2/crypto/paillier"
	eckg "github.com/bnb-chain/tss-lib/v2/ecdsa/keygen"
	edkg "github.com/bnb-chain/tss-lib/v2/eddsa/keygen"
	"github.com/bnb-chain/tss-lib/v2/tss"

	"verif/internal/core"
	"verif/internal/netrun"
	"verif/internal/oracle"
	"verif/internal/protomc"
	"verif/internal/ref"
	"verif/internal/statehash"
)

// Dev is one deviation of the deviating node.
type Dev struct {
	MsgType string `json:"type"`            // short message type to alter
	Occ     int    `json:"occ"`             // which emission of that type by the deviator (p2p: one per addressee)
	Field   string `json:"field,omitempty"` // proto field name; "" = whole-message operation
	Index   int    `json:"index"`           // element of a repeated field, -1 = the field itself / list operation
	Op      string `json:"op"`              // value class, list operation, or whole-message operation
}

func (d Dev) Sig() string {
	f := d.Field
	if d.Index >= 0 {
		f = fmt.Sprintf("%s[%s]", d.Field, idxClass(d.Index))
	}
	return fmt.Sprintf("%s/%s/%s", d.MsgType, f, d.Op)
}

// ClassFamily collapses value classes that are the same defect trigger.
func ClassFamily(op string) string {
	switch op {
	case "zero", "q", "2q":
		return "q-multiple"
	}
	return "any"
}

func idxClass(i int) string {
	switch {
	case i == 0:
		return "first"
	case i >= 1000000:
		return "last"
	case i >= 1000:
		return "middle"
	}
	return fmt.Sprint(i)
}

type Case struct {
	ID       int    `json:"id"`
	Scenario string `json:"scenario"`
	Deviator int    `json:"deviator"`
	Dev      Dev    `json:"dev"`
	// LateStart: node index + 1 of an honest party whose Start() is called only once nothing else is
	// deliverable (everything sent to it until then arrives before its Start); 0 = every party starts first
	LateStart int `json:"late_start,omitempty"`
}

type ErrRec struct {
	Node     int    `json:"node"`
	Round    int    `json:"round"`
	Culprits []int  `json:"culprits"` // node indices; -1 = unknown party
	Text     string `json:"text"`
}

type Outcome struct {
	ID         int      `json:"id"`
	Applied    bool     `json:"applied"`    // the deviation point was reached
	Equivalent bool     `json:"equivalent"` // the altered message has the same bytes as the honest one
	Errs       []ErrRec `json:"errs"`
	Panics     []string `json:"panics"` // recovered in the caller's goroutine
	PanicSites []string `json:"panic_sites"`
	Ends       []int    `json:"ends"` // results per node
	BadOutput  []string `json:"bad_output"`
	Erased     []int    `json:"erased"` // old-committee nodes whose share is erased at the end
	Millis     int64    `json:"ms"`
	// filled in by the parent
	Crash     string `json:"crash,omitempty"` // "panic", "hang", "oom", "died"
	CrashSite string `json:"crash_site,omitempty"`
	CrashText string `json:"crash_text,omitempty"`
}

// ---- scenario registry (shared by parent and workers) ----

var (
	regMu     sync.Mutex
	scenarios = map[string]func() protomc.Scenario{}
)

func Register(name string, mk func() protomc.Scenario) {
	regMu.Lock()
	scenarios[name] = mk
	regMu.Unlock()
}

func Scenario(name string) (protomc.Scenario, bool) {
	regMu.Lock()
	mk, ok := scenarios[name]
	regMu.Unlock()
	if !ok {
		return protomc.Scenario{}, false
	}
	return mk(), true
}

// ---- message mutation ----

type mutCtx struct {
	q      *big.Int
	N      *big.Int          // the deviator's Paillier modulus (nil for EdDSA)
	NT     *big.Int          // the first addressee's NTilde (nil for EdDSA)
	others map[string][]byte // wire bytes of another party's message of the same type (for "other")
	edw    bool
}

func pow2(k uint) *big.Int { return new(big.Int).Lsh(big.NewInt(1), k) }

// ValueClasses is the boundary alphabet for one bytes value (numbers are big-endian).
func ValueClasses(ecdsa bool, full bool) []string {
	v := []string{"zero", "one", "plus-one", "flip-low", "q-1", "q", "q+1", "2q", "2^63", "2^64-1", "2^255", "2^256", "double-width", "other"}
	if ecdsa {
		v = append(v, "N-1", "N", "N+1", "N^2", "NT", "2^2048")
		if full {
			v = append(v, "N^2-1", "N^2+1", "NT-1", "NT+1", "2^1024", "2^2047", "2^4096")
		}
	}
	if full {
		v = append(v, "2", "2^8", "2^248", "2^512")
	}
	return v
}

func (c *mutCtx) value(class string, orig []byte, otherVal []byte) ([]byte, bool) {
	one := big.NewInt(1)
	o := new(big.Int).SetBytes(orig)
	b := func(x *big.Int) ([]byte, bool) {
		if x.Sign() == 0 {
			return []byte{0}, true
		}
		return x.Bytes(), true
	}
	switch class {
	case "zero":
		return []byte{0}, true
	case "one":
		return []byte{1}, true
	case "2":
		return []byte{2}, true
	case "plus-one":
		return b(new(big.Int).Add(o, one))
	case "flip-low":
		x := append([]byte{}, orig...)
		if len(x) == 0 {
			return nil, false
		}
		x[len(x)-1] ^= 1
		return x, true
	case "generic":
		if len(orig) == 0 {
			return nil, false
		}
		g := core.Bytes("fault-generic-"+hex.EncodeToString(orig[:min(8, len(orig))]), len(orig))
		if g[0] == 0 {
			g[0] = 1
		}
		return g, true
	case "double-width":
		return append(append([]byte{}, orig...), orig...), len(orig) > 0
	case "other":
		return otherVal, otherVal != nil
	case "q-1":
		return b(new(big.Int).Sub(c.q, one))
	case "q":
		return b(c.q)
	case "q+1":
		return b(new(big.Int).Add(c.q, one))
	case "2q":
		return b(new(big.Int).Lsh(c.q, 1))
	case "2^8":
		return b(pow2(8))
	case "2^63":
		return b(pow2(63))
	case "2^64-1":
		return b(new(big.Int).Sub(pow2(64), one))
	case "2^248":
		return b(pow2(248))
	case "2^255":
		return b(pow2(255))
	case "2^256":
		return b(pow2(256))
	case "2^512":
		return b(pow2(512))
	case "2^1024":
		return b(pow2(1024))
	case "2^2047":
		return b(pow2(2047))
	case "2^2048":
		return b(pow2(2048))
	case "2^4096":
		return b(pow2(4096))
	}
	if c.N != nil {
		n2 := new(big.Int).Mul(c.N, c.N)
		switch class {
		case "N-1":
			return b(new(big.Int).Sub(c.N, one))
		case "N":
			return b(c.N)
		case "N+1":
			return b(new(big.Int).Add(c.N, one))
		case "N^2":
			return b(n2)
		case "N^2-1":
			return b(new(big.Int).Sub(n2, one))
		case "N^2+1":
			return b(new(big.Int).Add(n2, one))
		}
	}
	if c.NT != nil {
		switch class {
		case "NT":
			return b(c.NT)
		case "NT-1":
			return b(new(big.Int).Sub(c.NT, one))
		case "NT+1":
			return b(new(big.Int).Add(c.NT, one))
		}
	}
	return nil, false
}

func decode(wire []byte) (proto.Message, error) {
	a := new(anypb.Any)
	if err := proto.Unmarshal(wire, a); err != nil {
		return nil, err
	}
	return a.UnmarshalNew()
}

func encode(m proto.Message) ([]byte, error) {
	a, err := anypb.New(m)
	if err != nil {
		return nil, err
	}
	return proto.Marshal(a)
}

// FieldSlots lists the (field, index) slots of a message's content and the list operations.
type Slot struct {
	Field string
	Index int // -1 = scalar bytes field; otherwise element index class (0, 1000+mid, 1000000+last)
	Len   int
	List  bool
}

func Slots(wire []byte, allIdx bool) ([]Slot, error) {
	m, err := decode(wire)
	if err != nil {
		return nil, err
	}
	var out []Slot
	fds := m.ProtoReflect().Descriptor().Fields()
	for i := 0; i < fds.Len(); i++ {
		fd := fds.Get(i)
		if fd.Kind() != protoreflect.BytesKind {
			continue
		}
		name := string(fd.Name())
		if fd.IsList() {
			l := m.ProtoReflect().Get(fd).List().Len()
			out = append(out, Slot{Field: name, Index: -1, Len: l, List: true})
			if l > 0 {
				out = append(out, Slot{Field: name, Index: 0, Len: l})
			}
			if allIdx && l > 2 {
				out = append(out, Slot{Field: name, Index: 1000 + l/2, Len: l})
			}
			if allIdx && l > 1 {
				out = append(out, Slot{Field: name, Index: 1000000 + l - 1, Len: l})
			}
			if !allIdx && l > 1 { // quick: still touch the last element (different code path in several decoders)
				out = append(out, Slot{Field: name, Index: 1000000 + l - 1, Len: l})
			}
		} else {
			out = append(out, Slot{Field: name, Index: -1})
		}
	}
	return out, nil
}

func realIndex(i int) int {
	switch {
	case i >= 1000000:
		return i - 1000000
	case i >= 1000:
		return i - 1000
	}
	return i
}

// Mutate applies dev to the wire bytes of the honest message.
func mutate(wire []byte, dev Dev, ctx *mutCtx) ([]byte, error) {
	switch dev.Op {
	case "truncate-half":
		return wire[:len(wire)/2], nil
	case "empty-wire":
		return []byte{}, nil
	case "garbage":
		return []byte{0xff, 0xff, 0x01}, nil
	}
	m, err := decode(wire)
	if err != nil {
		return nil, err
	}
	r := m.ProtoReflect()
	fd := r.Descriptor().Fields().ByName(protoreflect.Name(dev.Field))
	if fd == nil {
		return nil, fmt.Errorf("no field %s", dev.Field)
	}
	var otherVal []byte
	if ow, ok := ctx.others[dev.MsgType]; ok && dev.Op == "other" {
		if om, err := decode(ow); err == nil {
			ov := om.ProtoReflect().Get(fd)
			if fd.IsList() {
				if dev.Index >= 0 && realIndex(dev.Index) < ov.List().Len() {
					otherVal = ov.List().Get(realIndex(dev.Index)).Bytes()
				}
			} else {
				otherVal = ov.Bytes()
			}
		}
	}
	if fd.IsList() {
		l := r.Mutable(fd).List()
		if dev.Index < 0 {
			switch dev.Op {
			case "drop-last":
				if l.Len() == 0 {
					return nil, fmt.Errorf("empty list")
				}
				l.Truncate(l.Len() - 1)
			case "append-one":
				l.Append(protoreflect.ValueOfBytes([]byte{1}))
			case "single":
				if l.Len() == 0 {
					return nil, fmt.Errorf("empty list")
				}
				l.Truncate(1)
			case "empty-list":
				l.Truncate(0)
			case "swap-first-two":
				if l.Len() < 2 {
					return nil, fmt.Errorf("short list")
				}
				a, b := l.Get(0), l.Get(1)
				l.Set(0, b)
				l.Set(1, a)
			default:
				return nil, fmt.Errorf("unknown list op %s", dev.Op)
			}
		} else {
			i := realIndex(dev.Index)
			if i >= l.Len() {
				return nil, fmt.Errorf("index out of range")
			}
			if dev.Op == "removed" {
				// remove element i
				var keep [][]byte
				for k := 0; k < l.Len(); k++ {
					if k != i {
						keep = append(keep, l.Get(k).Bytes())
					}
				}
				l.Truncate(0)
				for _, k := range keep {
					l.Append(protoreflect.ValueOfBytes(k))
				}
			} else {
				v, ok := ctx.value(dev.Op, l.Get(i).Bytes(), otherVal)
				if !ok {
					return nil, fmt.Errorf("class %s not applicable", dev.Op)
				}
				l.Set(i, protoreflect.ValueOfBytes(v))
			}
		}
	} else {
		if dev.Op == "removed" {
			r.Clear(fd)
		} else {
			v, ok := ctx.value(dev.Op, r.Get(fd).Bytes(), otherVal)
			if !ok {
				return nil, fmt.Errorf("class %s not applicable", dev.Op)
			}
			r.Set(fd, protoreflect.ValueOfBytes(v))
		}
	}
	return encode(m)
}

// ---- crafted (multi-message) deviations ----

// Commitment pairs: the deviator commits to an ALTERED opening (so the hash check passes at the
// receiver) and later reveals exactly that opening. The opening is read from the deviator's own
// state by reflection at the moment the commitment is emitted.
type CommitPair struct {
	Proto       string // protocol family prefix
	CommitType  string
	CommitField string
	StateField  string // field of the party's temp data holding the de-commitment
	RevealType  string
	RevealField string
}

var CommitPairs = []CommitPair{
	{"ecdsa-keygen", "KGRound1Message", "commitment", "deCommitPolyG", "KGRound2Message2", "de_commitment"},
	{"eddsa-keygen", "KGRound1Message", "commitment", "deCommitPolyG", "KGRound2Message2", "de_commitment"},
	{"ecdsa-signing", "SignRound1Message2", "commitment", "deCommit", "SignRound4Message", "de_commitment"},
	{"ecdsa-signing", "SignRound5Message", "commitment", "DPower", "SignRound6Message", "de_commitment"},
	{"ecdsa-signing", "SignRound7Message", "commitment", "DTelda", "SignRound8Message", "de_commitment"},
	{"eddsa-signing", "SignRound1Message", "commitment", "deCommit", "SignRound2Message", "de_commitment"},
	{"ecdsa-resharing", "DGRound1Message", "v_commitment", "VD", "DGRound3Message2", "v_decommitment"},
	{"eddsa-resharing", "DGRound1Message", "v_commitment", "VD", "DGRound3Message2", "v_decommitment"},
}

// RecommitClasses: alterations of one element (or the shape) of the opening.
var RecommitClasses = []string{"zero", "one", "plus-one", "q", "2^255", "2^256", "2^63", "2^64-1", "double-width", "drop-last", "append-one", "keep-two", "keep-one"}

func pairFor(scn, revealType string) *CommitPair {
	for i := range CommitPairs {
		if strings.HasPrefix(scn, CommitPairs[i].Proto) && CommitPairs[i].RevealType == revealType {
			return &CommitPairs[i]
		}
	}
	return nil
}

// alterOpening applies class to element idx (>=1; element 0 is the commitment randomness) of D.
func alterOpening(D []*big.Int, idx int, class string, ctx *mutCtx) ([]*big.Int, bool) {
	out := make([]*big.Int, len(D))
	for i := range D {
		out[i] = new(big.Int).Set(D[i])
	}
	switch class {
	case "drop-last":
		if len(out) < 2 {
			return nil, false
		}
		return out[:len(out)-1], true
	case "append-one":
		return append(out, big.NewInt(1)), true
	case "keep-two":
		if len(out) < 3 {
			return nil, false
		}
		return out[:2], true
	case "keep-one": // only the commitment randomness: the opening "opens to nothing"
		return out[:1], true
	}
	if strings.HasPrefix(class, "add-small-order-point-") {
		// edwards25519 only: the committed point that contains element idx gets a point of order 2, 4 or 8 added
		// (a different, valid on-curve point; the deviator's shares and proofs stay those of the original point)
		if !ctx.edw || idx < 1 {
			return nil, false
		}
		var ord int
		fmt.Sscanf(class, "add-small-order-point-%d", &ord)
		xi := 1 + 2*((idx-1)/2)
		if xi+1 >= len(out) {
			return nil, false
		}
		cv := ref.Ed25519
		for _, T := range cv.TorsionEd() {
			if cv.IsNeutral(T) {
				continue
			}
			o, acc := 1, T
			for !cv.IsNeutral(acc) {
				acc = cv.Add(acc, T)
				o++
			}
			if o == ord {
				np := cv.Add(ref.Point{X: out[xi], Y: out[xi+1]}, T)
				out[xi], out[xi+1] = np.X, np.Y
				return out, true
			}
		}
		return nil, false
	}
	if idx >= len(out) {
		return nil, false
	}
	v, ok := ctx.value(class, out[idx].Bytes(), nil)
	if !ok {
		return nil, false
	}
	out[idx] = new(big.Int).SetBytes(v)
	return out, true
}

func setBytesField(wire []byte, field string, val []byte, list [][]byte) ([]byte, error) {
	m, err := decode(wire)
	if err != nil {
		return nil, err
	}
	r := m.ProtoReflect()
	fd := r.Descriptor().Fields().ByName(protoreflect.Name(field))
	if fd == nil {
		return nil, fmt.Errorf("no field %s", field)
	}
	if fd.IsList() {
		l := r.Mutable(fd).List()
		l.Truncate(0)
		for _, b := range list {
			l.Append(protoreflect.ValueOfBytes(b))
		}
	} else {
		r.Set(fd, protoreflect.ValueOfBytes(val))
	}
	return encode(m)
}

func getBytesField(wire []byte, field string) ([]byte, error) {
	m, err := decode(wire)
	if err != nil {
		return nil, err
	}
	fd := m.ProtoReflect().Descriptor().Fields().ByName(protoreflect.Name(field))
	if fd == nil || fd.IsList() {
		return nil, fmt.Errorf("no scalar field %s", field)
	}
	return m.ProtoReflect().Get(fd).Bytes(), nil
}

// ---- execution of one case (worker side) ----

func nodeIndexOf(nw *netrun.Network, pid *tss.PartyID, reporter int) int {
	if pid == nil {
		return -1
	}
	k := new(big.Int).SetBytes(pid.Key)
	// prefer the committee the index belongs to; keys are unique across committees in our scenarios
	for _, n := range nw.Nodes {
		if n.ID.KeyInt().Cmp(k) == 0 {
			return n.Idx
		}
	}
	return -1
}

// Execute runs one case on a fresh network.
func Execute(c Case) (out Outcome) {
	t0 := time.Now()
	out.ID = c.ID
	sc, ok := Scenario(c.Scenario)
	if !ok {
		out.Panics = append(out.Panics, "unknown scenario "+c.Scenario)
		return
	}
	if c.Dev.MsgType == "<config>" {
		applyConfigDeviation(&sc.Cfg, c.Deviator, c.Dev.Op)
		out.Applied = true
	}
	nw, err := netrun.New(sc.Cfg)
	if err != nil {
		out.Panics = append(out.Panics, "constructor: "+err.Error())
		return
	}
	ctx := &mutCtx{q: sc.Cfg.Proto.Curve().Params().N, others: map[string][]byte{}, edw: strings.HasPrefix(string(sc.Cfg.Proto), "eddsa")}
	dn := nw.Nodes[c.Deviator]
	if dn.EcKey != nil && dn.EcKey.PaillierSK != nil {
		ctx.N = dn.EcKey.PaillierSK.N
	}
	for _, n := range nw.Nodes {
		if n.Idx != c.Deviator && n.EcKey != nil && n.EcKey.NTildei != nil && ctx.NT == nil {
			ctx.NT = n.EcKey.NTildei
		}
	}
	if sc.Cfg.Proto == netrun.EcdsaKeygen {
		ctx.N = sc.Cfg.PreParams[c.Deviator].PaillierSK.N
		ctx.NT = sc.Cfg.PreParams[(c.Deviator+1)%len(nw.Nodes)].NTildei
	}
	type cp struct {
		m  *netrun.Msg
		to int
	}
	var q []cp
	occ := 0
	push := func(ms []*netrun.Msg) {
		for _, m := range ms {
			for _, t := range m.To {
				q = append(q, cp{m, t})
			}
		}
	}
	order := []int{}
	for _, n := range nw.Nodes {
		if n.Role == "new" {
			order = append(order, n.Idx)
		}
	}
	for _, n := range nw.Nodes {
		if n.Role != "new" {
			order = append(order, n.Idx)
		}
	}
	late := c.LateStart - 1
	for _, i := range order {
		if i == late {
			continue
		}
		push(nw.Start(i).NewMsg)
	}
	altered := map[*netrun.Msg][]byte{}
	decided := map[*netrun.Msg]bool{}
	var recommit *CommitPair
	var recommitD [][]byte // the altered opening, once the commitment has been replaced
	var raiseA *big.Int    // extra coefficient of a "raise-degree" deviation
	if strings.HasPrefix(c.Dev.Op, "recommit:") {
		recommit = pairFor(c.Scenario, c.Dev.MsgType)
	}
	for len(q) > 0 || late >= 0 {
		if len(q) == 0 {
			// nothing else can be delivered: the late party starts now
			push(nw.Start(late).NewMsg)
			late = -1
			continue
		}
		x := q[0]
		q = q[1:]
		bz := x.m.Bytes
		if strings.HasPrefix(c.Dev.Op, "mirror-all:") && x.m.Sender == c.Deviator {
			// whole-identity replay: EVERY message of the deviator is replaced by the message of the same type
			// that node src emitted (for this recipient where there is one), handed over under the deviator's name
			var src int
			fmt.Sscanf(c.Dev.Op, "mirror-all:%d", &src)
			var rep []byte
			for _, em := range nw.Nodes[src].Emitted {
				if em.Type != x.m.Type {
					continue
				}
				if rep == nil {
					rep = em.Bytes
				}
				if len(em.To) == 1 && em.To[0] == x.to {
					rep = em.Bytes
					break
				}
			}
			if rep != nil {
				out.Applied = true
				bz = rep
			}
			res := nw.DeliverRaw(x.to, bz, nw.Nodes[x.m.Sender].ID, x.m.Broadcast, x.m.Ref())
			push(res.NewMsg)
			continue
		}
		if recommit != nil && x.m.Sender == c.Deviator && !decided[x.m] {
			switch x.m.Type {
			case recommit.CommitType:
				decided[x.m] = true
				// read the opening from the deviator's state, alter it, commit to the altered one
				dv := statehash.Field(nw.Nodes[c.Deviator].Party, "temp", recommit.StateField)
				if dv.IsValid() && dv.CanInterface() {
					if D, ok := dv.Interface().([]*big.Int); ok && len(D) > 1 {
						idx := realIndex(c.Dev.Index)
						if c.Dev.Index >= 1000000 {
							idx = len(D) - 1
						} else if c.Dev.Index >= 1000 {
							idx = len(D) / 2
						}
						if idx < 1 {
							idx = 1
						}
						cls := strings.TrimPrefix(c.Dev.Op, "recommit:")
						var D2 []*big.Int
						ok2 := false
						if cls == "raise-degree" {
							// the deviator shares a polynomial of degree t+1: one more committed coefficient a*G, and
							// every share it hands out moved by a*id^(t+1) (consistent with the longer commitment)
							cv := ref.Secp256k1
							if ctx.edw {
								cv = ref.Ed25519
							}
							raiseA = new(big.Int).SetBytes(core.Bytes("fault-raise-degree", 31))
							pt := cv.BaseMul(raiseA)
							D2 = append(append([]*big.Int{}, D...), pt.X, pt.Y)
							ok2 = true
						} else {
							D2, ok2 = alterOpening(D, idx, cls, ctx)
						}
						if ok := ok2; ok {
							C2 := common.SHA512_256i(D2...)
							if nb, err := setBytesField(x.m.Bytes, recommit.CommitField, C2.Bytes(), nil); err == nil {
								altered[x.m] = nb
								for _, d := range D2 {
									b := d.Bytes()
									if len(b) == 0 {
										b = []byte{0}
									}
									recommitD = append(recommitD, b)
								}
							}
						}
					}
				}
			case recommit.RevealType:
				decided[x.m] = true
				if recommitD != nil {
					if nb, err := setBytesField(x.m.Bytes, recommit.RevealField, nil, recommitD); err == nil {
						altered[x.m] = nb
					}
				}
			}
		}
		if recommit != nil && raiseA != nil && x.m.Sender == c.Deviator && (x.m.Type == "KGRound2Message1" || x.m.Type == "DGRound3Message1") && len(x.m.To) == 1 {
			if _, done := altered[x.m]; !done {
				if sh, err := getBytesField(x.m.Bytes, "share"); err == nil {
					t := sc.Cfg.Threshold
					if strings.Contains(string(sc.Cfg.Proto), "resharing") {
						t = sc.Cfg.NewThreshold
					}
					id := new(big.Int).Mod(nw.Nodes[x.m.To[0]].ID.KeyInt(), ctx.q)
					pw := new(big.Int).Exp(id, big.NewInt(int64(t+1)), ctx.q)
					v := new(big.Int).Add(new(big.Int).SetBytes(sh), new(big.Int).Mul(raiseA, pw))
					v.Mod(v, ctx.q)
					b := v.Bytes()
					if len(b) == 0 {
						b = []byte{0}
					}
					if nb, err := setBytesField(x.m.Bytes, "share", b, nil); err == nil {
						altered[x.m] = nb
					}
				}
			}
		}
		if recommit != nil && x.m.Sender == c.Deviator {
			if nb, ok := altered[x.m]; ok {
				out.Applied = true
				bz = nb
			}
			res := nw.DeliverRaw(x.to, bz, nw.Nodes[x.m.Sender].ID, x.m.Broadcast, x.m.Ref())
			push(res.NewMsg)
			continue
		}
		from := nw.Nodes[x.m.Sender].ID
		bc := x.m.Broadcast
		if x.m.Sender != c.Deviator && x.m.Type == c.Dev.MsgType {
			if _, ok := ctx.others[x.m.Type]; !ok {
				ctx.others[x.m.Type] = x.m.Bytes
			}
		}
		if x.m.Sender == c.Deviator && x.m.Type == c.Dev.MsgType {
			if !decided[x.m] {
				decided[x.m] = true
				if occ == c.Dev.Occ {
					switch {
					case strings.HasPrefix(c.Dev.Op, "from-index:"), c.Dev.Op == "flip-flag", c.Dev.Op == "duplicate":
						altered[x.m] = x.m.Bytes
					case c.Dev.Op == "neg-sum-others":
						// the deviator answers with minus the sum of what the others sent in the same field
						sum := big.NewInt(0)
						okAll := true
						for _, o := range nw.Nodes {
							if o.Idx == c.Deviator || o.Role != nw.Nodes[c.Deviator].Role {
								continue
							}
							found := false
							for _, em := range o.Emitted {
								if em.Type == x.m.Type {
									if v, err := getBytesField(em.Bytes, c.Dev.Field); err == nil {
										sum.Add(sum, new(big.Int).SetBytes(v))
										found = true
									}
									break
								}
							}
							if !found {
								okAll = false
							}
						}
						if okAll {
							v := new(big.Int).Mod(new(big.Int).Neg(sum), ctx.q)
							b := v.Bytes()
							if len(b) == 0 {
								b = []byte{0}
							}
							if nb, err := setBytesField(x.m.Bytes, c.Dev.Field, b, nil); err == nil {
								altered[x.m] = nb
							}
						}
					case strings.HasPrefix(c.Dev.Op, "mirror:"):
						var src int
						fmt.Sscanf(c.Dev.Op, "mirror:%d", &src)
						for _, em := range nw.Nodes[src].Emitted {
							if em.Type == x.m.Type {
								altered[x.m] = em.Bytes
								break
							}
						}
					default:
						nb, err := mutate(x.m.Bytes, c.Dev, ctx)
						if err == nil {
							altered[x.m] = nb
						}
					}
				}
				occ++
			}
			if nb, ok := altered[x.m]; ok {
				out.Applied = true
				if bytes.Equal(nb, x.m.Bytes) && !strings.HasPrefix(c.Dev.Op, "from-index:") && c.Dev.Op != "flip-flag" && c.Dev.Op != "duplicate" {
					out.Equivalent = true
				}
				bz = nb
				if strings.HasPrefix(c.Dev.Op, "from-index:") {
					var k int
					fmt.Sscanf(c.Dev.Op, "from-index:%d", &k)
					fid := *from
					fid.Index = k
					from = &fid
				}
				if c.Dev.Op == "flip-flag" {
					bc = !bc
				}
			}
		}
		res := nw.DeliverRaw(x.to, bz, from, bc, x.m.Ref())
		push(res.NewMsg)
		if c.Dev.Op == "duplicate" && altered[x.m] != nil {
			res2 := nw.DeliverRaw(x.to, bz, from, bc, x.m.Ref())
			push(res2.NewMsg)
		}
	}
	// observations
	for _, n := range nw.Nodes {
		out.Ends = append(out.Ends, len(n.Ends))
		for k, p := range n.Panics {
			out.Panics = append(out.Panics, fmt.Sprintf("node %d: %s", n.Idx, p))
			if k < len(n.PanicSites) {
				out.PanicSites = append(out.PanicSites, n.PanicSites[k])
			}
		}
		for _, e := range n.Errs {
			er := ErrRec{Node: n.Idx, Round: e.Round(), Text: trunc(e.Error(), 200)}
			for _, cu := range e.Culprits() {
				er.Culprits = append(er.Culprits, nodeIndexOf(nw, cu, n.Idx))
			}
			out.Errs = append(out.Errs, er)
		}
		if n.Role == "old" {
			var xi *big.Int
			if n.EcKey != nil {
				xi = n.EcKey.Xi
			} else if n.EdKey != nil {
				xi = n.EdKey.Xi
			}
			if xi == nil || xi.Sign() == 0 {
				out.Erased = append(out.Erased, n.Idx)
			}
		}
	}
	out.BadOutput = checkOutputs(sc, nw, c.Deviator)
	out.Millis = time.Since(t0).Milliseconds()
	return
}

func trunc(s string, n int) string {
	if len(s) > n {
		return s[:n]
	}
	return s
}

// checkOutputs: clause (a) of C05 on the honest parties' outputs.
func checkOutputs(sc protomc.Scenario, nw *netrun.Network, deviator int) []string {
	var bad []string
	cfg := sc.Cfg
	switch cfg.Proto {
	case netrun.EcdsaSigning, netrun.EddsaSigning:
		for _, n := range nw.Nodes {
			if n.Idx == deviator || len(n.Ends) == 0 {
				continue
			}
			sd := n.Ends[0].(*common.SignatureData)
			var ps []oracle.Problem
			if cfg.Proto == netrun.EcdsaSigning {
				ps = oracle.CheckEcdsaSig(sd, cfg.EcKeys[0].ECDSAPub, cfg.Msg, cfg.FullBytesLen)
			} else {
				ps = oracle.CheckEddsaSig(sd, cfg.EdKeys[0].EDDSAPub, cfg.Msg, cfg.FullBytesLen)
			}
			for _, p := range ps {
				if strings.Contains(p.Key, "verify-fails") {
					bad = append(bad, fmt.Sprintf("node %d: %s", n.Idx, p.Key))
				}
			}
		}
	case netrun.EcdsaKeygen, netrun.EddsaKeygen, netrun.EcdsaResharing, netrun.EddsaResharing:
		var views []string
		c := ref.Secp256k1
		if strings.HasPrefix(string(cfg.Proto), "eddsa") {
			c = ref.Ed25519
		}
		for _, n := range nw.Nodes {
			if n.Idx == deviator || len(n.Ends) == 0 || n.Role == "old" {
				continue
			}
			var sh oracle.Sharing
			switch v := n.Ends[0].(type) {
			case *eckg.LocalPartySaveData:
				sh = oracle.EcSharing(v)
			case *edkg.LocalPartySaveData:
				sh = oracle.EdSharing(v)
			}
			if sh.Xi == nil || sh.Pub == nil {
				bad = append(bad, fmt.Sprintf("node %d: incomplete key data", n.Idx))
				continue
			}
			// own index
			own := -1
			for j, k := range sh.Ks {
				if k != nil && sh.ShareID != nil && k.Cmp(sh.ShareID) == 0 {
					own = j
				}
			}
			if own < 0 || sh.BigXj[own] == nil || !c.Equal(c.BaseMul(new(big.Int).Mod(sh.Xi, c.N)), ref.Point{X: sh.BigXj[own].X(), Y: sh.BigXj[own].Y()}) {
				bad = append(bad, fmt.Sprintf("node %d: share inconsistent with its public share point", n.Idx))
			}
			var sb strings.Builder
			fmt.Fprintf(&sb, "%x/%x", sh.Pub.X(), sh.Pub.Y())
			for _, b := range sh.BigXj {
				if b != nil {
					fmt.Fprintf(&sb, "|%x", b.X())
				}
			}
			views = append(views, sb.String())
			if cfg.Proto == netrun.EcdsaResharing && !c.Equal(ref.Point{X: sh.Pub.X(), Y: sh.Pub.Y()}, ref.Point{X: cfg.EcKeys[0].ECDSAPub.X(), Y: cfg.EcKeys[0].ECDSAPub.Y()}) {
				bad = append(bad, fmt.Sprintf("node %d: resharing changed the group key", n.Idx))
			}
			if cfg.Proto == netrun.EddsaResharing && !c.Equal(ref.Point{X: sh.Pub.X(), Y: sh.Pub.Y()}, ref.Point{X: cfg.EdKeys[0].EDDSAPub.X(), Y: cfg.EdKeys[0].EDDSAPub.Y()}) {
				bad = append(bad, fmt.Sprintf("node %d: resharing changed the group key", n.Idx))
			}
		}
		for _, v := range views {
			if v != views[0] {
				bad = append(bad, "honest parties hold different public views")
				break
			}
		}
	}
	return bad
}

// applyConfigDeviation: the deviating party is configured with a wrong secret or with parameters
// copied from another party (node indices: old committee first, each committee sorted by id).
func applyConfigDeviation(cfg *netrun.Config, deviator int, op string) {
	sortedIdx := func(ids []*big.Int) []int { // position in sorted order -> index in the slice
		idx := make([]int, len(ids))
		for i := range idx {
			idx[i] = i
		}
		sort.Slice(idx, func(a, b int) bool { return ids[idx[a]].Cmp(ids[idx[b]]) < 0 })
		return idx
	}
	switch {
	case op == "wrong-secret":
		if cfg.EcKeys != nil {
			var ids []*big.Int
			for i := range cfg.EcKeys {
				ids = append(ids, cfg.EcKeys[i].ShareID)
			}
			if deviator < len(ids) {
				k := sortedIdx(ids)[deviator]
				cp := append([]eckg.LocalPartySaveData{}, cfg.EcKeys...)
				cp[k].Xi = new(big.Int).Add(cp[k].Xi, big.NewInt(1))
				cfg.EcKeys = cp
			}
		}
		if cfg.EdKeys != nil {
			var ids []*big.Int
			for i := range cfg.EdKeys {
				ids = append(ids, cfg.EdKeys[i].ShareID)
			}
			if deviator < len(ids) {
				k := sortedIdx(ids)[deviator]
				cp := append([]edkg.LocalPartySaveData{}, cfg.EdKeys...)
				cp[k].Xi = new(big.Int).Add(cp[k].Xi, big.NewInt(1))
				cfg.EdKeys = cp
			}
		}
	case op == "weak-paillier" || op == "weak-ring-pedersen":
		base := 0
		if cfg.Proto == netrun.EcdsaResharing {
			base = len(cfg.EcKeys)
		}
		d := deviator - base
		if d >= 0 && d < len(cfg.PreParams) {
			cp := append([]eckg.LocalPreParams{}, cfg.PreParams...)
			w := weakParams()
			if op == "weak-paillier" {
				cp[d].PaillierSK = w.PaillierSK
			} else {
				cp[d].NTildei, cp[d].H1i, cp[d].H2i, cp[d].Alpha, cp[d].Beta, cp[d].P, cp[d].Q = w.NTildei, w.H1i, w.H2i, w.Alpha, w.Beta, w.P, w.Q
			}
			cfg.PreParams = cp
		}
	case strings.HasPrefix(op, "dup-params:"):
		var other int
		fmt.Sscanf(op, "dup-params:%d", &other)
		base := 0
		if cfg.Proto == netrun.EcdsaResharing {
			base = len(cfg.EcKeys) // new-committee nodes come after the old ones
		}
		d, o := deviator-base, other-base
		if d >= 0 && o >= 0 && d < len(cfg.PreParams) && o < len(cfg.PreParams) {
			cp := append([]eckg.LocalPreParams{}, cfg.PreParams...)
			cp[d] = cp[o]
			cfg.PreParams = cp
		}
	}
}

var (
	weakOnce sync.Once
	weakPP   eckg.LocalPreParams
)

// weakParams: well-formed but under-sized (1024-bit instead of 2048-bit) Paillier and ring-Pedersen
// parameters, built deterministically: Paillier primes = 3 mod 4 (so that the modulus proof can be given),
// NTilde a product of two 512-bit safe primes, h1 a square, h2 = h1^alpha.
func weakParams() eckg.LocalPreParams {
	weakOnce.Do(func() {
		one, two := big.NewInt(1), big.NewInt(2)
		next := func(label string, safe bool) *big.Int {
			c := new(big.Int).SetBytes(core.Bytes(label, 64))
			c.SetBit(c, 511, 1).SetBit(c, 510, 1).SetBit(c, 0, 1).SetBit(c, 1, 1) // 512 bits, = 3 mod 4
			for ; ; c.Add(c, big.NewInt(4)) {
				if !c.ProbablyPrime(12) {
					continue
				}
				if safe {
					h := new(big.Int).Rsh(c, 1)
					if !h.ProbablyPrime(12) {
						continue
					}
				}
				return new(big.Int).Set(c)
			}
		}
		P, Q := next("weak-paillier-p", false), next("weak-paillier-q", false)
		N := new(big.Int).Mul(P, Q)
		pm, qm := new(big.Int).Sub(P, one), new(big.Int).Sub(Q, one)
		phi := new(big.Int).Mul(pm, qm)
		lam := new(big.Int).Div(phi, new(big.Int).GCD(nil, nil, pm, qm))
		weakPP.PaillierSK = &paillier.PrivateKey{PublicKey: paillier.PublicKey{N: N}, LambdaN: lam, PhiN: phi, P: P, Q: Q}
		sp, sq := next("weak-ntilde-p", true), next("weak-ntilde-q", true)
		p, q := new(big.Int).Rsh(sp, 1), new(big.Int).Rsh(sq, 1)
		nt := new(big.Int).Mul(sp, sq)
		f := new(big.Int).SetBytes(core.Bytes("weak-ntilde-f", 100))
		f.Mod(f, nt)
		h1 := new(big.Int).Exp(f, two, nt)
		pq := new(big.Int).Mul(p, q)
		alpha := new(big.Int).SetBytes(core.Bytes("weak-ntilde-alpha", 100))
		alpha.Mod(alpha, pq)
		for new(big.Int).GCD(nil, nil, alpha, pq).Cmp(one) != 0 {
			alpha.Add(alpha, one)
		}
		beta := new(big.Int).ModInverse(alpha, pq)
		weakPP.NTildei, weakPP.H1i, weakPP.H2i = nt, h1, new(big.Int).Exp(h1, alpha, nt)
		weakPP.Alpha, weakPP.Beta, weakPP.P, weakPP.Q = alpha, beta, p, q
	})
	return weakPP
}

// WeakCases: parties that bring under-sized Paillier / ring-Pedersen parameters (ECDSA keygen parties and new
// resharing members).
func WeakCases(scName string, positions []int) []Case {
	var cases []Case
	for _, p := range positions {
		for _, op := range []string{"weak-paillier", "weak-ring-pedersen"} {
			cases = append(cases, Case{Scenario: scName, Deviator: p, Dev: Dev{MsgType: "<config>", Index: -1, Op: op}})
		}
	}
	return cases
}

// FirstRoundTypes: the message types the node emits from its Start() (they can reach a peer before that
// peer's own Start()).
func FirstRoundTypes(scName string, node int) map[string]bool {
	out := map[string]bool{}
	sc, ok := Scenario(scName)
	if !ok {
		return out
	}
	nw, err := netrun.New(sc.Cfg)
	if err != nil {
		return out
	}
	for _, m := range nw.Start(node).NewMsg {
		out[m.Type] = true
	}
	return out
}

// ConfigCases: wrong-secret and duplicated-parameter parties for a scenario.
func ConfigCases(scName string, positions []int, dupWith map[int]int) []Case {
	var cases []Case
	for _, p := range positions {
		if !strings.Contains(scName, "keygen") {
			cases = append(cases, Case{Scenario: scName, Deviator: p, Dev: Dev{MsgType: "<config>", Index: -1, Op: "wrong-secret"}})
		}
	}
	for d, o := range dupWith {
		cases = append(cases, Case{Scenario: scName, Deviator: d, Dev: Dev{MsgType: "<config>", Index: -1, Op: fmt.Sprintf("dup-params:%d", o)}})
	}
	return cases
}

// ---- worker protocol ----

// WorkerMain: `worker fault <cases.json> <first> <last>` executes cases [first,last] in order and prints one
// JSON outcome per line.
func WorkerMain(args []string) int {
	if len(args) < 3 {
		return 2
	}
	bz, err := os.ReadFile(args[0])
	if err != nil {
		fmt.Fprintln(os.Stderr, err)
		return 2
	}
	var cases []Case
	if err := json.Unmarshal(bz, &cases); err != nil {
		fmt.Fprintln(os.Stderr, err)
		return 2
	}
	var first, last int
	fmt.Sscan(args[1], &first)
	fmt.Sscan(args[2], &last)
	w := bufio.NewWriter(os.Stdout)
	for i := first; i <= last && i < len(cases); i++ {
		fmt.Fprintf(os.Stderr, "CASE-BEGIN %d\n", cases[i].ID)
		o := Execute(cases[i])
		b, _ := json.Marshal(o)
		w.Write(b)
		w.WriteByte('\n')
		w.Flush()
	}
	return 0
}

var siteRe = regexp.MustCompile(`tss-lib/v2/([A-Za-z0-9_/]+)\.(\(?\*?[A-Za-z0-9_]+\)?\.)?([A-Za-z0-9_]+)(\.func[0-9.]+)?\(`)

// crashSite extracts "package.Func" of the first tss-lib frame after the panic line.
func crashSite(stderr string) (kind, site, text string) {
	kind = "died"
	lines := strings.Split(stderr, "\n")
	start := -1
	for i, l := range lines {
		if strings.HasPrefix(l, "panic:") || strings.HasPrefix(l, "fatal error:") {
			start = i
			text = trunc(l, 200)
			kind = "panic"
			if strings.Contains(l, "out of memory") || strings.Contains(l, "cannot allocate") {
				kind = "oom"
			}
			break
		}
	}
	if start < 0 {
		return
	}
	for _, l := range lines[start:] {
		if strings.Contains(l, "tss-lib/v2/") && !strings.Contains(l, "/repo/") {
			if m := siteRe.FindStringSubmatch(l); m != nil {
				recv := strings.Trim(m[2], "().*")
				recv = strings.TrimSuffix(recv, ".")
				site = m[1]
				if recv != "" {
					site += "." + strings.Trim(recv, "*()")
				}
				site += "." + m[3]
				return
			}
		}
	}
	return
}

// Run executes all cases in worker subprocesses (parallel over disjoint ranges) and returns the outcomes
// indexed by case id. hang = per-case wall limit.
func Run(cases []Case, workers int, perCase time.Duration, onDone func(o Outcome)) []Outcome {
	dir := filepath.Join(core.WorkDir(), fmt.Sprintf("fault-%d", os.Getpid()))
	_ = os.MkdirAll(dir, 0o755)
	defer os.RemoveAll(dir)
	cf := filepath.Join(dir, "cases.json")
	bz, _ := json.Marshal(cases)
	_ = os.WriteFile(cf, bz, 0o644)
	bin := os.Getenv("VERIF_BIN")
	if bin == "" {
		bin, _ = os.Executable()
	}
	outs := make([]Outcome, len(cases))
	for i := range outs {
		outs[i].ID = -1
	}
	chunk := 12
	type rng struct{ a, b int }
	var ranges []rng
	for a := 0; a < len(cases); a += chunk {
		b := a + chunk - 1
		if b >= len(cases) {
			b = len(cases) - 1
		}
		ranges = append(ranges, rng{a, b})
	}
	var mu sync.Mutex
	core.ParallelFor(len(ranges), workers, func(ri int) {
		a, b := ranges[ri].a, ranges[ri].b
		for a <= b {
			cmd := exec.Command("bash", "-c", fmt.Sprintf("ulimit -v 6291456; exec %q worker fault %q %d %d", bin, cf, a, b))
			cmd.Env = append(os.Environ(), "GOMAXPROCS=4")
			var stderr bytes.Buffer
			cmd.Stderr = &stderr
			stdout, _ := cmd.StdoutPipe()
			if err := cmd.Start(); err != nil {
				return
			}
			next := a
			lineCh := make(chan []byte)
			go func() {
				sc := bufio.NewScanner(stdout)
				sc.Buffer(make([]byte, 1<<20), 1<<24)
				for sc.Scan() {
					lineCh <- append([]byte{}, sc.Bytes()...)
				}
				close(lineCh)
			}()
			hung := false
		loop:
			for {
				select {
				case l, ok := <-lineCh:
					if !ok {
						break loop
					}
					var o Outcome
					if json.Unmarshal(l, &o) == nil && next <= b {
						mu.Lock()
						outs[next] = o
						mu.Unlock()
						if onDone != nil {
							onDone(o)
						}
						next++
					}
				case <-time.After(perCase):
					hung = true
					_ = cmd.Process.Kill()
					break loop
				}
			}
			_ = cmd.Wait()
			if next > b {
				break
			}
			// the worker died (or hung) while executing case `next`
			o := Outcome{ID: cases[next].ID, Applied: true}
			if hung {
				o.Crash = "hang"
			} else {
				o.Crash, o.CrashSite, o.CrashText = crashSite(stderr.String())
				if o.Crash == "died" {
					o.CrashText = trunc(lastLines(stderr.String(), 3), 300)
				}
			}
			mu.Lock()
			outs[next] = o
			mu.Unlock()
			if onDone != nil {
				onDone(o)
			}
			a = next + 1
		}
	})
	return outs
}

func lastLines(s string, n int) string {
	ls := strings.Split(strings.TrimSpace(s), "\n")
	if len(ls) > n {
		ls = ls[len(ls)-n:]
	}
	return strings.Join(ls, " | ")
}

// EnumerateFieldCases lists, from one honest run of the scenario, every (message type, occurrence,
// slot, value class) deviation of the deviator.
func EnumerateFieldCases(scName string, deviator int, classes []string, allIdx bool, p2pAllAddressees bool) ([]Case, map[string][]Slot, error) {
	sc, ok := Scenario(scName)
	if !ok {
		return nil, nil, fmt.Errorf("unknown scenario")
	}
	nw, err := netrun.New(sc.Cfg)
	if err != nil {
		return nil, nil, err
	}
	_, e, pan := nw.RunFIFO()
	if e != nil || len(pan) > 0 {
		return nil, nil, fmt.Errorf("honest run failed: %v %v", e, pan)
	}
	var cases []Case
	slotsByType := map[string][]Slot{}
	occOf := map[string]int{}
	for _, m := range nw.Nodes[deviator].Emitted {
		occ := occOf[m.Type]
		occOf[m.Type]++
		if occ > 0 && !p2pAllAddressees {
			continue
		}
		slots, err := Slots(m.Bytes, allIdx)
		if err != nil {
			return nil, nil, err
		}
		slotsByType[m.Type] = slots
		for _, s := range slots {
			if s.List {
				for _, op := range []string{"drop-last", "append-one", "single", "empty-list"} {
					cases = append(cases, Case{Scenario: scName, Deviator: deviator, Dev: Dev{MsgType: m.Type, Occ: occ, Field: s.Field, Index: -1, Op: op}})
				}
				continue
			}
			for _, cl := range append(append([]string{}, classes...), "removed") {
				cases = append(cases, Case{Scenario: scName, Deviator: deviator, Dev: Dev{MsgType: m.Type, Occ: occ, Field: s.Field, Index: s.Index, Op: cl}})
			}
		}
		// whole-message operations
		wops := []string{"truncate-half", "empty-wire", "garbage", "flip-flag", "duplicate", "from-index:2147483647"}
		// every forged sender index from -1 to a little beyond the number of parties (the true one excepted)
		for k := -1; k <= len(nw.Nodes)+2; k++ {
			if k != nw.Nodes[deviator].ID.Index {
				wops = append(wops, fmt.Sprintf("from-index:%d", k))
			}
		}
		for _, op := range wops {
			cases = append(cases, Case{Scenario: scName, Deviator: deviator, Dev: Dev{MsgType: m.Type, Occ: occ, Index: -1, Op: op}})
		}
		for _, other := range nw.Nodes {
			if other.Idx != deviator && other.Role == nw.Nodes[deviator].Role {
				cases = append(cases, Case{Scenario: scName, Deviator: deviator, Dev: Dev{MsgType: m.Type, Occ: occ, Index: -1, Op: fmt.Sprintf("mirror:%d", other.Idx)}})
				break
			}
		}
	}
	return cases, slotsByType, nil
}

// EnumerateCraftedCases: commit-to-an-altered-opening for every commitment pair of the protocol and
// "responses summing to zero" for the additive broadcast scalars.
func EnumerateCraftedCases(scName string, deviator int) []Case {
	var cases []Case
	for _, cp := range CommitPairs {
		if !strings.HasPrefix(scName, cp.Proto) {
			continue
		}
		for _, idx := range []int{1, 2, 1000000} {
			for _, cl := range RecommitClasses {
				if (cl == "drop-last" || cl == "append-one" || cl == "keep-two" || cl == "keep-one") && idx != 1 {
					continue
				}
				cases = append(cases, Case{Scenario: scName, Deviator: deviator, Dev: Dev{MsgType: cp.RevealType, Field: cp.RevealField, Index: idx, Op: "recommit:" + cl}})
			}
		}
	}
	for _, cp := range CommitPairs {
		if strings.HasPrefix(scName, cp.Proto) && (strings.Contains(cp.Proto, "keygen") || strings.Contains(cp.Proto, "resharing")) {
			cases = append(cases, Case{Scenario: scName, Deviator: deviator, Dev: Dev{MsgType: cp.RevealType, Field: cp.RevealField, Index: 1, Op: "recommit:raise-degree"}})
		}
	}
	if strings.HasPrefix(scName, "eddsa") {
		// committed points with a small-order component (first and last committed point)
		for _, cp := range CommitPairs {
			if !strings.HasPrefix(scName, cp.Proto) {
				continue
			}
			for _, idx := range []int{1, 1000000} {
				for _, ord := range []int{2, 4, 8} {
					cases = append(cases, Case{Scenario: scName, Deviator: deviator, Dev: Dev{MsgType: cp.RevealType, Field: cp.RevealField, Index: idx, Op: fmt.Sprintf("recommit:add-small-order-point-%d", ord)}})
				}
			}
		}
	}
	switch {
	case strings.HasPrefix(scName, "ecdsa-signing"):
		cases = append(cases, Case{Scenario: scName, Deviator: deviator, Dev: Dev{MsgType: "SignRound3Message", Field: "theta", Index: -1, Op: "neg-sum-others"}})
		cases = append(cases, Case{Scenario: scName, Deviator: deviator, Dev: Dev{MsgType: "SignRound9Message", Field: "s", Index: -1, Op: "neg-sum-others"}})
	case strings.HasPrefix(scName, "eddsa-signing"):
		cases = append(cases, Case{Scenario: scName, Deviator: deviator, Dev: Dev{MsgType: "SignRound3Message", Field: "s", Index: -1, Op: "neg-sum-others"}})
	}
	return cases
}

func SortedKeys(m map[string]int) []string {
	var ks []string
	for k := range m {
		ks = append(ks, k)
	}
	sort.Strings(ks)
	return ks
}

func min(a, b int) int {
	if a < b {
		return a
	}
	return b
}
