// Package scen: the protocol configurations (scenarios) shared by the NETMC-based checks.
package scen

import (
	"github.com/bnb-chain/tss-lib/v2/common"
	"encoding/json"
	"fmt"
	"math/big"
	"os"
	"path/filepath"
	"strings"
	"sync"

	"github.com/bnb-chain/tss-lib/v2/tss"

	eckg "github.com/bnb-chain/tss-lib/v2/ecdsa/keygen"
	edkg "github.com/bnb-chain/tss-lib/v2/eddsa/keygen"

	"verif/internal/core"
	"verif/internal/fix"
	"verif/internal/netrun"
	"verif/internal/protomc"
	"verif/internal/ref"
)

// KeySet returns n party keys of a named pattern.
func KeySet(pattern string, n int, c *ref.Curve) []*big.Int {
	ks := make([]*big.Int, n)
	for i := range ks {
		switch pattern {
		case "small":
			ks[i] = big.NewInt(int64(i + 1))
		case "near-q":
			ks[i] = new(big.Int).Sub(c.N, big.NewInt(int64(i+1)))
		case "large":
			b := core.Bytes(fmt.Sprintf("keyset-large-%d", i), 32)
			b[0] |= 0x80
			ks[i] = new(big.Int).SetBytes(b) // >= 2^255, i.e. above both group orders
		case "above-q": // ids at or above the group order (legal: only their residues must be non-zero and distinct): q+3, 2q+11, q+19, ...
			ks[i] = new(big.Int).Add(new(big.Int).Mul(c.N, big.NewInt(int64(1+i%2))), big.NewInt(int64(3+8*i)))
		case "multiples":
			ks[i] = big.NewInt(int64(6 * (i + 1)))
		case "byte-boundary": // ids whose minimal byte encodings have different lengths: 254, 255, 256, 257, 65535, 65536, ...
			v := []int64{254, 255, 256, 257, 65535, 65536, 16777215, 16777216}
			ks[i] = big.NewInt(v[i%len(v)] + int64(i/len(v))*1000003)
		default:
			panic("unknown key pattern " + pattern)
		}
	}
	return ks
}

var (
	edMu   sync.Mutex
	edKeys = map[string][]edkg.LocalPartySaveData{}
	ecMu   sync.Mutex
	ecKeys = map[string][]eckg.LocalPartySaveData{}
)

// EdKey generates (once per process) an EdDSA key through the real keygen protocol.
func EdKey(pattern string, n, t int, seed int64) []edkg.LocalPartySaveData {
	k := fmt.Sprintf("%s/%d/%d/%d", pattern, n, t, seed)
	edMu.Lock()
	defer edMu.Unlock()
	if v, ok := edKeys[k]; ok {
		return v
	}
	v, err := fix.GenEd(KeySet(pattern, n, ref.Ed25519), t, seed, "scen-"+k)
	if err != nil {
		panic(err)
	}
	edKeys[k] = v
	return v
}

// EdKeyShaped runs the real EdDSA keygen (small ids) under successive deterministic seeds until the group
// public key has the requested shape: "y-short" (y < 2^248: byte 31 of the key's encoding is 0x00/0x80),
// "x-short" (x < 2^248), "y-very-short" (y < 2^240). Expected number of keygens: 128 (65536 for very short,
// not used in quick tiers). Returns nil if none is found within max attempts.
func EdKeyShaped(shape string, n, t int, seed int64, max int) []edkg.LocalPartySaveData {
	k := fmt.Sprintf("shape-%s/%d/%d/%d", shape, n, t, seed)
	edMu.Lock()
	defer edMu.Unlock()
	if v, ok := edKeys[k]; ok {
		return v
	}
	for j := 0; j < max; j++ {
		v, err := fix.GenEd(KeySet("small", n, ref.Ed25519), t, seed, fmt.Sprintf("scen-%s-%d", k, j))
		if err != nil {
			panic(err)
		}
		pub := v[0].EDDSAPub
		ok := false
		switch shape {
		case "y-short":
			ok = pub.Y().BitLen() <= 248
		case "x-short":
			ok = pub.X().BitLen() <= 248
		case "y-very-short":
			ok = pub.Y().BitLen() <= 240
		}
		if ok {
			edKeys[k] = v
			return v
		}
	}
	return nil
}

func EcKey(pattern string, n, t int, seed int64) []eckg.LocalPartySaveData {
	k := fmt.Sprintf("%s/%d/%d/%d", pattern, n, t, seed)
	ecMu.Lock()
	if v, ok := ecKeys[k]; ok {
		ecMu.Unlock()
		return v
	}
	ecMu.Unlock()
	// worker subprocesses of one check run share the keys their parent generated (VERIF_KEYDIR is a
	// scratch directory of that run: keys always come from the code under test of this very run)
	cache := ""
	if d := os.Getenv("VERIF_KEYDIR"); d != "" {
		cache = filepath.Join(d, "ec-"+strings.ReplaceAll(k, "/", "_")+".json")
		if bz, err := os.ReadFile(cache); err == nil {
			var v []eckg.LocalPartySaveData
			if json.Unmarshal(bz, &v) == nil && len(v) == n {
				for i := range v {
					for _, x := range v[i].BigXj {
						x.SetCurve(tss.S256())
					}
					v[i].ECDSAPub.SetCurve(tss.S256())
				}
				ecMu.Lock()
				ecKeys[k] = v
				ecMu.Unlock()
				return v
			}
		}
	}
	v, err := fix.GenEc(KeySet(pattern, n, ref.Secp256k1), t, seed, "scen-"+k)
	if err != nil {
		panic(err)
	}
	if cache != "" {
		if bz, err := json.Marshal(v); err == nil {
			tmp := fmt.Sprintf("%s.%d", cache, os.Getpid())
			if os.WriteFile(tmp, bz, 0o644) == nil {
				_ = os.Rename(tmp, cache)
			}
		}
	}
	ecMu.Lock()
	ecKeys[k] = v
	ecMu.Unlock()
	return v
}

func EdKeygen(pattern string, n, t int, seed int64) protomc.Scenario {
	return protomc.Scenario{Name: fmt.Sprintf("eddsa-keygen/n=%d,t=%d,ids=%s", n, t, pattern),
		Cfg: netrun.Config{Proto: netrun.EddsaKeygen, Keys: KeySet(pattern, n, ref.Ed25519), Threshold: t, Seed: seed, Label: pattern}}
}

func EcKeygen(pattern string, n, t int, seed int64) protomc.Scenario {
	return protomc.Scenario{Name: fmt.Sprintf("ecdsa-keygen/n=%d,t=%d,ids=%s", n, t, pattern),
		Cfg: netrun.Config{Proto: netrun.EcdsaKeygen, Keys: KeySet(pattern, n, ref.Secp256k1), Threshold: t, Seed: seed, Label: pattern, PreParams: fix.PreParams()}}
}

// EcKeygenNoProofs: the same with the optional proofs switched off (SetNoProofMod / SetNoProofFac, for peers
// that run an older version): the result must be the same consistent key data.
func EcKeygenNoProofs(pattern string, n, t int, seed int64, noMod, noFac bool) protomc.Scenario {
	sc := EcKeygen(pattern, n, t, seed)
	sc.Name += fmt.Sprintf(",noProofMod=%v,noProofFac=%v", noMod, noFac)
	sc.Cfg.NoProofMod, sc.Cfg.NoProofFac = noMod, noFac
	return sc
}

// EdSigning: signers = indices into the generated key.
func EdSigning(pattern string, n, t int, signers []int, msg *big.Int, fullLen int, seed int64) protomc.Scenario {
	all := EdKey(pattern, n, t, seed)
	keys := make([]edkg.LocalPartySaveData, len(signers))
	for i, s := range signers {
		keys[i] = all[s]
	}
	return protomc.Scenario{Name: fmt.Sprintf("eddsa-signing/n=%d,t=%d,signers=%v", n, t, signers),
		Cfg: netrun.Config{Proto: netrun.EddsaSigning, EdKeys: keys, Threshold: t, Msg: msg, FullBytesLen: fullLen, Seed: seed, Label: fmt.Sprint(signers)}}
}

func EcSigning(pattern string, n, t int, signers []int, msg *big.Int, fullLen int, seed int64) protomc.Scenario {
	all := EcKey(pattern, n, t, seed)
	keys := make([]eckg.LocalPartySaveData, len(signers))
	for i, s := range signers {
		keys[i] = all[s]
	}
	return protomc.Scenario{Name: fmt.Sprintf("ecdsa-signing/n=%d,t=%d,signers=%v", n, t, signers),
		Cfg: netrun.Config{Proto: netrun.EcdsaSigning, EcKeys: keys, Threshold: t, Msg: msg, FullBytesLen: fullLen, Seed: seed, Label: fmt.Sprint(signers)}}
}

// CopyEdKeys makes the key data independent of the cached originals (resharing erases Xi in place).
func CopyEdKeys(in []edkg.LocalPartySaveData) []edkg.LocalPartySaveData {
	out := make([]edkg.LocalPartySaveData, len(in))
	for i := range in {
		out[i] = in[i]
		out[i].Xi = new(big.Int).Set(in[i].Xi)
	}
	return out
}

func CopyEcKeys(in []eckg.LocalPartySaveData) []eckg.LocalPartySaveData {
	out := make([]eckg.LocalPartySaveData, len(in))
	for i := range in {
		out[i] = in[i]
		out[i].Xi = new(big.Int).Set(in[i].Xi)
	}
	return out
}

func newIDs(n int) []*big.Int {
	ks := make([]*big.Int, n)
	for i := range ks {
		ks[i] = big.NewInt(int64(101 + i))
	}
	return ks
}

// EdResharing: old committee = indices `old` of a generated (n,t) key; new committee (n2,t2) with fresh ids.
func EdResharing(n, t int, old []int, n2, t2 int, seed int64) protomc.Scenario {
	return EdResharingP("small", "", n, t, old, n2, t2, seed)
}

// newIDsP: ids of the new committee in a named pattern ("" = 101, 102, ...).
func newIDsP(pattern string, n int, c *ref.Curve) []*big.Int {
	if pattern == "" {
		return newIDs(n)
	}
	ks := KeySet(pattern, n, c)
	for i := range ks {
		ks[i] = new(big.Int).Add(ks[i], big.NewInt(100)) // keep clear of the old committee's values of the same pattern
	}
	return ks
}

func patName(oldPat, newPat string) string {
	if oldPat == "small" && newPat == "" {
		return ""
	}
	return fmt.Sprintf(",ids=%s->%s", oldPat, newPat)
}

// EdResharingP: the same with id patterns for the old key and the new committee.
func EdResharingP(oldPat, newPat string, n, t int, old []int, n2, t2 int, seed int64) protomc.Scenario {
	all := EdKey(oldPat, n, t, seed)
	sc := protomc.Scenario{Name: fmt.Sprintf("eddsa-resharing/old=(%d,%d)%v,new=(%d,%d)%s", n, t, old, n2, t2, patName(oldPat, newPat))}
	sc.Cfg = netrun.Config{Proto: netrun.EddsaResharing, Threshold: t, OldN: n, NewKeys: newIDsP(newPat, n2, ref.Ed25519), NewThreshold: t2, Seed: seed, Label: fmt.Sprint(old)}
	base := sc.Cfg
	_ = base
	keys := make([]edkg.LocalPartySaveData, len(old))
	for i, s := range old {
		keys[i] = all[s]
	}
	sc.Cfg.EdKeys = keys
	return sc
}

func EcResharing(n, t int, old []int, n2, t2 int, seed int64, noProofs bool) protomc.Scenario {
	return EcResharingP("small", "", n, t, old, n2, t2, seed, noProofs)
}

func EcResharingP(oldPat, newPat string, n, t int, old []int, n2, t2 int, seed int64, noProofs bool) protomc.Scenario {
	all := EcKey(oldPat, n, t, seed)
	sc := protomc.Scenario{Name: fmt.Sprintf("ecdsa-resharing/old=(%d,%d)%v,new=(%d,%d),proofs=%v%s", n, t, old, n2, t2, !noProofs, patName(oldPat, newPat))}
	keys := make([]eckg.LocalPartySaveData, len(old))
	for i, s := range old {
		keys[i] = all[s]
	}
	pp := fix.PreParams()
	sc.Cfg = netrun.Config{Proto: netrun.EcdsaResharing, EcKeys: keys, Threshold: t, OldN: n, NewKeys: newIDsP(newPat, n2, ref.Secp256k1), NewThreshold: t2, Seed: seed, Label: fmt.Sprint(old),
		PreParams: pp[len(pp)-n2:], NoProofMod: noProofs, NoProofFac: noProofs}
	return sc
}

// FaultScenarios: the configurations used by the FAULT checks (C05, C06); registered under stable
// names so that parent and worker processes build identical networks.
func FaultScenarios(seed int64) map[string]func() protomc.Scenario {
	msg := new(big.Int).SetBytes(core.Bytes("fault-msg", 32))
	msg.Mod(msg, ref.Secp256k1.N)
	return map[string]func() protomc.Scenario{
		"eddsa-keygen":    func() protomc.Scenario { return EdKeygen("small", 3, 1, seed) },
		// party ids chosen so that the session id of the keygen (a hash taken as a number) has a leading zero byte
		"eddsa-keygen-shortssid": func() protomc.Scenario { return EdKeygenShortSSID(3, 1, seed) },
		"eddsa-signing":   func() protomc.Scenario { return EdSigning("small", 3, 1, []int{0, 1, 2}, msg, 0, seed) },
		"eddsa-resharing": func() protomc.Scenario { return EdResharing(3, 1, []int{0, 2}, 2, 1, seed) },
		"ecdsa-signing":   func() protomc.Scenario { return EcSigning("small", 2, 1, []int{0, 1}, msg, 0, seed) },
		"ecdsa-signing-3": func() protomc.Scenario { return EcSigning("near-q", 3, 1, []int{0, 1, 2}, msg, 0, seed) },
		"ecdsa-keygen":    func() protomc.Scenario { return EcKeygen("small", 2, 1, seed) },
		"ecdsa-keygen-3":  func() protomc.Scenario { return EcKeygen("small", 3, 1, seed) },
		"ecdsa-resharing": func() protomc.Scenario { return EcResharing(2, 1, []int{0, 1}, 2, 1, seed, false) },
		"ecdsa-resharing-3new": func() protomc.Scenario { return EcResharing(2, 1, []int{0, 1}, 3, 1, seed, false) },
		// more old members taking part than the old threshold requires (t+2 of them)
		"ecdsa-resharing-3old": func() protomc.Scenario { return EcResharing(3, 1, []int{0, 1, 2}, 2, 1, seed, false) },
		"eddsa-resharing-3old": func() protomc.Scenario { return EdResharing(3, 1, []int{0, 1, 2}, 2, 1, seed) },
		// fewer old members taking part than the old key has holders (partyCount 3, two participants)
		"ecdsa-resharing-gap": func() protomc.Scenario { return EcResharing(3, 1, []int{0, 2}, 2, 1, seed, true) },
		"eddsa-resharing-gap": func() protomc.Scenario { return EdResharing(3, 1, []int{0, 2}, 2, 1, seed) },
		// the same configurations with Parameters.SetConcurrency(1) (legal: ">= 1"): one verification slot
		"ecdsa-keygen-conc1": func() protomc.Scenario {
			sc := EcKeygen("small", 2, 1, seed)
			sc.Name += ",concurrency=1"
			sc.Cfg.Concurrency = 1
			return sc
		},
		"ecdsa-resharing-conc1": func() protomc.Scenario {
			sc := EcResharing(2, 1, []int{0, 1}, 2, 1, seed, false)
			sc.Name += ",concurrency=1"
			sc.Cfg.Concurrency = 1
			return sc
		},
	}
}

// KeygenSSIDLen: byte length of the session id the keygen rounds derive for these party keys (the documented
// construction: curve parameters, sorted party keys, round number 1, nonce 0, hashed, taken as a number).
func KeygenSSIDLen(c *ref.Curve, keys []*big.Int) int {
	l := []*big.Int{c.P, c.N, c.Gx, c.Gy}
	l = append(l, keys...)
	l = append(l, big.NewInt(1), big.NewInt(0))
	return len(common.SHA512_256i(l...).Bytes())
}

// EdKeygenShortSSID: the first id set 1500+k, 1501+k, ... (ascending k) whose session id is shorter than 32 bytes.
func EdKeygenShortSSID(n, t int, seed int64) protomc.Scenario {
	for k := 0; k < 100000; k++ {
		ks := make([]*big.Int, n)
		for i := range ks {
			ks[i] = big.NewInt(int64(1500 + k + i))
		}
		if KeygenSSIDLen(ref.Ed25519, ks) < 32 {
			return protomc.Scenario{Name: fmt.Sprintf("eddsa-keygen/n=%d,t=%d,ids=%d..(short session id)", n, t, 1500+k),
				Cfg: netrun.Config{Proto: netrun.EddsaKeygen, Keys: ks, Threshold: t, Seed: seed, Label: "shortssid"}}
		}
	}
	panic("no id set with a short session id")
}
