package scen

import (
	"fmt"
	"math/big"

	"google.golang.org/protobuf/proto"
	"google.golang.org/protobuf/types/known/anypb"

	"github.com/bnb-chain/tss-lib/v2/common"
	eckg "github.com/bnb-chain/tss-lib/v2/ecdsa/keygen"
	edkg "github.com/bnb-chain/tss-lib/v2/eddsa/keygen"

	"verif/internal/netrun"
	"verif/internal/oracle"
	"verif/internal/protomc"
	"verif/internal/ref"
)

func sortedBig(in []*big.Int) []*big.Int {
	x := append([]*big.Int{}, in...)
	for i := range x {
		for j := i + 1; j < len(x); j++ {
			if x[j].Cmp(x[i]) < 0 {
				x[i], x[j] = x[j], x[i]
			}
		}
	}
	return x
}

func keys(ps []oracle.Problem) []string {
	var out []string
	for _, p := range ps {
		out = append(out, p.Key)
	}
	return out
}

// sumOfOpenedConstantTerms adds the first point of every party's opened VSS commitment (the
// de-commitment broadcast in round 2): D = [r, x0, y0, x1, y1, ...].
func sumOfOpenedConstantTerms(c *ref.Curve, tc protomc.TermCtx, typ string, field func(proto.Message) [][]byte) (ref.Point, error) {
	acc := c.Neutral()
	for p := range tc.Emitted {
		found := false
		for _, m := range tc.Emitted[p] {
			if m.Type != typ {
				continue
			}
			any := new(anypb.Any)
			if err := proto.Unmarshal(m.Bytes, any); err != nil {
				return acc, err
			}
			content, err := any.UnmarshalNew()
			if err != nil {
				return acc, err
			}
			d := field(content)
			if len(d) < 3 {
				return acc, fmt.Errorf("party %d: de-commitment too short", p)
			}
			pt := ref.Point{X: new(big.Int).SetBytes(d[1]), Y: new(big.Int).SetBytes(d[2])}
			if !c.OnCurve(pt.X, pt.Y) {
				return acc, fmt.Errorf("party %d: opened constant term off curve", p)
			}
			acc = c.Add(acc, pt)
			found = true
		}
		if !found {
			return acc, fmt.Errorf("party %d: no %s emitted", p, typ)
		}
	}
	return acc, nil
}

// ResultOracle returns the C01-C04 result oracle for a scenario.
func ResultOracle(sc protomc.Scenario) func(protomc.TermCtx) []string {
	cfg := sc.Cfg
	switch cfg.Proto {
	case netrun.EddsaKeygen:
		return func(tc protomc.TermCtx) []string {
			var parts []oracle.Sharing
			for _, e := range tc.Ends {
				parts = append(parts, oracle.EdSharing(e[0].(*edkg.LocalPartySaveData)))
			}
			out := keys(oracle.CheckSharing(ref.Ed25519, parts, sortedBig(cfg.Keys), cfg.Threshold, nil))
			sum, err := sumOfOpenedConstantTerms(ref.Ed25519, tc, "KGRound2Message2", func(m proto.Message) [][]byte { return m.(*edkg.KGRound2Message2).GetDeCommitment() })
			if err != nil {
				out = append(out, "keygen/opened-commitments-unreadable")
			} else if len(parts) > 0 && parts[0].Pub != nil && !ref.Ed25519.Equal(sum, ref.Point{X: parts[0].Pub.X(), Y: parts[0].Pub.Y()}) {
				out = append(out, "keygen/group-key-is-not-sum-of-contributions")
			}
			return out
		}
	case netrun.EcdsaKeygen:
		return func(tc protomc.TermCtx) []string {
			var parts []oracle.Sharing
			var saves []*eckg.LocalPartySaveData
			for _, e := range tc.Ends {
				s := e[0].(*eckg.LocalPartySaveData)
				saves = append(saves, s)
				parts = append(parts, oracle.EcSharing(s))
			}
			out := keys(oracle.CheckSharing(ref.Secp256k1, parts, sortedBig(cfg.Keys), cfg.Threshold, nil))
			out = append(out, keys(oracle.CheckEcAux(saves, cfg.PreParams))...)
			sum, err := sumOfOpenedConstantTerms(ref.Secp256k1, tc, "KGRound2Message2", func(m proto.Message) [][]byte { return m.(*eckg.KGRound2Message2).GetDeCommitment() })
			if err != nil {
				out = append(out, "keygen/opened-commitments-unreadable")
			} else if len(parts) > 0 && parts[0].Pub != nil && !ref.Secp256k1.Equal(sum, ref.Point{X: parts[0].Pub.X(), Y: parts[0].Pub.Y()}) {
				out = append(out, "keygen/group-key-is-not-sum-of-contributions")
			}
			return out
		}
	case netrun.EddsaSigning:
		return func(tc protomc.TermCtx) []string {
			var out []string
			var first *common.SignatureData
			for _, e := range tc.Ends {
				sd := e[0].(*common.SignatureData)
				if first == nil {
					first = sd
				} else if string(first.Signature) != string(sd.Signature) || string(first.M) != string(sd.M) {
					out = append(out, "sig/signers-disagree")
				}
				out = append(out, keys(oracle.CheckEddsaSig(sd, cfg.EdKeys[0].EDDSAPub, cfg.Msg, cfg.FullBytesLen))...)
			}
			return out
		}
	case netrun.EcdsaSigning:
		return func(tc protomc.TermCtx) []string {
			var out []string
			var first *common.SignatureData
			for _, e := range tc.Ends {
				sd := e[0].(*common.SignatureData)
				if first == nil {
					first = sd
				} else if string(first.Signature) != string(sd.Signature) || string(first.SignatureRecovery) != string(sd.SignatureRecovery) || string(first.M) != string(sd.M) {
					out = append(out, "sig/signers-disagree")
				}
				out = append(out, keys(oracle.CheckEcdsaSig(sd, cfg.EcKeys[0].ECDSAPub, cfg.Msg, cfg.FullBytesLen))...)
			}
			return out
		}
	case netrun.EddsaResharing:
		return func(tc protomc.TermCtx) []string {
			nOld := len(cfg.EdKeys)
			var parts []oracle.Sharing
			for _, e := range tc.Ends[nOld:] {
				parts = append(parts, oracle.EdSharing(e[0].(*edkg.LocalPartySaveData)))
			}
			want := ref.Point{X: cfg.EdKeys[0].EDDSAPub.X(), Y: cfg.EdKeys[0].EDDSAPub.Y()}
			return keys(oracle.CheckSharing(ref.Ed25519, parts, sortedBig(cfg.NewKeys), cfg.NewThreshold, &want))
		}
	case netrun.EcdsaResharing:
		return func(tc protomc.TermCtx) []string {
			nOld := len(cfg.EcKeys)
			var parts []oracle.Sharing
			var saves []*eckg.LocalPartySaveData
			for _, e := range tc.Ends[nOld:] {
				s := e[0].(*eckg.LocalPartySaveData)
				saves = append(saves, s)
				parts = append(parts, oracle.EcSharing(s))
			}
			want := ref.Point{X: cfg.EcKeys[0].ECDSAPub.X(), Y: cfg.EcKeys[0].ECDSAPub.Y()}
			out := keys(oracle.CheckSharing(ref.Secp256k1, parts, sortedBig(cfg.NewKeys), cfg.NewThreshold, &want))
			out = append(out, keys(oracle.CheckEcAux(saves, cfg.PreParams))...)
			return out
		}
	}
	return nil
}
