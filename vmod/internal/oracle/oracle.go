// Package oracle: result oracles for keygen / signing / resharing outputs, transcribed from the
// property statements C01-C04 and evaluated with the reference models of package ref.
package oracle

import (
	"bytes"
	"crypto/ed25519"
	"fmt"
	"math/big"

	"github.com/btcsuite/btcd/btcec/v2"
	btcecdsa "github.com/btcsuite/btcd/btcec/v2/ecdsa"

	"github.com/bnb-chain/tss-lib/v2/common"
	"github.com/bnb-chain/tss-lib/v2/crypto"
	"github.com/bnb-chain/tss-lib/v2/crypto/paillier"
	eckg "github.com/bnb-chain/tss-lib/v2/ecdsa/keygen"
	edkg "github.com/bnb-chain/tss-lib/v2/eddsa/keygen"

	"verif/internal/ref"
)

type Problem struct{ Key, What string }

type probs []Problem

func (p *probs) add(key, format string, a ...interface{}) {
	*p = append(*p, Problem{key, fmt.Sprintf(format, a...)})
}

func pt(p *crypto.ECPoint) ref.Point {
	if p == nil {
		return ref.Point{Inf: true}
	}
	return ref.Point{X: new(big.Int).Set(p.X()), Y: new(big.Int).Set(p.Y())}
}

func ptEq(c *ref.Curve, a *crypto.ECPoint, b ref.Point) bool {
	if a == nil {
		return false
	}
	return c.Equal(pt(a), b)
}

func bigEq(a, b *big.Int) bool { return a != nil && b != nil && a.Cmp(b) == 0 }

// Sharing is the protocol-independent view of one party's key data.
type Sharing struct {
	Xi, ShareID *big.Int
	Ks          []*big.Int
	BigXj       []*crypto.ECPoint
	Pub         *crypto.ECPoint
}

func subsets(n, k int) [][]int {
	var out [][]int
	var rec func(start int, cur []int)
	rec = func(start int, cur []int) {
		if len(cur) == k {
			out = append(out, append([]int{}, cur...))
			return
		}
		for i := start; i < n; i++ {
			rec(i+1, append(cur, i))
		}
	}
	rec(0, nil)
	return out
}

// Subsets exported for the checks.
func Subsets(n, k int) [][]int { return subsets(n, k) }

// CheckSharing: the C03 algebra. parts[i] is the data of the party with sorted index i.
// ids are the expected share ids in index order; wantPub (may be nil) the key the sharing must be of.
func CheckSharing(c *ref.Curve, parts []Sharing, ids []*big.Int, t int, wantPub *ref.Point) []Problem {
	var ps probs
	n := len(parts)
	if n == 0 {
		return nil
	}
	q := c.N
	for i, p := range parts {
		if p.Pub == nil || p.Xi == nil || p.ShareID == nil {
			ps.add("sharing/missing-field", "party %d: nil pub/xi/shareid", i)
			return ps
		}
		if len(p.Ks) != n || len(p.BigXj) != n {
			ps.add("sharing/array-length", "party %d: len(Ks)=%d len(BigXj)=%d want %d", i, len(p.Ks), len(p.BigXj), n)
			return ps
		}
		if !bigEq(p.ShareID, ids[i]) {
			ps.add("sharing/share-id", "party %d: ShareID %v want %v", i, p.ShareID, ids[i])
		}
		for j := range p.Ks {
			if !bigEq(p.Ks[j], ids[j]) {
				ps.add("sharing/ks-slot", "party %d: Ks[%d] is not party %d's id", i, j, j)
			}
			if p.BigXj[j] == nil || !bigEqPt(p.BigXj[j], parts[0].BigXj[j]) {
				ps.add("sharing/public-view-differs/BigXj", "party %d and party 0 disagree on BigXj[%d]", i, j)
			}
		}
		if !bigEqPt(p.Pub, parts[0].Pub) {
			ps.add("sharing/public-view-differs/pub", "party %d and party 0 disagree on the group key", i)
		}
		if !c.OnCurve(p.Pub.X(), p.Pub.Y()) {
			ps.add("sharing/pub-off-curve", "party %d group key not on curve", i)
		}
		// x_i * G == BigXj[i]
		xi := new(big.Int).Mod(p.Xi, q)
		if p.BigXj[i] == nil || !ptEq(c, p.BigXj[i], c.BaseMul(xi)) {
			ps.add("sharing/xi-G-differs-from-BigXi", "party %d: Xi*G != BigXj[%d]", i, i)
		}
	}
	if len(ps) > 0 {
		return ps
	}
	pub := pt(parts[0].Pub)
	if wantPub != nil && !c.Equal(pub, *wantPub) {
		ps.add("sharing/wrong-group-key", "group key differs from the expected key")
	}
	// degree <= t in the exponent, constant term = group key; and secrets interpolate to the key
	for _, S := range subsets(n, t+1) {
		xs := make([]*big.Int, len(S))
		for k, i := range S {
			xs[k] = new(big.Int).Mod(ids[i], q)
		}
		at := func(target *big.Int) (ref.Point, *big.Int) {
			l := ref.LagrangeAt(q, xs, target)
			acc := c.Neutral()
			x := big.NewInt(0)
			for k, i := range S {
				acc = c.Add(acc, c.Mul(l[k], pt(parts[0].BigXj[i])))
				x.Mod(x.Add(x, new(big.Int).Mul(l[k], parts[i].Xi)), q)
			}
			return acc, x
		}
		P0, x0 := at(big.NewInt(0))
		if !c.Equal(P0, pub) {
			ps.add("sharing/public-shares-do-not-interpolate-to-key", "subset %v: Lagrange combination of BigXj at 0 != group key", S)
		}
		if !c.Equal(c.BaseMul(x0), pub) {
			ps.add("sharing/secret-shares-do-not-interpolate-to-key", "subset %v: interpolated x, x*G != group key", S)
		}
		for j := 0; j < n; j++ {
			Pj, _ := at(new(big.Int).Mod(ids[j], q))
			if !c.Equal(Pj, pt(parts[0].BigXj[j])) {
				ps.add("sharing/degree-above-t", "subset %v: interpolation at id %d != BigXj[%d]", S, j, j)
			}
		}
	}
	return ps
}

func bigEqPt(a, b *crypto.ECPoint) bool {
	return a != nil && b != nil && a.X().Cmp(b.X()) == 0 && a.Y().Cmp(b.Y()) == 0
}

func EcSharing(s *eckg.LocalPartySaveData) Sharing {
	return Sharing{Xi: s.Xi, ShareID: s.ShareID, Ks: s.Ks, BigXj: s.BigXj, Pub: s.ECDSAPub}
}

func EdSharing(s *edkg.LocalPartySaveData) Sharing {
	return Sharing{Xi: s.Xi, ShareID: s.ShareID, Ks: s.Ks, BigXj: s.BigXj, Pub: s.EDDSAPub}
}

// CheckEcAux: the ECDSA-only part of C03. pre[i] are the pre-parameters party i was given.
func CheckEcAux(saves []*eckg.LocalPartySaveData, pre []eckg.LocalPreParams) []Problem {
	var ps probs
	n := len(saves)
	for i, s := range saves {
		if len(s.PaillierPKs) != n || len(s.NTildej) != n || len(s.H1j) != n || len(s.H2j) != n {
			ps.add("ecaux/array-length", "party %d: aux arrays have wrong length", i)
			return ps
		}
		for j := 0; j < n; j++ {
			if s.PaillierPKs[j] == nil || s.NTildej[j] == nil || s.H1j[j] == nil || s.H2j[j] == nil {
				ps.add("ecaux/nil-slot", "party %d: nil aux slot %d", i, j)
				continue
			}
			if !bigEq(s.PaillierPKs[j].N, pre[j].PaillierSK.N) {
				ps.add("ecaux/paillier-slot", "party %d: PaillierPKs[%d] is not party %d's modulus", i, j, j)
			}
			if !bigEq(s.NTildej[j], pre[j].NTildei) {
				ps.add("ecaux/ntilde-slot", "party %d: NTildej[%d] is not party %d's NTilde", i, j, j)
			}
			if !bigEq(s.H1j[j], pre[j].H1i) {
				ps.add("ecaux/h1-slot", "party %d: H1j[%d] is not party %d's h1", i, j, j)
			}
			if !bigEq(s.H2j[j], pre[j].H2i) {
				ps.add("ecaux/h2-slot", "party %d: H2j[%d] is not party %d's h2", i, j, j)
			}
		}
		ps = append(ps, CheckPaillierSK(s.PaillierSK, fmt.Sprintf("party %d", i))...)
		if s.PaillierSK != nil && s.PaillierPKs[i] != nil && !bigEq(s.PaillierSK.N, s.PaillierPKs[i].N) {
			ps.add("ecaux/own-paillier-sk-mismatch", "party %d: stored PaillierSK.N differs from the recorded modulus", i)
		}
		if !bigEq(s.NTildei, pre[i].NTildei) || !bigEq(s.H1i, pre[i].H1i) || !bigEq(s.H2i, pre[i].H2i) {
			ps.add("ecaux/own-ring-pedersen", "party %d: own NTilde/h1/h2 differ from its pre-parameters", i)
		}
	}
	return ps
}

func CheckPaillierSK(sk *paillier.PrivateKey, who string) []Problem {
	var ps probs
	if sk == nil || sk.N == nil || sk.P == nil || sk.Q == nil || sk.PhiN == nil || sk.LambdaN == nil {
		ps.add("paillier/sk-missing", "%s: Paillier private key incomplete", who)
		return ps
	}
	one := big.NewInt(1)
	if new(big.Int).Mul(sk.P, sk.Q).Cmp(sk.N) != 0 {
		ps.add("paillier/pq-not-n", "%s: P*Q != N", who)
	}
	pm, qm := new(big.Int).Sub(sk.P, one), new(big.Int).Sub(sk.Q, one)
	phi := new(big.Int).Mul(pm, qm)
	if phi.Cmp(sk.PhiN) != 0 {
		ps.add("paillier/phi", "%s: PhiN != (P-1)(Q-1)", who)
	}
	g := new(big.Int).GCD(nil, nil, pm, qm)
	lcm := new(big.Int).Div(phi, g)
	if lcm.Cmp(sk.LambdaN) != 0 {
		ps.add("paillier/lambda", "%s: LambdaN != lcm(P-1,Q-1)", who)
	}
	return ps
}

// ---- signatures ----

// CheckEcdsaSig: the C01 canonical-form and validity clauses for one SignatureData.
func CheckEcdsaSig(sd *common.SignatureData, pub *crypto.ECPoint, digest *big.Int, fullBytesLen int) []Problem {
	var ps probs
	c := ref.Secp256k1
	if sd == nil {
		ps.add("sig/nil", "nil signature data")
		return ps
	}
	if len(sd.R) != 32 || len(sd.S) != 32 {
		ps.add("sig/width", "len(R)=%d len(S)=%d, want 32/32", len(sd.R), len(sd.S))
	}
	if !bytes.Equal(sd.Signature, append(append([]byte{}, sd.R...), sd.S...)) {
		ps.add("sig/signature-not-r-s", "Signature != R||S")
	}
	r, s := new(big.Int).SetBytes(sd.R), new(big.Int).SetBytes(sd.S)
	half := new(big.Int).Rsh(c.N, 1)
	if s.Cmp(half) > 0 {
		ps.add("sig/high-s", "S above half the group order")
	}
	wantM := digest.Bytes()
	if fullBytesLen > 0 {
		wantM = digest.FillBytes(make([]byte, fullBytesLen))
	}
	if !bytes.Equal(sd.M, wantM) {
		ps.add("sig/echoed-message", "M=%x want %x", sd.M, wantM)
	}
	P := pt(pub)
	// standard verifiers interpret the hash bytes as a big-endian integer (32 bytes or fewer: no truncation)
	e := new(big.Int).SetBytes(sd.M)
	if !ref.EcdsaVerify(c, P, e, r, s) {
		ps.add("sig/ref-verify-fails", "reference ECDSA verification rejects (r,s)")
	}
	// independent library verifier (btcec), as a second opinion
	if bp, err := btcec.ParsePubKey(append([]byte{4}, append(pub.X().FillBytes(make([]byte, 32)), pub.Y().FillBytes(make([]byte, 32))...)...)); err == nil {
		var rr, ss btcec.ModNScalar
		rr.SetByteSlice(sd.R)
		ss.SetByteSlice(sd.S)
		hash := sd.M
		if len(hash) < 32 { // btcec takes the leftmost 32 bytes; left-pad so that the integer value is the digest
			hash = digest.FillBytes(make([]byte, 32))
		}
		if len(hash) == 32 && !btcecdsa.NewSignature(&rr, &ss).Verify(hash, bp) {
			ps.add("sig/btcec-verify-fails", "btcec rejects the signature")
		}
	}
	if len(sd.SignatureRecovery) != 1 {
		ps.add("sig/recovery-byte-length", "recovery byte missing")
	} else {
		rec, ok := ref.EcdsaRecover(c, e, r, s, int(sd.SignatureRecovery[0]))
		if !ok || !c.Equal(rec, P) {
			ps.add("sig/recovery-wrong-key", "public key recovered from (R,S,recid=%d) is not the group key", sd.SignatureRecovery[0])
		}
	}
	return ps
}

// CheckEddsaSig: the C02 clauses.
func CheckEddsaSig(sd *common.SignatureData, pub *crypto.ECPoint, msg *big.Int, fullBytesLen int) []Problem {
	var ps probs
	c := ref.Ed25519
	if sd == nil {
		ps.add("sig/nil", "nil signature data")
		return ps
	}
	if len(sd.Signature) != 64 {
		ps.add("sig/width", "len(Signature)=%d want 64", len(sd.Signature))
		return ps
	}
	wantM := msg.Bytes()
	if fullBytesLen > 0 {
		wantM = msg.FillBytes(make([]byte, fullBytesLen))
	}
	if !bytes.Equal(sd.M, wantM) {
		ps.add("sig/echoed-message", "M=%x want %x", sd.M, wantM)
	}
	enc := c.EncodeEd(pt(pub))
	if !ed25519.Verify(ed25519.PublicKey(enc[:]), sd.M, sd.Signature) {
		ps.add("sig/std-verify-fails", "crypto/ed25519 rejects the signature over the echoed message")
	}
	if !ref.Ed25519Verify(enc, sd.M, sd.Signature) {
		ps.add("sig/ref-verify-fails", "reference RFC 8032 verification rejects the signature")
	}
	return ps
}
