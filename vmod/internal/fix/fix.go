// Package fix: vendored fixtures (keys, pre-parameters) and key generation through the real protocol.
package fix

import (
	"encoding/json"
	"fmt"
	"math/big"
	"os"
	"path/filepath"
	"sync"

	eckg "github.com/bnb-chain/tss-lib/v2/ecdsa/keygen"
	edkg "github.com/bnb-chain/tss-lib/v2/eddsa/keygen"
	"github.com/bnb-chain/tss-lib/v2/tss"

	"verif/internal/netrun"
)

func RepoDir() string {
	if d := os.Getenv("VERIF_REPO"); d != "" {
		return d
	}
	return "/repo"
}

var (
	ecOnce sync.Once
	ecFix  []eckg.LocalPartySaveData
	edOnce sync.Once
	edFix  []edkg.LocalPartySaveData
)

// EcFixtures returns fresh deep copies (re-parsed) of the 5 vendored ECDSA key files.
func EcFixtures() []eckg.LocalPartySaveData {
	out := make([]eckg.LocalPartySaveData, 0, 5)
	for i := 0; i < 5; i++ {
		bz, err := os.ReadFile(filepath.Join(RepoDir(), "test/_ecdsa_fixtures", fmt.Sprintf("keygen_data_%d.json", i)))
		if err != nil {
			panic(err)
		}
		var k eckg.LocalPartySaveData
		if err := json.Unmarshal(bz, &k); err != nil {
			panic(err)
		}
		for _, x := range k.BigXj {
			x.SetCurve(tss.S256())
		}
		k.ECDSAPub.SetCurve(tss.S256())
		out = append(out, k)
	}
	return out
}

func EdFixtures() []edkg.LocalPartySaveData {
	out := make([]edkg.LocalPartySaveData, 0, 5)
	for i := 0; i < 5; i++ {
		bz, err := os.ReadFile(filepath.Join(RepoDir(), "test/_eddsa_fixtures", fmt.Sprintf("keygen_data_%d.json", i)))
		if err != nil {
			panic(err)
		}
		var k edkg.LocalPartySaveData
		if err := json.Unmarshal(bz, &k); err != nil {
			panic(err)
		}
		for _, x := range k.BigXj {
			x.SetCurve(tss.Edwards())
		}
		k.EDDSAPub.SetCurve(tss.Edwards())
		out = append(out, k)
	}
	return out
}

// PreParams returns the 5 vendored pre-parameter sets.
func PreParams() []eckg.LocalPreParams {
	ecOnce.Do(func() { ecFix = EcFixtures() })
	out := make([]eckg.LocalPreParams, len(ecFix))
	for i := range ecFix {
		out[i] = ecFix[i].LocalPreParams
	}
	return out
}

func SmallKeys(n int) []*big.Int {
	ks := make([]*big.Int, n)
	for i := range ks {
		ks[i] = big.NewInt(int64(i + 1))
	}
	return ks
}

// GenEd runs EdDSA keygen (FIFO) through the real parties and returns the save data in index order.
func GenEd(keys []*big.Int, t int, seed int64, label string) ([]edkg.LocalPartySaveData, error) {
	nw, err := netrun.New(netrun.Config{Proto: netrun.EddsaKeygen, Keys: keys, Threshold: t, Seed: seed, Label: label})
	if err != nil {
		return nil, err
	}
	_, e, p := nw.RunFIFO()
	if e != nil || len(p) > 0 {
		return nil, fmt.Errorf("keygen failed: %v %v", e, p)
	}
	out := make([]edkg.LocalPartySaveData, len(nw.Nodes))
	for i, n := range nw.Nodes {
		if len(n.Ends) != 1 {
			return nil, fmt.Errorf("node %d: %d end values", i, len(n.Ends))
		}
		out[i] = *(n.Ends[0].(*edkg.LocalPartySaveData))
	}
	return out, nil
}

func GenEc(keys []*big.Int, t int, seed int64, label string) ([]eckg.LocalPartySaveData, error) {
	nw, err := netrun.New(netrun.Config{Proto: netrun.EcdsaKeygen, Keys: keys, Threshold: t, Seed: seed, Label: label, PreParams: PreParams()})
	if err != nil {
		return nil, err
	}
	_, e, p := nw.RunFIFO()
	if e != nil || len(p) > 0 {
		return nil, fmt.Errorf("keygen failed: %v %v", e, p)
	}
	out := make([]eckg.LocalPartySaveData, len(nw.Nodes))
	for i, n := range nw.Nodes {
		if len(n.Ends) != 1 {
			return nil, fmt.Errorf("node %d: %d end values", i, len(n.Ends))
		}
		out[i] = *(n.Ends[0].(*eckg.LocalPartySaveData))
	}
	return out, nil
}
