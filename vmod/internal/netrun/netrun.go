// Package netrun: a sequential, fully controlled network of *real* tss parties.
// The transition function of every explorer in this tree is Network.Apply: it calls
// Party.Start / Party.UpdateFromBytes on the implementation and records what happened.
package netrun

import (
	"crypto/elliptic"
	"fmt"
	"io"
	"math/big"
	"regexp"
	"runtime/debug"
	"sort"
	"strings"

	"github.com/bnb-chain/tss-lib/v2/common"
	eckg "github.com/bnb-chain/tss-lib/v2/ecdsa/keygen"
	ecrs "github.com/bnb-chain/tss-lib/v2/ecdsa/resharing"
	ecsg "github.com/bnb-chain/tss-lib/v2/ecdsa/signing"
	edkg "github.com/bnb-chain/tss-lib/v2/eddsa/keygen"
	edrs "github.com/bnb-chain/tss-lib/v2/eddsa/resharing"
	edsg "github.com/bnb-chain/tss-lib/v2/eddsa/signing"
	"github.com/bnb-chain/tss-lib/v2/tss"

	"verif/internal/core"
	"verif/internal/statehash"
)

type Proto string

const (
	EcdsaKeygen    Proto = "ecdsa-keygen"
	EcdsaSigning   Proto = "ecdsa-signing"
	EcdsaResharing Proto = "ecdsa-resharing"
	EddsaKeygen    Proto = "eddsa-keygen"
	EddsaSigning   Proto = "eddsa-signing"
	EddsaResharing Proto = "eddsa-resharing"
)

func (p Proto) Curve() elliptic.Curve {
	if strings.HasPrefix(string(p), "eddsa") {
		return tss.Edwards()
	}
	return tss.S256()
}

// Config describes one protocol instance. Only the fields of the chosen protocol are used.
type Config struct {
	SharedIDObjects bool   // all parties share the PartyID / PeerContext objects (default: each party has its own, like separate processes)
	PartialKeyLabel string // with RealRand: install a deterministic partial-key reader derived from this label
	Concurrency     int    // tss.Parameters concurrency (0: 2)
	Proto           Proto
	Label           string // goes into the DRBG labels
	Seed            int64
	RealRand        bool // use crypto/rand (production entropy) instead of per-party DRBGs
	Threshold       int

	// keygen
	Keys      []*big.Int            // party keys (ids), any order
	PreParams []eckg.LocalPreParams // ecdsa keygen / resharing new committee

	// signing
	Msg          *big.Int
	FullBytesLen int                       // 0 = absent
	EcKeys       []eckg.LocalPartySaveData // one per signer (signing) or per old member (resharing)
	EdKeys       []edkg.LocalPartySaveData
	KDD          *big.Int // ecdsa signing key derivation delta
	IDOrder      []int    // optional permutation in which ids are handed to SortPartyIDs

	// resharing
	NewKeys      []*big.Int
	NewThreshold int
	OldN         int // party count recorded for the old committee (defaults to len(keys))
	NoProofMod   bool
	NoProofFac   bool

	// ShareKeys hands the caller's key data to the parties without the protective copy of Xi (as a
	// production caller would): needed to observe in-place modification of stored key material.
	ShareKeys bool

	// SeedOverride lets a harness choose the DRBG label of individual nodes (C01 nonce classes).
	SeedOverride map[int]string
}

type Msg struct {
	Sender     int    // node index
	Seq        int    // emission index at the sender
	Type       string // short proto name
	Bytes      []byte
	Broadcast  bool
	ToNil      bool  // the message's To list was nil (broadcast to all)
	To         []int // recipient node indices (self excluded)
	ToOld      bool
	ToBoth     bool
	Unresolved int // entries of the To list that match no party of the addressed committee
	RawToLen   int
	Raw        tss.Message `json:"-"`
}

func (m *Msg) Ref() string { return fmt.Sprintf("%d.%d", m.Sender, m.Seq) }

type Node struct {
	Idx     int
	Role    string // "", "old", "new"
	ID      *tss.PartyID
	Party   tss.Party
	Params  *tss.Parameters
	Rand    *core.DRBG
	out     chan tss.Message
	endKG   chan *eckg.LocalPartySaveData
	endEdKG chan *edkg.LocalPartySaveData
	endSig  chan *common.SignatureData

	Started    bool
	Emitted    []*Msg
	Ends       []interface{} // values received on the end channel
	Errs       []*tss.Error  // errors returned by calls on this node
	Panics     []string
	Calls      int
	EcKey      *eckg.LocalPartySaveData // the caller-held key data handed to the constructor (signing / resharing)
	EdKey      *edkg.LocalPartySaveData
	Delivered  []string // refs delivered (in order), with flag marks
	KeyHash0   string   // value hash of the caller-held key data before the party was constructed from it
	Poisoned   bool     // a call panicked: the party is not called any more
	PanicSites []string // first tss-lib frame below each recovered panic
}

var siteRe = regexp.MustCompile(`tss-lib/v2/([A-Za-z0-9_/]+)\.(\(?\*?[A-Za-z0-9_]+\)?\.)?([A-Za-z0-9_]+)(\.func[0-9.]+)?\(`)

// panicSite returns "pkg[.Recv].Func" of the innermost tss-lib frame of a panic stack.
func panicSite(stack string) string {
	lines := strings.Split(stack, "\n")
	seenPanic := false
	for _, l := range lines {
		if strings.HasPrefix(l, "panic(") {
			seenPanic = true
			continue
		}
		if !seenPanic {
			continue
		}
		if m := siteRe.FindStringSubmatch(l); m != nil {
			recv := strings.Trim(m[2], "().*")
			site := m[1]
			if recv != "" {
				site += "." + recv
			}
			return site + "." + m[3]
		}
	}
	return "unknown"
}

type Network struct {
	KeyHash0 []string // per entry of cfg.EcKeys / cfg.EdKeys (in that order)
	Cfg      Config
	Nodes    []*Node
	OldN     int // number of old-committee nodes (resharing), they come first
	Log      []string
}

func shortType(t string) string {
	if i := strings.LastIndex(t, "."); i >= 0 {
		return t[i+1:]
	}
	return t
}

func (c *Config) reader(idx int, role string) (*core.DRBG, io.Reader) {
	label := fmt.Sprintf("seed=%d|%s|%s|t=%d|node=%s%d", c.Seed, c.Proto, c.Label, c.Threshold, role, idx)
	if o, ok := c.SeedOverride[idx]; ok {
		label = o
	}
	d := core.NewDRBG(label)
	return d, d
}

func makeIDs(keys []*big.Int, order []int, prefix string) tss.SortedPartyIDs {
	ids := make(tss.UnSortedPartyIDs, len(keys))
	for i, k := range keys {
		m := fmt.Sprintf("%s%d", prefix, i)
		ids[i] = tss.NewPartyID(m, m, k)
	}
	if len(order) == len(ids) {
		p := make(tss.UnSortedPartyIDs, len(ids))
		for i, o := range order {
			p[i] = ids[o]
		}
		ids = p
	}
	return tss.SortPartyIDs(ids)
}

// New builds the parties (constructors only; nothing is started). A panic inside a constructor is
// returned as an error.
func New(cfg Config) (nw *Network, err error) {
	defer func() {
		if x := recover(); x != nil {
			nw, err = nil, fmt.Errorf("constructor panicked: %v", x)
		}
	}()
	return newNetwork(cfg)
}

func newNetwork(cfg Config) (*Network, error) {
	// the caller-held key data of this network is private to it: resharing erases Xi in place
	if cfg.EcKeys != nil && !cfg.ShareKeys {
		cp := make([]eckg.LocalPartySaveData, len(cfg.EcKeys))
		for i := range cfg.EcKeys {
			cp[i] = cfg.EcKeys[i]
			if cp[i].Xi != nil {
				cp[i].Xi = new(big.Int).Set(cfg.EcKeys[i].Xi)
			}
		}
		cfg.EcKeys = cp
	}
	if cfg.EdKeys != nil && !cfg.ShareKeys {
		cp := make([]edkg.LocalPartySaveData, len(cfg.EdKeys))
		for i := range cfg.EdKeys {
			cp[i] = cfg.EdKeys[i]
			if cp[i].Xi != nil {
				cp[i].Xi = new(big.Int).Set(cfg.EdKeys[i].Xi)
			}
		}
		cfg.EdKeys = cp
	}
	nw := &Network{Cfg: cfg}
	// value hashes of the caller-held key data BEFORE any party is constructed from it
	for i := range cfg.EcKeys {
		nw.KeyHash0 = append(nw.KeyHash0, statehash.ValueHash(&cfg.EcKeys[i]))
	}
	for i := range cfg.EdKeys {
		nw.KeyHash0 = append(nw.KeyHash0, statehash.ValueHash(&cfg.EdKeys[i]))
	}
	ec := cfg.Proto.Curve()
	// ... and its own curve object where the library builds one per call (tss.Edwards(); secp256k1 is a singleton)
	ownEC := func() elliptic.Curve {
		if !cfg.SharedIDObjects && tss.SameCurve(ec, tss.Edwards()) {
			return tss.Edwards()
		}
		return ec
	}
	// Every party holds its OWN objects, as separate processes do: its own PartyID object (same id, moniker,
	// key and index as its entry in the sorted list, but not the same pointer), its own peer contexts with
	// their own PartyID objects, and the `from` ids the transport hands over are yet other objects.
	own := func(id *tss.PartyID) *tss.PartyID {
		if cfg.SharedIDObjects {
			return id
		}
		c := tss.NewPartyID(id.Id, id.Moniker, new(big.Int).SetBytes(id.Key))
		c.Index = id.Index
		return c
	}
	ownCtx := func(ctx *tss.PeerContext) *tss.PeerContext {
		if cfg.SharedIDObjects {
			return ctx
		}
		ids := ctx.IDs()
		cp := make(tss.UnSortedPartyIDs, len(ids))
		for i, id := range ids {
			cp[i] = own(id)
		}
		return tss.NewPeerContext(tss.SortedPartyIDs(cp))
	}
	mk := func(idx int, role string, id *tss.PartyID) *Node {
		id = own(id)
		return &Node{Idx: idx, Role: role, ID: id, out: make(chan tss.Message, 4096)}
	}
	setRand := func(n *Node, p *tss.Parameters) {
		if !cfg.RealRand {
			d, rd := cfg.reader(n.Idx, n.Role)
			n.Rand = d
			p.SetRand(rd)
			p.SetPartialKeyRand(rd)
		}
		if cfg.RealRand && cfg.PartialKeyLabel != "" {
			// a seed-derived reader for the partial key (the hook meant to make keygen reproducible) next to
			// the default entropy source: the same stream in every session that uses the same label
			p.SetPartialKeyRand(core.NewDRBG(fmt.Sprintf("%s/%d/%s", cfg.PartialKeyLabel, n.Idx, n.Role)))
		}
		if cfg.Concurrency > 0 {
			p.SetConcurrency(cfg.Concurrency)
		} else {
			p.SetConcurrency(2)
		}
		n.Params = p
	}
	switch cfg.Proto {
	case EcdsaKeygen, EddsaKeygen:
		ids := makeIDs(cfg.Keys, cfg.IDOrder, "P")
		ctx := tss.NewPeerContext(ids)
		for i, id := range ids {
			n := mk(i, "", id)
			p := tss.NewParameters(ownEC(), ownCtx(ctx), own(id), len(ids), cfg.Threshold)
			setRand(n, p)
			if cfg.Proto == EcdsaKeygen {
				if cfg.NoProofMod {
					p.SetNoProofMod()
				}
				if cfg.NoProofFac {
					p.SetNoProofFac()
				}
				n.endKG = make(chan *eckg.LocalPartySaveData, 16)
				if i >= len(cfg.PreParams) {
					return nil, fmt.Errorf("not enough pre-params")
				}
				n.Party = eckg.NewLocalParty(p, n.out, n.endKG, cfg.PreParams[i])
			} else {
				n.endEdKG = make(chan *edkg.LocalPartySaveData, 16)
				n.Party = edkg.NewLocalParty(p, n.out, n.endEdKG)
			}
			nw.Nodes = append(nw.Nodes, n)
		}
	case EcdsaSigning:
		keys := make([]*big.Int, len(cfg.EcKeys))
		for i := range cfg.EcKeys {
			keys[i] = cfg.EcKeys[i].ShareID
		}
		ids := makeIDs(keys, cfg.IDOrder, "S")
		ctx := tss.NewPeerContext(ids)
		for i, id := range ids {
			n := mk(i, "", id)
			p := tss.NewParameters(ownEC(), ownCtx(ctx), own(id), len(ids), cfg.Threshold)
			setRand(n, p)
			n.endSig = make(chan *common.SignatureData, 16)
			var key *eckg.LocalPartySaveData
			for k := range cfg.EcKeys {
				if cfg.EcKeys[k].ShareID.Cmp(id.KeyInt()) == 0 {
					key = &cfg.EcKeys[k]
				}
			}
			n.EcKey = key
			var fl []int
			if cfg.FullBytesLen > 0 {
				fl = []int{cfg.FullBytesLen}
			}
			if cfg.KDD != nil {
				n.Party = ecsg.NewLocalPartyWithKDD(cfg.Msg, p, *key, cfg.KDD, n.out, n.endSig, fl...)
			} else {
				n.Party = ecsg.NewLocalParty(cfg.Msg, p, *key, n.out, n.endSig, fl...)
			}
			nw.Nodes = append(nw.Nodes, n)
		}
	case EddsaSigning:
		keys := make([]*big.Int, len(cfg.EdKeys))
		for i := range cfg.EdKeys {
			keys[i] = cfg.EdKeys[i].ShareID
		}
		ids := makeIDs(keys, cfg.IDOrder, "S")
		ctx := tss.NewPeerContext(ids)
		for i, id := range ids {
			n := mk(i, "", id)
			p := tss.NewParameters(ownEC(), ownCtx(ctx), own(id), len(ids), cfg.Threshold)
			setRand(n, p)
			n.endSig = make(chan *common.SignatureData, 16)
			var key *edkg.LocalPartySaveData
			for k := range cfg.EdKeys {
				if cfg.EdKeys[k].ShareID.Cmp(id.KeyInt()) == 0 {
					key = &cfg.EdKeys[k]
				}
			}
			n.EdKey = key
			var fl []int
			if cfg.FullBytesLen > 0 {
				fl = []int{cfg.FullBytesLen}
			}
			n.Party = edsg.NewLocalParty(cfg.Msg, p, *key, n.out, n.endSig, fl...)
			nw.Nodes = append(nw.Nodes, n)
		}
	case EcdsaResharing, EddsaResharing:
		var oldKeys []*big.Int
		if cfg.Proto == EcdsaResharing {
			for i := range cfg.EcKeys {
				oldKeys = append(oldKeys, cfg.EcKeys[i].ShareID)
			}
		} else {
			for i := range cfg.EdKeys {
				oldKeys = append(oldKeys, cfg.EdKeys[i].ShareID)
			}
		}
		oldIDs := makeIDs(oldKeys, nil, "O")
		newIDs := makeIDs(cfg.NewKeys, nil, "N")
		oldCtx, newCtx := tss.NewPeerContext(oldIDs), tss.NewPeerContext(newIDs)
		oldN := cfg.OldN
		if oldN == 0 {
			oldN = len(oldIDs)
		}
		nw.OldN = len(oldIDs)
		for i, id := range oldIDs {
			n := mk(i, "old", id)
			p := tss.NewReSharingParameters(ownEC(), ownCtx(oldCtx), ownCtx(newCtx), own(id), oldN, cfg.Threshold, len(newIDs), cfg.NewThreshold)
			setRand(n, p.Parameters)
			if cfg.NoProofMod {
				p.SetNoProofMod()
			}
			if cfg.NoProofFac {
				p.SetNoProofFac()
			}
			if cfg.Proto == EcdsaResharing {
				n.endKG = make(chan *eckg.LocalPartySaveData, 16)
				for k := range cfg.EcKeys {
					if cfg.EcKeys[k].ShareID.Cmp(id.KeyInt()) == 0 {
						n.EcKey = &cfg.EcKeys[k]
					}
				}
				n.Party = ecrs.NewLocalParty(p, *n.EcKey, n.out, n.endKG)
			} else {
				n.endEdKG = make(chan *edkg.LocalPartySaveData, 16)
				for k := range cfg.EdKeys {
					if cfg.EdKeys[k].ShareID.Cmp(id.KeyInt()) == 0 {
						n.EdKey = &cfg.EdKeys[k]
					}
				}
				n.Party = edrs.NewLocalParty(p, *n.EdKey, n.out, n.endEdKG)
			}
			nw.Nodes = append(nw.Nodes, n)
		}
		for i, id := range newIDs {
			n := mk(len(oldIDs)+i, "new", id)
			p := tss.NewReSharingParameters(ownEC(), ownCtx(oldCtx), ownCtx(newCtx), own(id), oldN, cfg.Threshold, len(newIDs), cfg.NewThreshold)
			setRand(n, p.Parameters)
			if cfg.NoProofMod {
				p.SetNoProofMod()
			}
			if cfg.NoProofFac {
				p.SetNoProofFac()
			}
			if cfg.Proto == EcdsaResharing {
				n.endKG = make(chan *eckg.LocalPartySaveData, 16)
				save := eckg.NewLocalPartySaveData(len(newIDs))
				if i >= len(cfg.PreParams) {
					return nil, fmt.Errorf("not enough pre-params")
				}
				save.LocalPreParams = cfg.PreParams[i]
				n.EcKey = &save
				n.Party = ecrs.NewLocalParty(p, save, n.out, n.endKG)
			} else {
				n.endEdKG = make(chan *edkg.LocalPartySaveData, 16)
				save := edkg.NewLocalPartySaveData(len(newIDs))
				n.EdKey = &save
				n.Party = edrs.NewLocalParty(p, save, n.out, n.endEdKG)
			}
			nw.Nodes = append(nw.Nodes, n)
		}
	default:
		return nil, fmt.Errorf("unknown protocol %q", cfg.Proto)
	}
	for _, n := range nw.Nodes {
		for k := range nw.Cfg.EcKeys {
			if n.EcKey == &nw.Cfg.EcKeys[k] && k < len(nw.KeyHash0) {
				n.KeyHash0 = nw.KeyHash0[k]
			}
		}
		for k := range nw.Cfg.EdKeys {
			if n.EdKey == &nw.Cfg.EdKeys[k] && len(nw.Cfg.EcKeys)+k < len(nw.KeyHash0) {
				n.KeyHash0 = nw.KeyHash0[len(nw.Cfg.EcKeys)+k]
			}
		}
	}
	return nw, nil
}

// nodeByKey finds the node with the given party key inside a committee ("", "old", "new").
func (nw *Network) nodeByKey(key []byte, role string) int {
	k := new(big.Int).SetBytes(key)
	for _, n := range nw.Nodes {
		if n.Role == role && n.ID.KeyInt().Cmp(k) == 0 {
			return n.Idx
		}
	}
	return -1
}

// recipients implements the transport's routing rule from the message's own routing data.
func (nw *Network) recipients(sender *Node, m tss.Message) (to []int, unresolved int) {
	add := func(i int) {
		if i < 0 {
			unresolved++
			return
		}
		if i == sender.Idx {
			return
		}
		for _, x := range to {
			if x == i {
				return
			}
		}
		to = append(to, i)
	}
	dest := m.GetTo()
	if nw.OldN == 0 { // single committee
		if dest == nil {
			for _, n := range nw.Nodes {
				add(n.Idx)
			}
		} else {
			for _, d := range dest {
				add(nw.nodeByKey(d.Key, ""))
			}
		}
	} else {
		if dest == nil {
			unresolved++
		}
		for _, d := range dest {
			switch {
			case m.IsToOldAndNewCommittees():
				o, n := nw.nodeByKey(d.Key, "old"), nw.nodeByKey(d.Key, "new")
				if o < 0 && n < 0 {
					unresolved++
				}
				if o >= 0 {
					add(o)
				}
				if n >= 0 {
					add(n)
				}
			case m.IsToOldCommittee():
				add(nw.nodeByKey(d.Key, "old"))
			default:
				add(nw.nodeByKey(d.Key, "new"))
			}
		}
	}
	sort.Ints(to)
	return
}

// collect drains the node's channels after a call.
func (nw *Network) collect(n *Node) (newMsgs []*Msg) {
	for {
		select {
		case m := <-n.out:
			bz, _, err := m.WireBytes()
			if err != nil {
				n.Panics = append(n.Panics, "WireBytes error: "+err.Error())
				continue
			}
			to, unres := nw.recipients(n, m)
			mm := &Msg{Sender: n.Idx, Seq: len(n.Emitted), Type: shortType(m.Type()), Bytes: bz, Broadcast: m.IsBroadcast(),
				ToNil: m.GetTo() == nil, To: to, ToOld: m.IsToOldCommittee(), ToBoth: m.IsToOldAndNewCommittees(), Raw: m, Unresolved: unres, RawToLen: len(m.GetTo())}
			n.Emitted = append(n.Emitted, mm)
			newMsgs = append(newMsgs, mm)
			continue
		default:
		}
		break
	}
	for {
		select {
		case v := <-n.endKG:
			n.Ends = append(n.Ends, v)
			continue
		case v := <-n.endEdKG:
			n.Ends = append(n.Ends, v)
			continue
		case v := <-n.endSig:
			n.Ends = append(n.Ends, v)
			continue
		default:
		}
		break
	}
	return
}

type StepResult struct {
	OK     bool
	Err    *tss.Error
	Panic  string
	NewMsg []*Msg
}

func (nw *Network) guard(n *Node, f func() (bool, *tss.Error)) (res StepResult) {
	if n.Poisoned {
		// a panic inside an earlier call left the party's lock held: calling again would block forever
		return
	}
	defer func() {
		if x := recover(); x != nil {
			res.Panic = fmt.Sprint(x)
			n.Panics = append(n.Panics, res.Panic)
			n.PanicSites = append(n.PanicSites, panicSite(string(debug.Stack())))
			n.Poisoned = true
		}
		res.NewMsg = nw.collect(n)
	}()
	n.Calls++
	ok, err := f()
	res.OK, res.Err = ok, err
	if err != nil {
		n.Errs = append(n.Errs, err)
	}
	return
}

func (nw *Network) Start(i int) StepResult {
	n := nw.Nodes[i]
	n.Started = true
	return nw.guard(n, func() (bool, *tss.Error) {
		err := n.Party.Start()
		return err == nil, err
	})
}

// Deliver hands message m to node `to` over the production path (wire bytes + routing flag).
func (nw *Network) Deliver(to int, m *Msg) StepResult {
	return nw.DeliverRaw(to, m.Bytes, nw.Nodes[m.Sender].ID, m.Broadcast, m.Ref())
}

func (nw *Network) DeliverRaw(to int, bz []byte, from *tss.PartyID, bcast bool, ref string) StepResult {
	n := nw.Nodes[to]
	mark := ref
	n.Delivered = append(n.Delivered, mark)
	return nw.guard(n, func() (bool, *tss.Error) {
		return n.Party.UpdateFromBytes(bz, from, bcast)
	})
}

// Finished reports whether node i has no current round any more after having been started.
func (nw *Network) Finished(i int) bool {
	n := nw.Nodes[i]
	return n.Started && strings.Contains(n.Party.String(), "No more rounds")
}

func (nw *Network) Round(i int) int {
	s := nw.Nodes[i].Party.String()
	if k := strings.LastIndex(s, "round: "); k >= 0 {
		var r int
		fmt.Sscanf(s[k+7:], "%d", &r)
		return r
	}
	if strings.Contains(s, "No more rounds") {
		if nw.Nodes[i].Started {
			return 99
		}
		return 0
	}
	return -1
}

// Pending copy of a message for one recipient.
type Copy struct {
	M  *Msg
	To int
}

// RunFIFO starts all nodes (in index order, new committee first for resharing as the
// repository's tests do) and delivers every message copy in emission order until quiescence.
func (nw *Network) RunFIFO() (steps int, firstErr *tss.Error, panics []string) {
	var q []Copy
	push := func(ms []*Msg) {
		for _, m := range ms {
			for _, t := range m.To {
				q = append(q, Copy{m, t})
			}
		}
	}
	note := func(r StepResult) {
		if r.Err != nil && firstErr == nil {
			firstErr = r.Err
		}
		if r.Panic != "" {
			panics = append(panics, r.Panic)
		}
		push(r.NewMsg)
	}
	order := []int{}
	for _, n := range nw.Nodes {
		if n.Role == "new" {
			order = append(order, n.Idx)
		}
	}
	for _, n := range nw.Nodes {
		if n.Role != "new" {
			order = append(order, n.Idx)
		}
	}
	for _, i := range order {
		note(nw.Start(i))
		steps++
	}
	for len(q) > 0 {
		c := q[0]
		q = q[1:]
		note(nw.Deliver(c.To, c.M))
		steps++
	}
	return
}

func (nw *Network) AllFinishedOnce() bool {
	for i, n := range nw.Nodes {
		if !nw.Finished(i) || len(n.Ends) != 1 {
			return false
		}
	}
	return true
}
