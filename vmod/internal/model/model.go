// Package model: the reference model of rounds, message types and routing, written from the protocol
// descriptions (DESIGN.md Appendix B), not derived from the implementation.
package model

import "verif/internal/netrun"

// Dest of an emitted message.
const (
	ToPeers = "peers" // every other member of the (single) committee
	ToOne   = "one"   // exactly one addressee per copy, one copy per other member of Committee
	ToNew   = "new"
	ToOld   = "old"
	ToBoth  = "both"
)

type Emit struct {
	Type      string
	P2P       bool   // secret-bearing: exactly one addressee, not flagged broadcast
	Committee string // which committee receives: "", "new", "old", "both"
}

type Req struct {
	Type string
	From string // "", "old", "new"  (committee whose every other member must have sent it)
}

type Round struct {
	Emits    []Emit
	Requires []Req
}

// Spec: rounds are numbered from 1; the last round requires nothing and produces the result.
type Spec map[string][]Round // role ("", "old", "new") -> rounds

func bc(t string) Emit  { return Emit{Type: t} }
func p2p(t string) Emit { return Emit{Type: t, P2P: true} }

var Specs = map[netrun.Proto]Spec{
	netrun.EcdsaKeygen: {"": {
		{Emits: []Emit{bc("KGRound1Message")}, Requires: []Req{{"KGRound1Message", ""}}},
		{Emits: []Emit{p2p("KGRound2Message1"), bc("KGRound2Message2")}, Requires: []Req{{"KGRound2Message1", ""}, {"KGRound2Message2", ""}}},
		{Emits: []Emit{bc("KGRound3Message")}, Requires: []Req{{"KGRound3Message", ""}}},
		{},
	}},
	netrun.EddsaKeygen: {"": {
		{Emits: []Emit{bc("KGRound1Message")}, Requires: []Req{{"KGRound1Message", ""}}},
		{Emits: []Emit{p2p("KGRound2Message1"), bc("KGRound2Message2")}, Requires: []Req{{"KGRound2Message1", ""}, {"KGRound2Message2", ""}}},
		{},
	}},
	netrun.EddsaSigning: {"": {
		{Emits: []Emit{bc("SignRound1Message")}, Requires: []Req{{"SignRound1Message", ""}}},
		{Emits: []Emit{bc("SignRound2Message")}, Requires: []Req{{"SignRound2Message", ""}}},
		{Emits: []Emit{bc("SignRound3Message")}, Requires: []Req{{"SignRound3Message", ""}}},
		{},
	}},
	netrun.EcdsaSigning: {"": {
		{Emits: []Emit{p2p("SignRound1Message1"), bc("SignRound1Message2")}, Requires: []Req{{"SignRound1Message1", ""}, {"SignRound1Message2", ""}}},
		{Emits: []Emit{p2p("SignRound2Message")}, Requires: []Req{{"SignRound2Message", ""}}},
		{Emits: []Emit{bc("SignRound3Message")}, Requires: []Req{{"SignRound3Message", ""}}},
		{Emits: []Emit{bc("SignRound4Message")}, Requires: []Req{{"SignRound4Message", ""}}},
		{Emits: []Emit{bc("SignRound5Message")}, Requires: []Req{{"SignRound5Message", ""}}},
		{Emits: []Emit{bc("SignRound6Message")}, Requires: []Req{{"SignRound6Message", ""}}},
		{Emits: []Emit{bc("SignRound7Message")}, Requires: []Req{{"SignRound7Message", ""}}},
		{Emits: []Emit{bc("SignRound8Message")}, Requires: []Req{{"SignRound8Message", ""}}},
		{Emits: []Emit{bc("SignRound9Message")}, Requires: []Req{{"SignRound9Message", ""}}},
		{},
	}},
	netrun.EddsaResharing: {
		"old": {
			{Emits: []Emit{{Type: "DGRound1Message", Committee: "new"}}},
			{Requires: []Req{{"DGRound2Message", "new"}}},
			{Emits: []Emit{{Type: "DGRound3Message1", P2P: true, Committee: "new"}, {Type: "DGRound3Message2", Committee: "new"}}},
			{Requires: []Req{{"DGRound4Message", "new"}}},
			{},
		},
		"new": {
			{Requires: []Req{{"DGRound1Message", "old"}}},
			{Emits: []Emit{{Type: "DGRound2Message", Committee: "old"}}},
			{Requires: []Req{{"DGRound3Message1", "old"}, {"DGRound3Message2", "old"}}},
			{Emits: []Emit{{Type: "DGRound4Message", Committee: "both"}}, Requires: []Req{{"DGRound4Message", "new"}}},
			{},
		},
	},
	netrun.EcdsaResharing: {
		"old": {
			{Emits: []Emit{{Type: "DGRound1Message", Committee: "new"}}},
			{Requires: []Req{{"DGRound2Message2", "new"}}},
			{Emits: []Emit{{Type: "DGRound3Message1", P2P: true, Committee: "new"}, {Type: "DGRound3Message2", Committee: "new"}}},
			{Requires: []Req{{"DGRound4Message2", "new"}}},
			{},
		},
		"new": {
			{Requires: []Req{{"DGRound1Message", "old"}}},
			{Emits: []Emit{{Type: "DGRound2Message2", Committee: "old"}, {Type: "DGRound2Message1", Committee: "new"}}, Requires: []Req{{"DGRound2Message1", "new"}}},
			{Requires: []Req{{"DGRound3Message1", "old"}, {"DGRound3Message2", "old"}}},
			{Emits: []Emit{{Type: "DGRound4Message1", P2P: true, Committee: "new"}, {Type: "DGRound4Message2", Committee: "both"}}, Requires: []Req{{"DGRound4Message1", "new"}, {"DGRound4Message2", "new"}}},
			{},
		},
	},
}

// Secret-bearing types per the property statement (key shares, MtA ciphertexts and responses, factorisation proofs).
func IsSecretBearing(proto netrun.Proto, t string) bool {
	switch proto {
	case netrun.EcdsaKeygen, netrun.EddsaKeygen:
		return t == "KGRound2Message1"
	case netrun.EcdsaSigning:
		return t == "SignRound1Message1" || t == "SignRound2Message"
	case netrun.EcdsaResharing:
		return t == "DGRound3Message1" || t == "DGRound4Message1"
	case netrun.EddsaResharing:
		return t == "DGRound3Message1"
	}
	return false
}
