// Package rewrite: mechanical source-to-source instrumentation of single /repo files for the
// controlled scheduler. The output is used as a `go build -overlay` replacement; /repo is not touched.
// Supported constructs are rewritten; anything else that would escape the scheduler aborts with an error.
package rewrite

import (
	"bytes"
	"fmt"
	"go/ast"
	"go/format"
	"go/parser"
	"go/token"
	"strconv"
	"strings"
)

const shimPath = "verif/vsched"

type Stats struct {
	GoStmts, Selects, Sends, AccessHooks int
	SyncImport                           bool
}

// File instruments one Go source file.
//   - import "sync" -> the shim (Mutex / WaitGroup with scheduler hooks)
//   - go f(...) / go func(){...}() -> sync.Go(func(){ ... })
//   - select {...} -> switch sync.Choose(...) { ... }
//   - ch <- v (statement) -> sync.Send(ch); ch <- v
//   - accessFields: before the first statement of every function that mentions recv.<field> for one
//     of the named fields, a lock-set monitor hook sync.Access("<func>:<field>") is inserted;
//     accessCalls: the same before statements calling one of the named methods.
func File(src []byte, accessFields, accessCalls []string) ([]byte, Stats, error) {
	var st Stats
	fset := token.NewFileSet()
	f, err := parser.ParseFile(fset, "in.go", src, parser.ParseComments)
	if err != nil {
		return nil, st, err
	}
	// "*" in accessFields: the unexported fields of every struct that holds a sync.Mutex / sync.RWMutex (the
	// state that mutex protects), so that renamed or added fields are followed without editing the harness
	if len(accessFields) == 1 && accessFields[0] == "*" {
		accessFields = nil
		ast.Inspect(f, func(n ast.Node) bool {
			stt, ok := n.(*ast.StructType)
			if !ok || stt.Fields == nil {
				return true
			}
			isMu := func(e ast.Expr) bool {
				se, ok := e.(*ast.SelectorExpr)
				if !ok {
					return false
				}
				id, ok := se.X.(*ast.Ident)
				return ok && id.Name == "sync" && (se.Sel.Name == "Mutex" || se.Sel.Name == "RWMutex")
			}
			has := false
			for _, fl := range stt.Fields.List {
				if isMu(fl.Type) {
					has = true
				}
			}
			if has {
				for _, fl := range stt.Fields.List {
					if isMu(fl.Type) {
						continue
					}
					for _, nm := range fl.Names {
						if !nm.IsExported() {
							accessFields = append(accessFields, nm.Name)
						}
					}
				}
			}
			return true
		})
	}
	// 1. import
	for _, im := range f.Imports {
		if p, _ := strconv.Unquote(im.Path.Value); p == "sync" {
			im.Path.Value = strconv.Quote(shimPath)
			im.Name = ast.NewIdent("sync")
			st.SyncImport = true
		} else if p == "sync/atomic" {
			// atomics are single steps; left as they are
		}
	}
	if !st.SyncImport {
		// add the import
		ast.Inspect(f, func(n ast.Node) bool { return true })
		imp := &ast.ImportSpec{Name: ast.NewIdent("sync"), Path: &ast.BasicLit{Kind: token.STRING, Value: strconv.Quote(shimPath)}}
		added := false
		for _, d := range f.Decls {
			if gd, ok := d.(*ast.GenDecl); ok && gd.Tok == token.IMPORT {
				gd.Specs = append(gd.Specs, imp)
				added = true
				break
			}
		}
		if !added {
			return nil, st, fmt.Errorf("no import declaration to extend")
		}
	}
	var rerr error
	sel := func(name string) ast.Expr { return &ast.SelectorExpr{X: ast.NewIdent("sync"), Sel: ast.NewIdent(name)} }
	lit := func(s string) ast.Expr { return &ast.BasicLit{Kind: token.STRING, Value: strconv.Quote(s)} }
	exprStr := func(e ast.Expr) string {
		var b bytes.Buffer
		_ = format.Node(&b, fset, e)
		return b.String()
	}
	var rewriteStmts func(list []ast.Stmt, fn string) []ast.Stmt
	var rewriteStmt func(s ast.Stmt, fn string) []ast.Stmt
	mentions := func(n ast.Node, fields, calls []string) string {
		found := ""
		ast.Inspect(n, func(x ast.Node) bool {
			if found != "" {
				return false
			}
			if _, ok := x.(*ast.FuncLit); ok {
				return false
			}
			if se, ok := x.(*ast.SelectorExpr); ok {
				for _, fld := range fields {
					if se.Sel.Name == fld {
						found = fld
					}
				}
			}
			if ce, ok := x.(*ast.CallExpr); ok {
				if se, ok := ce.Fun.(*ast.SelectorExpr); ok {
					for _, c := range calls {
						if se.Sel.Name == c {
							found = c + "()"
						}
					}
				}
			}
			return true
		})
		return found
	}
	rewriteBlock := func(b *ast.BlockStmt, fn string) {
		if b != nil {
			b.List = rewriteStmts(b.List, fn)
		}
	}
	rewriteStmt = func(s ast.Stmt, fn string) []ast.Stmt {
		switch x := s.(type) {
		case *ast.GoStmt:
			st.GoStmts++
			// go f(args) -> sync.Go(func() { f(args) })
			ast.Inspect(x.Call, func(n ast.Node) bool {
				if fl, ok := n.(*ast.FuncLit); ok {
					rewriteBlock(fl.Body, fn)
					return false
				}
				return true
			})
			body := &ast.BlockStmt{List: []ast.Stmt{&ast.ExprStmt{X: x.Call}}}
			return []ast.Stmt{&ast.ExprStmt{X: &ast.CallExpr{Fun: sel("Go"), Args: []ast.Expr{&ast.FuncLit{Type: &ast.FuncType{Params: &ast.FieldList{}}, Body: body}}}}}
		case *ast.SendStmt:
			st.Sends++
			hook := &ast.ExprStmt{X: &ast.CallExpr{Fun: sel("Send"), Args: []ast.Expr{lit(exprStr(x.Chan)), x.Chan}}}
			return []ast.Stmt{hook, x}
		case *ast.SelectStmt:
			st.Selects++
			var cases []ast.Expr
			var clauses []ast.Stmt
			var labels []string
			for i, c := range x.Body.List {
				cc := c.(*ast.CommClause)
				body := rewriteStmts(cc.Body, fn)
				var pre ast.Stmt
				switch comm := cc.Comm.(type) {
				case nil:
					cases = append(cases, &ast.CallExpr{Fun: sel("Default")})
					labels = append(labels, "default")
				case *ast.SendStmt:
					cases = append(cases, &ast.CallExpr{Fun: sel("SendOf"), Args: []ast.Expr{comm.Chan}})
					labels = append(labels, exprStr(comm.Chan)+"<-")
					pre = comm
				case *ast.ExprStmt: // <-ch
					ue, ok := comm.X.(*ast.UnaryExpr)
					if !ok || ue.Op != token.ARROW {
						rerr = fmt.Errorf("unsupported select case")
						return []ast.Stmt{s}
					}
					cases = append(cases, &ast.CallExpr{Fun: sel("RecvOf"), Args: []ast.Expr{ue.X}})
					labels = append(labels, "<-"+exprStr(ue.X))
					pre = comm
				case *ast.AssignStmt: // x := <-ch
					if len(comm.Rhs) != 1 {
						rerr = fmt.Errorf("unsupported select case")
						return []ast.Stmt{s}
					}
					ue, ok := comm.Rhs[0].(*ast.UnaryExpr)
					if !ok || ue.Op != token.ARROW {
						rerr = fmt.Errorf("unsupported select case")
						return []ast.Stmt{s}
					}
					cases = append(cases, &ast.CallExpr{Fun: sel("RecvOf"), Args: []ast.Expr{ue.X}})
					labels = append(labels, "<-"+exprStr(ue.X))
					pre = comm
				default:
					rerr = fmt.Errorf("unsupported select case %T", comm)
					return []ast.Stmt{s}
				}
				if pre != nil {
					body = append([]ast.Stmt{pre}, body...)
				}
				clauses = append(clauses, &ast.CaseClause{List: []ast.Expr{&ast.BasicLit{Kind: token.INT, Value: strconv.Itoa(i)}}, Body: body})
			}
			args := append([]ast.Expr{lit(strings.Join(labels, "|"))}, cases...)
			sw := &ast.SwitchStmt{Tag: &ast.CallExpr{Fun: sel("Choose"), Args: args}, Body: &ast.BlockStmt{List: clauses}}
			return []ast.Stmt{sw}
		case *ast.BlockStmt:
			rewriteBlock(x, fn)
		case *ast.IfStmt:
			rewriteBlock(x.Body, fn)
			if x.Else != nil {
				r := rewriteStmt(x.Else, fn)
				if len(r) == 1 {
					x.Else = r[0]
				}
			}
		case *ast.ForStmt:
			rewriteBlock(x.Body, fn)
		case *ast.RangeStmt:
			rewriteBlock(x.Body, fn)
		case *ast.SwitchStmt:
			for _, c := range x.Body.List {
				cc := c.(*ast.CaseClause)
				cc.Body = rewriteStmts(cc.Body, fn)
			}
		case *ast.TypeSwitchStmt:
			for _, c := range x.Body.List {
				cc := c.(*ast.CaseClause)
				cc.Body = rewriteStmts(cc.Body, fn)
			}
		case *ast.LabeledStmt:
			r := rewriteStmt(x.Stmt, fn)
			if len(r) == 1 {
				x.Stmt = r[0]
			} else {
				rerr = fmt.Errorf("labelled statement needs a multi-statement rewrite")
			}
		case *ast.DeferStmt, *ast.ExprStmt, *ast.AssignStmt, *ast.ReturnStmt, *ast.DeclStmt:
			// function literals inside ordinary statements (e.g. `defer func(){...}()`, helpers)
			ast.Inspect(x, func(n ast.Node) bool {
				if fl, ok := n.(*ast.FuncLit); ok {
					rewriteBlock(fl.Body, fn)
					return false
				}
				return true
			})
		}
		return []ast.Stmt{s}
	}
	rewriteStmts = func(list []ast.Stmt, fn string) []ast.Stmt {
		var out []ast.Stmt
		for _, s := range list {
			out = append(out, rewriteStmt(s, fn)...)
		}
		return out
	}
	for _, d := range f.Decls {
		fd, ok := d.(*ast.FuncDecl)
		if !ok || fd.Body == nil {
			continue
		}
		// access hooks first (statement positions of the original body)
		if len(accessFields)+len(accessCalls) > 0 {
			var nl []ast.Stmt
			done := false
			for _, s := range fd.Body.List {
				if !done || len(accessCalls) > 0 {
					if m := mentions(s, accessFields, accessCalls); m != "" {
						if !done || strings.HasSuffix(m, "()") {
							// `lock()` style statements are not accesses themselves
							nl = append(nl, &ast.ExprStmt{X: &ast.CallExpr{Fun: sel("Access"), Args: []ast.Expr{lit(fd.Name.Name + ":" + m)}}})
							st.AccessHooks++
							done = true
						}
					}
				}
				nl = append(nl, s)
			}
			fd.Body.List = nl
		}
		rewriteBlock(fd.Body, fd.Name.Name)
	}
	if rerr != nil {
		return nil, st, rerr
	}
	var buf bytes.Buffer
	if err := format.Node(&buf, fset, f); err != nil {
		return nil, st, err
	}
	return buf.Bytes(), st, nil
}
