// Package core: evidence writer, violation records, known-findings matcher,
// deterministic byte streams. Shared by every check.
package core

import (
	"bufio"
	"crypto/sha256"
	"encoding/binary"
	"encoding/json"
	"fmt"
	"os"
	"path/filepath"
	"sort"
	"strconv"
	"strings"
	"sync"
	"time"
)

// Root of the verification tree (overridable for tests of the machinery itself).
func Root() string {
	if r := os.Getenv("VERIF_ROOT"); r != "" {
		return r
	}
	return "/verif"
}

func WorkDir() string {
	d := filepath.Join(Root(), ".work")
	_ = os.MkdirAll(d, 0o755)
	return d
}

type Finding struct {
	Kind string // known | fixed
	Prop string
	Key  string // glob with '*' (known only)
	Text string
}

type Violation struct {
	Key    string      `json:"key"`
	What   string      `json:"what"`
	Record interface{} `json:"record,omitempty"`
}

type Run struct {
	Prop   string
	Tier   string
	Seed   int64
	Level  string // exploration | fault_enumeration | model_checking
	Engine string

	mu          sync.Mutex
	start       time.Time
	Cov         map[string]interface{}
	Assumptions []string
	viol        []Violation
	knownHit    map[string]int
	findings    []Finding
	samples     []interface{}
	counters    map[string]int64
	distinct    map[string]map[string]struct{}
	Exhaustive  bool
	caps        []string
	ReplayKey   string // replay mode: only this case signature is of interest
}

func NewRun(prop, tier, level, engine string) *Run {
	seed := int64(1)
	if s := os.Getenv("VERIF_SEED"); s != "" {
		if v, err := strconv.ParseInt(s, 10, 64); err == nil {
			seed = v
		}
	}
	r := &Run{Prop: prop, Tier: tier, Seed: seed, Level: level, Engine: engine,
		start: time.Now(), Cov: map[string]interface{}{}, knownHit: map[string]int{},
		counters: map[string]int64{}, distinct: map[string]map[string]struct{}{}, Exhaustive: true}
	r.findings = LoadFindings(prop)
	return r
}

func LoadFindings(prop string) []Finding {
	f, err := os.Open(filepath.Join(Root(), "known-findings.txt"))
	if err != nil {
		return nil
	}
	defer f.Close()
	var out []Finding
	sc := bufio.NewScanner(f)
	sc.Buffer(make([]byte, 1<<20), 1<<20)
	for sc.Scan() {
		line := strings.TrimSpace(sc.Text())
		if line == "" || strings.HasPrefix(line, "#") {
			continue
		}
		var fd Finding
		switch {
		case strings.HasPrefix(line, "known:"):
			fd.Kind = "known"
			line = strings.TrimSpace(line[len("known:"):])
		case strings.HasPrefix(line, "fixed:"):
			fd.Kind = "fixed"
			line = strings.TrimSpace(line[len("fixed:"):])
		default:
			continue
		}
		parts := strings.Fields(line)
		rest := []string{}
		for _, p := range parts {
			switch {
			case strings.HasPrefix(p, "property=") && fd.Prop == "":
				fd.Prop = p[len("property="):]
			case strings.HasPrefix(p, "key=") && fd.Key == "" && fd.Kind == "known":
				fd.Key = p[len("key="):]
			default:
				rest = append(rest, p)
			}
		}
		fd.Text = strings.Join(rest, " ")
		if fd.Prop == prop {
			out = append(out, fd)
		}
	}
	return out
}

// globMatch: '*' matches any run of characters.
func globMatch(pat, s string) bool {
	if !strings.Contains(pat, "*") {
		return pat == s
	}
	parts := strings.Split(pat, "*")
	if !strings.HasPrefix(s, parts[0]) {
		return false
	}
	s = s[len(parts[0]):]
	for i := 1; i < len(parts)-1; i++ {
		idx := strings.Index(s, parts[i])
		if idx < 0 {
			return false
		}
		s = s[idx+len(parts[i]):]
	}
	return strings.HasSuffix(s, parts[len(parts)-1])
}

// Violate records a violation with a case signature key. Known findings are matched by key.
func (r *Run) Violate(key, what string, record interface{}) {
	r.mu.Lock()
	defer r.mu.Unlock()
	// observations that belong to another property (e.g. a panic met while checking arithmetic is
	// C06's business) are counted and listed in the evidence, not reported as this property's violation
	for _, pfx := range []string{"c06-overlap/", "c19-overlap/"} {
		if strings.HasPrefix(key, pfx) || strings.Contains(key, "/"+pfx) {
			r.counters["routed_to_other_property"]++
			if r.distinct["routed_keys"] == nil {
				r.distinct["routed_keys"] = map[string]struct{}{}
			}
			r.distinct["routed_keys"][key] = struct{}{}
			return
		}
	}
	for _, f := range r.findings {
		if f.Kind == "known" && globMatch(f.Key, key) {
			r.knownHit[f.Key]++
			return
		}
	}
	for _, v := range r.viol {
		if v.Key == key {
			return // same signature already reported
		}
	}
	r.viol = append(r.viol, Violation{Key: key, What: what, Record: record})
}

func (r *Run) NViolations() int { r.mu.Lock(); defer r.mu.Unlock(); return len(r.viol) }

func (r *Run) Count(name string, d int64) {
	r.mu.Lock()
	r.counters[name] += d
	r.mu.Unlock()
}

func (r *Run) Get(name string) int64 { r.mu.Lock(); defer r.mu.Unlock(); return r.counters[name] }

// Distinct notes one member of a named set of distinct things (outcomes, sites, ...).
func (r *Run) Distinct(set, member string) {
	r.mu.Lock()
	m := r.distinct[set]
	if m == nil {
		m = map[string]struct{}{}
		r.distinct[set] = m
	}
	m[member] = struct{}{}
	r.mu.Unlock()
}

func (r *Run) NDistinct(set string) int { r.mu.Lock(); defer r.mu.Unlock(); return len(r.distinct[set]) }

func (r *Run) DistinctMembers(set string) []string {
	r.mu.Lock()
	defer r.mu.Unlock()
	var out []string
	for k := range r.distinct[set] {
		out = append(out, k)
	}
	sort.Strings(out)
	return out
}

// Sample keeps up to max written-out cases.
func (r *Run) Sample(max int, s interface{}) {
	r.mu.Lock()
	if len(r.samples) < max {
		r.samples = append(r.samples, s)
	}
	r.mu.Unlock()
}

func (r *Run) ForceSample(s interface{}) {
	r.mu.Lock()
	r.samples = append(r.samples, s)
	r.mu.Unlock()
}

func (r *Run) Cap(what string) {
	r.mu.Lock()
	r.Exhaustive = false
	r.caps = append(r.caps, what)
	r.mu.Unlock()
}

func (r *Run) Assume(s string) { r.mu.Lock(); r.Assumptions = append(r.Assumptions, s); r.mu.Unlock() }

func (r *Run) Set(k string, v interface{}) { r.mu.Lock(); r.Cov[k] = v; r.mu.Unlock() }

func (r *Run) Elapsed() time.Duration { return time.Since(r.start) }

// Finish writes evidence + replay files, prints the interface lines and returns the exit code.
func (r *Run) Finish() int {
	r.mu.Lock()
	defer r.mu.Unlock()
	cov := r.Cov
	for k, v := range r.counters {
		if _, ok := cov[k]; !ok {
			cov[k] = v
		}
	}
	for k, m := range r.distinct {
		if _, ok := cov["distinct_"+k]; !ok {
			cov["distinct_"+k] = len(m)
		}
		if k == "routed_keys" {
			var ks []string
			for x := range m {
				ks = append(ks, x)
			}
			sort.Strings(ks)
			cov["routed_keys"] = ks
		}
	}
	if _, ok := cov["samples"]; !ok {
		cov["samples"] = r.samples
	}
	if _, ok := cov["exhaustive"]; !ok {
		cov["exhaustive"] = r.Exhaustive
	}
	if len(r.caps) > 0 {
		cov["caps_hit"] = r.caps
	}
	kf := []string{}
	for _, f := range r.findings {
		if f.Kind == "known" {
			fmt.Printf("KNOWN-FINDING: property=%s %s [key=%s observed=%d]\n", r.Prop, f.Text, f.Key, r.knownHit[f.Key])
			kf = append(kf, fmt.Sprintf("%s observed=%d", f.Key, r.knownHit[f.Key]))
		}
	}
	cov["known_findings"] = kf
	ev := map[string]interface{}{
		"property_id": r.Prop, "tier": r.Tier, "seed": r.Seed, "level": r.Level,
		"coverage": cov, "assumptions": r.Assumptions,
		"wall_s": float64(int(time.Since(r.start).Seconds()*100)) / 100, "violations": len(r.viol),
		"engine": r.Engine,
	}
	evdir := filepath.Join(Root(), "evidence")
	rdir := filepath.Join(Root(), "replays", r.Prop)
	if r.ReplayKey != "" { // replay mode never touches the committed evidence or replay files
		evdir = filepath.Join(WorkDir(), "replay-evidence")
		rdir = filepath.Join(WorkDir(), "replay-out", r.Prop)
	}
	_ = os.MkdirAll(evdir, 0o755)
	if err := writeJSON(filepath.Join(evdir, r.Prop+".json"), ev); err != nil {
		fmt.Fprintln(os.Stderr, "cannot write evidence:", err)
		return 2
	}
	if r.ReplayKey != "" {
		for _, v := range r.viol {
			if v.Key == r.ReplayKey {
				fmt.Printf("REPRODUCED property=%s key=%s :: %s\n", r.Prop, v.Key, v.What)
				return 1
			}
		}
		fmt.Printf("NOT-REPRODUCED property=%s key=%s (the check no longer reports this case signature)\n", r.Prop, r.ReplayKey)
		return 0
	}
	if len(r.viol) == 0 {
		fmt.Printf("OK property=%s tier=%s wall=%.1fs exhaustive=%v\n", r.Prop, r.Tier, time.Since(r.start).Seconds(), r.Exhaustive)
		return 0
	}
	_ = os.MkdirAll(rdir, 0o755)
	for i, v := range r.viol {
		p := filepath.Join(rdir, fmt.Sprintf("%s-%03d.json", r.Tier, i))
		_ = writeJSON(p, map[string]interface{}{"property": r.Prop, "engine": r.Engine, "key": v.Key, "what": v.What, "record": v.Record, "seed": r.Seed})
		fmt.Printf("VIOLATION property=%s replay=%s key=%s :: %s\n", r.Prop, p, v.Key, v.What)
	}
	return 1
}

func writeJSON(path string, v interface{}) error {
	b, err := json.MarshalIndent(v, "", " ")
	if err != nil {
		return err
	}
	tmp := path + ".tmp"
	if err := os.WriteFile(tmp, append(b, '\n'), 0o644); err != nil {
		return err
	}
	return os.Rename(tmp, path)
}

// ---- deterministic byte stream (SHA-256 counter mode), safe for concurrent use ----

type DRBG struct {
	mu    sync.Mutex
	key   [32]byte
	ctr   uint64
	buf   []byte
	Reads int
}

func NewDRBG(label string) *DRBG {
	d := &DRBG{}
	d.key = sha256.Sum256([]byte(label))
	return d
}

func (d *DRBG) Read(p []byte) (int, error) {
	d.mu.Lock()
	defer d.mu.Unlock()
	d.Reads++
	n := 0
	for n < len(p) {
		if len(d.buf) == 0 {
			var blk [40]byte
			copy(blk[:], d.key[:])
			binary.BigEndian.PutUint64(blk[32:], d.ctr)
			d.ctr++
			h := sha256.Sum256(blk[:])
			d.buf = h[:]
		}
		c := copy(p[n:], d.buf)
		d.buf = d.buf[c:]
		n += c
	}
	return n, nil
}

// Position identifies how much of the stream has been consumed.
func (d *DRBG) Position() uint64 {
	d.mu.Lock()
	defer d.mu.Unlock()
	return d.ctr*32 - uint64(len(d.buf))
}

// Bytes derives n generic bytes from a label.
func Bytes(label string, n int) []byte {
	b := make([]byte, n)
	_, _ = NewDRBG(label).Read(b)
	return b
}

// ParallelFor runs f(i) for i in [0,n) on up to workers goroutines.
func ParallelFor(n, workers int, f func(i int)) {
	if workers < 1 {
		workers = 1
	}
	var wg sync.WaitGroup
	ch := make(chan int)
	for w := 0; w < workers; w++ {
		wg.Add(1)
		go func() {
			defer wg.Done()
			for i := range ch {
				f(i)
			}
		}()
	}
	for i := 0; i < n; i++ {
		ch <- i
	}
	close(ch)
	wg.Wait()
}

// WorkerHook lets an engine register a subprocess entry point: `<bin> worker <args...>`.
var WorkerHook func(args []string) int

// Main is the shared entry point of the per-property commands.
func Main(id, level, engine string, run func(*Run)) int {
	if len(os.Args) >= 2 && os.Args[1] == "worker" {
		if WorkerHook == nil {
			fmt.Fprintln(os.Stderr, "no worker registered")
			return 2
		}
		return WorkerHook(os.Args[2:])
	}
	if len(os.Args) >= 3 && os.Args[1] == "replay" {
		// replay <file>: re-run the exploration that produced the record (same tier, same seed) and
		// report whether the same case signature is observed again
		bz, err := os.ReadFile(os.Args[2])
		if err != nil {
			fmt.Fprintln(os.Stderr, err)
			return 2
		}
		var rec struct {
			Key  string `json:"key"`
			Seed int64  `json:"seed"`
		}
		if err := json.Unmarshal(bz, &rec); err != nil || rec.Key == "" {
			fmt.Fprintln(os.Stderr, "unreadable replay file")
			return 2
		}
		tier := "quick"
		if strings.Contains(filepath.Base(os.Args[2]), "thorough") {
			tier = "thorough"
		}
		os.Setenv("VERIF_SEED", strconv.FormatInt(rec.Seed, 10))
		r := NewRun(id, tier, level, engine)
		r.ReplayKey = rec.Key
		r.findings = nil
		run(r)
		return r.Finish()
	}
	if len(os.Args) < 2 || (os.Args[1] != "quick" && os.Args[1] != "thorough") {
		fmt.Fprintf(os.Stderr, "usage: %s quick|thorough\n", os.Args[0])
		return 2
	}
	r := NewRun(id, os.Args[1], level, engine)
	run(r)
	return r.Finish()
}
