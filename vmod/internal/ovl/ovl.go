// Package ovl: helpers for checks that build instrumented helper binaries with `go build -overlay`.
package ovl

import (
	"encoding/json"
	"fmt"
	"os"
	"os/exec"
	"path/filepath"

	"verif/internal/core"
	"verif/internal/rewrite"
)

type Overlay struct {
	Replace map[string]string
}

// Base returns the overlay the user supplied through VERIF_OVERLAY (or an empty one).
func Base() (*Overlay, error) {
	o := &Overlay{Replace: map[string]string{}}
	if p := os.Getenv("VERIF_OVERLAY"); p != "" {
		bz, err := os.ReadFile(p)
		if err != nil {
			return nil, err
		}
		if err := json.Unmarshal(bz, o); err != nil {
			return nil, err
		}
		if o.Replace == nil {
			o.Replace = map[string]string{}
		}
	}
	return o, nil
}

// Source returns the current source of a /repo file, honouring the user's overlay.
func (o *Overlay) Source(path string) ([]byte, error) {
	if r, ok := o.Replace[path]; ok {
		return os.ReadFile(r)
	}
	return os.ReadFile(path)
}

// Instrument rewrites path for the scheduler and registers the copy in the overlay.
func (o *Overlay) Instrument(dir, path string, fields, calls []string) (rewrite.Stats, error) {
	src, err := o.Source(path)
	if err != nil {
		return rewrite.Stats{}, err
	}
	out, st, err := rewrite.File(src, fields, calls)
	if err != nil {
		return st, err
	}
	dst := filepath.Join(dir, filepath.Base(path))
	if err := os.WriteFile(dst, out, 0o644); err != nil {
		return st, err
	}
	o.Replace[path] = dst
	return st, nil
}

func (o *Overlay) Write(dir string) (string, error) {
	p := filepath.Join(dir, "overlay.json")
	bz, _ := json.Marshal(o)
	return p, os.WriteFile(p, bz, 0o644)
}

// Build compiles pkg (relative to the vmod directory) with the overlay.
func Build(overlayPath, pkg, out string, race bool) error {
	args := []string{"build", "-overlay", overlayPath, "-o", out}
	env := append(os.Environ(), "GOFLAGS=-mod=mod", "GOPROXY=off", "GOSUMDB=off", "GOTOOLCHAIN=local")
	if race {
		args = append(args, "-race")
		env = append(env, "CGO_ENABLED=1")
	} else {
		env = append(env, "CGO_ENABLED=0")
	}
	args = append(args, pkg)
	cmd := exec.Command("go", args...)
	cmd.Dir = filepath.Join(core.Root(), "vmod")
	cmd.Env = env
	bz, err := cmd.CombinedOutput()
	if err != nil {
		return fmt.Errorf("go build %s: %v\n%s", pkg, err, bz)
	}
	return nil
}
