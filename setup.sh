#!/bin/bash
# Offline setup after a fresh restore: warm the Go build cache for the checker.
set -u
export GOFLAGS=-mod=mod GOPROXY=off GOSUMDB=off GOTOOLCHAIN=local CGO_ENABLED=0
cd "$(dirname "$0")/vmod" || exit 1
[ -f go.sum ] || cp /repo/go.sum go.sum
mkdir -p ../.work/bin
go build -o ../.work/bin/check.setup ./cmd/check || exit 1
rm -f ../.work/bin/check.setup
echo setup ok
