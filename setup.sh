#!/bin/bash
# Offline setup after a fresh restore: warm the Go build cache for every check (and the race runtime).
set -u
export GOFLAGS=-mod=mod GOPROXY=off GOSUMDB=off GOTOOLCHAIN=local CGO_ENABLED=0
cd "$(dirname "$0")/vmod" || exit 1
[ -f go.sum ] || cp /repo/go.sum go.sum
mkdir -p ../.work/bin
rc=0
for d in cmd/one/*; do
  go build -o ../.work/bin/setup.tmp "./$d" || { echo "WARN: $d does not build"; rc=1; }
done
rm -f ../.work/bin/setup.tmp
# the C09 check builds its harness with the race detector: warm that cache too
CGO_ENABLED=1 go build -race -o ../.work/bin/setup.tmp ./cmd/sched19 2>/dev/null; rm -f ../.work/bin/setup.tmp
echo "setup done rc=$rc"
exit 0
