#!/bin/bash
# Offline setup after a fresh restore: warm the Go build cache for all checks.
set -u
export GOFLAGS=-mod=mod GOPROXY=off GOSUMDB=off GOTOOLCHAIN=local CGO_ENABLED=0
cd "$(dirname "$0")/vmod" || exit 1
[ -f go.sum ] || cp /repo/go.sum go.sum
go build ./... || exit 1
echo setup ok
